(* ops_amg_block.ml -- model side of harness/amgb_driver.hpp (C03 for block value types and
   coarsening wrappers).  The implementation dumps every level EXPANDED to scalar CRS; on
   expanded matrices the block statements are the scalar ones (coq/AmgBlock.v), so the scalar
   model Amg.v and the scalar statement are used with sizes given in expanded rows.

   amgbm <ce_exp> <dc> <ml> <scale|-> A <k> (0 | 1 P R)*k <nscript> (dump | rebuild A' | cinv)*
       hierarchy model (Amg.amg_init / Amg.amg_rebuild) fed with the implementation's transfer
       operators; prints what the implementation's dump / cinv commands print
   amgb.oracle <ce_exp> <dc> <ml> <adj> <scale|-> <dump>           AmgBlock.dump_ok + levels_ok
   amgb.same <dump> <dump>                                         AmgBlock.same_transfers
   amgb.cinv <scale|-> A P R <n> (vec)*n                           AmgBlock.coarse_inverse_ok
   <dump> = <nlev> (M A P R | L A | S 0 | S 1 A)*                  (crs tokens) *)
open Io

let t_scale t = let s = t_s t in if s = "-" then None else Some (box (parse_q s))

let t_dump t : AmgBlock.dlevel list =
  let n = t_i t in
  List.init n (fun _ ->
      match t_s t with
      | "M" -> let a = t_crs t in let p = t_crs t in let r = t_crs t in AmgBlock.DMid (a, p, r)
      | "L" -> AmgBlock.DLast (t_crs t)
      | "S" -> if t_i t = 1 then AmgBlock.DSolve (Some (t_crs t)) else AmgBlock.DSolve None
      | k -> failwith ("bad dump level kind " ^ k))

let show_dump (ds : AmgBlock.dlevel list) =
  "D " ^ string_of_int (List.length ds) ^
  String.concat "" (List.map (fun d -> match d with
      | AmgBlock.DMid (a, p, r) -> " M " ^ show_crs a ^ " " ^ show_crs p ^ " " ^ show_crs r
      | AmgBlock.DLast a -> " L " ^ show_crs a
      | AmgBlock.DSolve (Some a) -> " S " ^ show_crs a
      | AmgBlock.DSolve None -> " S -") ds)

let show_dense (x : Obj.t list list) =
  let n = List.length x in
  "{" ^ string_of_int n ^ " " ^ string_of_int n ^
  String.concat "" (List.map (fun r ->
      " |" ^ String.concat "" (List.mapi (fun j v -> " " ^ string_of_int j ^ ":" ^ show_s v) r)) x) ^ "}"

(* which clause of dump_ok fails first (for the report only; the verdict is dump_ok's) *)
let explain ce dc adj scale (ds : AmgBlock.dlevel list) =
  let rec go k = function
    | [] -> "empty hierarchy"
    | [d] -> (match d with
        | AmgBlock.DMid _ -> Printf.sprintf "level %d: last level has transfer operators" k
        | AmgBlock.DLast a ->
          if not (AmgBlock.stored_ok sc a) then Printf.sprintf "level %d: A not stored sorted/distinct/in range" k
          else if List.length a.Crs.rows <= ce && dc then Printf.sprintf "level %d: smoother on %d <= coarse_enough rows although direct_coarse" k (List.length a.Crs.rows)
          else Printf.sprintf "level %d: last level ill-formed" k
        | AmgBlock.DSolve o ->
          if not dc then Printf.sprintf "level %d: direct solver although direct_coarse = false" k
          else (match o with Some a when List.length a.Crs.rows > ce -> Printf.sprintf "level %d: direct solver on %d > coarse_enough rows" k (List.length a.Crs.rows)
                           | _ -> Printf.sprintf "level %d: direct-solver level ill-formed" k))
    | d :: (next :: _ as tl) -> (match d with
        | AmgBlock.DMid (a, p, r) ->
          if not (AmgBlock.stored_ok sc a && AmgBlock.stored_ok sc p && AmgBlock.stored_ok sc r) then Printf.sprintf "level %d: A/P/R not stored sorted/distinct/in range" k
          else if not (AmgBlock.shape_spec_ok sc a p r) then Printf.sprintf "level %d: shapes of A, P, R do not fit" k
          else if List.length a.Crs.rows <= ce then Printf.sprintf "level %d: coarsened although rows <= coarse_enough" k
          else if adj && not (AmgBlock.adjoint_spec_ok sc p r) then Printf.sprintf "level %d: R != adjoint(P)" k
          else (match AmgBlock.dl_A sc next with
              | Some an when not (AmgBlock.galerkin_spec_ok sc scale a p r an) -> Printf.sprintf "level %d: A_next != s*R*A*P" k
              | None when p.Crs.ncols > ce -> Printf.sprintf "level %d: direct solver on %d > coarse_enough rows" (k + 1) p.Crs.ncols
              | _ -> go (k + 1) tl)
        | _ -> Printf.sprintf "level %d: a level without transfer operators is not the last" k)
  in go 0 ds

let () =
  reg "amgbm" (fun t ->
    let ce = t_i t in let dc = t_i t <> 0 in let ml = t_i t in
    let scale = t_scale t in
    let a = t_crs t in
    let k = t_i t in
    let ts = List.init k (fun _ -> if t_i t = 1 then (let p = t_crs t in let r = t_crs t in Some (p, r)) else None) in
    let cop = AmgExec.coarse_op_of sc scale in
    if List.length a.Crs.rows <> a.Crs.ncols then raise (Model_exc "logic_error");
    let descs = ref (Amg.amg_init sc ce dc ml cop ts a) in
    let ns = t_i t in
    let out = ref [] in
    for _ = 1 to ns do
      let cmd = t_s t in
      (match cmd with
       | "dump" -> out := show_dump (AmgBlock.show_hier sc !descs) :: !out
       | "rebuild" -> let a2 = t_crs t in descs := Amg.amg_rebuild sc cop !descs a2; out := "ok" :: !out
       | "cinv" ->
         (match List.rev !descs with
          | Amg.LSolve m :: _ ->
            (match AmgBlock.dense_inverse sc m with
             | Some x -> out := ("I " ^ show_dense x) :: !out
             | None -> raise (Model_exc "runtime_error"))
          | _ -> out := "I -" :: !out)
       | _ -> failwith ("bad script command " ^ cmd))
    done;
    String.concat " ; " (List.rev !out));

  reg "amgb.oracle" (fun t ->
    let ce = t_i t in let dc = t_i t <> 0 in let ml = t_i t in let adj = t_i t <> 0 in
    let scale = t_scale t in
    let ds = t_dump t in
    if not (AmgBlock.levels_ok sc ml ds) then Printf.sprintf "FAIL more levels (%d) than max_levels" (List.length ds)
    else if not (AmgBlock.dump_ok sc ce dc adj scale ds) then "FAIL " ^ explain ce dc adj scale ds
    else if not (AmgBlock.decrease_ok sc ds) then
      (* evaluated last: every other clause holds on this dump *)
      "FAIL sizes " ^ String.concat "," (List.filter_map (fun d -> match d with
          | AmgBlock.DMid (a, p, _) when p.Crs.ncols >= List.length a.Crs.rows ->
            Some (Printf.sprintf "%d->%d" (List.length a.Crs.rows) p.Crs.ncols)
          | _ -> None) ds) ^ " level sizes do not strictly decrease"
    else "OK");

  reg "amgb.same" (fun t ->
    let d1 = t_dump t in let d2 = t_dump t in
    if AmgBlock.same_transfers sc d1 d2 then "OK" else "FAIL transfer operators differ");

  reg "amgb.cinv" (fun t ->
    let scale = t_scale t in
    let a = t_crs t in let p = t_crs t in let r = t_crs t in
    let x = t_list t t_vec in
    if AmgBlock.coarse_inverse_ok sc scale a p r x then "OK" else "FAIL direct solver is not the inverse of s*R*A*P")

(* ---------------------------------------------------------------- hierarchies built entirely inside the model
   amgfull <coarsening> <b> <ce> <dc> <ml> <policy> A <nscript> (dump | rebuild A')*
     <b> = 1: the coarsening class is used directly (scalar value type);
     <b> > 1: coarsening::as_scalar<coarsening>::type on b x b block values, everything EXPANDED (A, ce in
              expanded rows): the base operators go through AmgFull.as_scalar_prep b
     <policy> = aggregation:          <eps2> <block_size> <s = (float)(1/over_interp)>
                smoothed_aggregation: <k> <eps2 of level 0..k-1> <block_size> <relax> <c23>
                smoothed_aggr_emin:   <k> <eps2 of level 0..k-1> <block_size>
                ruge_stuben:          <eps_strong> <eps_trunc> <do_trunc>
   AmgFull.amg_init_full: the transfer operators of every level come from Coarsen.coarsen_step (one
   thread); nothing of the implementation's output is an input.  Prints what the dump of
   harness/amg_driver.hpp prints. *)
let zeros n = List.init n (fun _ -> box (parse_q "0"))
let show_ldescs (ls : Amg.ldesc list) = show_dump (AmgBlock.show_hier sc ls)

let () =
  reg "amgfull" (fun t ->
    let kind = t_s t in
    let b = t_i t in
    let prep = if b <= 1 then (fun x -> Some x) else AmgFull.as_scalar_prep sc b in
    let ce = t_i t in let dc = t_i t <> 0 in let ml = t_i t in
    let pol = (match kind with
      | "aggregation" -> let e2 = t_q t in let bs = t_i t in let s = t_q t in Coarsen.PolAggregation (e2, bs, s)
      | "smoothed_aggregation" -> let es = t_list t t_q in let bs = t_i t in let relax = t_q t in let c23 = t_q t in
        Coarsen.PolSA (es, bs, relax, c23)
      | "smoothed_aggr_emin" -> let es = t_list t t_q in let bs = t_i t in Coarsen.PolEmin (es, bs)
      | "ruge_stuben" -> let es = t_q t in let et = t_q t in let dt = t_i t <> 0 in Coarsen.PolRS (es, et, dt)
      | k -> failwith ("bad coarsening " ^ k)) in
    let a = t_crs t in
    if List.length a.Crs.rows <> a.Crs.ncols then raise (Model_exc "logic_error");
    (* vq::Q default-constructs to 0: scratch arrays of the coarsening hold zeros; level sizes never
       exceed the size of the finest matrix *)
    let n = List.length a.Crs.rows in
    let junk = (fun _ -> zeros n) and junkf = (fun _ -> []) in
    let cop = AmgFull.policy_cop sc pol in
    let descs = ref (match AmgFull.amg_init_full sc ce dc ml 1 junk junkf prep pol a with
        | AmgFull.FullOk ls -> ls
        | AmgFull.FullPrecond -> raise (Model_exc "runtime_error")
        | AmgFull.FullOob -> raise (Model_exc "MODEL-OOB")) in
    let ns = t_i t in
    let out = ref [] in
    for _ = 1 to ns do
      (match t_s t with
       | "dump" -> out := show_ldescs !descs :: !out
       | "rebuild" -> let a2 = t_crs t in descs := Amg.amg_rebuild sc cop !descs a2; out := "ok" :: !out
       | cmd -> failwith ("bad script command " ^ cmd))
    done;
    String.concat " ; " (List.rev !out))
