(* ops_dist.ml -- model side of harness/drv_mpi_algebra.cpp (C11).
   Every op prints one string per rank, joined by " ; ", exactly as rank 0 of the MPI
   driver does after gathering.  "spec" ops evaluate the serial operation on the global
   matrix and cut the result along the partition (what C11 demands); the other ops run the
   rank-by-rank model of Dist.v (what the code does). *)
open Io

(* every per-rank string of the MPI driver ends with the verdict of the request-discipline monitor
   (harness/pmpi_trace.hpp); the code as modelled satisfies the discipline *)
let join l = String.concat " ; " (List.map (fun s -> s ^ " PMPI ok") l)
let nranks cp = List.length cp
let ranks cp = List.init (nranks cp) (fun r -> r)
let check_parts (a : Crs.crs) rp cp =
  if List.length rp <> List.length cp then failwith "partition lists of different length";
  if Dist.psum rp <> List.length a.Crs.rows || Dist.psum cp <> a.Crs.ncols then raise (Model_exc "runtime_error")

(* one strip in global numbering; canon: entries sorted by (column, printed value) *)
let show_rows ?(canon=false) (n : int) (m : int) (rows : Crs.row list) =
  let bad = ref false in
  let rs = List.map (fun r ->
      let es = List.map (fun (c, v) -> if c < 0 || c >= m then bad := true; (c, show_s v)) r in
      let es = if canon then List.sort compare es else es in
      " |" ^ String.concat "" (List.map (fun (c, s) -> " " ^ string_of_int c ^ ":" ^ s) es)) rows in
  if !bad then "BADDM col-out-of-range" else
  "{" ^ string_of_int n ^ " " ^ string_of_int m ^ String.concat "" rs ^ "}"

let strips_list ?(canon=false) ?(sizes=true) (d : Dist.dmat) (gcols : int) : string list =
  let ss = Dist.strips sc d in
  let gs = Dist.dist_glob_sizes sc d in
  List.mapi (fun r rows ->
      let s = show_rows ~canon (List.length rows) gcols rows in
      if sizes then (let ((gr, gc), gz) = List.nth gs r in Printf.sprintf "%s %d %d %d" s gr gc gz) else s) ss
let show_strips ?(canon=false) ?(sizes=true) (d : Dist.dmat) (gcols : int) = join (strips_list ~canon ~sizes d gcols)

let chunks_vec parts v = Kernels.chunks parts v
let show_chunks parts v = join (List.map show_vec (chunks_vec parts v))

let () =
  reg "split" (fun t -> let a = t_crs t in let rp = t_ivec t in let cp = t_ivec t in
    check_parts a rp cp;
    show_strips (Dist.split sc a rp cp) a.Crs.ncols);

  reg "cpat" (fun t -> let a = t_crs t in let rp = t_ivec t in let cp = t_ivec t in
    check_parts a rp cp;
    let d = Dist.split sc a rp cp in
    let pats = Dist.dm_pattern sc d in
    join (List.map (fun (p : Dist.cpat) ->
      let idx = List.mapi (fun i c -> Printf.sprintf "%d>%d,%d" c (Dist.cp_domain cp p c) (Dist.index_of c p.Dist.cp_rc)) p.Dist.cp_rc in
      Printf.sprintf "recv %s %s send %s %s %s idx [%s] cnt %d %d %d %d"
        (show_ivec (Dist.nbrs p.Dist.cp_recv)) (show_ivec (Dist.nbr_ptr p.Dist.cp_recv))
        (show_ivec (Dist.nbrs p.Dist.cp_send)) (show_ivec (Dist.nbr_ptr p.Dist.cp_send))
        (show_ivec (Dist.nbr_cols p.Dist.cp_send)) (String.concat " " idx)
        (List.length p.Dist.cp_rc) (List.length (Dist.nbr_cols p.Dist.cp_send))
        (if p.Dist.cp_rc = [] then 0 else 1) p.Dist.cp_beg) pats));

  reg "spmv" (fun t -> let alpha = t_q t in let a = t_crs t in let rp = t_ivec t in let cp = t_ivec t in
    let x = t_vec t in let beta = t_q t in let y = t_vec t in
    check_parts a rp cp;
    if List.length x <> a.Crs.ncols || List.length y <> List.length a.Crs.rows then raise (Model_exc "runtime_error");
    let d = Dist.split sc a rp cp in
    join (List.map show_vec (Dist.dist_spmv sc alpha d (chunks_vec cp x) beta (chunks_vec rp y))));

  reg "residual" (fun t -> let f = t_vec t in let a = t_crs t in let rp = t_ivec t in let cp = t_ivec t in
    let x = t_vec t in
    check_parts a rp cp;
    let d = Dist.split sc a rp cp in
    let junk = List.map (fun _ -> sc.Scalar.s0) f in
    join (List.map show_vec (Dist.dist_residual sc (chunks_vec rp f) d (chunks_vec cp x) (chunks_vec rp junk))));

  reg "spmv2" (fun t -> let a = t_crs t in let rp = t_ivec t in let cp = t_ivec t in
    let x1 = t_vec t in let x2 = t_vec t in
    check_parts a rp cp;
    let d = Dist.split sc a rp cp in
    let z = chunks_vec rp (List.map (fun _ -> sc.Scalar.s0) a.Crs.rows) in
    let y1 = Dist.dist_spmv sc sc.Scalar.s1 d (chunks_vec cp x1) sc.Scalar.s0 z in
    let y2 = Dist.dist_spmv sc sc.Scalar.s1 d (chunks_vec cp x2) sc.Scalar.s0 z in
    join (List.map2 (fun a b -> show_vec a ^ " " ^ show_vec b) y1 y2));

  reg "spmvres" (fun t -> let a = t_crs t in let rp = t_ivec t in let cp = t_ivec t in
    let x1 = t_vec t in let f = t_vec t in let x2 = t_vec t in let x3 = t_vec t in
    check_parts a rp cp;
    let d = Dist.split sc a rp cp in
    let z = chunks_vec rp (List.map (fun _ -> sc.Scalar.s0) a.Crs.rows) in
    let y1 = Dist.dist_spmv sc sc.Scalar.s1 d (chunks_vec cp x1) sc.Scalar.s0 z in
    let r2 = Dist.dist_residual sc (chunks_vec rp f) d (chunks_vec cp x2) z in
    let y3 = Dist.dist_spmv sc sc.Scalar.s1 d (chunks_vec cp x3) sc.Scalar.s0 z in
    join (List.map2 (fun (a, b) c -> show_vec a ^ " " ^ show_vec b ^ " " ^ show_vec c) (List.combine y1 r2) y3));

  reg "inner" (fun t -> let p = t_ivec t in let x = t_vec t in let y = t_vec t in
    if Dist.psum p <> List.length x || List.length x <> List.length y then raise (Model_exc "runtime_error");
    join (List.map show_s (Dist.dist_inner_product sc (chunks_vec p x) (chunks_vec p y))));

  (* spec ops: serial operation on the global matrix, cut along the partition *)
  reg "transpose" (fun t -> let a = t_crs t in let rp = t_ivec t in let cp = t_ivec t in
    check_parts a rp cp;
    let tr = MatOps.transpose sc a in
    show_strips ~canon:true (Dist.split sc tr cp rp) tr.Crs.ncols);

  (* rank-by-rank model of mpi::transpose, storage order *)
  reg "transpose_s" (fun t -> let a = t_crs t in let rp = t_ivec t in let cp = t_ivec t in
    check_parts a rp cp;
    show_strips ~sizes:false (Dist.dist_transpose sc (Dist.split sc a rp cp) rp) (List.length a.Crs.rows));

  reg "product" (fun t -> let a = t_crs t in let rpa = t_ivec t in let cpa = t_ivec t in
    let b = t_crs t in let cpb = t_ivec t in
    check_parts a rpa cpa; check_parts b cpa cpb;
    let c = MatOps.spgemm_saad sc a b false in
    show_strips ~canon:true (Dist.split sc c rpa cpb) c.Crs.ncols);

  (* rank-by-rank model of mpi::product, storage order *)
  reg "product_s" (fun t -> let a = t_crs t in let rpa = t_ivec t in let cpa = t_ivec t in
    let b = t_crs t in let cpb = t_ivec t in
    check_parts a rpa cpa; check_parts b cpa cpb;
    show_strips ~sizes:false (Dist.dist_product sc (Dist.split sc a rpa cpa) (Dist.split sc b cpa cpb)) b.Crs.ncols);

  reg "rrows" (fun t -> let a = t_crs t in let rpa = t_ivec t in let cpa = t_ivec t in
    let b = t_crs t in let cpb = t_ivec t in
    check_parts a rpa cpa; check_parts b cpa cpb;
    let da = Dist.split sc a rpa cpa in let db = Dist.split sc b cpa cpb in
    let pats = Dist.dm_pattern sc da in
    join (List.map (fun r -> let rows = Dist.dist_remote_rows sc pats db r in
                     show_rows (List.length rows) b.Crs.ncols rows) (ranks cpa)));

  reg "scale" (fun t -> let a = t_crs t in let rp = t_ivec t in let cp = t_ivec t in let s = t_q t in
    check_parts a rp cp;
    show_strips ~sizes:false (Dist.dist_scale sc (Dist.split sc a rp cp) s) a.Crs.ncols);

  reg "sort_rows" (fun t -> let a = t_crs t in let rp = t_ivec t in let cp = t_ivec t in
    check_parts a rp cp;
    show_strips ~sizes:false (Dist.dist_sort_rows sc (Dist.split sc a rp cp)) a.Crs.ncols);

  reg "tspmv" (fun t -> let a = t_crs t in let rp = t_ivec t in let cp = t_ivec t in let x = t_vec t in
    check_parts a rp cp;
    let tr = MatOps.transpose sc a in
    let y = List.map (fun _ -> sc.Scalar.s0) tr.Crs.rows in
    show_chunks cp (Kernels.spmv sc sc.Scalar.s1 tr x sc.Scalar.s0 y));

  reg "pspmv" (fun t -> let a = t_crs t in let rpa = t_ivec t in let cpa = t_ivec t in
    let b = t_crs t in let cpb = t_ivec t in let x = t_vec t in
    check_parts a rpa cpa; check_parts b cpa cpb;
    let c = MatOps.spgemm_saad sc a b false in
    let y = List.map (fun _ -> sc.Scalar.s0) c.Crs.rows in
    show_chunks rpa (Kernels.spmv sc sc.Scalar.s1 c x sc.Scalar.s0 y));

  reg "copyf" (fun t -> let a = t_crs t in let rp = t_ivec t in let cp = t_ivec t in let x = t_vec t in
    check_parts a rp cp;
    let y = List.map (fun _ -> sc.Scalar.s0) a.Crs.rows in
    let nz = List.fold_left (fun s r -> s + List.length r) 0 a.Crs.rows in
    join (List.map (fun v -> Printf.sprintf "%s %d %d %d" (show_vec v) (List.length a.Crs.rows) a.Crs.ncols nz)
            (chunks_vec rp (Kernels.spmv sc sc.Scalar.s1 a x sc.Scalar.s0 y))));

  (* Gershgorin: "gersh" = rank-by-rank model of the code, one OpenMP thread per rank (per-rank maxima,
     Allreduce(MAX)); "gersht" = the same with nt threads per rank (libgomp static schedule: contiguous
     chunks Kernels.omp_static_lens); "gersh_spec" = what C11 demands: the SERIAL estimate
     Cheby.gershgorin of the assembled matrix on every rank.  Since /repo ed6ca09 + 18c5201 all three agree
     (theorem C11_gershgorin_every_partition). *)
  reg "gersh" (fun t -> let scale = (t_i t) <> 0 in let a = t_crs t in let p = t_ivec t in
    check_parts a p p;
    join (List.map show_s (Dist.dist_gershgorin sc scale (Dist.split sc a p p))));
  reg "gersht" (fun t -> let scale = (t_i t) <> 0 in let nt = t_i t in let a = t_crs t in let p = t_ivec t in
    check_parts a p p;
    if nt < 1 then raise (Model_exc "runtime_error");
    let lenss = List.map (fun n -> Kernels.omp_static_lens n nt) p in
    join (List.map show_s (Dist.dist_gershgorin_thr sc scale lenss (Dist.split sc a p p))));
  let spec t = let scale = (t_i t) <> 0 in let a = t_crs t in let p = t_ivec t in
    check_parts a p p;
    join (List.map show_s (Dist.dist_gershgorin_spec sc scale a (List.length p))) in
  reg "gersh_spec" spec;
  reg "gersht_spec" (fun t -> let scale = t_i t in let _nt = t_i t in
    let a = t_crs t in let p = t_ivec t in
    check_parts a p p;
    join (List.map show_s (Dist.dist_gershgorin_spec sc (scale <> 0) a (List.length p))))

(* ---- operation histories on one distributed_matrix object (DistMove.v) ----
   hist A rparts cparts B kparts x f nsteps step* : the state is the extracted DistMove.dobj; mv0/mv1 apply the extracted
   DistMove.move_to_backend; the consumers read DistMove.source (what local()/remote() return) resp. the backend view
   (DistMove.obj_spmv / obj_residual) of the CURRENT state.  Output format: harness/drv_mpi_algebra.cpp, op hist. *)
let () =
  reg "hist" (fun t -> let a = t_crs t in let rp = t_ivec t in let cp = t_ivec t in
    let b = t_crs t in let kp = t_ivec t in
    let x = t_vec t in let f = t_vec t in
    let steps = t_list t next in
    check_parts a rp cp; check_parts b cp kp;
    if List.length x <> a.Crs.ncols || List.length f <> List.length a.Crs.rows then raise (Model_exc "runtime_error");
    let np = nranks cp in
    let s0 = sc.Scalar.s0 and s1 = sc.Scalar.s1 in
    let st = ref (DistMove.construct sc (Dist.split sc a rp cp)) in
    let outs = Array.make np [] in
    let push per = if List.length per <> np then failwith "hist: per-rank list"; List.iteri (fun r s -> outs.(r) <- s :: outs.(r)) per in
    let all s = List.init np (fun _ -> s) in
    let b2i = function Some _ -> 1 | None -> 0 in
    let zeros = chunks_vec rp (List.map (fun _ -> s0) a.Crs.rows) in
    let xs = chunks_vec cp x and fs = chunks_vec rp f in
    let opt_crs = function Some m -> show_crs m | None -> "-" in
    let nrows_a = List.length a.Crs.rows in
    List.iter (fun step ->
      let o = !st in
      let with_src k = match DistMove.source sc o with None -> push (all "NOSRC") | Some d -> push (k d) in
      match step with
      | "mv0" | "mv1" ->
          st := DistMove.move_to_backend sc (step = "mv1") o;
          push (List.map (fun (ro : DistMove.rank_obj) ->
            Printf.sprintf "mv%d%d%d%d x%s" (b2i ro.DistMove.ob_bloc) (b2i ro.DistMove.ob_brem) (b2i ro.DistMove.ob_src) (b2i ro.DistMove.ob_src)
              (match ro.DistMove.ob_xrem with Some k -> string_of_int k | None -> "-")) (!st).DistMove.do_ranks)
      | "dump" ->
          push (List.mapi (fun r (ro : DistMove.rank_obj) ->
            let src = match ro.DistMove.ob_src with
              | None -> "-"
              | Some m -> let rows = Dist.strip_rows sc (Dist.pbeg cp r) m in show_rows (List.length rows) a.Crs.ncols rows in
            Printf.sprintf "src=%s bk=%s,%s" src (opt_crs ro.DistMove.ob_bloc) (opt_crs ro.DistMove.ob_brem)) o.DistMove.do_ranks)
      | "spmv" ->
          push (List.map (function Some v -> show_vec v | None -> "NOBK") (DistMove.obj_spmv sc s1 o xs s0 zeros))
      | "res" ->
          push (List.map (function Some v -> show_vec v | None -> "NOBK") (DistMove.obj_residual sc fs o xs zeros))
      | "tr" -> with_src (fun d -> strips_list (Dist.dist_transpose sc d rp) nrows_a)
      | "prod" -> with_src (fun d -> strips_list (Dist.dist_product sc d (Dist.split sc b cp kp)) b.Crs.ncols)
      | "ata" -> with_src (fun d -> strips_list (Dist.dist_product sc (Dist.dist_transpose sc d rp) d) a.Crs.ncols)
      | "rrt" -> with_src (fun d ->
          let pats = Dist.dm_pattern sc (Dist.dist_transpose sc d rp) in
          List.map (fun r -> let rows = Dist.dist_remote_rows sc pats d r in show_rows (List.length rows) a.Crs.ncols rows) (ranks cp))
      | "copyf" ->
          (match DistMove.copy_obj sc o with
           | None -> push (all "NOSRC")
           | Some c ->
               let c' = DistMove.move_to_backend sc true c in
               (match DistMove.source sc c', DistMove.source sc o with
                | Some dc, Some d ->
                    let gs = Dist.dist_glob_sizes sc d in
                    let strips = strips_list ~sizes:false dc a.Crs.ncols in
                    push (List.mapi (fun r y ->
                      let ((gr, gc), gz) = List.nth gs r in
                      Printf.sprintf "%s %d %d %d %s" (match y with Some v -> show_vec v | None -> "NOBK") gr gc gz (List.nth strips r))
                      (DistMove.obj_spmv sc s1 c' xs s0 zeros))
                | _ -> push (all "NOSRC")))
      | "g0" | "g1" -> with_src (fun d -> List.map show_s (Dist.dist_gershgorin sc (step = "g1") d))
      | "pw" -> with_src (fun _ -> all "pw same")
      | s -> failwith ("hist: unknown step " ^ s)) steps;
    join (Array.to_list (Array.map (fun l -> String.concat " / " (List.rev l)) outs)))

(* ---- message-passing model (DistMsg.v) ---- *)
(* canonical text of a rank's trace, as harness/pmpi_trace.hpp prints it: request variables = handles,
   buffers: receive slice i = b<i>, send slice j = b<nr+j>; 8 bytes per value; writes are not MPI calls *)
let show_trace (p : Dist.cpat) (prog : Vec.vec DistMsg.prog) =
  let nr = List.length (Dist.nbrs p.Dist.cp_recv) in
  let ev = function
    | DistMsg.Irecv (h, s, q, t) -> [Printf.sprintf "R%d:%d:%d:%d:b%d" h q t (8 * List.length (List.nth p.Dist.cp_recv q)) s]
    | DistMsg.Isend (h, b, q, t) -> [Printf.sprintf "S%d:%d:%d:%d:b%d" h q t (8 * List.length (List.nth p.Dist.cp_send q)) (nr + b)]
    | DistMsg.Wait [] -> []
    | DistMsg.Wait hs -> ["W" ^ String.concat "," (List.map string_of_int hs)]
    | DistMsg.Write _ -> [] in
  match List.concat_map ev prog with [] -> "-" | l -> String.concat " " l

(* parse one trace token back into an event (the oracle runs on the IMPLEMENTATION's trace) *)
let parse_ev (tok : string) : Vec.vec DistMsg.ev =
  let body = String.sub tok 1 (String.length tok - 1) in
  let num s = int_of_string s in
  match tok.[0] with
  | 'W' -> DistMsg.Wait (List.map num (String.split_on_char ',' body))
  | c -> (match String.split_on_char ':' body with
          | [h; q; t; _bytes; b] ->
              let b = num (String.sub b 1 (String.length b - 1)) in
              if c = 'R' then DistMsg.Irecv (num h, b, num q, num t)
              else if c = 'S' then DistMsg.Isend (num h, b, num q, num t)
              else failwith ("bad trace token " ^ tok)
          | _ -> failwith ("bad trace token " ^ tok))

let () =
  (* xtrace A rparts cparts x1 x2 : the program of two consecutive ghost exchanges (DistMsg.exch_rounds, proved
     disciplined and equal to Dist.exchange under every admissible schedule) in the shim's trace format *)
  reg "xtrace" (fun t -> let a = t_crs t in let rp = t_ivec t in let cp = t_ivec t in
    let x1 = t_vec t in let x2 = t_vec t in
    check_parts a rp cp;
    let d = Dist.split sc a rp cp in
    let pats = Dist.dm_pattern sc d in
    let w = DistMsg.exch_rounds sc 1003 pats [chunks_vec cp x1; chunks_vec cp x2] in
    join (List.map2 show_trace pats w));

  (* msgcheck np (n tok*n)*np : the extracted discipline checkers of DistMsg.v on the traces the shim recorded
     on the np ranks (oracle stage).  (a)+(f) all_waited, (d) slots_exclusive, (c) chans_exclusive per rank;
     channel balance (as many sends q->r with tag t as receives on r from q with tag t) over the world.
     send_stable is vacuous here: the shim cannot see the writes (it compares buffer snapshots instead). *)
  reg "msgcheck" (fun t -> let np = t_i t in
    let w = List.init np (fun _ -> t_list t (fun t -> parse_ev (next t))) in
    let bad = ref [] in
    List.iteri (fun r p ->
      if not (DistMsg.all_waited p) then bad := Printf.sprintf "all_waited@%d" r :: !bad;
      if not (DistMsg.send_stable p) then bad := Printf.sprintf "send_stable@%d" r :: !bad;
      if not (DistMsg.slots_exclusive p) then bad := Printf.sprintf "slots_exclusive@%d" r :: !bad;
      if not (DistMsg.chans_exclusive p) then bad := Printf.sprintf "chans_exclusive@%d" r :: !bad) w;
    List.iteri (fun q pq -> List.iter (function
      | DistMsg.Isend (_, _, r, tg) ->
          let ns = List.length (DistMsg.positions (DistMsg.is_send_to r tg) pq) in
          let nrcv = if r < np then DistMsg.count (DistMsg.is_recv_from q tg) (List.nth w r) else -1 in
          if ns <> nrcv then bad := Printf.sprintf "unbalanced@%d->%d:%d" q r tg :: !bad
      | _ -> ()) pq) w;
    List.iteri (fun r pr -> List.iter (function
      | DistMsg.Irecv (_, _, q, tg) ->
          let nrcv = DistMsg.count (DistMsg.is_recv_from q tg) pr in
          let ns = if q < np then List.length (DistMsg.positions (DistMsg.is_send_to r tg) (List.nth w q)) else -1 in
          if ns <> nrcv then bad := Printf.sprintf "unbalanced@%d->%d:%d" q r tg :: !bad
      | _ -> ()) pr) w;
    if !bad = [] then "OK" else "FAIL " ^ String.concat " " (List.sort_uniq compare !bad))
