(* ops_dist_block.ml -- model side of harness/drv_mpi_algebra_block.cpp (C11 at block value types).
   The SAME extracted model functions as ops_dist.ml (Dist.v: split, dist_spmv, dist_residual, dist_transpose,
   dist_product, dist_remote_rows, dist_scale, dist_sort_rows, dist_glob_sizes) and the same serial kernels
   (MatOps.transpose / spgemm_saad, Kernels.spmv) run at the Scalar instance
       BlockInst.coq_BlockS sc b        (static_matrix<Q,b,b>; products do NOT commute).
   Vector entries (static_matrix<T,b,1>) travel as column-0 blocks (BlockInst.blk_col) and are checked to keep that
   shape on output; base scalars (alpha, beta, the factor of mpi::scale) are embedded as c*I (BlockInst.blk_embed).
   No inverse is taken anywhere in these ops.  Output format: header of drv_mpi_algebra_block.cpp. *)
open Io

let inst_cache : (int, Scalar.coq_Scalar) Hashtbl.t = Hashtbl.create 5
let inst b =
  match Hashtbl.find_opt inst_cache b with
  | Some s -> s
  | None -> let s = BlockInst.coq_BlockS sc b in Hashtbl.replace inst_cache b s; s

let join = Ops_dist.join
let check_parts = Ops_dist.check_parts
let chunks parts v = Kernels.chunks parts v

let t_blk b t : Obj.t = Obj.repr (List.init (b * b) (fun _ -> t_q t))
let t_bcrs b t : Crs.crs =
  let n = t_i t in let m = t_i t in
  let rows = List.init n (fun _ -> t_list t (fun t -> let c = t_i t in let v = t_blk b t in (c, v))) in
  { Crs.ncols = m; Crs.rows = rows }
let t_bvec b t : Obj.t list =
  let n = t_i t in
  List.init n (fun _ -> let v = List.init b (fun _ -> t_q t) in Obj.repr (BlockInst.blk_col sc b v))
let embed b (c : Obj.t) : Obj.t = Obj.repr (BlockInst.blk_embed sc b c)
let cells (a : Obj.t) : Obj.t list = Obj.obj a
let show_blk (a : Obj.t) = String.concat ";" (List.map show_s (cells a))
let show_bvec b (v : Obj.t list) =
  List.iter (fun a -> if not (BlockInst.blk_is_col sc b (Obj.obj a)) then raise (Model_exc "vector_shape")) v;
  "[" ^ String.concat " " (List.concat_map (fun a -> List.map show_s (BlockInst.blk_col0 sc b (Obj.obj a))) v) ^ "]"

(* one strip in global numbering; canon: entries sorted by (column, printed block) *)
let show_rows ?(canon=false) (n : int) (m : int) (rows : Crs.row list) =
  let bad = ref false in
  let rs = List.map (fun r ->
      let es = List.map (fun (c, v) -> if c < 0 || c >= m then bad := true; (c, show_blk v)) r in
      let es = if canon then List.sort compare es else es in
      " |" ^ String.concat "" (List.map (fun (c, s) -> " " ^ string_of_int c ^ ":" ^ s) es)) rows in
  if !bad then "BADDM col-out-of-range" else
  "{" ^ string_of_int n ^ " " ^ string_of_int m ^ String.concat "" rs ^ "}"
let show_bcrs (a : Crs.crs) = show_rows (List.length a.Crs.rows) a.Crs.ncols a.Crs.rows

let strips_list ?(canon=false) ?(sizes=true) s (d : Dist.dmat) (gcols : int) : string list =
  let ss = Dist.strips s d in
  let gs = Dist.dist_glob_sizes s d in
  List.mapi (fun r rows ->
      let str = show_rows ~canon (List.length rows) gcols rows in
      if sizes then (let ((gr, gc), gz) = List.nth gs r in Printf.sprintf "%s %d %d %d" str gr gc gz) else str) ss
let show_strips ?(canon=false) ?(sizes=true) s d gcols = join (strips_list ~canon ~sizes s d gcols)
let show_chunks b parts v = join (List.map (show_bvec b) (chunks parts v))
let zeros s n = List.init n (fun _ -> s.Scalar.s0)
let nrows (a : Crs.crs) = List.length a.Crs.rows

let () =
  (* what MPI ships: b*b (resp. b) doubles, contiguous *)
  reg "b.dtype" (fun t -> let b = t_i t in
    let np = (try t_i t with _ -> 1) in
    join (List.init np (fun _ -> Printf.sprintf "blk %d %d %d rhs %d %d %d" (8*b*b) (8*b*b) (8*b*b) (8*b) (8*b) (8*b))));

  reg "b.split" (fun t -> let b = t_i t in let s = inst b in let a = t_bcrs b t in let rp = t_ivec t in let cp = t_ivec t in
    check_parts a rp cp;
    show_strips s (Dist.split s a rp cp) a.Crs.ncols);

  reg "b.spmv" (fun t -> let b = t_i t in let s = inst b in
    let alpha = embed b (t_q t) in let a = t_bcrs b t in let rp = t_ivec t in let cp = t_ivec t in
    let x = t_bvec b t in let beta = embed b (t_q t) in let y = t_bvec b t in
    check_parts a rp cp;
    if List.length x <> a.Crs.ncols || List.length y <> nrows a then raise (Model_exc "runtime_error");
    let d = Dist.split s a rp cp in
    join (List.map (show_bvec b) (Dist.dist_spmv s alpha d (chunks cp x) beta (chunks rp y))));

  reg "b.residual" (fun t -> let b = t_i t in let s = inst b in
    let f = t_bvec b t in let a = t_bcrs b t in let rp = t_ivec t in let cp = t_ivec t in let x = t_bvec b t in
    check_parts a rp cp;
    if List.length x <> a.Crs.ncols || List.length f <> nrows a then raise (Model_exc "runtime_error");
    let d = Dist.split s a rp cp in
    join (List.map (show_bvec b) (Dist.dist_residual s (chunks rp f) d (chunks cp x) (chunks rp (zeros s (nrows a))))));

  reg "b.spmvres" (fun t -> let b = t_i t in let s = inst b in
    let a = t_bcrs b t in let rp = t_ivec t in let cp = t_ivec t in
    let x1 = t_bvec b t in let f = t_bvec b t in let x2 = t_bvec b t in let x3 = t_bvec b t in
    check_parts a rp cp;
    let d = Dist.split s a rp cp in
    let z = chunks rp (zeros s (nrows a)) in
    let y1 = Dist.dist_spmv s s.Scalar.s1 d (chunks cp x1) s.Scalar.s0 z in
    let r2 = Dist.dist_residual s (chunks rp f) d (chunks cp x2) z in
    let y3 = Dist.dist_spmv s s.Scalar.s1 d (chunks cp x3) s.Scalar.s0 z in
    join (List.map2 (fun (a, b') c -> show_bvec b a ^ " " ^ show_bvec b b' ^ " " ^ show_bvec b c) (List.combine y1 r2) y3));

  (* mpi::inner_product on rhs-block vectors: per-rank backend::inner_product (BlockKernels.bvec_inner_serial: Kahan loop over
     math::inner_product(static_matrix<T,b,1>, static_matrix<T,b,1>)), then Allreduce(SUM) of the base scalars *)
  reg "b.inner" (fun t -> let b = t_i t in let p = t_ivec t in let x = t_bvec b t in let y = t_bvec b t in
    if Dist.psum p <> List.length x || List.length x <> List.length y then raise (Model_exc "runtime_error");
    let locals = List.map2 (fun xl yl -> BlockKernels.bvec_inner_serial sc b (Obj.magic xl) (Obj.magic yl)) (chunks p x) (chunks p y) in
    join (List.map show_s (Dist.allreduce_sum sc locals)));

  (* spec ops: serial block operation on the global matrix, cut along the partition *)
  reg "b.transpose" (fun t -> let b = t_i t in let s = inst b in let a = t_bcrs b t in let rp = t_ivec t in let cp = t_ivec t in
    check_parts a rp cp;
    let tr = MatOps.transpose s a in
    show_strips ~canon:true s (Dist.split s tr cp rp) tr.Crs.ncols);
  (* rank-by-rank model of mpi::transpose, storage order *)
  reg "b.transpose_s" (fun t -> let b = t_i t in let s = inst b in let a = t_bcrs b t in let rp = t_ivec t in let cp = t_ivec t in
    check_parts a rp cp;
    show_strips ~sizes:false s (Dist.dist_transpose s (Dist.split s a rp cp) rp) (nrows a));

  reg "b.product" (fun t -> let b = t_i t in let s = inst b in let a = t_bcrs b t in let rpa = t_ivec t in let cpa = t_ivec t in
    let c = t_bcrs b t in let cpb = t_ivec t in
    check_parts a rpa cpa; check_parts c cpa cpb;
    let p = MatOps.spgemm_saad s a c false in
    show_strips ~canon:true s (Dist.split s p rpa cpb) p.Crs.ncols);
  reg "b.product_s" (fun t -> let b = t_i t in let s = inst b in let a = t_bcrs b t in let rpa = t_ivec t in let cpa = t_ivec t in
    let c = t_bcrs b t in let cpb = t_ivec t in
    check_parts a rpa cpa; check_parts c cpa cpb;
    show_strips ~sizes:false s (Dist.dist_product s (Dist.split s a rpa cpa) (Dist.split s c cpa cpb)) c.Crs.ncols);

  (* Galerkin triple product as mpi::coarsening::*::coarse_operator computes it: R = transpose(P), product(R, product(A, P));
     R, A*P, A_c rank by rank in storage order (Dist.dist_transpose / Dist.dist_product), then "Cc": the SERIAL
     spgemm_saad(transpose P, spgemm_saad(A, P)) cut along the partition, canonical *)
  reg "b.galerkin" (fun t -> let b = t_i t in let s = inst b in let a = t_bcrs b t in let p = t_ivec t in
    let pm = t_bcrs b t in let kp = t_ivec t in
    check_parts a p p; check_parts pm p kp;
    let da = Dist.split s a p p in let dp = Dist.split s pm p kp in
    let dr = Dist.dist_transpose s dp p in
    let ap = Dist.dist_product s da dp in
    let ac = Dist.dist_product s dr ap in
    let k = pm.Crs.ncols in
    let serial = MatOps.spgemm_saad s (MatOps.transpose s pm) (MatOps.spgemm_saad s a pm false) false in
    let l1 = strips_list ~sizes:false s dr (nrows a) in
    let l2 = strips_list ~sizes:false s ap k in
    let l3 = strips_list s ac k in
    let l4 = strips_list ~canon:true ~sizes:false s (Dist.split s serial kp kp) k in
    join (List.init (List.length p) (fun r ->
      Printf.sprintf "R%s AP%s C%s Cc%s" (List.nth l1 r) (List.nth l2 r) (List.nth l3 r) (List.nth l4 r))));

  reg "b.rrows" (fun t -> let b = t_i t in let s = inst b in let a = t_bcrs b t in let rpa = t_ivec t in let cpa = t_ivec t in
    let c = t_bcrs b t in let cpb = t_ivec t in
    check_parts a rpa cpa; check_parts c cpa cpb;
    let da = Dist.split s a rpa cpa in let db = Dist.split s c cpa cpb in
    let pats = Dist.dm_pattern s da in
    join (List.map (fun r -> let rows = Dist.dist_remote_rows s pats db r in
                     show_rows (List.length rows) c.Crs.ncols rows) (Ops_dist.ranks cpa)));

  reg "b.scale" (fun t -> let b = t_i t in let s = inst b in let a = t_bcrs b t in let rp = t_ivec t in let cp = t_ivec t in
    let f = embed b (t_q t) in
    check_parts a rp cp;
    show_strips ~sizes:false s (Dist.dist_scale s (Dist.split s a rp cp) f) a.Crs.ncols);

  reg "b.sort_rows" (fun t -> let b = t_i t in let s = inst b in let a = t_bcrs b t in let rp = t_ivec t in let cp = t_ivec t in
    check_parts a rp cp;
    show_strips ~sizes:false s (Dist.dist_sort_rows s (Dist.split s a rp cp)) a.Crs.ncols);

  reg "b.tspmv" (fun t -> let b = t_i t in let s = inst b in let a = t_bcrs b t in let rp = t_ivec t in let cp = t_ivec t in
    let x = t_bvec b t in
    check_parts a rp cp;
    let tr = MatOps.transpose s a in
    show_chunks b cp (Kernels.spmv s s.Scalar.s1 tr x s.Scalar.s0 (zeros s (nrows tr))));

  reg "b.pspmv" (fun t -> let b = t_i t in let s = inst b in let a = t_bcrs b t in let rpa = t_ivec t in let cpa = t_ivec t in
    let c = t_bcrs b t in let cpb = t_ivec t in let x = t_bvec b t in
    check_parts a rpa cpa; check_parts c cpa cpb;
    let p = MatOps.spgemm_saad s a c false in
    show_chunks b rpa (Kernels.spmv s s.Scalar.s1 p x s.Scalar.s0 (zeros s (nrows p))));

  (* copy to builtin<static_matrix<float,b,b>> (integer data, exact in float): product through the copy = serial product;
     the copy's source strips = the constructor's split *)
  reg "b.copyf" (fun t -> let b = t_i t in let s = inst b in let a = t_bcrs b t in let rp = t_ivec t in let cp = t_ivec t in
    let x = t_bvec b t in
    check_parts a rp cp;
    let nz = List.fold_left (fun k r -> k + List.length r) 0 a.Crs.rows in
    let src = strips_list ~sizes:false s (Dist.split s a rp cp) a.Crs.ncols in
    join (List.map2 (fun v st -> Printf.sprintf "%s %d %d %d %s" (show_bvec b v) (nrows a) a.Crs.ncols nz st)
            (chunks rp (Kernels.spmv s s.Scalar.s1 a x s.Scalar.s0 (zeros s (nrows a)))) src))
