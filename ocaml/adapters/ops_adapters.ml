(* ops_adapters.ml -- model side of harness/drv_adapters.cpp, drv_pcorder.cpp (C17, C13):
   the extracted Adapters.v model evaluated at QcS, plus oracle ops ("o.*") that evaluate
   the extracted *specification* (KernelsProofs.Ax = dense A x) on implementation outputs. *)
open Io
module A = Adapters

let s0 = sc.Scalar.s0
let s1 = sc.Scalar.s1
let qeq (a : Obj.t) (b : Obj.t) = sc.Scalar.seqb a b
let of_int k = box (mkq (Big_int_Z.big_int_of_int k) Big_int_Z.unit_big_int)
let nrows (a : Crs.crs) = List.length a.Crs.rows
let sevens n = List.init n (fun _ -> of_int 7)
let zeros n = List.init n (fun _ -> s0)
let izeros n = List.init n (fun _ -> 0)

let itype_of = function
  | "int" -> A.it_int | "long" -> A.it_long | "unsigned" -> A.it_unsigned
  | "size_t" -> A.it_size_t | "ptrdiff_t" -> A.it_ptrdiff_t
  | _ -> raise (Model_exc "invalid_argument")

let dims (a : 'x A.adapter) = Printf.sprintf "%d %d %d" a.A.a_rows a.A.a_cols a.A.a_nnz
let spmv1 (c : Crs.crs) x = show_vec (Kernels.spmv sc s1 c x s0 (sevens (nrows c)))
let square (m : Crs.crs) = if m.Crs.ncols <> nrows m then raise (Model_exc "invalid_argument")

let show_blk (v : Obj.t list list) =
  "(" ^ String.concat ";" (List.map (fun r -> String.concat "," (List.map show_s r)) v) ^ ")"
let show_gcrs showv (g : 'x A.gcrs) =
  let m = g.A.gncols in
  let bad = ref false in
  let rows = List.map (fun r ->
      " |" ^ String.concat "" (List.map (fun (c, v) -> if c < 0 || c >= m then bad := true;
                                 " " ^ string_of_int c ^ ":" ^ showv v) r)) g.A.grows in
  if !bad then "BADCRS col-out-of-range" else
  "{" ^ string_of_int (List.length g.A.grows) ^ " " ^ string_of_int m ^ String.concat "" rows ^ "}"

let ok_of l = match List.filter (fun (_, b) -> not b) l with
  | [] -> "OK" | bad -> "FAIL " ^ String.concat "," (List.map fst bad)
let veq a b = List.length a = List.length b && List.for_all2 qeq a b
let ax (m : Crs.crs) x = List.init (nrows m) (fun i -> KernelsProofs.coq_Ax sc m x i)
let is_perm p n = List.sort compare p = List.init n (fun i -> i)

(* ---- preconditioner models available in the base (Relax.v) ---- *)
let unit n i = List.init n (fun j -> if i = j then s1 else s0)
let dense_apply n f =
  let rows = List.init n (fun i -> List.mapi (fun j v -> (j, v)) (f (unit n i) (zeros n))) in
  show_crs { Crs.ncols = n; Crs.rows = rows }

let () =
  let tuple_like t =
    let it = itype_of (t_s t) in let m = t_crs t in let x = t_vec t in
    square m;
    let a = A.tuple_adapter sc it (nrows m) (A.flat_ptr sc m) (A.flat_col sc m) (A.flat_val sc m) in
    let c = A.to_crs sc a in
    dims a ^ " " ^ show_crs c ^ " " ^ show_crs c ^ " " ^ spmv1 c x in
  reg "tuple" tuple_like; reg "tuple_range" tuple_like;
  (* tuple of non-contiguous random-access ranges (strided view, std::deque): the same view; the first token names the container *)
  reg "tuple_nc" (fun t -> let _kind = t_s t in tuple_like t);
  let zc t =
    let it = itype_of (t_s t) in let m = t_crs t in let x = t_vec t in
    let a = A.zero_copy_adapter sc it (nrows m) m.Crs.ncols (A.flat_ptr sc m) (A.flat_col sc m) (A.flat_val sc m) in
    let c = A.to_crs sc a in
    "alias=1 own=0 copy_owns=1 " ^ dims a ^ " " ^ show_crs c ^ " " ^ spmv1 c x ^ " intact=1" in
  reg "zero_copy" zc; reg "zero_copy_direct" zc;
  (* index types at the edge of their range: zero_copy_direct<itype> view, generic copy, tuple iteration.
     Adapters.idx_conv is Z.to_nat o store dst o store src o Z.of_nat; the two nat<->Z embeddings are extracted as
     unary recursions (ExtrOcamlNatInt + ExtrOcamlZBigInt), infeasible for 2^32-sized values, so the conversion is
     composed here from the SAME extracted [Adapters.store] on big integers, and handed to the extracted
     [Adapters.arr_row] (the row function of tuple_adapter / zero_copy_adapter, which takes the conversion as a
     parameter). *)
  reg "idx" (fun t -> let it = itype_of (t_s t) in let m = t_crs t in
    let n = nrows m in
    let ptr = A.flat_ptr sc m and col = A.flat_col sc m and vl = A.flat_val sc m in
    let cv (c : int) : int =
      Big_int_Z.int_of_big_int (A.store A.it_ptrdiff_t (A.store it (Big_int_Z.big_int_of_int c))) in
    let rows = List.init n (fun i -> A.arr_row sc cv ptr col vl i) in
    let nnz = if n = 0 then 0 else cv (List.nth ptr n) in
    let c = { Crs.ncols = m.Crs.ncols; Crs.rows = rows } in
    let cols = List.concat_map (fun r -> List.map fst r) rows in
    Printf.sprintf "%d %d %d" n m.Crs.ncols nnz ^ " " ^ show_crs c ^ " " ^ show_crs c
    ^ " [" ^ String.concat "" (List.map (fun c -> " " ^ string_of_int c) cols) ^ " ]");
  reg "builder" (fun t -> let m = t_crs t in let x = t_vec t in
    square m;
    let rows = Array.of_list m.Crs.rows in
    let a = A.builder_adapter sc (nrows m) (Crs.nnz sc m) (fun i -> rows.(i)) in
    let c = A.to_crs sc a in
    dims a ^ " " ^ show_crs c ^ " " ^ show_crs c ^ " " ^ spmv1 c x);
  (* block adapter composed with another adapter: the underlying adapter is a view (C17 view theorems), so the
     model is the one of `block` *)
  reg "block_over" (fun t -> let _under = t_s t in let b = t_i t in let m = t_crs t in let x = t_vec t in
    let alpha = t_q t in let beta = t_q t in let y = t_vec t in
    if b < 2 || b > 4 then raise (Model_exc "invalid_argument");
    if m.Crs.ncols <> List.length m.Crs.rows then raise (Model_exc "invalid_argument");
    let v = A.crs_view sc m in
    if not (A.block_ok sc b v) then raise (Model_exc "runtime_error");
    let a = A.block_adapter sc b v in
    let g = A.to_gcrs a in
    let sums = A.of_blocks sc (A.bspmv_sums sc b g (A.to_blocks sc b x)) in
    dims a ^ " " ^ show_gcrs show_blk g ^ " " ^ show_gcrs show_blk g ^ " " ^ show_crs (A.unblock sc b g)
    ^ " " ^ show_vec (Kernels.axpby sc alpha sums beta y));
  reg "block" (fun t -> let b = t_i t in let m = t_crs t in let x = t_vec t in
    let alpha = t_q t in let beta = t_q t in let y = t_vec t in
    if b < 2 || b > 4 then raise (Model_exc "invalid_argument");
    let v = A.crs_view sc m in
    if not (A.block_ok sc b v) then raise (Model_exc "runtime_error");
    let a = A.block_adapter sc b v in
    let g = A.to_gcrs a in
    let sums = A.of_blocks sc (A.bspmv_sums sc b g (A.to_blocks sc b x)) in
    dims a ^ " " ^ show_gcrs show_blk g ^ " " ^ show_gcrs show_blk g ^ " " ^ show_crs (A.unblock sc b g)
    ^ " " ^ show_vec (Kernels.axpby sc alpha sums beta y));
  reg "cplx" (fun t -> let re = t_crs t in let im = t_crs t in let xr = t_vec t in let xi = t_vec t in
    square re;
    let rows = List.map2 (fun r1 r2 -> List.map2 (fun (c, a) (c', b) -> if c <> c' then raise (Model_exc "invalid_argument"); (c, (a, b))) r1 r2)
        re.Crs.rows im.Crs.rows in
    let g = { A.gncols = re.Crs.ncols; A.grows = rows } in
    let a = A.complex_adapter sc (A.gcrs_view g) in
    let c = A.to_crs sc a in
    let z = List.map2 (fun a b -> (a, b)) xr xi in
    let w = List.map (fun r -> A.cdotrow sc r z) rows in
    dims a ^ " " ^ show_crs c ^ " " ^ spmv1 c (A.interleave sc z) ^ " " ^ show_vec (A.interleave sc w));
  reg "reorder_view" (fun t -> let m = t_crs t in let p = t_ivec t in let x = t_vec t in
    square m; let n = nrows m in
    let a = A.reorder_adapter sc (A.crs_view sc m) p (A.inv_perm p (izeros n)) in
    let c = A.to_crs sc a in
    let fw = A.perm_forward sc p x in
    dims a ^ " " ^ show_crs c ^ " " ^ show_crs c ^ " " ^ show_vec fw ^ " " ^ show_vec (A.perm_inverse sc p x (sevens n))
    ^ " " ^ show_vec fw ^ " " ^ spmv1 c x);
  reg "scaled_view" (fun t -> let m = t_crs t in let s = t_vec t in let x = t_vec t in
    square m;
    let a = A.scaled_adapter sc (A.crs_view sc m) s in
    let c = A.to_crs sc a in
    let sx = A.scale_vec sc s x in
    dims a ^ " " ^ show_crs c ^ " " ^ show_crs c ^ " " ^ show_vec sx ^ " " ^ show_vec sx);

  (* third-party containers: the adapter must be the identity view of the source matrix
     (Eigen: rows()/cols()/nonZeros(); uBlas: the tuple of its index arrays, size_t) *)
  let eig t = let m = t_crs t in let x = t_vec t in
    let a = A.crs_view sc m in let c = A.to_crs sc a in
    dims a ^ " " ^ show_crs c ^ " " ^ show_crs c ^ " " ^ spmv1 c x in
  reg "eigen" eig; reg "eigen_map" eig; reg "eigen_unc" eig;
  reg "ublas" (fun t -> let m = t_crs t in let x = t_vec t in
    let a = A.tuple_adapter sc A.it_size_t (nrows m) (A.flat_ptr sc m) (A.flat_col sc m) (A.flat_val sc m) in
    let c = A.to_crs sc a in
    dims a ^ " " ^ show_crs c ^ " " ^ show_crs c ^ " " ^ spmv1 c x);

  (* ---- oracles on implementation outputs ---- *)
  reg "o.reorder_solve" (fun t -> let m = t_crs t in let f = t_vec t in
    let p = t_ivec t in let y = t_vec t in let x = t_vec t in
    let n = nrows m in
    if not (is_perm p n) then "FAIL not-a-permutation" else
    let b = A.to_crs sc (A.reorder_adapter sc (A.crs_view sc m) p (A.inv_perm p (izeros n))) in
    ok_of [ "permuted-system (PAP^T)y=Pf", veq (ax b y) (A.perm_forward sc p f);
            "back-permutation x=P^Ty", veq x (A.perm_inverse sc p y (zeros n));
            "original-system Ax=f", veq (ax m x) f ]);
  reg "o.scaled_solve" (fun t -> let m = t_crs t in let f = t_vec t in let dflt = t_i t in
    let s = t_vec t in let y = t_vec t in let x = t_vec t in
    let v = A.crs_view sc m in
    let b = A.to_crs sc (A.scaled_adapter sc v s) in
    ok_of [ "scale = 1/sqrt|a_ii|", (dflt = 0 || veq s (A.scale_diagonal sc v));
            "scaled-system (SAS)y=Sf", veq (ax b y) (A.scale_vec sc s f);
            "post-scaling x=Sy", veq x (A.scale_vec sc s y);
            "original-system Ax=f", veq (ax m x) f ]);
  (* scalar spmv of the ORIGINAL matrix must equal the block formulation's result *)
  reg "o.spmv_same" (fun t -> let m = t_crs t in let x = t_vec t in
    let alpha = t_q t in let beta = t_q t in let y = t_vec t in let got = t_vec t in
    ok_of [ "block spmv = scalar spmv", veq got (Kernels.spmv sc alpha m x beta y) ]);
  reg "o.solves" (fun t -> let m = t_crs t in let f = t_vec t in let x = t_vec t in
    ok_of [ "Ax=f", veq (ax m x) f ]);
  (* truthful residual: the reported relative residual is |f - A x| / |f| of the returned x
     (norms as the backend computes them: sqrt of the inner product, Kernels.norm2) *)
  reg "o.resid" (fun t -> let m = t_crs t in let f = t_vec t in let x = t_vec t in let rep = t_q t in
    let r = List.map2 (fun fi axi -> sc.Scalar.ssub fi axi) f (ax m x) in
    let rel = sc.Scalar.sdiv (Kernels.norm2 sc r) (Kernels.norm2 sc f) in
    ok_of [ "reported residual = |f-Ax|/|f|", qeq rep rel ]);
  (* complex system solved through its real equivalent: x interleaved (re, im) *)
  reg "o.cplx_solves" (fun t -> let re = t_crs t in let im = t_crs t in let fr = t_vec t in let fi = t_vec t in let x = t_vec t in
    let rows = List.map2 (fun r1 r2 -> List.map2 (fun (c, a) (_, b) -> (c, (a, b))) r1 r2) re.Crs.rows im.Crs.rows in
    let rec deint = function a :: b :: tl -> (a, b) :: deint tl | _ -> [] in
    let z = deint x in
    let w = List.map (fun r -> A.cdotrow sc r z) rows in
    ok_of [ "complex system A z = f", List.length z = List.length fr &&
            List.for_all2 (fun (wr, wi) (a, b) -> qeq wr a && qeq wi b) w (List.map2 (fun a b -> (a, b)) fr fi) ]);

  (* ---- preconditioners: faithful entry-point models (sorting / not sorting) ----
     relaxation::as_preconditioner sorts a copy of the user matrix on entry since /repo 71caa28
     (Adapters.sorting_entry = AdaptersProofs3.asp_entry); preconditioner::dummy only copies *)
  reg "pc" (fun t -> let kind = t_s t in let m = t_crs t in
    square m; let n = nrows m in
    let v = A.crs_view sc m in
    match kind with
    | "asp_damped_jacobi" ->
      A.sorting_entry sc (fun c -> let dia = Relax.jacobi_setup sc c (zeros n) in
                         dense_apply n (fun rhs x -> Relax.jacobi_apply sc dia rhs x)) v
    | "asp_spai0" ->
      A.sorting_entry sc (fun c -> let mm = Relax.spai0_setup sc c in
                         dense_apply n (fun rhs x -> Relax.spai0_apply sc mm rhs x)) v
    | "asp_gauss_seidel" ->
      A.sorting_entry sc (fun c -> dense_apply n (fun rhs x -> Relax.gs_apply sc c rhs x)) v
    | "dummy" ->
      A.plain_entry sc (fun _ -> dense_apply n (fun rhs x -> Kernels.vcopy sc rhs x)) v
    | _ -> "UNMODELLED")
