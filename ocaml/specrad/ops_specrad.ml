(* ops_specrad.ml -- C08, the two spectral-radius clauses: oracle ops of the stage run_specrad (tools/props/C08.py).
   Model driver group "specrad" (coq/Extract_specrad.v).  Every check is an extracted Coq function of
   SpecRadSpec.v / SpecRadPower.v / SpecRadBlock.v evaluated on the implementation's output; the theorems that make
   the checks consequences of the model are in Properties_C08.v section 7:
     sr.o.power  scale iters A start r           power_oracle: 0 <= r, r^2 <= ||A||_F^2 t^2 (t = |last iterate|^2 of
                                                 the model run from the same start vector; exact for ANY ssqrt:
                                                 C08_power_oracle_accepts_model)
     sr.o.geig   scale A v lam r                 eig_check(_scaled) A v lam  and  |lam| <= r
                                                 (C08_gershgorin_eigenpair_oracle_Qc)
     sr.o.bgeig  b scale A v lam r               beig_check(_scaled) at BlockS QcS b,  r = bgersh_spec (value), and
                                                 |lam| <= r + (G' - G), G = bgersh_spec with nrm = the pseudo root norm,
                                                 G' = bgersh_spec with SpecRadGrid.bnrm_up = nrm + 2^-64 (the floor root on
                                                 the 2^-64 grid is below the true root by less than 2^-64, C08_qc_sqrt_grid;
                                                 with value: |lam| <= G' is C08_block_gershgorin_bound_grid_Qc)
   Also the model ops the stage diffs the implementation against:
     sr.power scale iters A start -> q           MatOps2.spectral_radius_power (as "specrad_power" of ops_matops.ml)
   Vectors of blocks: n then n*b*b rationals (each entry a full b x b block; a column vector is blk_col). *)
open Io

let t_b t = (t_i t) <> 0
let okl l = match List.filter (fun (_, b) -> not b) l with
  | [] -> "OK" | bad -> "FAIL " ^ String.concat "," (List.map fst bad)

let inst_cache : (int, Scalar.coq_Scalar) Hashtbl.t = Hashtbl.create 5
let inst b =
  match Hashtbl.find_opt inst_cache b with
  | Some s -> s
  | None ->
    let bs = BlockInst.coq_BlockS sc b in
    let s = { bs with Scalar.sinv = (fun a ->
        match BlockInst.blk_inverse sc b (Obj.obj a) with
        | None -> raise (Model_exc "singular_block")
        | Some _ -> bs.Scalar.sinv a) } in
    Hashtbl.replace inst_cache b s; s
let t_blk b t : Obj.t = Obj.repr (List.init (b * b) (fun _ -> t_q t))
let t_bcrs b t : Crs.crs =
  let n = t_i t in let m = t_i t in
  let rows = List.init n (fun _ -> t_list t (fun t -> let c = t_i t in let v = t_blk b t in (c, v))) in
  { Crs.ncols = m; Crs.rows = rows }
let t_blocks b t : Obj.t list = let n = t_i t in List.init n (fun _ -> t_blk b t)
let embed b (c : Obj.t) : Obj.t = Obj.repr (BlockInst.blk_embed sc b c)

let square (a : Crs.crs) = List.length a.Crs.rows = a.Crs.ncols

let () =
  reg "sr.power" (fun t -> let scale = t_b t in let it = t_i t in let a = t_crs t in let b0 = t_vec t in
    show_s (MatOps2.spectral_radius_power sc scale a it b0));
  reg "sr.o.power" (fun t -> let scale = t_b t in let it = t_i t in let a = t_crs t in let b0 = t_vec t in let r = t_q t in
    okl [ "domain", Crs.wf sc a && square a && it > 0 && List.length b0 = List.length a.Crs.rows;
          "bound", SpecRadPower.power_oracle sc scale a it b0 r ]);
  reg "sr.o.geig" (fun t -> let scale = t_b t in let a = t_crs t in let v = t_vec t in let lam = t_q t in let r = t_q t in
    okl [ "domain", Crs.wf sc a && square a;
          "eigenpair", (if scale then SpecRadSpec.eig_check_scaled sc a v lam else SpecRadSpec.eig_check sc a v lam);
          "bound", SpecRadSpec.bound_check sc r lam ]);
  reg "sr.o.bgeig" (fun t -> let b = t_i t in let s = inst b in let scale = t_b t in let a = t_bcrs b t in
    let v = t_blocks b t in let lam = t_q t in let r = t_q t in
    let nrm (x : Obj.t) : Obj.t = SpecRadBlock.bnrm sc b x in
    let nrm' (x : Obj.t) : Obj.t = SpecRadGrid.bnrm_up b x in
    let g = SpecRadBlock.bgersh_spec sc s nrm scale a in
    let g' = SpecRadBlock.bgersh_spec sc s nrm' scale a in
    okl [ "domain", Crs.wf s a && square a;
          "eigenpair", (if scale then SpecRadSpec.beig_check_scaled sc s (embed b) a v lam
                        else SpecRadSpec.beig_check sc s (embed b) a v lam);
          "value", sc.Scalar.seqb g r;
          "bound", SpecRadSpec.bound_check sc (sc.Scalar.sadd r (sc.Scalar.ssub g' g)) lam ])
