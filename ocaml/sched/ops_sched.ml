(* ops_sched.ml -- model side of harness/drv_sched.cpp (C09). *)
open Io

let show_tasks (l : (int * int) list) =
  "[" ^ String.concat " " (List.map (fun (b, e) -> string_of_int b ^ " " ^ string_of_int e) l) ^ "]"

(* payload: <nthreads> then per thread: [b e ...] [ord ...] {k ncols | rows} ([D ...]) *)
let show_tables (nt : int) (sch : Sched.rsched) (a : Crs.crs) (d : Obj.t list option) =
  let per tid =
    let rows = GsSched.thread_rows sc a sch tid in
    " " ^ show_tasks (Sched.thread_tasks sch tid) ^ " " ^ show_ivec (Sched.thread_ord sch tid) ^ " "
    ^ show_crs { Crs.ncols = a.Crs.ncols; Crs.rows = rows }
    ^ (match d with None -> "" | Some dv -> " " ^ show_vec (IluSched.thread_diag sc dv sch tid)) in
  string_of_int nt ^ String.concat "" (List.init nt per)

(* tables as tokens: <nthreads> then per thread: <ntasks> (b e)* <nord> i* *)
let t_tables t =
  let nt = t_i t in
  List.init nt (fun _ ->
    let tasks = t_list t (fun t -> let b = t_i t in let e = t_i t in (b, e)) in
    let ord = t_ivec t in (tasks, ord))

let check_tables (reads : int -> int list) (n : int) (forward : bool) tb =
  if not (Sched.tables_uniform tb) then "FAIL tasks-not-uniform" else
  let sch = Sched.sched_of_tables tb in
  if not (Sched.sched_is_perm n sch) then "FAIL not-a-permutation" else
  match Sched.first_conflict reads sch with
  | Some (k, (i, j)) -> Printf.sprintf "FAIL conflict level=%d i=%d reads j=%d" k i j
  | None ->
    match Sched.first_dep_violation reads n forward sch with
    | Some (i, c) -> Printf.sprintf "FAIL dependency-order i=%d (level %d) reads j=%d (level %d)" i (Sched.level_in sch i) c (Sched.level_in sch c)
    | None ->
    if not (Sched.deps_respected reads n forward sch) then "FAIL dependency-order" else
    if Sched.sched_ok reads n forward sch then "OK" else "FAIL sched_ok"

let () =
  reg "gs_sched" (fun t -> let fwd = t_i t <> 0 in let nt = t_i t in let force = t_i t <> 0 in let a = t_crs t in
    if (not force) && nt < 4 then "SERIAL" else
    show_tables nt (GsSched.gs_schedule sc fwd a nt) a None);
  reg "ilu_sched" (fun t -> let nt = t_i t in let l = t_crs t in let u = t_crs t in let d = t_vec t in
    show_tables nt (IluSched.sptr_schedule sc true l nt) l None ^ " ; " ^
    show_tables nt (IluSched.sptr_schedule sc false u nt) u (Some d));
  (* the serial definitions: what every thread count and interleaving must reproduce *)
  reg2 "gs_sweep" (fun t -> let fwd = t_i t <> 0 in let _nt = t_i t in let _reps = t_i t in
    let a = t_crs t in let rhs = t_vec t in let x = t_vec t in
    show_vec (Relax.gs_sweep sc a rhs x fwd));
  reg "ilu_solve" (fun t -> let _nt = t_i t in let _serial = t_i t in let _reps = t_i t in
    let l = t_crs t in let u = t_crs t in let d = t_vec t in let x = t_vec t in
    show_vec (IluSched.ilu_serial_solve sc l u d x));
  (* oracles on the implementation's dumped tables (extracted Coq checks) *)
  reg "gs_sched_check" (fun t -> let fwd = t_i t <> 0 in let a = t_crs t in let tb = t_tables t in
    check_tables (GsSched.gs_reads sc a) (List.length a.Crs.rows) fwd tb);
  reg "sptr_sched_check" (fun t -> let lower = t_i t <> 0 in let a = t_crs t in let tb = t_tables t in
    check_tables (GsSched.cols_of sc a) (List.length a.Crs.rows) lower tb);
  (* statement tests on the model: scripted interleavings of the model schedule against the
     serial definition (expected to hold when the schedule is valid) *)
  reg "m.gs_pick" (fun t -> let fwd = t_i t <> 0 in let nt = t_i t in let a = t_crs t in let rhs = t_vec t in
    let x = t_vec t in let ch = t_list t t_ivec in
    let ok = GsSched.gs_sched_ok sc fwd a (GsSched.gs_schedule sc fwd a nt) in
    let r1 = GsSched.gs_par_sweep_pick sc ch fwd a nt rhs x and r0 = Relax.gs_sweep sc a rhs x fwd in
    (if ok then "valid " else "invalid ") ^ (if show_vec r1 = show_vec r0 then "same" else "differs"));
  reg "m.ilu_pick" (fun t -> let nt = t_i t in let l = t_crs t in let u = t_crs t in let d = t_vec t in
    let x = t_vec t in let ch = t_list t t_ivec in
    let ok = IluSched.sptr_sched_ok sc true l (IluSched.sptr_schedule sc true l nt)
             && IluSched.sptr_sched_ok sc false u (IluSched.sptr_schedule sc false u nt) in
    let y = IluSched.sptr_solve_pick sc ch true l d nt x in
    let r1 = IluSched.sptr_solve_pick sc (List.rev ch) false u d nt y in
    let r0 = IluSched.ilu_serial_solve sc l u d x in
    (if ok then "valid " else "invalid ") ^ (if show_vec r1 = show_vec r0 then "same" else "differs"));
  (* kernels at a thread count: the model has no thread count *)
  reg "t.spmv" (fun t -> let _ = t_i t in let alpha = t_q t in let a = t_crs t in let x = t_vec t in let beta = t_q t in let y = t_vec t in
    show_vec (Kernels.spmv sc alpha a x beta y));
  reg "t.residual" (fun t -> let _ = t_i t in let f = t_vec t in let a = t_crs t in let x = t_vec t in let r = t_vec t in
    show_vec (Kernels.residual sc f a x r));
  reg "t.axpby" (fun t -> let _ = t_i t in let a = t_q t in let x = t_vec t in let b = t_q t in let y = t_vec t in
    show_vec (Kernels.axpby sc a x b y));
  reg "t.axpbypcz" (fun t -> let _ = t_i t in let a = t_q t in let x = t_vec t in let b = t_q t in let y = t_vec t in let c = t_q t in let z = t_vec t in
    show_vec (Kernels.axpbypcz sc a x b y c z));
  reg "t.vmul" (fun t -> let _ = t_i t in let a = t_q t in let x = t_vec t in let y = t_vec t in let b = t_q t in let z = t_vec t in
    show_vec (Kernels.vmul sc a x y b z));
  reg "t.inner" (fun t -> let _ = t_i t in let x = t_vec t in let y = t_vec t in show_s (Kernels.inner_product_serial sc x y));
  reg "t.product" (fun t -> let nt = t_i t in let a = t_crs t in let b = t_crs t in
    let c = MatOps.spgemm_saad sc a b (nt > 16) in
    "U " ^ show_crs c ^ " S " ^ show_crs ~sorted:true c);
  reg "t.sum" (fun t -> let _ = t_i t in let al = t_q t in let a = t_crs t in let be = t_q t in let b = t_crs t in
    show_crs (MatOps.msum sc al a be b false));
  reg "t.transpose" (fun t -> let _ = t_i t in let a = t_crs t in show_crs (MatOps.transpose sc a))

(* ---- executions whose OpenMP team is smaller than the thread count seen at set-up (SchedTeam.v) ----
   tokens <nt> <k> <mode>; what the mode is meant to give at the call site:
   0: omp_set_num_threads(k)            -> team = k, max = k
   1, 3: teams thread_limit(k)          -> team = k, max = nt
   2, 4: enclosing active region, nested off -> team = 1, max = nt *)
let team_of nt k mode = match mode with
  | 0 -> (k, k) | 1 | 3 -> (k, nt) | 2 | 4 -> (1, nt)
  | _ -> raise (Model_exc "bad-mode")
let head (team, mx) = Printf.sprintf "team=%d max=%d " team mx
let t_team t = let nt = t_i t in let k = t_i t in let mode = t_i t in (nt, team_of nt k mode)

let () =
  (* the property: every team size gives the serial definition *)
  reg "gs_team" (fun t -> let fwd = t_i t <> 0 in let (_nt, tm) = t_team t in
    let a = t_crs t in let rhs = t_vec t in let x = t_vec t in
    head tm ^ show_vec (Relax.gs_sweep sc a rhs x fwd));
  reg "ilu_team" (fun t -> let (_nt, tm) = t_team t in
    let l = t_crs t in let u = t_crs t in let d = t_vec t in let x = t_vec t in
    head tm ^ show_vec (IluSched.ilu_serial_solve sc l u d x));
  (* the faithful model of the code as it exists: thread t < team runs tasks[t] only *)
  reg "m.gs_team_trunc" (fun t -> let fwd = t_i t <> 0 in let (nt, tm) = t_team t in
    let a = t_crs t in let rhs = t_vec t in let x = t_vec t in
    head tm ^ show_vec (SchedTeam.gs_par_sweep_team_trunc sc (fst tm) fwd a nt rhs x));
  reg "m.ilu_team_trunc" (fun t -> let (nt, tm) = t_team t in
    let l = t_crs t in let u = t_crs t in let d = t_vec t in let x = t_vec t in
    head tm ^ show_vec (SchedTeam.ilu_parallel_solve_team_trunc sc (fst tm) l u d nt x));
  (* statement tests of the any-team theorems: the repaired (cyclic) execution = serial *)
  reg "m.gs_team_cyclic" (fun t -> let fwd = t_i t <> 0 in let (nt, tm) = t_team t in
    let a = t_crs t in let rhs = t_vec t in let x = t_vec t in
    let r1 = SchedTeam.gs_par_sweep_team_cyclic sc (fst tm) fwd a nt rhs x and r0 = Relax.gs_sweep sc a rhs x fwd in
    if show_vec r1 = show_vec r0 then "valid same" else "valid differs");
  reg "m.ilu_team_cyclic" (fun t -> let (nt, tm) = t_team t in
    let l = t_crs t in let u = t_crs t in let d = t_vec t in let x = t_vec t in
    let r1 = SchedTeam.ilu_parallel_solve_team_cyclic sc (fst tm) l u d nt x and r0 = IluSched.ilu_serial_solve sc l u d x in
    if show_vec r1 = show_vec r0 then "valid same" else "valid differs");
  (* kernels in a reduced team: the model has neither thread count nor team *)
  reg "tt.spmv" (fun t -> let (_, tm) = t_team t in let alpha = t_q t in let a = t_crs t in let x = t_vec t in let beta = t_q t in let y = t_vec t in
    head tm ^ show_vec (Kernels.spmv sc alpha a x beta y));
  reg "tt.residual" (fun t -> let (_, tm) = t_team t in let f = t_vec t in let a = t_crs t in let x = t_vec t in let r = t_vec t in
    head tm ^ show_vec (Kernels.residual sc f a x r));
  reg "tt.axpby" (fun t -> let (_, tm) = t_team t in let a = t_q t in let x = t_vec t in let b = t_q t in let y = t_vec t in
    head tm ^ show_vec (Kernels.axpby sc a x b y));
  reg "tt.axpbypcz" (fun t -> let (_, tm) = t_team t in let a = t_q t in let x = t_vec t in let b = t_q t in let y = t_vec t in let c = t_q t in let z = t_vec t in
    head tm ^ show_vec (Kernels.axpbypcz sc a x b y c z));
  reg "tt.vmul" (fun t -> let (_, tm) = t_team t in let a = t_q t in let x = t_vec t in let y = t_vec t in let b = t_q t in let z = t_vec t in
    head tm ^ show_vec (Kernels.vmul sc a x y b z));
  reg "tt.inner" (fun t -> let (_, tm) = t_team t in let x = t_vec t in let y = t_vec t in
    head tm ^ show_s (Kernels.inner_product_serial sc x y));
  (* product(): saad up to 16 threads, rmerge (sorted rows) above -- decided by omp_get_max_threads() at the call *)
  reg "tt.product" (fun t -> let (_, tm) = t_team t in let a = t_crs t in let b = t_crs t in
    let c = MatOps.spgemm_saad sc a b (snd tm > 16) in
    head tm ^ "U " ^ show_crs c ^ " S " ^ show_crs ~sorted:true c);
  reg "tt.rmerge" (fun t -> let (_, tm) = t_team t in let a = t_crs t in let b = t_crs t in
    head tm ^ show_crs ~sorted:true (MatOps.spgemm_saad sc a b true));
  reg "tt.sum" (fun t -> let (_, tm) = t_team t in let al = t_q t in let a = t_crs t in let be = t_q t in let b = t_crs t in
    head tm ^ show_crs (MatOps.msum sc al a be b false));
  reg "tt.transpose" (fun t -> let (_, tm) = t_team t in let a = t_crs t in head tm ^ show_crs (MatOps.transpose sc a))
