(* ops_pmis.ml -- C12 second-stage oracles for the distributed aggregation with a near-null space:
   the extracted specification functions of PmisSpec.v evaluated on the gathered P_tent, coarse
   near-null space N and input near-null space B printed by drv_mpi_solve. *)
open Io
let ok b = if b then "OK" else "FAIL"
let () =
  (* o.nspart K P : global partition into whole, non-empty aggregates of K columns each *)
  reg "o.nspart" (fun t -> let k = t_i t in let p = t_crs t in ok (PmisSpec.ns_partition_ok sc k p));
  (* o.blockrows K bs P *)
  reg "o.blockrows" (fun t -> let k = t_i t in let bs = t_i t in let p = t_crs t in ok (PmisSpec.block_rows_ok sc k bs p));
  (* o.nsrepro P N B tol : P N = B on the aggregated rows *)
  reg "o.nsrepro" (fun t -> let p = t_crs t in let n = t_crs t in let b = t_crs t in let tol = t_q t in
    ok (PmisSpec.ns_repro_ok sc p n b tol));
  (* o.nsortho K P tol : orthonormal columns (aggregates with >= K members) *)
  reg "o.nsortho" (fun t -> let k = t_i t in let p = t_crs t in let tol = t_q t in ok (PmisSpec.ns_orthonormal_ok sc k p tol));
  reg "o.nssmall" (fun t -> let k = t_i t in let p = t_crs t in string_of_int (PmisSpec.ns_small_aggregates sc k p))

(* m.pmis A parts eps2 : the PMIS model of Pmis.v (block_size 1, no near-null space) on the strength pattern of A.
   Prints the ranks' aggregate counts, the column of P_tent of every unknown (-1 = left out) and the strength pattern
   (rows sorted by column), in the format the C12 property module builds from the ranks' reports. *)
let () =
  reg "m.pmis" (fun t -> let a = t_crs t in let parts = t_ivec t in let eps2 = t_q t in
    let g = Pmis.conn sc (box (parse_q "0")) a eps2 in
    let n = List.length a.Crs.rows in
    let pat = "{" ^ string_of_int n ^ " " ^ string_of_int n ^
              String.concat "" (List.map (fun r -> " |" ^ String.concat "" (List.map (fun c -> " " ^ string_of_int c) (List.sort compare r))) g) ^ "}" in
    match Pmis.pmis_columns parts g with
    | None -> "STUCK conn=" ^ pat
    | Some (cols, nas) ->
      "na=" ^ show_ivec nas ^ " col=" ^ show_ivec (List.map (function None -> -1 | Some c -> c) cols) ^ " conn=" ^ pat)

(* m.pmisdrop A parts eps2 : number of aggregate ids dropped by the renumbering ("drop empty aggregates") and number of
   rounds' worth of fuel left -- evidence only (is the renumbering path exercised by the tie cases?) *)
let () =
  reg "m.pmisdrop" (fun t -> let a = t_crs t in let parts = t_ivec t in let eps2 = t_q t in
    let g = Pmis.conn sc (box (parse_q "0")) a eps2 in
    match Pmis.rounds parts g (Pmis.pmis_fuel parts g) (Pmis.init_world parts g) with
    | None -> "STUCK"
    | Some w ->
      let w' = Pmis.renumber parts g w in
      let sum l = List.fold_left (+) 0 l in
      string_of_int (sum w.Pmis.w_na - sum w'.Pmis.w_na))
