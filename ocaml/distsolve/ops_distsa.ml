(* ops_distsa.ml -- C12: model side of the ops `sa` / `bsa` of harness/drv_mpi_solve.cpp and the oracle on the operators
   recorded during `solve` / `bsolve`.

   m.dsa <b> A parts eps half relax c esr nlev omega_0 .. omega_{nlev-1}
       the extracted model DistSa.dist_sa_level (distributed strength with ghost diagonals, PMIS model of Pmis.v,
       filtered matrix rank by rank, P = dist_product Af P_tent, R = dist_transpose P), call number l = 0..nlev-1 of
       transfer_operators on ONE coarsening object (eps_strong halved after every call), run at Scalar instance
       QcS (b = 1) or BlockInst.BlockS QcS b (b > 1: A is a block matrix, the scalar parameters are embedded as c*I).
       omega_l is the value of the C++ expression `relax * (2.0/3)` resp. `relax * ((4.0/3) / rho)` AT DOUBLE; the model
       computes its own omega exactly (DistSa.dsa_level_omega; for esr with the distributed Gershgorin estimate of
       Dist.v) and the op answers OMEGA-MISMATCH unless omega_l is that value up to rounding (relative 2^-49); the
       operators are then computed with omega_l.  Output per level (assembled over the ranks, entries sorted by column)
         na=[..] T{P_tent} S{strength pattern, as every rank computes it with the exchanged diagonals} P{..} R{..}
   o.saform <b> A G T P omega tol
       serial specification on GATHERED operators: P = (I - omega Df^-1 A_f) T with the strength flags given by the
       pattern G (DistSa.sa_glob_smooth; block products in the order Df^-1 * A), every cell within tol. *)
open Io

let inst_cache : (int, Scalar.coq_Scalar) Hashtbl.t = Hashtbl.create 5
let inst b =
  if b = 1 then sc else
  match Hashtbl.find_opt inst_cache b with
  | Some s -> s
  | None -> let s = BlockInst.coq_BlockS sc b in Hashtbl.replace inst_cache b s; s

let t_blk b t : Obj.t = Obj.repr (List.init (b * b) (fun _ -> t_q t))
let t_mat b t : Crs.crs =
  if b = 1 then t_crs t else begin
    let n = t_i t in let m = t_i t in
    let rows = List.init n (fun _ -> t_list t (fun t -> let c = t_i t in let v = t_blk b t in (c, v))) in
    { Crs.ncols = m; Crs.rows = rows } end
let embed b (c : Obj.t) : Obj.t = if b = 1 then c else Obj.repr (BlockInst.blk_embed sc b c)
let cells b (a : Obj.t) : Obj.t list = if b = 1 then [a] else Obj.obj a
let show_val b (a : Obj.t) = String.concat "," (List.map show_s (cells b a))

let show_rows b (m : int) (rows : Crs.row list) =
  let rs = List.map (fun r ->
      let es = List.sort compare (List.map (fun (c, v) -> (c, show_val b v)) r) in
      " |" ^ String.concat "" (List.map (fun (c, s) -> " " ^ string_of_int c ^ ":" ^ s) es)) rows in
  "{" ^ string_of_int (List.length rows) ^ " " ^ string_of_int m ^ String.concat "" rs ^ "}"
let show_pat (m : int) (rows : int list list) =
  "{" ^ string_of_int (List.length rows) ^ " " ^ string_of_int m ^
  String.concat "" (List.map (fun r -> " |" ^ String.concat "" (List.map (fun c -> " " ^ string_of_int c) (List.sort compare r))) rows) ^ "}"
let show_dm b s (d : Dist.dmat) = show_rows b (List.fold_left (+) 0 d.Dist.dm_cparts) (List.concat (Dist.strips s d))

let q_of s = box (parse_q s)
let close tol (x : Obj.t) (y : Obj.t) = not (sc.Scalar.sltb tol (sc.Scalar.sabs (sc.Scalar.ssub x y)))

let () =
  reg "m.dsa" (fun t ->
    let b = t_i t in let s = inst b in
    let a = t_mat b t in let parts = t_ivec t in
    let eps = t_q t in let half = t_q t in let relax = t_q t in let c = t_q t in
    let esr = t_i t <> 0 in
    let omegas = t_list t t_q in
    if List.fold_left (+) 0 parts <> List.length a.Crs.rows then raise (Model_exc "partition");
    let junk = s.Scalar.s0 in
    let e = embed b in
    let om_model = DistSa.dsa_level_omega s esr (e relax) (e c) a parts in
    let om_cell = List.hd (cells b om_model) in
    let out = List.mapi (fun l om ->
        let rtol = sc.Scalar.smul (sc.Scalar.sabs om_cell) (q_of "1/562949953421312") in
        if not (close rtol om om_cell) then "OMEGA-MISMATCH model=" ^ show_s om_cell ^ " given=" ^ show_s om else
        let eps2 = DistSa.dsa_eps2 s (e eps) (e half) l in
        match DistSa.dist_sa_transfer s junk eps2 (e om) a parts with
        | None -> "STUCK"
        | Some ((pt, p), r) ->
          let d = Dist.split s a parts parts in
          let n = List.length a.Crs.rows in
          "na=" ^ show_ivec pt.Dist.dm_cparts ^ " T" ^ show_dm b s pt ^
          " S" ^ show_pat n (DistSa.dist_conn s junk eps2 d) ^
          " P" ^ show_dm b s p ^ " R" ^ show_dm b s r) omegas in
    String.concat " " out);
  reg "o.saform" (fun t ->
    let b = t_i t in let s = inst b in
    let a = t_mat b t in
    let g = (t_crs t).Crs.rows in
    let pt = t_mat b t in let p = t_mat b t in
    let omega = t_q t in let tol = t_q t in
    let gp = List.map (List.map fst) g in
    let m = DistSa.sa_glob_smooth s (embed b omega) a (fun i e -> DistSa.pat_strong s gp i e) pt in
    if List.length m.Crs.rows <> List.length p.Crs.rows then "FAIL rows" else
    let zero = List.init (b * b) (fun _ -> sc.Scalar.s0) in
    let dense (r : Crs.row) =
      let h = Hashtbl.create 7 in
      List.iter (fun (c, v) ->
          let old = try Hashtbl.find h c with Not_found -> zero in
          Hashtbl.replace h c (List.map2 sc.Scalar.sadd old (cells b v))) r; h in
    let bad = ref None in
    List.iteri (fun i (rm, rp) ->
        if !bad = None then begin
          let hm = dense rm and hp = dense rp in
          let cols = List.sort_uniq compare (List.map fst rm @ List.map fst rp) in
          List.iter (fun c ->
              let x = try Hashtbl.find hm c with Not_found -> zero in
              let y = try Hashtbl.find hp c with Not_found -> zero in
              if !bad = None && not (List.for_all2 (close tol) x y) then
                bad := Some (Printf.sprintf "FAIL row=%d col=%d spec=%s got=%s" i c
                               (String.concat "," (List.map show_s x)) (String.concat "," (List.map show_s y)))) cols
        end) (List.combine m.Crs.rows p.Crs.rows);
    match !bad with None -> "OK" | Some msg -> msg)
