(* ops_solve.ml -- C12 second-stage oracles: the extracted Coq specification functions of
   DistSolve.v evaluated on the (exactly printed) outputs of drv_mpi_solve. *)
open Io
let ok b = if b then "OK" else "FAIL"
let () =
  (* o.truth A f x res tol *)
  reg "o.truth" (fun t -> let a = t_crs t in let f = t_vec t in let x = t_vec t in let res = t_q t in let tol = t_q t in
    if DistSolve.truthful sc a f x res tol then "OK"
    else Printf.sprintf "FAIL reported=%s true_rel_residual_squared=%s" (show_s res) (show_s (DistSolve.rel_residual_sq sc a f x)));
  (* o.truesq A f x : exact squared relative residual (evidence) *)
  reg "o.truesq" (fun t -> let a = t_crs t in let f = t_vec t in let x = t_vec t in
    show_s (DistSolve.rel_residual_sq sc a f x));
  reg "o.solves" (fun t -> let a = t_crs t in let f = t_vec t in let x = t_vec t in let tol = t_q t in
    ok (DistSolve.solves sc a f x tol));
  reg "o.galerkin" (fun t -> let a = t_crs t in let p = t_crs t in let r = t_crs t in let ac = t_crs t in
    let scale = t_q t in let tol = t_q t in
    ok (DistSolve.galerkin_ok sc a p r ac scale tol));
  reg "o.transpose" (fun t -> let p = t_crs t in let r = t_crs t in
    ok (DistSolve.same_operator sc (MatOps.transpose sc p) r));
  reg "o.same" (fun t -> let a = t_crs t in let b = t_crs t in ok (DistSolve.same_operator sc a b));
  reg "o.partition" (fun t -> let p = t_crs t in ok (DistSolve.partition_ok sc p));
  reg "o.unaggregated" (fun t -> let p = t_crs t in show_ivec (DistSolve.unaggregated_rows sc p))
let () =
  reg "o.isolated" (fun t -> let a = t_crs t in let p = t_crs t in let eps2 = t_q t in
    ok (DistSolve.isolated_ok sc a p eps2))
