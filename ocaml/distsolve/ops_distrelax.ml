(* ops_distrelax.ml -- C12: model side of the ops `relax` / `brelax` of harness/drv_mpi_solve.cpp.

   m.drelax <b> <type> <params> A parts f x
       the extracted model DistRelax.v of amgcl::runtime::mpi::relaxation::wrapper<Backend> (constructor + apply_pre,
       apply_post, apply), rank by rank on Dist.split A parts parts, run at QcS (b = 1) or BlockInst.BlockS QcS b.
       <params>:  spai0 -            damped_jacobi <damping>       gauss_seidel -         spai1 -
                  chebyshev <degree> <lower> <higher> <scale 0|1>  (power_iters = 0: distributed Gershgorin)
                  ilu0 <damping>     iluk <k> <damping>            ilup <k> <damping>     ilut <p> <tau> <damping>
       Output (the ranks' slices concatenated):
         pre=[..] post=[..] apply=[..] ones=[..] seq=[..] exact=0|1 [rho=[one value per rank]]
   exact=1: every intermediate value of the model run was representable at binary64 (dyadic, <= 53 significant bits,
   exponent well inside the normal range; square roots exact).  The model performs the operations of the C++ in the same
   order, so then the double run of the C++ makes no rounding error at all and must print the same numbers; otherwise the
   python side compares within a relative tolerance.  The tracking is a wrapper around the operations of the Scalar record
   handed to the extracted functions (the models are Scalar-polymorphic); it changes no value. *)
open Io

(* ---------------------------------------------------------------- binary64-representability tracking *)
let inexact = ref false
let repr_ok (x : Obj.t) : bool =
  let q = Qreduction.coq_Qred (unbox x) in
  let n = Z.abs q.QArith_base.coq_Qnum and d = q.QArith_base.coq_Qden in
  if Z.sign n = 0 then true else
  Z.equal (Z.logand d (Z.pred d)) Z.zero &&
  (let tz = Z.trailing_zeros n in Z.numbits n - tz <= 53) &&
  Z.numbits n <= 900 && Z.numbits d <= 900
let chk (x : Obj.t) : Obj.t = if not (repr_ok x) then inexact := true; x
let tracked : Scalar.coq_Scalar =
  { sc with
    Scalar.sadd = (fun a b -> chk (sc.Scalar.sadd a b));
    Scalar.smul = (fun a b -> chk (sc.Scalar.smul a b));
    Scalar.ssub = (fun a b -> chk (sc.Scalar.ssub a b));
    Scalar.sdiv = (fun a b -> chk (sc.Scalar.sdiv a b));
    Scalar.sinv = (fun a -> chk (sc.Scalar.sinv a));
    Scalar.ssqrt = (fun a -> let r = sc.Scalar.ssqrt a in
                     if not (sc.Scalar.seqb (sc.Scalar.smul r r) a) then inexact := true; chk r);
    Scalar.sofQ = (fun q -> chk (sc.Scalar.sofQ q)) }

let inst_cache : (int, Scalar.coq_Scalar) Hashtbl.t = Hashtbl.create 5
let inst b =
  if b = 1 then tracked else
  match Hashtbl.find_opt inst_cache b with
  | Some s -> s
  | None ->
    let bs = BlockInst.coq_BlockS tracked b in
    let s = { bs with Scalar.sinv = (fun a ->
        match BlockInst.blk_inverse tracked b (Obj.obj a) with
        | None -> raise (Model_exc "singular_block")
        | Some _ -> bs.Scalar.sinv a) } in
    Hashtbl.replace inst_cache b s; s

let t_blk b t : Obj.t = Obj.repr (List.init (b * b) (fun _ -> t_q t))
let t_mat b t : Crs.crs =
  if b = 1 then t_crs t else begin
    let n = t_i t in let m = t_i t in
    let rows = List.init n (fun _ -> t_list t (fun t -> let c = t_i t in let v = t_blk b t in (c, v))) in
    { Crs.ncols = m; Crs.rows = rows } end
(* vectors: b = 1: n numbers; b > 1: n*b numbers = n entries static_matrix<Q,b,1>, carried as blocks with the vector in column 0 *)
let t_bvec b t : Obj.t list =
  if b = 1 then t_vec t else begin
    let n = t_i t in
    if n mod b <> 0 then raise (Model_exc "vector_length");
    List.init (n / b) (fun _ -> let v = List.init b (fun _ -> t_q t) in Obj.repr (BlockInst.blk_col sc b v)) end
let show_bvec b (v : Obj.t list) =
  if b = 1 then show_vec v else begin
    List.iter (fun a -> if not (BlockInst.blk_is_col sc b (Obj.obj a)) then raise (Model_exc "vector_shape")) v;
    "[" ^ String.concat " " (List.concat_map (fun a -> List.map show_s (BlockInst.blk_col0 sc b (Obj.obj a))) v) ^ "]" end
let embed b (c : Obj.t) : Obj.t = if b = 1 then c else Obj.repr (BlockInst.blk_embed sc b c)
let first_cell b (a : Obj.t) : Obj.t = if b = 1 then a else List.hd (Obj.obj a)

let ilu_exc = function
  | Ilu.NoDiag -> raise (Model_exc "no_diag")
  | Ilu.ZeroPivot -> raise (Model_exc "zero_pivot")
let unres = function Ilu.Ok x -> x | Ilu.Err e -> ilu_exc e
let tie_exc (r, tie) = if tie then raise (Model_exc "TIE") else r

let () =
  reg "m.drelax" (fun t ->
    let b = t_i t in let s = inst b in
    let typ = t_s t in
    inexact := false;
    let e = embed b in
    (* parameters first (they precede the matrix on the line) *)
    let p_damping = ref s.Scalar.s1 and p_k = ref 0 and p_degree = ref 0 and p_lower = ref s.Scalar.s0
    and p_higher = ref s.Scalar.s0 and p_scale = ref false and p_p = ref (parse_q "2") and p_tau = ref s.Scalar.s0 in
    (match typ with
     | "spai0" | "gauss_seidel" | "spai1" -> ()
     | "damped_jacobi" | "ilu0" -> p_damping := e (t_q t)
     | "iluk" | "ilup" -> p_k := t_i t; p_damping := e (t_q t)
     | "ilut" -> p_p := parse_q (t_s t); p_tau := e (t_q t); p_damping := e (t_q t)
     | "chebyshev" -> p_degree := t_i t; p_lower := e (t_q t); p_higher := e (t_q t); p_scale := (t_i t <> 0)
     | _ -> raise (Model_exc "relaxation_type"));
    let a = t_mat b t in let parts = t_ivec t in
    let f = t_bvec b t in let x = t_bvec b t in
    let n = List.length a.Crs.rows in
    if List.fold_left (+) 0 parts <> n || List.length f <> n || List.length x <> n then raise (Model_exc "partition");
    let d = Dist.split s a parts parts in
    let ch v = Kernels.chunks parts v in
    let fs = ch f and xs = ch x in
    let zs = List.map (List.map (fun _ -> s.Scalar.s0)) xs in
    let ones = List.map (List.map (fun _ -> if b = 1 then s.Scalar.s1 else Obj.repr (BlockInst.blk_col sc b (List.init b (fun _ -> sc.Scalar.s1))))) xs in
    let nr = List.length parts in
    let nojunk = List.init nr (fun _ -> []) in
    let extra = ref "" in
    (* (pre, post, apply) as functions of (fs, xs) *)
    let pre, post, app =
      match typ with
      | "spai0" ->
        let ms = DistRelax.dist_spai0_setup s d in
        let sw fs xs = DistRelax.dist_spai0_sweep s ms d fs xs zs in
        sw, sw, (fun fs xs -> DistRelax.dist_spai0_apply s ms d fs xs)
      | "damped_jacobi" ->
        let dias = DistRelax.dist_jacobi_setup s d nojunk in
        let sw fs xs = DistRelax.dist_jacobi_sweep s !p_damping dias d fs xs zs in
        sw, sw, (fun fs xs -> DistRelax.dist_jacobi_apply s dias d fs xs)
      | "chebyshev" ->
        let his = DistRelax.dist_cheby_rho s !p_scale d in
        extra := " rho=[" ^ String.concat " " (List.map (fun h -> show_s (first_cell b h)) his) ^ "]";
        let cdms = DistRelax.dist_cheby_setup s !p_scale d his !p_lower !p_higher nojunk in
        let sw fs xs = DistRelax.dist_cheby_sweep s cdms !p_degree d fs xs zs zs in
        sw, sw, (fun fs xs -> DistRelax.dist_cheby_apply s cdms !p_degree d fs xs zs zs)
      | "ilu0" | "iluk" | "ilup" | "ilut" ->
        let luds =
          match typ with
          | "ilu0" -> List.map unres (DistRelax.dist_ilu0_setup s d nojunk)
          | "iluk" -> DistRelax.dist_iluk_setup s !p_k d nojunk
          | "ilup" -> List.map unres (DistRelax.dist_ilup_setup s !p_k d nojunk)
          | _ -> List.map tie_exc (DistRelax.dist_ilut_setup s !p_p !p_tau d nojunk) in
        let sw fs xs = DistRelax.dist_ilu_sweep s !p_damping luds d fs xs zs in
        sw, sw, (fun fs xs -> DistRelax.dist_ilu_apply s luds d fs xs)
      | "spai1" ->
        let ms = List.map (function Some m -> m | None -> raise (Model_exc "singular"))
            (DistRelax.dist_spai1_setup s (DenseSolve.dense_solve s) d) in
        let sw fs xs = DistRelax.dist_spai1_sweep s ms d fs xs zs in
        sw, sw, (fun fs xs -> DistRelax.dist_spai1_apply s ms d fs xs)
      | _ (* gauss_seidel *) ->
        (fun fs xs -> DistRelax.dist_gs_sweep s d fs xs true),
        (fun fs xs -> DistRelax.dist_gs_sweep s d fs xs false),
        (fun fs xs -> DistRelax.dist_gs_apply s d fs xs) in
    let cat vs = show_bvec b (List.concat vs) in
    let r_pre = pre fs xs in
    let r_post = post fs xs in
    let r_app = app fs xs in
    let r_ones = app ones xs in
    let r_seq = post fs r_pre in
    "pre=" ^ cat r_pre ^ " post=" ^ cat r_post ^ " apply=" ^ cat r_app ^ " ones=" ^ cat r_ones ^ " seq=" ^ cat r_seq ^
    " exact=" ^ (if !inexact then "0" else "1") ^ !extra)
