(* ops_own.ml -- model side of harness/drv_own.cpp (C10-A3: crs::own_data life cycle).
   Case:   <id> own <nops> (<tag> <ints>)*      tags: E k | O k | V k u | C k j | M k j |
                                                      c k j (copy assign) | m k j (move assign) | D k
   Output: leaks=<n> freed_user=<n> double_free=<n> blocks=<n> live_objects=[id:own:arr ...]
   (blocks / live_objects: the state BEFORE the remaining objects are destroyed; the three
    counters: after).  "own_old" runs the historical step function (before /repo b0b02bf). *)
open Io
let t_op t : Own.op =
  match t_s t with
  | "E" -> let k = t_i t in Own.NewEmpty k
  | "O" -> let k = t_i t in Own.NewOwn k
  | "V" -> let k = t_i t in let u = t_i t in Own.NewView (k, u)
  | "C" -> let k = t_i t in let j = t_i t in Own.CopyCtor (k, j)
  | "M" -> let k = t_i t in let j = t_i t in Own.MoveCtor (k, j)
  | "c" -> let k = t_i t in let j = t_i t in Own.CopyAssign (k, j)
  | "m" -> let k = t_i t in let j = t_i t in Own.MoveAssign (k, j)
  | "D" -> let k = t_i t in Own.Destroy k
  | s -> failwith ("own: bad op tag " ^ s)

let show_world fixed (w : Own.world) =
  let ids = List.sort_uniq compare (List.map fst w.Own.objs) in
  let show_obj k =
    match Own.find k w with
    | None -> ""
    | Some o ->
      let a = match o.Own.arr with
        | None -> "null"
        | Some (Own.Usr u) -> "u" ^ string_of_int u
        | Some (Own.Lib b) -> if List.mem b w.Own.heap then "lib" else "dangling" in
      string_of_int k ^ ":" ^ (if o.Own.own then "1" else "0") ^ ":" ^ a in
  let live = String.concat " " (List.map show_obj ids) in
  let blocks = Own.leaks w in
  let w' = Own.destroy_all_gen fixed w in
  Printf.sprintf "leaks=%d freed_user=%d double_free=%d blocks=%d live_objects=[%s]"
    (Own.leaks w') w'.Own.ufree w'.Own.dfree blocks live

let () =
  reg "own" (fun t -> let ops = t_list t t_op in show_world true (Own.run_gen true ops));
  reg "own_old" (fun t -> let ops = t_list t t_op in show_world false (Own.run_gen false ops))
