(* ops_ll2.ml -- model side of harness/drv_ll2.cpp (C10-A2, second layer: coq/LowLevel2*.v).
   The low-level models run on the flat arrays of the case matrices (LowLevelT.flat_of) and the
   raw result arrays are printed cell by cell:
       {n m} ptr=[..] col=[..] val=[..]          a cell never written prints as ?
       ERR oob | ERR uninit | ERR fuel            the model left an array / read an unwritten cell
   The C++ driver dumps the same arrays of the amgcl result; the "lld_" ops are the same kernels
   instantiated with double (integer data, exact) and run under the poisoning allocator. *)
open Io
open LowLevel2

let show_cell f = function Some v -> f v | None -> "?"
let show_iarr (a : int marr) = "[" ^ String.concat " " (List.map (show_cell string_of_int) a) ^ "]"
let show_zarr (a : Big_int_Z.big_int marr) = "[" ^ String.concat " " (List.map (show_cell Big_int_Z.string_of_big_int) a) ^ "]"
let show_varr (a : Obj.t marr) = "[" ^ String.concat " " (List.map (show_cell show_s) a) ^ "]"
let show_res f = function
  | Done x -> f x
  | OutOfBounds -> "ERR oob"
  | UninitRead -> "ERR uninit"
  | OutOfFuel -> "ERR fuel"
let show_flat n m ptr col vl = Printf.sprintf "{%d %d} ptr=%s col=%s val=%s" n m (show_iarr ptr) (show_iarr col) (show_varr vl)
let show_mcrs (c : LowLevel2G.mcrs) =
  show_flat c.LowLevel2G.mn c.LowLevel2G.mm c.LowLevel2G.mptr c.LowLevel2G.mcol c.LowLevel2G.mval

let reg_ll name f = reg ("ll_" ^ name) f; reg ("lld_" ^ name) f

let () =
  reg_ll "sort_rows" (fun t ->
    let a = t_crs t in
    let f = LowLevelT.flat_of sc a in
    show_res (fun (c, v) -> show_flat f.LowLevel.fn f.LowLevel.fm (filled f.LowLevel.fptr) c v)
      (ll_sort_rows sc f.LowLevel.fn f.LowLevel.fptr (filled f.LowLevel.fcol, filled f.LowLevel.fval)));
  reg_ll "saad" (fun t ->
    let a = t_crs t in let b = t_crs t in let s = t_i t <> 0 in
    show_res show_mcrs (LowLevel2G.ll_spgemm sc (LowLevelT.flat_of sc a) (LowLevelT.flat_of sc b) s))

let show_barr (a : bool marr) = "[" ^ String.concat " " (List.map (show_cell (fun b -> if b then "1" else "0")) a) ^ "]"
let rec take n l = if n <= 0 then [] else match l with [] -> [] | x :: t -> x :: take (n - 1) t

let () =
  reg_ll "plain_aggregates" (fun t ->
    let a = t_crs t in let _ = t_q t in let eps2 = t_q t in
    show_res (function
        | LowLevel2A.LAEmpty -> "EXC empty_level"
        | LowLevel2A.LAOk (c, id, st) -> Printf.sprintf "count=%d id=%s strong=%s" c (show_zarr id) (show_barr st))
      (LowLevel2A.ll_plain_aggregates sc eps2 (LowLevelT.flat_of sc a)));
  reg_ll "tentative" (fun t ->
    let n = t_i t in let naggr = t_i t in let id = List.map Big_int_Z.big_int_of_int (t_ivec t) in
    show_res show_mcrs (LowLevel2A.ll_tentative sc n naggr id));
  reg "ll_ilu0" (fun t ->
    let a = t_crs t in
    let f = LowLevelT.flat_of sc a in
    show_res (function
        | LowLevel2I.EThrow Ilu.NoDiag -> "EXC no_diag"
        | LowLevel2I.EThrow Ilu.ZeroPivot -> "EXC zero_pivot"
        | LowLevel2I.EOk st ->
          let open LowLevel2I in
          let n = f.LowLevel.fn in
          Printf.sprintf "L=%s U=%s D=%s"
            (show_flat n n st.ilp (take st.ilh st.ilc) (take st.ilh st.ilv))
            (show_flat n n st.iup (take st.iuh st.iuc) (take st.iuh st.iuv))
            (show_varr st.idd))
      (LowLevel2I.ll_ilu0 sc f))

(* skyline_lu<V> (ordering cuthill_mckee<false>): the permutation comes from the extracted model of the
   ordering (CuthillMcKee.v, tied by C16); constructor tables, then one solve into x0 with scratch y = 0 *)
let () =
  reg "ll_skyline" (fun t ->
    let a = t_crs t in let rhs = t_vec t in let x0 = t_vec t in
    let pattern = List.map (List.map fst) a.Crs.rows in
    match CuthillMcKee.cuthill_mckee false pattern with
    | CuthillMcKee.CmOk perm ->
      show_res (function
          | LowLevel2K.KThrow -> "EXC zero_pivot"
          | LowLevel2K.KOk (pm, ptr, l, u, d) ->
            let n = List.length a.Crs.rows in
            let y0 = filled (List.init n (fun _ -> sc.Scalar.s0)) in
            let head = Printf.sprintf "perm=%s ptr=%s L=%s U=%s D=%s" (show_iarr pm) (show_zarr ptr) (show_varr l) (show_varr u) (show_varr d) in
            head ^ " " ^ show_res (fun (x, y) -> Printf.sprintf "x=%s y=%s" (show_varr x) (show_varr y))
              (LowLevel2K.ll_sky_solve sc n pm ptr l u d rhs (filled x0) y0))
        (LowLevel2K.ll_sky_build sc (LowLevelT.flat_of sc a) perm)
    | _ -> "EXC ordering")
