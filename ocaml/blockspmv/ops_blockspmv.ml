(* ops_blockspmv.ml -- model side of harness/drv_blocks_spmv.cpp and drv_adapters_vt.cpp (C13, C17).
   Nothing is re-implemented here: the ops evaluate the SAME extracted functions the theorems are about,
   at other Scalar instances than QcS:
     bspmv / bresid   Kernels.spmv / Kernels.residual at BlockInst.BlockS QcS b, applied to
                      BlockSpmv.block_matrix (model of adapter::block_matrix copied into a block CRS) and
                      BlockSpmv.as_rhs (backend::reinterpret_as_rhs)            -- theorem C13_block_spmv
     hspmv / hresid   BlockSpmv.hybrid_spmv / hybrid_residual (builtin_hybrid)   -- C13_hybrid_spmv_is_scalar
     scaled_blk       Adapters.scaled_adapter / scale_diagonal / scale_vec at BlockS   (scaled_problem over
     scaled_cplx      ... at ComplexInst.ComplexS QcS                                    block / complex values)
     eig_block        the same as bspmv (Eigen::Matrix<double,b,b> blocks run the same templates)
   Vector entries static_matrix<T,b,1> travel as blocks with the vector in column 0; every output entry is
   checked to still have that shape.  Embedded scalars c*I are printed as c (and checked). *)
open Io
module A = Adapters

let inst_cache : (int, Scalar.coq_Scalar) Hashtbl.t = Hashtbl.create 5
let inst b =
  match Hashtbl.find_opt inst_cache b with
  | Some s -> s
  | None ->
    let bs = BlockInst.coq_BlockS sc b in
    (* math::inverse of a singular block asserts in the C++: never use the totalised default *)
    let s = { bs with Scalar.sinv = (fun a ->
        match BlockInst.blk_inverse sc b (Obj.obj a) with
        | None -> raise (Model_exc "singular_block")
        | Some _ -> bs.Scalar.sinv a) } in
    Hashtbl.replace inst_cache b s; s
let embed b (c : Obj.t) : Obj.t = Obj.repr (BlockInst.blk_embed sc b c)
let cells (a : Obj.t) : Obj.t list = Obj.obj a

let rec take n l = if n = 0 then [] else match l with [] -> [] | x :: tl -> x :: take (n - 1) tl
let rec drop n l = if n = 0 then l else match l with [] -> [] | _ :: tl -> drop (n - 1) tl
let rec rows_of b l = match l with [] -> [] | _ -> take b l :: rows_of b (drop b l)
let show_blk b (a : Obj.t) =
  "(" ^ String.concat ";" (List.map (fun r -> String.concat "," (List.map show_s r)) (rows_of b (cells a))) ^ ")"
let show_bcrs b (a : Crs.crs) =
  let m = a.Crs.ncols in
  let bad = ref false in
  let rows = List.map (fun r ->
      " |" ^ String.concat "" (List.map (fun (c, v) -> if c < 0 || c >= m then bad := true;
                                 " " ^ string_of_int c ^ ":" ^ show_blk b v) r)) a.Crs.rows in
  if !bad then "BADCRS col-out-of-range" else
  "{" ^ string_of_int (List.length a.Crs.rows) ^ " " ^ string_of_int m ^ String.concat "" rows ^ "}"
let show_bvec b (v : Obj.t list) =
  List.iter (fun a -> if not (BlockInst.blk_is_col sc b (Obj.obj a)) then raise (Model_exc "vector_shape")) v;
  "[" ^ String.concat " " (List.concat_map (fun a -> List.map show_s (BlockInst.blk_col0 sc b (Obj.obj a))) v) ^ "]"
let show_embedded b (a : Obj.t) =
  let c = BlockInst.blk_get sc b (Obj.obj a) 0 0 in
  if not ((inst b).Scalar.seqb a (embed b c)) then raise (Model_exc "not_a_scalar");
  show_s c

let nrows (a : Crs.crs) = List.length a.Crs.rows
let check_b b = if b < 2 || b > 4 then raise (Model_exc "invalid_argument")
(* block_matrix_adapter's constructor: precondition(rows % b == 0 && cols % b == 0) *)
let check_div b (m : Crs.crs) =
  if nrows m mod b <> 0 || m.Crs.ncols mod b <> 0 then raise (Model_exc "runtime_error")

(* block-valued CRS token: nrows ncols (k (col b*b q)*k)*nrows, cells row-major *)
let t_blk b t : Obj.t = Obj.repr (List.init (b * b) (fun _ -> t_q t))
let t_bcrs b t : Crs.crs =
  let n = t_i t in let m = t_i t in
  let rows = List.init n (fun _ -> t_list t (fun t -> let c = t_i t in let v = t_blk b t in (c, v))) in
  { Crs.ncols = m; Crs.rows = rows }

(* complex values as pairs *)
let cs = ComplexInst.coq_ComplexS sc
let cre (a : Obj.t) : Obj.t = Obj.repr (ComplexInst.c_of_re sc a)
let show_c (z : Obj.t) = let (a, b) : Obj.t * Obj.t = Obj.obj z in show_s a ^ "+" ^ show_s b ^ "i"
let show_real_c (z : Obj.t) =
  let (a, b) : Obj.t * Obj.t = Obj.obj z in
  if not (sc.Scalar.seqb b sc.Scalar.s0) then raise (Model_exc "not_a_real"); show_s a
let show_ccrs (a : Crs.crs) =
  let m = a.Crs.ncols in
  let rows = List.map (fun r -> " |" ^ String.concat "" (List.map (fun (c, v) -> " " ^ string_of_int c ^ ":" ^ show_c v) r)) a.Crs.rows in
  "{" ^ string_of_int (List.length a.Crs.rows) ^ " " ^ string_of_int m ^ String.concat "" rows ^ "}"
let show_cvec (v : Obj.t list) = "[" ^ String.concat " " (List.map show_c v) ^ "]"

let dims (a : 'x A.adapter) = Printf.sprintf "%d %d %d" a.A.a_rows a.A.a_cols a.A.a_nnz

(* the scaled view over an arbitrary Scalar instance s; the scale vector holds scalar_type values, embedded *)
let scaled_view (s : Scalar.coq_Scalar) (m : Crs.crs) (sv : Obj.t list option) emb show_scale show_m show_v (x : Obj.t list) =
  let v = A.crs_view s m in
  let svec = match sv with Some l -> List.map emb l | None -> A.scale_diagonal s v in
  let a = A.scaled_adapter s v svec in
  let c = A.to_crs s a in
  let n = nrows m in
  let y = Kernels.spmv s s.Scalar.s1 c x s.Scalar.s0 (List.init n (fun _ -> s.Scalar.s0)) in
  dims a ^ " [" ^ String.concat " " (List.map show_scale svec) ^ "] " ^ show_m c ^ " " ^ show_m c ^ " "
  ^ show_v y ^ " " ^ show_v (A.scale_vec s svec x)

let () =
  let spmv_like hybrid t =
    let b = t_i t in check_b b;
    let m = t_crs t in let x = t_vec t in let alpha = t_q t in let beta = t_q t in let y = t_vec t in
    check_div b m;
    let s = inst b in
    let bm = BlockSpmv.block_matrix sc b m in
    if hybrid then show_vec (BlockSpmv.hybrid_spmv sc b alpha bm x beta y)
    else
      let r = Kernels.spmv s (embed b alpha) bm (BlockSpmv.as_rhs sc b x) (embed b beta) (BlockSpmv.as_rhs sc b y) in
      show_bcrs b bm ^ " " ^ show_bvec b r in
  reg "bspmv" (spmv_like false); reg "hspmv" (spmv_like true);
  reg "eig_block" (spmv_like false);
  let resid_like hybrid t =
    let b = t_i t in check_b b;
    let m = t_crs t in let f = t_vec t in let x = t_vec t in let r = t_vec t in
    check_div b m;
    let s = inst b in
    let bm = BlockSpmv.block_matrix sc b m in
    if hybrid then show_vec (BlockSpmv.hybrid_residual sc b f bm x r)
    else show_bvec b (Kernels.residual s (BlockSpmv.as_rhs sc b f) bm (BlockSpmv.as_rhs sc b x) (BlockSpmv.as_rhs sc b r)) in
  reg "bresid" (resid_like false); reg "hresid" (resid_like true);
  (* backend::vmul with a vector of BLOCKS x and re-interpreted scalar vectors y, z (builtin.hpp, mixed vmul_impl):
     Kernels.vmul at BlockS;  bvmul b <n> <n blocks, row-major cells> <y> alpha beta <z> *)
  reg "bvmul" (fun t ->
    let b = t_i t in check_b b;
    let x = t_list t (t_blk b) in let y = t_vec t in let alpha = t_q t in let beta = t_q t in let z = t_vec t in
    if List.length y <> b * List.length x || List.length z <> b * List.length x then raise (Model_exc "invalid_argument");
    let s = inst b in
    show_bvec b (Kernels.vmul s (embed b alpha) x (BlockSpmv.as_rhs sc b y) (embed b beta) (BlockSpmv.as_rhs sc b z)));
  (* the re-interpretation itself at the complex instance: a vector of n std::complex numbers viewed through
     b x b complex blocks = BlockSpmv.as_rhs at S0 = ComplexS: n/b elements of b complex numbers each *)
  reg "cview" (fun t ->
    let b = t_i t in check_b b; let n = t_i t in
    let x = List.init n (fun _ -> Obj.repr (sc.Scalar.s0, sc.Scalar.s0)) in
    let v = BlockSpmv.as_rhs cs b x in
    let per = match v with [] -> b | a :: _ -> List.length (BlockInst.blk_col0 cs b (Obj.obj a)) in
    Printf.sprintf "elements=%d complex_per_element=%d bytes_per_element=%d" (List.length v) per (16 * per));

  (* scaled_problem over Eigen block values, scalar scale vector (or scale_diagonal when dflt = 1):
     scaled_eig b <bcrs> <dflt> <s> <x (n*b scalars)> *)
  reg "scaled_eig" (fun t ->
    let b = t_i t in check_b b;
    let m = t_bcrs b t in let dflt = t_i t in let sv = t_vec t in let x = t_vec t in
    if m.Crs.ncols <> nrows m then raise (Model_exc "invalid_argument");
    scaled_view (inst b) m (if dflt <> 0 then None else Some sv) (embed b) (show_embedded b) (show_bcrs b) (show_bvec b)
      (BlockSpmv.as_rhs sc b x));
  (* scaled_problem over static_matrix values with a BLOCK diagonal: scaled_blk b <bcrs> 0 <S: n blocks> <x> *)
  reg "scaled_blk" (fun t ->
    let b = t_i t in check_b b;
    let m = t_bcrs b t in let dflt = t_i t in
    if m.Crs.ncols <> nrows m || dflt <> 0 then raise (Model_exc "invalid_argument");
    let sv = t_list t (t_blk b) in let x = t_vec t in
    scaled_view (inst b) m (Some sv) (fun v -> v) (show_blk b) (show_bcrs b) (show_bvec b) (BlockSpmv.as_rhs sc b x));
  (* scaled_problem over complex values: scaled_cplx <re crs> <im crs> <dflt> <s> <xr> <xi> *)
  reg "scaled_cplx" (fun t ->
    let re = t_crs t in let im = t_crs t in let dflt = t_i t in let sv = t_vec t in let xr = t_vec t in let xi = t_vec t in
    let rows = List.map2 (fun r1 r2 -> List.map2 (fun (c, a) (c', b) ->
        if c <> c' then raise (Model_exc "invalid_argument"); (c, Obj.repr (a, b))) r1 r2) re.Crs.rows im.Crs.rows in
    let m = { Crs.ncols = re.Crs.ncols; Crs.rows = rows } in
    let x = List.map2 (fun a b -> Obj.repr (a, b)) xr xi in
    scaled_view cs m (if dflt <> 0 then None else Some sv) cre show_real_c show_ccrs show_cvec x)
