(* ops_amg.ml -- model side of harness/amg_driver.hpp (C02, C03, C15-amg).
   Model case line (built by tools/props/amg_common.py from the implementation's dump):
     <id> amgm <relax> <coarse_enough direct_coarse max_levels npre npost ncycle pre_cycles>
          <damping|-> <scale|-> A <k> (0 | 1 P R)*k <nscript> (dump | apply f x0 | cycle f x0 | rebuild A')*
   The transfer operators are those the implementation produced (their correctness is C04);
   everything else (sorting, Galerkin products, level rules, smoother setup, cycle) is model. *)
open Io

let relax_of name damping =
  match name with
  | "damped_jacobi" ->
    AmgExec.RJacobi (if damping = "-" then box (parse_q "18/25") else box (parse_q damping))
  | "spai0" -> AmgExec.RSpai0
  | "gauss_seidel" -> AmgExec.RGS
  | _ -> raise (Model_exc "UNSUPPORTED-relax")

let show_levels (ls : Amg.ldesc list) =
  let single = (List.length ls = 1) in
  "D " ^ string_of_int (List.length ls) ^
  String.concat "" (List.map (fun l -> match l with
      | Amg.LMid (a, p, r) -> " M " ^ show_crs a ^ " " ^ show_crs p ^ " " ^ show_crs r
      | Amg.LLast a -> " L " ^ show_crs a
      | Amg.LSolve a -> if single then " S " ^ show_crs a else " S -") ls)

let () =
  reg "amgm" (fun t ->
    let relax = t_s t in
    let ce = t_i t in let dc = t_i t <> 0 in let ml = t_i t in
    let npre = t_i t in let npost = t_i t in let ncycle = t_i t in let pre_cycles = t_i t in
    let damping = t_s t in let scale = t_s t in
    let a = t_crs t in
    let k = t_i t in
    let ts = List.init k (fun _ -> if t_i t = 1 then (let p = t_crs t in let r = t_crs t in Some (p, r)) else None) in
    let rk = relax_of relax damping in
    let cop = AmgExec.coarse_op_of sc (if scale = "-" then None else Some (box (parse_q scale))) in
    if List.length a.Crs.rows <> a.Crs.ncols then raise (Model_exc "logic_error");
    let descs = ref (Amg.amg_init sc ce dc ml cop ts a) in
    let inst ds =
      List.iter (fun d -> match d with
          | Amg.LSolve m -> if not (AmgExec.solvable sc m) then raise (Model_exc "runtime_error")
          | _ -> ()) ds;
      List.map (Amg.instantiate sc (AmgExec.mk_relax_std sc rk) (AmgExec.mk_solve_exact sc)) ds in
    let levels = ref (inst !descs) in
    let scr = ref (List.map (Amg.fresh_scratch sc) !descs) in
    let ns = t_i t in
    let out = ref [] in
    for _ = 1 to ns do
      let cmd = t_s t in
      (match cmd with
       | "dump" -> out := show_levels !descs :: !out
       | "apply" -> let f = t_vec t in let x = t_vec t in
         let (x', s') = Amg.apply sc npre npost ncycle pre_cycles !levels !scr f x in
         scr := s'; out := show_vec x' :: !out
       | "cycle" -> let f = t_vec t in let x = t_vec t in
         let (x', s') = Amg.cycle sc npre npost ncycle !levels !scr f x in
         scr := s'; out := show_vec x' :: !out
       | "rebuild" -> let a2 = t_crs t in
         descs := Amg.amg_rebuild sc cop !descs a2; levels := inst !descs; out := "ok" :: !out
       | _ -> failwith ("bad script command " ^ cmd))
    done;
    String.concat " ; " (List.rev !out))
