(* ops_amg.ml -- model side of harness/amg_driver.hpp (C02, C03, C15-amg).
   Model case line (built by tools/props/amg_common.py from the implementation's dump):
     <id> amgm <relax> <coarse_enough direct_coarse max_levels npre npost ncycle pre_cycles>
          <damping|-> <scale|-> A <k> (0 | 1 P R)*k <nscript> (dump | apply f x0 | cycle f x0 | rebuild A')*
   The transfer operators are those the implementation produced (their correctness is C04);
   everything else (sorting, Galerkin products, level rules, smoother setup, cycle) is model. *)
open Io

(* mk_relax : crs -> sweep * sweep for every relaxation the amg driver instantiates.
   damped_jacobi / spai0 / gauss_seidel come from AmgExec.mk_relax_std (Relax.v),
   ilu0 from Ilu.v, chebyshev (default parameters: degree 5, higher 1, lower (float)1/30,
   Gershgorin bound, no scaling) from Cheby.v *)
let float32_one_thirtieth = "2236962/67108864"   (* (float)(1.0f/30) = 0x3D088889 = 8947849 * 2^-28 *)
let mk_relax name damping : Crs.crs -> Amg.sweep * Amg.sweep =
  let dq = if damping = "-" then None else Some (box (parse_q damping)) in
  match name with
  | "damped_jacobi" ->
    AmgExec.mk_relax_std sc (AmgExec.RJacobi (match dq with Some d -> d | None -> box (parse_q "18/25")))
  | "spai0" -> AmgExec.mk_relax_std sc AmgExec.RSpai0
  | "gauss_seidel" -> AmgExec.mk_relax_std sc AmgExec.RGS
  | "ilu0" -> (fun a ->
      match Ilu.ilu0 sc a [] with
      | Ilu.Err _ -> raise (Model_exc "runtime_error")
      | Ilu.Ok ((l, u), d) ->
        let w = (match dq with Some d -> d | None -> sc.Scalar.s1) in
        let sw = (fun rhs x t -> Ilu.ilu_sweep sc w l u d a rhs x t) in (sw, sw))
  | "chebyshev" -> (fun a ->
      let n = List.length a.Crs.rows in
      let zeros = List.init n (fun _ -> sc.Scalar.s0) in
      let cdm = Cheby.cheby_setup sc false a (Cheby.gershgorin sc false a)
          (box (parse_q "8947849/268435456")) sc.Scalar.s1 [] in
      (* p, r are per-object workspaces: carried across sweeps of this level *)
      let p = ref zeros and r = ref zeros in
      let sw = (fun rhs x t ->
          let (((x', p'), r'), _) = Cheby.cheby_solve sc (Cheby.c_two sc) (Cheby.c_quarter sc)
              (fst (fst cdm)) (snd (fst cdm)) (snd cdm) 5 a rhs x !p !r in
          p := p'; r := r'; (x', t)) in
      (sw, sw))
  | _ -> raise (Model_exc "UNSUPPORTED-relax")

let show_levels (ls : Amg.ldesc list) =
  let single = (List.length ls = 1) in
  "D " ^ string_of_int (List.length ls) ^
  String.concat "" (List.map (fun l -> match l with
      | Amg.LMid (a, p, r) -> " M " ^ show_crs a ^ " " ^ show_crs p ^ " " ^ show_crs r
      | Amg.LLast a -> " L " ^ show_crs a
      | Amg.LSolve a -> if single then " S " ^ show_crs a else " S -") ls)

let () =
  reg "amgm" (fun t ->
    let relax = t_s t in
    let ce = t_i t in let dc = t_i t <> 0 in let ml = t_i t in
    let npre = t_i t in let npost = t_i t in let ncycle = t_i t in let pre_cycles = t_i t in
    let damping = t_s t in let scale = t_s t in
    let a = t_crs t in
    let k = t_i t in
    let ts = List.init k (fun _ -> if t_i t = 1 then (let p = t_crs t in let r = t_crs t in Some (p, r)) else None) in
    let mkr = mk_relax relax damping in
    let cop = AmgExec.coarse_op_of sc (if scale = "-" then None else Some (box (parse_q scale))) in
    if List.length a.Crs.rows <> a.Crs.ncols then raise (Model_exc "logic_error");
    let descs = ref (Amg.amg_init sc ce dc ml cop ts a) in
    let inst ds =
      List.iter (fun d -> match d with
          | Amg.LSolve m -> if not (AmgExec.solvable sc m) then raise (Model_exc "runtime_error")
          | _ -> ()) ds;
      List.map (Amg.instantiate sc mkr (AmgExec.mk_solve_exact sc)) ds in
    let levels = ref (inst !descs) in
    let scr = ref (List.map (Amg.fresh_scratch sc) !descs) in
    let ns = t_i t in
    let out = ref [] in
    for _ = 1 to ns do
      let cmd = t_s t in
      (match cmd with
       | "dump" -> out := show_levels !descs :: !out
       | "apply" -> let f = t_vec t in let x = t_vec t in
         let (x', s') = Amg.apply sc npre npost ncycle pre_cycles !levels !scr f x in
         scr := s'; out := show_vec x' :: !out
       | "cycle" -> let f = t_vec t in let x = t_vec t in
         let (x', s') = Amg.cycle sc npre npost ncycle !levels !scr f x in
         scr := s'; out := show_vec x' :: !out
       | "rebuild" -> let a2 = t_crs t in
         descs := Amg.amg_rebuild sc cop !descs a2; levels := inst !descs; out := "ok" :: !out
       | _ -> failwith ("bad script command " ^ cmd))
    done;
    String.concat " ; " (List.rev !out))
