(* ops_amgc.ml -- model side of harness/amgc_driver.hh (C02, block value types).
   The SAME extracted cycle model as ocaml/amg/ops_amg.ml (Amg.amg_init / Amg.cycle / Amg.apply of coq/Amg.v), run at
   the Scalar instance BlockInst.coq_BlockS sc b (static_matrix<Q,b,b>; products do not commute), with the smoothers
   and the block coarse solve of coq/AmgBlockCycle.v (mk_relax5, mk_solve_block).
   Vector entries (static_matrix<Q,b,1>) travel as blocks with the vector in column 0 (BlockInst.blk_col); on output
   every entry is checked to still have that shape (Model_exc "vector_shape" otherwise).
   math::inverse of a singular NON-ZERO block: the C++ asserts; here Model_exc "singular_block" (never the totalised
   default of BlockInst.blk_inv).  The ZERO block is the one value that is also an embedded scalar_type quantity
   (spai0: den = sum of squared norms; chebyshev: d, 2 d d - c c): there the C++ computes math::inverse(Q(0)) = 0
   (vq::Q: x/0 = 0, as Qcinv 0 = 0 in QcS) and goes on, and blk_inv 0 = 0 is exactly that.  Where the C++ inverts a zero
   BLOCK (gauss_seidel with a zero diagonal block) it aborts in detail::inverse and the case is never compared
   (tools/props/c02_block.py: "singular-block-assert(out of domain)").
   Model case line (built by tools/props/C02.py from the implementation's dump):
     <id> amgcm <b> <relax> <coarse_enough direct_coarse max_levels npre npost ncycle pre_cycles>
          <damping> <degree lower higher scale> <galerkin scale|-> A:bcrs <k> (0 | 1 P:bcrs R:bcrs)*k
          <nscript> (dump | apply f x0 | cycle f x0)*
   The transfer operators are those the implementation produced (their correctness is C04); everything else
   (sorting, block Galerkin products, level rules, smoother setup, cycle) is model.
   Oracle op (specification evaluated on the implementation's output):
     amgc.o_coarse <b> A:bcrs rhs:bvec x:bvec  -> OK iff A x = rhs with block products (Kernels.spmv at BlockS). *)
open Io

let inst_cache : (int, Scalar.coq_Scalar) Hashtbl.t = Hashtbl.create 5
let inst b =
  match Hashtbl.find_opt inst_cache b with
  | Some s -> s
  | None ->
    let bs = BlockInst.coq_BlockS sc b in
    let s = { bs with Scalar.sinv = (fun a ->
        match BlockInst.blk_inverse sc b (Obj.obj a) with
        | None -> if bs.Scalar.seqb a bs.Scalar.s0 then bs.Scalar.sinv a else raise (Model_exc "singular_block")
        | Some _ -> bs.Scalar.sinv a) } in
    Hashtbl.replace inst_cache b s; s

let t_blk b t : Obj.t = Obj.repr (List.init (b * b) (fun _ -> t_q t))
let t_bcrs b t : Crs.crs =
  let n = t_i t in let m = t_i t in
  let rows = List.init n (fun _ -> t_list t (fun t -> let c = t_i t in let v = t_blk b t in (c, v))) in
  { Crs.ncols = m; Crs.rows = rows }
(* flat vector of n*b rationals -> n column-0 blocks *)
let t_bvec b t : Obj.t list =
  let n = t_i t in
  if n mod b <> 0 then failwith "case: vector length not a multiple of b";
  List.init (n / b) (fun _ -> let v = List.init b (fun _ -> t_q t) in Obj.repr (BlockInst.blk_col sc b v))
let embed b (c : Obj.t) : Obj.t = Obj.repr (BlockInst.blk_embed sc b c)

let cells (a : Obj.t) : Obj.t list = Obj.obj a
let show_bvec b (v : Obj.t list) =
  List.iter (fun a -> if not (BlockInst.blk_is_col sc b (Obj.obj a)) then raise (Model_exc "vector_shape")) v;
  "[" ^ String.concat " " (List.concat_map (fun a -> List.map show_s (BlockInst.blk_col0 sc b (Obj.obj a))) v) ^ "]"
let show_blk (a : Obj.t) = String.concat ";" (List.map show_s (cells a))
let show_bcrs (a : Crs.crs) =
  let m = a.Crs.ncols in
  let bad = ref false in
  let rows = List.map (fun r ->
      " |" ^ String.concat "" (List.map (fun (c, v) -> if c < 0 || c >= m then bad := true;
                                 " " ^ string_of_int c ^ ":" ^ show_blk v) r)) a.Crs.rows in
  if !bad then "BADCRS col-out-of-range" else
  "{" ^ string_of_int (List.length a.Crs.rows) ^ " " ^ string_of_int m ^ String.concat "" rows ^ "}"

let show_levels (ls : Amg.ldesc list) =
  let single = (List.length ls = 1) in
  "D " ^ string_of_int (List.length ls) ^
  String.concat "" (List.map (fun l -> match l with
      | Amg.LMid (a, p, r) -> " M " ^ show_bcrs a ^ " " ^ show_bcrs p ^ " " ^ show_bcrs r
      | Amg.LLast a -> " L " ^ show_bcrs a
      | Amg.LSolve a -> if single then " S " ^ show_bcrs a else " S -") ls)

(* the smoother of the case as a value of AmgBlockCycle.relax5 over the block instance;
   scalar_type parameters (damping, lower, higher) are embedded as c*I *)
let relax_of b name damping degree lower higher scale : AmgBlockCycle.relax5 =
  match name with
  | "damped_jacobi" -> AmgBlockCycle.R5Std (AmgExec.RJacobi (embed b damping))
  | "spai0" -> AmgBlockCycle.R5Std AmgExec.RSpai0
  | "gauss_seidel" -> AmgBlockCycle.R5Std AmgExec.RGS
  | "ilu0" -> AmgBlockCycle.R5Ilu0 (embed b damping)
  | "chebyshev" -> AmgBlockCycle.R5Cheby (degree, embed b lower, embed b higher, scale)
  | _ -> raise (Model_exc "UNSUPPORTED-relax")

let () =
  reg "amgcm" (fun t ->
    let b = t_i t in let s = inst b in
    let relax = t_s t in
    let ce = t_i t in let dc = t_i t <> 0 in let ml = t_i t in
    let npre = t_i t in let npost = t_i t in let ncycle = t_i t in let pre_cycles = t_i t in
    let damping = t_q t in
    let degree = t_i t in let lower = t_q t in let higher = t_q t in let scale = (t_i t <> 0) in
    let gscale = t_s t in
    let a = t_bcrs b t in
    let k = t_i t in
    let ts = List.init k (fun _ -> if t_i t = 1 then (let p = t_bcrs b t in let r = t_bcrs b t in Some (p, r)) else None) in
    let rk = relax_of b relax damping degree lower higher scale in
    let cop = AmgExec.coarse_op_of s (if gscale = "-" then None else Some (embed b (box (parse_q gscale)))) in
    if List.length a.Crs.rows <> a.Crs.ncols then raise (Model_exc "logic_error");
    let descs = Amg.amg_init s ce dc ml cop ts a in
    (* constructors that refuse: ilu0 (no diagonal / zero pivot) throws, a singular coarse matrix has no LU *)
    if not (AmgBlockCycle.descs_ready s rk descs) then raise (Model_exc "runtime_error");
    List.iter (fun d -> match d with
        | Amg.LSolve m -> if not (AmgBlockCycle.solvable_block sc b m) then raise (Model_exc "runtime_error")
        | _ -> ()) descs;
    let levels = List.map (Amg.instantiate s (AmgBlockCycle.mk_relax5 s rk) (AmgBlockCycle.mk_solve_block sc b)) descs in
    let scr = ref (List.map (Amg.fresh_scratch s) descs) in
    let ns = t_i t in
    let out = ref [] in
    for _ = 1 to ns do
      let cmd = t_s t in
      (match cmd with
       | "dump" -> out := show_levels descs :: !out
       | "apply" -> let f = t_bvec b t in let x = t_bvec b t in
         let (x', s') = Amg.apply s npre npost ncycle pre_cycles levels !scr f x in
         scr := s'; out := show_bvec b x' :: !out
       | "cycle" -> let f = t_bvec b t in let x = t_bvec b t in
         let (x', s') = Amg.cycle s npre npost ncycle levels !scr f x in
         scr := s'; out := show_bvec b x' :: !out
       | _ -> failwith ("bad script command " ^ cmd))
    done;
    String.concat " ; " (List.rev !out));

  reg "amgc.o_coarse" (fun t -> let b = t_i t in let s = inst b in
    let a = t_bcrs b t in let rhs = t_bvec b t in let x = t_bvec b t in
    let n = List.length a.Crs.rows in
    let y = Kernels.spmv s s.Scalar.s1 a x s.Scalar.s0 (List.init n (fun _ -> s.Scalar.s0)) in
    if List.length y = List.length rhs && List.for_all2 (fun p q -> s.Scalar.seqb p q) y rhs then "OK"
    else "FAIL A x <> rhs")
