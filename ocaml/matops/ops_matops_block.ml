(* ops_matops_block.ml -- model side of harness/drv_matops_block.cpp (C08, block and complex value types):
   the SAME extracted models as ops_matops.ml (MatOps.v, MatOps2.v), run at the Scalar instances
     BlockInst.coq_BlockS sc b      (static_matrix<Q,b,b>; products do not commute)      ops "bm.*"
     ComplexInst.coq_ComplexS sc    (std::complex; conjugation as adjoint)               ops "cm.*"
   plus block-level oracle ops "bm.o.*" (the extracted SPECIFICATION functions of MatOps2.v evaluated at BlockS on
   the implementation's outputs).  math::inverse of a singular block: the C++ asserts; here Model_exc
   "singular_block" (never the totalised default of BlockInst.blk_inv).  Base scalars (scale factor, norms,
   spectral radius) are embedded as c*I and printed as c after checking that they are of that form.
   Token types: see the header of drv_matops_block.cpp. *)
open Io

let inst_cache : (int, Scalar.coq_Scalar) Hashtbl.t = Hashtbl.create 5
let inst b =
  match Hashtbl.find_opt inst_cache b with
  | Some s -> s
  | None ->
    let bs = BlockInst.coq_BlockS sc b in
    let s = { bs with Scalar.sinv = (fun a ->
        match BlockInst.blk_inverse sc b (Obj.obj a) with
        | None -> raise (Model_exc "singular_block")
        | Some _ -> bs.Scalar.sinv a) } in
    Hashtbl.replace inst_cache b s; s

let t_b t = (t_i t) <> 0
let some_or_exc k = function Some x -> x | None -> raise (Model_exc k)
let t_blk b t : Obj.t = Obj.repr (List.init (b * b) (fun _ -> t_q t))
let t_bcrs b t : Crs.crs =
  let n = t_i t in let m = t_i t in
  let rows = List.init n (fun _ -> t_list t (fun t -> let c = t_i t in let v = t_blk b t in (c, v))) in
  { Crs.ncols = m; Crs.rows = rows }
let t_blocks b t : Obj.t list = let n = t_i t in List.init n (fun _ -> t_blk b t)
let embed b (c : Obj.t) : Obj.t = Obj.repr (BlockInst.blk_embed sc b c)
let cells (a : Obj.t) : Obj.t list = Obj.obj a
let show_blocks (v : Obj.t list) =
  "[" ^ String.concat " " (List.concat_map (fun a -> List.map show_s (cells a)) v) ^ "]"
let show_blk (a : Obj.t) = String.concat ";" (List.map show_s (cells a))
let show_crs_with showv (a : Crs.crs) =
  let m = a.Crs.ncols in
  let bad = ref false in
  let rows = List.map (fun r ->
      " |" ^ String.concat "" (List.map (fun (c, v) -> if c < 0 || c >= m then bad := true;
                                 " " ^ string_of_int c ^ ":" ^ showv v) r)) a.Crs.rows in
  if !bad then "BADCRS col-out-of-range" else
  "{" ^ string_of_int (List.length a.Crs.rows) ^ " " ^ string_of_int m ^ String.concat "" rows ^ "}"
let show_bcrs = show_crs_with show_blk
(* an embedded base scalar c*I is printed as c (and checked to be of that form) *)
let show_embedded b (a : Obj.t) =
  let c = BlockInst.blk_get sc b (Obj.obj a) 0 0 in
  if not ((inst b).Scalar.seqb a (embed b c)) then raise (Model_exc "not_a_scalar");
  show_s c
let same_shape (a : Crs.crs) (b : Crs.crs) =
  List.length a.Crs.rows = List.length b.Crs.rows && a.Crs.ncols = b.Crs.ncols

(* complex rationals: tokens "re im", printed "re,im" *)
let csc = ComplexInst.coq_ComplexS sc
let t_c t : Obj.t = let re = t_q t in let im = t_q t in Obj.repr (re, im)
let t_cr t : Obj.t = Obj.repr (ComplexInst.c_of_re sc (t_q t))
let show_c (x : Obj.t) = let (re, im) : (Obj.t * Obj.t) = Obj.obj x in show_s re ^ "," ^ show_s im
let t_ccrs t : Crs.crs =
  let n = t_i t in let m = t_i t in
  let rows = List.init n (fun _ -> t_list t (fun t -> let c = t_i t in let v = t_c t in (c, v))) in
  { Crs.ncols = m; Crs.rows = rows }
let show_ccrs = show_crs_with show_c

let ok b = if b then "OK" else "FAIL"
let okl l = match List.filter (fun (_, b) -> not b) l with
  | [] -> "OK" | bad -> "FAIL " ^ String.concat "," (List.map fst bad)

let () =
  (* ---------------- blocks: kernels ---------------- *)
  reg "bm.transpose" (fun t -> let b = t_i t in let a = t_bcrs b t in show_bcrs (MatOps.transpose (inst b) a));
  reg "bm.saad" (fun t -> let b = t_i t in let a = t_bcrs b t in let c = t_bcrs b t in let s = t_b t in
    show_bcrs (MatOps.spgemm_saad (inst b) a c s));
  reg "bm.rmerge" (fun t -> let b = t_i t in let a = t_bcrs b t in let c = t_bcrs b t in
    show_bcrs (MatOps2.spgemm_rmerge (inst b) a c));
  reg "bm.product" (fun t -> let b = t_i t in let nt = t_i t in let a = t_bcrs b t in let c = t_bcrs b t in let s = t_b t in
    show_bcrs (MatOps2.product (inst b) nt a c s));
  reg "bm.sum" (fun t -> let b = t_i t in let al = t_blk b t in let a = t_bcrs b t in let be = t_blk b t in
    let c = t_bcrs b t in let s = t_b t in
    if not (same_shape a c) then raise (Model_exc "runtime_error");
    show_bcrs (MatOps.msum (inst b) al a be c s));
  reg "bm.scale" (fun t -> let b = t_i t in let a = t_bcrs b t in let s = embed b (t_q t) in
    show_bcrs (MatOps.mscale (inst b) a s));
  reg "bm.sort_rows" (fun t -> let b = t_i t in let a = t_bcrs b t in show_bcrs (MatOps.sort_rows (inst b) a));
  reg "bm.diagonal" (fun t -> let b = t_i t in let a = t_bcrs b t in let inv = t_b t in
    (* rows without a diagonal entry keep the default-constructed value (zero block for static_matrix<Q>) *)
    let junk = List.map (fun _ -> (inst b).Scalar.s0) a.Crs.rows in
    show_blocks (MatOps.diagonal (inst b) a inv junk));
  reg "bm.pointwise" (fun t -> let b = t_i t in let a = t_bcrs b t in let bs = t_i t in
    show_crs_with (show_embedded b) (some_or_exc "runtime_error" (MatOps2.pointwise_matrix (inst b) a bs)));
  reg "bm.specrad" (fun t -> let b = t_i t in let scale = t_b t in let nt = t_i t in let a = t_bcrs b t in
    let lens = Kernels.omp_static_lens (List.length a.Crs.rows) nt in
    show_embedded b (MatOps2.spectral_radius_gersh (inst b) scale lens a));
  (* ---------------- blocks: specification oracles at block level ---------------- *)
  reg "bm.o.sum" (fun t -> let b = t_i t in let al = t_blk b t in let a = t_bcrs b t in let be = t_blk b t in
    let c = t_bcrs b t in let sorted = t_b t in let r = t_bcrs b t in
    okl [ "dense", MatOps2.dense_eq_sum (inst b) al a be c r;
          "nodup", MatOps2.rows_nodup (inst b) r;
          "sorted", (not sorted) || MatOps2.rows_sorted_strict (inst b) r ]);
  reg "bm.o.product" (fun t -> let b = t_i t in let a = t_bcrs b t in let c = t_bcrs b t in let sorted = t_b t in let r = t_bcrs b t in
    okl [ "dense", MatOps2.dense_eq_product (inst b) a c r;
          "nodup", MatOps2.rows_nodup (inst b) r;
          "sorted", (not sorted) || MatOps2.rows_sorted_strict (inst b) r ]);
  reg "bm.o.transpose" (fun t -> let b = t_i t in let a = t_bcrs b t in let r = t_bcrs b t in
    okl [ "dense", MatOps2.dense_eq_transpose (inst b) a r; "sorted", MatOps2.rows_sorted_weak (inst b) r ]);
  (* diagonal: first stored diagonal block; inverted: d_i * a_ii = a_ii * d_i = I checked by block products *)
  reg "bm.o.diagonal" (fun t -> let b = t_i t in let s = inst b in let a = t_bcrs b t in let inv = t_b t in let d = t_blocks b t in
    let bad = ref [] in
    if List.length d <> List.length a.Crs.rows then bad := ["len"];
    List.iteri (fun i r ->
        match MatOps.first_col s r i, List.nth_opt d i with
        | Some x, Some di ->
          if not inv then (if not (s.Scalar.seqb di x) then bad := "value" :: !bad)
          else if Scalar.is_zero s x then (if not (s.Scalar.seqb di s.Scalar.s1) then bad := "identity" :: !bad)
          else begin
            if not (s.Scalar.seqb (s.Scalar.smul x di) s.Scalar.s1) then bad := "right_inverse" :: !bad;
            if not (s.Scalar.seqb (s.Scalar.smul di x) s.Scalar.s1) then bad := "left_inverse" :: !bad
          end
        | _ -> ()) a.Crs.rows;
    if !bad = [] then "OK" else "FAIL " ^ String.concat "," !bad);
  reg "bm.o.pointwise" (fun t -> let b = t_i t in let a = t_bcrs b t in let bs = t_i t in let r = t_crs t in
    let r' = { r with Crs.rows = List.map (List.map (fun (c, v) -> (c, embed b v))) r.Crs.rows } in
    ok (MatOps2.crs_eqb (inst b) (MatOps2.pointwise_spec (inst b) a bs) r'));
  reg "bm.o.specrad" (fun t -> let b = t_i t in let scale = t_b t in let a = t_bcrs b t in let r = t_q t in
    ok ((inst b).Scalar.seqb (MatOps2.gersh_spec (inst b) scale a) (embed b r)));
  (* ---------------- complex ---------------- *)
  reg "cm.transpose" (fun t -> let a = t_ccrs t in show_ccrs (MatOps.transpose csc a));
  reg "cm.saad" (fun t -> let a = t_ccrs t in let b = t_ccrs t in let s = t_b t in show_ccrs (MatOps.spgemm_saad csc a b s));
  reg "cm.rmerge" (fun t -> let a = t_ccrs t in let b = t_ccrs t in show_ccrs (MatOps2.spgemm_rmerge csc a b));
  reg "cm.product" (fun t -> let nt = t_i t in let a = t_ccrs t in let b = t_ccrs t in let s = t_b t in
    show_ccrs (MatOps2.product csc nt a b s));
  reg "cm.sum" (fun t -> let al = t_c t in let a = t_ccrs t in let be = t_c t in let b = t_ccrs t in let s = t_b t in
    if not (same_shape a b) then raise (Model_exc "runtime_error");
    show_ccrs (MatOps.msum csc al a be b s));
  reg "cm.scale" (fun t -> let k = t_s t in let a = t_ccrs t in let s = (if k = "c" then t_c t else t_cr t) in
    show_ccrs (MatOps.mscale csc a s));
  reg "cm.sort_rows" (fun t -> let a = t_ccrs t in show_ccrs (MatOps.sort_rows csc a));
  (* complex oracles: dense definitions at ComplexS *)
  reg "cm.o.transpose" (fun t -> let a = t_ccrs t in let c = t_ccrs t in
    okl [ "dense", MatOps2.dense_eq_transpose csc a c ]);
  reg "cm.o.product" (fun t -> let a = t_ccrs t in let b = t_ccrs t in let sorted = t_b t in let c = t_ccrs t in
    okl [ "dense", MatOps2.dense_eq_product csc a b c; "nodup", MatOps2.rows_nodup csc c;
          "sorted", (not sorted) || MatOps2.rows_sorted_strict csc c ]);
  reg "cm.o.sum" (fun t -> let al = t_c t in let a = t_ccrs t in let be = t_c t in let b = t_ccrs t in let sorted = t_b t in let c = t_ccrs t in
    okl [ "dense", MatOps2.dense_eq_sum csc al a be b c; "nodup", MatOps2.rows_nodup csc c;
          "sorted", (not sorted) || MatOps2.rows_sorted_strict csc c ]);
  reg "cm.o.scale" (fun t -> let k = t_s t in let a = t_ccrs t in let s = (if k = "c" then t_c t else t_cr t) in let c = t_ccrs t in
    okl [ "dense", MatOps2.dense_eq_scale csc a s c ])
