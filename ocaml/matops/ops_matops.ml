(* ops_matops.ml -- model side of harness/drv_matops.cpp (C08), plus the oracle ops
   ("o.*") that evaluate the extracted *specification* functions on outputs of the
   implementation. *)
open Io

let t_b t = (t_i t) <> 0
let some_or_exc k = function Some x -> x | None -> raise (Model_exc k)

(* complex rationals: tokens "re im", printed "re,im" *)
let csc = MatOps2.coq_CqS
let t_c t : Obj.t = let re = parse_q (next t) in let im = parse_q (next t) in
  Obj.repr (Qcanon.coq_Q2Qc re, Qcanon.coq_Q2Qc im)
let show_c (x : Obj.t) = let (re, im) : (q * q) = Obj.obj x in show_q re ^ "," ^ show_q im
let t_crs_with tv t : Crs.crs =
  let n = t_i t in let m = t_i t in
  let rows = List.init n (fun _ -> t_list t (fun t -> let c = t_i t in let v = tv t in (c, v))) in
  { Crs.ncols = m; Crs.rows = rows }
let show_crs_with showv (a : Crs.crs) =
  let m = a.Crs.ncols in
  let bad = ref false in
  let rows = List.map (fun r ->
      " |" ^ String.concat "" (List.map (fun (c, v) -> if c < 0 || c >= m then bad := true;
                                 " " ^ string_of_int c ^ ":" ^ showv v) r)) a.Crs.rows in
  if !bad then "BADCRS col-out-of-range" else
  "{" ^ string_of_int (List.length a.Crs.rows) ^ " " ^ string_of_int m ^ String.concat "" rows ^ "}"

(* block matrices: tokens  np mp (k (J v*(b*b))*k)*np ; printed {np mp | J:v,v,... ...} *)
let show_bcrs (a : MatOps2.bcrs) =
  let m = a.MatOps2.bncols in
  let bad = ref false in
  let rows = List.map (fun r ->
      " |" ^ String.concat "" (List.map (fun (c, blk) -> if c < 0 || c >= m then bad := true;
                                 " " ^ string_of_int c ^ ":" ^ String.concat "," (List.map show_s (List.concat blk))) r)) a.MatOps2.brows in
  if !bad then "BADCRS col-out-of-range" else
  "{" ^ string_of_int (List.length a.MatOps2.brows) ^ " " ^ string_of_int m ^ String.concat "" rows ^ "}"
let t_bcrs b t : MatOps2.bcrs =
  let n = t_i t in let m = t_i t in
  let rows = List.init n (fun _ -> t_list t (fun t -> let c = t_i t in
      let blk = List.init b (fun _ -> List.init b (fun _ -> t_q t)) in (c, blk))) in
  { MatOps2.bncols = m; MatOps2.brows = rows }

let ok b = if b then "OK" else "FAIL"
let okl l = match List.filter (fun (_, b) -> not b) l with
  | [] -> "OK" | bad -> "FAIL " ^ String.concat "," (List.map fst bad)

let () =
  (* ---------------- kernels ---------------- *)
  reg "transpose" (fun t -> let a = t_crs t in show_crs (MatOps.transpose sc a));
  reg "saad" (fun t -> let a = t_crs t in let b = t_crs t in let s = t_b t in
    show_crs (MatOps.spgemm_saad sc a b s));
  reg "rmerge" (fun t -> let a = t_crs t in let b = t_crs t in
    show_crs (MatOps2.spgemm_rmerge sc a b));
  reg "rmerge_widths" (fun t -> let a = t_crs t in let b = t_crs t in
    show_ivec (MatOps2.rmerge_widths sc a b));
  reg "product" (fun t -> let nt = t_i t in let a = t_crs t in let b = t_crs t in let s = t_b t in
    show_crs (MatOps2.product sc nt a b s));
  reg "sum" (fun t -> let al = t_q t in let a = t_crs t in let be = t_q t in let b = t_crs t in let s = t_b t in
    if List.length a.Crs.rows <> List.length b.Crs.rows || a.Crs.ncols <> b.Crs.ncols
    then raise (Model_exc "runtime_error");
    show_crs (MatOps.msum sc al a be b s));
  reg "scale" (fun t -> let a = t_crs t in let s = t_q t in show_crs (MatOps.mscale sc a s));
  reg "sort_rows" (fun t -> let a = t_crs t in show_crs (MatOps.sort_rows sc a));
  reg "diagonal" (fun t -> let a = t_crs t in let inv = t_b t in
    (* rows without a diagonal entry keep the default-constructed value (0 for vq::Q) *)
    let junk = List.map (fun _ -> sc.Scalar.s0) a.Crs.rows in
    show_vec (MatOps.diagonal sc a inv junk));
  reg "pointwise" (fun t -> let a = t_crs t in let bs = t_i t in
    show_crs (some_or_exc "runtime_error" (MatOps2.pointwise_matrix sc a bs)));
  reg "pointwise_counts" (fun t -> let a = t_crs t in let bs = t_i t in
    show_ivec (MatOps2.pointwise_counts sc a bs));
  reg "specrad" (fun t -> let scale = t_b t in let nt = t_i t in let a = t_crs t in
    let lens = Kernels.omp_static_lens (List.length a.Crs.rows) nt in
    show_s (MatOps2.spectral_radius_gersh sc scale lens a));
  reg "specrad_power" (fun t -> let scale = t_b t in let it = t_i t in let a = t_crs t in let b0 = t_vec t in
    show_s (MatOps2.spectral_radius_power sc scale a it b0));
  reg "ranges" (fun t -> let n = t_i t in let m = t_i t in let p = t_ivec t in let c = t_ivec t in let v = t_vec t in
    show_crs (some_or_exc "runtime_error" (MatOps2.crs_of_ranges sc n m p c v)));
  List.iter (fun nm -> reg nm (fun t -> let a = t_crs t in show_crs (MatOps2.crs_copy sc a)))
    ["copy_tuple"; "copy_crs"; "copy_assign"; "copy_convert"; "copy_ranges"];
  reg "copy_assign_view" (fun t -> let a = t_crs t in let b = t_crs t in show_crs (MatOps2.crs_copy sc a) ^ " " ^ show_crs b);
  (* adapter::block_matrix / unblock_matrix: block matrix printed as {np mp | J:v,v,..(row-major) ...} *)
  reg "block" (fun t -> let b = t_i t in let a = t_crs t in
    show_bcrs (some_or_exc "runtime_error" (MatOps2.block_matrix sc a b)));
  reg "unblock" (fun t -> let b = t_i t in let a = t_crs t in
    show_crs (MatOps2.unblock_matrix sc b (some_or_exc "runtime_error" (MatOps2.block_matrix sc a b))));
  reg "o.block" (fun t -> let b = t_i t in let a = t_crs t in let c = t_bcrs b t in
    ok (MatOps2.bcrs_eqb sc (MatOps2.block_spec sc a b) c));
  reg "o.unblock" (fun t -> let a = t_crs t in let c = t_crs t in
    okl [ "dense", MatOps2.dense_eq sc a c ]);
  (* complex values (non-trivial adjoint) *)
  reg "c.transpose" (fun t -> let a = t_crs_with t_c t in show_crs_with show_c (MatOps.transpose csc a));
  reg "c.saad" (fun t -> let a = t_crs_with t_c t in let b = t_crs_with t_c t in let s = t_b t in
    show_crs_with show_c (MatOps.spgemm_saad csc a b s));
  reg "c.sum" (fun t -> let al = t_c t in let a = t_crs_with t_c t in let be = t_c t in let b = t_crs_with t_c t in let s = t_b t in
    show_crs_with show_c (MatOps.msum csc al a be b s));

  (* ---------------- oracles: specification evaluated on implementation outputs -------- *)
  reg "o.product" (fun t -> let a = t_crs t in let b = t_crs t in let sorted = t_b t in let c = t_crs t in
    okl [ "dense", MatOps2.dense_eq_product sc a b c;
          "nodup", MatOps2.rows_nodup sc c;
          "sorted", (not sorted) || MatOps2.rows_sorted_strict sc c ]);
  reg "o.transpose" (fun t -> let a = t_crs t in let c = t_crs t in
    okl [ "dense", MatOps2.dense_eq_transpose sc a c;
          "sorted", (* rows of the transpose list row indices increasingly *) MatOps2.rows_sorted_weak sc c ]);
  reg "o.c.transpose" (fun t -> let a = t_crs_with t_c t in let c = t_crs_with t_c t in
    okl [ "dense", MatOps2.dense_eq_transpose csc a c ]);
  reg "o.sum" (fun t -> let al = t_q t in let a = t_crs t in let be = t_q t in let b = t_crs t in let sorted = t_b t in let c = t_crs t in
    okl [ "dense", MatOps2.dense_eq_sum sc al a be b c;
          "nodup", MatOps2.rows_nodup sc c;
          "sorted", (not sorted) || MatOps2.rows_sorted_strict sc c ]);
  reg "o.scale" (fun t -> let a = t_crs t in let s = t_q t in let c = t_crs t in
    okl [ "dense", MatOps2.dense_eq_scale sc a s c ]);
  reg "o.sort_rows" (fun t -> let a = t_crs t in let c = t_crs t in
    okl [ "dense", MatOps2.dense_eq sc a c;
          "sorted", MatOps2.rows_sorted_weak sc c;
          "len", List.for_all2 (fun r1 r2 -> List.length r1 = List.length r2) a.Crs.rows c.Crs.rows ]);
  reg "o.diagonal" (fun t -> let a = t_crs t in let inv = t_b t in let d = t_vec t in
    ok (MatOps2.diag_spec_ok sc a inv d));
  reg "o.pointwise" (fun t -> let a = t_crs t in let bs = t_i t in let c = t_crs t in
    ok (MatOps2.crs_eqb sc (MatOps2.pointwise_spec sc a bs) c));
  reg "o.specrad" (fun t -> let scale = t_b t in let a = t_crs t in let r = t_q t in
    ok (sc.Scalar.seqb (MatOps2.gersh_spec sc scale a) r));
  reg "o.copy" (fun t -> let a = t_crs t in let c = t_crs t in ok (MatOps2.crs_eqb sc a c))
