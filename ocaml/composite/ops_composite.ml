(* ops_composite.ml -- model side of harness/drv_composite.cpp (C18): the extracted
   Composite.v / Cpr.v formulas with exact inner solvers passed as function arguments.  The inner
   solvers are dense eliminations written here (untrusted): every result is verified against
   the extracted specification (mv / Ax) before it is used. *)
open Io
module A = Adapters
module C = Composite

let s0 = sc.Scalar.s0
let s1 = sc.Scalar.s1
let ( +: ) = sc.Scalar.sadd
let ( -: ) = sc.Scalar.ssub
let ( *: ) = sc.Scalar.smul
let ( /: ) = sc.Scalar.sdiv
let qeq (a : Obj.t) (b : Obj.t) = sc.Scalar.seqb a b
let is0 x = qeq x s0
let veq a b = List.length a = List.length b && List.for_all2 qeq a b
let nrows (a : Crs.crs) = List.length a.Crs.rows
let zeros n = List.init n (fun _ -> s0)
let unit n i = List.init n (fun j -> if i = j then s1 else s0)
let ok_of l = match List.filter (fun (_, b) -> not b) l with
  | [] -> "OK" | bad -> "FAIL " ^ String.concat "," (List.map fst bad)

(* dense elimination; None if singular *)
let dense_solve (m : Obj.t array array) (rhs : Obj.t array) : Obj.t list option =
  let n = Array.length rhs in
  let m = Array.map Array.copy m and r = Array.copy rhs in
  try
    for c = 0 to n - 1 do
      let p = ref c in
      while !p < n && is0 m.(!p).(c) do incr p done;
      if !p = n then raise Exit;
      let t = m.(!p) in m.(!p) <- m.(c); m.(c) <- t;
      let t = r.(!p) in r.(!p) <- r.(c); r.(c) <- t;
      for i = c + 1 to n - 1 do
        if not (is0 m.(i).(c)) then begin
          let f = m.(i).(c) /: m.(c).(c) in
          for k = c to n - 1 do m.(i).(k) <- m.(i).(k) -: (f *: m.(c).(k)) done;
          r.(i) <- r.(i) -: (f *: r.(c))
        end
      done
    done;
    let x = Array.make n s0 in
    for i = n - 1 downto 0 do
      let s = ref r.(i) in
      for k = i + 1 to n - 1 do s := !s -: (m.(i).(k) *: x.(k)) done;
      x.(i) <- !s /: m.(i).(i)
    done;
    Some (Array.to_list x)
  with Exit -> None

(* exact inverse of a linear operator given as a function on vectors of length n: assemble its
   matrix on unit vectors, solve, VERIFY op(x) = v *)
let exact_inverse_of ?(what="singular") (n : int) (op : Obj.t list -> Obj.t list) : Obj.t list -> Obj.t list =
  let cols = Array.init n (fun j -> Array.of_list (op (unit n j))) in
  let m = Array.init n (fun i -> Array.init n (fun j -> cols.(j).(i))) in
  fun v ->
    if n = 0 then [] else
    match dense_solve m (Array.of_list v) with
    | None -> raise (Model_exc ("runtime_error " ^ what))
    | Some x -> if veq (op x) v then x else failwith "inner solve not exact"

let atoi (s : string) : int =   (* C atoi: optional sign, leading digits, 0 if none *)
  let n = String.length s in
  let i = ref 0 in
  while !i < n && (s.[!i] = ' ') do incr i done;
  let neg = !i < n && s.[!i] = '-' in
  if !i < n && (s.[!i] = '-' || s.[!i] = '+') then incr i;
  let v = ref 0 in
  while !i < n && s.[!i] >= '0' && s.[!i] <= '9' do v := !v * 10 + Char.code s.[!i] - 48; incr i done;
  if neg then - !v else !v
let substr s k = if k > String.length s then raise (Model_exc "out_of_range") else String.sub s k (String.length s - k)

(* pmask_pattern as schur_pressure_correction::params parses it *)
let pattern_mask (pat : string) (n : int) : bool list option =
  let m0 = List.init n (fun _ -> false) in
  match pat.[0] with
  | '%' ->
    (* as repaired (fix: pmask_pattern start of two or more digits): split at the first ':';
       precondition(colon found); precondition(start >= 0 && stride > 0) *)
    (match String.index_opt pat ':' with
     | None -> raise (Model_exc "runtime_error")
     | Some colon ->
       let start = atoi (String.sub pat 1 (colon - 1)) in let stride = atoi (substr pat (colon + 1)) in
       if start < 0 || stride <= 0 then raise (Model_exc "runtime_error") else
       C.pattern_loop (n + 2) n stride start m0)
  | '<' -> let m = atoi (substr pat 1) in Some (List.init n (fun i -> i < min m n))
  | '>' -> let m = atoi (substr pat 1) in Some (List.init n (fun i -> i >= m))
  | _ -> raise (Model_exc "runtime_error")
let mask_of_spec (spec : string) (n : int) : bool list =
  let arg k = int_of_string (String.sub spec k (String.length spec - k)) in
  if String.length spec > 3 && String.sub spec 0 3 = "il:" then let k = arg 3 in List.init n (fun i -> i mod k = k - 1)
  else if String.length spec > 3 && String.sub spec 0 3 = "ct:" then let k = arg 3 in List.init n (fun i -> i >= n - k)
  else if String.length spec > 3 && String.sub spec 0 3 = "hd:" then let k = arg 3 in List.init n (fun i -> i < k)
  else if String.length spec > 5 && String.sub spec 0 5 = "list:" then List.init n (fun i -> spec.[5 + i] = '1')
  else if String.length spec > 4 && String.sub spec 0 4 = "pat:" then
    (match pattern_mask (String.sub spec 4 (String.length spec - 4)) n with Some m -> m | None -> raise (Model_exc "NONTERMINATING"))
  else raise (Model_exc "invalid_argument")
let show_mask m = String.concat "" (List.map (fun b -> if b then "1" else "0") m)
let dense_rows n (f : Obj.t list -> Obj.t list) =
  show_crs { Crs.ncols = n; Crs.rows = List.init n (fun i -> List.mapi (fun j v -> (j, v)) (f (unit n i))) }
let mulv (m : Crs.crs) x = List.init (nrows m) (fun i -> KernelsProofs.coq_Ax sc m x i)
let rows_of_dense (m : Crs.crs) = List.map (fun r -> List.map snd r) m.Crs.rows

(* the pressure stage: exact solve with the matrix the set-up hands to PPrecond; an ill-formed
   matrix (column index out of range) is reported like harness/drv_composite.cpp does *)
let cpr_pp (app : Crs.crs) =
  exact_inverse_of ~what:"singular_pressure_matrix" (nrows app) (fun v -> C.mv sc app v)
(* block value type: App->set_nonzeros(K->nnz) sizes App by ALL entries of K while its row
   pointers end at K->ptr[np]: with active_rows < n the nnz field disagrees with ptr[nrows]
   (vq::show_crs reports that as BADCRS nnz; the list-of-rows model has no such field) *)
let show_app_block ?(fixed=false) (kb : A.block A.gcrs) (app : Crs.crs) =
  if fixed then show_crs ~sorted:true app else
  let np = nrows app in
  let extra = List.fold_left (+) 0 (List.mapi (fun i r -> if i >= np then List.length r else 0) kb.A.grows) in
  if not (Crs.wf sc app) then "BADCRS col-out-of-range"
  else if np > 0 && extra > 0 then "BADCRS nnz" else show_crs ~sorted:true app
let show_ops n kmat (ops : Cpr.cpr_ops) sp =
  let app = ops.Cpr.c_app in
  if not (Crs.wf sc app) || nrows app <> app.Crs.ncols then raise (Model_exc "runtime_error pressure_matrix_column_out_of_range");
  dense_rows n (Cpr.cpr_operator sc kmat ops sp cpr_pp)

let () =
  reg "schur" (fun t -> let typ = t_i t in let adj = t_i t in let approx = t_i t in let simplec = t_i t in
    let spec = t_s t in let k = t_crs t in
    let n = nrows k in
    let mask = mask_of_spec spec n in
    let kuu = C.sub_block sc k mask false false and kup = C.sub_block sc k mask false true in
    let kpu = C.sub_block sc k mask true false and kpp = C.sub_block sc k mask true true in
    let nu = nrows kuu and np = nrows kpp in
    let solve_u = exact_inverse_of nu (fun v -> C.mv sc kuu v) in
    let dia = C.kuu_dia sc (simplec <> 0) kuu (zeros nu) in
    let l = if adj = 1 then C.ld_vec sc kpu kup dia else zeros np in
    let inner_u = if approx <> 0 then (fun v -> List.map2 (fun d x -> s1 *: d *: x) dia v) else solve_u in
    let s_op = C.schur_op sc adj kpp kup kpu l inner_u in
    let solve_s = exact_inverse_of ~what:"singular_Schur_operator" np s_op in
    let recorded = match adj with
      | 1 -> show_crs ~sorted:true (C.kpp_adjust1 sc kpp l)
      | 2 -> "-"
      | _ -> show_crs ~sorted:true kpp in
    show_mask mask ^ " " ^ dense_rows n (C.schur_apply sc typ k mask solve_u solve_s) ^ " " ^ recorded);
  reg "schur_pattern" (fun t -> let pat = t_s t in let n = t_i t in
    match pattern_mask pat n with Some m -> show_mask m | None -> "NONTERMINATING");

  (* ---- oracles ---- *)
  (* type 1 with exact inner solves is the exact inverse: K * apply(e_i) = e_i *)
  reg "o.inverse" (fun t -> let k = t_crs t in let m = t_crs t in
    let n = nrows k in
    ok_of (List.mapi (fun i r -> ("K*apply(e_" ^ string_of_int i ^ ")=e_i", veq (mulv k r) (unit n i))) (rows_of_dense m)));
  (* type 2 solves the block upper-triangular system [[Kuu,Kup],[0,S]] (u,p) = (fu,fp) *)
  reg "o.schur2" (fun t -> let k = t_crs t in let ms = t_s t in let m = t_crs t in
    let n = nrows k in
    let mask = List.init n (fun i -> ms.[i] = '1') in
    let kuu = C.sub_block sc k mask false false and kup = C.sub_block sc k mask false true in
    let kpu = C.sub_block sc k mask true false and kpp = C.sub_block sc k mask true true in
    let solve_u = exact_inverse_of (nrows kuu) (fun v -> C.mv sc kuu v) in
    ok_of (List.concat (List.mapi (fun i x ->
        let f = unit n i in
        let fu = C.gather sc mask false f and fp = C.gather sc mask true f in
        let u = C.gather sc mask false x and p = C.gather sc mask true x in
        [ ("Kuu u + Kup p = fu (e_" ^ string_of_int i ^ ")", veq (C.vadd sc (C.mv sc kuu u) (C.mv sc kup p)) fu);
          ("S p = fp (e_" ^ string_of_int i ^ ")", veq (C.schur_true sc kpp kup kpu solve_u p) fp) ]) (rows_of_dense m))));
  (* sub-blocks + gather/scatter reassemble K: K x = scatter(Kuu xu + Kup xp, Kpu xu + Kpp xp) *)
  reg "o.reassemble" (fun t -> let k = t_crs t in let ms = t_s t in let x = t_vec t in
    let n = nrows k in
    let mask = List.init n (fun i -> ms.[i] = '1') in
    let blk rp cp = C.sub_block sc k mask rp cp in
    let xu = C.gather sc mask false x and xp = C.gather sc mask true x in
    let yu = C.vadd sc (C.mv sc (blk false false) xu) (C.mv sc (blk false true) xp) in
    let yp = C.vadd sc (C.mv sc (blk true false) xu) (C.mv sc (blk true true) xp) in
    ok_of [ "K x = scatter(blocks)", veq (mulv k x) (C.scatter_up sc mask yu yp) ]);
  (* CPR: x = S f + Scatter P (Fpp (f - A S f)); App = first-row-of-inverse-diagonal-block weighting
     of the active part (rows/columns < N = active_rows or n) *)
  reg "o.cpr" (fun t -> let kind = t_s t in let b = t_i t in let active = t_i t in
    let k = t_crs t in let m = t_crs t in let app = t_crs t in
    let n = nrows k in let nn = if active = 0 then n else active in let np = nn / b in
    let get i j = Crs.mget sc k i j in
    (* w_ip : row vector with w D_ip = e_0^T, i.e. D^T w = e_0 *)
    let w = Array.init np (fun ip ->
        let dt = Array.init b (fun r -> Array.init b (fun c -> get (ip * b + c) (ip * b + r))) in
        match dense_solve dt (Array.init b (fun r -> if r = 0 then s1 else s0)) with
        | Some x -> Array.of_list x | None -> raise (Model_exc "runtime_error singular")) in
    let shape_ok = nrows app = np && app.Crs.ncols = np in
    let app_ok = List.for_all (fun ip -> List.for_all (fun jp ->
        let v = ref s0 in for i = 0 to b - 1 do v := !v +: (w.(ip).(i) *: get (ip * b + i) (jp * b)) done;
        qeq !v (Crs.mget sc app ip jp)) (List.init np (fun j -> j))) (List.init np (fun i -> i)) in
    let sp = match kind with
      | "scalar_dummy" | "block_dummy" -> (fun f -> f)
      | "scalar_spai0" -> let mm = Relax.spai0_setup sc k in (fun f -> Relax.spai0_apply sc mm f (zeros n))
      | _ -> raise (Model_exc "invalid_argument") in
    let formula_ok = List.for_all2 (fun i x ->
        let f = unit n i in
        let s = sp f in
        let r = List.map2 (fun a c -> a -: c) f (mulv k s) in
        let ra = Array.of_list r in
        let rp = List.init np (fun ip -> let v = ref s0 in for q = 0 to b - 1 do v := !v +: (w.(ip).(q) *: ra.(ip * b + q)) done; !v) in
        let d = List.map2 (fun a c -> a -: c) x s in
        let da = Array.of_list d in
        let xp = List.init np (fun ip -> da.(ip * b)) in
        let others_zero = List.for_all (fun q -> (q < np * b && q mod b = 0) || is0 da.(q)) (List.init n (fun q -> q)) in
        others_zero && veq (mulv app xp) rp) (List.init n (fun i -> i)) (rows_of_dense m) in
    ok_of [ "App is np x np", shape_ok;
            "App = W K (first row of inverse diagonal block)", app_ok;
            "x = S f + Scatter App^-1 Fpp (f - A S f)", formula_ok ]);
  (* the returned vector solves the ORIGINAL system *)
  reg "o.solves" (fun t -> let m = t_crs t in let f = t_vec t in let x = t_vec t in
    ok_of [ "Ax=f", veq (mulv m x) f ]);
  (* deflation: after project, Z^T (b - A x) = 0 *)
  reg "o.deflate" (fun t -> let a = t_crs t in let nv = t_i t in let z = List.init nv (fun _ -> t_vec t) in
    let b = t_vec t in let x = t_vec t in
    let r = List.map2 (fun bi axi -> bi -: axi) b (mulv a x) in
    ok_of (List.mapi (fun i zi -> ("z_" ^ string_of_int i ^ "^T (b - A x) = 0", is0 (C.dotv sc zi r))) z));
  (* the model's init() (E = Z^T A Z, detail::inverse as modelled in Inverse.v and proved exact
     in InverseExact.v) followed by project() / apply() *)
  reg "deflate" (fun t -> let what = t_s t in let a = t_crs t in let nv = t_i t in let z = List.init nv (fun _ -> t_vec t) in
    let b = t_vec t in let x = t_vec t in
    let n = nrows a in
    match CompositeProofs5.deflate_init sc a z (zeros (nv * nv)) with
    | None -> raise (Model_exc "assert")
    | Some einv ->
      (match what with
       | "project" -> show_vec (C.deflate_project sc a z einv b x)
       | "apply" -> let mm = Relax.spai0_setup sc a in
         show_vec (CompositeProofs4.deflated_precond sc a z einv (fun r -> Relax.spai0_apply sc mm r (zeros n)) b)
       | _ -> "UNMODELLED"));

  (* ---- CPR: the extracted set-up (Cpr.v) + Composite.cpr_apply; the pressure stage is an exact
     solve with the model's App (verified), the global stage dummy or spai0 (built from the
     sorted copy of K, like the residual) ---- *)
  (* fx = 1: the tree under test has the repaired block-valued init() (inactive columns skipped) *)
  reg "cpr" (fun t -> let kind = t_s t in let bs = t_i t in let active = t_i t in let fx = t_i t <> 0 in let k = t_crs t in
    let n = nrows k in
    let junk = zeros (n + bs) in
    let ks = MatOps.sort_rows sc k in
    match kind with
    | "scalar_dummy" ->
      let ops = Cpr.cpr_make sc bs active k junk in
      show_ops n ks ops (fun f -> f) ^ " " ^ show_crs ~sorted:true ops.Cpr.c_app
    | "scalar_spai0" ->
      let ops = Cpr.cpr_make sc bs active k junk in
      let mm = Relax.spai0_setup sc ks in
      show_ops n ks ops (fun f -> Relax.spai0_apply sc mm f (zeros n)) ^ " " ^ show_crs ~sorted:true ops.Cpr.c_app
    | "block_dummy" ->
      let kb = A.to_gcrs (A.block_adapter sc bs (A.crs_view sc k)) in
      let ops = (if fx then Cpr.cprb_make_f else Cpr.cprb_make) sc bs (active / bs) kb junk in
      show_ops n (A.unblock sc bs kb) ops (fun f -> f) ^ " " ^ show_app_block ~fixed:fx kb ops.Cpr.c_app
    | "update_dummy" ->
      let ops = Cpr.cpr_make sc bs active k junk in
      let before = show_ops n ks ops (fun f -> f) in
      let ops' = Cpr.cpr_partial_update sc bs active ops k true junk in
      let after = show_ops n ks ops' (fun f -> f) in
      (if before = after then "same " else "changed ") ^ after
    | _ -> raise (Model_exc "invalid_argument"));

  (* ---- CPR-DRS: CprDrs.v set-up; update: in the unchanged code first_scalar_pass(K, get_app = false)
     dereferences the null App pointer (cpr_drs.hpp:331); the model gives the repaired behaviour *)
  reg "cprdrs" (fun t -> let kind = t_s t in let bs = t_i t in let active = t_i t in let fx = t_i t <> 0 in
    let eps_dd = t_q t in let eps_ps = t_q t in let w = t_vec t in let k = t_crs t in
    let n = nrows k in
    match kind with
    | "scalar" ->
      let ops = CprDrs.drs_make sc bs active k eps_dd eps_ps w in
      show_ops n (MatOps.sort_rows sc k) ops (fun f -> f) ^ " " ^ show_crs ~sorted:true ops.Cpr.c_app
    | "block" ->
      let kb0 = A.to_gcrs (A.block_adapter sc bs (A.crs_view sc k)) in
      let ops = (if fx then CprDrs.drsb_make_f else CprDrs.drsb_make) sc bs (active / bs) kb0 eps_dd eps_ps w in
      show_ops n (A.unblock sc bs kb0) ops (fun f -> f) ^ " " ^ show_app_block ~fixed:fx kb0 ops.Cpr.c_app
    | "update" ->
      (* the repaired behaviour (the unchanged code crashes before it returns: known finding) *)
      let ks = MatOps.sort_rows sc k in
      let ops = CprDrs.drs_make sc bs active k eps_dd eps_ps w in
      let before = show_ops n ks ops (fun f -> f) in
      let ops' = CprDrs.drs_partial_update sc bs active ops k eps_dd eps_ps w true in
      let after = show_ops n ks ops' (fun f -> f) in
      (if before = after then "same " else "changed ") ^ after
    | _ -> raise (Model_exc "invalid_argument"))
