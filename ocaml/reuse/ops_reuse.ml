(* ops_reuse.ml -- model side of harness/reuse_amg.hh (C15, composite objects): ONE model object
   make_solver<amg, S> = (amg hierarchy + per-level scratch, solver workspace) whose state is threaded through a
   scripted history.  The solver is one of the extracted STATE-PASSING models ReuseProofs2.cg_sp / richardson_sp /
   bicgstab_sp, ReuseProofs3.gmres_sp / fgmres_sp: the preconditioner is the stateful operator
   ReuseProofs2.amg_sp = Amg.apply on the scratch list, called in program order.  The solver workspace starts
   junk-filled (17/3 in every cell, allocated length n), the amg scratch starts as create_vector leaves it (zeros).
   Model case line (built by tools/props/reuse_cases.py from the implementation's dump):
     <id> msm <relax> <coarse_enough direct_coarse max_levels npre npost ncycle pre_cycles allow_rebuild>
          <damping> <scale|-> <solver|none> <side> <prm16> A <k> (0 | 1 P R)*k
          <nscript> (dump | apply f x0 | cycle f x0 | rebuild A' | solve f x0 | solveA A2 f x0 | msapply f x0)*
   The transfer operators are those the implementation produced (C04); everything else is model.
   Chebyshev smoother inside the hierarchy: its work vectors p, r are carried by OCaml references (as in
   ocaml/amg/ops_amg.ml), not by the Coq model of the cycle. *)
open Io

let zero = box (parse_q "0")
let one = box (parse_q "1")
let junkv = box (parse_q "17/3")
let zeros n = List.init n (fun _ -> zero)
let jvec n = List.init n (fun _ -> junkv)
let op_of (a : Crs.crs) = let n = List.length a.Crs.rows in fun v -> Kernels.spmv sc one a v zero (zeros n)

let mk_relax name damping : Crs.crs -> Amg.sweep * Amg.sweep =
  let dq = if damping = "-" then None else Some (box (parse_q damping)) in
  match name with
  | "damped_jacobi" ->
    AmgExec.mk_relax_std sc (AmgExec.RJacobi (match dq with Some d -> d | None -> box (parse_q "18/25")))
  | "spai0" -> AmgExec.mk_relax_std sc AmgExec.RSpai0
  | "gauss_seidel" -> AmgExec.mk_relax_std sc AmgExec.RGS
  | "ilu0" -> (fun a ->
      match Ilu.ilu0 sc a [] with
      | Ilu.Err _ -> raise (Model_exc "runtime_error")
      | Ilu.Ok ((l, u), d) ->
        let w = (match dq with Some d -> d | None -> sc.Scalar.s1) in
        let sw = (fun rhs x t -> Ilu.ilu_sweep sc w l u d a rhs x t) in (sw, sw))
  | "chebyshev" -> (fun a ->
      let n = List.length a.Crs.rows in
      let cdm = Cheby.cheby_setup sc false a (Cheby.gershgorin sc false a)
          (box (parse_q "8947849/268435456")) sc.Scalar.s1 [] in
      let p = ref (zeros n) and r = ref (zeros n) in
      let sw = (fun rhs x t ->
          let (((x', p'), r'), _) = Cheby.cheby_solve sc (Cheby.c_two sc) (Cheby.c_quarter sc)
              (fst (fst cdm)) (snd (fst cdm)) (snd cdm) 5 a rhs x !p !r in
          p := p'; r := r'; (x', t)) in
      (sw, sw))
  | _ -> raise (Model_exc "UNSUPPORTED-relax")

let show_levels (ls : Amg.ldesc list) =
  let single = (List.length ls = 1) in
  "D " ^ string_of_int (List.length ls) ^
  String.concat "" (List.map (fun l -> match l with
      | Amg.LMid (a, p, r) -> " M " ^ show_crs a ^ " " ^ show_crs p ^ " " ^ show_crs r
      | Amg.LLast a -> " L " ^ show_crs a
      | Amg.LSolve a -> if single then " S " ^ show_crs a else " S -") ls)

type prm = { maxiter : int; tol : Obj.t; abstol : Obj.t; ns : bool; ca : bool; m : int; k : int; l : int;
             damping : Obj.t; s : int; omega : Obj.t; smoothing : bool; replacement : bool; delta : Obj.t;
             convex : bool; areset : bool }
let t_b t = t_i t <> 0
let t_prm t =
  let maxiter = t_i t in let tol = t_q t in let abstol = t_q t in let ns = t_b t in let ca = t_b t in
  let m = t_i t in let k = t_i t in let l = t_i t in let damping = t_q t in let s = t_i t in let omega = t_q t in
  let smoothing = t_b t in let replacement = t_b t in let delta = t_q t in let convex = t_b t in let areset = t_b t in
  { maxiter; tol; abstol; ns; ca; m; k; l; damping; s; omega; smoothing; replacement; delta; convex; areset }
let kprm (p : prm) left : Krylov.kprm =
  { Krylov.p_maxiter = p.maxiter; p_tol = p.tol; p_abstol = p.abstol; p_ns = p.ns; p_ca = p.ca; p_M = p.m;
    p_left = left; p_damping = p.damping; p_K = p.k; p_areset = p.areset; p_L = p.l; p_delta = p.delta;
    p_convex = p.convex }
let show_out (o : Krylov.kout) = match o with
  | Krylov.KExc -> "EXC runtime_error"
  | Krylov.KOk r -> if r.Krylov.k_oof then "MODEL-OUT-OF-FUEL" else
      string_of_int r.Krylov.k_it ^ " " ^ show_s r.Krylov.k_res ^ " " ^ show_vec r.Krylov.k_x

type ws = WNone | WCg of Krylov.cg_ws | WRi of Krylov.ri_ws | WBs of Krylov.bs_ws | WGm of Krylov.gm_ws
let junk_gm n = { Krylov.g_H = (fun _ _ -> junkv); g_s = (fun _ -> junkv); g_cs = (fun _ -> junkv); g_sn = (fun _ -> junkv);
                  g_r = jvec n; g_v = (fun _ -> jvec n); g_z = (fun _ -> jvec n) }
let fresh_ws name n : ws = match name with
  | "none" -> WNone
  | "cg" -> WCg { Krylov.cg_r = jvec n; cg_s = jvec n; cg_p = jvec n; cg_q = jvec n }
  | "richardson" -> WRi { Krylov.ri_r = jvec n; ri_s = jvec n }
  | "bicgstab" -> WBs { Krylov.bs_r = jvec n; bs_p = jvec n; bs_v = jvec n; bs_s = jvec n; bs_t = jvec n; bs_rh = jvec n; bs_T = jvec n }
  | "gmres" | "fgmres" -> WGm (junk_gm n)
  | _ -> raise (Model_exc "UNSUPPORTED-solver")

let () =
  reg "msm" (fun t ->
    let relax = t_s t in
    let ce = t_i t in let dc = t_i t <> 0 in let ml = t_i t in
    let npre = t_i t in let npost = t_i t in let ncycle = t_i t in let pre_cycles = t_i t in
    let allow_rebuild = t_i t <> 0 in
    let damping = t_s t in let scale = t_s t in
    let solver = t_s t in let left = (t_s t = "left") in let p = t_prm t in
    let a = t_crs t in
    let n = List.length a.Crs.rows in
    let k = t_i t in
    let ts = List.init k (fun _ -> if t_i t = 1 then (let p = t_crs t in let r = t_crs t in Some (p, r)) else None) in
    let mkr = mk_relax relax damping in
    let cop = AmgExec.coarse_op_of sc (if scale = "-" then None else Some (box (parse_q scale))) in
    if n <> a.Crs.ncols then raise (Model_exc "logic_error");
    let descs = ref (Amg.amg_init sc ce dc ml cop ts a) in
    let inst ds =
      List.iter (fun d -> match d with
          | Amg.LSolve m -> if not (AmgExec.solvable sc m) then raise (Model_exc "runtime_error")
          | _ -> ()) ds;
      List.map (Amg.instantiate sc mkr (AmgExec.mk_solve_exact sc)) ds in
    let levels = ref (inst !descs) in
    let scr = ref (List.map (Amg.fresh_scratch sc) !descs) in
    let ws = ref (fresh_ws solver n) in
    let kp = kprm p left in
    (* one call of the solver object on the current object state, system matrix am *)
    let solve (am : Crs.crs) f x =
      let opA = op_of am in
      let sp = ReuseProofs2.amg_sp sc npre npost ncycle pre_cycles !levels in
      match solver, !ws with
      | "cg", WCg w -> let ((o, w'), s') = ReuseProofs2.cg_sp sc opA sp kp f x w !scr in ws := WCg w'; scr := s'; show_out o
      | "richardson", WRi w -> let ((o, w'), s') = ReuseProofs2.richardson_sp sc opA sp kp f x w !scr in ws := WRi w'; scr := s'; show_out o
      | "bicgstab", WBs w -> let ((o, w'), s') = ReuseProofs2.bicgstab_sp sc opA sp kp f x w !scr in ws := WBs w'; scr := s'; show_out o
      | "gmres", WGm w -> let ((o, w'), s') = ReuseProofs3.gmres_sp sc opA sp kp f x w !scr in ws := WGm w'; scr := s'; show_out o
      | "fgmres", WGm w -> let ((o, w'), s') = ReuseProofs3.fgmres_sp sc opA sp kp f x w !scr in ws := WGm w'; scr := s'; show_out o
      | _ -> raise (Model_exc "UNSUPPORTED-solver") in
    let sysmat () = match !descs with d :: _ -> Amg.ld_A sc d | [] -> a in
    let ns = t_i t in
    let out = ref [] in
    for _ = 1 to ns do
      let cmd = t_s t in
      (match cmd with
       | "dump" -> out := show_levels !descs :: !out
       | "apply" -> let f = t_vec t in let x = t_vec t in
         let (x', s') = Amg.apply sc npre npost ncycle pre_cycles !levels !scr f x in
         scr := s'; out := show_vec x' :: !out
       | "cycle" -> let f = t_vec t in let x = t_vec t in
         let (x', s') = Amg.cycle sc npre npost ncycle !levels !scr f x in
         scr := s'; out := show_vec x' :: !out
       | "solve" -> let f = t_vec t in let x = t_vec t in out := solve (sysmat ()) f x :: !out
       | "solveA" -> let a2 = t_crs t in let f = t_vec t in let x = t_vec t in out := solve a2 f x :: !out
       | "msapply" -> let f = t_vec t in let x = t_vec t in
         (* make_solver::apply: clear(x), then operator()(rhs, x); prints x only *)
         let r = solve (sysmat ()) f (zeros (List.length x)) in
         let r' = (match String.index_opt r '[' with Some i -> String.sub r i (String.length r - i) | None -> r) in
         out := r' :: !out
       | "rebuild" -> let a2 = t_crs t in
         (* amg::rebuild: precondition(allow_rebuild), precondition(same size, square) -- both throw before
            anything is modified *)
         if (not allow_rebuild) || List.length a2.Crs.rows <> n || a2.Crs.ncols <> n then out := "EXC runtime_error" :: !out
         else begin descs := Amg.amg_rebuild sc cop !descs a2; levels := inst !descs; out := "ok" :: !out end
       | _ -> failwith ("bad script command " ^ cmd))
    done;
    String.concat " ; " (List.rev !out))

(* rpm: make_solver<relaxation::as_preconditioner<chebyshev>, S> (or the bare preconditioner, solver = none).
   The Chebyshev object state (p, r) is threaded by the extracted ReuseProofs4.cheby_sp (as_preconditioner::apply =
   clear x, then solve); it starts junk-filled (result independence: C15_chebyshev_apply_reuse).
     <id> rpm <degree> <lower> <higher> <scale> <solver|none> <side> <prm16> A
          <nscript> (apply f x0 | solve f x0 | solveA A2 f x0 | msapply f x0)*
   as_preconditioner copies the matrix and sorts its rows (as_preconditioner.hpp:63-72); power_iters = 0
   (Gershgorin bound). *)
let () =
  reg "rpm" (fun t ->
    let degree = t_i t in let lower = t_q t in let higher = t_q t in let scale = t_i t <> 0 in
    let solver = t_s t in let left = (t_s t = "left") in let p = t_prm t in
    let a0 = t_crs t in
    let a = MatOps.sort_rows sc a0 in
    let n = List.length a.Crs.rows in
    let ((c, d), m) = Cheby.cheby_setup sc scale a (Cheby.gershgorin sc scale a) lower higher (jvec n) in
    let sp = ReuseProofs4.cheby_sp sc c d m degree a in
    let st = ref (jvec n, jvec n) in
    let ws = ref (fresh_ws solver n) in
    let kp = kprm p left in
    let solve (am : Crs.crs) f x =
      let opA = op_of am in
      match solver, !ws with
      | "cg", WCg w -> let ((o, w'), s') = ReuseProofs2.cg_sp sc opA sp kp f x w !st in ws := WCg w'; st := s'; show_out o
      | "richardson", WRi w -> let ((o, w'), s') = ReuseProofs2.richardson_sp sc opA sp kp f x w !st in ws := WRi w'; st := s'; show_out o
      | "bicgstab", WBs w -> let ((o, w'), s') = ReuseProofs2.bicgstab_sp sc opA sp kp f x w !st in ws := WBs w'; st := s'; show_out o
      | "gmres", WGm w -> let ((o, w'), s') = ReuseProofs3.gmres_sp sc opA sp kp f x w !st in ws := WGm w'; st := s'; show_out o
      | "fgmres", WGm w -> let ((o, w'), s') = ReuseProofs3.fgmres_sp sc opA sp kp f x w !st in ws := WGm w'; st := s'; show_out o
      | _ -> raise (Model_exc "UNSUPPORTED-solver") in
    let ns = t_i t in
    let out = ref [] in
    for _ = 1 to ns do
      let cmd = t_s t in
      (match cmd with
       | "apply" -> let f = t_vec t in let x = t_vec t in
         let (x', s') = sp !st f x in st := s'; out := show_vec x' :: !out
       | "solve" -> let f = t_vec t in let x = t_vec t in out := solve a f x :: !out
       | "solveA" -> let a2 = t_crs t in let f = t_vec t in let x = t_vec t in out := solve a2 f x :: !out
       | "msapply" -> let f = t_vec t in let x = t_vec t in
         let r = solve a f (zeros (List.length x)) in
         let r' = (match String.index_opt r '[' with Some i -> String.sub r i (String.length r - i) | None -> r) in
         out := r' :: !out
       | _ -> failwith ("bad script command " ^ cmd))
    done;
    String.concat " ; " (List.rev !out))
