(* ops_direct.ml -- model side of harness/drv_direct.cpp (C16), plus the oracle ops
   evaluated with the extracted specification functions (DirectSpec.v, Kernels.spmv). *)
open Io
let zero = Obj.repr (parse_q "0")
let zeros n = List.init n (fun _ -> zero)
let cm_exc = function
  | CuthillMcKee.CmOk p -> p
  | CuthillMcKee.CmOutOfFuel -> raise (Model_exc "MODEL-OUT-OF-FUEL")
  | CuthillMcKee.CmPrecond -> raise (Model_exc "runtime_error")
  | CuthillMcKee.CmEmptyUB -> raise (Model_exc "MODEL-EMPTY-UB")
let pattern (a : Crs.crs) = List.map (List.map fst) a.Crs.rows
let sky t =
  let rev = t_i t <> 0 in let a = t_crs t in let nrhs = t_i t in
  let cases = List.init nrhs (fun _ -> let rhs = t_vec t in let x0 = t_vec t in (rhs, x0)) in
  match Direct.sky_build sc rev a with
  | Direct.SkyZeroPivot -> raise (Model_exc "runtime_error")
  | Direct.SkyOrdering r -> ignore (cm_exc r); raise (Model_exc "MODEL-ORDERING")
  | Direct.SkyOk f ->
    (* y(n) is value-initialised by the constructor, then survives from call to call *)
    let y = ref (zeros (List.length a.Crs.rows)) in
    String.concat " " (List.map (fun (rhs, x0) ->
      let (x, y') = Direct.sky_solve sc f rhs x0 !y in y := y'; show_vec x) cases)
let show_pair (q, r, a) = show_vec q ^ " " ^ show_vec r ^ " " ^ show_vec a
let qr_fact ord m n a junk =
  let (rs, cs) = if ord <> 0 then (1, m) else (n, 1) in
  let ((a', _tau), q) = Qr.qr_factorize sc m n rs cs a junk in
  let k = min m n in
  let qm = List.concat (List.init m (fun i -> List.init n (fun j -> Qr.qr_Q sc rs cs q i j))) in
  let rm = List.concat (List.init k (fun i -> List.init n (fun j -> Qr.qr_R sc rs cs a' i j))) in
  (qm, rm, a', q)
let () =
  reg "sky" sky; reg "sky_t" sky;
  reg "cm" (fun t -> let rev = t_i t <> 0 in let a = t_crs t in
    show_ivec (cm_exc (CuthillMcKee.cuthill_mckee rev (pattern a))));
  reg "inv" (fun t -> let n = t_i t in let a = t_vec t in let junk = t_vec t in
    match Inverse.inverse sc n a junk with None -> raise (Model_exc "assert") | Some r -> show_vec r);
  reg "sminv" (fun t -> let b = t_i t in let a = t_vec t in
    match StaticMat.sm_inverse sc b a (zeros (b * b)) with None -> raise (Model_exc "assert") | Some r -> show_vec r);
  reg "sm" (fun t -> let b = t_i t in let op = t_s t in
    let flag x = if x then "1" else "0" in
    match op with
    | "add" -> let x = t_vec t in let y = t_vec t in show_vec (StaticMat.sm_add sc x y)
    | "sub" -> let x = t_vec t in let y = t_vec t in show_vec (StaticMat.sm_sub sc x y)
    | "mul" -> let x = t_vec t in let y = t_vec t in show_vec (StaticMat.sm_mul sc b b b x y)
    | "mulv" -> let x = t_vec t in let y = t_vec t in show_vec (StaticMat.sm_mul sc b b 1 x y)
    | "scale" -> let c = t_q t in let x = t_vec t in show_vec (StaticMat.sm_scale sc c x)
    | "neg" -> let x = t_vec t in show_vec (StaticMat.sm_neg sc x)
    | "adj" -> let x = t_vec t in show_vec (StaticMat.sm_adjoint sc b b x)
    | "adjv" -> let x = t_vec t in show_vec (StaticMat.sm_adjoint sc b 1 x)
    | "id" -> show_vec (StaticMat.sm_id sc b)
    | "zero" -> show_vec (StaticMat.sm_zero sc b b)
    | "const" -> let c = t_q t in show_vec (StaticMat.sm_const sc b b c)
    | "norm" -> let x = t_vec t in show_s (StaticMat.sm_norm sc x)
    | "inner" -> let x = t_vec t in let y = t_vec t in
      if b = 1 then show_vec [StaticMat.sm_inner_vec sc x y] else show_vec (StaticMat.sm_inner sc b b x y)
    | "innerv" -> let x = t_vec t in let y = t_vec t in show_s (StaticMat.sm_inner_vec sc x y)
    | "iszero" -> let x = t_vec t in flag (StaticMat.sm_is_zero sc x)
    | "lt" -> let x = t_vec t in let y = t_vec t in flag (StaticMat.sm_ltb sc b b x y)
    | _ -> "UNSUPPORTED");
  reg "smr" (fun t -> let op = t_s t in let n = t_i t in let k = t_i t in let m = t_i t in
    match op with
    | "mul" -> let x = t_vec t in let y = t_vec t in show_vec (StaticMat.sm_mul sc n k m x y)
    | "adj" -> let x = t_vec t in show_vec (StaticMat.sm_adjoint sc n m x)
    | "inner" -> let x = t_vec t in let y = t_vec t in show_vec (StaticMat.sm_inner sc n m x y)
    | _ -> "UNSUPPORTED");
  reg "qrsolvec" (fun t -> let ord = t_i t in let m = t_i t in let n = t_i t in let a = t_vec t in let b = t_vec t in
    let (rs, cs) = if ord <> 0 then (1, m) else (n, 1) in
    show_vec (Qr.qr_solve sc m n rs cs a b));
  reg "smident" (fun t -> let b = t_i t in let x = t_vec t in let y = t_vec t in let z = t_vec t in let s = t_q t in
    let open StaticMat in
    let mul = sm_mul sc b b b and add = sm_add sc and sub = sm_sub sc and adj = sm_adjoint sc b b in
    let eq u v = DirectSpec.vec_eqb sc u v in
    let i = sm_id sc b and z0 = sm_zero sc b b in
    let fl = [
      eq (mul (mul x y) z) (mul x (mul y z));
      eq (mul x (add y z)) (add (mul x y) (mul x z));
      eq (mul (add x y) z) (add (mul x z) (mul y z));
      eq (mul i x) x && eq (mul x i) x;
      eq (adj (mul x y)) (mul (adj y) (adj x));
      eq (adj (adj x)) x;
      eq (add x y) (add y x) && eq (add (add x y) z) (add x (add y z));
      eq (sub x x) z0 && eq (add x z0) x && eq (add x (sm_neg sc x)) z0;
      eq (sm_scale sc s (mul x y)) (mul (sm_scale sc s x) y) && eq (sm_scale sc s (add x y)) (add (sm_scale sc s x) (sm_scale sc s y));
      eq (sub x y) (add x (sm_neg sc y));
      sm_is_zero sc z0 && (sm_is_zero sc x = eq x z0) ] in
    show_ivec (List.map (fun f -> if f then 1 else 0) fl));
  reg "qr" (fun t -> let ord = t_i t in let m = t_i t in let n = t_i t in let a = t_vec t in
    let (qm, rm, a', _) = qr_fact ord m n a (zeros (m * n)) in show_pair (qm, rm, a'));
  reg "qr2" (fun t -> let ord1 = t_i t in let m1 = t_i t in let n1 = t_i t in let a1 = t_vec t in
    let (_, _, _, q1) = qr_fact ord1 m1 n1 a1 (zeros (m1 * n1)) in
    let ord = t_i t in let m = t_i t in let n = t_i t in let a = t_vec t in
    (* q.resize(m*n): the old content of q stays (truncated or zero-extended) *)
    let l1 = List.length q1 in
    let junk = List.init (m * n) (fun i -> if i < l1 then List.nth q1 i else zero) in
    let (qm, rm, a', _) = qr_fact ord m n a junk in show_pair (qm, rm, a'));
  reg "qrsolve" (fun t -> let ord = t_i t in let m = t_i t in let n = t_i t in let a = t_vec t in let b = t_vec t in
    let (rs, cs) = if ord <> 0 then (1, m) else (n, 1) in
    show_vec (Qr.qr_solve sc m n rs cs a b));
  (* ---- oracle ops: specification-side predicates on implementation outputs ---- *)
  reg "o.solves" (fun t -> let a = t_crs t in let x = t_vec t in let b = t_vec t in
    if DirectSpec.solves_b sc a x b then "OK" else "FAIL A*x <> b");
  reg "o.perm" (fun t -> let n = t_i t in let p = t_ivec t in
    if DirectSpec.is_perm_b n p then "OK" else "FAIL not a permutation of 0..n-1");
  reg "o.inverse" (fun t -> let n = t_i t in let a = t_vec t in let b = t_vec t in
    if DirectSpec.is_inverse_b sc n a b then "OK" else "FAIL A*inv(A) <> I")
