(* ops_qrobj.ml -- model side of the QR object-reuse sequences (harness/drv_direct.cpp ops qrseq / qrseqf,
   tools/props/C16.py qrseq_cases): a sequence of compute / factorize / solve calls on ONE detail::QR
   object is a fold of the extracted functions of QrObj.v over the object state [qr_obj].

     qrseq  <ncalls> <call>*   one object for the whole sequence
     qrseqf <ncalls> <call>*   a fresh object (QrObj.qr_new) for every call
   call ::= F <ord> <m> <n> <A>        factorize; prints Q R A'
          | C <ord> <m> <n> <A>        compute; prints A'
          | W <ord> <m> <n> <A>        the caller's preparation of a wide system (m < n): adjoint in place,
                                       compute(n, m, col_stride, row_stride, A); prints A'
          | S <ord> <m> <n> <A> <b>    solve, computed = false; prints x A'
          | T <b>                      solve, computed = true, shape / order / array of the last call that was
                                       not a T (the "establishing" call); prints x
   A fresh object for a T call is a fresh object on which the establishing call has been repeated. *)
open Io
let strides ord m n = if ord <> 0 then (1, m) else (n, 1)
type est = { k : string; ord : int; m : int; n : int; a0 : Obj.t list; b0 : Obj.t list }

let show_fact (o : QrObj.qr_obj) m n a' =
  let k = min m n in
  let qm = List.concat (List.init m (fun i -> List.init n (fun j -> QrObj.obj_Q sc o i j))) in
  let rm = List.concat (List.init k (fun i -> List.init n (fun j -> QrObj.obj_R sc o i j))) in
  show_vec qm ^ " " ^ show_vec rm ^ " " ^ show_vec a'

(* one call that is not a T: returns the printed payload and the object after the call *)
let establish (e : est) (o : QrObj.qr_obj) : string * QrObj.qr_obj =
  let (rs, cs) = strides e.ord e.m e.n in
  match e.k with
  | "F" -> let (a', o') = QrObj.obj_factorize sc e.m e.n rs cs e.a0 o in (show_fact o' e.m e.n a', o')
  | "C" -> let (a', o') = QrObj.obj_compute sc e.m e.n rs cs e.a0 o in (show_vec a', o')
  | "W" ->
    let adj = List.map (fun x -> sc.Scalar.sadj x) e.a0 in
    let (a', o') = QrObj.obj_compute sc e.n e.m cs rs adj o in (show_vec a', o')
  | "S" -> let ((x, a'), o') = QrObj.obj_solve sc e.m e.n rs cs e.a0 e.b0 false o in (show_vec x ^ " " ^ show_vec a', o')
  | _ -> failwith "bad call kind"

let qrseq fresh t =
  let nc = t_i t in
  let o = ref (QrObj.qr_new sc) in
  let est = ref None in
  let outs = List.init nc (fun _ ->
    let k = t_s t in
    if k = "T" then begin
      let b = t_vec t in
      match !est with
      | None -> failwith "T without an establishing call"
      | Some e ->
        if fresh then o := snd (establish e (QrObj.qr_new sc));
        let (rs, cs) = strides e.ord e.m e.n in
        let ((x, _), o') = QrObj.obj_solve sc e.m e.n rs cs (!o).QrObj.o_r b true !o in
        o := o'; show_vec x
    end else begin
      let ord = t_i t in let m = t_i t in let n = t_i t in let a0 = t_vec t in
      let b0 = if k = "S" then t_vec t else [] in
      let e = { k; ord; m; n; a0; b0 } in
      est := Some e;
      let (s, o') = establish e (if fresh then (QrObj.qr_new sc) else !o) in
      o := o'; s
    end) in
  String.concat " ; " outs

let () =
  reg "qrseq" (qrseq false);
  reg "qrseqf" (qrseq true)
