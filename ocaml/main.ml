let () = Io.driver_main ()
