(* ops_krylov_vt.ml -- model side of harness/drv_krylov_vt.cpp (C01 for block / complex valued systems).
   The value-type systems are EXPANDED to real scalar systems by tools/props/krylov_vt.py; the exact
   block runs use the ops of ops_krylov.ml (solve, o.truth) on the expanded line.  This file adds
     vt.truth <atol> <rtol> <solve args of the expanded system> <iters> <res> <x as vec>
   for runs of the implementation in binary64 (std::complex<double>): the extracted specification
   Krylov.true_res recomputes ||f - A x|| / ||f|| (preconditioned for side = left on the sided solvers)
   EXACTLY from the returned x (every double is a rational) and the returned number must satisfy
   |returned - true| <= atol + rtol * true;  iters <= maxiter (+ L - 1 for bicgstabl). *)
open Io
open Ops_krylov

let () =
  let module M = E in
  let sc = M.sc in
  let ( -: ) a b = sc.Scalar.ssub a b and ( +: ) a b = sc.Scalar.sadd a b and ( *: ) a b = sc.Scalar.smul a b in
  Io.reg "vt.truth" (fun t ->
    let atol = M.t_q t in let rtol = M.t_q t in
    let name = t_s t in let left = (t_s t = "left") in
    let pk = t_s t in let p = M.t_prm t in let c = M.t_call_pk pk t in
    let iters = t_i t in let res = M.t_q t in let x = M.t_vec t in
    let nrm = if List.mem name ["gmres"; "fgmres"; "lgmres"; "idrs"] then Krylov.norm_b sc else Krylov.norm_a sc in
    let nf = nrm c.M.f in
    let bound = p.M.maxiter + (if name = "bicgstabl" then p.M.l - 1 else 0) in
    let tiny = M.ltq nf (Krylov.eps1 sc) in
    let den = if tiny && p.M.ns then M.one else nf in
    let tr = Krylov.true_res sc nrm c.M.opA c.M.opP (left && List.mem name M.sided) c.M.f x in
    let rel = sc.Scalar.sdiv tr den in
    let dev = sc.Scalar.sabs (res -: rel) in
    let lim = atol +: (rtol *: rel) in
    if iters > bound then Printf.sprintf "FAIL iters %d > bound %d" iters bound
    else if List.length x <> List.length c.M.f then "FAIL length of x"
    else if tiny && not p.M.ns then Printf.sprintf "FAIL tiny-rhs case (not generated)"
    else if M.ltq lim dev then
      Printf.sprintf "FAIL reported %s true %s deviation %s > %s" (M.show_s res) (M.show_s rel) (M.show_s dev) (M.show_s lim)
    else "OK")
