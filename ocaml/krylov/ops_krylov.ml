(* ops_krylov.ml -- model side of harness/drv_krylov.cpp (C01, C05, C15).
   solve / seq    : the extracted workspace models (Krylov.v, KrylovIdrs.v) started from a junk
                    workspace (every cell = 17/3; the implementation starts from zero-initialised
                    members, so a junk-dependent model would disagree).  For idrs the case line of
                    the model carries s extra vectors at its end: the raw std::mt19937 draws of the
                    constructor (printed by the implementation-side op idrs.raw); the model
                    orthonormalises them itself (KrylovIdrs.idrs_shadow)
   idrs.shadow    : the constructor's shadow space alone (compared with the object's private P)
   ref            : the independent textbook recurrences (KrylovRef.v)
   o.truth        : C01 oracle evaluated on the implementation's output by the extracted
                    specification Krylov.true_res
   richk          : k-fold Richardson iteration (KrylovRef.rich_iter)
   f.solve / f.seq: the SAME extracted models evaluated at a binary64 instance of the Scalar record
                    (OCaml floats: IEEE add/sub/mul/div/sqrt, one rounding per operation, no fusion),
                    compared bit for bit with the double build of the implementation (d.solve / d.seq):
                    long runs (hundreds of iterations, many restarts) that exact rationals cannot reach.
                    The float instance is hand-written here (not extracted) and part of the trusted base. *)
open Io

(* ---- the two instances of the Scalar record the models are run at ---- *)
module type MODE = sig
  val prefix : string
  val sc : Scalar.coq_Scalar
  val t_q : tok -> Obj.t
  val show_s : Obj.t -> string
  val junk : string
end

module Exact : MODE = struct
  let prefix = ""
  let sc = Io.sc
  let t_q = Io.t_q
  let show_s = Io.show_s
  let junk = "17/3"
end

(* binary64: tokens are rationals (exactly representable ones in every generated case; the conversion
   checks it), printing is the exact rational value of the double, like vq::show(double) *)
module Float64 : MODE = struct
  let prefix = "f."
  let fl (x : Obj.t) : float = Obj.obj x
  let bx (x : float) : Obj.t = Obj.repr x
  let of_q (q : Q.t) : float =
    let f = Q.to_float q in
    if Q.equal (Q.of_float f) q then f else raise (Io.Model_exc ("token-not-representable-in-binary64:" ^ Q.to_string q))
  let sc : Scalar.coq_Scalar =
    { Scalar.s0 = bx 0.0; s1 = bx 1.0;
      sadd = (fun a b -> bx (fl a +. fl b)); smul = (fun a b -> bx (fl a *. fl b));
      ssub = (fun a b -> bx (fl a -. fl b)); sopp = (fun a -> bx (-. (fl a)));
      sdiv = (fun a b -> bx (fl a /. fl b)); sinv = (fun a -> bx (1.0 /. fl a));
      sadj = (fun a -> a); sabs = (fun a -> bx (Float.abs (fl a))); ssqrt = (fun a -> bx (sqrt (fl a)));
      seqb = (fun a b -> fl a = fl b); sltb = (fun a b -> fl a < fl b);
      seps = bx epsilon_float;
      sofQ = (fun q -> bx (of_q (Q.make q.QArith_base.coq_Qnum q.QArith_base.coq_Qden))) }
  let t_q t = let w = next t in
    bx (match w with "nan" -> nan | "inf" -> infinity | "-inf" -> neg_infinity | _ -> of_q (Q.of_string w))
  let show_s x = let f = fl x in
    if f <> f then "nan" else if f = infinity then "inf" else if f = neg_infinity then "-inf"
    else Q.to_string (Q.of_float f)
  let junk = "17/4"
end

module Make (M : MODE) = struct
let sc = M.sc
let t_q = M.t_q
let show_s = M.show_s
let t_vec t = t_list t t_q
let t_crs t : Crs.crs =
  let n = t_i t in let m = t_i t in
  let rows = List.init n (fun _ -> t_list t (fun t -> let c = t_i t in let v = t_q t in (c, v))) in
  { Crs.ncols = m; Crs.rows = rows }
let show_vec (v : Obj.t list) = "[" ^ String.concat " " (List.map show_s v) ^ "]"
let const (w : string) = t_q (tok_of_line w)
let reg name f = Io.reg (M.prefix ^ name) f

let zero = const "0"
let one = const "1"
let junkv = const M.junk

type prm = { maxiter : int; tol : Obj.t; abstol : Obj.t; ns : bool; ca : bool; m : int; k : int; l : int;
             damping : Obj.t; s : int; omega : Obj.t; smoothing : bool; replacement : bool; delta : Obj.t;
             convex : bool; areset : bool }
let t_b t = t_i t <> 0
let t_prm t =
  let maxiter = t_i t in let tol = t_q t in let abstol = t_q t in let ns = t_b t in let ca = t_b t in
  let m = t_i t in let k = t_i t in let l = t_i t in let damping = t_q t in let s = t_i t in let omega = t_q t in
  let smoothing = t_b t in let replacement = t_b t in let delta = t_q t in let convex = t_b t in let areset = t_b t in
  { maxiter; tol; abstol; ns; ca; m; k; l; damping; s; omega; smoothing; replacement; delta; convex; areset }

let zeros n = List.init n (fun _ -> zero)
let op_of (a : Crs.crs) = let n = List.length a.Crs.rows in fun v -> Kernels.spmv sc one a v zero (zeros n)

type call = { a : Crs.crs; opA : Obj.t list -> Obj.t list; opP : Obj.t list -> Obj.t list; f : Obj.t list; x0 : Obj.t list }
(* idrs: the s raw vectors at the end of a model-side case line -> index map (junk outside [0,s)) *)
let t_raw (s : int) t : int -> Obj.t list =
  let vs = Array.of_list (List.init s (fun _ -> t_vec t)) in
  fun i -> if i >= 0 && i < s then vs.(i) else []
let t_call_pk pk t =
  let a = t_crs t in
  let opP = match pk with
    | "id" -> (fun v -> v)
    | "diag" -> let d = t_vec t in (fun v -> Kernels.vmul sc one d v zero (zeros (List.length d)))
    | "mat" -> let b = t_crs t in op_of b
    | _ -> failwith "bad pk" in
  let f = t_vec t in let x0 = t_vec t in
  { a; opA = op_of a; opP; f; x0 }

let kprm (p : prm) left : Krylov.kprm =
  { Krylov.p_maxiter = p.maxiter; p_tol = p.tol; p_abstol = p.abstol; p_ns = p.ns; p_ca = p.ca; p_M = p.m;
    p_left = left; p_damping = p.damping; p_K = p.k; p_areset = p.areset; p_L = p.l; p_delta = p.delta;
    p_convex = p.convex }

let jvec n = List.init n (fun _ -> junkv)
let show_out (o : Krylov.kout) = match o with
  | Krylov.KExc -> "EXC runtime_error"
  | Krylov.KOk r -> if r.Krylov.k_oof then "MODEL-OUT-OF-FUEL" else
      string_of_int r.Krylov.k_it ^ " " ^ show_s r.Krylov.k_res ^ " " ^ show_vec r.Krylov.k_x

let iprm (p : prm) : KrylovIdrs.iprm =
  { KrylovIdrs.ip_k = kprm p false; ip_s = p.s; ip_omega = p.omega; ip_smooth = p.smoothing; ip_repl = p.replacement }

let modelled = ["cg"; "bicgstab"; "richardson"; "gmres"; "fgmres"; "lgmres"; "bicgstabl"; "idrs"]

(* workspace of a solver object: junk-filled scratch for a fresh object (the object state that is
   NOT scratch -- the LGMRES buffer of augmentation vectors -- starts empty as in the constructor) *)
type ws = WCg of Krylov.cg_ws | WRi of Krylov.ri_ws | WBs of Krylov.bs_ws | WGm of Krylov.gm_ws | WLg of Krylov.lg_ws | WBl of Krylov.bl_ws
        | WId of KrylovIdrs.id_ws * (int -> Obj.t list)      (* scratch + the constant shadow space built by the constructor *)
let junk_gm n = { Krylov.g_H = (fun _ _ -> junkv); g_s = (fun _ -> junkv); g_cs = (fun _ -> junkv); g_sn = (fun _ -> junkv);
                  g_r = jvec n; g_v = (fun _ -> jvec n); g_z = (fun _ -> jvec n) }
let fresh_ws ?(raw = fun _ -> []) ?(s = 0) name n : ws = match name with
  | "idrs" -> WId ({ KrylovIdrs.d_M = (fun _ _ -> junkv); d_f = (fun _ -> junkv); d_c = (fun _ -> junkv); d_r = jvec n; d_v = jvec n;
                     d_t = jvec n; d_xs = jvec n; d_rs = jvec n; d_G = (fun _ -> jvec n); d_U = (fun _ -> jvec n) },
                   KrylovIdrs.idrs_shadow sc s raw)
  | "cg" -> WCg { Krylov.cg_r = jvec n; cg_s = jvec n; cg_p = jvec n; cg_q = jvec n }
  | "richardson" -> WRi { Krylov.ri_r = jvec n; ri_s = jvec n }
  | "bicgstab" -> WBs { Krylov.bs_r = jvec n; bs_p = jvec n; bs_v = jvec n; bs_s = jvec n; bs_t = jvec n; bs_rh = jvec n; bs_T = jvec n }
  | "gmres" | "fgmres" -> WGm (junk_gm n)
  | "lgmres" -> WLg { Krylov.l_g = junk_gm n; l_data = (fun _ -> jvec n); l_outer = Krylov.cb_clear }
  | "bicgstabl" -> WBl { Krylov.l_Rt = jvec n; l_X = jvec n; l_B = jvec n; l_T = jvec n; l_R = (fun _ -> jvec n); l_U = (fun _ -> jvec n) }
  | _ -> failwith "unsupported"
(* one call on an object in state w: returns the printed result and the state after the call *)
let call_model name (p : prm) left (c : call) (w : ws) : string * ws =
  let kp = kprm p left in
  match name, w with
  | "cg", WCg w -> let (o, w') = Krylov.cg sc c.opA c.opP kp c.f c.x0 w in (show_out o, WCg w')
  | "richardson", WRi w -> let (o, w') = Krylov.richardson sc c.opA c.opP kp c.f c.x0 w in (show_out o, WRi w')
  | "bicgstab", WBs w -> let (o, w') = Krylov.bicgstab sc c.opA c.opP kp c.f c.x0 w in (show_out o, WBs w')
  | "gmres", WGm w -> let (o, w') = Krylov.gmres sc c.opA c.opP kp c.f c.x0 w in (show_out o, WGm w')
  | "fgmres", WGm w -> let (o, w') = Krylov.fgmres sc c.opA c.opP kp c.f c.x0 w in (show_out o, WGm w')
  | "lgmres", WLg w -> let (o, w') = Krylov.lgmres sc c.opA c.opP kp c.f c.x0 w in (show_out o, WLg w')
  | "bicgstabl", WBl w -> let (o, w') = Krylov.bicgstabl sc c.opA c.opP kp c.f c.x0 w in (show_out o, WBl w')
  | "idrs", WId (w, sh) -> let (o, w') = KrylovIdrs.idrs sc c.opA c.opP sh (iprm p) c.f c.x0 w in (show_out o, WId (w', sh))
  | _ -> ("UNSUPPORTED-SOLVER", w)
let run_model ?raw name (p : prm) left (c : call) : string =
  if not (List.mem name modelled) then "UNSUPPORTED-SOLVER"
  else fst (call_model name p left c (fresh_ws ?raw ~s:p.s name (List.length c.f)))

let show_ref o = match o with
  | None -> "EXC runtime_error"
  | Some ((k, r), x) -> string_of_int k ^ " " ^ show_s r ^ " " ^ show_vec x
let run_ref name (p : prm) left (c : call) : string =
  match name with
  | "cg" -> show_ref (KrylovRef.cg_ref sc c.opA c.opP p.maxiter p.tol p.abstol p.ns c.f c.x0)
  | "richardson" -> show_ref (KrylovRef.richardson_ref sc c.opA c.opP p.damping p.maxiter p.tol p.abstol p.ns c.f c.x0)
  | "bicgstab" -> show_ref (KrylovRef.bicgstab_ref sc c.opA c.opP left p.maxiter p.tol p.abstol p.ns p.ca c.f c.x0)
  | "gmres" -> show_ref (KrylovRef.gmres_ref sc c.opA c.opP left false p.maxiter p.m p.tol p.abstol p.ns c.f c.x0)
  | "fgmres" -> show_ref (KrylovRef.gmres_ref sc c.opA c.opP left true p.maxiter p.m p.tol p.abstol p.ns c.f c.x0)
  | _ -> "UNSUPPORTED-SOLVER"

let sided = ["bicgstab"; "gmres"; "lgmres"; "bicgstabl"]
let eqq a b = sc.Scalar.seqb a b
let ltq a b = sc.Scalar.sltb a b

let () =
  let head t = let name = t_s t in let left = (t_s t = "left") in (name, left) in
  let solve_like runner t =
    let (name, left) = head t in let pk = t_s t in let p = t_prm t in let c = t_call_pk pk t in
    runner name p left c in
  reg "solve" (fun t ->
    let (name, left) = head t in let pk = t_s t in let p = t_prm t in let c = t_call_pk pk t in
    if name = "idrs" then (let raw = t_raw p.s t in run_model ~raw name p left c) else run_model name p left c);
  reg "ref" (solve_like run_ref);
  (* seq: ONE model object, the state returned by a call is the state the next call starts from;
     seqfresh: a fresh (junk) object per call *)
  let seq thread t =
    let (name, left) = head t in let p = t_prm t in
    let n = t_i t in let nc = t_i t in
    if not (List.mem name modelled) then "UNSUPPORTED-SOLVER" else begin
      let calls = List.init nc (fun _ -> let pk = t_s t in t_call_pk pk t) in
      let raw = if name = "idrs" then t_raw p.s t else (fun _ -> []) in
      let fresh () = fresh_ws ~raw ~s:p.s name n in
      let w = ref (fresh ()) in
      let outs = List.map (fun c ->
        let (o, w') = call_model name p left c (if thread then !w else fresh ()) in
        w := w'; o) calls in
      String.concat " ; " outs end in
  reg "seq" (seq true); reg "seqfresh" (seq false);
  (* idrs.shadow <n> <s> <raw vectors>: the shadow space the constructor builds from the raw draws *)
  reg "idrs.shadow" (fun t ->
    let _n = t_i t in let s = t_i t in let raw = t_raw s t in
    let sh = KrylovIdrs.idrs_shadow sc s raw in
    String.concat " " (List.init s (fun i -> show_vec (sh i))));
  reg "richk" (fun t ->
    let (_, _) = head t in let pk = t_s t in let p = t_prm t in let c = t_call_pk pk t in
    show_vec (KrylovRef.rich_iter sc c.opA c.opP p.damping c.f p.maxiter c.x0));
  (* C01 oracle: <solve args> <iters> <res> <x as vec> *)
  reg "o.truth" (fun t ->
    let (name, left) = head t in let pk = t_s t in let p = t_prm t in let c = t_call_pk pk t in
    let iters = t_i t in let res = t_q t in let x = t_vec t in
    let nrm = if List.mem name ["gmres"; "fgmres"; "lgmres"; "idrs"] then Krylov.norm_b sc else Krylov.norm_a sc in
    let nf = nrm c.f in
    let bound = p.maxiter + (if name = "bicgstabl" then p.l - 1 else 0) in
    let tiny = ltq nf (Krylov.eps1 sc) in
    let den = if tiny && p.ns then one else nf in
    let tr = Krylov.true_res sc nrm c.opA c.opP (left && List.mem name sided) c.f x in
    let rel = sc.Scalar.sdiv tr den in
    if iters > bound then Printf.sprintf "FAIL iters %d > bound %d" iters bound
    else if eqq rel res then "OK"
    else if tiny && not p.ns then
      Printf.sprintf "FAIL trivial-exit-on-nonzero-rhs reported %s true %s" (show_s res) (show_s rel)
    else Printf.sprintf "FAIL reported %s true %s" (show_s res) (show_s rel))


end

module E = Make (Exact)
module F = Make (Float64)
