(* ops_fileio.ml -- model side of harness/drv_fileio.cpp (C19).
   Glue (trusted, validated byte-for-byte against the real files by the mm.write / bin.write
   comparisons): splitting a byte file into lines (std::getline) and tokens (operator>> on
   isspace), joining written lines, the VALUE oracles (text <-> number):
     vprint  = printf "%.20e" (glibc, the same conversion std::ostream uses)
     vread   = strtod on a token that is ENTIRELY a decimal floating literal; on any other
               token the oracle refuses (exception Unclean -> the model answers "NA" and the
               check falls back to the implementation-side oracles for that file).
   Flags: C19_FLAGS = "<mm_index><mm_trailing><mm_range><bin_checked>" (each 0/1), default 1111
   = the readers as they are (MMFormat.mm_checked / BinFormat.read_crs true); 0000 = the readers
   before the fix: commits (historical). *)
open Io
module M = MMFormat
module B = BinFormat

let zi = Big_int_Z.big_int_of_int
let iz = Big_int_Z.int_of_big_int
let zs = Big_int_Z.string_of_big_int
let sz = Big_int_Z.big_int_of_string

let flags =
  let s = try Sys.getenv "C19_FLAGS" with Not_found -> "1111" in
  let s = if String.length s < 4 then "1111" else s in
  s
let mm_flags = { M.chk_index = flags.[0] = '1'; M.chk_trailing = flags.[1] = '1'; M.chk_range = flags.[2] = '1' }
let bin_checked = flags.[3] = '1'

exception Unclean

(* ------------------------------------------------------------------ bytes / hex *)
let unhex (h : string) : string =
  if h = "-" then "" else begin
    let n = String.length h / 2 in
    let v c = if c <= '9' then Char.code c - 48 else Char.code c - 87 in
    String.init n (fun k -> Char.chr (v h.[2*k] * 16 + v h.[2*k+1]))
  end
let hex (b : string) : string =
  if b = "" then "-" else begin
    let d = "0123456789abcdef" in
    String.init (2 * String.length b) (fun k -> let c = Char.code b.[k/2] in d.[if k land 1 = 0 then c lsr 4 else c land 15])
  end
let zbytes (s : string) = List.init (String.length s) (fun k -> zi (Char.code s.[k]))
let of_zbytes (l : Big_int_Z.big_int list) : string =
  let b = Buffer.create 64 in List.iter (fun z -> Buffer.add_char b (Char.chr (iz z land 255))) l; Buffer.contents b

(* ------------------------------------------------------------------ lines and tokens *)
let is_space c = c = ' ' || c = '\t' || c = '\n' || c = '\011' || c = '\012' || c = '\r'
let tokens (s : string) : string list =
  let n = String.length s in
  let rec go i acc =
    if i >= n then List.rev acc
    else if is_space s.[i] then go (i + 1) acc
    else begin let j = ref i in while !j < n && not (is_space s.[!j]) do incr j done;
      go !j (String.sub s i (!j - i) :: acc) end in
  go 0 []
(* std::getline: pieces between '\n'; a trailing "\n" does not open another line *)
let lines_of (file : string) : M.line list =
  let n = String.length file in
  let rec go i acc =
    if i >= n then List.rev acc
    else begin
      let j = try String.index_from file i '\n' with Not_found -> n in
      let l = String.sub file i (j - i) in
      let ln = { M.l_comment = (String.length l > 0 && l.[0] = '%'); M.l_toks = tokens l } in
      go (j + 1) (ln :: acc) end in
  go 0 []
let file_of (ls : M.line list) : string =
  String.concat "" (List.map (fun l -> String.concat " " l.M.l_toks ^ "\n") ls)

(* ------------------------------------------------------------------ value oracles *)
(* sign? (digits [. digits*] | . digits) ([eE] sign? digits)? -- exactly what both
   libstdc++'s num_get accumulates completely and strtod consumes completely *)
let is_clean_float (s : string) : bool =
  let n = String.length s in
  let i = ref 0 in
  let digits () = let k = !i in while !i < n && s.[!i] >= '0' && s.[!i] <= '9' do incr i done; !i - k in
  if !i < n && (s.[!i] = '+' || s.[!i] = '-') then incr i;
  let a = digits () in
  let b = if !i < n && s.[!i] = '.' then (incr i; digits ()) else 0 in
  if a + b = 0 then false else begin
    if !i < n && (s.[!i] = 'e' || s.[!i] = 'E') then begin
      incr i;
      if !i < n && (s.[!i] = '+' || s.[!i] = '-') then incr i;
      if digits () = 0 then i := -1 end;
    !i = n end
(* mantissa [eE] sign? with no exponent digit: num_get accumulates the whole token, strtod
   stops before the 'e', the leftover makes __convert_to_v fail *)
let is_dangling_exponent (s : string) : bool =
  let n = String.length s in
  let n' = if n > 0 && (s.[n-1] = '+' || s.[n-1] = '-') then n - 1 else n in
  n' > 0 && (s.[n'-1] = 'e' || s.[n'-1] = 'E') && is_clean_float (String.sub s 0 (n' - 1))
  && not (String.contains (String.sub s 0 (n' - 1)) 'e') && not (String.contains (String.sub s 0 (n' - 1)) 'E')
let read_double (ts : string list) : (float * string list) option =
  match ts with
  | [] -> None
  | t :: r ->
      if is_dangling_exponent t then None else
      if not (is_clean_float t) then raise Unclean else
      let x = float_of_string t in
      if Float.abs x = Float.infinity then None else Some (x, r)
(* strtof: the model has only strtod; rounding the double to single equals strtof unless the
   double sits exactly on the midpoint of two adjacent singles (double rounding) -- then the
   oracle refuses (NA).  Never the case for text printed from a single with 21 digits. *)
let read_single ts = match read_double ts with
  | Some (x, r) ->
      let b = Int32.bits_of_float x in
      let y = Int32.float_of_bits b in
      if Float.abs y = Float.infinity then None else begin
        let nb d = Int32.float_of_bits (Int32.add b (Int32.of_int d)) in
        let mid a c = (a +. c) /. 2.0 in
        let mag = Int32.logand b 0x7fffffffl in
        let up = nb 1 and dn = if mag = 0l then Float.neg (Int32.float_of_bits 1l) else nb (-1) in
        let up = if mag = 0l then Int32.float_of_bits 1l else up in
        if x <> y && (x = mid y up || x = mid y dn) then raise Unclean;
        Some (y, r) end
  | None -> None
let print_e (x : float) : string = Printf.sprintf "%.20e" x

type 'v vt = {
  kind : M.kind; width : int;
  vread : string list -> ('v * string list) option;
  vprint : 'v -> string list;
  of_case : string -> 'v;          (* case-file token -> value *)
  show : 'v -> string;             (* value -> canonical output token *)
}
let hex64 s = Int64.of_string ("0x" ^ s)
let vt_d : float vt = { kind = M.KReal; width = 8; vread = read_double; vprint = (fun x -> [print_e x]);
  of_case = (fun s -> Int64.float_of_bits (hex64 s)); show = (fun x -> Printf.sprintf "%016Lx" (Int64.bits_of_float x)) }
let vt_f : float vt = { kind = M.KReal; width = 4; vread = read_single; vprint = (fun x -> [print_e x]);
  of_case = (fun s -> Int32.float_of_bits (Int32.of_string ("0x" ^ s))); show = (fun x -> Printf.sprintf "%08lx" (Int32.bits_of_float x)) }
let vt_z : (float * float) vt = { kind = M.KComplex; width = 16;
  vread = M.vread_complex read_double; vprint = M.vprint_complex print_e;
  of_case = (fun s -> let p = String.index s ',' in (vt_d.of_case (String.sub s 0 p), vt_d.of_case (String.sub s (p+1) (String.length s - p - 1))));
  show = (fun (x, y) -> vt_d.show x ^ "," ^ vt_d.show y) }
let vt_int bits : Big_int_Z.big_int vt = { kind = M.KInteger; width = bits / 8;
  vread = M.vread_int (zi bits); vprint = M.vprint_int; of_case = sz; show = zs }

(* ------------------------------------------------------------------ printing *)
let show_err = function
  | M.EFormat | M.EKind | M.ERange | M.EIO -> "EXC error"
  | M.EAlloc -> "EXC alloc"
  | M.EOOB -> "OOB"
let show_crs (vt : 'v vt) (a : 'v M.crs) : string =
  "OK " ^ zs a.M.nrows ^ " " ^ zs a.M.ncols ^
  String.concat "" (List.map (fun r -> " |" ^ String.concat "" (List.map (fun (c, v) -> " " ^ zs c ^ ":" ^ vt.show v) r)) a.M.rows)
let show_dense (vt : 'v vt) (d : 'v M.dense) : string =
  "OK " ^ zs d.M.d_rows ^ " " ^ zs d.M.d_cols ^ " [" ^
  String.concat " " (List.map (function Some v -> vt.show v | None -> "?") d.M.d_val) ^ "]"
let res show = function M.Ok a -> show a | M.Error e -> show_err e
let guard_unclean f = try f () with Unclean -> "NA"

(* ------------------------------------------------------------------ case parsing *)
let t_z t = sz (next t)
let t_mat (vt : 'v vt) t : 'v M.crs =
  let n = t_i t in let m = t_i t in
  let rows = List.init n (fun _ -> t_list t (fun t -> let c = t_z t in let v = vt.of_case (next t) in (c, v))) in
  { M.nrows = zi n; M.ncols = zi m; M.rows = rows }
let t_dense (vt : 'v vt) t = let n = t_i t in let m = t_i t in (n, m, List.init (n * m) (fun _ -> vt.of_case (next t)))
let clamp r0 r1 n = ((if r0 < 0 then 0 else r0), (if r1 < 0 then n else r1))
let stable_sort_row r = List.stable_sort (fun (c1, _) (c2, _) -> Big_int_Z.compare_big_int c1 c2) r

let truncations (file : string) (f : string -> string) : string =
  String.concat " ; " (List.init (String.length file) (fun cut -> f (String.sub file 0 cut)))
let byte_variants (file : string) t (f : string -> string) : string =
  let off = t_i t in let nb = t_i t in
  String.concat " ; " (List.init nb (fun _ -> let b = t_i t in
    let d = Bytes.of_string file in Bytes.set d off (Char.chr b); f (Bytes.to_string d)))

let reg_mm (type v) (tg : string) (vt : v vt) =
  let w = zi vt.width in
  let read file r0 r1 = guard_unclean (fun () ->
    res (show_crs vt) (M.mm_read w vt.vread mm_flags vt.kind (lines_of file) (zi r0) (zi r1))) in
  let readd file r0 r1 = guard_unclean (fun () ->
    res (show_dense vt) (M.mm_readd w vt.vread mm_flags vt.kind (lines_of file) (zi r0) (zi r1))) in
  reg ("mm.write." ^ tg) (fun t -> let a = t_mat vt t in "OK " ^ hex (file_of (M.mm_write_sparse vt.vprint vt.kind a)));
  reg ("mm.writed." ^ tg) (fun t -> let (n, m, v) = t_dense vt t in
    match M.mm_write_dense vt.vprint vt.kind (zi n) (zi m) v with M.Ok ls -> "OK " ^ hex (file_of ls) | M.Error e -> show_err e);
  reg ("mm.read." ^ tg) (fun t -> let r0 = t_i t in let r1 = t_i t in read (unhex (next t)) r0 r1);
  reg ("mm.readd." ^ tg) (fun t -> let r0 = t_i t in let r1 = t_i t in readd (unhex (next t)) r0 r1);
  (* specification side of the round trip: rows r0..r1-1 of A, each stably sorted by column *)
  reg ("mm.rt." ^ tg) (fun t -> let r0 = t_i t in let r1 = t_i t in let a = t_mat vt t in
    let n = List.length a.M.rows in let (r0, r1) = clamp r0 r1 n in
    if r1 > n then "EXC error" else
    let a' = { a with M.rows = List.map stable_sort_row a.M.rows } in
    show_crs vt (M.slice (zi r0) (zi r1) a'));
  reg ("mm.rtd." ^ tg) (fun t -> let r0 = t_i t in let r1 = t_i t in let (n, m, v) = t_dense vt t in
    let (r0, r1) = clamp r0 r1 n in
    if r1 > n then "EXC error" else
    "OK " ^ string_of_int (r1 - r0) ^ " " ^ string_of_int m ^ " [" ^
      String.concat " " (List.map vt.show (List.filteri (fun k _ -> k >= r0 * m && k < r1 * m) v)) ^ "]");
  reg ("mm.tr." ^ tg) (fun t -> let r0 = t_i t in let r1 = t_i t in truncations (unhex (next t)) (fun f -> read f r0 r1));
  reg ("mm.trd." ^ tg) (fun t -> let r0 = t_i t in let r1 = t_i t in truncations (unhex (next t)) (fun f -> readd f r0 r1));
  reg ("mm.fz." ^ tg) (fun t -> let r0 = t_i t in let r1 = t_i t in let f = unhex (next t) in byte_variants f t (fun f -> read f r0 r1));
  reg ("mm.fzd." ^ tg) (fun t -> let r0 = t_i t in let r1 = t_i t in let f = unhex (next t) in byte_variants f t (fun f -> readd f r0 r1))

(* ------------------------------------------------------------------ binary *)
(* values are opaque byte groups; case tokens <-> little-endian bytes *)
type bt = { bw : int; enc : string -> Big_int_Z.big_int list; dec : Big_int_Z.big_int list -> string }
let le_of_hex w s = (* big-endian hex of w bytes -> LE byte list *)
  List.init w (fun k -> zi (int_of_string ("0x" ^ String.sub s (2 * (w - 1 - k)) 2)))
let hex_of_le l = String.concat "" (List.rev_map (fun z -> Printf.sprintf "%02x" (iz z land 255)) l)
let rec firstn k l = if k = 0 then [] else match l with [] -> [] | x :: r -> x :: firstn (k - 1) r
let rec skipn k l = if k = 0 then l else match l with [] -> [] | _ :: r -> skipn (k - 1) r
let bt_d = { bw = 8; enc = le_of_hex 8; dec = hex_of_le }
let bt_f = { bw = 4; enc = le_of_hex 4; dec = hex_of_le }
let bt_z = { bw = 16; enc = (fun s -> let p = String.index s ',' in le_of_hex 8 (String.sub s 0 p) @ le_of_hex 8 (String.sub s (p+1) 16));
             dec = (fun l -> hex_of_le (firstn 8 l) ^ "," ^ hex_of_le (skipn 8 l)) }
let bt_int w = { bw = w;
  enc = (fun s -> B.encode_le w (sz s));
  dec = (fun l -> let u = B.decode_le l in
          let half = Big_int_Z.power_int_positive_int 2 (8 * w - 1) in
          zs (if Big_int_Z.ge_big_int u half then Big_int_Z.sub_big_int u (Big_int_Z.mult_big_int half (zi 2)) else u)) }

let show_flat bt (a : B.flat) =
  "OK " ^ zs (M.u64 a.B.f_n) ^ " ptr=[" ^ String.concat " " (List.map zs a.B.f_ptr) ^ "] cv=[" ^
  String.concat " " (List.map (fun (c, v) -> zs c ^ ":" ^ bt.dec v) a.B.f_cv) ^ "]"
let show_bdense bt (d : B.bdense) =
  "OK " ^ zs (M.u64 d.B.bd_n) ^ " " ^ zs (M.u64 d.B.bd_m) ^ " [" ^ String.concat " " (List.map bt.dec d.B.bd_val) ^ "]"
let t_flat bt t : B.flat =
  let n = t_i t in let _m = t_i t in
  let rows = List.init n (fun _ -> t_list t (fun t -> let c = t_z t in let v = bt.enc (next t) in (c, v))) in
  let ptr = List.rev (List.fold_left (fun acc r -> (List.hd acc + List.length r) :: acc) [0] rows) in
  { B.f_n = zi n; B.f_ptr = List.map zi ptr; B.f_cv = List.concat rows }
let rows_of_flat (a : B.flat) =
  let p = List.map iz a.B.f_ptr in
  let rec go p = match p with b :: ((e :: _) as tl) -> firstn (e - b) (skipn b a.B.f_cv) :: go tl | _ -> [] in go p

let reg_bin (tg : string) (bt : bt) =
  let w = zi bt.bw in
  let rd sg file r0 r1 = res (show_flat bt) (B.read_crs bin_checked sg w (zbytes file) (zi r0) (zi r1)) in
  let rdd sg file r0 r1 = res (show_bdense bt) (B.read_dense bin_checked sg w (zbytes file) (zi r0) (zi r1)) in
  reg ("bin.write." ^ tg) (fun t -> let a = t_flat bt t in "OK " ^ hex (of_zbytes (B.write_crs a)));
  reg ("bin.writed." ^ tg) (fun t -> let n = t_i t in let m = t_i t in let v = List.init (n * m) (fun _ -> bt.enc (next t)) in
    "OK " ^ hex (of_zbytes (B.write_dense (zi n) (zi m) v)));
  (* specification side: rows r0..r1-1, each stably sorted by column, ptr rebased *)
  reg ("bin.rt." ^ tg) (fun t -> let r0 = t_i t in let r1 = t_i t in let a = t_flat bt t in
    let n = iz a.B.f_n in let (r0, r1) = clamp r0 r1 n in
    if r1 > n then "EXC error" else
    let rows = List.map stable_sort_row (firstn (r1 - r0) (skipn r0 (rows_of_flat a))) in
    let ptr = List.rev (List.fold_left (fun acc r -> (List.hd acc + List.length r) :: acc) [0] rows) in
    show_flat bt { B.f_n = a.B.f_n; B.f_ptr = List.map zi ptr; B.f_cv = List.concat rows });
  reg ("bin.rtd." ^ tg) (fun t -> let r0 = t_i t in let r1 = t_i t in let n = t_i t in let m = t_i t in
    let v = List.init (n * m) (fun _ -> bt.enc (next t)) in
    let (r0, r1) = clamp r0 r1 n in
    if r1 > n then "EXC error" else
    show_bdense bt { B.bd_n = zi n; B.bd_m = zi m; B.bd_val = firstn ((r1 - r0) * m) (skipn (r0 * m) v) });
  List.iter (fun (s, sg) ->
    let sfx = tg ^ "." ^ s in
    reg ("bin.read." ^ sfx) (fun t -> let r0 = t_i t in let r1 = t_i t in rd sg (unhex (next t)) r0 r1);
    reg ("bin.readd." ^ sfx) (fun t -> let r0 = t_i t in let r1 = t_i t in rdd sg (unhex (next t)) r0 r1);
    reg ("bin.tr." ^ sfx) (fun t -> let r0 = t_i t in let r1 = t_i t in truncations (unhex (next t)) (fun f -> rd sg f r0 r1));
    reg ("bin.trd." ^ sfx) (fun t -> let r0 = t_i t in let r1 = t_i t in truncations (unhex (next t)) (fun f -> rdd sg f r0 r1));
    reg ("bin.fz." ^ sfx) (fun t -> let r0 = t_i t in let r1 = t_i t in let f = unhex (next t) in byte_variants f t (fun f -> rd sg f r0 r1));
    reg ("bin.fzd." ^ sfx) (fun t -> let r0 = t_i t in let r1 = t_i t in let f = unhex (next t) in byte_variants f t (fun f -> rdd sg f r0 r1)))
    [("u", false); ("s", true)]

(* ------------------------------------------------------------------ oracles on implementation output *)
let class_name = function
  | M.CValid -> "valid" | M.CBadHeader -> "bad-header" | M.CRowOutOfRange -> "row-out-of-range"
  | M.CColOutOfRange -> "col-out-of-range" | M.CShort -> "short" | M.CTrailing -> "trailing-data"
  | M.CBadEntry -> "bad-entry" | M.CNotSquareSymmetric -> "symmetric-not-square"

let rest_of t = let l = ref [] in (try while true do l := next t :: !l done with _ -> ()); List.rev !l

let () =
  reg_mm "d" vt_d; reg_mm "f" vt_f; reg_mm "z" vt_z; reg_mm "i" (vt_int 32); reg_mm "l" (vt_int 64);
  reg_bin "d" bt_d; reg_bin "f" bt_f; reg_bin "z" bt_z; reg_bin "i" (bt_int 4); reg_bin "l" (bt_int 8);
  (* char: spec side of the dense round trip (identity) *)
  reg "mm.rtd.c" (fun t -> let r0 = t_i t in let r1 = t_i t in let n = t_i t in let m = t_i t in
    let v = List.init (n * m) (fun _ -> next t) in let (r0, r1) = clamp r0 r1 n in
    "OK " ^ string_of_int (r1 - r0) ^ " " ^ string_of_int m ^ " [" ^
      String.concat " " (List.filteri (fun k _ -> k >= r0 * m && k < r1 * m) v) ^ "]");
  List.iter (fun (s, sg) -> reg ("bin.size." ^ s) (fun t ->
    match B.crs_size sg (zbytes (unhex (next t))) with M.Ok n -> "OK " ^ zs (M.u64 n) | M.Error e -> show_err e)) [("u", false); ("s", true)];
  (* class of a coordinate file according to the format specification (MMFormat.mm_classify) *)
  reg "mm.classify" (fun t -> class_name (M.mm_classify (lines_of (unhex (next t)))));
  (* o.wf <expected nrows | -1> OK n m | c:v ... | ... : structural validity (MMFormat.wf) of a matrix returned by the implementation *)
  reg "o.wf" (fun t ->
    let expect = t_i t in
    let toks = rest_of t in
    match toks with
    | "OK" :: n :: m :: r ->
        let rows = ref [] and cur = ref [] and started = ref false in
        List.iter (fun s -> if s = "|" then (if !started then rows := List.rev !cur :: !rows; started := true; cur := [])
                    else let p = String.index s ':' in cur := (sz (String.sub s 0 p), String.sub s (p+1) (String.length s - p - 1)) :: !cur) r;
        if !started then rows := List.rev !cur :: !rows;
        let a = { M.nrows = sz n; M.ncols = sz m; M.rows = List.rev !rows } in
        if expect >= 0 && iz a.M.nrows <> expect then "FAIL nrows" else
        if M.wf a then "OK" else
        if List.length a.M.rows <> iz a.M.nrows then "FAIL row-count" else "FAIL col-out-of-range"
    | _ -> "FAIL not-a-matrix");
  (* o.wfflat OK n ptr=[..] cv=[..] : BinFormat.wf_flat of a matrix returned by read_crs *)
  reg "o.wfflat" (fun t ->
    let expect = t_i t in
    let s = String.concat " " (rest_of t) in
    try
      let p1 = String.index s '[' in let p2 = String.index s ']' in
      let q1 = String.index_from s (p2 + 1) '[' in let q2 = String.index_from s q1 ']' in
      let ptr = List.map sz (tokens (String.sub s (p1 + 1) (p2 - p1 - 1))) in
      let cv = List.map (fun e -> let p = String.index e ':' in (sz (String.sub e 0 p), [])) (tokens (String.sub s (q1 + 1) (q2 - q1 - 1))) in
      let a = { B.f_n = zi 0; B.f_ptr = ptr; B.f_cv = cv } in
      if expect >= 0 && List.length ptr <> expect + 1 then "FAIL nrows" else
      if B.wf_flat a then "OK" else "FAIL ptr-invalid"
    with _ -> "FAIL not-a-matrix")
