(* ops_c05.ml -- C05-B oracles: the extracted specifications of KrylovMathSpec.v evaluated on the
   IMPLEMENTATION's iterates (exact rationals).
   o.cgmath <pk> <A> [P] <f> <xsol> <m> <x_0> ... <x_{m-1}>
       x_k = what amgcl::solver::cg returned with maxiter = k after k iterations
       OK | FAIL <first failing check>
   o.gmopt <left|right> <pk> <A> [P] <f> <tol> <k> <x_restart> <x_k>
       Petrov-Galerkin condition of the GMRES family up to the relative tolerance tol *)
open Io

let zero = box (parse_q "0")
let one = box (parse_q "1")
let zeros n = List.init n (fun _ -> zero)
let op_of (a : Crs.crs) = let n = List.length a.Crs.rows in fun v -> Kernels.spmv sc one a v zero (zeros n)

let t_ops pk t =
  let a = t_crs t in
  let opP = match pk with
    | "id" -> (fun v -> v)
    | "diag" -> let d = t_vec t in (fun v -> Kernels.vmul sc one d v zero (zeros (List.length d)))
    | "mat" -> let b = t_crs t in op_of b
    | _ -> failwith "bad pk" in
  (op_of a, opP)

let () =
  reg "o.cgmath" (fun t ->
    let pk = t_s t in let (opA, opP) = t_ops pk t in
    let f = t_vec t in let xsol = t_vec t in
    let m = t_i t in let xs = List.init m (fun _ -> t_vec t) in
    if not (KrylovMathSpec.cg_res_orth_ok sc opA opP f xs) then "FAIL residuals-not-P-orthogonal"
    else if not (KrylovMathSpec.cg_dir_conj_ok sc opA xs) then "FAIL steps-not-A-conjugate"
    else if not (KrylovMathSpec.cg_galerkin_ok sc opA opP f xs) then "FAIL residual-not-orthogonal-to-krylov-space"
    else if not (KrylovMathSpec.cg_opt_ok sc opA opP f xsol xs) then "FAIL A-norm-error-not-minimal"
    else "OK");
  reg "o.gmopt" (fun t ->
    let left = (t_s t = "left") in
    let pk = t_s t in let (opA, opP) = t_ops pk t in
    let f = t_vec t in let tol = t_q t in let k = t_i t in
    let xr = t_vec t in let xk = t_vec t in
    let kop = if left then (fun v -> opP (opA v)) else (fun v -> opA (opP v)) in
    let rho x = let r = KrylovMathSpec.resid sc opA f x in if left then opP r else r in
    let r0 = rho xr in let rk = rho xk in
    if not (KrylovMathSpec.gm_opt_ok sc kop tol r0 rk k) then "FAIL residual-not-orthogonal-to-K-krylov-space"
    else if not (KrylovMathSpec.gm_noincrease_ok sc tol r0 rk) then "FAIL residual-norm-increased"
    else "OK")
