(* ops_params.ml -- model side of harness/drv_params.cpp (C14) and of the params part of
   harness/drv_capi.cpp (C20-A3).  Tree token:  data[key=tree,key=tree,...]  *)
open Io
open Ptree

let parse_tree (s : string) : ptree =
  let n = String.length s in
  let i = ref 0 in
  let rec tree () =
    let j = ref !i in
    while !j < n && s.[!j] <> '[' do incr j done;
    if !j >= n then failwith "tree: missing [";
    let data = String.sub s !i (!j - !i) in
    i := !j + 1;
    if s.[!i] = ']' then (incr i; Node (data, []))
    else begin
      let kids = ref [] in
      let fin = ref false in
      while not !fin do
        let e = try String.index_from s !i '=' with Not_found -> failwith "tree: missing =" in
        let k = String.sub s !i (e - !i) in
        i := e + 1;
        let c = tree () in
        kids := (k, c) :: !kids;
        if s.[!i] = ',' then incr i
        else if s.[!i] = ']' then (incr i; fin := true)
        else failwith "tree: expected , or ]"
      done;
      Node (data, List.rev !kids)
    end in
  tree ()

let rec show_tree (t : ptree) : string =
  match t with
  | Node (d, ks) -> d ^ "[" ^ String.concat "," (List.map (fun (k, c) -> k ^ "=" ^ show_tree c) ks) ^ "]"

let split_path (p : string) : string list = if p = "-" || p = "" then [] else String.split_on_char '.' p

let starts_with p s = String.length s >= String.length p && String.sub s 0 (String.length p) = p

(* schema tree: node data = child struct id | "@opaque" | "@enum:a|b|c" | "" *)
let desc_of (id : string) (defaults : ptree) (schema : ptree) : desc =
  let bind path = match get_path path schema with
    | Some n -> let d = pdata n in if d = "" || starts_with "@enum:" d then None else Some d
    | None -> None in
  let dflt path = match get_path path defaults with Some n -> pdata n | None -> "" in
  let ety path = match get_path path schema with
    | Some n -> let d = pdata n in
      if starts_with "@enum:" d then TEnum (String.split_on_char '|' (String.sub d 6 (String.length d - 6))) else TPlain
    | None -> TPlain in
  resolve ParamsGen.all_structs bind dflt ety 12 [] id

let show_unknown (u : string list) = "[" ^ String.concat " " (List.sort compare u) ^ "]"

let show_issue ((a, b), c) = a ^ "|" ^ b ^ "|" ^ c

let () =
  reg "rt" (fun t ->
    let id = t_s t in let tr = parse_tree (t_s t) in
    let defaults = parse_tree (t_s t) in let schema = parse_tree (t_s t) in
    let d = desc_of id defaults schema in
    match import d (Some tr) with
    | Exc k -> "EXC " ^ k
    | Ok v ->
      let out = if pdata schema = "@noget" then "NOGET" else show_tree (export_top d v) in
      "T:" ^ out ^ " U:" ^ show_unknown (unknowns d (Some tr)));
  reg "ptree" (fun t ->
    let p = ref (parse_tree (t_s t)) in
    let n = t_i t in
    let res = Buffer.create 64 in
    for _ = 1 to n do
      match t_s t with
      | "put" -> let path = t_s t in let v = t_s t in p := put_path (split_path path) v !p
      | "add_child" -> let path = t_s t in let c = parse_tree (t_s t) in p := add_child_path (split_path path) c !p
      | "get" -> let k = t_s t in let d = t_s t in
        Buffer.add_string res (" get=" ^ (match get_path (split_path k) !p with Some c -> pdata c | None -> d))
      | "get_child" -> let k = t_s t in
        Buffer.add_string res (" child=" ^ show_tree (match get_path (split_path k) !p with Some c -> c | None -> empty_ptree))
      | "count" -> let k = t_s t in Buffer.add_string res (" count=" ^ string_of_int (count k !p))
      | "erase" -> let k = t_s t in
        Buffer.add_string res (" erased=" ^ string_of_int (count k !p)); p := erase k !p
      | _ -> failwith "ptree: unknown op"
    done;
    show_tree !p ^ Buffer.contents res);
  (* model-only: the issues the decision procedure of C14-A2 finds in the regenerated tables
     that are not listed as known findings (empty on a clean tree), and the listed ones *)
  reg "issues" (fun _ ->
    let si = List.concat_map (struct_issues ParamsGen.gen_exceptions) ParamsGen.all_structs in
    let wi = List.concat_map wrapper_issues ParamsGen.all_wrappers in
    let is_known ((a, b), _) = pair_mem (a, b) ParamsGen.gen_known in
    "NEW:" ^ String.concat ";" (List.map show_issue (List.filter (fun i -> not (is_known i)) si @ wi))
    ^ " KNOWN:" ^ String.concat ";" (List.map show_issue (List.filter is_known si)))
