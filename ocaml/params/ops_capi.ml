(* ops_capi.ml -- model side of harness/drv_capi.cpp (C20): Capi.v *)
open Io
open Ptree

let z_of_int (i : int) = Big_int_Z.big_int_of_int i
let int_of_z z = Big_int_Z.int_of_big_int z

let () =
  (* sysmat <base> <crs token>: the matrix read from base-shifted arrays, rows sorted by column *)
  reg "sysmat" (fun t ->
    let base = t_i t in
    let n = t_i t in let m = t_i t in
    let ptr = ref [0] and col = ref [] and vals = ref [] in
    for _ = 1 to n do
      let k = t_i t in
      for _ = 1 to k do
        let c = t_i t in let v = t_s t in
        col := c :: !col; vals := show_q (parse_q v) :: !vals
      done;
      ptr := (List.length !col) :: !ptr
    done;
    let shiftl l = List.rev_map (fun x -> z_of_int (x + base)) l in
    let rows = Capi.build "?" (z_of_int base) n (shiftl !ptr) (shiftl !col) (List.rev !vals) in
    let show_row r =
      let r = List.stable_sort (fun (c1, _) (c2, _) -> compare c1 c2) (List.map (fun (c, v) -> (int_of_z c, v)) r) in
      " |" ^ String.concat "" (List.map (fun (c, v) -> " " ^ string_of_int c ^ ":" ^ v) r) in
    "{" ^ string_of_int n ^ " " ^ string_of_int m ^ String.concat "" (List.map show_row rows) ^ "}");
  reg "params" (fun t ->
    let n = t_i t in
    let script = List.init n (fun _ -> let _kind = t_s t in let name = t_s t in let v = t_s t in (name, v)) in
    Ops_params.show_tree (Capi.capi_sets script empty_ptree));
  reg "life" (fun t ->
    let n = t_i t in
    let ops = List.init n (fun _ ->
      let op = t_s t in let kind = t_s t in let slot = t_i t in
      let k = match kind with "p" -> Capi.HParams | "a" -> Capi.HPrecond | _ -> Capi.HSolver in
      match op with "c" -> Capi.Create (k, slot) | "u" -> Capi.Use (k, slot) | _ -> Capi.Destroy (k, slot)) in
    match Capi.crun [] ops with
    | None -> "UB"
    | Some live -> String.concat " " ("OK" :: List.map string_of_int (List.sort compare (List.map fst live))))
