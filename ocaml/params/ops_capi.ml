(* ops_capi.ml -- model side of harness/drv_capi.cpp (C20): Capi.v *)
open Io
open Ptree

let z_of_int (i : int) = Big_int_Z.big_int_of_int i
let int_of_z z = Big_int_Z.int_of_big_int z

let () =
  (* sysmat <base> <crs token>: the matrix read from base-shifted arrays, rows sorted by column *)
  reg "sysmat" (fun t ->
    let base = t_i t in
    let n = t_i t in let m = t_i t in
    let ptr = ref [0] and col = ref [] and vals = ref [] in
    for _ = 1 to n do
      let k = t_i t in
      for _ = 1 to k do
        let c = t_i t in let v = t_s t in
        col := c :: !col; vals := show_q (parse_q v) :: !vals
      done;
      ptr := (List.length !col) :: !ptr
    done;
    let shiftl l = List.rev_map (fun x -> z_of_int (x + base)) l in
    let rows = Capi.build "?" (z_of_int base) n (shiftl !ptr) (shiftl !col) (List.rev !vals) in
    let show_row r =
      let r = List.stable_sort (fun (c1, _) (c2, _) -> compare c1 c2) (List.map (fun (c, v) -> (int_of_z c, v)) r) in
      " |" ^ String.concat "" (List.map (fun (c, v) -> " " ^ string_of_int c ^ ":" ^ v) r) in
    "{" ^ string_of_int n ^ " " ^ string_of_int m ^ String.concat "" (List.map show_row rows) ^ "}");
  reg "params" (fun t ->
    let n = t_i t in
    let script = List.init n (fun _ -> let _kind = t_s t in let name = t_s t in let v = t_s t in (name, v)) in
    Ops_params.show_tree (Capi.capi_sets script empty_ptree));
  reg "life" (fun t ->
    let n = t_i t in
    let ops = List.init n (fun _ ->
      let op = t_s t in let kind = t_s t in let slot = t_i t in
      let k = match kind with "p" -> Capi.HParams | "a" -> Capi.HPrecond | _ -> Capi.HSolver in
      match op with "c" -> Capi.Create (k, slot) | "u" -> Capi.Use (k, slot) | _ -> Capi.Destroy (k, slot)) in
    match Capi.crun [] ops with
    | None -> "UB"
    | Some live -> String.concat " " ("OK" :: List.map string_of_int (List.sort compare (List.map fst live))))

(* ---- call histories (Capi2.v).  The C++ run-time interface is abstract in the model; here it is
   instantiated by a RECORDER: objects are numbered in creation order, every call gets the next step
   number, vector contents are literals or "the x produced by step k".  The record is the contents
   trace in the form harness/drv_capi.cpp `rhist` replays on the C++ run-time interface. *)
type xv = XL of string list | XO of int

let () =
  reg "hist" (fun t ->
    let log = Buffer.create 4096 in
    let nobj = ref 0 and nstep = ref 0 in
    let show_x = function
      | XL l -> "L " ^ string_of_int (List.length l) ^ String.concat "" (List.map (fun s -> " " ^ s) l)
      | XO k -> "O " ^ string_of_int k in
    let show_mat (a : string Capi2.matrix) =
      let n = List.length a in
      string_of_int n ^ " " ^ string_of_int n ^
      String.concat "" (List.map (fun r -> " " ^ string_of_int (List.length r) ^
        String.concat "" (List.map (fun (c, v) -> " " ^ Big_int_Z.string_of_big_int c ^ " " ^ v) r)) a) in
    let show_prm = function None -> "-" | Some tr -> Ops_params.show_tree tr in
    let mk kind n a pt =
      let id = !nobj in incr nobj;
      Buffer.add_string log (Printf.sprintf "new %d %s %d %s %s " id kind n (show_mat a) (show_prm pt)); id in
    let new_precond n a pt = mk "a" n a pt and new_solver n a pt = mk "s" n a pt in
    let step () = let k = !nstep in incr nstep; k in
    let precond_apply o rhs x =
      let k = step () in
      Buffer.add_string log (Printf.sprintf "app %d %d %s %s " o k (show_x rhs) (show_x x)); (XO k, o) in
    let solver_solve o rhs x =
      let k = step () in
      Buffer.add_string log (Printf.sprintf "slv %d %d %s %s " o k (show_x rhs) (show_x x)); ((k, XO k), o) in
    let solver_solve_mtx o a rhs x =
      let k = step () in
      Buffer.add_string log (Printf.sprintf "mtx %d %d %s %s %s " o k (show_mat a) (show_x rhs) (show_x x)); ((k, XO k), o) in
    let zlist t = t_list t (fun t -> z_of_int (t_i t)) in
    let qlist t = t_list t (fun t -> show_q (parse_q (t_s t))) in
    let prm_of s = if s = "-" then None else Some (int_of_string s) in
    let steps = ref [] in
    let fin = ref false in
    while not !fin do
      let c = match t_s t with
        | "end" -> fin := true; None
        | "wi" -> let b = t_i t in let _cap = t_i t in Some (Capi2.WrI (b, zlist t))
        | "wv" -> let b = t_i t in let _cap = t_i t in Some (Capi2.WrV (b, qlist t))
        | "wx" -> let b = t_i t in let _cap = t_i t in Some (Capi2.WrX (b, XL (qlist t)))
        | "pc" -> Some (Capi2.PCreate (t_i t))
        | "ps" -> let h = t_i t in let _kind = t_s t in let name = t_s t in let v = t_s t in Some (Capi2.PSet (h, name, v))
        | "pj" -> let h = t_i t in
          let script = t_list t (fun t -> let _kind = t_s t in let name = t_s t in let v = t_s t in (name, v)) in
          Some (Capi2.PJson (h, Capi.capi_sets script empty_ptree))
        | "pd" -> Some (Capi2.PDestroy (t_i t))
        | ("ac" | "sc") as op ->
          let h = t_i t in let f = t_i t <> 0 in let n = t_i t in
          let bp = t_i t in let bc = t_i t in let bv = t_i t in let prm = prm_of (t_s t) in
          Some (if op = "ac" then Capi2.ACreate (f, h, n, bp, bc, bv, prm) else Capi2.SCreate (f, h, n, bp, bc, bv, prm))
        | "aa" -> let h = t_i t in let br = t_i t in let bx = t_i t in Some (Capi2.AApply (h, br, bx))
        | "ss" -> let h = t_i t in let f = t_i t <> 0 in let br = t_i t in let bx = t_i t in Some (Capi2.SSolve (f, h, br, bx))
        | "sm" -> let h = t_i t in let f = t_i t <> 0 in
          let bp = t_i t in let bc = t_i t in let bv = t_i t in let br = t_i t in let bx = t_i t in
          Some (Capi2.SSolveMtx (f, h, bp, bc, bv, br, bx))
        | "ad" -> Some (Capi2.ADestroy (t_i t))
        | "sd" -> Some (Capi2.SDestroy (t_i t))
        | s -> failwith ("hist: unknown step " ^ s) in
      match c with Some c -> steps := c :: !steps | None -> ()
    done;
    let m0 = { Capi2.mi = (fun _ -> []); Capi2.mv = (fun _ -> []); Capi2.mx = (fun _ -> XL []) } in
    let r = Capi2.run "?" new_precond new_solver precond_apply solver_solve solver_solve_mtx [] m0 (List.rev !steps) in
    Buffer.contents log ^ "end || " ^
    (match r with
     | None -> "UB"
     | Some ((_, tb), _) -> String.concat " " ("OK" :: List.map string_of_int (List.sort compare (List.map fst tb)))))
