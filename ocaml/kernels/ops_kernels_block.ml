(* ops_kernels_block.ml -- model side of harness/drv_kernels_block.cpp (C07, block and complex value types):
   the SAME extracted models as ops_kernels.ml (Kernels.v), run at the Scalar instances
     BlockInst.coq_BlockS sc b      (static_matrix<Q,b,b>; products do not commute)      ops "bk.*" (and "bkd.*":
                                    the C++ side at static_matrix<double,b,b>, exact dyadic values, NaN junk)
     ComplexInst.coq_ComplexS sc    (std::complex; conjugation as adjoint)               ops "cx.*"
   plus BlockKernels.v for the inner products whose entries are static_matrix<Q,b,1> / static_matrix<Q,b,b>.
   Vector entries (static_matrix<Q,b,1>) travel as blocks with the vector in column 0 (BlockInst.blk_col); on
   output every entry is checked to still have that shape (Model_exc "vector_shape" otherwise).  Base-scalar
   coefficients (kind 's') are embedded as c*I (BlockInst.blk_embed).  Scalar vectors passed where block vectors are
   expected (vector kind 's', backend::reinterpret_as_rhs) are read through BlockKernels.bvec_of_flat.
   Token types: see the header of drv_kernels_block.cpp. *)
open Io

let inst_cache : (int, Scalar.coq_Scalar) Hashtbl.t = Hashtbl.create 5
let inst b =
  match Hashtbl.find_opt inst_cache b with
  | Some s -> s
  | None ->
    let bs = BlockInst.coq_BlockS sc b in
    let s = { bs with Scalar.sinv = (fun a ->
        match BlockInst.blk_inverse sc b (Obj.obj a) with
        | None -> raise (Model_exc "singular_block")
        | Some _ -> bs.Scalar.sinv a) } in
    Hashtbl.replace inst_cache b s; s

let t_blk b t : Obj.t = Obj.repr (List.init (b * b) (fun _ -> t_q t))
let t_bcrs b t : Crs.crs =
  let n = t_i t in let m = t_i t in
  let rows = List.init n (fun _ -> t_list t (fun t -> let c = t_i t in let v = t_blk b t in (c, v))) in
  { Crs.ncols = m; Crs.rows = rows }
(* vector kind 'b': n entries of b numbers; kind 's': the same tokens are a scalar vector of length n*b that the
   C++ reinterprets (reinterpret_as_rhs) -- the model reads it through BlockKernels.bvec_of_flat *)
let t_bvec_k kind b t : Obj.t list =
  let n = t_i t in
  match kind with
  | 'b' -> List.init n (fun _ -> let v = List.init b (fun _ -> t_q t) in Obj.repr (BlockInst.blk_col sc b v))
  | 's' -> let flat = List.init (n * b) (fun _ -> t_q t) in
    List.map Obj.repr (BlockKernels.bvec_of_flat sc b flat)
  | _ -> failwith "vector kind"
let t_bvec b t = t_bvec_k 'b' b t
let t_blocks b t : Obj.t list = let n = t_i t in List.init n (fun _ -> t_blk b t)
let embed b (c : Obj.t) : Obj.t = Obj.repr (BlockInst.blk_embed sc b c)
let t_coef kind b t : Obj.t =
  match kind with 's' -> embed b (t_q t) | 'm' -> t_blk b t | _ -> failwith "coefficient kind"

let cells (a : Obj.t) : Obj.t list = Obj.obj a
let show_bvec b (v : Obj.t list) =
  List.iter (fun a -> if not (BlockInst.blk_is_col sc b (Obj.obj a)) then raise (Model_exc "vector_shape")) v;
  "[" ^ String.concat " " (List.concat_map (fun a -> List.map show_s (BlockInst.blk_col0 sc b (Obj.obj a))) v) ^ "]"
let show_blocks (v : Obj.t list) =
  "[" ^ String.concat " " (List.concat_map (fun a -> List.map show_s (cells a)) v) ^ "]"

(* complex rationals: tokens "re im", printed "re,im" *)
let csc = ComplexInst.coq_ComplexS sc
let t_c t : Obj.t = let re = t_q t in let im = t_q t in Obj.repr (re, im)
let t_cr t : Obj.t = Obj.repr (ComplexInst.c_of_re sc (t_q t))
let t_ccoef kind t = match kind with 'c' -> t_c t | 'r' -> t_cr t | _ -> failwith "coefficient kind"
let show_c (x : Obj.t) = let (re, im) : (Obj.t * Obj.t) = Obj.obj x in show_s re ^ "," ^ show_s im
let show_cvec (v : Obj.t list) = "[" ^ String.concat " " (List.map show_c v) ^ "]"
let t_cvec t = t_list t t_c
let t_ccrs t : Crs.crs =
  let n = t_i t in let m = t_i t in
  let rows = List.init n (fun _ -> t_list t (fun t -> let c = t_i t in let v = t_c t in (c, v))) in
  { Crs.ncols = m; Crs.rows = rows }

(* the same model function serves the double-instantiated run ("bkd." prefix: static_matrix<double,b,b> on dyadic
   values; junk tokens nan/inf in overwritten outputs are read as 0 -- irrelevant by the any-Scalar
   "ignores old output" theorems) *)
let regb name f = reg ("bk." ^ name) f; reg ("bkd." ^ name) f

let () =
  (* ---------------- blocks ---------------- *)
  regb "spmv" (fun t -> let b = t_i t in let s = inst b in let k = t_s t in let vk = t_s t in
    let alpha = t_coef k.[0] b t in let a = t_bcrs b t in let x = t_bvec_k vk.[0] b t in
    let beta = t_coef k.[1] b t in let y = t_bvec_k vk.[1] b t in
    show_bvec b (Kernels.spmv s alpha a x beta y));
  regb "residual" (fun t -> let b = t_i t in let s = inst b in let vk = t_s t in
    let f = t_bvec_k vk.[0] b t in let a = t_bcrs b t in let x = t_bvec_k vk.[1] b t in let r = t_bvec_k vk.[2] b t in
    show_bvec b (Kernels.residual s f a x r));
  regb "axpby" (fun t -> let b = t_i t in let s = inst b in let k = t_s t in
    let a = t_coef k.[0] b t in let x = t_bvec b t in let c = t_coef k.[1] b t in let y = t_bvec b t in
    show_bvec b (Kernels.axpby s a x c y));
  regb "axpbypcz" (fun t -> let b = t_i t in let s = inst b in let k = t_s t in
    let a = t_coef k.[0] b t in let x = t_bvec b t in let c = t_coef k.[1] b t in let y = t_bvec b t in
    let d = t_coef k.[2] b t in let z = t_bvec b t in
    show_bvec b (Kernels.axpbypcz s a x c y d z));
  regb "vmul" (fun t -> let b = t_i t in let s = inst b in let k = t_s t in let vk = t_s t in
    let a = t_coef k.[0] b t in let x = t_blocks b t in let y = t_bvec_k vk.[0] b t in
    let c = t_coef k.[1] b t in let z = t_bvec_k vk.[1] b t in
    show_bvec b (Kernels.vmul s a x y c z));
  regb "vmul_mm" (fun t -> let b = t_i t in let s = inst b in let k = t_s t in
    let a = t_coef k.[0] b t in let x = t_blocks b t in let y = t_blocks b t in
    let c = t_coef k.[1] b t in let z = t_blocks b t in
    show_blocks (Kernels.vmul s a x y c z));
  regb "copy" (fun t -> let b = t_i t in let s = inst b in let x = t_bvec b t in let y = t_bvec b t in
    show_bvec b (Kernels.vcopy s x y));
  regb "clear" (fun t -> let b = t_i t in let s = inst b in let x = t_bvec b t in show_bvec b (Kernels.vclear s x));
  regb "inner" (fun t -> let b = t_i t in let x = t_bvec b t in let y = t_bvec b t in
    show_s (BlockKernels.bvec_inner_serial sc b (Obj.magic x) (Obj.magic y)));
  regb "inner_mm" (fun t -> let b = t_i t in let x = t_blocks b t in let y = t_blocks b t in
    show_blocks [BlockKernels.bmat_inner_serial sc b (Obj.magic x) (Obj.magic y)]);
  regb "lin_comb" (fun t -> let b = t_i t in let s = inst b in let k = t_s t in
    let cv = t_list t (fun t -> let c = t_coef k.[0] b t in let v = t_bvec b t in (c, v)) in
    let alpha = t_coef k.[1] b t in let y = t_bvec b t in
    show_bvec b (Kernels.lin_comb s cv alpha y));
  regb "mul" (fun t -> let b = t_i t in let a = t_blk b t in let c = t_blk b t in show_blocks [(inst b).Scalar.smul a c]);
  regb "adjoint" (fun t -> let b = t_i t in let a = t_blk b t in show_blocks [(inst b).Scalar.sadj a]);
  regb "norm" (fun t -> let b = t_i t in let a = t_blk b t in
    show_s (BlockInst.blk_get sc b (Obj.obj ((inst b).Scalar.sabs a)) 0 0));
  (* ---------------- complex ---------------- *)
  reg "cx.spmv" (fun t -> let k = t_s t in let alpha = t_ccoef k.[0] t in let a = t_ccrs t in let x = t_cvec t in
    let beta = t_ccoef k.[1] t in let y = t_cvec t in show_cvec (Kernels.spmv csc alpha a x beta y));
  reg "cx.residual" (fun t -> let f = t_cvec t in let a = t_ccrs t in let x = t_cvec t in let r = t_cvec t in
    show_cvec (Kernels.residual csc f a x r));
  reg "cx.axpby" (fun t -> let k = t_s t in let a = t_ccoef k.[0] t in let x = t_cvec t in let b = t_ccoef k.[1] t in let y = t_cvec t in
    show_cvec (Kernels.axpby csc a x b y));
  reg "cx.axpbypcz" (fun t -> let k = t_s t in let a = t_ccoef k.[0] t in let x = t_cvec t in let b = t_ccoef k.[1] t in let y = t_cvec t in
    let c = t_ccoef k.[2] t in let z = t_cvec t in show_cvec (Kernels.axpbypcz csc a x b y c z));
  reg "cx.vmul" (fun t -> let k = t_s t in let a = t_ccoef k.[0] t in let x = t_cvec t in let y = t_cvec t in
    let b = t_ccoef k.[1] t in let z = t_cvec t in show_cvec (Kernels.vmul csc a x y b z));
  reg "cx.copy" (fun t -> let x = t_cvec t in let y = t_cvec t in show_cvec (Kernels.vcopy csc x y));
  reg "cx.clear" (fun t -> let x = t_cvec t in show_cvec (Kernels.vclear csc x));
  reg "cx.inner" (fun t -> let x = t_cvec t in let y = t_cvec t in show_c (Kernels.inner_product_serial csc x y));
  reg "cx.lin_comb" (fun t -> let k = t_s t in
    let cv = t_list t (fun t -> let c = t_ccoef k.[0] t in let v = t_cvec t in (c, v)) in
    let alpha = t_ccoef k.[1] t in let y = t_cvec t in show_cvec (Kernels.lin_comb csc cv alpha y))
