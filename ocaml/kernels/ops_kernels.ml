(* ops_kernels.ml -- model side of harness/drv_kernels.cpp (C07). *)
open Io
let () =
  reg2 "spmv" (fun t -> let alpha = t_q t in let a = t_crs t in let x = t_vec t in let beta = t_q t in let y = t_vec t in
    show_vec (Kernels.spmv sc alpha a x beta y));
  reg2 "residual" (fun t -> let f = t_vec t in let a = t_crs t in let x = t_vec t in let r = t_vec t in
    show_vec (Kernels.residual sc f a x r));
  reg2 "axpby" (fun t -> let a = t_q t in let x = t_vec t in let b = t_q t in let y = t_vec t in
    show_vec (Kernels.axpby sc a x b y));
  reg2 "axpbypcz" (fun t -> let a = t_q t in let x = t_vec t in let b = t_q t in let y = t_vec t in let c = t_q t in let z = t_vec t in
    show_vec (Kernels.axpbypcz sc a x b y c z));
  reg2 "vmul" (fun t -> let a = t_q t in let x = t_vec t in let y = t_vec t in let b = t_q t in let z = t_vec t in
    show_vec (Kernels.vmul sc a x y b z));
  reg2 "copy" (fun t -> let x = t_vec t in let y = t_vec t in show_vec (Kernels.vcopy sc x y));
  reg2 "clear" (fun t -> let x = t_vec t in show_vec (Kernels.vclear sc x));
  reg2 "inner" (fun t -> let x = t_vec t in let y = t_vec t in show_s (Kernels.inner_product_serial sc x y));
  reg2 "lin_comb" (fun t -> let cv = t_list t (fun t -> let c = t_q t in let v = t_vec t in (c, v)) in
    let alpha = t_q t in let y = t_vec t in show_vec (Kernels.lin_comb sc cv alpha y));
  (* other backends must realise the same operator as the scalar model (block size ignored) *)
  reg2 "bcrs.spmv" (fun t -> let _b = t_i t in let alpha = t_q t in let a = t_crs t in let x = t_vec t in let beta = t_q t in let y = t_vec t in
    show_vec (Kernels.spmv sc alpha a x beta y));
  reg2 "bcrs.residual" (fun t -> let _b = t_i t in let f = t_vec t in let a = t_crs t in let x = t_vec t in let r = t_vec t in
    show_vec (Kernels.residual sc f a x r));
  reg "hyb_spmv" (fun t -> let _b = t_i t in let alpha = t_q t in let a = t_crs t in let x = t_vec t in let beta = t_q t in let y = t_vec t in
    show_vec (Kernels.spmv sc alpha a x beta y));
  reg "hyb_residual" (fun t -> let _b = t_i t in let f = t_vec t in let a = t_crs t in let x = t_vec t in let r = t_vec t in
    show_vec (Kernels.residual sc f a x r));
  reg "eig_spmv" (fun t -> let alpha = t_q t in let a = t_crs t in let x = t_vec t in let beta = t_q t in let y = t_vec t in
    show_vec (Kernels.spmv sc alpha a x beta y));
  reg "eig_residual" (fun t -> let f = t_vec t in let a = t_crs t in let x = t_vec t in let r = t_vec t in
    show_vec (Kernels.residual sc f a x r));
  reg "eig_vec" (fun t -> match t_s t with
    | "axpby" -> let a = t_q t in let x = t_vec t in let b = t_q t in let y = t_vec t in show_vec (Kernels.axpby sc a x b y)
    | "axpbypcz" -> let a = t_q t in let x = t_vec t in let b = t_q t in let y = t_vec t in let c = t_q t in let z = t_vec t in
      show_vec (Kernels.axpbypcz sc a x b y c z)
    | "vmul" -> let a = t_q t in let x = t_vec t in let y = t_vec t in let b = t_q t in let z = t_vec t in show_vec (Kernels.vmul sc a x y b z)
    | "inner" -> let x = t_vec t in let y = t_vec t in show_s (Kernels.inner_product_serial sc x y)
    | _ -> "UNSUPPORTED");
  reg "norm" (fun t -> let x = t_vec t in show_s (Kernels.norm2 sc x))
