(* ops_kernels.ml -- model side of harness/drv_kernels.cpp (C07). *)
open Io
let () =
  reg2 "spmv" (fun t -> let alpha = t_q t in let a = t_crs t in let x = t_vec t in let beta = t_q t in let y = t_vec t in
    show_vec (Kernels.spmv sc alpha a x beta y));
  reg2 "residual" (fun t -> let f = t_vec t in let a = t_crs t in let x = t_vec t in let r = t_vec t in
    show_vec (Kernels.residual sc f a x r));
  reg2 "axpby" (fun t -> let a = t_q t in let x = t_vec t in let b = t_q t in let y = t_vec t in
    show_vec (Kernels.axpby sc a x b y));
  reg2 "axpbypcz" (fun t -> let a = t_q t in let x = t_vec t in let b = t_q t in let y = t_vec t in let c = t_q t in let z = t_vec t in
    show_vec (Kernels.axpbypcz sc a x b y c z));
  reg2 "vmul" (fun t -> let a = t_q t in let x = t_vec t in let y = t_vec t in let b = t_q t in let z = t_vec t in
    show_vec (Kernels.vmul sc a x y b z));
  reg2 "copy" (fun t -> let x = t_vec t in let y = t_vec t in show_vec (Kernels.vcopy sc x y));
  reg2 "clear" (fun t -> let x = t_vec t in show_vec (Kernels.vclear sc x));
  reg2 "inner" (fun t -> let x = t_vec t in let y = t_vec t in show_s (Kernels.inner_product_serial sc x y));
  reg2 "lin_comb" (fun t -> let cv = t_list t (fun t -> let c = t_q t in let v = t_vec t in (c, v)) in
    let alpha = t_q t in let y = t_vec t in show_vec (Kernels.lin_comb sc cv alpha y));
  reg "norm" (fun t -> let x = t_vec t in show_s (Kernels.norm2 sc x))
