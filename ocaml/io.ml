(* io.ml -- case-file parsing and canonical printing for the model driver.
   Mirrors harness/vq_io.hpp exactly. *)
open QArith_base

type q = coq_Q
let zof s = Big_int_Z.big_int_of_string s
let mkq n d : q = Qreduction.coq_Qred { coq_Qnum = n; coq_Qden = d }
let parse_q (s : string) : q =
  (* junk tokens (only ever placed in outputs that are overwritten): the model value is
     irrelevant by the any-Scalar "ignores old output" theorems; 0 is used *)
  if s = "nan" || s = "inf" || s = "-inf" then mkq Big_int_Z.zero_big_int Big_int_Z.unit_big_int else
  match String.index_opt s '/' with
  | None -> mkq (zof s) Big_int_Z.unit_big_int
  | Some p -> mkq (zof (String.sub s 0 p)) (zof (String.sub s (p+1) (String.length s - p - 1)))
let show_q (x : q) : string =
  let x = Qreduction.coq_Qred x in
  let n = Big_int_Z.string_of_big_int x.coq_Qnum and d = Big_int_Z.string_of_big_int x.coq_Qden in
  if d = "1" then n else n ^ "/" ^ d

(* the scalar instance and (un)boxing of its values *)
let sc = QcInst.coq_QcS
let box (x : q) : Obj.t = Obj.repr x
let unbox (x : Obj.t) : q = Obj.obj x

type tok = { t : string array; mutable p : int }
let tok_of_line (l : string) : tok =
  { t = Array.of_list (List.filter (fun s -> s <> "") (String.split_on_char ' ' l)); p = 0 }
let next t = if t.p >= Array.length t.t then failwith "case: out of tokens"; let s = t.t.(t.p) in t.p <- t.p + 1; s
let t_i t = int_of_string (next t)
let t_q t = box (parse_q (next t))
let t_s t = next t
let t_list t f = let n = t_i t in List.init n (fun _ -> f t)
let t_vec t = t_list t t_q
let t_ivec t = t_list t t_i
let t_crs t : Crs.crs =
  let n = t_i t in let m = t_i t in
  let rows = List.init n (fun _ -> t_list t (fun t -> let c = t_i t in let v = t_q t in (c, v))) in
  { Crs.ncols = m; Crs.rows = rows }

let show_s (x : Obj.t) = show_q (unbox x)
let show_vec (v : Obj.t list) = "[" ^ String.concat " " (List.map show_s v) ^ "]"
let show_ivec (v : int list) = "[" ^ String.concat " " (List.map string_of_int v) ^ "]"
let show_crs ?(sorted=false) (a : Crs.crs) =
  let m = a.Crs.ncols in
  let bad = ref false in
  let rows = List.map (fun r ->
      let r = if sorted then List.stable_sort (fun (c1,_) (c2,_) -> compare c1 c2) r else r in
      " |" ^ String.concat "" (List.map (fun (c, v) -> if c < 0 || c >= m then bad := true;
                                 " " ^ string_of_int c ^ ":" ^ show_s v) r)) a.Crs.rows in
  if !bad then "BADCRS col-out-of-range" else
  "{" ^ string_of_int (List.length a.Crs.rows) ^ " " ^ string_of_int m ^ String.concat "" rows ^ "}"

(* self-check of the Z.ggcd replacement (coq/ExtractCommon.v) against its contract *)
let () =
  let open Big_int_Z in
  let chk a b =
    let a = big_int_of_string a and b = big_int_of_string b in
    let (g, (aa, bb)) = BinInt.Z.ggcd a b in
    let ok = sign_big_int g >= 0 && eq_big_int (mult_big_int g aa) a && eq_big_int (mult_big_int g bb) b
             && eq_big_int g (gcd_big_int a b)
             && (sign_big_int g = 0 || eq_big_int (gcd_big_int aa bb) unit_big_int) in
    if not ok then (prerr_endline "Z.ggcd replacement violates its contract"; exit 3) in
  List.iter (fun (a, b) -> chk a b)
    [("0","0"); ("0","5"); ("7","0"); ("12","18"); ("-12","18"); ("12","-18"); ("-12","-18"); ("1","1");
     ("123456789012345678901234567890","987654321098765432109876543210"); ("-35","49"); ("17","-5")]

let registry : (string, tok -> string) Hashtbl.t = Hashtbl.create 97
let reg name f = Hashtbl.replace registry name f
(* the same model function serves the double-instantiated run ("d." prefix) *)
let reg2 name f = reg name f; reg ("d." ^ name) f

exception Model_exc of string

let driver_main () =
  (try
    while true do
      let line = input_line stdin in
      if String.length line > 0 && line.[0] <> '#' then begin
        let t = tok_of_line line in
        let id = t_s t in let op = t_s t in
        match Hashtbl.find_opt registry op with
        | None -> Printf.printf "%s %s UNSUPPORTED\n" id op
        | Some f ->
          (try Printf.printf "%s %s %s\n" id op (f t)
           with Model_exc k -> Printf.printf "%s %s EXC %s\n" id op k)
      end
    done
  with End_of_file -> ());
  flush stdout
