(* ops_coarsen.ml -- model side of harness/drv_coarsen.cpp (C04) and the oracle ops. *)
open Io
let zi (z : Big_int_Z.big_int) : string = Big_int_Z.string_of_big_int z
let iz (i : int) : Big_int_Z.big_int = Big_int_Z.big_int_of_int i
let t_zvec t = List.map iz (t_ivec t)
let show_zvec v = "[" ^ String.concat " " (List.map zi v) ^ "]"
let show_flags (f : bool list list) =
  "[" ^ String.concat " " (List.map (fun b -> if b then "1" else "0") (List.concat f)) ^ "]"
let zeros n = List.init n (fun _ -> box (parse_q "0"))
let show_aggr = function
  | Aggregates.AggEmpty -> raise (Model_exc "empty_level")
  | Aggregates.AggPrecond -> raise (Model_exc "runtime_error")
  | Aggregates.AggOk (c, id, st) -> string_of_int c ^ " " ^ show_zvec id ^ " " ^ show_flags st
let show_tr = function
  | Coarsen.TrEmpty -> raise (Model_exc "empty_level")
  | Coarsen.TrPrecond -> raise (Model_exc "runtime_error")
  | Coarsen.TrOob -> "MODEL-OOB"
  | Coarsen.TrOk (p, r) -> show_crs p ^ " " ^ show_crs r
let nrows (a : Crs.crs) = List.length a.Crs.rows
(* vq::Q default-constructs to 0: numa_vector<Q>(n, false) holds zeros *)
let junk0 a = zeros (nrows a)
let cf_char = function Coarsen.CU -> "U" | Coarsen.CC -> "C" | Coarsen.CF -> "F"
let junk_flags (a : Crs.crs) fill = List.map (fun r -> List.map (fun _ -> fill <> 0) r) a.Crs.rows

let two_levels pol a =
  let err = function
    | Coarsen.StepEmpty -> raise (Model_exc "empty_level")
    | Coarsen.StepPrecond -> raise (Model_exc "runtime_error")
    | _ -> "MODEL-OOB" in
  match Coarsen.coarsen_step sc 1 pol a (junk0 a) [] with
  | Coarsen.StepOk (_, _, ac, pol') ->
    (match Coarsen.coarsen_step sc 1 pol' ac (junk0 ac) [] with
     | Coarsen.StepOk (p2, r2, _, _) -> show_crs ac ^ " " ^ show_crs p2 ^ " " ^ show_crs r2
     | x -> show_crs ac ^ " " ^ err x)
  | x -> err x

let () =
  reg "plain_aggregates" (fun t -> let a = t_crs t in let _ = t_q t in let eps2 = t_q t in
    show_aggr (Aggregates.plain_aggregates sc eps2 a (junk0 a)));
  (* optional trailing token fx1 = the tree under test has the repaired remove_small_aggregates
     (`if (!m) throw error::empty_level();`), see TentativeQrPolicies.pointwise_aggregates_fx *)
  reg "pointwise_aggregates" (fun t -> let a = t_crs t in let _ = t_q t in let eps2 = t_q t in
    let bs = t_i t in let mina = t_i t in let fx = t.p < Array.length t.t && next t = "fx1" in
    show_aggr (TentativeQrPolicies.pointwise_aggregates_fx sc fx eps2 bs mina a (junk0 a)));
  reg "tentative" (fun t -> let _n = t_i t in let naggr = t_i t in let id = t_zvec t in
    show_crs (Tentative.tentative_prolongation sc naggr id));
  reg "aggregation" (fun t -> let a = t_crs t in let _ = t_q t in let eps2 = t_q t in let bs = t_i t in
    show_tr (Coarsen.aggregation_transfer sc eps2 bs a (junk0 a)));
  reg "agg_coarse" (fun t -> let a = t_crs t in let p = t_crs t in let r = t_crs t in let _ = t_q t in let s = t_q t in
    show_crs (Coarsen.aggregation_coarse sc 1 s a p r));
  reg "galerkin" (fun t -> let a = t_crs t in let p = t_crs t in let r = t_crs t in
    show_crs (Coarsen.galerkin sc 1 a p r));
  reg "sa" (fun t -> let a = t_crs t in let _ = t_q t in let eps2 = t_q t in let bs = t_i t in
    let relax = t_q t in let c23 = t_q t in
    show_tr (Coarsen.sa_transfer sc eps2 relax c23 bs a (junk0 a)));
  reg "sa_gersh" (fun t -> let a = t_crs t in let _ = t_q t in let eps2 = t_q t in let bs = t_i t in
    let relax = t_q t in let c43 = t_q t in
    show_tr (Coarsen.sa_transfer_gersh sc eps2 relax c43 bs a (junk0 a)));
  (* two levels through the uniform interface Coarsen.coarsen_step *)
  reg "sa2" (fun t -> let a = t_crs t in let _ = t_q t in let eps2 = t_q t in let eps2n = t_q t in
    let relax = t_q t in let c23 = t_q t in
    two_levels (Coarsen.PolSA ([eps2; eps2n], 1, relax, c23)) a);
  reg "emin" (fun t -> let a = t_crs t in let _ = t_q t in let eps2 = t_q t in let bs = t_i t in
    show_tr (Coarsen.emin_transfer sc 1 eps2 bs a (junk0 a)));
  reg "emin2" (fun t -> let a = t_crs t in let _ = t_q t in let eps2 = t_q t in let eps2n = t_q t in
    two_levels (Coarsen.PolEmin ([eps2; eps2n], 1)) a);
  reg "rs" (fun t -> let a = t_crs t in let eps = t_q t in let dt = t_i t in let et = t_q t in let fill = t_i t in
    show_tr (Coarsen.rs_transfer sc eps et (dt <> 0) a (junk_flags a fill)));
  reg "rs_cf" (fun t -> let a = t_crs t in let eps = t_q t in let fill = t_i t in
    match Coarsen.rs_cf sc eps a (junk_flags a fill) with
    | None -> "MODEL-OOB"
    | Some (sv, cf) -> show_flags sv ^ " " ^ String.concat "" (List.map cf_char cf) ^ ".")

(* ---- oracle ops: Coq specification functions evaluated on implementation outputs ---- *)
let reshape (a : Crs.crs) (fl : int list) : bool list list =
  let rest = ref fl in
  List.map (fun r -> List.map (fun _ -> match !rest with
      | x :: tl -> rest := tl; x <> 0
      | [] -> failwith "flags: too short") r) a.Crs.rows
let verdict b = if b then "OK" else "FAIL"
let cf_of_string s = List.init (String.length s) (fun i -> match s.[i] with
    'C' -> Coarsen.CC | 'F' -> Coarsen.CF | _ -> Coarsen.CU)
let () =
  reg "o.partition" (fun t -> let a = t_crs t in let count = t_i t in let id = t_zvec t in let fl = t_ivec t in
    verdict (Coarsen.partition_ok count id (reshape a fl)));
  reg "o.ptent" (fun t -> let naggr = t_i t in let id = t_zvec t in let p = t_crs t in
    verdict (Coarsen.ptent_ok sc naggr id p));
  reg "o.sa_formula" (fun t -> let a = t_crs t in let fl = t_ivec t in let naggr = t_i t in let id = t_zvec t in
    let omega = t_q t in let p = t_crs t in
    let pt = Tentative.tentative_prolongation sc naggr id in
    verdict (Coarsen.sa_formula_ok sc omega a (reshape a fl) pt p));
  reg "o.emin_formula" (fun t -> let a = t_crs t in let fl = t_ivec t in let naggr = t_i t in let id = t_zvec t in
    let p = t_crs t in let r = t_crs t in
    let pt = Tentative.tentative_prolongation sc naggr id in
    verdict (Coarsen.emin_formula_ok sc a (reshape a fl) pt p r));
  reg "o.sa_rowsum" (fun t -> let a = t_crs t in let fl = t_ivec t in let p = t_crs t in
    verdict (Coarsen.sa_rowsum_ok sc a (reshape a fl) p));
  reg "o.rs_rowsum" (fun t -> let dt = t_i t in let et = t_q t in let a = t_crs t in let fl = t_ivec t in
    let cf = cf_of_string (t_s t) in let p = t_crs t in
    verdict (Coarsen.rs_rowsum_ok sc (dt <> 0) et a (reshape a fl) cf p));
  reg "o.transpose" (fun t -> let p = t_crs t in let r = t_crs t in
    verdict (Coarsen.transpose_ok sc p r));
  (* lifting: what coarsening A (x) I_b with block_size b has to give, from the scalar model *)
  reg "kron_pointwise" (fun t -> let a = t_crs t in let _ = t_q t in let eps2 = t_q t in let b = t_i t in
    let an = Coarsen.mabs sc a in
    show_aggr (Coarsen.lifted_aggregates b (Aggregates.plain_aggregates sc eps2 an (junk0 an))));
  reg "kron_sa" (fun t -> let a = t_crs t in let _ = t_q t in let eps2 = t_q t in let b = t_i t in
    let relax = t_q t in let c23 = t_q t in
    show_tr (Coarsen.lifted_sa sc eps2 (Coarsen.sa_omega sc relax c23) b a (junk0 a)));
  (* the two groups' models of the current pointwise_matrix agree *)
  reg "o.pwm_agree" (fun t -> let a = t_crs t in let bs = t_i t in
    verdict (match Aggregates.pwm sc a bs, MatOps2.pointwise_matrix sc a bs with
             | None, None -> true
             | Some x, Some y -> Coarsen.crs_eqb sc x y
             | _, _ -> false));
  (* near-null-space variant, double build: P * Bnew = B on aggregated rows, P^T P = I, up to tol *)
  reg "o.tentative_ns" (fun t ->
    let n = t_i t in let _naggr = t_i t in let id = t_ivec t in let _bs = t_i t in let cols = t_i t in
    let b = Array.of_list (List.map unbox (t_vec t)) in
    let p = t_crs t in let bnew = Array.of_list (List.map unbox (t_vec t)) in
    let tol = unbox (t_q t) in
    let open QArith_base in
    let qabs x = if Big_int_Z.sign_big_int x.coq_Qnum < 0 then coq_Qopp x else x in
    let le x y = Big_int_Z.le_big_int (Big_int_Z.mult_big_int x.coq_Qnum y.coq_Qden) (Big_int_Z.mult_big_int y.coq_Qnum x.coq_Qden) in
    let zero = parse_q "0" and one = parse_q "1" in
    let coq_Qminus x y = coq_Qplus x (coq_Qopp y) in
    let ok = ref true in
    let m = p.Crs.ncols in
    (* P * Bnew : Bnew is (m x cols) row-major where m = cols * nba *)
    List.iteri (fun i r ->
      if List.nth id i >= 0 then
        for k = 0 to cols - 1 do
          let s = List.fold_left (fun acc (c, v) -> coq_Qplus acc (coq_Qmult (unbox v) bnew.(c * cols + k))) zero r in
          if not (le (qabs (coq_Qminus s b.(i * cols + k))) tol) then ok := false
        done
      else if r <> [] then ok := false) p.Crs.rows;
    (* P^T P = I *)
    let g = Array.make_matrix m m zero in
    List.iter (fun r -> List.iter (fun (c1, v1) -> List.iter (fun (c2, v2) ->
        g.(c1).(c2) <- coq_Qplus g.(c1).(c2) (coq_Qmult (unbox v1) (unbox v2))) r) r) p.Crs.rows;
    for i = 0 to m - 1 do for j = 0 to m - 1 do
      if not (le (qabs (coq_Qminus g.(i).(j) (if i = j then one else zero))) tol) then ok := false done done;
    (* the blocks of Bnew are upper triangular: qr.R(i,j) returns a literal zero for j < i *)
    for r = 0 to m - 1 do for c = 0 to cols - 1 do
      if c < r mod cols && Big_int_Z.sign_big_int bnew.(r * cols + c).coq_Qnum <> 0 then ok := false done done;
    ignore n; verdict !ok)

(* ---- near-null space with the modelled QR (TentativeQr.v): exact tie of tentative_prolongation.hpp
   (QR<double> in the code, so the case lines are the d. ones of the double build; on the "dyadic exact"
   family every double operation is exact and the outputs must be byte-identical) ---- *)
let rec chunks k = function
  | [] -> []
  | l -> let rec take n acc = function
           | x :: tl when n > 0 -> take (n - 1) (x :: acc) tl
           | rest -> (List.rev acc, rest) in
         let (h, rest) = take k [] l in h :: chunks k rest
let ns_args t =
  let _n = t_i t in let naggr = t_i t in let id = t_zvec t in let bs = t_i t in let cols = t_i t in
  let b = chunks cols (t_vec t) in (naggr, id, bs, cols, b)
let () =
  reg "d.tentative_ns" (fun t -> let (naggr, id, bs, cols, b) = ns_args t in
    let (p, rs) = TentativeQr.tentative_prolongation_qr sc bs cols naggr id b [] in
    show_crs p ^ " " ^ show_vec (List.concat (List.concat rs)));
  (* per aggregate: 1 if some step with more than one row left has tau = 0 (x = 0) or tau = 1 (alpha = 0):
     there the sign convention of the reflector is decided by an exact zero test, and a binary64 run may
     legitimately return the column of Q / row of R with the other sign *)
  reg "ns_hazard" (fun t -> let (naggr, id, bs, cols, b) = ns_args t in
    let nba = if bs = 0 then 0 else naggr / bs in
    let zero = box (parse_q "0") and one = box (parse_q "1") in
    let eq a b = sc.Scalar.seqb a b in
    show_ivec (List.init nba (fun i ->
      let mem = Tentative.members bs id i in
      let bp = List.map (Tentative.mrow sc b) mem in
      let d = List.length bp in
      let ((_, tau), _) = Qr.qr_factorize sc d cols 1 d (TentativeQr.gather_cm sc cols bp) (zeros (d * cols)) in
      let h = ref 0 in
      List.iteri (fun k tk -> if d - k > 1 && (eq tk zero || eq tk one) then h := 1) tau;
      !h)));
  (* exact oracles on a (P, Bnew) pair: P Bnew = B on aggregated rows, P^T P = I, blocks of Bnew upper triangular *)
  reg "o.ns_exact" (fun t -> let (_naggr, id, _bs, cols, b) = ns_args t in
    let p = t_crs t in let bnew = t_vec t in
    let rs = List.map (chunks cols) (chunks (cols * cols) bnew) in
    let zero = box (parse_q "0") in
    let upper = List.for_all (fun blk -> List.for_all (fun x -> x)
        (List.concat (List.mapi (fun r row -> List.mapi (fun c v -> c >= r || sc.Scalar.seqb v zero) row) blk))) rs in
    if not (TentativeQr.ns_reproduces_ok sc cols id b p rs) then "FAIL reproduces"
    else if not (TentativeQr.ns_orthonormal_ok sc p) then "FAIL orthonormal"
    else if not upper then "FAIL upper"
    else "OK")

(* ---- transfer_operators() with a near-null space (TentativeQrPolicies.v); trailing token = repaired-tree flag ---- *)
let show_tr_ns (tr, rs) = show_tr tr ^ " " ^ show_vec (List.concat (List.concat rs))
let fx_flag t = t.p < Array.length t.t && next t = "fx1"
let () =
  reg "ns_aggregation" (fun t -> let a = t_crs t in let _ = t_q t in let eps2 = t_q t in let bs = t_i t in let cols = t_i t in
    let b = chunks cols (t_vec t) in let fx = fx_flag t in
    show_tr_ns (TentativeQrPolicies.aggregation_transfer_ns sc fx eps2 bs cols a (junk0 a) b []));
  reg "ns_sa" (fun t -> let a = t_crs t in let _ = t_q t in let eps2 = t_q t in let bs = t_i t in let cols = t_i t in
    let relax = t_q t in let c23 = t_q t in let b = chunks cols (t_vec t) in let fx = fx_flag t in
    show_tr_ns (TentativeQrPolicies.sa_transfer_ns sc fx eps2 (Coarsen.sa_omega sc relax c23) bs cols a (junk0 a) b []));
  reg "ns_emin" (fun t -> let a = t_crs t in let _ = t_q t in let eps2 = t_q t in let bs = t_i t in let cols = t_i t in
    let b = chunks cols (t_vec t) in let fx = fx_flag t in
    show_tr_ns (TentativeQrPolicies.emin_transfer_ns sc fx 1 eps2 bs cols a (junk0 a) b []))
