(* ops_relax.ml -- model side of harness/drv_relax.cpp (C06) + specification oracles.
   Sweep ops print the new x; factor ops print "{L} {U} [D]". *)
open Io

let zeros n = List.init n (fun _ -> sc.Scalar.s0)
let nrows (a : Crs.crs) = List.length a.Crs.rows

let ilu_exc = function
  | Ilu.NoDiag -> raise (Model_exc "no_diag")
  | Ilu.ZeroPivot -> raise (Model_exc "zero_pivot")
let unres = function Ilu.Ok x -> x | Ilu.Err e -> ilu_exc e
let show_lud ((l, u), d) = show_crs l ^ " " ^ show_crs u ^ " " ^ show_vec d

(* generic: a smoother given as (sweep, apply) closures over (a, rhs, x) *)
let run_mode mode ~pre ~post ~apply (a : Crs.crs) rhs x =
  match mode with
  | "pre" -> pre a rhs x
  | "post" -> post a rhs x
  | "apply" | "asprec" -> apply a rhs x
  | _ -> failwith "mode"

let ilu_modes mode damping lud t =
  let a = t_crs t in let rhs = t_vec t in let x = t_vec t in
  let ((l, u), d) = lud a in
  let sw a rhs x = fst (Ilu.ilu_sweep sc damping l u d a rhs x (zeros (nrows a))) in
  show_vec (run_mode mode ~pre:sw ~post:sw ~apply:(fun _ rhs x -> Ilu.ilu_apply sc l u d rhs x) a rhs x)

let tie_exc (r, tie) = if tie then raise (Model_exc "TIE") else r

let () =
  reg "jacobi" (fun t -> let mode = t_s t in let w = t_q t in
    let a = t_crs t in let rhs = t_vec t in let x = t_vec t in
    let dia = Relax.jacobi_setup sc a [] in
    let sw a rhs x = fst (Relax.jacobi_sweep sc w dia a rhs x (zeros (nrows a))) in
    show_vec (run_mode mode ~pre:sw ~post:sw ~apply:(fun _ rhs x -> Relax.jacobi_apply sc dia rhs x) a rhs x));
  reg "spai0" (fun t -> let mode = t_s t in
    let a = t_crs t in let rhs = t_vec t in let x = t_vec t in
    let m = Relax.spai0_setup sc a in
    let sw a rhs x = fst (Relax.spai0_sweep sc m a rhs x (zeros (nrows a))) in
    show_vec (run_mode mode ~pre:sw ~post:sw ~apply:(fun _ rhs x -> Relax.spai0_apply sc m rhs x) a rhs x));
  reg "gs" (fun t -> let mode = t_s t in
    let a = t_crs t in let rhs = t_vec t in let x = t_vec t in
    show_vec (run_mode mode ~pre:(fun a rhs x -> Relax.gs_sweep sc a rhs x true)
                ~post:(fun a rhs x -> Relax.gs_sweep sc a rhs x false)
                ~apply:(fun a rhs x -> Relax.gs_apply sc a rhs x) a rhs x));
  reg "cheby" (fun t -> let mode = t_s t in
    let degree = t_i t in let lower = t_q t in let higher = t_q t in let scale = (t_i t <> 0) in
    let a = t_crs t in let rhs = t_vec t in let x = t_vec t in
    let hi0 = Cheby.gershgorin sc scale a in
    let cdm = Cheby.cheby_setup sc scale a hi0 lower higher [] in
    let n = nrows a in
    let sw a rhs x = Cheby.cheby_sweep sc cdm degree a rhs x (zeros n) (zeros n) in
    show_vec (run_mode mode ~pre:sw ~post:sw
                ~apply:(fun a rhs x -> Cheby.cheby_apply sc cdm degree a rhs x (zeros n) (zeros n)) a rhs x));
  reg "ilu0" (fun t -> let mode = t_s t in let w = t_q t in
    ilu_modes mode w (fun a -> unres (Ilu.ilu0 sc a [])) t);
  (* parallel (level-scheduled) forms of the implementation: same model *)
  reg "ilu0p" (fun t -> let mode = t_s t in let w = t_q t in
    ilu_modes mode w (fun a -> unres (Ilu.ilu0 sc a [])) t);
  reg "gsp" (fun t -> let mode = t_s t in
    let a = t_crs t in let rhs = t_vec t in let x = t_vec t in
    show_vec (run_mode mode ~pre:(fun a rhs x -> Relax.gs_sweep sc a rhs x true)
                ~post:(fun a rhs x -> Relax.gs_sweep sc a rhs x false)
                ~apply:(fun a rhs x -> Relax.gs_apply sc a rhs x) a rhs x));
  reg "iluk" (fun t -> let mode = t_s t in let k = t_i t in let w = t_q t in
    ilu_modes mode w (fun a -> Ilu.iluk sc k a []) t);
  reg "ilup" (fun t -> let mode = t_s t in let k = t_i t in let w = t_q t in
    ilu_modes mode w (fun a -> unres (Ilu.ilup sc k a [])) t);
  reg "ilut" (fun t -> let mode = t_s t in let p = parse_q (t_s t) in let tau = t_q t in let w = t_q t in
    ilu_modes mode w (fun a -> tie_exc (Ilu.ilut sc p tau a [])) t);
  reg "ilu0_factors" (fun t -> let a = t_crs t in show_lud (unres (Ilu.ilu0 sc a [])));
  reg "iluk_factors" (fun t -> let k = t_i t in let a = t_crs t in show_lud (Ilu.iluk sc k a []));
  reg "ilup_factors" (fun t -> let k = t_i t in let a = t_crs t in show_lud (unres (Ilu.ilup sc k a [])));
  reg "ilut_factors" (fun t -> let p = parse_q (t_s t) in let tau = t_q t in let a = t_crs t in
    show_lud (tie_exc (Ilu.ilut sc p tau a [])));
  reg "ilu_solve" (fun t -> let l = t_crs t in let u = t_crs t in let d = t_vec t in let x = t_vec t in
    show_vec (Ilu.ilu_solve sc l u d x));
  reg "spai0_m" (fun t -> let a = t_crs t in show_vec (Relax.spai0_setup sc a));
  reg "jacobi_dia" (fun t -> let a = t_crs t in show_vec (Relax.jacobi_setup sc a []));
  reg "gersh" (fun t -> let scale = (t_i t <> 0) in let a = t_crs t in show_s (Cheby.gershgorin sc scale a));

  (* SPAI-1 relative to the exact least-squares solve (normal equations, DenseSolve.dense_solve);
     compared with the double build of spai1.hpp up to a tolerance (tools/props/C06.py) *)
  let spai1_m a = match Spai1.spai1_setup sc (DenseSolve.dense_solve sc) a with
    | Some m -> m | None -> raise (Model_exc "singular") in
  reg "spai1_m" (fun t -> let a = t_crs t in show_crs (spai1_m a));
  reg "spai1" (fun t -> let mode = t_s t in
    let a = t_crs t in let rhs = t_vec t in let x = t_vec t in
    let m = spai1_m a in
    let sw a rhs x = fst (Spai1.spai1_sweep sc m a rhs x (zeros (nrows a))) in
    show_vec (run_mode mode ~pre:sw ~post:sw ~apply:(fun _ rhs x -> Spai1.spai1_apply sc m rhs x) a rhs x));

  (* ---------------- specification oracles (evaluated on implementation outputs) *)
  (* o_lu_pattern <A> <L> <U> <D> <P>: ((I+L)(U+D^-1))_ij = a_ij for every (i,j) in the pattern P *)
  reg "o_lu_pattern" (fun t -> let a = t_crs t in let l = t_crs t in let u = t_crs t in let d = t_vec t in
    let p = t_crs t in
    let bad = ref None in
    List.iteri (fun i r -> List.iter (fun (j, _) ->
        if !bad = None then begin
          let lhs = Ilu.lu_entry sc l u d i j and rhs = Crs.mget sc a i j in
          if not (sc.Scalar.seqb lhs rhs) then bad := Some (i, j, lhs, rhs)
        end) r) p.Crs.rows;
    match !bad with None -> "OK"
    | Some (i, j, lhs, rhs) -> Printf.sprintf "FAIL %d %d LU=%s a=%s" i j (show_s lhs) (show_s rhs));
  (* o_exact_solve <A> <rhs> <x>: A x = rhs (Kernels.spmv is the C07-proved definition) *)
  reg "o_exact_solve" (fun t -> let a = t_crs t in let rhs = t_vec t in let x = t_vec t in
    let y = Kernels.spmv sc sc.Scalar.s1 a x sc.Scalar.s0 (zeros (nrows a)) in
    if List.length y = List.length rhs && List.for_all2 (fun p q -> sc.Scalar.seqb p q) y rhs then "OK"
    else "FAIL Ax=" ^ show_vec y);
  (* o_veq <x> <y> *)
  reg "o_veq" (fun t -> let x = t_vec t in let y = t_vec t in
    if List.length x = List.length y && List.for_all2 (fun p q -> sc.Scalar.seqb p q) x y then "OK" else "FAIL");
  (* o_triangular <L> <U> <D> <b> <x>: substitution form of (I+L)(D^-1+U) x = b *)
  reg "o_triangular" (fun t -> let l = t_crs t in let u = t_crs t in let d = t_vec t in let b = t_vec t in let x = t_vec t in
    let n = nrows l in
    (* y = (D^-1 + U) x, then (I+L) y = b *)
    let dinv = List.map (fun v -> sc.Scalar.sinv v) d in
    let ux = Kernels.spmv sc sc.Scalar.s1 u x sc.Scalar.s0 (zeros n) in
    let y = List.map2 (fun (di, xi) uxi -> sc.Scalar.sadd (sc.Scalar.smul di xi) uxi) (List.combine dinv x) ux in
    let ly = Kernels.spmv sc sc.Scalar.s1 l y sc.Scalar.s0 (zeros n) in
    let lhs = List.map2 (fun a b -> sc.Scalar.sadd a b) y ly in
    if List.for_all2 (fun p q -> sc.Scalar.seqb p q) lhs b then "OK" else "FAIL " ^ show_vec lhs)
