(* ops_relax_cplx.ml -- the extracted SPAI-0 model (Relax.spai0_setup) at the Scalar instance
   ComplexInst.coq_ComplexS Io.sc (std::complex over the exact rationals), model side of the op spai0_cplx of
   harness/drv_relax.cpp (which runs amgcl::relaxation::spai0 with std::complex<double>).
     spai0_cplx <n> (k (col re im)*k)*n  ->  M as [re im re im ...]   (exact rationals)
   math::norm of a complex number is a square root: the exact instance uses the pseudo-root QcInst.qc_sqrt (2^-64
   grid), so the denominator is within 2^-60 (relative) of sum_j |a_ij|^2 and tools/props/C06.py compares the two
   sides with a tolerance (1e-12), not byte for byte.  The numerator -- the adjoint accumulated since the repair of
   finding C06-spai0-no-conj -- is exact. *)
open Io

let csc = ComplexInst.coq_ComplexS sc

let () =
  reg "spai0_cplx" (fun t ->
    let n = t_i t in
    let rows = List.init n (fun _ -> t_list t (fun t ->
      let c = t_i t in let re = t_q t in let im = t_q t in (c, Obj.repr (re, im)))) in
    let a = { Crs.ncols = n; Crs.rows = rows } in
    let m = Relax.spai0_setup csc a in
    "[" ^ String.concat " " (List.concat_map (fun (z : Obj.t) ->
      let (re, im) : (Obj.t * Obj.t) = Obj.obj z in [show_s re; show_s im]) m) ^ "]")
