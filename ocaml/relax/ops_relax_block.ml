(* ops_relax_block.ml -- model side of harness/drv_relax_block.cpp (C06, block value types):
   the SAME extracted models as ops_relax.ml (Relax.v, Ilu.v, Cheby.v), run at the Scalar instance
   BlockInst.coq_BlockS sc b (static_matrix<Q,b,b>; products do not commute).
   Vector entries (static_matrix<Q,b,1>) travel as blocks with the vector in column 0 (BlockInst.blk_col);
   on output every entry is checked to still have that shape (Model_exc "vector_shape" otherwise).
   math::inverse of a singular block: the C++ asserts; here Model_exc "singular_block" (never the
   totalised default of BlockInst.blk_inv).
   Token types: see the header of drv_relax_block.cpp. *)
open Io

(* the block instance for block size b, with the out-of-domain guard on sinv *)
let inst_cache : (int, Scalar.coq_Scalar) Hashtbl.t = Hashtbl.create 5
let inst b =
  match Hashtbl.find_opt inst_cache b with
  | Some s -> s
  | None ->
    let bs = BlockInst.coq_BlockS sc b in
    let s = { bs with Scalar.sinv = (fun a ->
        match BlockInst.blk_inverse sc b (Obj.obj a) with
        | None -> raise (Model_exc "singular_block")
        | Some _ -> bs.Scalar.sinv a) } in
    Hashtbl.replace inst_cache b s; s

let t_blk b t : Obj.t = Obj.repr (List.init (b * b) (fun _ -> t_q t))
let t_bcrs b t : Crs.crs =
  let n = t_i t in let m = t_i t in
  let rows = List.init n (fun _ -> t_list t (fun t -> let c = t_i t in let v = t_blk b t in (c, v))) in
  { Crs.ncols = m; Crs.rows = rows }
let t_bvec b t : Obj.t list =
  let n = t_i t in
  List.init n (fun _ -> let v = List.init b (fun _ -> t_q t) in Obj.repr (BlockInst.blk_col sc b v))
let t_blocks b t : Obj.t list = let n = t_i t in List.init n (fun _ -> t_blk b t)
let embed b (c : Obj.t) : Obj.t = Obj.repr (BlockInst.blk_embed sc b c)

let cells (a : Obj.t) : Obj.t list = Obj.obj a
let show_bvec b (v : Obj.t list) =
  List.iter (fun a -> if not (BlockInst.blk_is_col sc b (Obj.obj a)) then raise (Model_exc "vector_shape")) v;
  "[" ^ String.concat " " (List.concat_map (fun a -> List.map show_s (BlockInst.blk_col0 sc b (Obj.obj a))) v) ^ "]"
let show_blocks (v : Obj.t list) =
  "[" ^ String.concat " " (List.concat_map (fun a -> List.map show_s (cells a)) v) ^ "]"
let show_blk (a : Obj.t) = String.concat ";" (List.map show_s (cells a))
let show_bcrs (a : Crs.crs) =
  let m = a.Crs.ncols in
  let bad = ref false in
  let rows = List.map (fun r ->
      " |" ^ String.concat "" (List.map (fun (c, v) -> if c < 0 || c >= m then bad := true;
                                 " " ^ string_of_int c ^ ":" ^ show_blk v) r)) a.Crs.rows in
  if !bad then "BADCRS col-out-of-range" else
  "{" ^ string_of_int (List.length a.Crs.rows) ^ " " ^ string_of_int m ^ String.concat "" rows ^ "}"
(* an embedded base scalar c*I is printed as c (and checked to be of that form) *)
let show_embedded b (a : Obj.t) =
  let c = BlockInst.blk_get sc b (Obj.obj a) 0 0 in
  if not ((inst b).Scalar.seqb a (embed b c)) then raise (Model_exc "not_a_scalar");
  show_s c

let nrows (a : Crs.crs) = List.length a.Crs.rows
let zeros b n = List.init n (fun _ -> (inst b).Scalar.s0)

let ilu_exc = function
  | Ilu.NoDiag -> raise (Model_exc "no_diag")
  | Ilu.ZeroPivot -> raise (Model_exc "zero_pivot")
let unres = function Ilu.Ok x -> x | Ilu.Err e -> ilu_exc e
let show_lud ((l, u), d) = show_bcrs l ^ " " ^ show_bcrs u ^ " " ^ show_blocks d
let tie_exc (r, tie) = if tie then raise (Model_exc "TIE") else r

let run_mode mode ~pre ~post ~apply (a : Crs.crs) rhs x =
  match mode with
  | "pre" -> pre a rhs x
  | "post" -> post a rhs x
  | "apply" | "asprec" -> apply a rhs x
  | _ -> failwith "mode"

let ilu_modes b mode damping lud t =
  let s = inst b in
  let a = t_bcrs b t in let rhs = t_bvec b t in let x = t_bvec b t in
  let ((l, u), d) = lud a in
  let sw a rhs x = fst (Ilu.ilu_sweep s damping l u d a rhs x (zeros b (nrows a))) in
  show_bvec b (run_mode mode ~pre:sw ~post:sw ~apply:(fun _ rhs x -> Ilu.ilu_apply s l u d rhs x) a rhs x)

let () =
  reg "b.jacobi" (fun t -> let b = t_i t in let s = inst b in let mode = t_s t in let w = embed b (t_q t) in
    let a = t_bcrs b t in let rhs = t_bvec b t in let x = t_bvec b t in
    let dia = Relax.jacobi_setup s a [] in
    let sw a rhs x = fst (Relax.jacobi_sweep s w dia a rhs x (zeros b (nrows a))) in
    show_bvec b (run_mode mode ~pre:sw ~post:sw ~apply:(fun _ rhs x -> Relax.jacobi_apply s dia rhs x) a rhs x));
  reg "b.spai0" (fun t -> let b = t_i t in let s = inst b in let mode = t_s t in
    let a = t_bcrs b t in let rhs = t_bvec b t in let x = t_bvec b t in
    let m = Relax.spai0_setup s a in
    let sw a rhs x = fst (Relax.spai0_sweep s m a rhs x (zeros b (nrows a))) in
    show_bvec b (run_mode mode ~pre:sw ~post:sw ~apply:(fun _ rhs x -> Relax.spai0_apply s m rhs x) a rhs x));
  reg "b.gs" (fun t -> let b = t_i t in let s = inst b in let mode = t_s t in
    let a = t_bcrs b t in let rhs = t_bvec b t in let x = t_bvec b t in
    show_bvec b (run_mode mode ~pre:(fun a rhs x -> Relax.gs_sweep s a rhs x true)
                   ~post:(fun a rhs x -> Relax.gs_sweep s a rhs x false)
                   ~apply:(fun a rhs x -> Relax.gs_apply s a rhs x) a rhs x));
  reg "b.cheby" (fun t -> let b = t_i t in let s = inst b in let mode = t_s t in
    let degree = t_i t in let lower = embed b (t_q t) in let higher = embed b (t_q t) in let scale = (t_i t <> 0) in
    let a = t_bcrs b t in let rhs = t_bvec b t in let x = t_bvec b t in
    let hi0 = Cheby.gershgorin s scale a in
    let cdm = Cheby.cheby_setup s scale a hi0 lower higher [] in
    let n = nrows a in
    let sw a rhs x = Cheby.cheby_sweep s cdm degree a rhs x (zeros b n) (zeros b n) in
    show_bvec b (run_mode mode ~pre:sw ~post:sw
                   ~apply:(fun a rhs x -> Cheby.cheby_apply s cdm degree a rhs x (zeros b n) (zeros b n)) a rhs x));
  reg "b.ilu0" (fun t -> let b = t_i t in let mode = t_s t in let w = embed b (t_q t) in
    ilu_modes b mode w (fun a -> unres (Ilu.ilu0 (inst b) a [])) t);
  reg "b.iluk" (fun t -> let b = t_i t in let mode = t_s t in let k = t_i t in let w = embed b (t_q t) in
    ilu_modes b mode w (fun a -> Ilu.iluk (inst b) k a []) t);
  reg "b.ilup" (fun t -> let b = t_i t in let mode = t_s t in let k = t_i t in let w = embed b (t_q t) in
    ilu_modes b mode w (fun a -> unres (Ilu.ilup (inst b) k a [])) t);
  reg "b.ilut" (fun t -> let b = t_i t in let mode = t_s t in let p = parse_q (t_s t) in
    let tau = embed b (t_q t) in let w = embed b (t_q t) in
    ilu_modes b mode w (fun a -> tie_exc (Ilu.ilut (inst b) p tau a [])) t);
  reg "b.ilu0_factors" (fun t -> let b = t_i t in let a = t_bcrs b t in show_lud (unres (Ilu.ilu0 (inst b) a [])));
  reg "b.iluk_factors" (fun t -> let b = t_i t in let k = t_i t in let a = t_bcrs b t in show_lud (Ilu.iluk (inst b) k a []));
  reg "b.ilup_factors" (fun t -> let b = t_i t in let k = t_i t in let a = t_bcrs b t in show_lud (unres (Ilu.ilup (inst b) k a [])));
  reg "b.ilut_factors" (fun t -> let b = t_i t in let p = parse_q (t_s t) in let tau = embed b (t_q t) in
    let a = t_bcrs b t in show_lud (tie_exc (Ilu.ilut (inst b) p tau a [])));
  reg "b.ilu_solve" (fun t -> let b = t_i t in let l = t_bcrs b t in let u = t_bcrs b t in
    let d = t_blocks b t in let x = t_bvec b t in
    show_bvec b (Ilu.ilu_solve (inst b) l u d x));
  reg "b.spai0_m" (fun t -> let b = t_i t in let a = t_bcrs b t in show_blocks (Relax.spai0_setup (inst b) a));
  reg "b.jacobi_dia" (fun t -> let b = t_i t in let a = t_bcrs b t in show_blocks (Relax.jacobi_setup (inst b) a []));
  reg "b.gersh" (fun t -> let b = t_i t in let scale = (t_i t <> 0) in let a = t_bcrs b t in
    show_embedded b (Cheby.gershgorin (inst b) scale a));
  reg "b.inverse" (fun t -> let b = t_i t in let a = t_blk b t in show_blocks [(inst b).Scalar.sinv a]);
  reg "b.mul" (fun t -> let b = t_i t in let a = t_blk b t in let c = t_blk b t in show_blocks [(inst b).Scalar.smul a c]);

  (* ---------------- specification oracles (evaluated on implementation outputs), block level *)
  let beq b p q = (inst b).Scalar.seqb p q in
  (* b.o_lu_pattern <b> <A> <L> <U> <D> <P:crs of scalars, pattern only>:
     ((I+L)(U+D^-1))_ij = a_ij (block products, Ilu.lu_entry at BlockS) for every (i,j) of the pattern P.
     lu_entry uses sinv (D_k) = the block the pivot was inverted from *)
  reg "b.o_lu_pattern" (fun t -> let b = t_i t in let s = inst b in
    let a = t_bcrs b t in let l = t_bcrs b t in let u = t_bcrs b t in let d = t_blocks b t in
    let p = t_crs t in
    let bad = ref None in
    List.iteri (fun i r -> List.iter (fun (j, _) ->
        if !bad = None then begin
          let lhs = Ilu.lu_entry s l u d i j and rhs = Crs.mget s a i j in
          if not (beq b lhs rhs) then bad := Some (i, j, lhs, rhs)
        end) r) p.Crs.rows;
    match !bad with None -> "OK"
    | Some (i, j, lhs, rhs) -> Printf.sprintf "FAIL %d %d LU=%s a=%s" i j (show_blk lhs) (show_blk rhs));
  (* b.o_exact_solve <b> <A> <rhs> <x>: A x = rhs with block products (Kernels.spmv at BlockS) *)
  reg "b.o_exact_solve" (fun t -> let b = t_i t in let s = inst b in
    let a = t_bcrs b t in let rhs = t_bvec b t in let x = t_bvec b t in
    let y = Kernels.spmv s s.Scalar.s1 a x s.Scalar.s0 (zeros b (nrows a)) in
    if List.length y = List.length rhs && List.for_all2 (beq b) y rhs then "OK"
    else "FAIL Ax=" ^ show_blocks y);
  (* b.o_triangular <b> <L> <U> <D> <rhs> <x>: substitution form of (I+L)(D^-1+U) x = rhs, written with the stored
     inverted pivots only (left products, no inverse needed -- theorem C06_nc_ilu_solve):
       exists y:  y_i + (L y)_i = rhs_i  (forward equations; y is recomputed by Ilu.lsolve and the equations are
                                          then CHECKED with Kernels.spmv, the C07-proved definition of L y)
       and        x_i = D_i * (y_i - (U x)_i)  for the implementation's x  (backward equations) *)
  reg "b.o_triangular" (fun t -> let b = t_i t in let s = inst b in
    let l = t_bcrs b t in let u = t_bcrs b t in let d = t_blocks b t in let rhs = t_bvec b t in let x = t_bvec b t in
    let n = nrows l in
    let ux = Kernels.spmv s s.Scalar.s1 u x s.Scalar.s0 (zeros b n) in
    let y = Ilu.lsolve s l rhs in
    let ly = Kernels.spmv s s.Scalar.s1 l y s.Scalar.s0 (zeros b n) in
    let fwd = List.for_all2 (beq b) (List.map2 s.Scalar.sadd y ly) rhs in
    let bwd = List.for_all2 (beq b) x
        (List.map2 (fun di (yi, uxi) -> s.Scalar.smul di (s.Scalar.ssub yi uxi)) d (List.combine y ux)) in
    if fwd && bwd then "OK" else Printf.sprintf "FAIL fwd=%b bwd=%b" fwd bwd)
