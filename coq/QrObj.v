(* QrObj.v -- detail::QR<value_type> as an OBJECT (amgcl/detail/qr.hpp:112-330): every data
   member is a field of the record [qr_obj] that each member function receives and returns,

       int m, n, row_stride, col_stride;   // set by factorize() only; used by Q(i,j), R(i,j)
       value_type *r;                      // set by compute(): points INTO THE CALLER'S ARRAY
       std::vector<value_type> tau, f, q;  // resize()d, never cleared: keep the content of
                                           // earlier calls (std::vector::resize value-initialises
                                           // only NEWLY added cells)

   so that a sequence of compute / factorize / solve calls of different shapes and storage
   orders on ONE object is a fold over the state.  Qr.v models single calls on a fresh object
   (q of factorize is a junk input there); here tau, f, q and r are junk inputs of every call.
   [o_r] is the content of the array r points to: the model assumes that the caller keeps that
   array alive and does not modify it between the calls (the harness does).
   Proofs (QrObjProofs.v): a solve with computed = false returns Qr.qr_solve whatever the object
   held; a solve with computed = true returns Qr.qr_solve of the matrix whose factorisation an
   earlier compute / solve left in the object.                                    (C16 / A6) *)
From Amgcl Require Import Scalar Vec DirectUtil Qr.
Local Open Scope S_scope.
Local Open Scope nat_scope.

Section QrObj.
Context {S : Scalar}.
Local Notation vec := (vec S).

Record qr_obj := mkQrObj {
  o_r : vec; o_tau : vec; o_f : vec; o_q : vec;
  o_m : nat; o_n : nat; o_rs : nat; o_cs : nat }.

(* QR() : m(0), n(0), row_stride(0), col_stride(0), r(NULL) {}; the vectors are empty *)
Definition qr_new : qr_obj := mkQrObj [] [] [] [] 0 0 0 0.

(* std::vector::resize(n): truncate, or append value-initialised cells; old cells stay *)
Definition vresize (n : nat) (v : vec) : vec := firstn n v ++ repeat s0 (n - length v).

(* compute(): qr.hpp:118-172, the loop of Qr.qr_compute started from the resized member tau *)
Definition qr_compute_ws (m n rs cs : nat) (A tau0 : vec) : vec * vec :=
  let k := Nat.min m n in
  for_loop 0 k (fun i (At : vec * vec) =>
    let ii := i * (rs + cs) in
    let '(t, A1) := gen_reflector (m - i) ii (ii + rs) rs (fst At) in
    let A2 := if Nat.ltb (i + 1) n
              then apply_reflector (m - i) (n - i - 1) A1 ii rs (sadj t) A1 (ii + cs) rs cs
              else A1 in
    (A2, lset (snd At) i t)) (A, tau0).

(* returns the array after the call and the object after the call *)
Definition obj_compute (m n rs cs : nat) (A : vec) (o : qr_obj) : vec * qr_obj :=
  let k := Nat.min m n in
  if Nat.eqb k 0 then (A, o)                                  (* if (k <= 0) return; *)
  else
    let '(A', tau) := qr_compute_ws m n rs cs A (vresize k (o_tau o)) in   (* r = A; tau.resize(k); ... *)
    (A', mkQrObj A' tau (o_f o) (o_q o) (o_m o) (o_n o) (o_rs o) (o_cs o)).

(* the part of factorize() after compute(): qr.hpp:194-228; [r] = the array r points to *)
Definition qr_form_q (m n rs cs : nat) (r tau q : vec) : vec :=
  let k := Nat.min m n in
  let q0 := for_loop 0 m (fun i q =>
              for_loop k (n - k) (fun j q =>
                lset q (i * rs + j * cs) (if Nat.eqb i j then s1 else s0)) q) q in
  for_down 0 k (fun i q =>
      let ic := i * cs in
      let ii := i * (rs + cs) in
      let ti := vget tau i in
      let q1 := if Nat.ltb i (n - 1)
                then apply_reflector (m - i) (n - i - 1) r ii rs ti q (ii + cs) rs cs
                else q in
      let q2 := for_loop 0 i (fun j q => lset q (j * rs + ic) s0) q1 in
      let q3 := lset q2 ii (s1 - ti)%S in
      for_loop (i + 1) (m - (i + 1))
        (fun j q => lset q (j * rs + ic) (- ti * vget r (j * rs + ic))%S) q3) q0.

Definition obj_factorize (m n rs cs : nat) (A : vec) (o : qr_obj) : vec * qr_obj :=
  let '(A', o1) := obj_compute m n rs cs A o in
  let q := qr_form_q m n rs cs (o_r o1) (o_tau o1) (vresize (m * n) (o_q o1)) in    (* q.resize(m * n) *)
  (A', mkQrObj (o_r o1) (o_tau o1) (o_f o1) q m n rs cs).

(* the accessors use the strides stored by the last factorize() and the current r / q *)
Definition obj_R (o : qr_obj) (i j : nat) : S := qr_R (o_rs o) (o_cs o) (o_r o) i j.
Definition obj_Q (o : qr_obj) (i j : nat) : S := qr_Q (o_rs o) (o_cs o) (o_q o) i j.

(* solve(), rows >= cols, after the factorisation: Q^T f, copy to x, back substitution *)
Definition qr_apply_tall (rows cols rs cs : nat) (r tau f : vec) : vec * vec :=
  let f1 := for_loop 0 cols (fun i f =>
              apply_reflector (rows - i) 1 r (i * (rs + cs)) rs (sadj (vget tau i)) f i 1 1) f in
  let x0 := firstn cols f1 in
  (for_down 0 cols (fun i x =>
      let ia := i * cs in
      let rii := vget r (i * (rs + cs)) in
      if is_zero rii then x else
      let x1 := lset x i (sinv rii * vget x i)%S in
      for_loop 0 i (fun j x => lset x j (vget x j - vget r (ia + j * rs) * vget x i)%S) x1) x0, f1).

(* solve(), rows < cols: forward substitution with R^T in f, copy f to x, zero-fill
   x[rows:cols), apply Q.  f has exactly [rows] cells after f.resize(rows). *)
Definition qr_apply_wide (rows cols rs cs : nat) (r tau f : vec) : vec * vec :=
  let f1 := for_loop 0 rows (fun i f =>
      let ia := i * cs in
      let rii := sadj (vget r (i * (rs + cs))) in
      if is_zero rii then f else
      let f' := lset f i (sinv rii * vget f i)%S in
      for_loop (i + 1) (rows - (i + 1))
        (fun j f => lset f j (vget f j - sadj (vget r (ia + j * rs)) * vget f i)%S) f') f in
  let x0 := f1 ++ repeat s0 (cols - rows) in    (* std::copy(f.begin(), f.end(), x); std::fill(x+rows, x+cols, 0) *)
  (for_down 0 rows (fun i x =>
      apply_reflector (cols - i) 1 r (i * (cs + rs)) cs (vget tau i) x i 1 1) x0, f1).

(* solve(rows, cols, row_stride, col_stride, A, b, x, computed): returns x, the array A after
   the call and the object after the call *)
Definition obj_solve (rows cols rs cs : nat) (A b : vec) (computed : bool) (o : qr_obj)
  : vec * vec * qr_obj :=
  (* f.resize(rows); std::copy(b, b + rows, f.begin()); *)
  let f := for_loop 0 rows (fun i f => lset f i (vget b i)) (vresize rows (o_f o)) in
  if Nat.leb cols rows then
    let '(A', o1) := if computed then (A, o) else obj_compute rows cols rs cs A o in
    let '(x, f1) := qr_apply_tall rows cols rs cs (o_r o1) (o_tau o1) f in
    (x, A', mkQrObj (o_r o1) (o_tau o1) f1 (o_q o1) (o_m o1) (o_n o1) (o_rs o1) (o_cs o1))
  else
    let '(A', o1) :=
      if computed then (A, o)
      else obj_compute cols rows cs rs (map sadj (firstn (cols * rows) A) ++ skipn (cols * rows) A) o in
    let '(x, f1) := qr_apply_wide rows cols rs cs (o_r o1) (o_tau o1) f in
    (x, A', mkQrObj (o_r o1) (o_tau o1) f1 (o_q o1) (o_m o1) (o_n o1) (o_rs o1) (o_cs o1)).

End QrObj.
