(* AmgProofs8.v -- property C02-A3 for Gauss-Seidel: for a symmetric matrix whose rows carry
   exactly one (invertible) diagonal entry, every single-row relaxation is a consistent,
   self-dual iteration; a sweep is the composition of the row relaxations in some order, so
   it is consistent and its dual is the sweep in the reverse order: the backward sweep is the
   adjoint of the forward sweep.  (field) *)
From Amgcl Require Import Scalar Vec Crs Kernels KernelsProofs MatOps MatOpsProofs Relax DenseSolve
  Amg AmgExec AmgProofs AmgProofs2 AmgProofs3 AmgProofs4 AmgProofs6 AmgProofs7.
Local Open Scope S_scope.

Section GS.
Context {S : Scalar}.
Local Notation vec := (vec S).
Local Notation crs := (crs S).
Local Notation sweep := (@sweep S).
Hypothesis Sft : Sfield S.
Hypothesis Seqb : seqb_spec S.
Let Srt : Sring S := F_R Sft.
Add Ring SRingA8 : Srt.

Local Notation ip := (@ip S).

(* the last stored diagonal entry of every row is invertible and is the dense diagonal *)
Definition gs_diag_ok (A : crs) : Prop :=
  forall i, i < nrows A ->
    gsD i (nth i (rows A) []) s1 <> s0 /\ mget A i i = gsD i (nth i (rows A) []) s1.

Lemma dotrow_gsoff i (r : row S) (x : vec) : dotrow r x = gsoff i r x + rget r i * vget x i.
Proof.
  induction r as [|e r IH].
  - unfold dotrow, rget. simpl. ring.
  - rewrite (dotrow_cons Srt), (rget_cons Srt), IH. simpl.
    destruct (Nat.eqb_spec (fst e) i) as [->|]; ring.
Qed.

Section Level.
Variable n : nat.
Variable A : crs.
Hypothesis WA : wf A = true.
Hypothesis NA : nrows A = n.
Hypothesis SA : sym_mat n A.
Hypothesis DA : gs_diag_ok A.

Local Notation res := (res n A).
Local Notation z := (z n).
Local Notation it_len := (it_len n).
Local Notation it_cons := (it_cons n A).
Local Notation it_dual := (it_dual n A).

Definition rho (i : nat) : iteration := fun f x => gs_row i (nth i (rows A) []) f x.
Definition dinv (i : nat) : S := sinv (gsD i (nth i (rows A) []) s1).

Lemma rho_len i : it_len (rho i).
Proof. intros f x Lf Lx. unfold rho. rewrite gs_row_length. exact Lx. Qed.

Lemma vget_set_nth (x : vec) i v j : i < length x ->
  vget (set_nth x i v) j = if Nat.eqb j i then v else vget x j.
Proof.
  unfold vget. revert i j; induction x as [|c x IH]; intros [|i] [|j] Hi; simpl in *; try lia; auto.
  apply IH. lia.
Qed.

(* rho_i (f, x) = x + e_i * dinv_i * (f - A x)_i *)
Lemma rho_get i f x j : i < n -> length f = n -> length x = n -> j < n ->
  vget (rho i f x) j = vget x j + (if Nat.eqb j i then dinv i * (vget f i - Ax A x i) else s0).
Proof.
  intros Hi Lf Lx Hj. unfold rho. rewrite (gs_row_eq Srt), vget_set_nth by lia.
  destruct (Nat.eqb_spec j i) as [->|]; [|ring].
  destruct (DA i ltac:(lia)) as [Hne Hd]. fold (dinv i).
  assert (E : Ax A x i = gsoff i (nth i (rows A) []) x + gsD i (nth i (rows A) []) s1 * vget x i).
  { rewrite <- (dotrows_get Srt A x i WA ltac:(lia)).
    unfold vget at 1. rewrite (nth_indep _ s0 (dotrow [] x)) by (rewrite map_length; unfold nrows in NA; lia).
    rewrite (map_nth (fun r => dotrow r x)). rewrite (dotrow_gsoff i). rewrite <- Hd. reflexivity. }
  rewrite E. unfold dinv.
  set (D := gsD i (nth i (rows A) []) s1) in *.
  transitivity (sinv D * (vget f i - gsoff i (nth i (rows A) []) x) - (sinv D * D) * vget x i + vget x i * s1);
    [|ring].
  rewrite (Finv_l Sft D Hne). ring.
Qed.

Lemma unit_get i c j : i < n -> j < n ->
  vget (rho i (set_nth z i c) z) j = vget (rho i (set_nth z i c) z) j.
Proof. reflexivity. Qed.

Lemma rho_cons i : i < n -> it_cons (rho i).
Proof.
  intros Hi f x Lf Lx.
  assert (Lr : length (res f x) = n) by (apply (res_length n A NA SA); exact Lf).
  assert (Lrho : length (rho i (res f x) z) = n) by (apply rho_len; [exact Lr|apply Lz]).
  apply vec_ext.
  - rewrite (rho_len i f x Lf Lx). symmetry. apply vlin_length; assumption.
  - rewrite (rho_len i f x Lf Lx). intros j Hj.
    rewrite (vadd_get Srt n) by assumption.
    rewrite !rho_get by (auto using Lz).
    rewrite (res_get Srt n A WA NA SA f x i Lf Hi). unfold AmgProofs7.z. rewrite (Ax_zero Srt), vget_vzero.
    destruct (Nat.eqb j i); ring.
Qed.

(* <rho_i (f, x), g> = <x, g> + dinv_i (f - A x)_i g_i *)
Lemma ip_rho i f x g : i < n -> length f = n -> length x = n ->
  ip n (rho i f x) g = ip n x g + dinv i * (vget f i - Ax A x i) * vget g i.
Proof.
  intros Hi Lf Lx. unfold AmgProofs6.ip.
  rewrite (sumn_ext _ (fun j => vget x j * vget g j +
             (if Nat.eqb i j then dinv i * (vget f i - Ax A x i) * vget g i else s0))).
  - rewrite (sumn_add Srt), (sumn_delta Srt).
    replace (i <? n)%nat with true by (symmetry; apply Nat.ltb_lt; exact Hi). reflexivity.
  - intros j Hj. rewrite rho_get by assumption. rewrite (Nat.eqb_sym j i).
    destruct (Nat.eqb_spec i j) as [->|]; ring.
Qed.

(* (A (e_i c))_j = a_ji c *)
Lemma Ax_unit i c j : i < n -> Ax A (set_nth z i c) j = mget A j i * c.
Proof.
  intro Hi. destruct SA as [HcA _]. unfold Ax. rewrite HcA.
  rewrite (sumn_ext _ (fun l => if Nat.eqb i l then mget A j i * c else s0)).
  - rewrite (sumn_delta Srt).
    replace (i <? n)%nat with true by (symmetry; apply Nat.ltb_lt; exact Hi). reflexivity.
  - intros l Hl. rewrite vget_set_nth by (rewrite Lz; exact Hi). unfold AmgProofs7.z.
    rewrite vget_vzero, (Nat.eqb_sym l i). destruct (Nat.eqb_spec i l) as [->|]; ring.
Qed.

Lemma rho_dual i : i < n -> it_dual (rho i) (rho i).
Proof.
  intros Hi f x g Lf Lx Lg. destruct SA as [HcA HsA].
  rewrite (ip_rho i f x g Hi Lf Lx).
  (* rho_i (g, 0) = e_i * dinv_i * g_i *)
  set (c := dinv i * vget g i).
  assert (Lw : length (rho i g z) = n) by (apply rho_len; auto using Lz).
  assert (Ew : forall j, j < n -> vget (rho i g z) j = if Nat.eqb j i then c else s0).
  { intros j Hj. rewrite rho_get by (auto using Lz). unfold AmgProofs7.z.
    rewrite (Ax_zero Srt), vget_vzero. unfold c. destruct (Nat.eqb j i); ring. }
  assert (E1 : ip n f (rho i g z) = vget f i * c).
  { unfold AmgProofs6.ip. rewrite (sumn_ext _ (fun j => if Nat.eqb i j then vget f i * c else s0)).
    - rewrite (sumn_delta Srt).
      replace (i <? n)%nat with true by (symmetry; apply Nat.ltb_lt; exact Hi). reflexivity.
    - intros j Hj. rewrite (Ew j Hj), (Nat.eqb_sym j i). destruct (Nat.eqb_spec i j) as [->|]; ring. }
  assert (E2 : ip n x (res g (rho i g z)) = ip n x g - Ax A x i * c).
  { rewrite (ip_sym Srt), (ip_res_l Srt n A WA NA SA g (rho i g z) x Lg Lw Lx).
    rewrite (ip_sym Srt n g x). f_equal.
    (* qA n A x w = sum_j (A x)_j w_j with w = e_i c *)
    unfold qA. rewrite (sumn_ext _ (fun j => if Nat.eqb i j then Ax A x i * c else s0)).
    - rewrite (sumn_delta Srt).
      replace (i <? n)%nat with true by (symmetry; apply Nat.ltb_lt; exact Hi). reflexivity.
    - intros j Hj. rewrite (Ew j Hj), (Nat.eqb_sym j i). destruct (Nat.eqb_spec i j) as [->|]; ring. }
  rewrite E1, E2. unfold c. ring.
Qed.

(* a sweep = the row relaxations in the given order *)
Definition sweep_it (order : list nat) : iteration :=
  fun f x => fold_left (fun x i => rho i f x) order x.

Lemma sweep_it_cons_eq i order : forall f x,
  sweep_it (i :: order) f x = comp (sweep_it order) (rho i) f x.
Proof. reflexivity. Qed.

Lemma sweep_it_snoc order i : forall f x,
  sweep_it (order ++ [i]) f x = comp (rho i) (sweep_it order) f x.
Proof. intros f x. unfold sweep_it, comp. rewrite fold_left_app. reflexivity. Qed.

Lemma sweep_it_len order : it_len (sweep_it order).
Proof.
  induction order as [|i order IH]; intros f x Lf Lx; [exact Lx|].
  rewrite sweep_it_cons_eq. apply (comp_len n); auto using rho_len.
Qed.

Lemma sweep_it_cons order : Forall (fun i => i < n) order -> it_cons (sweep_it order).
Proof.
  induction 1 as [|i order Hi HF IH].
  - apply (id_cons Srt n A).
  - intros f x Lf Lx. rewrite sweep_it_cons_eq.
    apply (comp_cons Srt n A WA NA SA (sweep_it order) (rho i)); auto using sweep_it_len, rho_len, rho_cons.
Qed.

Lemma sweep_it_dual order : Forall (fun i => i < n) order ->
  it_dual (sweep_it order) (sweep_it (rev order)).
Proof.
  induction 1 as [|i order Hi HF IH].
  - apply (id_dual Srt n A WA NA SA).
  - intros f x g Lf Lx Lg. simpl rev.
    rewrite sweep_it_cons_eq, !sweep_it_snoc.
    apply (comp_dual Srt n A WA NA SA (rho i) (sweep_it order) (rho i) (sweep_it (rev order)));
      auto using sweep_it_len, rho_len, rho_cons, rho_dual.
Qed.

(* the model's gs_sweep *)
Lemma gs_sweep_it (f x : vec) fwd :
  gs_sweep A f x fwd = sweep_it (if fwd then seq 0 n else rev (seq 0 n)) f x.
Proof. unfold gs_sweep, sweep_it, rho. rewrite NA. reflexivity. Qed.

Lemma seq_lt : Forall (fun i => i < n) (seq 0 n).
Proof. apply Forall_forall. intros i Hi. apply in_seq in Hi. lia. Qed.

Lemma rev_seq_lt : Forall (fun i => i < n) (rev (seq 0 n)).
Proof. apply Forall_forall. intros i Hi. apply in_rev in Hi. apply in_seq in Hi. lia. Qed.

Definition gs_sw (fwd : bool) : sweep := fun rhs x t => (gs_sweep A rhs x fwd, t).

Lemma gs_order_lt (fwd : bool) : Forall (fun i => i < n) (if fwd then seq 0 n else rev (seq 0 n)).
Proof. destruct fwd; [apply seq_lt|apply rev_seq_lt]. Qed.

Theorem gs_sweep_cons fwd : sweep_cons n A (gs_sw fwd).
Proof.
  intros f x t Lf Lx Lt. unfold gs_sw, opM. cbn [fst]. rewrite !gs_sweep_it.
  apply (sweep_it_cons _ (gs_order_lt fwd) f x Lf Lx).
Qed.

Theorem gs_sweep_adj fwd : sweep_adj n (gs_sw fwd) (gs_sw (negb fwd)).
Proof.
  intros f g Lf Lg. unfold gs_sw, opM. cbn [fst]. rewrite !gs_sweep_it.
  assert (E : (if negb fwd then seq 0 n else rev (seq 0 n)) = rev (if fwd then seq 0 n else rev (seq 0 n)))
    by (destruct fwd; simpl; [reflexivity|symmetry; apply rev_involutive]).
  rewrite E.
  pose proof (sweep_it_dual _ (gs_order_lt fwd) f (vzero n) g Lf (vzero_length n) Lg) as H.
  rewrite H.
  pose proof (ip_zero_l Srt n (res g (sweep_it (rev (if fwd then seq 0 n else rev (seq 0 n))) g z))) as Z.
  unfold AmgProofs7.z in *. rewrite Z. ring.
Qed.

End Level.

(* forward sweep as pre-, backward sweep as post-smoother: consistent, mutually adjoint *)
Theorem gs_sym_ok (A : crs) : wf A = true -> sym_mat (nrows A) A -> gs_diag_ok A ->
  sweep_cons (nrows A) A (fst (mk_relax_std RGS A)) /\
  sweep_cons (nrows A) A (snd (mk_relax_std RGS A)) /\
  sweep_adj (nrows A) (fst (mk_relax_std RGS A)) (snd (mk_relax_std RGS A)).
Proof.
  intros WA SA DA. cbn [mk_relax_std fst snd]. split; [|split].
  - apply (gs_sweep_cons (nrows A) A WA eq_refl SA DA true).
  - apply (gs_sweep_cons (nrows A) A WA eq_refl SA DA false).
  - apply (gs_sweep_adj (nrows A) A WA eq_refl SA DA true).
Qed.

(* rows without duplicate columns and with a non-zero diagonal entry satisfy gs_diag_ok *)
Lemma gsD_nodup i (r : row S) : NoDup (map fst r) -> forall d0,
  (In i (map fst r) -> gsD i r d0 = rget r i) /\ (~ In i (map fst r) -> gsD i r d0 = d0).
Proof.
  induction r as [|e r IH]; intros Hnd d0; simpl.
  - split; [intros []|reflexivity].
  - inversion Hnd as [|? ? Hn Hd]; subst.
    change (gsD i (e :: r) d0) with (gsD i r (if Nat.eqb (fst e) i then snd e else d0)).
    rewrite (rget_cons Srt).
    destruct (Nat.eqb_spec (fst e) i) as [E|E].
    + subst i. destruct (IH Hd (snd e)) as [_ H2]. split.
      * intros _. rewrite (H2 Hn), (rget_notin Srt r (fst e) Hn). ring.
      * intro H. exfalso. apply H. left. reflexivity.
    + destruct (IH Hd d0) as [H1 H2]. split.
      * intros [H|H]; [contradiction|]. rewrite (H1 H). ring.
      * intro H. apply H2. intro H'. apply H. right. exact H'.
Qed.

Theorem gs_diag_ok_nodup (A : crs) :
  Forall (fun r => NoDup (map fst r)) (rows A) ->
  (forall i, i < nrows A -> In i (map fst (nth i (rows A) [])) /\ mget A i i <> s0) ->
  gs_diag_ok A.
Proof.
  intros Hnd Hd i Hi. destruct (Hd i Hi) as [Hin Hne].
  assert (Hr : NoDup (map fst (nth i (rows A) []))).
  { rewrite Forall_forall in Hnd. apply Hnd. apply nth_In. exact Hi. }
  destruct (gsD_nodup i _ Hr s1) as [H1 _]. specialize (H1 Hin). unfold mget in *.
  rewrite H1. split; [exact Hne|reflexivity].
Qed.

(* --- closed form: hierarchies built by amg_init with Gauss-Seidel (forward pre, backward post) --- *)
Theorem std_levels_sym_gs ce dc ml sc ts (M : crs) :
  wf M = true -> sym_mat (nrows M) M -> ts_sym (nrows M) ts ->
  (forall A, In (LSolve A) (amg_init ce dc ml (coarse_op_of sc) ts M) ->
             solve_sym (nrows A) (mk_solve_exact A)) ->
  (forall l, In l (amg_init ce dc ml (coarse_op_of sc) ts M) -> gs_diag_ok (ld_A l)) ->
  hier_sym (std_levels RGS (amg_init ce dc ml (coarse_op_of sc) ts M)) /\
  hier_symk (std_levels RGS (amg_init ce dc ml (coarse_op_of sc) ts M)).
Proof.
  intros WM SM Hts Hsol Hgood. unfold std_levels, amg_init.
  apply (build_hier_sym Srt (mk_relax_std RGS) mk_solve_exact (mk_relax_std_ok RGS) gs_diag_ok
           (fun A WA SA DA => gs_sym_ok A WA SA DA)
           mk_solve_exact_ok ce dc ml (coarse_op_of sc)
           (coarse_op_of_shape sc)); [| | | | |exact Hsol|exact Hgood].
  - destruct sc as [s|]; [apply (scaled_galerkin_cop_wf s)|apply galerkin_cop_wf].
  - apply (coarse_op_of_sym Srt).
  - apply sort_rows_wf, WM.
  - rewrite sort_rows_nrows. apply (sort_rows_sym Srt), SM.
  - rewrite sort_rows_nrows. exact Hts.
Qed.

Theorem built_apply_sym_full_gs (sadj_id : forall a : S, sadj a = a)
  ce dc ml sc ts (M : crs) k nc pc :
  wf M = true -> sym_mat (nrows M) M -> ts_sym (nrows M) ts ->
  (forall A, In (LSolve A) (amg_init ce dc ml (coarse_op_of sc) ts M) ->
             solve_sym (nrows A) (mk_solve_exact A)) ->
  (forall l, In l (amg_init ce dc ml (coarse_op_of sc) ts M) -> gs_diag_ok (ld_A l)) ->
  let lvls := std_levels RGS (amg_init ce dc ml (coarse_op_of sc) ts M) in
  (pc = 0 \/ nosolve_top lvls) ->
  forall scr1 scr2 f g x1 x2,
  scratch_wf lvls scr1 -> scratch_wf lvls scr2 ->
  length f = nrows M -> length g = nrows M -> length x1 = nrows M -> length x2 = nrows M ->
  dot (fst (apply k k nc (Datatypes.S pc) lvls scr1 f x1)) g =
  dot f (fst (apply k k nc (Datatypes.S pc) lvls scr2 g x2)).
Proof.
  intros WM SM Hts Hsol Hgood lvls Hpc scr1 scr2 f g x1 x2 H1 H2 Lf Lg L1 L2.
  destruct (std_levels_sym_gs ce dc ml sc ts M WM SM Hts Hsol Hgood) as [Hsym Hsk].
  destruct (amg_init_chain ce dc ml (coarse_op_of sc) ts M) as [Hc Hh].
  destruct (std_levels_wf RGS _ _ (coarse_op_of_shape sc) Hc) as (_ & Hne & _).
  assert (En : top_n lvls = nrows M).
  { unfold lvls, std_levels. rewrite (top_n_inst _ _ _ _ Hh). apply sort_rows_nrows. }
  apply (apply_sym_full Srt Seqb sadj_id k nc pc lvls Hsym Hsk Hne Hpc); congruence.
Qed.

End GS.
