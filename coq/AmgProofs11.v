(* AmgProofs11.v -- C02-B1: the smoother hypotheses of hier_dec / top_strict discharged from
   matrix properties (ordered field).
   M-matrix conditions on the dense entries (mmat): symmetric, off-diagonal entries <= 0, positive
   diagonal, weakly diagonally dominant (sum_{j<>i} -a_ij <= a_ii).  Then, with
   c_ij = -a_ij (i<>j):  sum_ij c_ij (x_i + x_j)^2 >= 0 gives <A x,x> <= 2 <D x,x> and
   sum_ij c_ij (x_i - x_j)^2 >= 0 gives <A x,x> >= 0.
   - damped Jacobi, 0 < w <= 1 decreases the energy, strictly for w < 1;
   - every Gauss-Seidel row relaxation is a coordinate descent step, so both sweeps decrease the
     energy, strictly on non-zero residuals. *)
From Amgcl Require Import Scalar Vec Crs Kernels KernelsProofs MatOps MatOpsProofs Relax DenseSolve
  Amg AmgExec AmgProofs AmgProofs2 AmgProofs3 AmgProofs4 AmgProofs6 AmgProofs7 AmgProofs8 AmgProofs10 AmgOrder.
Local Open Scope S_scope.

Section Smooth.
Context {S : Scalar}.
Local Notation vec := (vec S).
Local Notation crs := (crs S).
Local Notation sweep := (@sweep S).
Hypothesis Sft : Sfield S.
Hypothesis Seqb : seqb_spec S.
Hypothesis Ord : ordered S.
Let Srt : Sring S := F_R Sft.
Add Ring SRingA11 : Srt.
Local Notation ip := (@ip S).

Lemma one_pos : olt (@s0 S) s1.
Proof.
  replace (@s1 S) with (@s1 S * s1) by ring. apply (sq_pos Srt Ord). intro E. apply (F_1_neq_0 Sft). exact E.
Qed.

Lemma sinv_pos (d : S) : olt s0 d -> olt s0 (sinv d).
Proof.
  intro Hd. destruct (olt_or_ole s0 (sinv d)) as [H|H]; [exact H|]. exfalso.
  assert (Hne : d <> s0) by (intro E; subst d; unfold olt in Hd; rewrite (o_irrefl S Ord) in Hd; discriminate).
  pose proof (ole_mul_pos Ord (sinv d) s0 d Hd H) as P.
  rewrite (Finv_l Sft d Hne) in P. replace (s0 * d) with (@s0 S) in P by ring.
  exact (olt_not_ole _ _ one_pos P).
Qed.

(* the order facts used by AmgProofs10 *)
Lemma O1 : le0 (@s0 S). Proof. apply (ole_refl Ord). Qed.
Lemma O2 (a b : S) : le0 a -> le0 b -> le0 (a + b).
Proof. intros Ha Hb. unfold le0. change (ole (a + b) s0). replace (@s0 S) with (@s0 S + s0) by ring.
  apply (ole_add Srt Ord); assumption. Qed.
Lemma O3 (a b : S) : lt0 a -> le0 b -> lt0 (a + b).
Proof. intros Ha Hb. change (olt (a + b) s0). replace (@s0 S) with (@s0 S + s0) by ring.
  apply (olt_ole_add Srt Ord); assumption. Qed.

(* ------------------------------------------------------------------ *)
Section MMatrix.
Variable n : nat.
Variable A : crs.

Definition cof (i j : nat) : S := if Nat.eqb i j then s0 else sopp (mget A i j).
Definition Cs (i : nat) : S := sumn (fun j => cof i j) n.

Definition mmat : Prop :=
  sym_mat n A /\
  (forall i j, i < n -> j < n -> i <> j -> ole (mget A i j) s0) /\
  (forall i, i < n -> olt s0 (mget A i i)) /\
  (forall i, i < n -> ole (Cs i) (mget A i i)).

Hypothesis HM : mmat.

Definition Dq (x : vec) : S := sumn (fun i => mget A i i * (vget x i * vget x i)) n.
Definition Oc (x : vec) : S := sumn (fun i => sumn (fun j => cof i j * (vget x i * vget x j)) n) n.
Definition Wq (x : vec) : S := sumn (fun i => Cs i * (vget x i * vget x i)) n.

Lemma cof_nonneg i j : i < n -> j < n -> ole s0 (cof i j).
Proof.
  intros Hi Hj. unfold cof. destruct (Nat.eqb_spec i j) as [E|E]; [apply (ole_refl Ord)|].
  apply (proj2 (ole_opp Srt Ord _)). replace (sopp (sopp (mget A i j))) with (mget A i j) by ring.
  apply HM; assumption.
Qed.

Lemma cof_sym i j : i < n -> j < n -> cof i j = cof j i.
Proof.
  intros Hi Hj. unfold cof. rewrite (Nat.eqb_sym j i). destruct (Nat.eqb i j); [reflexivity|].
  destruct HM as ((_ & Hs) & _). rewrite (Hs i j Hi Hj). reflexivity.
Qed.

Lemma q_split (x : vec) : qA n A x x = Dq x - Oc x.
Proof.
  destruct HM as ((HcA & _) & _). unfold qA, Ax, Dq, Oc. rewrite HcA.
  replace (sumn (fun i => mget A i i * (vget x i * vget x i)) n -
           sumn (fun i => sumn (fun j => cof i j * (vget x i * vget x j)) n) n)
    with (sumn (fun i => mget A i i * (vget x i * vget x i) +
                         sopp s1 * sumn (fun j => cof i j * (vget x i * vget x j)) n) n)
    by (rewrite (sumn_add Srt), (sumn_scal Srt); ring).
  apply sumn_ext. intros i Hi.
  rewrite (sumn_mul_r Srt), <- (sumn_scal Srt).
  assert (Ed : mget A i i * (vget x i * vget x i) =
               sumn (fun j => if Nat.eqb i j then mget A i i * (vget x i * vget x i) else s0) n).
  { rewrite (sumn_delta Srt). replace (i <? n)%nat with true by (symmetry; apply Nat.ltb_lt; exact Hi).
    reflexivity. }
  rewrite Ed, <- (sumn_add Srt). apply sumn_ext. intros j Hj. unfold cof.
  destruct (Nat.eqb_spec i j) as [->|]; ring.
Qed.

(* sum_ij c_ij (x_i + sg x_j)^2 = 2 W + 2 sg Oc   for sg * sg = 1 *)
Lemma T_id (sg : S) (x : vec) : sg * sg = s1 ->
  sumn (fun i => sumn (fun j => cof i j * ((vget x i + sg * vget x j) * (vget x i + sg * vget x j))) n) n =
  (Wq x + Wq x) + sg * (Oc x + Oc x).
Proof.
  intro Hsg.
  rewrite (sumn_ext _ (fun i => Cs i * (vget x i * vget x i) +
                                sumn (fun j => cof i j * (vget x j * vget x j)) n +
                                sg * (sumn (fun j => cof i j * (vget x i * vget x j)) n +
                                      sumn (fun j => cof i j * (vget x i * vget x j)) n))).
  2:{ intros i Hi.
      rewrite (sumn_ext _ (fun j => cof i j * (vget x i * vget x i) + cof i j * (vget x j * vget x j) +
                                    sg * (cof i j * (vget x i * vget x j) + cof i j * (vget x i * vget x j)))).
      - rewrite !(sumn_add Srt), (sumn_scal Srt), (sumn_add Srt). unfold Cs.
        rewrite (sumn_mul_r Srt). reflexivity.
      - intros j Hj.
        transitivity (cof i j * (vget x i * vget x i) + (sg * sg) * (cof i j * (vget x j * vget x j)) +
                      sg * (cof i j * (vget x i * vget x j) + cof i j * (vget x i * vget x j))); [ring|].
        rewrite Hsg. ring. }
  rewrite !(sumn_add Srt), (sumn_scal Srt), (sumn_add Srt). fold (Oc x).
  f_equal. unfold Wq. f_equal. rewrite (sumn_swap Srt). apply sumn_ext. intros j Hj.
  unfold Cs. rewrite (sumn_mul_r Srt). apply sumn_ext. intros i Hi. rewrite (cof_sym i j Hi Hj). reflexivity.
Qed.

Lemma T_nonneg (sg : S) (x : vec) :
  ole s0 (sumn (fun i => sumn (fun j => cof i j * ((vget x i + sg * vget x j) * (vget x i + sg * vget x j))) n) n).
Proof.
  apply (sumn_nonneg Srt Ord). intros i Hi. apply (sumn_nonneg Srt Ord). intros j Hj.
  apply (mul_nonneg Srt Ord); [apply cof_nonneg; assumption|apply (sq_nonneg Srt Ord)].
Qed.

Lemma Oc_upper (x : vec) : ole (Oc x) (Wq x).
Proof.
  pose proof (T_nonneg (sopp s1) x) as H. rewrite (T_id (sopp s1) x) in H by ring.
  apply (ole_double_cancel Srt Ord). apply (proj2 (ole_0_sub Srt Ord _ _)).
  replace (Wq x + Wq x - (Oc x + Oc x)) with (Wq x + Wq x + sopp s1 * (Oc x + Oc x)) by ring. exact H.
Qed.

Lemma Oc_lower (x : vec) : ole (sopp (Oc x)) (Wq x).
Proof.
  pose proof (T_nonneg s1 x) as H. rewrite (T_id s1 x) in H by ring.
  apply (ole_double_cancel Srt Ord). apply (proj2 (ole_0_sub Srt Ord _ _)).
  replace (Wq x + Wq x - (sopp (Oc x) + sopp (Oc x))) with (Wq x + Wq x + s1 * (Oc x + Oc x)) by ring. exact H.
Qed.

Lemma Wq_le_Dq (x : vec) : ole (Wq x) (Dq x).
Proof.
  unfold Wq, Dq. apply (sumn_ole Srt Ord). intros i Hi.
  apply (ole_mul_nonneg Srt Ord); [apply (sq_nonneg Srt Ord)|]. apply HM, Hi.
Qed.

(* <A x, x> >= 0 *)
Theorem mmat_psd (x : vec) : ole s0 (qA n A x x).
Proof.
  rewrite q_split. apply (proj1 (ole_0_sub Srt Ord _ _)).
  apply (ole_trans Ord _ (Wq x)); [apply Oc_upper|apply Wq_le_Dq].
Qed.

(* <A x, x> <= 2 <D x, x> *)
Theorem mmat_upper (x : vec) : ole (qA n A x x) (Dq x + Dq x).
Proof.
  rewrite q_split. replace (Dq x - Oc x) with (Dq x + sopp (Oc x)) by ring.
  apply (ole_add Srt Ord); [apply (ole_refl Ord)|].
  apply (ole_trans Ord _ (Wq x)); [apply Oc_lower|apply Wq_le_Dq].
Qed.

Lemma Dq_nonneg (x : vec) : ole s0 (Dq x).
Proof.
  unfold Dq. apply (sumn_nonneg Srt Ord). intros i Hi.
  apply (mul_nonneg Srt Ord); [apply (olt_ole Ord), HM, Hi|apply (sq_nonneg Srt Ord)].
Qed.

End MMatrix.

(* a non-zero list of length n has a non-zero entry *)
Lemma nonzero_entry n : forall v : vec, length v = n -> v <> vzero n -> exists i, i < n /\ vget v i <> s0.
Proof.
  induction n as [|n IH]; intros [|a v] Lv Hv; simpl in Lv; try discriminate.
  - exfalso. apply Hv. reflexivity.
  - destruct (seqb a s0) eqn:E.
    + apply Seqb in E. subst a. destruct (IH v ltac:(congruence)) as (i & Hi & Hne).
      * intro Hz. apply Hv. unfold vzero in *. simpl. rewrite Hz. reflexivity.
      * exists (Datatypes.S i). split; [lia|exact Hne].
    + exists 0. split; [lia|]. unfold vget. simpl. intro E'. subst a.
      rewrite (proj2 (Seqb s0 s0) eq_refl) in E. discriminate.
Qed.

(* ------------------------------------------------------------------ *)
(* damped Jacobi *)
Section Jacobi.
Variable A : crs.
Variable w : S.
Variable junk : vec.
Hypothesis WA : wf A = true.
Let n := nrows A.
Hypothesis HM : mmat n A.
Hypothesis Hfd : forall i, i < n -> first_col (nth i (rows A) []) i = Some (mget A i i).
Hypothesis Hw0 : olt s0 w.
Hypothesis Hw1 : ole w s1.

Let sw : sweep := fun rhs x t => jacobi_sweep w (jacobi_setup A junk) A rhs x t.
Let dia := jacobi_setup A junk.

Lemma dia_get i : i < n -> vget dia i = sinv (mget A i i).
Proof.
  intro Hi. unfold dia, jacobi_setup. rewrite (diagonal_spec A true junk i Hi), (Hfd i Hi).
  unfold diag_val. destruct (is_zero (mget A i i)) eqn:Z; [|reflexivity].
  exfalso. apply (is_zero_true Seqb) in Z. destruct HM as (_ & _ & Hp & _). specialize (Hp i Hi).
  rewrite Z in Hp. unfold olt in Hp. rewrite (o_irrefl S Ord) in Hp. discriminate.
Qed.

Lemma dia_pos i : i < n -> olt s0 (vget dia i).
Proof. intro Hi. rewrite (dia_get i Hi). apply sinv_pos, HM, Hi. Qed.

Lemma dia_inv i : i < n -> mget A i i * vget dia i = s1.
Proof.
  intro Hi. rewrite (dia_get i Hi), (Rmul_comm Srt). apply (Finv_l Sft).
  intro E. destruct HM as (_ & _ & Hp & _). specialize (Hp i Hi). rewrite E in Hp.
  unfold olt in Hp. rewrite (o_irrefl S Ord) in Hp. discriminate.
Qed.

Lemma jacobi_dJ (g x : vec) : length g = n -> length x = n ->
  exists p r : vec, length p = n /\ r = res n A g x /\
    (forall i, i < n -> vget p i = w * vget dia i * vget r i) /\
    dJ n A g x (sm n sw g x) = qA n A p p - two * ip n r p.
Proof.
  intros Lg Lx. destruct HM as (SA & _).
  set (r := res n A g x).
  assert (Lr : length r = n) by (apply (res_length n A eq_refl SA); exact Lg).
  assert (Ld : length dia = n) by apply diagonal_length.
  set (p := vmul w dia r s1 (z n)).
  assert (Lp : length p = n) by (unfold p; rewrite vmul_length; rewrite ?Lz, ?Lr, ?Ld; auto).
  assert (Ep : forall i, i < n -> vget p i = w * vget dia i * vget r i).
  { intros i Hi. unfold p. rewrite (vmul_spec Srt Seqb) by (rewrite ?Lz, ?Lr, ?Ld; auto).
    unfold AmgProofs7.z. rewrite vget_vzero. ring. }
  exists p, r. split; [exact Lp|]. split; [reflexivity|]. split; [exact Ep|].
  apply (dJ_update Srt n A WA eq_refl SA g x p (sm n sw g x) Lg Lx Lp).
  intros j Hj. unfold sm, sw, jacobi_sweep. cbn [fst]. fold dia.
  assert (Lres : length (residual g A x (z n)) = n) by (apply residual_length; [exact Lg|apply Lz]).
  rewrite (vmul_spec Srt Seqb) by (rewrite ?Lres, ?Ld, ?Lx; auto).
  rewrite (Ep j Hj). unfold r, res, AmgProofs7.z. ring.
Qed.

(* the two scalar facts: Dq p = w <r,p>  and  <r,p> = sum w dia_i r_i^2 *)
Lemma jacobi_facts (p r : vec) : (forall i, i < n -> vget p i = w * vget dia i * vget r i) ->
  Dq n A p = w * ip n r p /\ ole s0 (ip n r p) /\
  ((exists i, i < n /\ vget r i <> s0) -> olt s0 (ip n r p)).
Proof.
  intro Ep. split; [|split].
  - unfold Dq, AmgProofs6.ip. rewrite <- (sumn_scal Srt). apply sumn_ext. intros i Hi.
    rewrite (Ep i Hi).
    transitivity ((mget A i i * vget dia i) * (w * vget r i * (w * vget dia i * vget r i))); [ring|].
    rewrite (dia_inv i Hi). ring.
  - unfold AmgProofs6.ip. apply (sumn_nonneg Srt Ord). intros i Hi. rewrite (Ep i Hi).
    replace (vget r i * (w * vget dia i * vget r i)) with ((w * vget dia i) * (vget r i * vget r i)) by ring.
    apply (mul_nonneg Srt Ord); [|apply (sq_nonneg Srt Ord)].
    apply (olt_ole Ord), (mul_pos Srt Ord); [exact Hw0|apply dia_pos, Hi].
  - intros (i & Hi & Hne). unfold AmgProofs6.ip.
    apply (sumn_pos Srt Ord _ n i Hi).
    + intros j Hj. rewrite (Ep j Hj).
      replace (vget r j * (w * vget dia j * vget r j)) with ((w * vget dia j) * (vget r j * vget r j)) by ring.
      apply (mul_nonneg Srt Ord); [|apply (sq_nonneg Srt Ord)].
      apply (olt_ole Ord), (mul_pos Srt Ord); [exact Hw0|apply dia_pos, Hj].
    + rewrite (Ep i Hi).
      replace (vget r i * (w * vget dia i * vget r i)) with ((w * vget dia i) * (vget r i * vget r i)) by ring.
      apply (mul_pos Srt Ord); [apply (mul_pos Srt Ord); [exact Hw0|apply dia_pos, Hi]|].
      apply (sq_pos Srt Ord), Hne.
Qed.

(* <A p,p> - 2<r,p> <= 2 (w - 1) <r,p> *)
Lemma jacobi_bound (p r : vec) : (forall i, i < n -> vget p i = w * vget dia i * vget r i) ->
  ole (qA n A p p - two * ip n r p) ((w - s1) * (ip n r p + ip n r p)).
Proof.
  intro Ep. destruct (jacobi_facts p r Ep) as (E & _ & _).
  pose proof (mmat_upper n A HM p) as U. rewrite E in U.
  replace ((w - s1) * (ip n r p + ip n r p)) with ((w * ip n r p + w * ip n r p) - two * ip n r p)
    by (unfold two; ring).
  replace (qA n A p p - two * ip n r p) with (qA n A p p + sopp (two * ip n r p)) by ring.
  replace (w * ip n r p + w * ip n r p - two * ip n r p)
    with (w * ip n r p + w * ip n r p + sopp (two * ip n r p)) by ring.
  apply (ole_add_r Ord). exact U.
Qed.

Theorem jacobi_it_dec : it_dec n A (sm n sw).
Proof.
  intros g x Lg Lx. destruct (jacobi_dJ g x Lg Lx) as (p & r & Lp & Er & Ep & ->).
  destruct (jacobi_facts p r Ep) as (_ & Hnn & _).
  change (ole (qA n A p p - two * ip n r p) s0).
  apply (ole_trans Ord _ _ _ (jacobi_bound p r Ep)).
  (* (w - 1) * (2 <r,p>) <= 0 *)
  apply (proj1 (ole_opp Srt Ord _)) || idtac.
  replace ((w - s1) * (ip n r p + ip n r p)) with (sopp ((s1 - w) * (ip n r p + ip n r p))) by ring.
  apply (proj1 (ole_opp Srt Ord _)).
  apply (mul_nonneg Srt Ord); [apply (proj1 (ole_0_sub Srt Ord _ _)), Hw1|].
  replace (@s0 S) with (@s0 S + s0) by ring. apply (ole_add Srt Ord); assumption.
Qed.

Theorem jacobi_it_sdec : olt w s1 -> it_sdec n A (sm n sw).
Proof.
  intros Hw g x Lg Lx Hr. destruct (jacobi_dJ g x Lg Lx) as (p & r & Lp & Er & Ep & ->).
  destruct HM as (SA & _).
  assert (Hex : exists i, i < n /\ vget r i <> s0).
  { apply nonzero_entry; [rewrite Er; apply (res_length n A eq_refl SA); exact Lg|].
    rewrite Er. exact Hr. }
  destruct (jacobi_facts p r Ep) as (_ & _ & Hpos). specialize (Hpos Hex).
  change (olt (qA n A p p - two * ip n r p) s0).
  apply (ole_olt_trans Ord _ _ _ (jacobi_bound p r Ep)).
  replace ((w - s1) * (ip n r p + ip n r p)) with (sopp ((s1 - w) * (ip n r p + ip n r p))) by ring.
  apply (proj1 (olt_opp Srt Ord _)).
  apply (mul_pos Srt Ord); [apply (proj1 (olt_0_sub Srt Ord _ _)), Hw|].
  replace (@s0 S) with (@s0 S + s0) by ring. apply (olt_ole_add Srt Ord); [exact Hpos|apply (olt_ole Ord), Hpos].
Qed.

End Jacobi.

(* ------------------------------------------------------------------ *)
(* Gauss-Seidel: every row relaxation is a coordinate-descent step *)
Section GSEnergy.
Variable A : crs.
Let n := nrows A.
Hypothesis WA : wf A = true.
Hypothesis SA : sym_mat n A.
Hypothesis DA : gs_diag_ok A.
Hypothesis Hpos : forall i, i < n -> olt s0 (mget A i i).

Lemma dinv_pos i : i < n -> olt s0 (dinv A i).
Proof. intro Hi. unfold dinv. destruct (DA i Hi) as [_ <-]. apply sinv_pos, Hpos, Hi. Qed.

Lemma dinv_inv i : i < n -> mget A i i * dinv A i = s1.
Proof.
  intro Hi. unfold dinv. destruct (DA i Hi) as [Hne E]. rewrite E, (Rmul_comm Srt).
  apply (Finv_l Sft), Hne.
Qed.

(* energy change of one row relaxation: - dinv_i * r_i^2 *)
Lemma rho_dJ i (g x : vec) : i < n -> length g = n -> length x = n ->
  dJ n A g x (rho A i g x) = sopp (dinv A i * (vget (res n A g x) i * vget (res n A g x) i)).
Proof.
  intros Hi Lg Lx.
  set (ri := vget g i - Ax A x i). set (c := dinv A i * ri).
  set (p := set_nth (z n) i c).
  assert (Lp : length p = n) by (unfold p; rewrite set_nth_length; apply Lz).
  assert (Ep : forall j, vget p j = if Nat.eqb j i then c else s0).
  { intro j. unfold p. rewrite (vget_set_nth n A eq_refl) by (rewrite Lz; exact Hi).
    unfold AmgProofs7.z. rewrite vget_vzero. reflexivity. }
  rewrite (dJ_update Srt n A WA eq_refl SA g x p (rho A i g x) Lg Lx Lp).
  2:{ intros j Hj. rewrite (rho_get Sft n A WA eq_refl DA i g x j Hi Lg Lx Hj), Ep. reflexivity. }
  rewrite (res_get Srt n A WA eq_refl SA g x i Lg Hi). fold ri.
  assert (E1 : qA n A p p = mget A i i * c * c).
  { unfold qA. rewrite (sumn_ext _ (fun j => if Nat.eqb i j then mget A i i * c * c else s0)).
    - rewrite (sumn_delta Srt). replace (i <? n)%nat with true by (symmetry; apply Nat.ltb_lt; exact Hi).
      reflexivity.
    - intros j Hj. rewrite Ep, (Nat.eqb_sym j i). destruct (Nat.eqb_spec i j) as [<-|]; [|ring].
      unfold p. rewrite (Ax_unit Sft n A eq_refl SA i c i Hi). ring. }
  assert (E2 : ip n (res n A g x) p = ri * c).
  { unfold AmgProofs6.ip. rewrite (sumn_ext _ (fun j => if Nat.eqb i j then ri * c else s0)).
    - rewrite (sumn_delta Srt). replace (i <? n)%nat with true by (symmetry; apply Nat.ltb_lt; exact Hi).
      reflexivity.
    - intros j Hj. rewrite Ep, (Nat.eqb_sym j i). destruct (Nat.eqb_spec i j) as [<-|]; [|ring].
      rewrite (res_get Srt n A WA eq_refl SA g x i Lg Hi). reflexivity. }
  rewrite E1, E2. unfold c, two.
  transitivity ((mget A i i * dinv A i) * (ri * (dinv A i * ri)) - (s1 + s1) * (ri * (dinv A i * ri))); [ring|].
  rewrite (dinv_inv i Hi). ring.
Qed.

Lemma rho_dec i : i < n -> it_dec n A (rho A i).
Proof.
  intros Hi g x Lg Lx. rewrite (rho_dJ i g x Hi Lg Lx). change (ole (sopp (dinv A i * (vget (res n A g x) i * vget (res n A g x) i))) s0).
  apply (proj1 (ole_opp Srt Ord _)). apply (mul_nonneg Srt Ord); [apply (olt_ole Ord), dinv_pos, Hi|apply (sq_nonneg Srt Ord)].
Qed.

Lemma rho_strict i (g x : vec) : i < n -> length g = n -> length x = n ->
  vget (res n A g x) i <> s0 -> lt0 (dJ n A g x (rho A i g x)).
Proof.
  intros Hi Lg Lx Hne. rewrite (rho_dJ i g x Hi Lg Lx).
  change (olt (sopp (dinv A i * (vget (res n A g x) i * vget (res n A g x) i))) s0).
  apply (proj1 (olt_opp Srt Ord _)). apply (mul_pos Srt Ord); [apply dinv_pos, Hi|apply (sq_pos Srt Ord), Hne].
Qed.

Lemma rho_fix i (g x : vec) : i < n -> length g = n -> length x = n ->
  vget (res n A g x) i = s0 -> rho A i g x = x.
Proof.
  intros Hi Lg Lx Hz. apply vec_ext; [rewrite (rho_len n A i g x Lg Lx); congruence|].
  rewrite (rho_len n A i g x Lg Lx). intros j Hj.
  rewrite (rho_get Sft n A WA eq_refl DA i g x j Hi Lg Lx Hj).
  rewrite <- (res_get Srt n A WA eq_refl SA g x i Lg Hi), Hz. destruct (Nat.eqb j i); ring.
Qed.

Lemma sweep_dec_strict order : Forall (fun i => i < n) order -> forall g x : vec,
  length g = n -> length x = n ->
  le0 (dJ n A g x (sweep_it A order g x)) /\
  (lt0 (dJ n A g x (sweep_it A order g x)) \/ forall i, In i order -> vget (res n A g x) i = s0).
Proof.
  induction 1 as [|i order Hi HF IH]; intros g x Lg Lx.
  - simpl. unfold dJ. replace (J n A g x - J n A g x) with (@s0 S) by ring.
    split; [exact O1|right; intros i []].
  - rewrite sweep_it_cons_eq. unfold comp.
    set (x1 := rho A i g x).
    assert (L1 : length x1 = n) by (apply (rho_len n A i g x Lg Lx)).
    rewrite (dJ_comp Srt n A g x x1).
    destruct (IH g x1 Lg L1) as [IHle IHs].
    destruct (seqb (vget (res n A g x) i) s0) eqn:E.
    + apply Seqb in E. assert (Ex : x1 = x) by (apply rho_fix; assumption).
      unfold x1 in *. rewrite Ex in *. clear Ex.
      replace (dJ n A g x x) with (@s0 S) by (unfold dJ; ring).
      split; [apply O2; [exact IHle|exact O1]|].
      destruct IHs as [Hs|Hz].
      * left. apply O3; [exact Hs|exact O1].
      * right. intros j [<-|Hj]; [exact E|apply Hz, Hj].
    + assert (Hne : vget (res n A g x) i <> s0).
      { intro E'. rewrite E' in E. rewrite (proj2 (Seqb s0 s0) eq_refl) in E. discriminate. }
      pose proof (rho_strict i g x Hi Lg Lx Hne) as Hs. fold x1 in Hs.
      assert (Ht : lt0 (dJ n A g x1 (sweep_it A order g x1) + dJ n A g x x1)).
      { rewrite (Radd_comm Srt). apply O3; assumption. }
      split; [|left; exact Ht]. change (ole (dJ n A g x1 (sweep_it A order g x1) + dJ n A g x x1) s0).
      apply (olt_ole Ord). exact Ht.
Qed.

Theorem gs_it_dec fwd : it_dec n A (sm n (gs_sw A fwd)).
Proof.
  intros g x Lg Lx. unfold sm, gs_sw. cbn [fst]. rewrite (gs_sweep_it n A eq_refl).
  apply (sweep_dec_strict _ (gs_order_lt n A eq_refl fwd) g x Lg Lx).
Qed.

Theorem gs_it_sdec fwd : it_sdec n A (sm n (gs_sw A fwd)).
Proof.
  intros g x Lg Lx Hr. unfold sm, gs_sw. cbn [fst]. rewrite (gs_sweep_it n A eq_refl).
  destruct (sweep_dec_strict _ (gs_order_lt n A eq_refl fwd) g x Lg Lx) as [_ [Hs|Hz]]; [exact Hs|].
  exfalso. apply Hr. apply vec_ext.
  - rewrite (res_length n A eq_refl SA g x Lg). symmetry. apply Lz.
  - rewrite (res_length n A eq_refl SA g x Lg). intros j Hj. unfold AmgProofs7.z. rewrite vget_vzero.
    apply Hz. destruct fwd; [|apply -> in_rev]; apply in_seq; lia.
Qed.

End GSEnergy.

End Smooth.
