(* CuthillMcKeeProofs.v -- the model of reorder::cuthill_mckee<reverse>::get terminates within
   its fuel and returns a permutation of 0..n-1, for EVERY square pattern with n >= 1
   (non-symmetric, disconnected, with duplicates, node 0 never expanded).  (C16 / A4)

   Invariant: the emitted list is duplicate-free and is exactly the set of marked nodes
   (levelSet != 0); every same-degree chain strictly decreases an emission rank, hence a chain
   walk needs at most n steps; every pass of the main loop emits at least one node. *)
From Coq Require Import List Arith ZArith Lia Bool Permutation.
From Amgcl Require Import DirectUtil CuthillMcKee.
Import ListNotations.

Section CMProofs.
Variable reverse : bool.
Variable G : graph.
Hypothesis Gwf : graph_wf G = true.
Local Notation n := (length G).

Lemma row_cols_lt node c : In c (nth node G []) -> c < n.
Proof.
  intro H. destruct (Nat.lt_ge_cases node n) as [Hn|Hn].
  - unfold graph_wf in Gwf. rewrite forallb_forall in Gwf.
    specialize (Gwf (nth node G []) (nth_In _ _ Hn)). rewrite forallb_forall in Gwf.
    apply Nat.ltb_lt. apply Gwf. exact H.
  - rewrite nth_overflow in H by assumption. destruct H.
Qed.

(* ---------- table entries: -1 / 0 / a marked node ---------- *)
Definition entry_ok (o : list nat) (z : Z) : Prop :=
  (z <= 0)%Z \/ exists v, z = Z.of_nat v /\ In v o.
Definition tab_ok (o : list nat) (t : list Z) : Prop := Forall (entry_ok o) t.

Lemma entry_ok_mono o o' z : incl o o' -> entry_ok o z -> entry_ok o' z.
Proof. intros Hi [H|(v & -> & Hv)]; [left; assumption|right; exists v; split; auto]. Qed.
Lemma tab_ok_mono o o' t : incl o o' -> tab_ok o t -> tab_ok o' t.
Proof. intros Hi H. eapply Forall_impl; [|exact H]. intros z. apply entry_ok_mono. exact Hi. Qed.
Lemma tab_nth o t d : tab_ok o t -> entry_ok o (nth d t (-1)%Z).
Proof.
  intro H. destruct (Nat.lt_ge_cases d (length t)) as [Hd|Hd].
  - apply Forall_nth; assumption.
  - rewrite nth_overflow by assumption. left. lia.
Qed.
Lemma Forall_lset {X} (P : X -> Prop) (l : list X) i v : Forall P l -> P v -> Forall P (lset l i v).
Proof.
  intros Hl Hv. revert i. induction Hl as [|a l Ha Hl IH]; intros [|i]; simpl; constructor; auto.
Qed.
Lemma tab_repeat o k : tab_ok o (repeat (-1)%Z k).
Proof. apply Forall_forall. intros z Hz. apply repeat_spec in Hz. subst. left. lia. Qed.
Lemma tab_splice o k a b : tab_ok o a -> tab_ok o b -> tab_ok o (firstn k a ++ skipn k b).
Proof.
  intros Ha Hb. apply Forall_app. split.
  - rewrite <- (firstn_skipn k a) in Ha. apply Forall_app in Ha. apply Ha.
  - rewrite <- (firstn_skipn k b) in Hb. apply Forall_app in Hb. apply Hb.
Qed.

(* ---------- the invariant ---------- *)
Definition Inv (rank : nat -> nat) (lv : list nat) (ns : list Z) (o : list nat) : Prop :=
  length lv = n /\ NoDup o /\ (forall c, In c o -> c < n) /\
  (forall c, c < n -> (In c o <-> nth c lv 0 <> 0)) /\
  (forall c, In c o -> rank c < length o) /\
  (forall c, In c o -> (nth c ns (-1) <= 0)%Z \/
                       exists v, nth c ns (-1)%Z = Z.of_nat v /\ In v o /\ rank v < rank c) /\
  (forall c, ~ In c o -> nth c ns (-1)%Z = (-1)%Z).

Definition SInv (rank : nat -> nat) (s : cm_st) : Prop :=
  Inv rank (lvl s) (nsd s) (out s) /\ tab_ok (out s) (nfwd s).

Definition Ext (rank : nat -> nat) (o : list nat) (rank' : nat -> nat) (o' : list nat) : Prop :=
  incl o o' /\ forall c, In c o -> rank' c = rank c.

Definition Mono (s s' : cm_st) : Prop :=
  (emp s' = emp s /\ out s' = out s /\ lvl s' = lvl s) \/
  (emp s' = false /\ length (out s) < length (out s')).

Definition Good (rank : nat -> nat) (s : cm_st) (rank' : nat -> nat) (s' : cm_st) : Prop :=
  SInv rank' s' /\ Ext rank (out s) rank' (out s') /\ Mono s s'.

Lemma Good_refl rank s : SInv rank s -> Good rank s rank s.
Proof.
  intro H. split; [assumption|]. split.
  - split; [apply incl_refl|reflexivity].
  - left. auto.
Qed.

Lemma Good_trans r s r' s' r'' s'' : Good r s r' s' -> Good r' s' r'' s'' -> Good r s r'' s''.
Proof.
  intros (_ & (Hi1 & Hr1) & Hm1) (HS & (Hi2 & Hr2) & Hm2). split; [assumption|]. split.
  - split; [eapply incl_tran; eassumption|]. intros c Hc. rewrite Hr2 by (apply Hi1; assumption). apply Hr1. assumption.
  - destruct Hm1 as [(E1 & O1 & L1)|(E1 & G1)]; destruct Hm2 as [(E2 & O2 & L2)|(E2 & G2)].
    + left. repeat split; congruence.
    + right. split; [assumption|]. rewrite <- O1. assumption.
    + right. split; [congruence|]. rewrite O2. assumption.
    + right. split; [assumption|]. lia.
Qed.

Lemma Inv_length_le rank lv ns o : Inv rank lv ns o -> length o <= n.
Proof.
  intros (_ & Hnd & Hr & _). rewrite <- (seq_length n 0).
  apply NoDup_incl_length; [assumption|]. intros c Hc. apply in_seq. specialize (Hr c Hc). lia.
Qed.

(* marking a fresh node i and emitting it *)
Lemma Inv_add rank lv ns ns' o i lvv :
  Inv rank lv ns o -> i < n -> nth i lv 0 = 0 -> lvv <> 0 ->
  (forall x, x <> i -> nth x ns' (-1)%Z = nth x ns (-1)%Z) -> entry_ok o (nth i ns' (-1)%Z) ->
  Inv (fun x => if Nat.eqb x i then length o else rank x) (lset lv i lvv) ns' (i :: o) /\
  Ext rank o (fun x => if Nat.eqb x i then length o else rank x) (i :: o).
Proof.
  intros (HL & Hnd & Hr & Hiff & Hrk & Hch & Hun) Hi Hz Hlvv Hns Hent.
  assert (Hnin : ~ In i o). { intro Hin. apply (proj1 (Hiff i Hi)) in Hin. congruence. }
  assert (Hrk' : forall x, In x o -> (if Nat.eqb x i then length o else rank x) = rank x).
  { intros x Hx. destruct (Nat.eqb_spec x i) as [->|]; [contradiction|reflexivity]. }
  split.
  2: { split; [apply incl_tl, incl_refl|exact Hrk']. }
  split; [rewrite lset_length; assumption|].
  split; [constructor; assumption|].
  split; [intros x [<-|Hx]; auto|].
  split.
  { intros c Hc. rewrite lset_nth. destruct (Nat.eqb_spec i c) as [->|Hne].
    - rewrite HL. apply Nat.ltb_lt in Hc. rewrite Hc. split; [intros _; assumption|intros _; left; reflexivity].
    - split.
      + intros [Hx|Hx]; [congruence|]. apply Hiff; assumption.
      + intro Hx. right. apply Hiff; assumption. }
  split.
  { intros x [<-|Hx]; simpl.
    - rewrite Nat.eqb_refl. lia.
    - rewrite Hrk' by assumption. specialize (Hrk x Hx). lia. }
  split.
  { intros x [<-|Hx].
    - rewrite Nat.eqb_refl. destruct Hent as [Hle|(v & Ev & Hv)]; [left; assumption|].
      right. exists v. repeat split; [assumption|right; assumption|].
      rewrite Hrk' by assumption. apply Hrk. assumption.
    - assert (x <> i) by congruence. rewrite Hns by assumption.
      destruct (Hch x Hx) as [Hle|(v & Ev & Hv & Hlt)]; [left; assumption|].
      right. exists v. repeat split; [assumption|right; assumption|].
      rewrite !Hrk' by assumption. assumption. }
  intros x Hx. assert (x <> i) by (intro; subst; apply Hx; left; reflexivity).
  rewrite Hns by assumption. apply Hun. intro. apply Hx. right. assumption.
Qed.

(* ---------- one neighbour ---------- *)
Lemma visit_col_good cur rank s c : c < n -> SInv rank s ->
  exists rank', Good rank s rank' (visit_col G cur s c).
Proof.
  intros Hc HS. unfold visit_col. destruct (Nat.eqb_spec (nth c (lvl s) 0) 0) as [Hz|Hnz].
  2: { exists rank. apply Good_refl. assumption. }
  destruct HS as (HI & Htab).
  exists (fun x => if Nat.eqb x c then length (out s) else rank x).
  destruct (Inv_add rank (lvl s) (nsd s) (lset (nsd s) c (nth (degree G c) (nfwd s) (-1)%Z)) (out s) c (S cur)
              HI Hc Hz) as (HI' & HE).
  - discriminate.
  - intros x Hx. apply lset_nth_neq. congruence.
  - rewrite lset_nth, Nat.eqb_refl. destruct (Nat.ltb c (length (nsd s))); [|left; lia].
    apply tab_nth. assumption.
  - split; [|split].
    + split; simpl; [exact HI'|]. apply Forall_lset.
      * apply (tab_ok_mono (out s)); [apply incl_tl, incl_refl|assumption].
      * right. exists c. split; [reflexivity|left; reflexivity].
    + exact HE.
    + right. simpl. split; [reflexivity|lia].
Qed.

Lemma visit_cols_good cur cols : (forall c, In c cols -> c < n) ->
  forall rank s, SInv rank s -> exists rank', Good rank s rank' (fold_left (visit_col G cur) cols s).
Proof.
  induction cols as [|c cols IH]; intros Hc rank s HS; simpl.
  - exists rank. apply Good_refl. assumption.
  - destruct (visit_col_good cur rank s c (Hc c (or_introl eq_refl)) HS) as (r1 & H1).
    destruct (IH (fun x Hx => Hc x (or_intror Hx)) r1 _ (proj1 H1)) as (r2 & H2).
    exists r2. eapply Good_trans; eassumption.
Qed.

Lemma visit_node_good cur node rank s : SInv rank s ->
  exists rank', Good rank s rank' (visit_node G cur node s).
Proof. apply visit_cols_good. intros c Hc. eapply row_cols_lt. eassumption. Qed.

(* ---------- a chain walk never runs out of fuel ---------- *)
Lemma walk_good cur : forall fuel rank s z, SInv rank s ->
  ((z <= 0)%Z \/ exists v, z = Z.of_nat v /\ In v (out s) /\ rank v < fuel) ->
  exists s' rank', walk G fuel cur z s = Some s' /\ Good rank s rank' s'.
Proof.
  induction fuel as [|f IH]; intros rank s z HS Hz; simpl.
  - destruct Hz as [Hz|(v & _ & _ & Hlt)]; [|lia].
    replace (z >? 0)%Z with false by (symmetry; rewrite Z.gtb_ltb; apply Z.ltb_ge; assumption).
    exists s, rank. split; [reflexivity|apply Good_refl; assumption].
  - destruct (z >? 0)%Z eqn:Hgt.
    2: { exists s, rank. split; [reflexivity|apply Good_refl; assumption]. }
    destruct Hz as [Hz|(v & -> & Hv & Hlt)].
    { rewrite Z.gtb_ltb in Hgt. apply Z.ltb_lt in Hgt. lia. }
    rewrite Nat2Z.id.
    destruct (visit_node_good cur v rank s HS) as (r1 & H1).
    set (s1 := visit_node G cur v s) in *.
    destruct H1 as (HS1 & (Hi1 & Hr1) & Hm1).
    assert (Hv1 : In v (out s1)) by (apply Hi1; assumption).
    destruct HS1 as (HI1 & Ht1). pose proof HI1 as (_ & _ & _ & _ & _ & Hch & _).
    destruct (IH r1 s1 (nth v (nsd s1) (-1)%Z) (conj HI1 Ht1)) as (s' & r' & Hw & HG).
    { destruct (Hch v Hv1) as [Hle|(u & Eu & Hu & Hlt')]; [left; assumption|].
      right. exists u. repeat split; try assumption. rewrite (Hr1 v Hv) in Hlt'. lia. }
    exists s', r'. split; [assumption|].
    eapply Good_trans; [|eassumption]. exact (conj (conj HI1 Ht1) (conj (conj Hi1 Hr1) Hm1)).
Qed.

(* ---------- one level sweep ---------- *)
Lemma sweep_fold_good cur fwd ds : forall rank s, SInv rank s -> tab_ok (out s) fwd ->
  exists s' rank',
    fold_left (fun os d => match os with
                           | None => None
                           | Some s => walk G (S (cm_n G)) cur (nth d fwd (-1)%Z) s
                           end) ds (Some s) = Some s' /\ Good rank s rank' s'.
Proof.
  induction ds as [|d ds IH]; intros rank s HS Hf; cbn [fold_left].
  - exists s, rank. split; [reflexivity|apply Good_refl; assumption].
  - destruct (walk_good cur (S (cm_n G)) rank s (nth d fwd (-1)%Z) HS) as (s1 & r1 & Hw & HG).
    { destruct (tab_nth _ _ d Hf) as [Hle|(v & Ev & Hv)]; [left; assumption|].
      right. exists v. repeat split; try assumption.
      destruct HS as (HI & _). pose proof (Inv_length_le _ _ _ _ HI).
      destruct HI as (_ & _ & _ & _ & Hrk & _). specialize (Hrk v Hv). unfold cm_n. lia. }
    rewrite Hw.
    destruct (IH r1 s1 (proj1 HG)) as (s' & r' & Hf' & HG').
    { eapply tab_ok_mono; [|exact Hf]. apply HG. }
    exists s', r'. split; [assumption|]. eapply Good_trans; eassumption.
Qed.

Lemma sweep_good cur maxd fwd rank s : SInv rank s -> tab_ok (out s) fwd ->
  exists s' rank', sweep reverse G cur maxd fwd s = Some s' /\ Good rank s rank' s'.
Proof. apply sweep_fold_good. Qed.

(* ---------- the fallback search ---------- *)
Lemma find_unmarked_none l : forall i, find_unmarked l i = None -> forall k, k < length l -> nth k l 0 <> 0.
Proof.
  induction l as [|x l IH]; intros i H k Hk; simpl in *; [lia|].
  destruct (Nat.eqb_spec x 0); [discriminate|].
  destruct k as [|k]; [assumption|]. apply (IH (S i)); [assumption|lia].
Qed.
Lemma find_unmarked_some l : forall i j, find_unmarked l i = Some j ->
  i <= j /\ j - i < length l /\ nth (j - i) l 0 = 0.
Proof.
  induction l as [|x l IH]; intros i j H; simpl in *; [discriminate|].
  destruct (Nat.eqb_spec x 0) as [->|Hx].
  - inversion H; subst. rewrite Nat.sub_diag. repeat split; lia.
  - destruct (IH (S i) j H) as (H1 & H2 & H3). replace (j - i) with (S (j - S i)) by lia.
    split; [lia|]. split; [simpl; lia|]. simpl. exact H3.
Qed.

Lemma perm_of_inv rank lv ns o : Inv rank lv ns o -> n <= length o -> Permutation (rev o) (seq 0 n).
Proof.
  intros (_ & Hnd & Hr & _) Hlen.
  eapply Permutation_trans; [apply Permutation_sym, Permutation_rev|].
  apply NoDup_Permutation_bis; [assumption|rewrite seq_length; assumption|].
  intros c Hc. apply in_seq. specialize (Hr c Hc). lia.
Qed.

(* ---------- the main loop ---------- *)
Lemma main_ok : forall fuel cur maxd fwd lv ns o rank,
  Inv rank lv ns o -> tab_ok o fwd -> n - length o <= fuel ->
  exists p, cm_main reverse G fuel cur maxd fwd lv ns o = CmOk p /\ Permutation p (seq 0 n).
Proof.
  induction fuel as [|f IH]; intros cur maxd fwd lv ns o rank HI Hf Hfuel;
    unfold cm_main; fold (cm_main reverse G); unfold cm_n.
  - replace (Nat.leb n (length o)) with true by (symmetry; apply Nat.leb_le; lia).
    exists (rev o). split; [reflexivity|]. eapply perm_of_inv; [eassumption|lia].
  - destruct (Nat.leb_spec n (length o)) as [Hle|Hlt].
    { exists (rev o). split; [reflexivity|]. eapply perm_of_inv; eassumption. }
    set (s0 := mkCmSt lv ns (repeat (-1)%Z (S (max_degree G))) o 0 true).
    assert (HS0 : SInv rank s0) by (split; [exact HI|apply tab_repeat]).
    destruct (sweep_good cur maxd fwd rank s0 HS0 Hf) as (s & r' & Hsw & (HS & (Hinc & Hrk) & Hm)).
    rewrite Hsw. destruct HS as (HIs & Hts).
    assert (Hfwd' : tab_ok (out s) (firstn (S (nmd s)) (nfwd s) ++ skipn (S (nmd s)) fwd)).
    { apply tab_splice; [assumption|]. eapply tab_ok_mono; [|exact Hf]. exact Hinc. }
    destruct (emp s) eqn:Hemp.
    + destruct Hm as [(_ & Ho & Hl)|(Hc & _)]; [|congruence]. simpl in Ho, Hl.
      destruct (find_unmarked (lvl s) 0) as [i|] eqn:Hfu.
      * apply find_unmarked_some in Hfu. destruct Hfu as (_ & Hi & Hz). rewrite Nat.sub_0_r in Hi, Hz.
        pose proof HIs as (HL & _ & _ & Hiff & _ & _ & Hun).
        rewrite HL in Hi.
        assert (Hnin : ~ In i (out s)). { intro Hin. apply (proj1 (Hiff i Hi)) in Hin. congruence. }
        destruct (Inv_add r' (lvl s) (nsd s) (nsd s) (out s) i (S cur) HIs Hi Hz) as (HI' & HE).
        -- discriminate.
        -- reflexivity.
        -- left. rewrite Hun by assumption. lia.
        -- apply (IH _ _ _ _ _ _ (fun x => if Nat.eqb x i then length (out s) else r' x)).
           ++ exact HI'.
           ++ apply Forall_lset.
              ** eapply tab_ok_mono; [|exact Hfwd']. apply incl_tl, incl_refl.
              ** right. exists i. split; [reflexivity|left; reflexivity].
           ++ simpl. rewrite Ho. lia.
      * exfalso. pose proof HIs as (HL & Hnd & Hr & Hiff & _).
        assert (Hall : incl (seq 0 n) (out s)).
        { intros c Hc. apply in_seq in Hc. apply Hiff; [lia|].
          apply (find_unmarked_none _ 0 Hfu). rewrite HL. lia. }
        apply NoDup_incl_length in Hall; [|apply seq_NoDup]. rewrite seq_length in Hall.
        rewrite Ho in Hall. lia.
    + destruct Hm as [(Hc & _)|(_ & Hgrow)]; [simpl in Hc; congruence|]. simpl in Hgrow.
      apply (IH _ _ _ _ _ _ r'); [assumption|assumption|lia].
Qed.

(* ---------- the theorem ---------- *)
Theorem cuthill_mckee_permutation : n <> 0 ->
  exists p, cuthill_mckee reverse G = CmOk p /\ Permutation p (seq 0 n).
Proof.
  intro Hn. unfold cuthill_mckee, cm_n.
  destruct (Nat.eqb_spec n 0) as [|_]; [contradiction|].
  apply (main_ok _ _ _ _ _ _ _ (fun _ => 0)).
  - repeat split.
    + rewrite lset_length, repeat_length. reflexivity.
    + constructor; [intros []|constructor].
    + intros c [<-|[]]. lia.
    + intros [<-|[]]. rewrite lset_nth. simpl. rewrite repeat_length.
      destruct (Nat.ltb_spec 0 n); [discriminate|lia].
    + rewrite lset_nth. destruct (Nat.eqb_spec 0 c) as [->|Hne]; [left; reflexivity|].
      rewrite nth_repeat. congruence.
    + intros c [<-|[]]. simpl. lia.
    + intros c [<-|[]]. left. rewrite nth_repeat. lia.
    + intros c _. apply nth_repeat.
  - apply Forall_lset; [apply tab_repeat|]. left. lia.
  - simpl. lia.
Qed.

End CMProofs.
