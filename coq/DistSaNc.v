(* DistSaNc.v -- C12 for NON-COMMUTATIVE value types (static_matrix blocks under MPI): the distributed smoothed
   aggregation of DistSa.v (rank-by-rank filtered matrix with exchanged ghost diagonals, P = dist_product Af P_tent)
   assembles, for EVERY contiguous partition, to
        P = (I - omega Df^-1 A_f) P_tent          sa_formula: entry (i,k) of the left factor is
                                                  delta_ik - (omega * sinv (D_i)) * (A_f)_ik, times (P_tent)_kj on the right
   WITHOUT commutativity of the value product (NcRing.ncring_theory), i.e. with the operands in the order of
   amgcl/mpi/coarsening/smoothed_aggregation.hpp:164-178 (dia_f = -omega * inverse(dia_f); dia_f * A.val[j]; the entry of
   the filtered matrix on the LEFT of the entry of P_tent in mpi::product).  Only ADDITION is commuted (local weak entries,
   then remote weak entries; marker accumulation of the product).  Where DistSaProofs.v divides (field, D_i <> 0) the
   hypothesis here is the one-sided law actually used: sinv D_i * D_i = 1 (LEFT inverse of the filtered diagonal of row i;
   for blocks it holds whenever math::inverse succeeds on D_i and on its result, NcRingBlockInv.BlockS_inv_two_sided).
   Converse: the model with the operands swapped (A.val[j] * dia_f in the local loop 166-172 and/or the remote loop 174-178)
   is the same function in every commutative ring and assembles to a DIFFERENT matrix at 2 x 2 blocks (closed witnesses,
   ranks [2;0;1]). *)
From Coq Require Import ZifyBool.
From Amgcl Require Import Scalar QcInst Vec Crs Kernels KernelsProofs MatOps MatOpsProofs Aggregates Coarsen CoarsenProofs
  Dist DistProofs Pmis PmisProofs PmisPartition PmisOracle DistSa DistSaPtent DistSaProofs DistSaNcConn NcRing NcKernels BlockMatOpsProofs DistBlockP
  BlockInst NcRingBlock NcRingBlockInv.
Local Open Scope S_scope.

(* ------------------------------------------------------------------ the filtered diagonal: only addition is commuted *)
Section NcRow.
Context {S : Scalar}.
Hypothesis Hnc : ncring_theory S.
Local Instance ncsa : NcRingInst S := ncring_inst Hnc.

Lemma nc_csum_acc q (l : row S) : forall a, csum q l a = a + csum q l s0.
Proof.
  induction l as [|e l IH]; intro a; unfold csum in *; simpl; [ncr|].
  rewrite IH. rewrite (IH (if q e then s0 + snd e else s0)). destruct (q e); ncr.
Qed.

Lemma nc_csum_split q (inr : nat * S -> bool) (l : row S) : forall a,
  csum q l a = csum q (filter (fun e => negb (inr e)) l) (csum q (filter inr l) a).
Proof.
  induction l as [|e l IH]; intro a; [reflexivity|].
  cbn [filter]. destruct (inr e) eqn:Ei; cbn [negb].
  - unfold csum at 1 3. cbn [fold_left]. fold (csum q l (if q e then a + snd e else a)).
    fold (csum q (filter inr l) (if q e then a + snd e else a)). apply IH.
  - unfold csum at 1 2. cbn [fold_left].
    fold (csum q l (if q e then a + snd e else a)).
    fold (csum q (filter (fun e0 => negb (inr e0)) l) (if q e then csum q (filter inr l) a + snd e else csum q (filter inr l) a)).
    rewrite IH. rewrite (nc_csum_acc q (filter (fun e0 => negb (inr e0)) l) (csum q (filter inr l) (if q e then a + snd e else a))).
    rewrite (nc_csum_acc q (filter (fun e0 => negb (inr e0)) l) (if q e then csum q (filter inr l) a + snd e else csum q (filter inr l) a)).
    rewrite (nc_csum_acc q (filter inr l) (if q e then a + snd e else a)).
    rewrite (nc_csum_acc q (filter inr l) a).
    destruct (q e); ncr.
Qed.

Variables b p i k : nat.
Hypothesis Hi : i = (b + k)%nat.
Hypothesis Hk : (k < p)%nat.
Variables sl sr sg : nat * S -> bool.

Lemma nc_dia_part (rw : row S) :
  (forall e, In e rw -> in_range b p (fst e) = true -> sl (shift b e) = sg e) ->
  (forall e, In e rw -> in_range b p (fst e) = false -> sr e = sg e) ->
  sa_dia_f k (flag_row sl (loc_row b p rw)) (flag_row sr (rem_row b p rw))
  = fold_left (fun dd (e : nat * S * bool) => if Nat.eqb (fst (fst e)) i || negb (snd e) then dd + snd (fst e) else dd)
              (flag_row sg rw) s0.
Proof.
  intros Hl Hr. unfold sa_dia_f.
  rewrite (fold_flag_row (fun e f => Nat.eqb (fst e) i || negb f) sg rw).
  rewrite (fold_flag_row (fun e f => Nat.eqb (fst e) k || negb f) sl (loc_row b p rw)).
  rewrite (fold_flag_row (fun e f => negb f) sr (rem_row b p rw)).
  rewrite (nc_csum_split (fun e => Nat.eqb (fst e) i || negb (sg e)) (fun e => in_range b p (fst e)) rw s0).
  unfold rem_row.
  rewrite (csum_ext_in (fun e => negb (sr e)) (fun e => Nat.eqb (fst e) i || negb (sg e))).
  2:{ intros e He. apply filter_In in He as [He Er]. apply negb_true_iff in Er.
      rewrite (eqb_out b p i k Hi Hk _ Er). rewrite (Hr e He Er). reflexivity. }
  f_equal. unfold loc_row.
  rewrite (csum_map _ (fun e => ((fst e - b)%nat, snd e))) by reflexivity.
  apply csum_ext_in. intros e He. apply filter_In in He as [He Er]. cbn [fst snd].
  rewrite (eqb_shift b p i k Hi Hk _ Er). change (((fst e - b)%nat, snd e)) with (shift b e). rewrite (Hl e He Er). reflexivity.
Qed.
End NcRow.

(* ------------------------------------------------------------------ the world: filtered matrix of every rank *)
Section NcWorld.
Context {S : Scalar}.
Hypothesis Hnc : ncring_theory S.
Variable A : crs S.
Variable parts : list nat.
Hypothesis Hrows : psum parts = nrows A.
Hypothesis Hsq : ncols A = nrows A.
Hypothesis Hwf : wf A = true.
Variables junk eps2 omega : S.
Local Notation n := (length parts).
Local Notation D := (split A parts parts).
Local Notation sg := (strong_entry junk A eps2).
Local Notation pats := (dm_pattern D).
Local Notation Ds := (dist_dia junk D).

Lemma nc_rank_filtered_split r : (r < n)%nat ->
  rank_sa_filtered eps2 omega (split_rank A parts parts r) (nth r Ds []) (exchange pats Ds r) (cp_rc (nth r pats dflt_cpat))
  = split_rank (sa_glob_filtered omega A sg) parts parts r.
Proof.
  intro Hr.
  set (b := pbeg parts r). set (p := psize parts r).
  set (Dl := nth r Ds []). set (Dgh := exchange pats Ds r). set (rc := cp_rc (nth r pats dflt_cpat)).
  set (M := split_rank A parts parts r).
  assert (Hbp : (b + p <= nrows A)%nat) by (rewrite <- Hrows; apply pbeg_le_psum).
  assert (HlenL : length (rows (rm_loc M)) = p) by (apply (local_rows_len A parts Hrows Hsq Hwf); exact Hr).
  assert (HlenR : length (rows (rm_rem M)) = p).
  { unfold M, split_rank, split_rows. cbn [rm_rem rows]. rewrite map_length.
    apply (chunk_len A parts Hrows Hsq Hwf); [exact Hr | exact Hrows]. }
  assert (HlenF : length (nth r (chunks parts (rows (sa_glob_filtered omega A sg))) []) = p).
  { apply (chunk_len A parts Hrows Hsq Hwf); [exact Hr|]. unfold sa_glob_filtered. cbn [rows].
    rewrite map_length, indexed_length. exact Hrows. }
  assert (Hrow : forall k, (k < p)%nat ->
     nth k (rank_sa_rows eps2 omega M Dl Dgh rc) ([], [])
     = (loc_row b p (nth k (nth r (chunks parts (rows (sa_glob_filtered omega A sg))) []) []),
        rem_row b p (nth k (nth r (chunks parts (rows (sa_glob_filtered omega A sg))) []) []))).
  { intros k Hk. unfold rank_sa_rows.
    set (F := fun irr : nat * (row S * row S) =>
         (sa_loc_row omega (sa_scale_f omega (sa_dia_f (fst irr) (flag_row (loc_strong eps2 Dl (fst irr)) (fst (snd irr)))
                                                      (flag_row (rem_strong eps2 Dl Dgh rc (fst irr)) (snd (snd irr)))))
                     (fst irr) (flag_row (loc_strong eps2 Dl (fst irr)) (fst (snd irr))),
          sa_rem_row (sa_scale_f omega (sa_dia_f (fst irr) (flag_row (loc_strong eps2 Dl (fst irr)) (fst (snd irr)))
                                                      (flag_row (rem_strong eps2 Dl Dgh rc (fst irr)) (snd (snd irr)))))
                     (flag_row (rem_strong eps2 Dl Dgh rc (fst irr)) (snd (snd irr))))).
    change (nth k (map F (indexed (combine (rows (rm_loc M)) (rows (rm_rem M))))) ([], [])
            = (loc_row b p (nth k (nth r (chunks parts (rows (sa_glob_filtered omega A sg))) []) []),
               rem_row b p (nth k (nth r (chunks parts (rows (sa_glob_filtered omega A sg))) []) []))).
    assert (Hlc : length (combine (rows (rm_loc M)) (rows (rm_rem M))) = p) by (rewrite combine_length, HlenL, HlenR; apply Nat.min_id).
    rewrite (nth_indep _ ([], []) (F (0%nat, ([], [])))) by (rewrite map_length, indexed_length, Hlc; exact Hk).
    rewrite (map_nth F). rewrite nth_indexed by (rewrite Hlc; exact Hk).
    pose proof (local_row_nth A parts Hrows Hsq Hwf r k Hr Hk) as E1.
    pose proof (remote_row_nth A parts Hrows Hsq Hwf r k Hr Hk) as E2.
    pose proof (nth_sa_glob_filtered S omega A sg (b + k)%nat ltac:(lia)) as Hf.
    unfold Crs.row in *. rewrite combine_nth by (rewrite HlenL, HlenR; reflexivity).
    unfold M. rewrite E1, E2. clear E1 E2. fold b p.
    rewrite (chunk_nth parts _ r k [] Hr Hk). fold b. rewrite Hf; clear Hf.
    set (rw := @nth (list (nat * S)) (b + k) (rows A) []).
    assert (Hl : forall e, In e rw -> in_range b p (fst e) = true -> loc_strong eps2 Dl k (shift b e) = sg (b + k)%nat e).
    { intros e _ Er. apply (loc_strong_global A parts Hrows Hsq Hwf); assumption. }
    assert (Hrm : forall e, In e rw -> in_range b p (fst e) = false -> rem_strong eps2 Dl Dgh rc k e = sg (b + k)%nat e).
    { intros e He Er. apply (rem_strong_global A parts Hrows Hsq Hwf); assumption. }
    unfold F. cbn [fst snd].
        rewrite (nc_dia_part Hnc b p (b + k) k eq_refl Hk _ _ (sg (b + k)%nat) rw Hl Hrm).
    unfold sa_loc_row, sa_rem_row, sa_glob_row.
    rewrite (flat_map_flag_row (fun e f => if Nat.eqb (fst e) k then [(fst e, (s1 - omega) * s1)] else if f then [(fst e, _ * snd e)] else [])).
    rewrite (flat_map_flag_row (fun e (f : bool) => if f then [(fst e, _ * snd e)] else [])).
    rewrite (flat_map_flag_row (fun e (f : bool) => if Nat.eqb (fst e) (b + k) then [(fst e, (s1 - omega) * s1)] else if f then [(fst e, _ * snd e)] else [])).
    f_equal.
    - apply (loc_part b p (b + k) k eq_refl); [exact Hk | exact Hl].
    - apply (rem_part b p (b + k) k eq_refl); solve [exact Hk | exact Hrm]. }
  unfold rank_sa_filtered. fold M. unfold split_rank at 1. unfold split_rows. fold b p.
  assert (HlenW : length (rank_sa_rows eps2 omega M Dl Dgh rc) = p).
  { unfold rank_sa_rows. rewrite map_length, indexed_length, combine_length. lia. }
  assert (HW : rank_sa_rows eps2 omega M Dl Dgh rc
               = map (fun rwF : row S => (loc_row b p rwF, rem_row b p rwF))
                     (nth r (chunks parts (rows (sa_glob_filtered omega A sg))) [])).
  { apply (nth_ext _ _ ([], []) ((fun rwF : row S => (loc_row b p rwF, rem_row b p rwF)) [])); [transitivity p; [exact HlenW | symmetry; rewrite map_length; exact HlenF]|].
    intros k Hk. assert (Hk' : (k < p)%nat) by (rewrite <- HlenW; exact Hk).
    rewrite (map_nth (fun rwF : row S => (loc_row b p rwF, rem_row b p rwF))). apply Hrow. exact Hk'. }
  rewrite HW, !map_map. reflexivity.
Qed.

(* the distributed filtered matrix is the split of the filtered matrix of the assembled matrix, for every partition,
   without commutativity of the product *)
Theorem nc_dist_sa_filtered_split :
  dist_sa_filtered junk eps2 omega D = split (sa_glob_filtered omega A sg) parts parts.
Proof.
  unfold dist_sa_filtered. change (dm_cparts D) with parts.
  transitivity (mkDmat parts (map (split_rank (sa_glob_filtered omega A sg) parts parts) (seq 0 n))); [|reflexivity].
  f_equal. apply map_ext_in. intros r Hr. apply in_seq in Hr.
  rewrite nth_rank by lia. apply nc_rank_filtered_split. lia.
Qed.
End NcWorld.

(* ------------------------------------------------------------------ dense entries of the filtered matrix *)
Section NcFormula.
Context {S : Scalar}.
Hypothesis Hnc : ncring_theory S.
Local Instance ncsf : NcRingInst S := ncring_inst Hnc.
Local Notation rget_cons := (nc_rget_cons Hnc).
Local Notation rget_app := (nc_rget_app Hnc).

(* the kept entries of a row with their coefficients (the body of sa_glob_row for a given scaled diagonal d) *)
Definition glob_coef (omega d : S) (i : nat) (e : nat * S * bool) : row S :=
  if Nat.eqb (fst (fst e)) i then [(fst (fst e), (s1 - omega) * s1)]
  else if (snd e : bool) then [(fst (fst e), d * snd (fst e))] else [].

Lemma sa_glob_row_coef (omega : S) i z :
  sa_glob_row omega i z = flat_map (glob_coef omega (sa_scale_f omega (sa_dia i z)) i) z.
Proof. reflexivity. Qed.

Lemma nc_fold_acc_AF (k : nat) (zr : list (nat * S * bool)) : forall a,
  fold_left (fun a e => if Nat.eqb (fst (fst e)) k && snd e then a + snd (fst e) else a) zr a
  = a + fold_left (fun a e => if Nat.eqb (fst (fst e)) k && snd e then a + snd (fst e) else a) zr s0.
Proof.
  induction zr as [|e zr IH]; intro a; simpl; [ncr|].
  rewrite IH. rewrite (IH (if Nat.eqb (fst (fst e)) k && snd e then s0 + snd (fst e) else s0)).
  destruct (Nat.eqb (fst (fst e)) k && snd e); ncr.
Qed.

(* off-diagonal coefficient: d * (sum of the strong entries in column k), d on the LEFT *)
Lemma nc_glob_coef_off (omega d : S) i k zr : k <> i ->
  rget (flat_map (glob_coef omega d i) zr) k
  = d * fold_left (fun a e => if Nat.eqb (fst (fst e)) k && snd e then a + snd (fst e) else a) zr s0.
Proof.
  intro Hk. induction zr as [|e zr IH]; cbn [flat_map fold_left].
  - rewrite nc_rget_nil. ncr.
  - rewrite nc_fold_acc_AF. rewrite rget_app, IH. unfold glob_coef.
    destruct (Nat.eqb_spec (fst (fst e)) i) as [Ei|Ei].
    + rewrite rget_cons, nc_rget_nil. cbn [fst snd].
      replace (Nat.eqb (fst (fst e)) k) with false by (symmetry; apply Nat.eqb_neq; congruence).
      cbn [andb]. ncr.
    + destruct (snd e) eqn:Es.
      * rewrite rget_cons, nc_rget_nil. cbn [fst snd]. rewrite andb_true_r.
        destruct (Nat.eqb (fst (fst e)) k); ncr.
      * rewrite nc_rget_nil, andb_false_r. ncr.
Qed.

Lemma nc_glob_coef_diag0 (omega d : S) i zr :
  length (filter (fun e : nat * S * bool => Nat.eqb (fst (fst e)) i) zr) = 0%nat ->
  rget (flat_map (glob_coef omega d i) zr) i = s0.
Proof.
  induction zr as [|e zr IH]; cbn [flat_map filter]; intro H; [apply nc_rget_nil|].
  rewrite rget_app. unfold glob_coef at 1.
  destruct (Nat.eqb_spec (fst (fst e)) i) as [Ei|Ei]; [discriminate H|].
  rewrite IH by exact H.
  destruct (snd e).
  - rewrite rget_cons, nc_rget_nil. cbn [fst snd].
    replace (Nat.eqb (fst (fst e)) i) with false by (symmetry; apply Nat.eqb_neq; exact Ei). ncr.
  - rewrite nc_rget_nil. ncr.
Qed.

(* diagonal coefficient: (1 - omega) once per stored diagonal entry *)
Lemma nc_glob_coef_diag (omega d : S) i zr :
  length (filter (fun e : nat * S * bool => Nat.eqb (fst (fst e)) i) zr) = 1%nat ->
  rget (flat_map (glob_coef omega d i) zr) i = s1 - omega.
Proof.
  induction zr as [|e zr IH]; cbn [flat_map filter]; intro H; [discriminate H|].
  rewrite rget_app. unfold glob_coef at 1.
  destruct (Nat.eqb_spec (fst (fst e)) i) as [Ei|Ei].
  - cbn [length] in H. injection H as H. rewrite nc_glob_coef_diag0 by exact H.
    rewrite rget_cons, nc_rget_nil. cbn [fst snd]. rewrite Ei, Nat.eqb_refl. ncr.
  - rewrite IH by exact H. destruct (snd e).
    + rewrite rget_cons, nc_rget_nil. cbn [fst snd].
      replace (Nat.eqb (fst (fst e)) i) with false by (symmetry; apply Nat.eqb_neq; exact Ei). ncr.
    + rewrite nc_rget_nil. ncr.
Qed.

Lemma glob_coef_row_wf (omega d : S) i m zr :
  (forall e, In e zr -> (fst (fst e) < m)%nat) -> row_wf m (flat_map (glob_coef omega d i) zr) = true.
Proof.
  induction zr as [|e zr IH]; intro H; cbn [flat_map]; [reflexivity|].
  unfold row_wf in *. rewrite forallb_app. rewrite IH by (intros; apply H; right; assumption).
  rewrite andb_true_r. unfold glob_coef.
  assert (Hc : Nat.ltb (fst (fst e)) m = true) by (apply Nat.ltb_lt; apply H; left; reflexivity).
  destruct (Nat.eqb (fst (fst e)) i); [|destruct (snd e)]; cbn [forallb fst]; rewrite ?Hc; reflexivity.
Qed.

Lemma flag_row_filter_len (str : nat * S -> bool) (r : row S) i :
  length (filter (fun e : nat * S * bool => Nat.eqb (fst (fst e)) i) (flag_row str r)) = diag_count i r.
Proof.
  unfold diag_count, flag_row. induction r as [|e r IH]; [reflexivity|].
  cbn [map filter fst]. destruct (Nat.eqb (fst e) i); cbn [length]; rewrite IH; reflexivity.
Qed.

Variable A : crs S.
Variable str : nat -> nat * S -> bool.
Hypothesis Hwf : wf A = true.
Hypothesis Hsq : ncols A = nrows A.
Local Notation st := (str_flags S A str).

Lemma zip_row_str i : (i < nrows A)%nat ->
  zip_row (nth i (rows A) []) (nth i st []) = flag_row (str i) (nth i (rows A) []).
Proof. intro Hi. rewrite nth_str_flags by exact Hi. unfold zip_row. symmetry. apply flag_row_combine. Qed.

Lemma glob_row_wf omega i : (i < nrows A)%nat ->
  row_wf (nrows A) (nth i (rows (sa_glob_filtered omega A str)) []) = true.
Proof.
  intro Hi. rewrite nth_sa_glob_filtered by exact Hi. rewrite sa_glob_row_coef.
  apply (glob_coef_row_wf omega _ i (nrows A)).
  intros e He. unfold flag_row in He. apply in_map_iff in He as [x [<- Hx]]. cbn [fst].
  unfold wf in Hwf. rewrite forallb_forall in Hwf.
  assert (Hr : row_wf (ncols A) (nth i (rows A) []) = true) by (apply Hwf; apply nth_In; exact Hi).
  unfold row_wf in Hr. rewrite forallb_forall in Hr. specialize (Hr _ Hx). apply Nat.ltb_lt in Hr. lia.
Qed.

(* entry (i,k) of the filtered matrix is  delta_ik - (omega * sinv D_i) * (A_F)_ik :  the inverse of the filtered diagonal
   on the LEFT of the entries of A, omega on the left of the inverse; uses the LEFT-inverse law of D_i only *)
Lemma nc_glob_filtered_dense omega i k : (i < nrows A)%nat ->
  diag_count i (nth i (rows A) []) = 1%nat ->
  sinv (sa_D A st i) * sa_D A st i = s1 ->
  mget (sa_glob_filtered omega A str) i k = sa_M omega A st i k.
Proof.
  intros Hi Hdiag Hinv. unfold mget. rewrite nth_sa_glob_filtered by exact Hi.
  unfold sa_M, sa_AF, sa_D in *. rewrite zip_row_str in * by exact Hi.
  set (zr := flag_row (str i) (nth i (rows A) [])) in *.
  rewrite sa_glob_row_coef.
  destruct (Nat.eqb_spec i k) as [<-|Hne].
  - rewrite nc_glob_coef_diag by (unfold zr; rewrite flag_row_filter_len; exact Hdiag).
    assert (E : omega * sinv (sa_dia i zr) * sa_dia i zr = omega).
    { rewrite <- (nc_mul_assoc _ Hnc), Hinv. apply (nc_mul_1_r _ Hnc). }
    rewrite E. reflexivity.
  - rewrite nc_glob_coef_off by congruence. unfold sa_scale_f. ncr.
Qed.
End NcFormula.

(* ------------------------------------------------------------------ the theorem *)
Section NcTop.
Variable S : Scalar.
Hypothesis Hnc : ncring_theory S.

Theorem nc_dist_sa_smooth_every_partition (junk eps2 omega : S) (A Pt : crs S) (parts cparts : list nat) :
  psum parts = nrows A -> ncols A = nrows A -> wf A = true ->
  length parts = length cparts -> psum parts = nrows Pt ->
  forall i j, (i < nrows A)%nat ->
    diag_count i (nth i (rows A) []) = 1%nat ->
    sinv (sa_D A (conn_flags S junk A eps2) i) * sa_D A (conn_flags S junk A eps2) i = s1 ->
    mget (assemble (dist_sa_smooth junk eps2 omega (split A parts parts) (split Pt parts cparts))) i j
    = sa_formula omega A (conn_flags S junk A eps2) Pt i j.
Proof.
  intros Hrows Hsq Hwf Hlen HPt i j Hi Hdiag Hinv.
  unfold dist_sa_smooth. rewrite (nc_dist_sa_filtered_split Hnc A parts Hrows Hsq Hwf junk eps2 omega).
  rewrite (nc_dist_product_dense Hnc (sa_glob_filtered omega A (strong_entry junk A eps2)) Pt parts parts cparts eq_refl Hlen).
  - rewrite (nc_mget_saad_row_lin Hnc).
    rewrite (nc_row_lin_dense Hnc _ Pt j (nrows A)) by (apply glob_row_wf; assumption).
    unfold sa_formula. apply sumn_ext. intros k _. f_equal.
    apply (nc_glob_filtered_dense Hnc A (strong_entry junk A eps2) omega i k Hi Hdiag Hinv).
  - unfold sa_glob_filtered, nrows. cbn [rows]. rewrite map_length, indexed_length. exact Hrows.
  - exact HPt.
Qed.
End NcTop.

(* with the PMIS model for P_tent: one call of transfer_operators at a non-commutative value type *)
Section NcTransfer.
Variable S : Scalar.
Hypothesis Hnc : ncring_theory S.

Theorem nc_dist_sa_transfer_every_partition (junk eps2 omega : S) (A : crs S) (parts : list nat) :
  psum parts = nrows A -> ncols A = nrows A -> wf A = true ->
  (forall i, (i < psum parts)%nat -> In i (grow (conn junk A eps2) i)) ->
  exists w Pt P R,
    pmis parts (conn junk A eps2) = Some w /\
    dist_sa_transfer junk eps2 omega A parts = Some (Pt, P, R) /\
    let PtG := ptent_of S (map (column w) (seq 0 (psum parts))) (psum (w_na w)) in
    Pt = split PtG parts (w_na w) /\
    R = dist_transpose P parts /\
    forall i j, (i < nrows A)%nat ->
      diag_count i (nth i (rows A) []) = 1%nat ->
      sinv (sa_D A (conn_flags S junk A eps2) i) * sa_D A (conn_flags S junk A eps2) i = s1 ->
      mget (assemble P) i j = sa_formula omega A (conn_flags S junk A eps2) PtG i j.
Proof.
  intros Hrows Hsq Hwf Hdiag.
  destruct (pmis_partition parts (conn junk A eps2) Hdiag) as [w [Hw [Hvalid _]]].
  destruct (pmis_columns_partition parts (conn junk A eps2) Hdiag) as [cols [nas [Hc [_ [Hnas _]]]]].
  unfold pmis_columns in Hc. rewrite Hw in Hc. injection Hc as _ Hn. subst nas.
  pose proof (dist_ptent_is_split S parts w Hnas Hvalid) as HPt.
  exists w, (dist_ptent parts w),
         (dist_sa_smooth junk eps2 omega (split A parts parts) (dist_ptent parts w)),
         (dist_transpose (dist_sa_smooth junk eps2 omega (split A parts parts) (dist_ptent parts w)) parts).
  split; [exact Hw|]. split; [unfold dist_sa_transfer; rewrite Hw; reflexivity|].
  split; [exact HPt|]. split; [reflexivity|].
  intros i j Hi Hd Hinv. rewrite HPt.
  apply (nc_dist_sa_smooth_every_partition S Hnc); try assumption.
  - symmetry; exact Hnas.
  - unfold ptent_of, nrows. cbn [rows]. rewrite !map_length, seq_length. reflexivity.
Qed.
End NcTransfer.

(* ------------------------------------------------------------------ the model with the operands swapped *)
Section Swapped.
Context {S : Scalar}.
Local Notation row := (row S).

(* lines 166-172 with  A.val[j] * dia_f  when [sw] *)
Definition sa_loc_row_sw (sw : bool) (omega d : S) (i : nat) (zl : list (nat * S * bool)) : row :=
  flat_map (fun e => if Nat.eqb (fst (fst e)) i then [(fst (fst e), (s1 - omega) * s1)]
                     else if (snd e : bool) then [(fst (fst e), if sw then snd (fst e) * d else d * snd (fst e))] else []) zl.
(* lines 174-178 with  A.val[j] * dia_f  when [sw] *)
Definition sa_rem_row_sw (sw : bool) (d : S) (zr : list (nat * S * bool)) : row :=
  flat_map (fun e => if (snd e : bool) then [(fst (fst e), if sw then snd (fst e) * d else d * snd (fst e))] else []) zr.

Definition rank_sa_rows_sw (swl swr : bool) (eps2 omega : S) (M : rank_mat S) (Dl Dg : vec S) (rc : list nat)
  : list (row * row) :=
  map (fun irr =>
         let i := fst irr in
         let zl := flag_row (loc_strong eps2 Dl i) (fst (snd irr)) in
         let zr := flag_row (rem_strong eps2 Dl Dg rc i) (snd (snd irr)) in
         let d := sa_scale_f omega (sa_dia_f i zl zr) in
         (sa_loc_row_sw swl omega d i zl, sa_rem_row_sw swr d zr))
      (indexed (combine (rows (rm_loc M)) (rows (rm_rem M)))).
Definition rank_sa_filtered_sw (swl swr : bool) (eps2 omega : S) (M : rank_mat S) (Dl Dg : vec S) (rc : list nat)
  : rank_mat S :=
  let rws := rank_sa_rows_sw swl swr eps2 omega M Dl Dg rc in
  mkRankMat (mkCrs (ncols (rm_loc M)) (map fst rws)) (mkCrs (ncols (rm_rem M)) (map snd rws)).
Definition dist_sa_filtered_sw (swl swr : bool) (junk eps2 omega : S) (D : dmat S) : dmat S :=
  let pats := dm_pattern D in
  let Ds := dist_dia junk D in
  mkDmat (dm_cparts D)
    (map (fun r => rank_sa_filtered_sw swl swr eps2 omega (nth r (dm_ranks D) dflt_rank) (nth r Ds [])
                                       (exchange pats Ds r) (cp_rc (nth r pats dflt_cpat)))
         (seq 0 (length (dm_cparts D)))).
Definition dist_sa_smooth_sw (swl swr : bool) (junk eps2 omega : S) (D Pt : dmat S) : dmat S :=
  dist_product (dist_sa_filtered_sw swl swr junk eps2 omega D) Pt.

(* without a swap it is the model *)
Lemma dist_sa_smooth_sw_ff junk eps2 omega D Pt :
  dist_sa_smooth_sw false false junk eps2 omega D Pt = dist_sa_smooth junk eps2 omega D Pt.
Proof. reflexivity. Qed.

(* in a commutative ring the swaps are invisible *)
Theorem dist_sa_smooth_sw_comm (Srt : Sring S) swl swr junk eps2 omega D Pt :
  dist_sa_smooth_sw swl swr junk eps2 omega D Pt = dist_sa_smooth junk eps2 omega D Pt.
Proof.
  unfold dist_sa_smooth_sw, dist_sa_smooth. f_equal.
  unfold dist_sa_filtered_sw, dist_sa_filtered. cbv zeta. f_equal. apply map_ext. intro r.
  unfold rank_sa_filtered_sw, rank_sa_filtered. cbv zeta.
  assert (E : forall M Dl Dg rc, rank_sa_rows_sw swl swr eps2 omega M Dl Dg rc = rank_sa_rows eps2 omega M Dl Dg rc).
  { intros M Dl Dg rc. unfold rank_sa_rows_sw, rank_sa_rows. apply map_ext. intro irr. cbv zeta. f_equal.
    - unfold sa_loc_row_sw, sa_loc_row. apply flat_map_ext. intro e.
      destruct (Nat.eqb (fst (fst e)) (fst irr)); [reflexivity|]. destruct (snd e); [|reflexivity].
      destruct swl; [|reflexivity]. rewrite (Rmul_comm Srt). reflexivity.
    - unfold sa_rem_row_sw, sa_rem_row. apply flat_map_ext. intro e.
      destruct (snd e); [|reflexivity]. destruct swr; [|reflexivity]. rewrite (Rmul_comm Srt). reflexivity. }
  rewrite E. reflexivity.
Qed.
End Swapped.

(* ------------------------------------------------------------------ closed instances and witnesses at static_matrix<Q,b,b> *)
Lemma nc_QcS_sinv0 : sinv (@s0 QcS) = s0.
Proof. apply (proj1 (QcS_eqb _ _)). vm_compute. reflexivity. Qed.

(* closed at BlockS QcS b: the left-inverse law follows from "math::inverse succeeds on D_i and on its result" *)
Theorem nc_dist_sa_smooth_every_partition_BlockQc (b : nat) (junk eps2 omega : BlockS QcS b)
  (A Pt : crs (BlockS QcS b)) (parts cparts : list nat) :
  psum parts = nrows A -> ncols A = nrows A -> wf A = true ->
  length parts = length cparts -> psum parts = nrows Pt ->
  forall i j, (i < nrows A)%nat ->
    diag_count i (nth i (rows A) []) = 1%nat ->
    sinv (sa_D A (conn_flags _ junk A eps2) i) <> s0 ->
    sinv (sinv (sa_D A (conn_flags _ junk A eps2) i)) <> s0 ->
    mget (assemble (dist_sa_smooth junk eps2 omega (split A parts parts) (split Pt parts cparts))) i j
    = sa_formula omega A (conn_flags _ junk A eps2) Pt i j.
Proof.
  intros H1 H2 H3 H4 H5 i j Hi Hd Hv1 Hv2.
  apply (nc_dist_sa_smooth_every_partition (BlockS QcS b) (BlockS_ncring QcS b QcS_ring)); try assumption.
  exact (proj1 (proj2 (BlockS_inv_two_sided QcS b QcS_field QcS_eqb nc_QcS_sinv0 _ Hv1 Hv2))).
Qed.

Lemma nc_seqb_false_neq (S : Scalar) (Seqb : seqb_spec S) (x y : S) : seqb x y = false -> x <> y.
Proof. intros H E. apply Seqb in E. congruence. Qed.

(* 3 block rows on the ranks [2;0;1] (rank 1 is empty):
       A = [ D  a  a ]     D = [2 1; 0 2],  a = [0 0; 1 1]  (D a <> a D),  eps_strong = 0 (every entry with trace(v v) > 0 is strong)
           [ .  D  . ]     row 0 has a strong LOCAL off-diagonal entry (column 1) and a strong REMOTE one (column 2)
           [ .  .  D ]     P_tent = I (3 aggregates), omega = 1/2 *)
Definition sw_q (a b c d : QcS) : BlockS QcS 2 := blk_of_list QcS 2 [a; b; c; d].
Definition sw_I : BlockS QcS 2 := sw_q (qc 1 1) (qc 0 1) (qc 0 1) (qc 1 1).
Definition sw_0 : BlockS QcS 2 := sw_q (qc 0 1) (qc 0 1) (qc 0 1) (qc 0 1).
Definition sw_D : BlockS QcS 2 := sw_q (qc 2 1) (qc 1 1) (qc 0 1) (qc 2 1).
Definition sw_a : BlockS QcS 2 := sw_q (qc 0 1) (qc 0 1) (qc 1 1) (qc 1 1).
Definition sw_omega : BlockS QcS 2 := sw_q (qc 1 2) (qc 0 1) (qc 0 1) (qc 1 2).
Definition sw_A : crs (BlockS QcS 2) := mkCrs 3 [[(0, sw_D); (1, sw_a); (2, sw_a)]; [(1, sw_D)]; [(2, sw_D)]].
Definition sw_Pt : crs (BlockS QcS 2) := mkCrs 3 [[(0, sw_I)]; [(1, sw_I)]; [(2, sw_I)]].
Definition sw_parts : list nat := [2; 0; 1].

(* the hypotheses of nc_dist_sa_smooth_every_partition hold on the witness (row 0) *)
Lemma sw_hypotheses :
  psum sw_parts = nrows sw_A /\ ncols sw_A = nrows sw_A /\ wf sw_A = true /\
  length sw_parts = length sw_parts /\ psum sw_parts = nrows sw_Pt /\ (0 < nrows sw_A)%nat /\
  diag_count 0 (nth 0 (rows sw_A) []) = 1%nat /\
  sinv (sa_D sw_A (conn_flags _ sw_0 sw_A sw_0) 0) * sa_D sw_A (conn_flags _ sw_0 sw_A sw_0) 0 = s1.
Proof.
  repeat (split; [vm_compute; try reflexivity; lia|]).
  apply (proj1 (BlockS_eqb QcS 2 QcS_eqb _ _)). vm_compute. reflexivity.
Qed.

(* swapped in the LOCAL loop only (entry (0,1)), in the REMOTE loop only (entry (0,2)), in both *)
Theorem swapped_local_operands_refuted :
  mget (assemble (dist_sa_smooth_sw true false sw_0 sw_0 sw_omega (split sw_A sw_parts sw_parts) (split sw_Pt sw_parts sw_parts))) 0 1
  <> sa_formula sw_omega sw_A (conn_flags _ sw_0 sw_A sw_0) sw_Pt 0 1.
Proof. apply (nc_seqb_false_neq _ (BlockS_eqb QcS 2 QcS_eqb)). vm_compute. reflexivity. Qed.

Theorem swapped_remote_operands_refuted :
  mget (assemble (dist_sa_smooth_sw false true sw_0 sw_0 sw_omega (split sw_A sw_parts sw_parts) (split sw_Pt sw_parts sw_parts))) 0 2
  <> sa_formula sw_omega sw_A (conn_flags _ sw_0 sw_A sw_0) sw_Pt 0 2.
Proof. apply (nc_seqb_false_neq _ (BlockS_eqb QcS 2 QcS_eqb)). vm_compute. reflexivity. Qed.

Theorem swapped_both_operands_refuted :
  mget (assemble (dist_sa_smooth_sw true true sw_0 sw_0 sw_omega (split sw_A sw_parts sw_parts) (split sw_Pt sw_parts sw_parts))) 0 1
  <> sa_formula sw_omega sw_A (conn_flags _ sw_0 sw_A sw_0) sw_Pt 0 1.
Proof. apply (nc_seqb_false_neq _ (BlockS_eqb QcS 2 QcS_eqb)). vm_compute. reflexivity. Qed.

(* sanity of the witness: the model with the operands as in the code agrees there (instance of the theorem), and the
   entries are the non-trivial blocks (-1/2) D^-1 a *)
Example unswapped_agrees_on_witness :
  forallb (fun j => seqb (mget (assemble (dist_sa_smooth sw_0 sw_0 sw_omega (split sw_A sw_parts sw_parts)
                                                         (split sw_Pt sw_parts sw_parts))) 0 j)
                         (sa_formula sw_omega sw_A (conn_flags _ sw_0 sw_A sw_0) sw_Pt 0 j)) [0; 1; 2]%nat = true /\
  seqb (mget (assemble (dist_sa_smooth sw_0 sw_0 sw_omega (split sw_A sw_parts sw_parts) (split sw_Pt sw_parts sw_parts))) 0 1)
       (sw_q (qc 1 8) (qc 1 8) (qc (-1) 4) (qc (-1) 4)) = true.
Proof. vm_compute. split; reflexivity. Qed.
