(* KrylovMathMinres.v -- the GMRES minimal-residual lower bound ON THE MODEL (C05-A2):
   after j passes of the inner loop of gmres.hpp (Krylov.gm_body iterated from the workspace w0 that
   holds v_0 and s = beta e_0), under exact square roots and without breakdown, NO vector of
   span(v_0..v_{j-1}) gives a residual smaller than the estimate |s_j| held by the workspace:
       s_j^2 <= || beta v_0 - K (sum_c y_c v_c) ||^2      for every y.
   This instantiates the abstract theorem of KrylovMathLsq.v with the arrays of the workspace; the
   bookkeeping (entries written in pass c are not modified by later passes; s = Q (beta e_0); the
   rotated columns have zero entry j) is done here.  What is still not proved is that backsub/lin_comb
   produce the y that attains the bound (stated in Properties_C05.v). *)
From Amgcl Require Import Scalar Vec Kernels KernelsProofs Krylov KrylovRef KrylovProofs
                          KrylovMathVec KrylovMathGmres KrylovMathLsq AmgOrder.
From Coq Require Import QArith_base.
Local Close Scope Q_scope.
Local Open Scope S_scope.
Local Notation SS := Datatypes.S.

Ltac vext :=
  unfold vadd, vsub, vscal, vzeros; rewrite ?zipw_vmap2;
  apply nth_error_ext; let i := fresh "i" in intro i;
  repeat (rewrite ?nth_error_vmap2, ?nth_error_vmap3, ?nth_error_map);
  repeat match goal with |- context [nth_error ?v i] => destruct (nth_error v i) end;
  simpl; try reflexivity; try (f_equal; ring).

(* ================================================================== *)
Section QnFacts.
Context {S : Scalar}.
Hypothesis Srt : Sring S.
Add Ring SRingQF : Srt.

Lemma Qn_coeff_ext (cs sn cs' sn' : nat -> S) j u :
  (forall l, l < j -> cs l = cs' l /\ sn l = sn' l) -> forall i, Qn cs sn j u i = Qn cs' sn' j u i.
Proof.
  induction j as [|j IH]; intros H i; simpl; [reflexivity|].
  destruct (H j (Nat.lt_succ_diag_r j)) as (-> & ->).
  apply rotv_ext. apply IH. intros l Hl. apply H. lia.
Qed.
(* entries above the planes touched are unchanged *)
Lemma Qn_high (cs sn : nat -> S) j u i : j < i -> Qn cs sn j u i = u i.
Proof.
  induction j as [|j IH]; intro L; simpl; [reflexivity|]. unfold rotv.
  destruct (Nat.eqb i j) eqn:E1; [apply Nat.eqb_eq in E1; lia|].
  destruct (Nat.eqb i (SS j)) eqn:E2; [apply Nat.eqb_eq in E2; lia|]. apply IH. lia.
Qed.
(* (Q_j u)_i depends on u_0..u_j and u_i only *)
Lemma Qn_ext_le (cs sn : nat -> S) j : forall u w i,
  (forall l, l <= j \/ l = i -> u l = w l) -> Qn cs sn j u i = Qn cs sn j w i.
Proof.
  induction j as [|j IH]; intros u w i H; simpl; [apply H; right; reflexivity|].
  unfold rotv.
  rewrite (IH u w j) by (intros l [Hl| ->]; apply H; left; lia).
  rewrite (IH u w (SS j)) by (intros l [Hl| ->]; apply H; left; lia).
  destruct (Nat.eqb i j); [reflexivity|]. destruct (Nat.eqb i (SS j)); [reflexivity|].
  apply IH. intros l [Hl| ->]; apply H; [left; lia|right; reflexivity].
Qed.
(* zeros from p on stay zeros under the rotations p, p+1, ... *)
Lemma Qn_zero_tail (cs sn : nat -> S) p u : (forall l, p <= l -> Qn cs sn p u l = s0) ->
  forall d l, p <= l -> Qn cs sn (p + d) u l = s0.
Proof.
  intros Z d. induction d as [|d IH]; intros l Hl.
  - rewrite Nat.add_0_r. apply Z, Hl.
  - rewrite Nat.add_succ_r. simpl. unfold rotv.
    rewrite (IH (p + d)%nat), (IH (SS (p + d))) by lia.
    destruct (Nat.eqb l (p + d)); [ring|]. destruct (Nat.eqb l (SS (p + d))); [ring|]. apply IH, Hl.
Qed.

Hypothesis Sreal : forall x : S, sadj x = x.

Lemma rot_col_app (cs sn : nat -> S) j l1 : forall l2 H,
  rot_col cs sn j (l1 ++ l2) H = rot_col cs sn j l2 (rot_col cs sn j l1 H).
Proof.
  induction l1 as [|k tl IH]; intros l2 H; simpl; [reflexivity|]. apply IH.
Qed.
(* rot_col applies the rotations 0..m-1 to column j *)
Lemma rot_col_Qn (cs sn : nat -> S) j m : forall H r,
  rot_col cs sn j (seq 0 m) H r j = Qn cs sn m (fun l => H l j) r.
Proof.
  induction m as [|m IH]; intros H r; [reflexivity|].
  rewrite seq_S, rot_col_app. simpl. unfold app_rot, updm, rotv. rewrite !Sreal, !Nat.eqb_refl.
  rewrite !IH. simpl.
  destruct (Nat.eqb r (SS m)) eqn:E1; destruct (Nat.eqb r m) eqn:E2; simpl;
    try (apply Nat.eqb_eq in E1); try (apply Nat.eqb_eq in E2); try lia; try reflexivity.
Qed.
End QnFacts.

(* ================================================================== *)
Section CombFacts.
Context {S : Scalar}.
Local Notation vec := (vec S).
Hypothesis Srt : Sring S.
Add Ring SRingCF : Srt.
Variable n : nat.
Variable v : nat -> vec.

(* trailing zero coefficients do not contribute *)
Lemma comb_extend c m d : (forall l, l < m + d -> length (v l) = n) ->
  (forall l, m <= l -> l < m + d -> c l = s0) -> comb n v c (m + d) = comb n v c m.
Proof.
  intros Lv Z. induction d as [|d IH]; [rewrite Nat.add_0_r; reflexivity|].
  rewrite Nat.add_succ_r. unfold comb in *. simpl.
  rewrite IH by (intros; try apply Lv; try apply Z; lia).
  rewrite (Z (m + d)%nat) by lia.
  assert (L1 : length (vsum n (fun l => vscal (c l) (v l)) m) = n)
    by (apply vsum_len; intros k Hk; apply vscal_len, Lv; lia).
  assert (L2 : length (v (m + d)%nat) = n) by (apply Lv; lia).
  apply (vec_ext_n n); [apply vadd_len; [exact L1|apply vscal_len, L2]|exact L1|].
  intros i Hi. rewrite (nth_vadd_n n), (nth_vscal_n n) by (auto using vscal_len). ring.
Qed.
End CombFacts.

(* ================================================================== *)
Section Model.
Context {S : Scalar}.
Local Notation vec := (vec S).
Local Notation gm_ws := (@gm_ws S).
Hypothesis Sft : Sfield S.
Hypothesis Seqb : seqb_spec S.
Hypothesis Sreal : forall x : S, sadj x = x.
Hypothesis HofQ0 : sofQ (0 # 1)%Q = @s0 S.
Hypothesis HofQ1 : sofQ (1 # 1)%Q = @s1 S.
Add Field SFieldMM : Sft.
Let Srt : Sring S := F_R Sft.

Variable n : nat.
Variables A P : vec -> vec.
Variable left : bool.
(* the preconditioned operator of gmres.hpp: P A (left) or A P (right) *)
Definition Kop (x : vec) : vec := fst (pspmv left A P x).
Hypothesis K_len : forall x, length x = n -> length (Kop x) = n.
Hypothesis K_lin : linear_on n Kop.

Definition body := gm_body A P left.
Variable w0 : gm_ws.
Definition W (i : nat) : gm_ws := gm_iter body i w0.
Definition Kv (i : nat) : vec := Kop (g_v (W i) i).
(* column c of the Hessenberg matrix as written before the rotations *)
Definition hbar (c l : nat) : S :=
  if Nat.leb l c then arn_H (W c) c (Kv c) l c
  else if Nat.eqb l (SS c) then arn_h (W c) c (Kv c) else s0.

(* the workspace handed to arnoldi_tail in pass i: W i with r overwritten *)
Definition Wb (i : nat) : gm_ws :=
  mkGmWs (g_H (W i)) (g_s (W i)) (g_cs (W i)) (g_sn (W i)) (snd (pspmv left A P (g_v (W i) i))) (g_v (W i)) (g_z (W i)).
Lemma W_S i : W (SS i) = fst (arnoldi_tail (Wb i) i (Kv i)).
Proof.
  unfold W at 1. simpl. fold (W i). unfold body, gm_body, Wb, Kv, Kop.
  destruct (pspmv left A P (g_v (W i) i)) as [vnew0 T]. reflexivity.
Qed.

(* ---- frames: what pass i leaves alone ---- *)
Lemma arnoldi_tail_coeffs (w : gm_ws) i vnew0 l : l <> i ->
  g_cs (fst (arnoldi_tail w i vnew0)) l = g_cs w l /\ g_sn (fst (arnoldi_tail w i vnew0)) l = g_sn w l.
Proof.
  intro N. unfold arnoldi_tail.
  destruct (mgs (g_v w) i (seq 0 (SS i)) (g_H w) vnew0) as [H1 vnew1].
  match goal with |- context [gen_rot ?a ?b] => destruct (gen_rot a b) as [c s] end. simpl.
  split; apply upd_neq; exact N.
Qed.

Lemma v_frame i d k : k <= i -> g_v (W (i + d)) k = g_v (W i) k.
Proof.
  intro Hk. induction d as [|d IH]; [rewrite Nat.add_0_r; reflexivity|].
  rewrite Nat.add_succ_r, W_S.
  destruct (arnoldi_tail_v Seqb (Wb (i + d)) (i + d) (Kv (i + d))) as (_ & F & _).
  rewrite F by lia. exact IH.
Qed.
Lemma v_frame' i i' k : k <= i -> i <= i' -> g_v (W i') k = g_v (W i) k.
Proof. intros Hk Hi. replace i' with (i + (i' - i))%nat by lia. apply v_frame, Hk. Qed.
Lemma cs_frame i d l : l < i -> g_cs (W (i + d)) l = g_cs (W i) l /\ g_sn (W (i + d)) l = g_sn (W i) l.
Proof.
  intro Hl. induction d as [|d IH]; [rewrite Nat.add_0_r; split; reflexivity|].
  rewrite Nat.add_succ_r, W_S.
  destruct (arnoldi_tail_coeffs (Wb (i + d)) (i + d) (Kv (i + d)) l ltac:(lia)) as (E1 & E2).
  rewrite E1, E2. exact IH.
Qed.
Lemma cs_frame' i i' l : l < i -> i <= i' -> g_cs (W i') l = g_cs (W i) l /\ g_sn (W i') l = g_sn (W i) l.
Proof. intros Hl Hi. replace i' with (i + (i' - i))%nat by lia. apply cs_frame, Hl. Qed.

(* ---- hypotheses on the run: j passes, exact roots, no breakdown ---- *)
Variable j : nat.
Hypothesis Lv0 : length (g_v w0 0) = n.
Hypothesis ON0 : rdot (g_v w0 0) (g_v w0 0) = s1.
Hypothesis Hh : forall i, i < j -> arn_h (W i) i (Kv i) <> s0.
Hypothesis Hx : forall i, i < j ->
  arn_h (W i) i (Kv i) * arn_h (W i) i (Kv i) = rdot (arn_w (W i) i (Kv i)) (arn_w (W i) i (Kv i)).
Hypothesis Hu : forall i, i < j -> unit_rot (g_cs (W (SS i)) i) (g_sn (W (SS i)) i).
Hypothesis Hd : forall i, i < j ->
  let dx := tail_H3 (Wb i) i (Kv i) i i in let dy := tail_H3 (Wb i) i (Kv i) (SS i) i in
  is_zero dy = false -> sltb (sabs dx) (sabs dy) = false -> dx <> s0.

(* ---- lengths and orthonormality of the basis ---- *)
Lemma basis_ok i : i <= j ->
  (forall k, k <= i -> length (g_v (W i) k) = n) /\
  (forall a b, a <= i -> b <= i -> rdot (g_v (W i) a) (g_v (W i) b) = if Nat.eqb a b then s1 else s0).
Proof.
  induction i as [|i IH]; intro Hi.
  - split.
    + intros k Hk. replace k with 0 by lia. exact Lv0.
    + intros a b Ha Hb. replace a with 0 by lia. replace b with 0 by lia. exact ON0.
  - destruct (IH ltac:(lia)) as (L & ON).
    assert (LK : length (Kv i) = n) by (apply K_len, L; lia).
    rewrite W_S. split.
    + intros k Hk. destruct (arnoldi_tail_v Seqb (Wb i) i (Kv i)) as (E1 & E2 & _).
      destruct (Nat.eq_dec k (SS i)) as [->|N].
      * rewrite E1. apply vscal_len. apply (mgs_len Srt Seqb); [exact LK|].
        intros k' Hk'. apply in_seq in Hk'. apply L. lia.
      * rewrite E2 by exact N. apply L. lia.
    + exact (arnoldi_tail_orthonormal Sft Seqb Sreal n (Wb i) i (Kv i) LK L ON (Hh i ltac:(lia)) (Hx i ltac:(lia))).
Qed.

(* the final basis *)
Definition V (k : nat) : vec := g_v (W j) k.
Lemma V_is k i : k <= i -> i <= j -> V k = g_v (W i) k.
Proof. intros Hk Hi. unfold V. apply v_frame'; assumption. Qed.
Lemma V_len k : k <= j -> length (V k) = n.
Proof. intro Hk. apply (proj1 (basis_ok j (le_n j))), Hk. Qed.
Lemma V_on a b : a <= j -> b <= j -> rdot (V a) (V b) = if Nat.eqb a b then s1 else s0.
Proof. apply (proj2 (basis_ok j (le_n j))). Qed.

(* ---- the Arnoldi relations in the final basis ---- *)
Lemma hbar_low c l : l <= c -> hbar c l = arn_H (W c) c (Kv c) l c.
Proof. intro H. unfold hbar. apply Nat.leb_le in H. rewrite H. reflexivity. Qed.
Lemma hbar_sub c : hbar c (SS c) = arn_h (W c) c (Kv c).
Proof.
  unfold hbar. destruct (Nat.leb (SS c) c) eqn:E; [apply Nat.leb_le in E; lia|]. rewrite Nat.eqb_refl. reflexivity.
Qed.
Lemma hbar_zero c l : SS c < l -> hbar c l = s0.
Proof.
  intro H. unfold hbar. destruct (Nat.leb l c) eqn:E; [apply Nat.leb_le in E; lia|].
  destruct (Nat.eqb l (SS c)) eqn:E2; [apply Nat.eqb_eq in E2; lia|]. reflexivity.
Qed.

Lemma arnoldi_final c : c < j -> Kop (V c) = comb n V (hbar c) (SS j).
Proof.
  intro Hc.
  destruct (basis_ok c ltac:(lia)) as (L & _).
  assert (LK : length (Kv c) = n) by (apply K_len, L; lia).
  pose proof (arnoldi_tail_arnoldi Sft Seqb n (Wb c) c (Kv c) LK L (Hh c Hc)) as R. cbv zeta in R.
  rewrite <- W_S in R.
  rewrite (V_is c c (le_n c) ltac:(lia)). fold (Kv c). rewrite R at 1. clear R.
  change (arn_h (Wb c) c (Kv c)) with (arn_h (W c) c (Kv c)).
  (* express everything in the final basis *)
  rewrite <- (V_is (SS c) (SS c) (le_n _) ltac:(lia)).
  rewrite (lsum_ext n _ _ (fun k => vscal (hbar c k) (V k))).
  2:{ intros k Hk. apply in_seq in Hk. rewrite hbar_low by lia.
      rewrite <- (V_is k (SS c)) by lia. reflexivity. }
  rewrite (lsum_seq_vsum Srt n) by (intros k Hk; apply vscal_len, V_len; lia).
  simpl Nat.add. rewrite <- hbar_sub.
  replace (SS j) with (SS (SS c) + (j - SS c))%nat by lia.
  rewrite (comb_extend Srt n V (hbar c) (SS (SS c)) (j - SS c))
    by (intros; try apply V_len; try apply hbar_zero; lia).
  unfold comb. simpl.
  assert (L1 : length (vsum n (fun l => vscal (hbar c l) (V l)) c) = n)
    by (apply vsum_len; intros k Hk; apply vscal_len, V_len; lia).
  vext.
Qed.

(* ---- the rotated right-hand side ---- *)
Lemma s_is_Q i : i <= j -> forall l, g_s (W i) l = Qn (g_cs (W i)) (g_sn (W i)) i (g_s w0) l.
Proof.
  induction i as [|i IH]; intros Hi l; [reflexivity|].
  rewrite W_S. destruct (arnoldi_tail_s (Wb i) i (Kv i)) as (_ & E & _ & F & _).
  rewrite <- W_S in *. simpl.
  assert (C : forall u k, Qn (g_cs (W (SS i))) (g_sn (W (SS i))) i u k = Qn (g_cs (W i)) (g_sn (W i)) i u k).
  { intros u k. apply (Qn_coeff_ext). intros l' Hl'. apply (cs_frame' i (SS i)); lia. }
  unfold rotv. rewrite !C, <- !IH by lia.
  unfold app_rot in E. rewrite !Sreal in E. injection E as E1 E2.
  destruct (Nat.eqb l i) eqn:X1; [apply Nat.eqb_eq in X1; subst l; exact E1|].
  destruct (Nat.eqb l (SS i)) eqn:X2; [apply Nat.eqb_eq in X2; subst l; exact E2|].
  apply Nat.eqb_neq in X1, X2. exact (F l X1 X2).
Qed.

(* ---- the rotated columns have zero entry j ---- *)
Lemma H3_is_Q i l : l <= SS i ->
  tail_H3 (Wb i) i (Kv i) l i = Qn (g_cs (W i)) (g_sn (W i)) i (hbar i) l.
Proof.
  intro Hl. unfold tail_H3.
  change (mgs (g_v (Wb i)) i (seq 0 (SS i)) (g_H (Wb i)) (Kv i)) with (mgs (g_v (W i)) i (seq 0 (SS i)) (g_H (W i)) (Kv i)).
  pose proof (hbar_low i) as HL. pose proof (hbar_sub i) as HS. unfold arn_H, arn_h, arn_w in HL, HS.
  destruct (mgs (g_v (W i)) i (seq 0 (SS i)) (g_H (W i)) (Kv i)) as [H1 vnew1]. simpl in HL, HS.
  change (g_cs (Wb i)) with (g_cs (W i)). change (g_sn (Wb i)) with (g_sn (W i)).
  rewrite (rot_col_Qn Sreal). apply Qn_ext_le. intros k Hk. unfold updm.
  rewrite Nat.eqb_refl.
  destruct (Nat.eqb k (SS i)) eqn:E; simpl.
  - apply Nat.eqb_eq in E. subst k. symmetry. exact HS.
  - apply Nat.eqb_neq in E. symmetry. apply HL. destruct Hk as [Hk| ->]; lia.
Qed.

Lemma column_annihilated c : c < j ->
  Qn (g_cs (W j)) (g_sn (W j)) j (hbar c) j = s0.
Proof.
  intro Hc.
  assert (Cf : forall m u k, m <= SS c ->
            Qn (g_cs (W j)) (g_sn (W j)) m u k = Qn (g_cs (W (SS c))) (g_sn (W (SS c))) m u k).
  { intros m u k Hm. apply Qn_coeff_ext. intros l' Hl'. apply (cs_frame' (SS c) j); lia. }
  (* after the rotations 0..c the entry c+1 is zero *)
  assert (Z1 : Qn (g_cs (W (SS c))) (g_sn (W (SS c))) (SS c) (hbar c) (SS c) = s0).
  { simpl. unfold rotv. rewrite Nat.eqb_refl.
    destruct (Nat.eqb (SS c) c) eqn:E; [apply Nat.eqb_eq in E; lia|].
    assert (C : forall u k, Qn (g_cs (W (SS c))) (g_sn (W (SS c))) c u k = Qn (g_cs (W c)) (g_sn (W c)) c u k).
    { intros u k. apply Qn_coeff_ext. intros l' Hl'. apply (cs_frame' c (SS c)); lia. }
    rewrite !C, <- !H3_is_Q by lia.
    destruct (arnoldi_tail_s (Wb c) c (Kv c)) as (G & _). rewrite <- W_S in G. simpl in G.
    pose proof (gen_rot_annihilates Sft Seqb HofQ0 HofQ1 _ _ (Hd c Hc)) as AN.
    rewrite <- G in AN. simpl in AN. exact AN. }
  (* ... and everything from c+1 on is zero, and stays zero under the later rotations *)
  assert (Z : forall l, SS c <= l -> Qn (g_cs (W j)) (g_sn (W j)) (SS c) (hbar c) l = s0).
  { intros l Hl. rewrite Cf by lia. destruct (Nat.eq_dec l (SS c)) as [->|N]; [exact Z1|].
    rewrite Qn_high by lia. apply hbar_zero. lia. }
  pose proof (Qn_zero_tail Srt (g_cs (W j)) (g_sn (W j)) (SS c) (hbar c) Z (j - SS c) j ltac:(lia)) as Q.
  replace (SS c + (j - SS c))%nat with j in Q by lia. exact Q.
Qed.

(* ---- THE THEOREM ---- *)
Hypothesis Ord : ordered S.
Hypothesis Hs0 : forall l, 0 < l -> g_s w0 l = s0.        (* fill(s, 0); s[0] = norm_r *)

Lemma r0_comb : vscal (g_s w0 0) (g_v w0 0) = comb n V (g_s w0) (SS j).
Proof.
  replace (SS j) with (1 + j)%nat by lia.
  rewrite (comb_extend Srt n V (g_s w0) 1 j) by (intros; try apply V_len; try apply Hs0; lia).
  unfold comb. simpl. rewrite (V_is 0 0) by lia.
  assert (L : length (g_v (W 0) 0) = n) by exact Lv0.
  change (g_v (W 0) 0) with (g_v w0 0) in *.
  apply (vec_ext_n n); [apply vscal_len, L|apply vadd_len; [apply zeron_len|apply vscal_len, L]|].
  intros i Hi. rewrite (nth_vadd_n n) by (auto using zeron_len, vscal_len). unfold zeron. rewrite nth_repeat. ring.
Qed.

Theorem gm_residual_lower_bound (y : nat -> S) :
  let r := vsub (vscal (g_s w0 0) (g_v w0 0)) (Kop (comb n V y j)) in
  ole (g_s (W j) j * g_s (W j) j) (rdot r r).
Proof.
  intro r. rewrite (s_is_Q j (le_n j) j).
  apply (gmres_minimal_residual_lower_bound Srt Sreal Ord n V Kop K_len K_lin j (g_s w0) hbar
           (g_cs (W j)) (g_sn (W j)) (vscal (g_s w0 0) (g_v w0 0))).
  - intros l Hl. apply V_len, Hl.
  - intros a b Ha Hb. apply V_on; assumption.
  - intros c Hc. apply arnoldi_final, Hc.
  - apply r0_comb.
  - intros l Hl. destruct (cs_frame' (SS l) j l ltac:(lia) ltac:(lia)) as (E1 & E2). rewrite E1, E2. apply (Hu l Hl).
  - intros c Hc. apply column_annihilated, Hc.
Qed.

(* ... and any y that solves the triangular system R y = s_{<j} attains it: the residual norm of
   x + (P) sum_c y_c v_c is exactly |s_j| *)
Theorem gm_residual_attained (y : nat -> S) :
  (forall i, i < j -> sumn (fun c => y c * Qn (g_cs (W j)) (g_sn (W j)) j (hbar c) i) j = g_s (W j) i) ->
  let r := vsub (vscal (g_s w0 0) (g_v w0 0)) (Kop (comb n V y j)) in
  rdot r r = g_s (W j) j * g_s (W j) j.
Proof.
  intros Hy r. rewrite (s_is_Q j (le_n j) j).
  apply (gmres_minimal_residual_attained Srt Sreal n V Kop K_len K_lin j (g_s w0) hbar
           (g_cs (W j)) (g_sn (W j)) (vscal (g_s w0 0) (g_v w0 0))).
  - intros l Hl. apply V_len, Hl.
  - intros a b Ha Hb. apply V_on; assumption.
  - intros c Hc. apply arnoldi_final, Hc.
  - apply r0_comb.
  - intros l Hl. destruct (cs_frame' (SS l) j l ltac:(lia) ltac:(lia)) as (E1 & E2). rewrite E1, E2. apply (Hu l Hl).
  - intros c Hc. apply column_annihilated, Hc.
  - intros i Hi. rewrite (Hy i Hi). apply (s_is_Q j (le_n j) i).
Qed.

End Model.
