(* KrylovMathVec.v -- the vector algebra used by KrylovMathCG.v / KrylovMathGmres.v (C05-B):
   lengths, bilinearity and symmetry of the inner product KrylovRef.rdot (= Krylov.ip in a ring),
   consequences of KrylovProofs.linear_on, componentwise extensionality for vectors of a fixed
   length, and the linear span of a set of generators (inductive closure, no coefficient lists). *)
From Amgcl Require Import Scalar Vec Kernels KernelsProofs Krylov KrylovRef KrylovProofs.
Local Open Scope S_scope.
Local Notation SS := Datatypes.S.

(* ------------------------------------------------------------------ *)
Section VecAlg.
Context {S : Scalar}.
Local Notation vec := (vec S).
Hypothesis Srt : Sring S.
Add Ring SRingKM : Srt.

Ltac vext :=
  unfold vadd, vsub, vscal, vzeros; rewrite ?zipw_vmap2;
  apply nth_error_ext; let i := fresh "i" in intro i;
  repeat (rewrite ?nth_error_vmap2, ?nth_error_vmap3, ?nth_error_map);
  repeat match goal with |- context [nth_error ?v i] => destruct (nth_error v i) end;
  simpl; try reflexivity; try (f_equal; ring).

Lemma zipw_len f (x y : vec) n : length x = n -> length y = n -> length (zipw f x y) = n.
Proof. intros Lx Ly. rewrite zipw_vmap2, vmap2_length, Lx, Ly. apply Nat.min_id. Qed.
Lemma vadd_len (x y : vec) n : length x = n -> length y = n -> length (vadd x y) = n.
Proof. apply zipw_len. Qed.
Lemma vsub_len (x y : vec) n : length x = n -> length y = n -> length (vsub x y) = n.
Proof. apply zipw_len. Qed.
Lemma vscal_len a (x : vec) n : length x = n -> length (vscal a x) = n.
Proof. intro L. unfold vscal. rewrite map_length. exact L. Qed.
Lemma vzeros_len (x : vec) n : length x = n -> length (vzeros x) = n.
Proof. intro L. unfold vzeros. rewrite map_length. exact L. Qed.

(* bilinearity of the inner product (no assumption on the adjoint needed on the left) *)
Lemma rdot_vadd_l (x y z : vec) : length x = length y ->
  rdot (vadd x y) z = rdot x z + rdot y z.
Proof.
  unfold vadd. revert y z; induction x as [|a x IH]; intros [|b y] [|c z] L; simpl in *; try discriminate; try ring.
  rewrite IH by congruence. ring.
Qed.
Lemma rdot_vsub_l (x y z : vec) : length x = length y ->
  rdot (vsub x y) z = rdot x z - rdot y z.
Proof.
  unfold vsub. revert y z; induction x as [|a x IH]; intros [|b y] [|c z] L; simpl in *; try discriminate; try ring.
  rewrite IH by congruence. ring.
Qed.
Lemma rdot_vscal_l a (x z : vec) : rdot (vscal a x) z = a * rdot x z.
Proof.
  unfold vscal. revert z; induction x as [|b x IH]; intros [|c z]; simpl; try ring. rewrite IH. ring.
Qed.
Lemma rdot_vzeros_l (x z : vec) : rdot (vzeros x) z = s0.
Proof.
  unfold vzeros. revert z; induction x as [|b x IH]; intros [|c z]; simpl; try ring. rewrite IH. ring.
Qed.

(* real scalar type: the adjoint is the identity (double, float, the exact rationals) *)
Hypothesis Sreal : forall x : S, sadj x = x.

Lemma rdot_sym (x y : vec) : rdot x y = rdot y x.
Proof.
  revert y; induction x as [|a x IH]; intros [|b y]; simpl; try reflexivity.
  rewrite IH, !Sreal. ring.
Qed.
Lemma rdot_vadd_r (x y z : vec) : length y = length z ->
  rdot x (vadd y z) = rdot x y + rdot x z.
Proof. intro L. rewrite rdot_sym, rdot_vadd_l, (rdot_sym y), (rdot_sym z) by exact L. reflexivity. Qed.
Lemma rdot_vsub_r (x y z : vec) : length y = length z ->
  rdot x (vsub y z) = rdot x y - rdot x z.
Proof. intro L. rewrite rdot_sym, rdot_vsub_l, (rdot_sym y), (rdot_sym z) by exact L. reflexivity. Qed.
Lemma rdot_vscal_r a (x z : vec) : rdot x (vscal a z) = a * rdot x z.
Proof. rewrite rdot_sym, rdot_vscal_l, (rdot_sym z). reflexivity. Qed.
Lemma rdot_vzeros_r (x z : vec) : rdot x (vzeros z) = s0.
Proof. rewrite rdot_sym. apply rdot_vzeros_l. Qed.

(* consequences of linearity in the form of KrylovProofs.linear_on *)
Lemma lin_add n (F : vec -> vec) : linear_on n F -> forall x y, length x = n -> length y = n ->
  F (vadd x y) = vadd (F x) (F y).
Proof.
  intros HL x y Lx Ly. pose proof (HL s1 x y Lx Ly) as H.
  replace (vadd x y) with (vmap2 (fun xi yi => xi + s1 * yi) x y) by vext.
  rewrite H. vext.
Qed.
Lemma lin_sub n (F : vec -> vec) : linear_on n F -> forall x y, length x = n -> length y = n ->
  F (vsub x y) = vsub (F x) (F y).
Proof.
  intros HL x y Lx Ly. pose proof (HL (- s1) x y Lx Ly) as H.
  replace (vsub x y) with (vmap2 (fun xi yi => xi + (- s1) * yi) x y) by vext.
  rewrite H. vext.
Qed.
Lemma lin_zero n (F : vec -> vec) : (forall v, length v = n -> length (F v) = n) ->
  linear_on n F -> forall x, length x = n -> F (vzeros x) = vzeros x.
Proof.
  intros FL HL x Lx. pose proof (lin_sub n F HL x x Lx Lx) as H.
  replace (vsub x x) with (vzeros x) in H by vext.
  rewrite H. pose proof (FL x Lx) as L1.
  unfold vsub, vzeros. rewrite zipw_vmap2.
  apply nth_error_ext; intro i. rewrite nth_error_vmap2, nth_error_map.
  destruct (nth_error (F x) i) eqn:E1; destruct (nth_error x i) eqn:E2; simpl; try reflexivity.
  - f_equal. ring.
  - exfalso. apply nth_error_None in E2. assert (nth_error (F x) i <> None) as N by congruence.
    apply nth_error_Some in N. lia.
  - exfalso. apply nth_error_None in E1. assert (nth_error x i <> None) as N by congruence.
    apply nth_error_Some in N. lia.
Qed.
Lemma lin_scal n (F : vec -> vec) : (forall v, length v = n -> length (F v) = n) ->
  linear_on n F -> forall a x, length x = n -> F (vscal a x) = vscal a (F x).
Proof.
  intros FL HL a x Lx.
  pose proof (HL a (vzeros x) x (vzeros_len x n Lx) Lx) as H.
  replace (vmap2 (fun xi yi => xi + a * yi) (vzeros x) x) with (vscal a x) in H.
  2:{ unfold vscal, vzeros. apply nth_error_ext; intro i. rewrite nth_error_vmap2, !nth_error_map.
      destruct (nth_error x i); simpl; [f_equal; ring|reflexivity]. }
  rewrite H, (lin_zero n F FL HL x Lx). pose proof (FL x Lx) as L1.
  unfold vscal, vzeros. apply nth_error_ext; intro i. rewrite nth_error_vmap2, !nth_error_map.
  destruct (nth_error (F x) i) eqn:E1; destruct (nth_error x i) eqn:E2; simpl; try reflexivity.
  - f_equal. ring.
  - exfalso. apply nth_error_None in E2. assert (nth_error (F x) i <> None) as N by congruence.
    apply nth_error_Some in N. lia.
Qed.

(* componentwise view for vectors of a fixed length *)
Lemma nth_zipw f (x y : vec) i : i < length x -> i < length y ->
  nth i (zipw f x y) s0 = f (nth i x s0) (nth i y s0).
Proof.
  revert y i; induction x as [|a x IH]; intros [|b y] [|i] Hx Hy; simpl in *; try lia; try reflexivity.
  apply IH; lia.
Qed.
Lemma nth_vscal a (x : vec) i : i < length x -> nth i (vscal a x) s0 = a * nth i x s0.
Proof.
  unfold vscal. revert i; induction x as [|b x IH]; intros [|i] Hx; simpl in *; try lia; try reflexivity.
  apply IH; lia.
Qed.
Lemma nth_vadd_n n (x y : vec) i : length x = n -> length y = n -> i < n ->
  nth i (vadd x y) s0 = nth i x s0 + nth i y s0.
Proof. intros Lx Ly Hi. apply nth_zipw; lia. Qed.
Lemma nth_vsub_n n (x y : vec) i : length x = n -> length y = n -> i < n ->
  nth i (vsub x y) s0 = nth i x s0 - nth i y s0.
Proof. intros Lx Ly Hi. apply nth_zipw; lia. Qed.
Lemma nth_vscal_n n a (x : vec) i : length x = n -> i < n -> nth i (vscal a x) s0 = a * nth i x s0.
Proof. intros Lx Hi. apply nth_vscal; lia. Qed.
Lemma vec_ext_n n (x y : vec) : length x = n -> length y = n ->
  (forall i, i < n -> nth i x s0 = nth i y s0) -> x = y.
Proof.
  intros Lx Ly H. apply (nth_ext x y s0 s0); [congruence|]. intros i Hi. apply H. lia.
Qed.

(* ---------- linear span of a set of generators (vectors of length n) ---------- *)
Section Span.
Variable n : nat.
Definition zeron : vec := repeat s0 n.
Lemma zeron_len : length zeron = n.
Proof. apply repeat_length. Qed.
Lemma vzeros_zeron (x : vec) : length x = n -> vzeros x = zeron.
Proof.
  intro L. unfold vzeros, zeron. rewrite <- L. clear L.
  induction x as [|a x IH]; simpl; [reflexivity|]. rewrite IH. reflexivity.
Qed.
Lemma rdot_zeron_l (z : vec) : rdot zeron z = s0.
Proof. rewrite <- (vzeros_zeron zeron zeron_len). apply rdot_vzeros_l. Qed.

Inductive span (G : vec -> Prop) : vec -> Prop :=
| sp_zero : span G zeron
| sp_gen v : G v -> span G v
| sp_add u v : span G u -> span G v -> span G (vadd u v)
| sp_scal a v : span G v -> span G (vscal a v).

Lemma span_len (G : vec -> Prop) : (forall v, G v -> length v = n) -> forall v, span G v -> length v = n.
Proof.
  intros HG v Hv. induction Hv; auto using zeron_len, vadd_len, vscal_len.
Qed.
Lemma span_sub (G : vec -> Prop) u v : span G u -> span G v -> span G (vsub u v).
Proof.
  intros Hu Hv. replace (vsub u v) with (vadd u (vscal (- s1) v)) by vext.
  apply sp_add; [exact Hu|apply sp_scal, Hv].
Qed.
(* span is monotone and idempotent *)
Lemma span_incl (G G' : vec -> Prop) : (forall v, G v -> span G' v) -> forall v, span G v -> span G' v.
Proof.
  intros H v Hv. induction Hv; [apply sp_zero|apply H; assumption|apply sp_add; assumption|apply sp_scal; assumption].
Qed.
Lemma span_mono (G G' : vec -> Prop) : (forall v, G v -> G' v) -> forall v, span G v -> span G' v.
Proof. intro H. apply span_incl. intros v Hv. apply sp_gen, H, Hv. Qed.
(* a vector orthogonal to the generators is orthogonal to the span *)
Lemma span_orth_l (G : vec -> Prop) (w : vec) : (forall v, G v -> length v = n) ->
  (forall v, G v -> rdot v w = s0) -> forall v, span G v -> rdot v w = s0.
Proof.
  intros HG H v Hv. induction Hv.
  - apply rdot_zeron_l.
  - apply H; assumption.
  - rewrite rdot_vadd_l, IHHv1, IHHv2; [ring|].
    rewrite (span_len G HG u Hv1), (span_len G HG v Hv2). reflexivity.
  - rewrite rdot_vscal_l, IHHv. ring.
Qed.
(* a linear map sends the span of G into the span of G' as soon as it does so on the generators *)
Lemma span_map (F : vec -> vec) (G G' : vec -> Prop) :
  (forall v, length v = n -> length (F v) = n) -> linear_on n F ->
  (forall v, G v -> length v = n) ->
  (forall v, G v -> span G' (F v)) -> forall v, span G v -> span G' (F v).
Proof.
  intros FL HL HG H v Hv. induction Hv.
  - rewrite <- (vzeros_zeron zeron zeron_len), (lin_zero n F FL HL zeron zeron_len),
      (vzeros_zeron zeron zeron_len). apply sp_zero.
  - apply H; assumption.
  - rewrite (lin_add n F HL) by (eapply span_len; eauto). apply sp_add; assumption.
  - rewrite (lin_scal n F FL HL) by (eapply span_len; eauto). apply sp_scal; assumption.
Qed.
End Span.

(* with a real scalar type also from the right *)
Lemma span_orth_r n (G : vec -> Prop) (w : vec) : (forall v, G v -> length v = n) ->
  (forall v, G v -> rdot w v = s0) -> forall v, span n G v -> rdot w v = s0.
Proof.
  intros HG H v Hv. rewrite rdot_sym. apply (span_orth_l n G w HG); [|exact Hv].
  intros u Hu. rewrite rdot_sym. apply H, Hu.
Qed.

End VecAlg.

