(* MatOps2Proofs.v -- proofs about the kernels of MatOps2.v (property C08).
     Module Rmerge : spgemm_rmerge (symbolic pass = numeric pass, dense product, = spgemm_saad,
                     sorted duplicate-free rows, wf) and backend::product for every thread count;
     Module Gersh  : Gershgorin branch of spectral_radius: value independent of the thread
                     chunking, upper bound of |lambda| for every eigenpair (ordered field
                     hypotheses, closed at Qc);
     Module PwCopy : crs constructors (round trip), generic helpers, and the structural lemmas of
                     the PRE-fix pointwise scan (definitions *_old);
     Module PwNew  : pointwise_matrix, current code: counting pass = fill pass, fuel, wf;
     Module PwSpec : pointwise_matrix, current code = block maximum on row-sorted input;
     Module Blk    : adapter::block_matrix = dense blocks of A, unblock_matrix round trip;
     Section PowerMethod : structure of one power-method sweep;
     top level     : refutation of the block-maximum specification by the faithful model of the
                     PRE-fix scan pointwise_matrix_old (witnesses were replayed on the implementation
                     before the fix; finding F-C08-pointwise-terminator, fixed). *)
From Coq Require Import Sorting.Sorted Sorting.Permutation.
From Coq Require Import QArith Qcanon Qcabs.
From Coq Require Import ZifyBool.
From Amgcl Require Import Scalar Vec Crs Kernels KernelsProofs MatOps MatOpsProofs MatOps2 QcInst.
Local Close Scope Qc_scope.
Local Close Scope Q_scope.
Local Open Scope nat_scope.
Local Open Scope S_scope.

Module Rmerge.
(* ================================================================== *)
(* Part A: any Scalar                                                  *)
Section AnyScalar.
Context {S : Scalar}.
Local Notation row := (row S).
Local Notation crs := (crs S).

(* ---------- unfolding equations of the nested fixpoints ---------- *)
Lemma merge_cols_nil_l l2 : merge_cols [] l2 = l2.
Proof. reflexivity. Qed.
Lemma merge_cols_nil_r l1 : merge_cols l1 [] = l1.
Proof. destruct l1; reflexivity. Qed.
Lemma merge_cols_cons_cons c1 t1 c2 t2 :
  merge_cols (c1 :: t1) (c2 :: t2) =
  if Nat.ltb c1 c2 then c1 :: merge_cols t1 (c2 :: t2)
  else if Nat.eqb c1 c2 then c1 :: merge_cols t1 t2
  else c2 :: merge_cols (c1 :: t1) t2.
Proof. reflexivity. Qed.

Lemma merge_count_nil_l l2 : merge_count [] l2 = length l2.
Proof. reflexivity. Qed.
Lemma merge_count_nil_r l1 : merge_count l1 [] = length l1.
Proof. destruct l1; reflexivity. Qed.
Lemma merge_count_cons_cons c1 t1 c2 t2 :
  merge_count (c1 :: t1) (c2 :: t2) =
  if Nat.ltb c1 c2 then Datatypes.S (merge_count t1 (c2 :: t2))
  else if Nat.eqb c1 c2 then Datatypes.S (merge_count t1 t2)
  else Datatypes.S (merge_count (c1 :: t1) t2).
Proof. reflexivity. Qed.

Lemma merge_rows_nil_l (a1 a2 : S) (r2 : row) : merge_rows a1 [] a2 r2 = rscale a2 r2.
Proof. reflexivity. Qed.
Lemma merge_rows_nil_r (a1 a2 : S) (r1 : row) : merge_rows a1 r1 a2 [] = rscale a1 r1.
Proof. destruct r1 as [|[c v] t]; reflexivity. Qed.
Lemma merge_rows_cons_cons (a1 : S) c1 v1 (t1 : row) (a2 : S) c2 v2 (t2 : row) :
  merge_rows a1 ((c1, v1) :: t1) a2 ((c2, v2) :: t2) =
  if Nat.ltb c1 c2 then (c1, a1 * v1) :: merge_rows a1 t1 a2 ((c2, v2) :: t2)
  else if Nat.eqb c1 c2 then (c1, a1 * v1 + a2 * v2) :: merge_rows a1 t1 a2 t2
  else (c2, a2 * v2) :: merge_rows a1 ((c1, v1) :: t1) a2 t2.
Proof. reflexivity. Qed.

Lemma prod_pairs_nil (B : crs) (tm1 : row) : prod_pairs B tm1 [] = tm1.
Proof. reflexivity. Qed.
Lemma prod_pairs_one (B : crs) (tm1 : row) c2 v2 :
  prod_pairs B tm1 [(c2, v2)] = merge_rows s1 tm1 v2 (brow B c2).
Proof. reflexivity. Qed.
Lemma prod_pairs_two (B : crs) (tm1 : row) c1 v1 c2 v2 tl :
  prod_pairs B tm1 ((c1, v1) :: (c2, v2) :: tl) =
  prod_pairs B (merge_rows s1 tm1 s1 (merge_rows v1 (brow B c1) v2 (brow B c2))) tl.
Proof. reflexivity. Qed.

Lemma width_pairs_nil (B : crs) t1 : width_pairs B t1 [] = length t1.
Proof. reflexivity. Qed.
Lemma width_pairs_one (B : crs) t1 a2 : width_pairs B t1 [a2] = merge_count t1 (bcols B a2).
Proof. reflexivity. Qed.
Lemma width_pairs_two (B : crs) t1 a1 a2 :
  width_pairs B t1 [a1; a2] = merge_count t1 (merge_cols (bcols B a1) (bcols B a2)).
Proof. reflexivity. Qed.
Lemma width_pairs_more (B : crs) t1 a1 a2 a3 tl :
  width_pairs B t1 (a1 :: a2 :: a3 :: tl) =
  width_pairs B (merge_cols t1 (merge_cols (bcols B a1) (bcols B a2))) (a3 :: tl).
Proof. reflexivity. Qed.

(* ---------- R4: symbolic pass = numeric pass ---------- *)
Lemma map_fst_rscale (a : S) (r : row) : map fst (rscale a r) = map fst r.
Proof. unfold rscale. rewrite map_map. reflexivity. Qed.

Lemma length_rscale (a : S) (r : row) : length (rscale a r) = length r.
Proof. apply map_length. Qed.

Lemma map_fst_merge_rows (a1 a2 : S) (r1 r2 : row) :
  map fst (merge_rows a1 r1 a2 r2) = merge_cols (map fst r1) (map fst r2).
Proof.
  revert r2; induction r1 as [|[c1 v1] t1 IH1]; intro r2.
  - rewrite merge_rows_nil_l, map_fst_rscale. reflexivity.
  - induction r2 as [|[c2 v2] t2 IH2].
    + rewrite merge_rows_nil_r, map_fst_rscale. simpl map at 2. rewrite merge_cols_nil_r. reflexivity.
    + rewrite merge_rows_cons_cons. cbn [map fst]. rewrite merge_cols_cons_cons.
      destruct (Nat.ltb c1 c2).
      * cbn [map fst]. rewrite IH1. reflexivity.
      * destruct (Nat.eqb c1 c2); cbn [map fst].
        -- rewrite IH1. reflexivity.
        -- rewrite IH2. reflexivity.
Qed.

Lemma merge_count_length (l1 l2 : list nat) : merge_count l1 l2 = length (merge_cols l1 l2).
Proof.
  revert l2; induction l1 as [|c1 t1 IH1]; intro l2.
  - reflexivity.
  - induction l2 as [|c2 t2 IH2].
    + rewrite merge_count_nil_r, merge_cols_nil_r. reflexivity.
    + rewrite merge_count_cons_cons, merge_cols_cons_cons.
      destruct (Nat.ltb c1 c2); [|destruct (Nat.eqb c1 c2)]; cbn [length];
        rewrite ?IH1, ?IH2; reflexivity.
Qed.

Lemma length_merge_rows (a1 a2 : S) (r1 r2 : row) :
  length (merge_rows a1 r1 a2 r2) = merge_count (map fst r1) (map fst r2).
Proof.
  rewrite <- (map_length fst), map_fst_merge_rows, merge_count_length. reflexivity.
Qed.

Lemma map_fst_merge2 (B : crs) (a1 a2 : S) c1 c2 :
  map fst (merge_rows a1 (brow B c1) a2 (brow B c2)) = merge_cols (bcols B c1) (bcols B c2).
Proof. apply map_fst_merge_rows. Qed.

Lemma width_pairs_correct (B : crs) n : forall (ra tm1 : row), length ra <= n ->
  width_pairs B (map fst tm1) (map fst ra) = length (prod_pairs B tm1 ra).
Proof.
  induction n as [|n IH]; intros ra tm1 Hn;
    destruct ra as [|[c1 v1] [|[c2 v2] tl]]; try (simpl in Hn; lia).
  - simpl. apply map_length.
  - simpl. apply map_length.
  - cbn [map fst]. rewrite width_pairs_one, prod_pairs_one, length_merge_rows. reflexivity.
  - rewrite prod_pairs_two. destruct tl as [|e tl].
    + cbn [map fst]. rewrite width_pairs_two, prod_pairs_nil, length_merge_rows, map_fst_merge2.
      reflexivity.
    + rewrite <- IH by (simpl in Hn |- *; lia).
      rewrite !map_fst_merge_rows. cbn [map fst]. rewrite width_pairs_more. reflexivity.
Qed.

Theorem prod_row_width_correct (ra : row) (B : crs) :
  prod_row_width (map fst ra) B = length (prod_row ra B).
Proof.
  destruct ra as [|[c1 v1] [|[c2 v2] tl]].
  - reflexivity.
  - simpl. unfold bcols. rewrite length_rscale, map_length. reflexivity.
  - destruct tl as [|e tl].
    + simpl. rewrite length_merge_rows. reflexivity.
    + change (prod_row ((c1, v1) :: (c2, v2) :: e :: tl) B)
        with (prod_pairs B (merge_rows v1 (brow B c1) v2 (brow B c2)) (e :: tl)).
      rewrite <- (width_pairs_correct B (length (e :: tl))) by lia.
      rewrite map_fst_merge2. reflexivity.
Qed.

(* C.ptr (first pass) fits what the second pass writes *)
Theorem rmerge_widths_correct (A B : crs) :
  rmerge_widths A B = map (@length _) (rows (spgemm_rmerge A B)).
Proof.
  unfold rmerge_widths, spgemm_rmerge. simpl. rewrite map_map.
  apply map_ext. intro ra. apply prod_row_width_correct.
Qed.

(* ---------- R5: structure (sortedness, no duplicates, wf) ---------- *)

(* column-list versions of the row predicates *)
Fixpoint scols (l : list nat) : bool :=
  match l with
  | c1 :: ((c2 :: _) as tl) => Nat.ltb c1 c2 && scols tl
  | _ => true
  end.
Definition hdgt (c : nat) (l : list nat) : Prop :=
  match l with [] => True | c' :: _ => c < c' end.

Lemma sorted_strict_scols (r : row) : sorted_strict r = scols (map fst r).
Proof.
  induction r as [|e1 r IH]; [reflexivity|].
  destruct r as [|e2 tl]; [reflexivity|].
  change (Nat.ltb (fst e1) (fst e2) && sorted_strict (e2 :: tl)
          = Nat.ltb (fst e1) (fst e2) && scols (map fst (e2 :: tl))).
  rewrite IH. reflexivity.
Qed.

Lemma row_wf_cols m (r : row) : row_wf m r = forallb (fun c => Nat.ltb c m) (map fst r).
Proof. unfold row_wf. induction r as [|e r IH]; simpl; [reflexivity|]. rewrite IH. reflexivity. Qed.

Lemma scols_cons c l : scols (c :: l) = true <-> hdgt c l /\ scols l = true.
Proof.
  destruct l as [|c' l]; [simpl; tauto|].
  change (Nat.ltb c c' && scols (c' :: l) = true <-> c < c' /\ scols (c' :: l) = true).
  rewrite andb_true_iff, Nat.ltb_lt. tauto.
Qed.

(* the head of the merge is one of the heads *)
Lemma hdgt_merge c l1 l2 : hdgt c l1 -> hdgt c l2 -> hdgt c (merge_cols l1 l2).
Proof.
  destruct l1 as [|c1 t1]; [simpl; tauto|].
  destruct l2 as [|c2 t2]; [simpl; tauto|].
  rewrite merge_cols_cons_cons. intros H1 H2.
  destruct (Nat.ltb c1 c2); [exact H1|]. destruct (Nat.eqb c1 c2); [exact H1|exact H2].
Qed.

Lemma scols_merge (l1 l2 : list nat) :
  scols l1 = true -> scols l2 = true -> scols (merge_cols l1 l2) = true.
Proof.
  revert l2; induction l1 as [|c1 t1 IH1]; intros l2 H1 H2.
  - exact H2.
  - induction l2 as [|c2 t2 IH2].
    + rewrite merge_cols_nil_r. exact H1.
    + rewrite merge_cols_cons_cons.
      pose proof (proj1 (scols_cons _ _) H1) as [G1 S1].
      pose proof (proj1 (scols_cons _ _) H2) as [G2 S2].
      destruct (Nat.ltb_spec c1 c2) as [Hlt|Hge].
      * apply scols_cons; split.
        -- apply hdgt_merge; [exact G1|exact Hlt].
        -- apply IH1; assumption.
      * destruct (Nat.eqb_spec c1 c2) as [Heq|Hne].
        -- subst c2. apply scols_cons; split.
           ++ apply hdgt_merge; assumption.
           ++ apply IH1; assumption.
        -- apply scols_cons; split.
           ++ apply hdgt_merge; [simpl; lia|exact G2].
           ++ apply IH2. exact S2.
Qed.

Lemma sorted_strict_rscale (a : S) (r : row) : sorted_strict (rscale a r) = sorted_strict r.
Proof. rewrite !sorted_strict_scols, map_fst_rscale. reflexivity. Qed.

Theorem sorted_strict_merge_rows (a1 a2 : S) (r1 r2 : row) :
  sorted_strict r1 = true -> sorted_strict r2 = true ->
  sorted_strict (merge_rows a1 r1 a2 r2) = true.
Proof.
  rewrite !sorted_strict_scols, map_fst_merge_rows. apply scols_merge.
Qed.

Lemma forallb_merge_cols (p : nat -> bool) (l1 l2 : list nat) :
  forallb p l1 = true -> forallb p l2 = true -> forallb p (merge_cols l1 l2) = true.
Proof.
  revert l2; induction l1 as [|c1 t1 IH1]; intros l2 H1 H2.
  - exact H2.
  - induction l2 as [|c2 t2 IH2].
    + rewrite merge_cols_nil_r. exact H1.
    + rewrite merge_cols_cons_cons.
      pose proof H1 as H1'. pose proof H2 as H2'.
      cbn [forallb] in H1', H2'.
      apply andb_prop in H1' as [P1 Q1]. apply andb_prop in H2' as [P2 Q2].
      destruct (Nat.ltb c1 c2); [|destruct (Nat.eqb c1 c2)]; cbn [forallb];
        apply andb_true_intro; split; auto.
Qed.

Lemma row_wf_rscale m (a : S) (r : row) : row_wf m (rscale a r) = row_wf m r.
Proof. rewrite !row_wf_cols, map_fst_rscale. reflexivity. Qed.

Theorem row_wf_merge_rows m (a1 a2 : S) (r1 r2 : row) :
  row_wf m r1 = true -> row_wf m r2 = true -> row_wf m (merge_rows a1 r1 a2 r2) = true.
Proof. rewrite !row_wf_cols, map_fst_merge_rows. apply forallb_merge_cols. Qed.

(* any row predicate that holds of [] and of the rows of B and is preserved by
   rscale / merge_rows holds of every row produced by prod_row *)
Section Closed.
Variable P : row -> Prop.
Variable B : crs.
Hypothesis P_nil : P [].
Hypothesis P_rscale : forall a r, P r -> P (rscale a r).
Hypothesis P_merge : forall a1 r1 a2 r2, P r1 -> P r2 -> P (merge_rows a1 r1 a2 r2).
Hypothesis P_rows : forall r, In r (rows B) -> P r.

Lemma brow_closed c : P (brow B c).
Proof.
  unfold brow. destruct (nth_in_or_default c (rows B) []) as [Hin| ->]; [apply P_rows; exact Hin|exact P_nil].
Qed.

Lemma prod_pairs_closed n : forall (ra tm1 : row), length ra <= n -> P tm1 -> P (prod_pairs B tm1 ra).
Proof.
  induction n as [|n IH]; intros ra tm1 Hn Ht;
    destruct ra as [|[c1 v1] [|[c2 v2] tl]]; try (simpl in Hn; lia).
  - exact Ht.
  - exact Ht.
  - rewrite prod_pairs_one. apply P_merge; [exact Ht|apply brow_closed].
  - rewrite prod_pairs_two. apply IH; [simpl in Hn; lia|].
    apply P_merge; [exact Ht|]. apply P_merge; apply brow_closed.
Qed.

Lemma prod_row_closed (ra : row) : P (prod_row ra B).
Proof.
  destruct ra as [|[c1 v1] [|[c2 v2] tl]].
  - exact P_nil.
  - simpl. apply P_rscale, brow_closed.
  - destruct tl as [|e tl].
    + simpl. apply P_merge; apply brow_closed.
    + change (prod_row ((c1, v1) :: (c2, v2) :: e :: tl) B)
        with (prod_pairs B (merge_rows v1 (brow B c1) v2 (brow B c2)) (e :: tl)).
      apply (prod_pairs_closed (length (e :: tl))); [lia|].
      apply P_merge; apply brow_closed.
Qed.
End Closed.

Theorem prod_row_sorted_strict (ra : row) (B : crs) :
  forallb sorted_strict (rows B) = true -> sorted_strict (prod_row ra B) = true.
Proof.
  intro HB. apply (prod_row_closed (fun r => sorted_strict r = true)).
  - reflexivity.
  - intros a r H. rewrite sorted_strict_rscale. exact H.
  - intros. apply sorted_strict_merge_rows; assumption.
  - intros r Hin. rewrite forallb_forall in HB. apply HB. exact Hin.
Qed.

Theorem spgemm_rmerge_sorted_strict (A B : crs) :
  forallb sorted_strict (rows B) = true ->
  forallb sorted_strict (rows (spgemm_rmerge A B)) = true.
Proof.
  intro HB. apply forallb_forall. intros r Hin. unfold spgemm_rmerge in Hin. simpl in Hin.
  apply in_map_iff in Hin as [ra [<- _]]. apply prod_row_sorted_strict. exact HB.
Qed.

(* bridge to propositional characterisations *)
Lemma scols_Forall_gt c l : scols (c :: l) = true -> Forall (fun x => c < x) l.
Proof.
  revert c; induction l as [|c' l IH]; intros c H; [constructor|].
  apply scols_cons in H as [Hc H]. simpl in Hc. constructor; [exact Hc|].
  eapply Forall_impl; [|apply IH; exact H]. simpl. intros x Hx. lia.
Qed.

Lemma scols_tail c l : scols (c :: l) = true -> scols l = true.
Proof. intro H. apply scols_cons in H. tauto. Qed.

Lemma scols_StronglySorted l : scols l = true -> StronglySorted lt l.
Proof.
  induction l as [|c l IH]; intro H; constructor.
  - apply IH. eapply scols_tail; exact H.
  - apply scols_Forall_gt. exact H.
Qed.

Lemma StronglySorted_scols l : StronglySorted lt l -> scols l = true.
Proof.
  induction l as [|c l IH]; intro H; [reflexivity|].
  inversion H as [|? ? Hs Hf]; subst. apply scols_cons; split; [|apply IH; exact Hs].
  destruct l as [|c' l]; [exact I|]. inversion Hf; subst. assumption.
Qed.

Theorem sorted_strict_StronglySorted (r : row) :
  sorted_strict r = true <-> StronglySorted (fun x y => fst x < fst y) r.
Proof.
  rewrite sorted_strict_scols. split.
  - intro H. apply scols_StronglySorted in H.
    induction r as [|e r IH]; [constructor|].
    simpl in H. inversion H as [|? ? Hs Hf]; subst. constructor; [apply IH; exact Hs|].
    rewrite Forall_map in Hf. exact Hf.
  - intro H. apply StronglySorted_scols.
    induction H as [|e r Hs IH Hf]; [constructor|].
    simpl. constructor; [exact IH|]. rewrite Forall_map. exact Hf.
Qed.

Lemma scols_NoDup l : scols l = true -> NoDup l.
Proof.
  induction l as [|c l IH]; intro H; constructor.
  - intro Hin. apply scols_Forall_gt in H. rewrite Forall_forall in H. specialize (H c Hin). lia.
  - apply IH. eapply scols_tail; exact H.
Qed.

Theorem sorted_strict_NoDup (r : row) : sorted_strict r = true -> NoDup (map fst r).
Proof. rewrite sorted_strict_scols. apply scols_NoDup. Qed.

Theorem spgemm_rmerge_NoDup (A B : crs) :
  forallb sorted_strict (rows B) = true ->
  forall r, In r (rows (spgemm_rmerge A B)) -> NoDup (map fst r).
Proof.
  intros HB r Hin. apply sorted_strict_NoDup.
  pose proof (spgemm_rmerge_sorted_strict A B HB) as H. rewrite forallb_forall in H. apply H, Hin.
Qed.

(* every column of the output is a column of a row of B: no hypothesis on A *)
Theorem prod_row_wf (ra : row) (B : crs) :
  wf B = true -> row_wf (ncols B) (prod_row ra B) = true.
Proof.
  intro HB. apply (prod_row_closed (fun r => row_wf (ncols B) r = true)).
  - reflexivity.
  - intros a r H. rewrite row_wf_rscale. exact H.
  - intros. apply row_wf_merge_rows; assumption.
  - intros r Hin. unfold wf in HB. rewrite forallb_forall in HB. apply HB. exact Hin.
Qed.

Theorem spgemm_rmerge_wf (A B : crs) : wf B = true -> wf (spgemm_rmerge A B) = true.
Proof.
  intro HB. unfold wf. apply forallb_forall. intros r Hin.
  unfold spgemm_rmerge in Hin |- *. simpl in Hin |- *.
  apply in_map_iff in Hin as [ra [<- _]]. apply prod_row_wf. exact HB.
Qed.

Lemma spgemm_rmerge_nrows (A B : crs) : nrows (spgemm_rmerge A B) = nrows A.
Proof. unfold nrows, spgemm_rmerge. simpl. apply map_length. Qed.

Lemma spgemm_rmerge_ncols (A B : crs) : ncols (spgemm_rmerge A B) = ncols B.
Proof. reflexivity. Qed.

End AnyScalar.

(* ================================================================== *)
(* Part B: commutative ring                                            *)
Section RingLaws.
Context {S : Scalar}.
Local Notation row := (row S).
Local Notation crs := (crs S).
Hypothesis Srt : Sring S.
Add Ring SRingR : Srt.

(* ---------- R1: dense semantics of the merge ---------- *)
Lemma rget_rscale (a : S) (r : row) j : rget (rscale a r) j = a * rget r j.
Proof.
  induction r as [|e r IH].
  - simpl. rewrite rget_nil. ring.
  - change (rscale a (e :: r)) with ((fst e, a * snd e) :: rscale a r).
    rewrite !(rget_cons Srt), IH. cbn [fst snd]. destruct (Nat.eqb (fst e) j); ring.
Qed.

(* no sortedness needed: the merge interleaves and combines equal heads, and the
   dense semantics adds duplicates *)
Theorem rget_merge_rows (a1 : S) (r1 : row) (a2 : S) (r2 : row) j :
  rget (merge_rows a1 r1 a2 r2) j = a1 * rget r1 j + a2 * rget r2 j.
Proof.
  revert r2; induction r1 as [|[c1 v1] t1 IH1]; intro r2.
  - rewrite merge_rows_nil_l, rget_rscale, rget_nil. ring.
  - induction r2 as [|[c2 v2] t2 IH2].
    + rewrite merge_rows_nil_r, rget_rscale, rget_nil. ring.
    + rewrite merge_rows_cons_cons.
      destruct (Nat.ltb c1 c2).
      * rewrite (rget_cons Srt), IH1, (rget_cons Srt (c1, v1)). cbn [fst snd].
        destruct (Nat.eqb c1 j); ring.
      * destruct (Nat.eqb_spec c1 c2) as [Heq|Hne].
        -- subst c2. rewrite (rget_cons Srt), IH1, (rget_cons Srt (c1, v1)), (rget_cons Srt (c1, v2)).
           cbn [fst snd]. destruct (Nat.eqb c1 j); ring.
        -- rewrite (rget_cons Srt), IH2, (rget_cons Srt (c2, v2)). cbn [fst snd].
           destruct (Nat.eqb c2 j); ring.
Qed.

(* ---------- R2: prod_row computes the linear combination of the rows of B ---------- *)
Lemma row_lin_nil (B : crs) j : row_lin [] B j = s0.
Proof. reflexivity. Qed.
Lemma row_lin_cons c (v : S) (ra : row) (B : crs) j :
  row_lin ((c, v) :: ra) B j = v * rget (brow B c) j + row_lin ra B j.
Proof. reflexivity. Qed.

Lemma rget_prod_pairs (B : crs) j n : forall (ra tm1 : row), length ra <= n ->
  rget (prod_pairs B tm1 ra) j = rget tm1 j + row_lin ra B j.
Proof.
  induction n as [|n IH]; intros ra tm1 Hn;
    destruct ra as [|[c1 v1] [|[c2 v2] tl]]; try (simpl in Hn; lia).
  - rewrite prod_pairs_nil, row_lin_nil. ring.
  - rewrite prod_pairs_nil, row_lin_nil. ring.
  - rewrite prod_pairs_one, rget_merge_rows, row_lin_cons, row_lin_nil. ring.
  - rewrite prod_pairs_two, IH by (simpl in Hn; lia).
    rewrite !rget_merge_rows, !row_lin_cons. ring.
Qed.

Theorem rget_prod_row (ra : row) (B : crs) j : rget (prod_row ra B) j = row_lin ra B j.
Proof.
  destruct ra as [|[c1 v1] [|[c2 v2] tl]].
  - reflexivity.
  - change (prod_row [(c1, v1)] B) with (rscale v1 (brow B c1)).
    rewrite rget_rscale, row_lin_cons, row_lin_nil. ring.
  - destruct tl as [|e tl].
    + change (prod_row [(c1, v1); (c2, v2)] B) with (merge_rows v1 (brow B c1) v2 (brow B c2)).
      rewrite rget_merge_rows, !row_lin_cons, row_lin_nil. ring.
    + change (prod_row ((c1, v1) :: (c2, v2) :: e :: tl) B)
        with (prod_pairs B (merge_rows v1 (brow B c1) v2 (brow B c2)) (e :: tl)).
      rewrite (rget_prod_pairs B j (length (e :: tl))) by lia.
      rewrite rget_merge_rows, !row_lin_cons. ring.
Qed.

(* ---------- R3: dense product, agreement with spgemm_saad ---------- *)
Lemma rows_rmerge_nth (A B : crs) i :
  nth i (rows (spgemm_rmerge A B)) [] = prod_row (nth i (rows A) []) B.
Proof.
  unfold spgemm_rmerge. cbn [rows].
  change (@nil (nat * S)) with (prod_row (@nil (nat * S)) B) at 1.
  apply (map_nth (fun ra => prod_row ra B)).
Qed.

Lemma mget_rmerge_row_lin (A B : crs) i j :
  mget (spgemm_rmerge A B) i j = row_lin (nth i (rows A) []) B j.
Proof. unfold mget. rewrite rows_rmerge_nth. apply rget_prod_row. Qed.

Theorem spgemm_rmerge_dense (A B : crs) i j : wf A = true -> i < nrows A ->
  mget (spgemm_rmerge A B) i j = sumn (fun k => mget A i k * mget B k j) (ncols A).
Proof.
  intros Hwf Hi. rewrite mget_rmerge_row_lin. unfold mget at 1.
  apply (row_lin_dense Srt). apply forallb_nth; assumption.
Qed.

Lemma rget_ins_right (e : nat * S) (r : row) j : rget (ins_right e r) j = rget (e :: r) j.
Proof.
  induction r as [|e' r IH]; [reflexivity|].
  simpl ins_right. destruct (Nat.leb (fst e') (fst e)); [|reflexivity].
  rewrite (rget_cons Srt), IH, !(rget_cons Srt). ring.
Qed.

Lemma rget_sort_fold (r acc : row) j :
  rget (fold_left (fun acc e => ins_right e acc) r acc) j = rget acc j + rget r j.
Proof.
  revert acc; induction r as [|e r IH]; intro acc; simpl.
  - rewrite rget_nil. ring.
  - rewrite IH, rget_ins_right, !(rget_cons Srt). ring.
Qed.

Lemma rget_sort_row_local (r : row) j : rget (sort_row r) j = rget r j.
Proof. unfold sort_row. rewrite rget_sort_fold, rget_nil. ring. Qed.

Lemma rows_saad_nth (A B : crs) sort i :
  nth i (rows (spgemm_saad A B sort)) [] =
  (let r := spgemm_row (nth i (rows A) []) B in if sort then sort_row r else r).
Proof.
  unfold spgemm_saad. cbn [rows].
  set (f := fun ra : row => let r := spgemm_row ra B in if sort then sort_row r else r).
  change (nth i (map f (rows A)) [] = f (nth i (rows A) [])).
  assert (Hf : f [] = []) by (unfold f; destruct sort; reflexivity).
  rewrite <- Hf at 1. apply map_nth.
Qed.

Lemma mget_saad_row_lin (A B : crs) sort i j :
  mget (spgemm_saad A B sort) i j = row_lin (nth i (rows A) []) B j.
Proof.
  unfold mget. rewrite rows_saad_nth. cbv zeta.
  destruct sort; rewrite ?rget_sort_row_local; apply (rget_spgemm_row Srt).
Qed.

(* holds for every (i, j), in or out of range, and for both values of [sort] *)
Theorem rmerge_eq_saad_dense_all (A B : crs) sort i j :
  mget (spgemm_rmerge A B) i j = mget (spgemm_saad A B sort) i j.
Proof. rewrite mget_rmerge_row_lin, mget_saad_row_lin. reflexivity. Qed.

Theorem rmerge_eq_saad_dense (A B : crs) sort i j : wf A = true -> i < nrows A ->
  mget (spgemm_rmerge A B) i j = mget (spgemm_saad A B sort) i j.
Proof. intros _ _. apply rmerge_eq_saad_dense_all. Qed.

(* backend::product gives the same dense matrix whatever the thread count *)
Corollary product_dense (nt : nat) (A B : crs) sort i j : wf A = true -> i < nrows A ->
  mget (product nt A B sort) i j = sumn (fun k => mget A i k * mget B k j) (ncols A).
Proof.
  intros Hwf Hi. unfold product. destruct (Nat.ltb 16 nt).
  - apply spgemm_rmerge_dense; assumption.
  - rewrite <- (rmerge_eq_saad_dense_all A B sort). apply spgemm_rmerge_dense; assumption.
Qed.

End RingLaws.

(* ================================================================== *)
(* Part C: closed instance at Qc, and a computed example               *)
Theorem spgemm_rmerge_dense_Qc (A B : crs QcS) i j : wf A = true -> i < nrows A ->
  mget (spgemm_rmerge A B) i j = sumn (fun k => mget A i k * mget B k j) (ncols A).
Proof. apply (spgemm_rmerge_dense QcS_ring). Qed.
Print Assumptions spgemm_rmerge_dense_Qc.

Theorem rmerge_eq_saad_dense_Qc (A B : crs QcS) sort i j :
  mget (spgemm_rmerge A B) i j = mget (spgemm_saad A B sort) i j.
Proof. apply (rmerge_eq_saad_dense_all QcS_ring). Qed.
Print Assumptions rmerge_eq_saad_dense_Qc.

Print Assumptions prod_row_width_correct.
Print Assumptions spgemm_rmerge_sorted_strict.
Print Assumptions spgemm_rmerge_wf.

(* rows as (column, plain rational) so that results can be compared by computation
   (a Qc carries a canonicity proof that vm_compute does not normalise) *)
Definition qrows (A : crs QcS) : list (list (nat * QArith_base.Q)) :=
  map (map (fun e => (fst e, Qcanon.this (snd e)))) (rows A).

Definition exA : crs QcS := mkCrs 4
  [ [(0, qc 2 1); (1, qc (-1) 1); (3, qc 1 2)];                       (* 3 entries: generic path + tail *)
    [(3, qc 1 1); (0, qc 1 3); (2, qc 2 1); (1, qc (-4) 1)];          (* 4 entries: generic path, pairs only *)
    [(2, qc 5 1)];                                                     (* 1 entry *)
    [];                                                                (* empty row *)
    [(1, qc 1 1); (1, qc 1 1)];                                        (* 2 entries (duplicate column in A) *)
    [(0, qc 1 1); (1, qc 1 1); (2, qc 1 1); (3, qc 1 1); (0, qc (-1) 1)] ]. (* 5 entries, cancellation *)
Definition exB : crs QcS := mkCrs 5
  [ [(0, qc 1 2); (2, qc 3 1); (4, qc (-1) 1)];
    [(1, qc 2 1); (2, qc 1 3)];
    [(0, qc (-1) 1); (3, qc 5 1); (4, qc 2 7)];
    [(1, qc 1 1); (3, qc (-2) 1)] ].

Example rmerge_example_saad :
  qrows (spgemm_rmerge exA exB) = qrows (sort_rows (spgemm_saad exA exB false))
  /\ ncols (spgemm_rmerge exA exB) = ncols (sort_rows (spgemm_saad exA exB false)).
Proof. vm_compute. split; reflexivity. Qed.

Example rmerge_example_saad_sorted :
  qrows (spgemm_rmerge exA exB) = qrows (spgemm_saad exA exB true).
Proof. vm_compute. reflexivity. Qed.

Example rmerge_example_widths :
  rmerge_widths exA exB = [5; 5; 3; 0; 2; 5]
  /\ map (@length _) (rows (spgemm_rmerge exA exB)) = [5; 5; 3; 0; 2; 5].
Proof. vm_compute. split; reflexivity. Qed.

End Rmerge.

Module Gersh.
(* x <= y, through the record's boolean operator< *)
Definition sle {S : Scalar} (x y : S) : Prop := sltb y x = false.

(* the last stored diagonal entry of row i (identity when the row has none):
   the value of the C++ row-local [dia] at the end of row i *)
Definition last_diag {S : Scalar} (A : crs S) (i : nat) : S :=
  match last_col (nth i (rows A) []) i with Some d => d | None => s1 end.

(* every row has a stored diagonal entry (no longer a guard of G2 since [dia] is
   reset at every row; kept because other files refer to it) *)
Definition has_last_diag_row {S : Scalar} (ir : nat * row S) : bool :=
  match last_col (snd ir) (fst ir) with Some _ => true | None => false end.
Definition has_last_diag {S : Scalar} (A : crs S) : bool :=
  forallb has_last_diag_row (indexed (rows A)).

Section Gershgorin.
Context {S : Scalar}.
Local Notation vec := (vec S).
Local Notation row := (row S).
Local Notation crs := (crs S).

(* ---- total order through sltb ---- *)
Hypothesis lt_irrefl : forall x : S, sltb x x = false.
Hypothesis lt_trans  : forall x y z : S, sltb x y = true -> sltb y z = true -> sltb x z = true.
Hypothesis lt_total  : forall x y : S, sltb x y = false -> sltb y x = false -> x = y.
(* ---- ordered commutative ring ---- *)
Hypothesis Srt : Sring S.
Hypothesis lt_add : forall x y z : S, sltb x y = true -> sltb (x + z) (y + z) = true.
Hypothesis lt_mul : forall x y z : S, sltb s0 z = true -> sltb x y = true -> sltb (x * z) (y * z) = true.
(* ---- absolute value ---- *)
Hypothesis abs_nonneg : forall x : S, sle s0 (sabs x).
Hypothesis abs_0      : sabs (@s0 S) = s0.
Hypothesis abs_zero   : forall x : S, sabs x = s0 -> x = s0.
Hypothesis abs_mul    : forall x y : S, sabs (x * y) = sabs x * sabs y.
Hypothesis abs_tri    : forall x y : S, sle (sabs (x + y)) (sabs x + sabs y).
(* ---- field (scaled bound only) ---- *)
Hypothesis Sft : Sfield S.

Add Ring SRing : Srt.

(* ------------------------------------------------------------------ *)
(* order lemmas (lt_irrefl, lt_trans, lt_total only)                   *)

Lemma sle_refl (x : S) : sle x x.
Proof. apply lt_irrefl. Qed.

Lemma sle_trans (x y z : S) : sle x y -> sle y z -> sle x z.
Proof.
  unfold sle. intros Hxy Hyz. destruct (sltb z x) eqn:Hzx; [|reflexivity].
  destruct (sltb x y) eqn:E.
  - rewrite (lt_trans z x y Hzx E) in Hyz. discriminate.
  - assert (x = y) by (apply lt_total; assumption). subst. congruence.
Qed.

Lemma slt_le (x y : S) : sltb x y = true -> sle x y.
Proof.
  unfold sle. intro H. destruct (sltb y x) eqn:E; [|reflexivity].
  rewrite <- (lt_irrefl x). symmetry. apply (lt_trans x y x); assumption.
Qed.

Lemma sle_antisym (x y : S) : sle x y -> sle y x -> x = y.
Proof. unfold sle. intros H1 H2. apply lt_total; assumption. Qed.

Lemma sle_cases (x y : S) : sle x y -> sltb x y = true \/ x = y.
Proof.
  intro H. destruct (sltb x y) eqn:E; [left; reflexivity|right].
  apply lt_total; assumption.
Qed.

Lemma sle_total (x y : S) : sle x y \/ sle y x.
Proof.
  destruct (sltb y x) eqn:E; [right; apply slt_le; exact E|left; exact E].
Qed.

Lemma slt_le_trans (x y z : S) : sltb x y = true -> sle y z -> sltb x z = true.
Proof.
  intros Hxy Hyz. destruct (sltb x z) eqn:E; [reflexivity|].
  assert (H : sle y x) by (apply (sle_trans y z x); assumption).
  unfold sle in H. congruence.
Qed.

Lemma sle_lt_trans (x y z : S) : sle x y -> sltb y z = true -> sltb x z = true.
Proof.
  intros Hxy Hyz. destruct (sltb x z) eqn:E; [reflexivity|].
  assert (H : sle z y) by (apply (sle_trans z x y); assumption).
  unfold sle in H. congruence.
Qed.

(* smax is the least upper bound *)
Lemma smax_l (x y : S) : sle x (smax x y).
Proof. unfold smax. destruct (sltb x y) eqn:E; [apply slt_le; exact E|apply sle_refl]. Qed.

Lemma smax_r (x y : S) : sle y (smax x y).
Proof. unfold smax. destruct (sltb x y) eqn:E; [apply sle_refl|exact E]. Qed.

Lemma smax_lub (x y z : S) : sle x z -> sle y z -> sle (smax x y) z.
Proof. unfold smax. destruct (sltb x y); auto. Qed.

Lemma smax_eq_l (x y : S) : sle y x -> smax x y = x.
Proof. unfold smax, sle. intros ->. reflexivity. Qed.

Lemma smax_eq_r (x y : S) : sle x y -> smax x y = y.
Proof.
  intro H. apply sle_antisym; [apply smax_lub; [exact H|apply sle_refl]|apply smax_r].
Qed.

Lemma smax_assoc (x y z : S) : smax (smax x y) z = smax x (smax y z).
Proof.
  apply sle_antisym.
  - apply smax_lub; [apply smax_lub|].
    + apply smax_l.
    + apply (sle_trans _ (smax y z)); [apply smax_l|apply smax_r].
    + apply (sle_trans _ (smax y z)); [apply smax_r|apply smax_r].
  - apply smax_lub; [|apply smax_lub].
    + apply (sle_trans _ (smax x y)); [apply smax_l|apply smax_l].
    + apply (sle_trans _ (smax x y)); [apply smax_r|apply smax_l].
    + apply smax_r.
Qed.

Lemma smax_comm (x y : S) : smax x y = smax y x.
Proof.
  apply sle_antisym; apply smax_lub; first [apply smax_l|apply smax_r].
Qed.

Lemma smax_idem (x : S) : smax x x = x.
Proof. apply smax_eq_l, sle_refl. Qed.

(* running maximum *)
Lemma max_from_smax (a b : S) (l : list S) : max_from (smax a b) l = smax a (max_from b l).
Proof.
  unfold max_from. revert b; induction l as [|c l IH]; intro b; simpl; [reflexivity|].
  rewrite smax_assoc. apply IH.
Qed.

Lemma max_from_ge (a : S) (l : list S) : sle a (max_from a l).
Proof.
  unfold max_from. revert a; induction l as [|c l IH]; intro a; simpl; [apply sle_refl|].
  apply (sle_trans _ (smax a c)); [apply smax_l|apply IH].
Qed.

Lemma max_from_In (a x : S) (l : list S) : In x l -> sle x (max_from a l).
Proof.
  unfold max_from. revert a; induction l as [|c l IH]; intros a Hx; simpl in *; [contradiction|].
  destruct Hx as [Hx|Hx].
  - subst c. apply (sle_trans _ (smax a x)); [apply smax_r|apply (max_from_ge (smax a x) l)].
  - apply IH. exact Hx.
Qed.

Lemma max_from_app (a : S) (l1 l2 : list S) :
  max_from a (l1 ++ l2) = max_from (max_from a l1) l2.
Proof. unfold max_from. apply fold_left_app. Qed.

(* thread combination: any chunking that covers the rows gives the global maximum *)
Lemma smax_max_from_s0 (r : S) (l : list S) : sle s0 r -> smax r (max_from s0 l) = max_from r l.
Proof. intro H. rewrite <- max_from_smax. rewrite smax_eq_l by exact H. reflexivity. Qed.

Lemma chunks_max {X : Type} (P : X -> bool) (f : X -> S) (g : list X -> S) :
  (forall ch, forallb P ch = true -> g ch = max_from s0 (map f ch)) ->
  forall (lens : list nat) (l : list X) (r0 : S),
    forallb P l = true -> sle s0 r0 -> length l <= fold_right Nat.add 0 lens ->
    fold_left (fun r ch => smax r (g ch)) (chunks lens l) r0 = max_from r0 (map f l).
Proof.
  intro Hg. induction lens as [|n ns IH]; intros l r0 HP Hr Hl; simpl in *.
  - destruct l; simpl in *; [reflexivity|lia].
  - rewrite <- (firstn_skipn n l) in HP. rewrite forallb_app in HP.
    apply andb_prop in HP as [HP1 HP2].
    rewrite Hg by exact HP1. rewrite smax_max_from_s0 by exact Hr.
    rewrite IH.
    + rewrite <- max_from_app, <- map_app, firstn_skipn. reflexivity.
    + exact HP2.
    + apply (sle_trans _ r0); [exact Hr|apply max_from_ge].
    + rewrite skipn_length. lia.
Qed.

(* ------------------------------------------------------------------ *)
(* the row loop                                                        *)

Lemma gersh_inner (scale : bool) (i : nat) (r : row) (a dia : S) :
  fold_left (fun (sd : S * S) e =>
               (fst sd + sabs (snd e),
                if scale && Nat.eqb (fst e) i then snd e else snd sd)) r (a, dia)
  = (fold_left (fun a e => a + sabs (snd e)) r a,
     if scale then match last_col r i with Some d => d | None => dia end else dia).
Proof.
  revert a dia; induction r as [|[c v] r IH]; intros a dia; simpl.
  - destruct scale; reflexivity.
  - rewrite IH. f_equal. destruct scale; simpl; [|reflexivity].
    destruct (last_col r i); [reflexivity|]. destruct (Nat.eqb c i); reflexivity.
Qed.

(* the inner loop as the C++ runs it now: [s = 0], [dia = identity] at every row *)
Lemma gersh_inner0 (i : nat) (r : row) :
  fold_left (fun (sd : S * S) e =>
               (fst sd + sabs (snd e),
                if true && Nat.eqb (fst e) i then snd e else snd sd)) r (s0, s1)
  = (abs_row_sum r, match last_col r i with Some d => d | None => s1 end).
Proof. rewrite (gersh_inner true i). reflexivity. Qed.

Lemma gersh_row_spec (scale : bool) (e : S) (ir : nat * row) :
  gersh_row scale e ir = smax e (gersh_spec_row scale ir).
Proof.
  unfold gersh_row, gersh_spec_row. rewrite (gersh_inner scale (fst ir)).
  cbn [fst snd]. destruct scale; reflexivity.
Qed.

Lemma gersh_row_unscaled (e : S) (ir : nat * row) :
  gersh_row false e ir = smax e (gersh_spec_row false ir).
Proof. apply gersh_row_spec. Qed.

Lemma gersh_row_scaled (e : S) (ir : nat * row) :
  gersh_row true e ir = smax e (gersh_spec_row true ir).
Proof. apply gersh_row_spec. Qed.

Lemma gersh_fold (scale : bool) (irs : list (nat * row)) (e : S) :
  fold_left (gersh_row scale) irs e = max_from e (map (gersh_spec_row scale) irs).
Proof.
  revert e; induction irs as [|ir irs IH]; intro e; cbn [fold_left map]; [reflexivity|].
  rewrite gersh_row_spec. apply IH.
Qed.

Lemma gersh_fold_unscaled (irs : list (nat * row)) (e : S) :
  fold_left (gersh_row false) irs e = max_from e (map (gersh_spec_row false) irs).
Proof. apply gersh_fold. Qed.

Lemma gersh_fold_scaled (irs : list (nat * row)) (e : S) :
  fold_left (gersh_row true) irs e = max_from e (map (gersh_spec_row true) irs).
Proof. apply gersh_fold. Qed.

(* one thread computes the maximum of the row estimates of its chunk, for both
   variants and without any assumption on the diagonal *)
Lemma gersh_chunk_spec (scale : bool) (irs : list (nat * row)) :
  gersh_chunk scale irs = max_from s0 (map (gersh_spec_row scale) irs).
Proof. unfold gersh_chunk. apply gersh_fold. Qed.

Lemma gersh_chunk_unscaled (irs : list (nat * row)) :
  gersh_chunk false irs = max_from s0 (map (gersh_spec_row false) irs).
Proof. apply gersh_chunk_spec. Qed.

Lemma gersh_chunk_scaled (irs : list (nat * row)) :
  gersh_chunk true irs = max_from s0 (map (gersh_spec_row true) irs).
Proof. apply gersh_chunk_spec. Qed.

Lemma indexed_length {X} (l : list X) : length (indexed l) = length l.
Proof. unfold indexed. rewrite combine_length, seq_length. apply Nat.min_id. Qed.

Lemma gersh_spec_nonneg (scale : bool) (A : crs) : sltb (gersh_spec scale A) s0 = false.
Proof. apply (max_from_ge s0). Qed.

(* G1 *)
Theorem gersh_value_unscaled (lens : list nat) (A : crs) :
  nrows A <= fold_right Nat.add 0 lens ->
  spectral_radius_gersh false lens A = gersh_spec false A.
Proof.
  intro H. unfold spectral_radius_gersh.
  rewrite (chunks_max (fun _ => true) (gersh_spec_row false) (gersh_chunk false)).
  - fold (gersh_spec false A). rewrite gersh_spec_nonneg. reflexivity.
  - intros ch _. apply gersh_chunk_unscaled.
  - apply forallb_forall. reflexivity.
  - apply sle_refl.
  - rewrite indexed_length. exact H.
Qed.

(* G2: no assumption on the diagonal (a row without stored diagonal entry is
   scaled by the identity, in the code and in the specification alike) *)
Theorem gersh_value_scaled (lens : list nat) (A : crs) :
  nrows A <= fold_right Nat.add 0 lens ->
  spectral_radius_gersh true lens A = gersh_spec true A.
Proof.
  intro H. unfold spectral_radius_gersh.
  rewrite (chunks_max (fun _ => true) (gersh_spec_row true) (gersh_chunk true)).
  - fold (gersh_spec true A). rewrite gersh_spec_nonneg. reflexivity.
  - intros ch _. apply gersh_chunk_scaled.
  - apply forallb_forall. reflexivity.
  - apply sle_refl.
  - rewrite indexed_length. exact H.
Qed.

(* chunk independence, as corollaries *)
Corollary gersh_unscaled_chunk_indep (lens lens' : list nat) (A : crs) :
  nrows A <= fold_right Nat.add 0 lens -> nrows A <= fold_right Nat.add 0 lens' ->
  spectral_radius_gersh false lens A = spectral_radius_gersh false lens' A.
Proof. intros H H'. rewrite !gersh_value_unscaled by assumption. reflexivity. Qed.

Corollary gersh_scaled_chunk_indep (lens lens' : list nat) (A : crs) :
  nrows A <= fold_right Nat.add 0 lens -> nrows A <= fold_right Nat.add 0 lens' ->
  spectral_radius_gersh true lens A = spectral_radius_gersh true lens' A.
Proof. intros H H'. rewrite !gersh_value_scaled by assumption. reflexivity. Qed.

(* ------------------------------------------------------------------ *)
(* ordered-ring lemmas                                                 *)

Lemma sle_add_r (x y z : S) : sle x y -> sle (x + z) (y + z).
Proof.
  unfold sle. intro H. destruct (sltb (y + z) (x + z)) eqn:E; [|reflexivity].
  apply (lt_add _ _ (- z)) in E.
  replace (y + z + - z) with y in E by ring. replace (x + z + - z) with x in E by ring.
  congruence.
Qed.

Lemma sle_add (a b c d : S) : sle a b -> sle c d -> sle (a + c) (b + d).
Proof.
  intros H1 H2. apply (sle_trans _ (b + c)); [apply sle_add_r; exact H1|].
  replace (b + c) with (c + b) by ring. replace (b + d) with (d + b) by ring.
  apply sle_add_r; exact H2.
Qed.

Lemma sle_mul_r (x y z : S) : sle x y -> sle s0 z -> sle (x * z) (y * z).
Proof.
  intros Hxy Hz. destruct (sle_cases _ _ Hz) as [Hz'|Hz'].
  - destruct (sle_cases _ _ Hxy) as [H|H]; [apply slt_le, lt_mul; assumption|].
    subst; apply sle_refl.
  - subst z. replace (x * s0) with (y * s0) by ring. apply sle_refl.
Qed.

Lemma sle_mul_l (x y z : S) : sle x y -> sle s0 z -> sle (z * x) (z * y).
Proof.
  intros Hxy Hz. replace (z * x) with (x * z) by ring. replace (z * y) with (y * z) by ring.
  apply sle_mul_r; assumption.
Qed.

Lemma sle_mul_cancel (a b m : S) : sltb s0 m = true -> sle (a * m) (b * m) -> sle a b.
Proof.
  unfold sle. intros Hm H. destruct (sltb b a) eqn:E; [|reflexivity].
  rewrite (lt_mul b a m Hm E) in H. discriminate.
Qed.

Lemma abs_pos (x : S) : x <> s0 -> sltb s0 (sabs x) = true.
Proof.
  intro Hx. destruct (sle_cases _ _ (abs_nonneg x)) as [H|H]; [exact H|].
  exfalso. apply Hx, abs_zero. symmetry. exact H.
Qed.

(* ------------------------------------------------------------------ *)
(* absolute row sums and the row estimate                              *)

Lemma abs_row_sum_acc (r : row) (a : S) :
  fold_left (fun a e => a + sabs (snd e)) r a = a + abs_row_sum r.
Proof.
  unfold abs_row_sum. revert a; induction r as [|e r IH]; intro a; simpl; [ring|].
  rewrite IH, (IH (s0 + _)). ring.
Qed.

Lemma abs_row_sum_cons (e : nat * S) (r : row) :
  abs_row_sum (e :: r) = sabs (snd e) + abs_row_sum r.
Proof. unfold abs_row_sum at 1; simpl. rewrite abs_row_sum_acc. ring. Qed.

Lemma abs_row_sum_nonneg (r : row) : sle s0 (abs_row_sum r).
Proof.
  induction r as [|e r IH]; [apply sle_refl|]. rewrite abs_row_sum_cons.
  replace (@s0 S) with (@s0 S + s0) at 1 by ring. apply sle_add; [apply abs_nonneg|exact IH].
Qed.

(* |sum_j a_j v_(c_j)| <= (sum_j |a_j|) * M  when all |v_c| <= M *)
Lemma dotrow_bound (n : nat) (v : vec) (M : S) (r : row) :
  (forall j, j < n -> sle (sabs (vget v j)) M) -> row_wf n r = true ->
  sle (sabs (dotrow r v)) (abs_row_sum r * M).
Proof.
  intros HM. induction r as [|e r IH]; intro Hwf.
  - unfold dotrow, abs_row_sum; simpl. rewrite abs_0.
    replace (s0 * M) with (@s0 S) by ring. apply sle_refl.
  - simpl in Hwf. apply andb_prop in Hwf as [He Hr]. apply Nat.ltb_lt in He.
    rewrite (dotrow_cons Srt), abs_row_sum_cons.
    apply (sle_trans _ _ _ (abs_tri _ _)). rewrite abs_mul.
    replace ((sabs (snd e) + abs_row_sum r) * M)
      with (sabs (snd e) * M + abs_row_sum r * M) by ring.
    apply sle_add; [|apply IH; exact Hr].
    apply sle_mul_l; [apply HM; exact He|apply abs_nonneg].
Qed.

Lemma Ax_dotrow (A : crs) (v : vec) (i : nat) : wf A = true -> i < nrows A ->
  Ax A v i = dotrow (nth i (rows A) []) v.
Proof.
  intros Hwf Hi. unfold Ax, mget. symmetry. apply (dotrow_spec Srt).
  apply forallb_nth; assumption.
Qed.

(* an index of maximal modulus *)
Lemma argmax_abs (v : vec) (n : nat) : 0 < n ->
  exists i, i < n /\ forall j, j < n -> sle (sabs (vget v j)) (sabs (vget v i)).
Proof.
  induction n as [|n IH]; intro Hn; [lia|].
  destruct n as [|n'].
  - exists 0. split; [lia|]. intros j Hj. replace j with 0 by lia. apply sle_refl.
  - destruct IH as [i [Hi Hmax]]; [lia|].
    destruct (sle_total (sabs (vget v (Datatypes.S n'))) (sabs (vget v i))) as [H|H].
    + exists i. split; [lia|]. intros j Hj.
      destruct (Nat.eq_dec j (Datatypes.S n')) as [->|Hne]; [exact H|apply Hmax; lia].
    + exists (Datatypes.S n'). split; [lia|]. intros j Hj.
      destruct (Nat.eq_dec j (Datatypes.S n')) as [->|Hne]; [apply sle_refl|].
      apply (sle_trans _ (sabs (vget v i))); [apply Hmax; lia|exact H].
Qed.

Lemma argmax_abs_pos (v : vec) (n : nat) :
  (exists i, i < n /\ vget v i <> s0) ->
  exists i, i < n /\ sltb s0 (sabs (vget v i)) = true /\
            forall j, j < n -> sle (sabs (vget v j)) (sabs (vget v i)).
Proof.
  intros [k [Hk Hvk]]. destruct (argmax_abs v n) as [i [Hi Hmax]]; [lia|].
  exists i. split; [exact Hi|split; [|exact Hmax]].
  apply (slt_le_trans _ (sabs (vget v k))); [apply abs_pos; exact Hvk|apply Hmax; exact Hk].
Qed.

(* the row with the dominant component bounds the (generalised) eigenvalue *)
Lemma eig_row_bound (A : crs) (v : vec) (mu : S) (i0 : nat) :
  wf A = true -> i0 < nrows A ->
  (forall j, j < ncols A -> sle (sabs (vget v j)) (sabs (vget v i0))) ->
  sltb s0 (sabs (vget v i0)) = true ->
  Ax A v i0 = mu * vget v i0 ->
  sle (sabs mu) (abs_row_sum (nth i0 (rows A) [])).
Proof.
  intros Hwf Hi Hmax Hpos Heig.
  apply (sle_mul_cancel _ _ (sabs (vget v i0))); [exact Hpos|].
  rewrite <- abs_mul, <- Heig, Ax_dotrow by assumption.
  apply (dotrow_bound (ncols A)); [exact Hmax|apply forallb_nth; assumption].
Qed.

Lemma indexed_In {X} (l : list X) (i : nat) (d : X) :
  i < length l -> In (i, nth i l d) (indexed l).
Proof.
  intro Hi. unfold indexed.
  replace (i, nth i l d) with (nth i (combine (seq 0 (length l)) l) (0, d)).
  - apply nth_In. rewrite combine_length, seq_length, Nat.min_id. exact Hi.
  - rewrite combine_nth by apply seq_length. rewrite seq_nth by exact Hi. reflexivity.
Qed.

Lemma gersh_spec_row_le (scale : bool) (A : crs) (i : nat) : i < nrows A ->
  sle (gersh_spec_row scale (i, nth i (rows A) [])) (gersh_spec scale A).
Proof.
  intro Hi. apply max_from_In.
  apply (in_map (gersh_spec_row scale)). apply indexed_In. exact Hi.
Qed.

(* G3: Gershgorin, unscaled *)
Theorem gersh_bound_unscaled (A : crs) (v : vec) (lam : S) :
  wf A = true -> nrows A = ncols A ->
  (forall i, i < nrows A -> Ax A v i = lam * vget v i) ->
  (exists i, i < nrows A /\ vget v i <> s0) ->
  sle (sabs lam) (gersh_spec false A).
Proof.
  intros Hwf Hsq Heig Hnz.
  destruct (argmax_abs_pos v (nrows A) Hnz) as [i0 [Hi [Hpos Hmax]]].
  apply (sle_trans _ (abs_row_sum (nth i0 (rows A) []))).
  - apply (eig_row_bound A v lam i0); auto. rewrite <- Hsq. exact Hmax.
  - apply (gersh_spec_row_le false A i0 Hi).
Qed.

(* G4: Gershgorin for D^-1 A, D = last stored diagonal entries *)
Theorem gersh_bound_scaled (A : crs) (v : vec) (lam : S) :
  wf A = true -> nrows A = ncols A ->
  (forall i, i < nrows A -> last_diag A i <> s0) ->
  (forall i, i < nrows A -> Ax A v i = lam * last_diag A i * vget v i) ->
  (exists i, i < nrows A /\ vget v i <> s0) ->
  sle (sabs lam) (gersh_spec true A).
Proof.
  intros Hwf Hsq Hd Heig Hnz.
  destruct (argmax_abs_pos v (nrows A) Hnz) as [i0 [Hi [Hpos Hmax]]].
  apply (sle_trans _ (gersh_spec_row true (i0, nth i0 (rows A) []))); 
    [|apply (gersh_spec_row_le true A i0 Hi)].
  unfold gersh_spec_row; cbn [fst snd]. fold (last_diag A i0).
  replace (sabs lam) with (sabs (lam * last_diag A i0) * sabs (sinv (last_diag A i0))).
  - apply sle_mul_r; [|apply abs_nonneg].
    apply (eig_row_bound A v _ i0); auto. rewrite <- Hsq. exact Hmax.
  - rewrite <- abs_mul. f_equal.
    replace (lam * last_diag A i0 * sinv (last_diag A i0))
      with (lam * (sinv (last_diag A i0) * last_diag A i0)) by ring.
    rewrite (Finv_l Sft) by (apply Hd; exact Hi). ring.
Qed.

End Gershgorin.

(* ------------------------------------------------------------------ *)
(* the guard, related to MatOps.has_diag (first stored diagonal entry)  *)
Section Guard.
Context {S : Scalar}.

Lemma last_col_first_col (r : row S) (i : nat) :
  match last_col r i with Some _ => true | None => false end =
  match first_col r i with Some _ => true | None => false end.
Proof.
  induction r as [|[c v] r IH]; simpl; [reflexivity|].
  destruct (Nat.eqb c i); destruct (last_col r i); destruct (first_col r i);
    simpl in IH; try reflexivity; discriminate.
Qed.

Lemma forallb_ext' {X} (p q : X -> bool) (l : list X) :
  (forall x, p x = q x) -> forallb p l = forallb q l.
Proof. intro H. induction l as [|x l IH]; simpl; [reflexivity|]. rewrite H, IH. reflexivity. Qed.

Lemma has_last_diag_has_diag (A : crs S) : has_last_diag A = has_diag A.
Proof.
  unfold has_last_diag, has_diag. apply forallb_ext'. intro ir.
  apply last_col_first_col.
Qed.

(* the specification value spelled out row by row *)
Lemma indexed_seq {X} (l : list X) (d : X) :
  indexed l = map (fun i => (i, nth i l d)) (seq 0 (length l)).
Proof.
  set (f := fun i => (i, nth i l d)).
  apply (nth_ext _ _ (0, d) (f 0)).
  - rewrite indexed_length, map_length, seq_length. reflexivity.
  - intros n Hn. rewrite indexed_length in Hn. rewrite (map_nth f). unfold indexed, f.
    rewrite combine_nth by apply seq_length. rewrite seq_nth by exact Hn. reflexivity.
Qed.

Lemma gersh_spec_unfold (scale : bool) (A : crs S) :
  gersh_spec scale A =
  max_from s0 (map (fun i => if scale
                             then abs_row_sum (nth i (rows A) []) * sabs (sinv (last_diag A i))
                             else abs_row_sum (nth i (rows A) []))
                   (seq 0 (nrows A))).
Proof.
  unfold gersh_spec. rewrite (indexed_seq (rows A) []), map_map. reflexivity.
Qed.
End Guard.

(* ------------------------------------------------------------------ *)
(* G5: the hypotheses hold at the exact rationals                      *)

Lemma qc_ltb_lt (a b : Qc) : qc_ltb a b = true <-> Qclt a b.
Proof. unfold qc_ltb, Qclt, Qlt. apply Z.ltb_lt. Qed.

Lemma qc_ltb_ge (a b : Qc) : qc_ltb a b = false <-> Qcle b a.
Proof. unfold qc_ltb, Qcle, Qle. apply Z.ltb_ge. Qed.

Lemma qc_abs_Qcabs (x : Qc) : qc_abs x = Qcabs x.
Proof.
  unfold qc_abs. destruct (Z.ltb_spec (Qnum (this x)) 0) as [H|H]; symmetry.
  - apply Qcabs_neg. unfold Qcle, Qle; simpl. lia.
  - apply Qcabs_pos. unfold Qcle, Qle; simpl. lia.
Qed.

Lemma QcS_lt_irrefl : forall x : QcS, sltb x x = false.
Proof. intro x. apply qc_ltb_ge. apply Qcle_refl. Qed.

Lemma QcS_lt_trans : forall x y z : QcS, sltb x y = true -> sltb y z = true -> sltb x z = true.
Proof.
  intros x y z H1 H2. apply qc_ltb_lt. apply qc_ltb_lt in H1, H2.
  exact (Qclt_trans _ _ _ H1 H2).
Qed.

Lemma QcS_lt_total : forall x y : QcS, sltb x y = false -> sltb y x = false -> x = y.
Proof.
  intros x y H1 H2. apply qc_ltb_ge in H1, H2. apply Qcle_antisym; assumption.
Qed.

Lemma QcS_lt_add : forall x y z : QcS, sltb x y = true -> sltb (x + z) (y + z) = true.
Proof.
  intros x y z H. apply qc_ltb_lt. apply qc_ltb_lt in H. simpl.
  apply Qclt_minus_iff. apply Qclt_minus_iff in H.
  replace (Qcplus (Qcplus y z) (Qcopp (Qcplus x z))) with (Qcplus y (Qcopp x)) by ring.
  exact H.
Qed.

Lemma QcS_lt_mul : forall x y z : QcS,
  sltb s0 z = true -> sltb x y = true -> sltb (x * z) (y * z) = true.
Proof.
  intros x y z Hz H. apply qc_ltb_lt. apply qc_ltb_lt in Hz, H.
  exact (Qcmult_lt_compat_r _ _ _ Hz H).
Qed.

Lemma QcS_abs_nonneg : forall x : QcS, sle s0 (sabs x).
Proof. intro x. apply qc_ltb_ge. simpl. rewrite qc_abs_Qcabs. apply Qcabs_nonneg. Qed.

Lemma QcS_abs_0 : sabs (@s0 QcS) = s0.
Proof. simpl. rewrite qc_abs_Qcabs. apply Qcabs_pos. apply Qcle_refl. Qed.

Lemma QcS_abs_zero : forall x : QcS, sabs x = s0 -> x = s0.
Proof. intros x H. simpl in *. rewrite qc_abs_Qcabs in H. apply Qcabs_null. exact H. Qed.

Lemma QcS_abs_mul : forall x y : QcS, sabs (x * y) = sabs x * sabs y.
Proof. intros x y. simpl. rewrite !qc_abs_Qcabs. apply Qcabs_Qcmult. Qed.

Lemma QcS_abs_tri : forall x y : QcS, sle (sabs (x + y)) (sabs x + sabs y).
Proof. intros x y. apply qc_ltb_ge. simpl. rewrite !qc_abs_Qcabs. apply Qcabs_triangle. Qed.

Theorem gersh_value_unscaled_Qc (lens : list nat) (A : crs QcS) :
  nrows A <= fold_right Nat.add 0 lens ->
  spectral_radius_gersh false lens A = gersh_spec false A.
Proof.
  exact (gersh_value_unscaled QcS_lt_irrefl QcS_lt_trans QcS_lt_total lens A).
Qed.

Theorem gersh_value_scaled_Qc (lens : list nat) (A : crs QcS) :
  nrows A <= fold_right Nat.add 0 lens ->
  spectral_radius_gersh true lens A = gersh_spec true A.
Proof.
  exact (gersh_value_scaled QcS_lt_irrefl QcS_lt_trans QcS_lt_total lens A).
Qed.

(* same, under the guard of MatOps.diagonal (now superfluous; kept for the callers) *)
Theorem gersh_value_scaled_has_diag_Qc (lens : list nat) (A : crs QcS) :
  has_diag A = true ->
  nrows A <= fold_right Nat.add 0 lens ->
  spectral_radius_gersh true lens A = gersh_spec true A.
Proof. intros _. apply gersh_value_scaled_Qc. Qed.

Theorem gersh_bound_unscaled_Qc (A : crs QcS) (v : vec QcS) (lam : QcS) :
  wf A = true -> nrows A = ncols A ->
  (forall i, i < nrows A -> Ax A v i = lam * vget v i) ->
  (exists i, i < nrows A /\ vget v i <> s0) ->
  sle (sabs lam) (gersh_spec false A).
Proof.
  exact (gersh_bound_unscaled QcS_lt_irrefl QcS_lt_trans QcS_lt_total QcS_ring
           QcS_lt_add QcS_lt_mul QcS_abs_nonneg QcS_abs_0 QcS_abs_zero QcS_abs_mul
           QcS_abs_tri A v lam).
Qed.

Theorem gersh_bound_scaled_Qc (A : crs QcS) (v : vec QcS) (lam : QcS) :
  wf A = true -> nrows A = ncols A ->
  (forall i, i < nrows A -> last_diag A i <> s0) ->
  (forall i, i < nrows A -> Ax A v i = lam * last_diag A i * vget v i) ->
  (exists i, i < nrows A /\ vget v i <> s0) ->
  sle (sabs lam) (gersh_spec true A).
Proof.
  exact (gersh_bound_scaled QcS_lt_irrefl QcS_lt_trans QcS_lt_total QcS_ring
           QcS_lt_add QcS_lt_mul QcS_abs_nonneg QcS_abs_0 QcS_abs_zero QcS_abs_mul
           QcS_abs_tri QcS_field A v lam).
Qed.

(* the computed estimate bounds every eigenvalue, for every thread chunking *)
Corollary spectral_radius_gersh_bound_Qc (lens : list nat) (A : crs QcS) (v : vec QcS) (lam : QcS) :
  nrows A <= fold_right Nat.add 0 lens ->
  wf A = true -> nrows A = ncols A ->
  (forall i, i < nrows A -> Ax A v i = lam * vget v i) ->
  (exists i, i < nrows A /\ vget v i <> s0) ->
  sltb (spectral_radius_gersh false lens A) (sabs lam) = false.
Proof.
  intros Hl Hwf Hsq Heig Hnz. rewrite gersh_value_unscaled_Qc by exact Hl.
  exact (gersh_bound_unscaled_Qc A v lam Hwf Hsq Heig Hnz).
Qed.

Corollary spectral_radius_gersh_scaled_bound_Qc (lens : list nat) (A : crs QcS) (v : vec QcS) (lam : QcS) :
  nrows A <= fold_right Nat.add 0 lens ->
  wf A = true -> nrows A = ncols A ->
  (forall i, i < nrows A -> last_diag A i <> s0) ->
  (forall i, i < nrows A -> Ax A v i = lam * last_diag A i * vget v i) ->
  (exists i, i < nrows A /\ vget v i <> s0) ->
  sltb (spectral_radius_gersh true lens A) (sabs lam) = false.
Proof.
  intros Hl Hwf Hsq Hd Heig Hnz. rewrite gersh_value_scaled_Qc by exact Hl.
  exact (gersh_bound_scaled_Qc A v lam Hwf Hsq Hd Heig Hnz).
Qed.

(* ------------------------------------------------------------------ *)
(* G6: non-vacuity                                                     *)

(* 3x3, row 0 has a duplicated diagonal entry (the last one, 4, is the scaling),
   row 2 is stored out of order:
     row sums 7, 4, 3/2;  scaled 7/4, 2, 3 *)
Definition exA : crs QcS :=
  mkCrs 3 [ [(0, qc 2 1); (1, qc (-1) 1); (0, qc 4 1)];
            [(0, qc (-1) 1); (1, qc 2 1); (2, qc (-1) 1)];
            [(2, qc (-1) 2); (1, qc 1 1)] ].

Example exA_guard : wf exA = true /\ has_last_diag exA = true /\ has_diag exA = true.
Proof. vm_compute. auto. Qed.

Example exA_unscaled :
  spectral_radius_gersh false [2; 1] exA = qc 7 1 /\
  spectral_radius_gersh false [1; 1; 1] exA = qc 7 1 /\
  spectral_radius_gersh false [0; 5] exA = qc 7 1 /\
  gersh_spec false exA = qc 7 1.
Proof. repeat split; apply Qc_is_canon; vm_compute; reflexivity. Qed.

Example exA_scaled :
  spectral_radius_gersh true [2; 1] exA = qc 3 1 /\
  spectral_radius_gersh true [1; 1; 1] exA = qc 3 1 /\
  spectral_radius_gersh true [3] exA = qc 3 1 /\
  gersh_spec true exA = qc 3 1.
Proof. repeat split; apply Qc_is_canon; vm_compute; reflexivity. Qed.

(* the hypotheses of the bound are satisfiable: (1,1) is an eigenvector of
   [[2,-1],[-1,2]] for lambda = 1 (and 1 <= 3 is what the theorem yields) *)
Definition exB : crs QcS :=
  mkCrs 2 [ [(0, qc 2 1); (1, qc (-1) 1)]; [(0, qc (-1) 1); (1, qc 2 1)] ].

Example exB_bound : sle (sabs (qc 1 1)) (gersh_spec false exB).
Proof.
  apply (gersh_bound_unscaled_Qc exB [qc 1 1; qc 1 1] (qc 1 1)).
  - reflexivity.
  - reflexivity.
  - intros i Hi. change (nrows exB) with 2 in Hi.
    destruct i as [|[|i]]; [| |lia]; apply Qc_is_canon; vm_compute; reflexivity.
  - exists 0. split; [vm_compute; lia|]. intro H. apply (f_equal this) in H. vm_compute in H.
    discriminate.
Qed.

(* D^-1 B (1,1) = (1/2) (1,1): scaled bound *)
Example exB_bound_scaled : sle (sabs (qc 1 2)) (gersh_spec true exB).
Proof.
  apply (gersh_bound_scaled_Qc exB [qc 1 1; qc 1 1] (qc 1 2)).
  - reflexivity.
  - reflexivity.
  - intros i Hi. change (nrows exB) with 2 in Hi.
    destruct i as [|[|i]]; [| |lia]; intro H; apply (f_equal this) in H; vm_compute in H;
      discriminate.
  - intros i Hi. change (nrows exB) with 2 in Hi.
    destruct i as [|[|i]]; [| |lia]; apply Qc_is_canon; vm_compute; reflexivity.
  - exists 0. split; [vm_compute; lia|]. intro H. apply (f_equal this) in H. vm_compute in H.
    discriminate.
Qed.

(* no guard is needed any more: row 1 has no stored diagonal entry, it is scaled by
   the identity whether it starts a thread or follows row 0 on the same thread (the old
   code, with a thread-private [dia], returned 2 for the chunking [2] and 4 for [1;1]) *)
Definition exC : crs QcS := mkCrs 2 [ [(0, qc 2 1)]; [(0, qc 4 1)] ].

Example exC_chunk_independent :
  has_last_diag exC = false /\
  spectral_radius_gersh true [2] exC = spectral_radius_gersh true [1; 1] exC /\
  spectral_radius_gersh true [2] exC = qc 4 1 /\
  spectral_radius_gersh true [1; 1] exC = qc 4 1 /\
  gersh_spec true exC = qc 4 1.
Proof.
  split; [reflexivity|]. repeat split; apply Qc_is_canon; vm_compute; reflexivity.
Qed.

Print Assumptions gersh_value_unscaled_Qc.
Print Assumptions gersh_value_scaled_Qc.
Print Assumptions gersh_value_scaled_has_diag_Qc.
Print Assumptions gersh_bound_unscaled_Qc.
Print Assumptions gersh_bound_scaled_Qc.
Print Assumptions spectral_radius_gersh_bound_Qc.
Print Assumptions spectral_radius_gersh_scaled_bound_Qc.
Print Assumptions exA_scaled.
Print Assumptions exB_bound.
Print Assumptions exC_chunk_independent.

End Gersh.

Module PwCopy.
Local Close Scope S_scope.
Section PwCopy.
Context {S : Scalar}.
Local Notation vec := (vec S).
Local Notation row := (row S).
Local Notation crs := (crs S).

(* ================================================================== *)
(* P1: counting pass = fill pass                                       *)

Lemma pwc_scan_row_eq ce (r : row) cur acc :
  pwc_scan_row_old ce (map fst r) cur =
  (map fst (fst (fst (pw_scan_row_old ce r cur acc))), snd (fst (pw_scan_row_old ce r cur acc))).
Proof.
  revert acc; induction r as [|[c v] tl IH]; intro acc; simpl; [reflexivity|].
  destruct (Nat.leb ce c); simpl; [reflexivity|]. apply IH.
Qed.

Lemma pwc_pass_eq ce (js : list row) cur acc :
  pwc_pass_old ce (map (map fst) js) cur =
  (map (map fst) (fst (fst (pw_pass_old ce js cur acc))), snd (fst (pw_pass_old ce js cur acc))).
Proof.
  revert cur acc; induction js as [|r rest IH]; intros cur acc; simpl; [reflexivity|].
  rewrite (pwc_scan_row_eq ce r cur acc).
  destruct (pw_scan_row_old ce r cur acc) as [[r' cur1] acc1]; simpl.
  rewrite (IH cur1 acc1).
  destruct (pw_pass_old ce rest cur1 acc1) as [[rest' cur2] acc2]; simpl. reflexivity.
Qed.

Lemma pwc_loop_eq fuel bs cur (js : list row) :
  pwc_loop_old fuel bs cur (map (map fst) js) = length (pw_loop_old fuel bs cur js).
Proof.
  revert cur js; induction fuel as [|f IH]; intros cur js; simpl; [reflexivity|].
  destruct cur as [c0|]; [|reflexivity].
  rewrite (pwc_pass_eq _ js None None).
  destruct (pw_pass_old ((c0 / bs + 1) * bs) js None None) as [[js' cur'] acc]; simpl.
  rewrite IH. reflexivity.
Qed.

Lemma pw_block_count_eq bs (js : list row) :
  pw_block_count_old bs js = length (pw_block_row_old bs js).
Proof. unfold pw_block_count_old, pw_block_row_old. apply pwc_loop_eq. Qed.

Theorem pointwise_counts_correct (A C : crs) bs :
  pointwise_matrix_old A bs = Some C ->
  pointwise_counts_old A bs = map (@length _) (rows C).
Proof.
  unfold pointwise_matrix_old, pointwise_counts_old.
  destruct (Nat.eqb bs 0); [discriminate|].
  destruct (negb (Nat.eqb (nrows A / bs * bs) (nrows A))); [discriminate|].
  intro H; injection H as <-. simpl. rewrite map_map.
  apply map_ext. intro js. apply pw_block_count_eq.
Qed.

(* ================================================================== *)
(* P2: the fuel is never exhausted                                     *)

Definition total {X} (js : list (list X)) : nat :=
  fold_left (fun a r => a + length r) js 0.

Lemma fold_total_acc {X} (js : list (list X)) a :
  fold_left (fun a r => a + length r) js a = a + total js.
Proof.
  unfold total. revert a; induction js as [|r t IH]; intro a; simpl; [lia|].
  rewrite (IH (a + length r)), (IH (length r)). lia.
Qed.

Arguments total {X} js : simpl never.

Lemma total_nil {X} : total (@nil (list X)) = 0.
Proof. reflexivity. Qed.

Lemma total_cons {X} (r : list X) t : total (r :: t) = length r + total t.
Proof. unfold total at 1. simpl. apply fold_total_acc. Qed.

Lemma total_app {X} (l1 l2 : list (list X)) : total (l1 ++ l2) = total l1 + total l2.
Proof.
  induction l1 as [|r t IH]; simpl; [reflexivity|]. rewrite !total_cons, IH. lia.
Qed.

Lemma pw_fuel_total (js : list row) : pw_fuel js = Datatypes.S (total js).
Proof. reflexivity. Qed.

Lemma nnz_total (A : crs) : nnz A = total (rows A).
Proof. reflexivity. Qed.

(* one row: the rest is never longer; if [cur] changed, an entry was consumed *)
Lemma pw_scan_row_length ce (r : row) cur acc r' cur' acc' :
  pw_scan_row_old ce r cur acc = (r', cur', acc') ->
  length r' <= length r /\ (cur' = cur \/ length r' < length r).
Proof.
  revert acc; induction r as [|[c v] tl IH]; intro acc; simpl.
  - intro H; injection H as <- <- <-. simpl. auto.
  - destruct (Nat.leb ce c).
    + intro H; injection H as <- <- <-. lia.
    + intro H. apply IH in H. lia.
Qed.

(* a pass never increases [total]; if [cur] changed, it strictly decreases it *)
Lemma pw_pass_total ce (js : list row) cur acc js' cur' acc' :
  pw_pass_old ce js cur acc = (js', cur', acc') ->
  total js' <= total js /\ (cur' = cur \/ total js' < total js).
Proof.
  revert cur acc js' cur' acc'; induction js as [|r rest IH]; intros cur acc js' cur' acc'; simpl.
  - intro H; injection H as <- <- <-. auto.
  - destruct (pw_scan_row_old ce r cur acc) as [[r1 cur1] acc1] eqn:E1.
    destruct (pw_pass_old ce rest cur1 acc1) as [[rest1 cur2] acc2] eqn:E2.
    intro H; injection H as <- <- <-.
    apply pw_scan_row_length in E1. apply IH in E2.
    rewrite !(total_cons (X:=nat * S)).
    destruct E1 as [L1 D1], E2 as [L2 D2]. split; [lia|].
    destruct D1 as [->|D1]; [|right; lia].
    destruct D2 as [->|D2]; [left; reflexivity|right; lia].
Qed.

Lemma pw_pass_total_le ce (js : list row) cur acc :
  total (fst (fst (pw_pass_old ce js cur acc))) <= total js.
Proof.
  destruct (pw_pass_old ce js cur acc) as [[js' cur'] acc'] eqn:E.
  apply pw_pass_total in E. simpl. lia.
Qed.

Lemma pw_pass_total_lt ce (js : list row) acc js' c acc' :
  pw_pass_old ce js None acc = (js', Some c, acc') -> total js' < total js.
Proof.
  intro E. apply pw_pass_total in E. destruct E as [_ [E|E]]; [discriminate|exact E].
Qed.

Lemma pw_loop_None fuel bs (js : list row) : pw_loop_old fuel bs None js = [].
Proof. destruct fuel; reflexivity. Qed.

Theorem pw_loop_fuel_indep fuel k bs cur (js : list row) :
  total js < fuel -> pw_loop_old fuel bs cur js = pw_loop_old (fuel + k) bs cur js.
Proof.
  revert cur js; induction fuel as [|f IH]; intros cur js Hlt; [lia|].
  simpl. destruct cur as [c0|]; [|reflexivity].
  destruct (pw_pass_old ((c0 / bs + 1) * bs) js None None) as [[js' cur'] acc] eqn:E.
  f_equal. destruct cur' as [c1|].
  - apply IH. apply pw_pass_total_lt in E. lia.
  - rewrite !pw_loop_None. reflexivity.
Qed.

(* any two sufficient fuels agree *)
Corollary pw_loop_fuel_any f1 f2 bs cur (js : list row) :
  total js < f1 -> total js < f2 -> pw_loop_old f1 bs cur js = pw_loop_old f2 bs cur js.
Proof.
  intros H1 H2. destruct (Nat.le_ge_cases f1 f2) as [L|L].
  - replace f2 with (f1 + (f2 - f1)) by lia. apply pw_loop_fuel_indep. exact H1.
  - replace f1 with (f2 + (f1 - f2)) by lia. symmetry. apply pw_loop_fuel_indep. exact H2.
Qed.

Corollary pw_block_row_fuel bs (js : list row) k :
  pw_block_row_old bs js = pw_loop_old (pw_fuel js + k) bs (pw_init js) js.
Proof. unfold pw_block_row_old. apply pw_loop_fuel_indep. rewrite pw_fuel_total. lia. Qed.

(* the loop stops because [done] holds: with sufficient fuel, the unrolling equation
   of the C++ while loop holds without any fuel bookkeeping *)
Corollary pw_loop_unroll fuel bs c0 (js : list row) :
  total js < fuel ->
  pw_loop_old fuel bs (Some c0) js =
  let '(js', cur', acc) := pw_pass_old ((c0 / bs + 1) * bs) js None None in
  (c0 / bs, match acc with None => s0 | Some m => m end) :: pw_loop_old fuel bs cur' js'.
Proof.
  intro Hlt. destruct fuel as [|f]; [lia|].
  change (pw_loop_old (Datatypes.S f) bs (Some c0) js) with
    (let '(js', cur', acc) := pw_pass_old ((c0 / bs + 1) * bs) js None None in
     (c0 / bs, match acc with None => s0 | Some m => m end) :: pw_loop_old f bs cur' js').
  destruct (pw_pass_old ((c0 / bs + 1) * bs) js None None) as [[js' cur'] acc] eqn:E.
  f_equal. destruct cur' as [c1|].
  - apply pw_loop_fuel_any; apply pw_pass_total_lt in E; lia.
  - rewrite !pw_loop_None. reflexivity.
Qed.

(* ================================================================== *)
(* P3: well-formedness of the pointwise matrix                         *)

Definition cur_lt (m : nat) (cur : option nat) : Prop :=
  match cur with None => True | Some c => c < m end.
Definition ent_lt (m : nat) (e : nat * S) : Prop := fst e < m.
Definition rows_lt (m : nat) (js : list row) : Prop := Forall (Forall (ent_lt m)) js.

Lemma Forall_firstn' {X} (P : X -> Prop) n (l : list X) : Forall P l -> Forall P (firstn n l).
Proof.
  revert n; induction l as [|x l IH]; intros [|n] H; simpl; try constructor.
  - inversion H; assumption.
  - apply IH. inversion H; assumption.
Qed.

Lemma Forall_skipn' {X} (P : X -> Prop) n (l : list X) : Forall P l -> Forall P (skipn n l).
Proof.
  revert n; induction l as [|x l IH]; intros [|n] H; simpl; try assumption.
  apply IH. inversion H; assumption.
Qed.

Lemma groups_Forall {X} (P : X -> Prop) np bs (l : list X) :
  Forall P l -> Forall (Forall P) (groups np bs l).
Proof.
  revert l; induction np as [|k IH]; intros l H; simpl; constructor.
  - apply Forall_firstn'; assumption.
  - apply IH. apply Forall_skipn'; assumption.
Qed.

Lemma groups_length {X} np bs (l : list X) : length (groups np bs l) = np.
Proof. revert l; induction np as [|k IH]; intro l; simpl; [reflexivity|]. rewrite IH; reflexivity. Qed.

Lemma wf_rows_lt (A : crs) : wf A = true -> rows_lt (ncols A) (rows A).
Proof.
  unfold wf, rows_lt. rewrite forallb_forall, Forall_forall.
  intros H r Hr. apply (proj1 (row_wf_iff _ _)). apply H, Hr.
Qed.

Lemma upd_cur_lt m cur c : cur_lt m cur -> c < m -> cur_lt m (upd_cur cur c).
Proof. destruct cur as [c0|]; simpl; lia. Qed.

Lemma pw_init_fold_lt m (js : list row) cur :
  rows_lt m js -> cur_lt m cur ->
  cur_lt m (fold_left (fun cur r => match r with [] => cur | e :: _ => upd_cur cur (fst e) end) js cur).
Proof.
  revert cur; induction js as [|r t IH]; intros cur H Hc; simpl; [assumption|].
  inversion H as [|? ? Hr Ht]; subst. apply IH; [assumption|].
  destruct r as [|e tl]; [assumption|]. apply upd_cur_lt; [assumption|].
  inversion Hr; assumption.
Qed.

Lemma pw_init_lt m (js : list row) : rows_lt m js -> cur_lt m (pw_init js).
Proof. intro H. apply pw_init_fold_lt; [assumption|exact I]. Qed.

Lemma pw_scan_row_lt m ce (r : row) cur acc r' cur' acc' :
  Forall (ent_lt m) r -> cur_lt m cur ->
  pw_scan_row_old ce r cur acc = (r', cur', acc') ->
  Forall (ent_lt m) r' /\ cur_lt m cur'.
Proof.
  revert acc; induction r as [|[c v] tl IH]; intros acc Hr Hc; simpl.
  - intro H; injection H as <- <- <-. auto.
  - inversion Hr as [|? ? He Ht]; subst.
    destruct (Nat.leb ce c).
    + intro H; injection H as <- <- <-. split; [assumption|].
      apply upd_cur_lt; assumption.
    + apply IH; assumption.
Qed.

Lemma pw_pass_lt m ce (js : list row) cur acc js' cur' acc' :
  rows_lt m js -> cur_lt m cur ->
  pw_pass_old ce js cur acc = (js', cur', acc') ->
  rows_lt m js' /\ cur_lt m cur'.
Proof.
  revert cur acc js' cur' acc'; induction js as [|r rest IH];
    intros cur acc js' cur' acc' Hj Hc; simpl.
  - intro H; injection H as <- <- <-. auto.
  - inversion Hj as [|? ? Hr Ht]; subst.
    destruct (pw_scan_row_old ce r cur acc) as [[r1 cur1] acc1] eqn:E1.
    destruct (pw_pass_old ce rest cur1 acc1) as [[rest1 cur2] acc2] eqn:E2.
    intro H; injection H as <- <- <-.
    apply (pw_scan_row_lt m) in E1; [|assumption|assumption]. destruct E1 as [Hr1 Hc1].
    apply IH in E2; [|assumption|assumption]. destruct E2 as [Ht1 Hc2].
    split; [constructor; assumption|assumption].
Qed.

Lemma pw_loop_lt fuel bs m cur (js : list row) :
  0 < bs -> m = (m / bs) * bs ->
  rows_lt m js -> cur_lt m cur ->
  Forall (ent_lt (m / bs)) (pw_loop_old fuel bs cur js).
Proof.
  intros Hbs Hdiv. revert cur js; induction fuel as [|f IH]; intros cur js Hj Hc; simpl;
    [constructor|].
  destruct cur as [c0|]; [|constructor].
  destruct (pw_pass_old ((c0 / bs + 1) * bs) js None None) as [[js' cur'] acc] eqn:E.
  apply (pw_pass_lt m) in E; [|assumption|exact I]. destruct E as [Hj' Hc'].
  constructor; [|apply IH; assumption].
  unfold ent_lt; simpl. simpl in Hc.
  apply Nat.div_lt_upper_bound; lia.
Qed.

Lemma pw_block_row_lt bs m (js : list row) :
  0 < bs -> m = (m / bs) * bs -> rows_lt m js ->
  row_wf (m / bs) (pw_block_row_old bs js) = true.
Proof.
  intros Hbs Hdiv Hj. apply (proj2 (row_wf_iff _ _)). unfold pw_block_row_old.
  apply pw_loop_lt; [assumption|assumption|assumption|]. apply pw_init_lt; assumption.
Qed.

Theorem pointwise_matrix_wf (A C : crs) bs :
  wf A = true -> 0 < bs -> ncols A = (ncols A / bs) * bs ->
  pointwise_matrix_old A bs = Some C ->
  wf C = true /\ nrows C = nrows A / bs /\ ncols C = ncols A / bs.
Proof.
  intros Hwf Hbs Hdiv. unfold pointwise_matrix_old.
  destruct (Nat.eqb bs 0); [discriminate|].
  destruct (negb (Nat.eqb (nrows A / bs * bs) (nrows A))); [discriminate|].
  intro H; injection H as <-. unfold wf, nrows; simpl.
  rewrite map_length, groups_length. split; [|split; reflexivity].
  apply forallb_forall. intros r Hr. apply in_map_iff in Hr. destruct Hr as [js [<- Hin]].
  apply pw_block_row_lt; [assumption|assumption|].
  pose proof (groups_Forall _ (nrows A / bs) bs _ (wf_rows_lt A Hwf)) as HG.
  rewrite Forall_forall in HG. apply HG. exact Hin.
Qed.

(* the precondition of the C++ (rows divisible) as an iff *)
Lemma pointwise_matrix_some (A : crs) bs :
  (exists C, pointwise_matrix_old A bs = Some C) <-> (bs <> 0 /\ nrows A / bs * bs = nrows A).
Proof.
  unfold pointwise_matrix_old. split.
  - intros [C H]. destruct (Nat.eqb bs 0) eqn:E0; [discriminate|].
    destruct (Nat.eqb (nrows A / bs * bs) (nrows A)) eqn:E1; [|discriminate].
    apply Nat.eqb_neq in E0. apply Nat.eqb_eq in E1. auto.
  - intros [H0 H1]. apply Nat.eqb_neq in H0. apply Nat.eqb_eq in H1. rewrite H0, H1. simpl.
    eexists; reflexivity.
Qed.

(* the divisibility of ncols is needed: the C++ only checks the rows.  3 columns,
   block size 2: the entry in column 2 produces block column 1 >= mp = 3/2 = 1. *)
Lemma pointwise_matrix_wf_needs_div :
  exists (A C : crs), wf A = true /\ pointwise_matrix_old A 2 = Some C /\ wf C = false.
Proof.
  exists (mkCrs 3 [[(2, s0)]; []]). eexists. split; [reflexivity|]. split; reflexivity.
Qed.

(* ================================================================== *)
(* P4: crs constructors                                                *)

(* running sums of the row lengths, starting after offset a *)
Fixpoint psums {X} (a : nat) (l : list (list X)) : list nat :=
  match l with
  | [] => []
  | r :: t => (a + length r) :: psums (a + length r) t
  end.

Lemma psums_length {X} a (l : list (list X)) : length (psums a l) = length l.
Proof. revert a; induction l as [|r t IH]; intro a; simpl; [reflexivity|]. rewrite IH; reflexivity. Qed.

Lemma fold_ptr_psums {X} (l : list (list X)) (p : list nat) :
  p <> [] ->
  fold_left (fun p r => p ++ [last p 0 + length r]) l p = p ++ psums (last p 0) l.
Proof.
  revert p; induction l as [|r t IH]; intros p Hp; simpl.
  - rewrite app_nil_r; reflexivity.
  - rewrite IH.
    + rewrite last_last, <- app_assoc. reflexivity.
    + destruct p; discriminate.
Qed.

Lemma flat_ptr_psums (A : crs) : flat_ptr A = 0 :: psums 0 (rows A).
Proof. unfold flat_ptr. rewrite fold_ptr_psums by discriminate. reflexivity. Qed.

Lemma flat_ptr_length (A : crs) : length (flat_ptr A) = nrows A + 1.
Proof. rewrite flat_ptr_psums. simpl. rewrite psums_length. unfold nrows. rewrite Nat.add_1_r. reflexivity. Qed.

(* ptr[i] = offset + number of entries of the first i rows *)
Lemma nth_psums {X} a (l : list (list X)) i :
  i <= length l -> nth i (a :: psums a l) 0 = a + total (firstn i l).
Proof.
  revert a i; induction l as [|r t IH]; intros a [|i] Hi; simpl in *;
    try rewrite total_nil; try lia.
  rewrite total_cons. specialize (IH (a + length r) i). simpl in IH. rewrite IH by lia. lia.
Qed.

Lemma last_psums {X} a (l : list (list X)) : last (a :: psums a l) 0 = a + total l.
Proof.
  revert a; induction l as [|r t IH]; intro a.
  - simpl. rewrite total_nil. lia.
  - rewrite total_cons. change (psums a (r :: t)) with ((a + length r) :: psums (a + length r) t).
    change (last (a :: (a + length r) :: psums (a + length r) t) 0)
      with (last ((a + length r) :: psums (a + length r) t) 0).
    rewrite IH. lia.
Qed.

Lemma flat_ptr_nth (A : crs) i : i <= nrows A -> nth i (flat_ptr A) 0 = total (firstn i (rows A)).
Proof. intro Hi. rewrite flat_ptr_psums, nth_psums by exact Hi. reflexivity. Qed.

Lemma flat_ptr_last (A : crs) : last (flat_ptr A) 0 = nnz A.
Proof. rewrite flat_ptr_psums, last_psums. reflexivity. Qed.

Lemma flat_ptr_nth_nrows (A : crs) : nth (nrows A) (flat_ptr A) 0 = nnz A.
Proof. rewrite flat_ptr_nth by lia. unfold nrows. rewrite firstn_all. reflexivity. Qed.

Lemma flat_map_length_total {X Y} (f : list X -> list Y) (l : list (list X)) :
  (forall r, length (f r) = length r) -> length (flat_map f l) = total l.
Proof.
  intro Hf. induction l as [|r t IH]; simpl; [reflexivity|].
  rewrite app_length, total_cons, IH, Hf. reflexivity.
Qed.

Lemma flat_col_length (A : crs) : length (flat_col A) = nnz A.
Proof. unfold flat_col. apply flat_map_length_total. intro r; apply map_length. Qed.

Lemma flat_val_length (A : crs) : length (flat_val A) = nnz A.
Proof. unfold flat_val. apply flat_map_length_total. intro r; apply map_length. Qed.

Theorem flat_lengths (A : crs) :
  length (flat_col A) = length (flat_val A) /\
  length (flat_val A) = last (flat_ptr A) 0 /\
  last (flat_ptr A) 0 = nth (nrows A) (flat_ptr A) 0.
Proof.
  rewrite flat_col_length, flat_val_length, flat_ptr_last, flat_ptr_nth_nrows. auto.
Qed.

(* --- round trip *)
Lemma combine_fst_snd {X Y} (r : list (X * Y)) : combine (map fst r) (map snd r) = r.
Proof. induction r as [|[x y] t IH]; simpl; [reflexivity|]. rewrite IH; reflexivity. Qed.

Lemma slice_app_mid {X} (pre mid post : list X) a :
  length pre = a -> slice (pre ++ mid ++ post) a (a + length mid) = mid.
Proof.
  intros <-. unfold slice.
  replace (length pre + length mid - length pre) with (length mid) by lia.
  rewrite skipn_app, skipn_all, Nat.sub_diag. simpl.
  rewrite firstn_app, firstn_all, Nat.sub_diag. simpl. apply app_nil_r.
Qed.

Lemma rows_of_ranges_gen (l : list row) a (col0 : list nat) (val0 : vec) :
  length col0 = a -> length val0 = a ->
  rows_of_ranges (length l) (a :: psums a l)
                 (col0 ++ flat_map (map fst) l) (val0 ++ flat_map (map snd) l) = l.
Proof.
  unfold rows_of_ranges.
  revert a col0 val0; induction l as [|r t IH]; intros a col0 val0 Hc Hv; [reflexivity|].
  change (length (r :: t)) with (Datatypes.S (length t)).
  rewrite <- cons_seq, <- seq_shift.
  cbn [map]. rewrite map_map. f_equal.
  - cbn [nth Nat.add psums flat_map].
    replace (a + length r) with (a + length (map fst r)) at 1 by (rewrite map_length; reflexivity).
    rewrite slice_app_mid by exact Hc.
    replace (a + length r) with (a + length (map snd r)) at 1 by (rewrite map_length; reflexivity).
    rewrite slice_app_mid by exact Hv.
    apply combine_fst_snd.
  - etransitivity;
      [|apply (IH (a + length r) (col0 ++ map fst r) (val0 ++ map snd r));
        rewrite app_length, map_length; lia].
    apply map_ext. intro i.
    cbn [flat_map psums]. rewrite <- !app_assoc.
    reflexivity.
Qed.

Theorem rows_of_ranges_flat (A : crs) :
  rows_of_ranges (nrows A) (flat_ptr A) (flat_col A) (flat_val A) = rows A.
Proof.
  rewrite flat_ptr_psums. unfold nrows, flat_col, flat_val.
  apply (rows_of_ranges_gen (rows A) 0 [] []); reflexivity.
Qed.

Theorem crs_copy_id (A : crs) : crs_copy A = A.
Proof.
  unfold crs_copy, crs_of_adapter. rewrite rows_of_ranges_flat. destruct A; reflexivity.
Qed.

Theorem crs_of_ranges_flat (A : crs) :
  crs_of_ranges (nrows A) (ncols A) (flat_ptr A) (flat_col A) (flat_val A) = Some A.
Proof.
  unfold crs_of_ranges.
  rewrite flat_ptr_length, Nat.eqb_refl. simpl.
  rewrite flat_ptr_nth_nrows, flat_col_length, flat_val_length, Nat.eqb_refl. simpl.
  rewrite rows_of_ranges_flat. destruct A; reflexivity.
Qed.

Theorem crs_of_ranges_precond n m (ptr col : list nat) (val : vec) :
  length ptr <> n + 1 \/ length col <> nth n ptr 0 \/ length val <> nth n ptr 0 ->
  crs_of_ranges n m ptr col val = None.
Proof.
  unfold crs_of_ranges. intro H.
  destruct (Nat.eqb (length ptr) (n + 1)) eqn:E1; [|reflexivity].
  destruct (Nat.eqb (length col) (nth n ptr 0)) eqn:E2; [|reflexivity].
  destruct (Nat.eqb (length val) (nth n ptr 0)) eqn:E3; [|reflexivity].
  apply Nat.eqb_eq in E1, E2, E3. lia.
Qed.

(* converse: when the three size preconditions hold the constructor succeeds *)
Theorem crs_of_ranges_some n m (ptr col : list nat) (val : vec) :
  length ptr = n + 1 -> length col = nth n ptr 0 -> length val = nth n ptr 0 ->
  crs_of_ranges n m ptr col val = Some (crs_of_adapter n m ptr col val).
Proof.
  intros H1 H2 H3. unfold crs_of_ranges. rewrite H1, H2, H3, !Nat.eqb_refl. reflexivity.
Qed.

End PwCopy.

End PwCopy.
Local Open Scope S_scope.

(* pointwise_matrix, CURRENT code (after /repo 0e81e11): counting pass = fill pass, fuel, wf *)
Module PwNew.
Local Close Scope S_scope.
Section PwNew.
Context {S : Scalar}.
Local Notation vec := (vec S).
Local Notation row := (row S).
Local Notation crs := (crs S).

Local Notation total := PwCopy.total.
Local Notation cur_lt := PwCopy.cur_lt.
Local Notation ent_lt := PwCopy.ent_lt.
Local Notation rows_lt := PwCopy.rows_lt.

(* ================================================================== *)
(* N1: counting pass = fill pass                                       *)

Lemma pwc_scan_row_eq ce (r : row) cur acc :
  pwc_scan_row ce (map fst r) cur =
  (map fst (fst (fst (pw_scan_row ce r cur acc))), snd (fst (pw_scan_row ce r cur acc))).
Proof.
  revert acc; induction r as [|[c v] tl IH]; intro acc; simpl; [reflexivity|].
  destruct (Nat.leb ce c); simpl; [reflexivity|]. apply IH.
Qed.

Lemma pwc_pass_eq ce (js : list row) cur acc :
  pwc_pass ce (map (map fst) js) cur =
  (map (map fst) (fst (fst (pw_pass ce js cur acc))), snd (fst (pw_pass ce js cur acc))).
Proof.
  revert cur acc; induction js as [|r rest IH]; intros cur acc; simpl; [reflexivity|].
  rewrite (pwc_scan_row_eq ce r cur acc).
  destruct (pw_scan_row ce r cur acc) as [[r' cur1] acc1]; simpl.
  rewrite (IH cur1 acc1).
  destruct (pw_pass ce rest cur1 acc1) as [[rest' cur2] acc2]; simpl. reflexivity.
Qed.

Lemma pwc_loop_eq fuel bs cur (js : list row) :
  pwc_loop fuel bs cur (map (map fst) js) = length (pw_loop fuel bs cur js).
Proof.
  revert cur js; induction fuel as [|f IH]; intros cur js; simpl; [reflexivity|].
  destruct cur as [c0|]; [|reflexivity].
  rewrite (pwc_pass_eq _ js None None).
  destruct (pw_pass ((c0 / bs + 1) * bs) js None None) as [[js' cur'] acc]; simpl.
  rewrite IH. reflexivity.
Qed.

Lemma pw_block_count_eq bs (js : list row) :
  pw_block_count bs js = length (pw_block_row bs js).
Proof. unfold pw_block_count, pw_block_row. apply pwc_loop_eq. Qed.

Theorem pointwise_counts_correct (A C : crs) bs :
  pointwise_matrix A bs = Some C ->
  pointwise_counts A bs = map (@length _) (rows C).
Proof.
  unfold pointwise_matrix, pointwise_counts.
  destruct (Nat.eqb bs 0); [discriminate|].
  destruct (negb (Nat.eqb (nrows A / bs * bs) (nrows A))); [discriminate|].
  intro H; injection H as <-. simpl. rewrite map_map.
  apply map_ext. intro js. apply pw_block_count_eq.
Qed.

(* ================================================================== *)
(* N2: the fuel is never exhausted (all inputs, also unsorted rows)    *)

(* the invariant of the while(!done) loop: cur_col is the head column of some row *)
Definition headed (cur : option nat) (js : list row) : Prop :=
  forall c, cur = Some c -> exists v tl, In ((c, v) :: tl) js.

Lemma headed_None (js : list row) : headed None js.
Proof. intros c H; discriminate. Qed.

Lemma upd_cur_cases cur c x :
  upd_cur cur c = Some x -> x = c \/ cur = Some x.
Proof.
  destruct cur as [c0|]; simpl; intro H; injection H as <-; [|left; reflexivity].
  destruct (Nat.min_spec c0 c) as [[_ ->]|[_ ->]]; [right|left]; reflexivity.
Qed.

(* pw_init: generalized over the start value of the fold *)
Lemma pw_init_fold_headed (js : list row) cur x :
  fold_left (fun cur r => match r with [] => cur | e :: _ => upd_cur cur (fst e) end) js cur
    = Some x ->
  cur = Some x \/ exists v tl, In ((x, v) :: tl) js.
Proof.
  revert cur; induction js as [|r t IH]; intros cur; simpl; [auto|].
  intro H. apply IH in H. destruct H as [H|[v [tl H]]].
  - destruct r as [|[c w] tl]; [left; exact H|].
    simpl in H. apply upd_cur_cases in H. destruct H as [->|H]; [|left; exact H].
    right. exists w, tl. left; reflexivity.
  - right. exists v, tl. right; exact H.
Qed.

Lemma pw_init_headed (js : list row) : headed (pw_init js) js.
Proof.
  intros c H. apply pw_init_fold_headed in H. destruct H as [H|H]; [discriminate|exact H].
Qed.

(* one row: the rest is never longer; an entry below col_end at the head is consumed *)
Lemma pw_scan_row_length ce (r : row) cur acc r' cur' acc' :
  pw_scan_row ce r cur acc = (r', cur', acc') -> length r' <= length r.
Proof.
  revert acc; induction r as [|[c v] tl IH]; intro acc; simpl.
  - intro H; injection H as <- <- <-. simpl. auto.
  - destruct (Nat.leb ce c).
    + intro H; injection H as <- <- <-. simpl. lia.
    + intro H. apply IH in H. lia.
Qed.

Lemma pw_scan_row_head_lt ce c v (tl : row) cur acc r' cur' acc' :
  c < ce ->
  pw_scan_row ce ((c, v) :: tl) cur acc = (r', cur', acc') ->
  length r' < length ((c, v) :: tl).
Proof.
  intros Hc. simpl. destruct (Nat.leb_spec ce c) as [L|L]; [lia|].
  intro H. apply pw_scan_row_length in H. lia.
Qed.

(* one row: if [cur] is set afterwards, it was set before or it is the head of the rest *)
Lemma pw_scan_row_headed ce (r : row) cur acc r' cur' acc' x :
  pw_scan_row ce r cur acc = (r', cur', acc') ->
  cur' = Some x -> cur = Some x \/ exists v tl, r' = (x, v) :: tl.
Proof.
  revert acc; induction r as [|[c v] tl IH]; intro acc; simpl.
  - intro H; injection H as <- <- <-. auto.
  - destruct (Nat.leb ce c).
    + intro H; injection H as <- <- <-. intro Hx. apply upd_cur_cases in Hx.
      destruct Hx as [->|Hx]; [|left; exact Hx]. right. exists v, tl. reflexivity.
    + apply IH.
Qed.

Lemma pw_pass_total_le' ce (js : list row) cur acc js' cur' acc' :
  pw_pass ce js cur acc = (js', cur', acc') -> total js' <= total js.
Proof.
  revert cur acc js' cur' acc'; induction js as [|r rest IH]; intros cur acc js' cur' acc'; simpl.
  - intro H; injection H as <- <- <-. auto.
  - destruct (pw_scan_row ce r cur acc) as [[r1 cur1] acc1] eqn:E1.
    destruct (pw_pass ce rest cur1 acc1) as [[rest1 cur2] acc2] eqn:E2.
    intro H; injection H as <- <- <-.
    apply pw_scan_row_length in E1. apply IH in E2.
    rewrite !(PwCopy.total_cons (X:=nat * S)). lia.
Qed.

Lemma pw_pass_total_le ce (js : list row) cur acc :
  total (fst (fst (pw_pass ce js cur acc))) <= total js.
Proof.
  destruct (pw_pass ce js cur acc) as [[js' cur'] acc'] eqn:E.
  apply pw_pass_total_le' in E. simpl. exact E.
Qed.

(* a row whose head is below col_end makes the pass strictly decrease [total] *)
Lemma pw_pass_total_lt ce (js : list row) cur acc js' cur' acc' c v tl :
  In ((c, v) :: tl) js -> c < ce ->
  pw_pass ce js cur acc = (js', cur', acc') -> total js' < total js.
Proof.
  intros Hin Hc.
  revert cur acc js' cur' acc' Hin; induction js as [|r rest IH];
    intros cur acc js' cur' acc' Hin; simpl; [destruct Hin|].
  destruct (pw_scan_row ce r cur acc) as [[r1 cur1] acc1] eqn:E1.
  destruct (pw_pass ce rest cur1 acc1) as [[rest1 cur2] acc2] eqn:E2.
  intro H; injection H as <- <- <-.
  rewrite !(PwCopy.total_cons (X:=nat * S)).
  destruct Hin as [->|Hin].
  - apply (pw_scan_row_head_lt ce c v tl) in E1; [|exact Hc].
    apply pw_pass_total_le' in E2. lia.
  - apply pw_scan_row_length in E1. apply IH in E2; [|exact Hin]. lia.
Qed.

(* the pass re-establishes the invariant *)
Lemma pw_pass_headed' ce (js : list row) cur acc js' cur' acc' x :
  pw_pass ce js cur acc = (js', cur', acc') ->
  cur' = Some x -> cur = Some x \/ exists v tl, In ((x, v) :: tl) js'.
Proof.
  revert cur acc js' cur' acc'; induction js as [|r rest IH]; intros cur acc js' cur' acc'; simpl.
  - intro H; injection H as <- <- <-. auto.
  - destruct (pw_scan_row ce r cur acc) as [[r1 cur1] acc1] eqn:E1.
    destruct (pw_pass ce rest cur1 acc1) as [[rest1 cur2] acc2] eqn:E2.
    intro H; injection H as <- <- <-. intro Hx.
    destruct (IH _ _ _ _ _ E2 Hx) as [H1|[v [tl H1]]].
    + destruct (pw_scan_row_headed _ _ _ _ _ _ _ _ E1 H1) as [H0|[v [tl H0]]].
      * left; exact H0.
      * right. exists v, tl. left. exact H0.
    + right. exists v, tl. right. exact H1.
Qed.

Lemma pw_pass_headed ce (js : list row) acc js' cur' acc' :
  pw_pass ce js None acc = (js', cur', acc') -> headed cur' js'.
Proof.
  intros E x Hx. destruct (pw_pass_headed' _ _ _ _ _ _ _ _ E Hx) as [H|H];
    [discriminate|exact H].
Qed.

Lemma col_end_gt c0 bs : 0 < bs -> c0 < (c0 / bs + 1) * bs.
Proof.
  intro Hbs. pose proof (Nat.div_mod c0 bs ltac:(lia)) as E.
  pose proof (Nat.mod_upper_bound c0 bs ltac:(lia)) as U. nia.
Qed.

(* one iteration of the while loop: strict decrease + invariant *)
Lemma pw_iter_step bs c0 (js : list row) js' cur' acc :
  0 < bs -> headed (Some c0) js ->
  pw_pass ((c0 / bs + 1) * bs) js None None = (js', cur', acc) ->
  total js' < total js /\ headed cur' js'.
Proof.
  intros Hbs Hh E. split; [|exact (pw_pass_headed _ _ _ _ _ _ E)].
  destruct (Hh c0 eq_refl) as [v [tl Hin]].
  exact (pw_pass_total_lt _ _ _ _ _ _ _ _ _ _ Hin (col_end_gt c0 bs Hbs) E).
Qed.

Lemma pw_loop_None fuel bs (js : list row) : pw_loop fuel bs None js = [].
Proof. destruct fuel; reflexivity. Qed.

Theorem pw_loop_fuel_indep fuel k bs cur (js : list row) :
  0 < bs -> headed cur js ->
  total js < fuel -> pw_loop fuel bs cur js = pw_loop (fuel + k) bs cur js.
Proof.
  intro Hbs. revert cur js; induction fuel as [|f IH]; intros cur js Hh Hlt; [lia|].
  simpl. destruct cur as [c0|]; [|reflexivity].
  destruct (pw_pass ((c0 / bs + 1) * bs) js None None) as [[js' cur'] acc] eqn:E.
  destruct (pw_iter_step _ _ _ _ _ _ Hbs Hh E) as [Hd Hh'].
  f_equal. apply IH; [exact Hh'|lia].
Qed.

(* the form of the invariant asked for in the task statement *)
Corollary pw_loop_fuel_indep' fuel k bs cur (js : list row) :
  0 < bs -> (forall c, cur = Some c -> exists v tl, In ((c, v) :: tl) js) ->
  total js < fuel -> pw_loop fuel bs cur js = pw_loop (fuel + k) bs cur js.
Proof. exact (pw_loop_fuel_indep fuel k bs cur js). Qed.

(* any two sufficient fuels agree *)
Corollary pw_loop_fuel_any f1 f2 bs cur (js : list row) :
  0 < bs -> headed cur js ->
  total js < f1 -> total js < f2 -> pw_loop f1 bs cur js = pw_loop f2 bs cur js.
Proof.
  intros Hbs Hh H1 H2. destruct (Nat.le_ge_cases f1 f2) as [L|L].
  - replace f2 with (f1 + (f2 - f1)) by lia. apply pw_loop_fuel_indep; assumption.
  - replace f1 with (f2 + (f1 - f2)) by lia. symmetry. apply pw_loop_fuel_indep; assumption.
Qed.

Corollary pw_block_row_fuel bs (js : list row) k :
  0 < bs -> pw_block_row bs js = pw_loop (pw_fuel js + k) bs (pw_init js) js.
Proof.
  intro Hbs. unfold pw_block_row. apply pw_loop_fuel_indep;
    [exact Hbs|apply pw_init_headed|]. rewrite PwCopy.pw_fuel_total. lia.
Qed.

(* the loop stops because [done] holds: with sufficient fuel, the unrolling equation
   of the C++ while loop holds without any fuel bookkeeping *)
Corollary pw_loop_unroll fuel bs c0 (js : list row) :
  0 < bs -> headed (Some c0) js ->
  total js < fuel ->
  pw_loop fuel bs (Some c0) js =
  let '(js', cur', acc) := pw_pass ((c0 / bs + 1) * bs) js None None in
  (c0 / bs, match acc with None => s0 | Some m => m end) :: pw_loop fuel bs cur' js'.
Proof.
  intros Hbs Hh Hlt. destruct fuel as [|f]; [lia|].
  change (pw_loop (Datatypes.S f) bs (Some c0) js) with
    (let '(js', cur', acc) := pw_pass ((c0 / bs + 1) * bs) js None None in
     (c0 / bs, match acc with None => s0 | Some m => m end) :: pw_loop f bs cur' js').
  destruct (pw_pass ((c0 / bs + 1) * bs) js None None) as [[js' cur'] acc] eqn:E.
  destruct (pw_iter_step _ _ _ _ _ _ Hbs Hh E) as [Hd Hh'].
  f_equal. apply pw_loop_fuel_any; [exact Hbs|exact Hh'|lia|lia].
Qed.

(* the block row as the unrolled loop started from pw_init *)
Corollary pw_block_row_unroll bs (js : list row) :
  0 < bs ->
  pw_block_row bs js =
  match pw_init js with
  | None => []
  | Some c0 =>
    let '(js', cur', acc) := pw_pass ((c0 / bs + 1) * bs) js None None in
    (c0 / bs, match acc with None => s0 | Some m => m end) :: pw_loop (pw_fuel js) bs cur' js'
  end.
Proof.
  intro Hbs. unfold pw_block_row. pose proof (pw_init_headed js) as Hh.
  destruct (pw_init js) as [c0|]; [|apply pw_loop_None].
  apply pw_loop_unroll; [exact Hbs|exact Hh|]. rewrite PwCopy.pw_fuel_total. lia.
Qed.

(* ================================================================== *)
(* N3: well-formedness of the pointwise matrix                         *)

Lemma pw_scan_row_lt m ce (r : row) cur acc r' cur' acc' :
  Forall (ent_lt m) r -> cur_lt m cur ->
  pw_scan_row ce r cur acc = (r', cur', acc') ->
  Forall (ent_lt m) r' /\ cur_lt m cur'.
Proof.
  revert acc; induction r as [|[c v] tl IH]; intros acc Hr Hc; simpl.
  - intro H; injection H as <- <- <-. auto.
  - inversion Hr as [|? ? He Ht]; subst.
    destruct (Nat.leb ce c).
    + intro H; injection H as <- <- <-. split; [assumption|].
      apply PwCopy.upd_cur_lt; assumption.
    + apply IH; assumption.
Qed.

Lemma pw_pass_lt m ce (js : list row) cur acc js' cur' acc' :
  rows_lt m js -> cur_lt m cur ->
  pw_pass ce js cur acc = (js', cur', acc') ->
  rows_lt m js' /\ cur_lt m cur'.
Proof.
  revert cur acc js' cur' acc'; induction js as [|r rest IH];
    intros cur acc js' cur' acc' Hj Hc; simpl.
  - intro H; injection H as <- <- <-. auto.
  - inversion Hj as [|? ? Hr Ht]; subst.
    destruct (pw_scan_row ce r cur acc) as [[r1 cur1] acc1] eqn:E1.
    destruct (pw_pass ce rest cur1 acc1) as [[rest1 cur2] acc2] eqn:E2.
    intro H; injection H as <- <- <-.
    apply (pw_scan_row_lt m) in E1; [|assumption|assumption]. destruct E1 as [Hr1 Hc1].
    apply IH in E2; [|assumption|assumption]. destruct E2 as [Ht1 Hc2].
    split; [constructor; assumption|assumption].
Qed.

Lemma pw_loop_lt fuel bs m cur (js : list row) :
  0 < bs -> m = (m / bs) * bs ->
  rows_lt m js -> cur_lt m cur ->
  Forall (ent_lt (m / bs)) (pw_loop fuel bs cur js).
Proof.
  intros Hbs Hdiv. revert cur js; induction fuel as [|f IH]; intros cur js Hj Hc; simpl;
    [constructor|].
  destruct cur as [c0|]; [|constructor].
  destruct (pw_pass ((c0 / bs + 1) * bs) js None None) as [[js' cur'] acc] eqn:E.
  apply (pw_pass_lt m) in E; [|assumption|exact I]. destruct E as [Hj' Hc'].
  constructor; [|apply IH; assumption].
  unfold PwCopy.ent_lt; simpl. simpl in Hc.
  apply Nat.div_lt_upper_bound; lia.
Qed.

Lemma pw_block_row_lt bs m (js : list row) :
  0 < bs -> m = (m / bs) * bs -> rows_lt m js ->
  row_wf (m / bs) (pw_block_row bs js) = true.
Proof.
  intros Hbs Hdiv Hj. apply (proj2 (row_wf_iff _ _)). unfold pw_block_row.
  apply pw_loop_lt; [assumption|assumption|assumption|]. apply PwCopy.pw_init_lt; assumption.
Qed.

Theorem pointwise_matrix_wf (A C : crs) bs :
  wf A = true -> 0 < bs -> ncols A = (ncols A / bs) * bs ->
  pointwise_matrix A bs = Some C ->
  wf C = true /\ nrows C = nrows A / bs /\ ncols C = ncols A / bs.
Proof.
  intros Hwf Hbs Hdiv. unfold pointwise_matrix.
  destruct (Nat.eqb bs 0); [discriminate|].
  destruct (negb (Nat.eqb (nrows A / bs * bs) (nrows A))); [discriminate|].
  intro H; injection H as <-. unfold wf, nrows; simpl.
  rewrite map_length, PwCopy.groups_length. split; [|split; reflexivity].
  apply forallb_forall. intros r Hr. apply in_map_iff in Hr. destruct Hr as [js [<- Hin]].
  apply pw_block_row_lt; [assumption|assumption|].
  pose proof (PwCopy.groups_Forall _ (nrows A / bs) bs _ (PwCopy.wf_rows_lt A Hwf)) as HG.
  rewrite Forall_forall in HG. apply HG. exact Hin.
Qed.

(* the precondition of the C++ (rows divisible) as an iff *)
Lemma pointwise_matrix_some (A : crs) bs :
  (exists C, pointwise_matrix A bs = Some C) <-> (bs <> 0 /\ nrows A / bs * bs = nrows A).
Proof.
  unfold pointwise_matrix. split.
  - intros [C H]. destruct (Nat.eqb bs 0) eqn:E0; [discriminate|].
    destruct (Nat.eqb (nrows A / bs * bs) (nrows A)) eqn:E1; [|discriminate].
    apply Nat.eqb_neq in E0. apply Nat.eqb_eq in E1. auto.
  - intros [H0 H1]. apply Nat.eqb_neq in H0. apply Nat.eqb_eq in H1. rewrite H0, H1. simpl.
    eexists; reflexivity.
Qed.

(* the divisibility of ncols is needed: the C++ only checks the rows.  3 columns,
   block size 2: the entry in column 2 produces block column 1 >= mp = 3/2 = 1. *)
Lemma pointwise_matrix_wf_needs_div :
  exists (A C : crs), wf A = true /\ pointwise_matrix A 2 = Some C /\ wf C = false.
Proof.
  exists (mkCrs 3 [[(2, s0)]; []]). eexists. split; [reflexivity|]. split; reflexivity.
Qed.

End PwNew.

Print Assumptions pointwise_counts_correct.
Print Assumptions pw_block_row_fuel.
Print Assumptions pw_loop_unroll.
Print Assumptions pointwise_matrix_wf.
Print Assumptions pointwise_matrix_wf_needs_div.

End PwNew.
Local Open Scope S_scope.

(* pointwise_matrix, CURRENT code: the scan IS the block maximum on row-sorted input *)
Module PwSpec.
Local Close Scope S_scope.
Section PwSpec.
Context {S : Scalar}.
Local Notation row := (row S).
Local Notation crs := (crs S).

(* ------------------------------------------------------------------ *)
(* boolean sortedness -> StronglySorted                                *)

Lemma sorted_weak_SS (r : row) : sorted_weak r = true -> StronglySorted lec r.
Proof.
  induction r as [|e1 tl IH]; intro H; [constructor|].
  destruct tl as [|e2 tl'].
  - constructor; constructor.
  - change (sorted_weak (e1 :: e2 :: tl'))
      with (Nat.leb (fst e1) (fst e2) && sorted_weak (e2 :: tl'))%bool in H.
    apply andb_true_iff in H. destruct H as [H1 H2]. apply Nat.leb_le in H1.
    specialize (IH H2). constructor; [exact IH|].
    constructor; [exact H1|]. inversion IH as [|? ? _ Hall]; subst.
    eapply Forall_impl; [|exact Hall]. intros x Hx. unfold lec in *. lia.
Qed.

(* ------------------------------------------------------------------ *)
(* generic list helpers                                                *)

Lemma filter_nil' {X} (p : X -> bool) (l : list X) :
  Forall (fun x => p x = false) l -> filter p l = [].
Proof. induction 1 as [|x l Hx _ IH]; simpl; [reflexivity|]. rewrite Hx. exact IH. Qed.

Lemma flat_map_ext_Forall {A B} (f g : A -> list B) (l : list A) :
  Forall (fun x => f x = g x) l -> flat_map f l = flat_map g l.
Proof. induction 1 as [|x l Hx _ IH]; simpl; [reflexivity|]. rewrite Hx, IH. reflexivity. Qed.

(* ------------------------------------------------------------------ *)
(* structural characterisation of one scan / one pass (no sortedness)  *)

Definition hd_upd (cur : option nat) (r : row) : option nat :=
  match r with [] => cur | e :: _ => upd_cur cur (fst e) end.

Lemma pw_init_eq (js : list row) : pw_init js = fold_left hd_upd js None.
Proof. reflexivity. Qed.

(* consumed prefix / remaining suffix of a row for a given col_end *)
Fixpoint tk (ce : nat) (r : row) : row :=
  match r with
  | [] => []
  | e :: tl => if Nat.leb ce (fst e) then [] else e :: tk ce tl
  end.
Fixpoint dr (ce : nat) (r : row) : row :=
  match r with
  | [] => []
  | e :: tl => if Nat.leb ce (fst e) then e :: tl else dr ce tl
  end.

Definition nrm (e : nat * S) : S := sabs (snd e).
Definition accstep (a : option S) (x : S) : option S :=
  Some (match a with None => x | Some m => smax m x end).
Definition accf (acc : option S) (l : list S) : option S := fold_left accstep l acc.

Lemma scan_char ce (r : row) cur acc :
  pw_scan_row ce r cur acc = (dr ce r, hd_upd cur (dr ce r), accf acc (map nrm (tk ce r))).
Proof.
  revert acc. induction r as [|[c v] tl IH]; intro acc; simpl; [reflexivity|].
  destruct (Nat.leb ce c); simpl; [reflexivity|]. rewrite IH. reflexivity.
Qed.

Lemma pass_char ce (js : list row) cur acc :
  pw_pass ce js cur acc =
  (map (dr ce) js, fold_left hd_upd (map (dr ce) js) cur,
   accf acc (flat_map (fun r => map nrm (tk ce r)) js)).
Proof.
  revert cur acc; induction js as [|r rest IH]; intros cur acc; simpl; [reflexivity|].
  rewrite scan_char, IH. unfold accf. rewrite fold_left_app. reflexivity.
Qed.

Lemma accf_some (x : S) (l : list S) : accf (Some x) l = Some (fold_left smax l x).
Proof.
  revert x; induction l as [|a l IH]; intro x; [reflexivity|].
  exact (IH (smax x a)).
Qed.

Lemma accf_none (l : list S) : accf None l = max_list l.
Proof. destruct l as [|x tl]; [reflexivity|]. exact (accf_some x tl). Qed.

Lemma pw_loop_S f bs c0 (js : list row) :
  pw_loop (Datatypes.S f) bs (Some c0) js =
  (c0 / bs,
   match accf None (flat_map (fun r => map nrm (tk ((c0 / bs + 1) * bs) r)) js) with
   | None => s0 | Some m => m end)
  :: pw_loop f bs (pw_init (map (dr ((c0 / bs + 1) * bs)) js)) (map (dr ((c0 / bs + 1) * bs)) js).
Proof.
  change (pw_loop (Datatypes.S f) bs (Some c0) js) with
    (let '(js', cur', acc) := pw_pass ((c0 / bs + 1) * bs) js None None in
     (c0 / bs, match acc with None => s0 | Some m => m end) :: pw_loop f bs cur' js').
  rewrite pass_char. reflexivity.
Qed.

(* ------------------------------------------------------------------ *)
(* pw_init: None iff all rows empty; Some c0 = attained minimum of the heads *)

Lemma init_none (js : list row) cur :
  fold_left hd_upd js cur = None -> cur = None /\ Forall (fun r => r = []) js.
Proof.
  revert cur; induction js as [|r t IH]; intros cur H; simpl in H; [split; [exact H|constructor]|].
  apply IH in H. destruct H as [Hc Ht]. destruct r as [|e tl].
  - split; [exact Hc|constructor; [reflexivity|exact Ht]].
  - simpl in Hc. destruct cur; discriminate.
Qed.

Definition head_ge (c0 : nat) (r : row) : Prop :=
  match r with [] => True | e :: _ => c0 <= fst e end.
Definition head_is (c0 : nat) (r : row) : Prop :=
  match r with [] => False | e :: _ => fst e = c0 end.
Definition cur_ge (c0 : nat) (cur : option nat) : Prop :=
  match cur with None => True | Some c => c0 <= c end.

Lemma init_some (js : list row) cur c0 :
  fold_left hd_upd js cur = Some c0 ->
  Forall (head_ge c0) js /\ cur_ge c0 cur /\ (cur = Some c0 \/ Exists (head_is c0) js).
Proof.
  revert cur; induction js as [|r t IH]; intros cur H; simpl in H.
  - subst cur. split; [constructor|]. split; [simpl; lia|left; reflexivity].
  - apply IH in H. destruct H as (Ht & Hc & Hd). destruct r as [|e tl].
    + simpl in Hc, Hd. split; [constructor; [exact I|exact Ht]|]. split; [exact Hc|].
      destruct Hd as [Hd|Hd]; [left; exact Hd|right; apply Exists_cons_tl; exact Hd].
    + simpl in Hc, Hd. destruct cur as [c|]; simpl in Hc, Hd.
      * split; [constructor; [simpl; lia|exact Ht]|]. split; [simpl; lia|].
        destruct Hd as [Hd|Hd]; [|right; apply Exists_cons_tl; exact Hd].
        injection Hd as Hd.
        destruct (Nat.eq_dec c c0) as [->|Hne]; [left; reflexivity|].
        right. apply Exists_cons_hd. simpl. lia.
      * split; [constructor; [simpl; lia|exact Ht]|]. split; [exact I|].
        destruct Hd as [Hd|Hd]; [|right; apply Exists_cons_tl; exact Hd].
        injection Hd as Hd. right. apply Exists_cons_hd. simpl. exact Hd.
Qed.

(* ------------------------------------------------------------------ *)
(* arithmetic: the col_end test in terms of block-column indices        *)

Lemma leb_div bs J c : 0 < bs -> Nat.leb ((J + 1) * bs) c = Nat.leb (J + 1) (c / bs).
Proof.
  intro H. destruct (Nat.leb_spec ((J + 1) * bs) c) as [L|L]; symmetry.
  - apply Nat.leb_le. apply Nat.div_le_lower_bound; [lia|]. rewrite Nat.mul_comm. exact L.
  - apply Nat.leb_gt. apply Nat.div_lt_upper_bound; [lia|]. rewrite Nat.mul_comm. exact L.
Qed.

Lemma div_mono bs a b : 0 < bs -> a <= b -> a / bs <= b / bs.
Proof. intros H L. apply Nat.div_le_mono; [lia|exact L]. Qed.

(* ------------------------------------------------------------------ *)
(* per-row facts, for a col_end [ce] that separates block column J from J+1 *)

Section Row.
Context (bs J ce : nat) (Hbs : 0 < bs)
        (Hce : forall c, Nat.leb ce c = Nat.leb (J + 1) (c / bs)).

Lemma tk_filter (r : row) :
  StronglySorted lec r -> Forall (fun e => J <= fst e / bs) r ->
  tk ce r = filter (fun e => Nat.eqb (fst e / bs) J) r.
Proof using All.
  intro Hs. induction Hs as [|e tl Hs IH Hall]; intro HJ; simpl; [reflexivity|].
  inversion HJ as [|? ? He Ht]; subst. rewrite Hce.
  destruct (Nat.leb_spec (J + 1) (fst e / bs)) as [L|L].
  - replace (fst e / bs =? J) with false by (symmetry; apply Nat.eqb_neq; lia).
    symmetry. apply filter_nil'. eapply Forall_impl; [|exact Hall]. intros x Hx.
    apply Nat.eqb_neq. unfold lec in Hx.
    assert (fst e / bs <= fst x / bs) by (apply div_mono; assumption). lia.
  - replace (fst e / bs =? J) with true by (symmetry; apply Nat.eqb_eq; lia).
    f_equal. apply IH, Ht.
Qed.

Lemma dr_filter J' (r : row) :
  J < J' ->
  filter (fun e => Nat.eqb (fst e / bs) J') (dr ce r) = filter (fun e => Nat.eqb (fst e / bs) J') r.
Proof using All.
  intro HJ. induction r as [|e tl IH]; [reflexivity|].
  change (dr ce (e :: tl)) with (if Nat.leb ce (fst e) then e :: tl else dr ce tl).
  rewrite Hce. destruct (Nat.leb_spec (J + 1) (fst e / bs)) as [L|L]; [reflexivity|].
  rewrite IH. simpl.
  replace (fst e / bs =? J') with false by (symmetry; apply Nat.eqb_neq; lia). reflexivity.
Qed.

Lemma dr_SS (r : row) : StronglySorted lec r -> StronglySorted lec (dr ce r).
Proof using All.
  induction 1 as [|e tl Hs IH Hall]; simpl; [constructor|].
  destruct (Nat.leb ce (fst e)); [constructor; assumption|exact IH].
Qed.

Lemma dr_Forall (P : nat * S -> Prop) (r : row) : Forall P r -> Forall P (dr ce r).
Proof using All.
  induction 1 as [|e tl He Ht IH]; simpl; [constructor|].
  destruct (Nat.leb ce (fst e)); [constructor; assumption|exact IH].
Qed.

Lemma dr_ge (r : row) :
  StronglySorted lec r -> Forall (fun e => J + 1 <= fst e / bs) (dr ce r).
Proof using All.
  induction 1 as [|e tl Hs IH Hall]; simpl; [constructor|].
  destruct (Nat.leb ce (fst e)) eqn:E; [|exact IH].
  rewrite Hce in E. apply Nat.leb_le in E. constructor; [exact E|].
  eapply Forall_impl; [|exact Hall]. intros x Hx. unfold lec in Hx.
  assert (fst e / bs <= fst x / bs) by (apply div_mono; assumption). lia.
Qed.

Lemma dr_len (r : row) : length (dr ce r) <= length r.
Proof using All.
  induction r as [|e tl IH]; simpl; [lia|].
  destruct (Nat.leb ce (fst e)); simpl; lia.
Qed.

Lemma total_dr_le (js : list row) : PwCopy.total (map (dr ce) js) <= PwCopy.total js.
Proof using All.
  induction js as [|r t IH]; simpl map; [lia|].
  rewrite !(PwCopy.total_cons (X:=nat * S)). pose proof (dr_len r). lia.
Qed.

Lemma total_dr_lt (js : list row) :
  Exists (fun r => match r with [] => False | e :: _ => fst e / bs <= J end) js ->
  PwCopy.total (map (dr ce) js) < PwCopy.total js.
Proof using All.
  induction 1 as [r t Hr|r t Ht IH]; simpl map; rewrite !(PwCopy.total_cons (X:=nat * S)).
  - pose proof (total_dr_le t). destruct r as [|e tl]; [contradiction|].
    simpl. rewrite Hce.
    destruct (Nat.leb_spec (J + 1) (fst e / bs)) as [L|L]; [lia|].
    pose proof (dr_len tl). lia.
  - pose proof (dr_len r). lia.
Qed.

End Row.

(* ------------------------------------------------------------------ *)
(* block_vals / spec_from                                              *)

Lemma block_vals_cons bs J (r : row) (t : list row) :
  block_vals bs J (r :: t) =
  map nrm (filter (fun e => Nat.eqb (fst e / bs) J) r) ++ block_vals bs J t.
Proof. reflexivity. Qed.

Lemma block_vals_nil bs J (js : list row) :
  Forall (Forall (fun e => fst e / bs <> J)) js -> block_vals bs J js = [].
Proof.
  induction 1 as [|r t Hr _ IH]; [reflexivity|].
  rewrite block_vals_cons, IH, filter_nil'; [reflexivity|].
  eapply Forall_impl; [|exact Hr]. intros e He. apply Nat.eqb_neq. exact He.
Qed.

Lemma block_vals_nonempty bs J (js : list row) r e :
  In r js -> In e r -> fst e / bs = J -> block_vals bs J js <> [].
Proof.
  intros Hr He Hq Heq.
  assert (Hin : In (nrm e) (block_vals bs J js)).
  { unfold block_vals. apply in_flat_map. exists r. split; [exact Hr|].
    apply (in_map (fun e => sabs (snd e))). apply filter_In. split; [exact He|].
    apply Nat.eqb_eq. exact Hq. }
  rewrite Heq in Hin. exact Hin.
Qed.

Definition cell bs (js : list row) (J : nat) : row :=
  match max_list (block_vals bs J js) with None => [] | Some m => [(J, m)] end.
Definition spec_from bs J0 n (js : list row) : row := flat_map (cell bs js) (seq J0 n).

Lemma pw_spec_row_from bs mp (js : list row) : pw_spec_row bs mp js = spec_from bs 0 mp js.
Proof. reflexivity. Qed.

Lemma spec_from_app bs J0 a b (js : list row) :
  spec_from bs J0 (a + b) js = spec_from bs J0 a js ++ spec_from bs (J0 + a) b js.
Proof. unfold spec_from. rewrite seq_app, flat_map_app. reflexivity. Qed.

Lemma spec_from_S bs J0 n (js : list row) :
  spec_from bs J0 (Datatypes.S n) js = cell bs js J0 ++ spec_from bs (Datatypes.S J0) n js.
Proof. reflexivity. Qed.

Lemma spec_from_empty bs n (js : list row) : forall J0,
  (forall J, J0 <= J < J0 + n -> block_vals bs J js = []) -> spec_from bs J0 n js = [].
Proof.
  induction n as [|n IH]; intros J0 H; [reflexivity|].
  rewrite spec_from_S. unfold cell at 1. rewrite H by lia. simpl.
  apply IH. intros J HJ. apply H. lia.
Qed.

Lemma spec_from_ext bs n (js js' : list row) : forall J0,
  (forall J, J0 <= J < J0 + n -> block_vals bs J js = block_vals bs J js') ->
  spec_from bs J0 n js = spec_from bs J0 n js'.
Proof.
  induction n as [|n IH]; intros J0 H; [reflexivity|].
  rewrite !spec_from_S. unfold cell. rewrite H by lia. f_equal.
  apply IH. intros J HJ. apply H. lia.
Qed.

Lemma block_vals_dr bs J ce J' (js : list row) :
  0 < bs -> (forall c, Nat.leb ce c = Nat.leb (J + 1) (c / bs)) -> J < J' ->
  block_vals bs J' (map (dr ce) js) = block_vals bs J' js.
Proof.
  intros Hbs Hce HJ. induction js as [|r t IH]; [reflexivity|].
  simpl map. rewrite !block_vals_cons, IH, (dr_filter bs J ce Hbs Hce J' r HJ). reflexivity.
Qed.

Lemma block_vals_tk bs J ce (js : list row) :
  0 < bs -> (forall c, Nat.leb ce c = Nat.leb (J + 1) (c / bs)) ->
  Forall (StronglySorted lec) js -> Forall (Forall (fun e => J <= fst e / bs)) js ->
  flat_map (fun r => map nrm (tk ce r)) js = block_vals bs J js.
Proof.
  intros Hbs Hce Hs HJ. unfold block_vals. apply flat_map_ext_Forall.
  rewrite Forall_forall in *. intros r Hr.
  rewrite (tk_filter bs J ce Hbs Hce r (Hs r Hr) (HJ r Hr)). reflexivity.
Qed.

(* ------------------------------------------------------------------ *)
(* the generalised loop theorem                                        *)

Lemma all_ge_head bs c0 (js : list row) :
  0 < bs -> Forall (StronglySorted lec) js -> Forall (head_ge c0) js ->
  Forall (Forall (fun e => c0 / bs <= fst e / bs)) js.
Proof.
  intros Hbs Hs Hh. rewrite Forall_forall in *. intros r Hr.
  specialize (Hs r Hr). specialize (Hh r Hr). destruct r as [|e tl]; [constructor|].
  simpl in Hh. inversion Hs as [|? ? _ Hall]; subst. constructor.
  - apply div_mono; assumption.
  - eapply Forall_impl; [|exact Hall]. intros x Hx. unfold lec in Hx. apply div_mono; [assumption|lia].
Qed.

Lemma loop_spec bs : 0 < bs -> forall fuel (js : list row) J0 n,
  PwCopy.total js < fuel -> Forall (StronglySorted lec) js ->
  Forall (Forall (fun e => J0 <= fst e / bs < J0 + n)) js ->
  pw_loop fuel bs (pw_init js) js = spec_from bs J0 n js.
Proof.
  intro Hbs. induction fuel as [|f IH]; intros js J0 n Ht Hs Hr; [lia|].
  destruct (pw_init js) as [c0|] eqn:Ei.
  - (* a block column is open: J = c0 / bs *)
    rewrite pw_init_eq in Ei. apply init_some in Ei.
    destruct Ei as (Hmin & _ & [Habs|Hex]); [discriminate|].
    pose proof (all_ge_head bs c0 js Hbs Hs Hmin) as HJ.
    set (J := c0 / bs) in *.
    assert (Hce : forall c, Nat.leb ((J + 1) * bs) c = Nat.leb (J + 1) (c / bs))
      by (intro c; apply leb_div; exact Hbs).
    (* the row whose head is c0 *)
    pose proof Hex as Hex'. apply Exists_exists in Hex'.
    destruct Hex' as (r0 & Hin0 & Hr0). destruct r0 as [|e0 tl0]; [contradiction|].
    simpl in Hr0.
    assert (Hq0 : fst e0 / bs = J) by (unfold J; rewrite Hr0; reflexivity).
    assert (HJr : J0 <= J < J0 + n).
    { rewrite Forall_forall in Hr. specialize (Hr _ Hin0).
      inversion Hr as [|? ? He _]; subst. lia. }
    rewrite pw_loop_S. fold J.
    set (ce := (J + 1) * bs) in *. set (js2 := map (dr ce) js).
    rewrite (block_vals_tk bs J ce js Hbs Hce Hs HJ), accf_none.
    destruct (max_list (block_vals bs J js)) as [m|] eqn:Em.
    2:{ exfalso. apply (block_vals_nonempty bs J js (e0 :: tl0) e0 Hin0 (or_introl eq_refl) Hq0).
        destruct (block_vals bs J js); [reflexivity|discriminate]. }
    (* split the specification at J *)
    assert (Hsplit : spec_from bs J0 n js =
                     (J, m) :: spec_from bs (J + 1) (J0 + n - (J + 1)) js2).
    { replace n with ((J - J0) + (1 + (J0 + n - (J + 1)))) at 1 by lia.
      rewrite !spec_from_app.
      rewrite (spec_from_empty bs (J - J0) js J0).
      2:{ intros J' HJ'. apply block_vals_nil.
          eapply Forall_impl; [|exact HJ]. intros r Hr'.
          eapply Forall_impl; [|exact Hr']. intros e He. simpl in He. lia. }
      replace (J0 + (J - J0)) with J by lia.
      rewrite spec_from_S. unfold cell at 1. rewrite Em. simpl.
      f_equal. replace (Datatypes.S J) with (J + 1) by lia.
      apply spec_from_ext. intros J' HJ'. symmetry.
      apply (block_vals_dr bs J ce J' js Hbs Hce). lia. }
    rewrite Hsplit. f_equal.
    apply IH.
    + assert (PwCopy.total js2 < PwCopy.total js); [|lia].
      apply (total_dr_lt bs J ce Hbs Hce).
      eapply Exists_impl; [|exact Hex]. intros r Hh. destruct r as [|e tl]; [exact Hh|].
      simpl in Hh. rewrite Hh. fold J. lia.
    + unfold js2. rewrite Forall_forall in *. intros r' Hr'.
      apply in_map_iff in Hr'. destruct Hr' as (r & <- & Hin). apply (dr_SS bs J ce Hbs Hce). apply Hs, Hin.
    + unfold js2. rewrite Forall_forall in *. intros r' Hr'.
      apply in_map_iff in Hr'. destruct Hr' as (r & <- & Hin).
      pose proof (dr_ge bs J ce Hbs Hce r (Hs r Hin)) as H1.
      pose proof (dr_Forall bs J ce Hbs Hce _ r (Hr r Hin)) as H2.
      rewrite Forall_forall in *. intros e He.
      specialize (H1 e He). specialize (H2 e He). simpl in H2. lia.
  - (* done: all rows are empty *)
    rewrite pw_init_eq in Ei. apply init_none in Ei. destruct Ei as [_ He].
    simpl. symmetry. apply spec_from_empty. intros J _. apply block_vals_nil.
    eapply Forall_impl; [|exact He]. intros r ->. constructor.
Qed.

(* ------------------------------------------------------------------ *)
(* C08 item 5                                                          *)

Theorem pw_block_row_spec bs mp (js : list row) :
  0 < bs ->
  Forall (fun r => sorted_weak r = true) js ->
  Forall (Forall (fun e => fst e / bs < mp)) js ->
  pw_block_row bs js = pw_spec_row bs mp js.
Proof.
  intros Hbs Hs Hr. unfold pw_block_row. rewrite pw_spec_row_from.
  apply loop_spec; [exact Hbs|rewrite PwCopy.pw_fuel_total; lia| |].
  - eapply Forall_impl; [|exact Hs]. intros r. apply sorted_weak_SS.
  - eapply Forall_impl; [|exact Hr]. intros r H.
    eapply Forall_impl; [|exact H]. intros e He. simpl in He. lia.
Qed.

Theorem pointwise_matrix_spec (A : crs) bs :
  bs <> 0 -> nrows A / bs * bs = nrows A ->
  Forall (fun r => sorted_weak r = true) (rows A) ->
  wf A = true -> ncols A = ncols A / bs * bs ->
  pointwise_matrix A bs = Some (pointwise_spec A bs).
Proof.
  intros Hbs Hn Hs Hwf Hm. unfold pointwise_matrix, pointwise_spec.
  replace (Nat.eqb bs 0) with false by (symmetry; apply Nat.eqb_neq; exact Hbs).
  replace (Nat.eqb (nrows A / bs * bs) (nrows A)) with true by (symmetry; apply Nat.eqb_eq; exact Hn).
  simpl negb. cbv iota. f_equal. f_equal.
  apply map_ext_in. intros js Hjs.
  set (P := fun r : row => sorted_weak r = true /\ Forall (fun e => fst e / bs < ncols A / bs) r).
  assert (HP : Forall P (rows A)).
  { pose proof (PwCopy.wf_rows_lt A Hwf) as Hlt. unfold PwCopy.rows_lt in Hlt.
    rewrite Forall_forall in *. intros r Hr. split; [apply Hs, Hr|].
    specialize (Hlt r Hr). eapply Forall_impl; [|exact Hlt]. intros e He.
    unfold PwCopy.ent_lt in He. apply Nat.div_lt_upper_bound; [exact Hbs|].
    rewrite Nat.mul_comm, <- Hm. exact He. }
  pose proof (PwCopy.groups_Forall P (nrows A / bs) bs (rows A) HP) as HG.
  rewrite Forall_forall in HG. specialize (HG js Hjs).
  apply pw_block_row_spec; [lia| |].
  - eapply Forall_impl; [|exact HG]. intros r [H _]. exact H.
  - eapply Forall_impl; [|exact HG]. intros r [_ H]. exact H.
Qed.

End PwSpec.

Print Assumptions pw_block_row_spec.
Print Assumptions pointwise_matrix_spec.

End PwSpec.
Local Open Scope S_scope.

(* adapter::block_matrix / unblock_matrix: stored blocks = non-empty blocks with the dense values
   of A (rows sorted without duplicates), unblock o block = A densely, shapes, fuel *)
Module Blk.
Local Close Scope S_scope.

(* ================================================================== *)
(* Part A: structural facts, any Scalar                                 *)

Section BlkAny.
Context {S : Scalar}.
Local Notation row := (row S).
Local Notation crs := (crs S).
Local Notation tk := (@PwSpec.tk S).
Local Notation dr := (@PwSpec.dr S).

(* ---------------- arithmetic of block columns ---------------- *)

Lemma blk_div bs J c : J * bs <= c < (J + 1) * bs -> c / bs = J.
Proof. intro H. symmetry. apply (Nat.div_unique c bs J (c - J * bs)); nia. Qed.

Lemma blk_mod bs J c : J * bs <= c < (J + 1) * bs -> c mod bs = c - J * bs.
Proof. intro H. symmetry. apply (Nat.mod_unique c bs J (c - J * bs)); nia. Qed.

Lemma div_blk bs c : 0 < bs -> c / bs * bs <= c < (c / bs + 1) * bs.
Proof.
  intro H. pose proof (Nat.div_mod c bs ltac:(lia)) as E.
  pose proof (Nat.mod_upper_bound c bs ltac:(lia)) as U. nia.
Qed.

Lemma ce_char bs J c : 0 < bs -> Nat.leb ((J + 1) * bs) c = Nat.leb (J + 1) (c / bs).
Proof. apply PwSpec.leb_div. Qed.

(* ---------------- one row: consumed prefix / rest ---------------- *)

Definition gstep (bs : nat) (vs : list S) (e : nat * S) : list S :=
  set_nth (fst e mod bs) (snd e) vs.
Definition gvals (bs ce : nat) (r : row) : list S :=
  fold_left (gstep bs) (tk ce r) (repeat s0 bs).

Lemma gather_row_char bs ce (r : row) vals :
  bm_gather_row bs ce r vals = (dr ce r, fold_left (gstep bs) (tk ce r) vals).
Proof.
  revert vals; induction r as [|[c v] tl IH]; intro vals; simpl; [reflexivity|].
  rewrite Nat.ltb_antisym. destruct (Nat.leb ce c); simpl; [reflexivity|]. apply IH.
Qed.

Lemma gather_char bs ce (js : list row) :
  bm_gather bs ce js = (map (dr ce) js, map (gvals bs ce) js).
Proof.
  unfold bm_gather; cbv zeta. rewrite !map_map.
  f_equal; apply map_ext; intro r; rewrite gather_row_char; reflexivity.
Qed.

Lemma tk_dr_app ce (r : row) : tk ce r ++ dr ce r = r.
Proof.
  induction r as [|e tl IH]; simpl; [reflexivity|].
  destruct (Nat.leb ce (fst e)); simpl; [reflexivity|]. rewrite IH. reflexivity.
Qed.

Lemma tk_lt ce (r : row) : Forall (fun e => fst e < ce) (tk ce r).
Proof.
  induction r as [|e tl IH]; simpl; [constructor|].
  destruct (Nat.leb_spec ce (fst e)); constructor; [lia|exact IH].
Qed.

Lemma tk_incl ce (r : row) e : In e (tk ce r) -> In e r.
Proof. intro H. rewrite <- (tk_dr_app ce r). apply in_or_app. left; exact H. Qed.

Lemma dr_incl ce (r : row) e : In e (dr ce r) -> In e r.
Proof. intro H. rewrite <- (tk_dr_app ce r). apply in_or_app. right; exact H. Qed.

Lemma filter_all {X} (p : X -> bool) (l : list X) :
  Forall (fun x => p x = true) l -> filter p l = l.
Proof. induction 1 as [|x l Hx _ IH]; simpl; [reflexivity|]. rewrite Hx, IH. reflexivity. Qed.

(* the rest of a sorted row = its entries right of block column J *)
Lemma dr_filter_gt bs J (r : row) : 0 < bs -> StronglySorted lec r ->
  dr ((J + 1) * bs) r = filter (fun e => Nat.ltb J (fst e / bs)) r.
Proof.
  intros Hbs Hs. induction Hs as [|e tl Hs IH Hall]; [reflexivity|].
  simpl. rewrite (ce_char bs J (fst e) Hbs).
  destruct (Nat.leb_spec (J + 1) (fst e / bs)) as [L|L].
  - replace (J <? fst e / bs) with true by (symmetry; apply Nat.ltb_lt; lia). f_equal.
    symmetry. apply filter_all. eapply Forall_impl; [|exact Hall]. intros x Hx.
    unfold lec in Hx. pose proof (PwSpec.div_mono bs (fst e) (fst x) Hbs Hx).
    apply Nat.ltb_lt. lia.
  - replace (J <? fst e / bs) with false by (symmetry; apply Nat.ltb_ge; lia). exact IH.
Qed.

(* ---------------- bm_min ---------------- *)

Definition qhd_upd (bs : nat) (cur : option nat) (r : row) : option nat :=
  match r with [] => cur | e :: _ => upd_cur cur (fst e / bs) end.
Definition head_geq (bs cc : nat) (r : row) : Prop :=
  match r with [] => True | e :: _ => cc <= fst e / bs end.
Definition head_isq (bs cc : nat) (r : row) : Prop :=
  match r with [] => False | e :: _ => fst e / bs = cc end.

Lemma bm_min_eq bs (js : list row) : bm_min bs js = fold_left (qhd_upd bs) js None.
Proof. reflexivity. Qed.

Lemma min_none bs (js : list row) cur :
  fold_left (qhd_upd bs) js cur = None -> cur = None /\ Forall (fun r => r = []) js.
Proof.
  revert cur; induction js as [|r t IH]; intros cur H; simpl in H; [split; [exact H|constructor]|].
  apply IH in H. destruct H as [Hc Ht]. destruct r as [|e tl].
  - split; [exact Hc|constructor; [reflexivity|exact Ht]].
  - simpl in Hc. destruct cur; discriminate.
Qed.

Lemma min_some bs (js : list row) cur c0 :
  fold_left (qhd_upd bs) js cur = Some c0 ->
  Forall (head_geq bs c0) js /\ PwSpec.cur_ge c0 cur /\ (cur = Some c0 \/ Exists (head_isq bs c0) js).
Proof.
  revert cur; induction js as [|r t IH]; intros cur H; simpl in H.
  - subst cur. split; [constructor|]. split; [simpl; lia|left; reflexivity].
  - apply IH in H. destruct H as (Ht & Hc & Hd). destruct r as [|e tl].
    + simpl in Hc, Hd. split; [constructor; [exact I|exact Ht]|]. split; [exact Hc|].
      destruct Hd as [Hd|Hd]; [left; exact Hd|right; apply Exists_cons_tl; exact Hd].
    + simpl in Hc, Hd. destruct cur as [c|]; simpl in Hc, Hd.
      * split; [constructor; [simpl; lia|exact Ht]|]. split; [simpl; lia|].
        destruct Hd as [Hd|Hd]; [|right; apply Exists_cons_tl; exact Hd].
        injection Hd as Hd.
        destruct (Nat.eq_dec c c0) as [->|Hne]; [left; reflexivity|].
        right. apply Exists_cons_hd. simpl. lia.
      * split; [constructor; [simpl; lia|exact Ht]|]. split; [exact I|].
        destruct Hd as [Hd|Hd]; [|right; apply Exists_cons_tl; exact Hd].
        injection Hd as Hd. right. apply Exists_cons_hd. simpl. exact Hd.
Qed.

Lemma bm_min_some bs (js : list row) cc :
  bm_min bs js = Some cc -> Forall (head_geq bs cc) js /\ Exists (head_isq bs cc) js.
Proof.
  rewrite bm_min_eq. intro H. apply min_some in H. destruct H as (H1 & _ & [H|H]); [discriminate|].
  split; assumption.
Qed.

Lemma bm_min_none bs (js : list row) : bm_min bs js = None -> Forall (fun r => r = []) js.
Proof. rewrite bm_min_eq. intro H. apply min_none in H. apply H. Qed.

(* ---------------- one iteration of the loop ---------------- *)

Lemma bm_loop_S f bs (js : list row) cc : bm_min bs js = Some cc ->
  bm_loop (Datatypes.S f) bs js =
  (cc, map (gvals bs ((cc + 1) * bs)) js) :: bm_loop f bs (map (dr ((cc + 1) * bs)) js).
Proof. intro H. cbn [bm_loop]. rewrite H, gather_char. reflexivity. Qed.

Lemma bm_loop_None f bs (js : list row) : bm_min bs js = None -> bm_loop f bs js = [].
Proof. intro H. destruct f; cbn [bm_loop]; [reflexivity|]. rewrite H. reflexivity. Qed.

(* ---------------- fuel ---------------- *)

Lemma min_total_lt bs (js : list row) cc : 0 < bs -> bm_min bs js = Some cc ->
  PwCopy.total (map (dr ((cc + 1) * bs)) js) < PwCopy.total js.
Proof.
  intros Hbs H. apply bm_min_some in H. destruct H as [_ Hex].
  apply (PwSpec.total_dr_lt bs cc ((cc + 1) * bs) Hbs (fun c => ce_char bs cc c Hbs)).
  eapply Exists_impl; [|exact Hex]. intros r Hh. destruct r as [|e tl]; [exact Hh|].
  simpl in Hh. lia.
Qed.

Theorem bm_loop_fuel_indep bs : 0 < bs -> forall fuel k (js : list row),
  PwCopy.total js < fuel -> bm_loop (fuel + k) bs js = bm_loop fuel bs js.
Proof.
  intro Hbs. induction fuel as [|f IH]; intros k js Ht; [lia|].
  destruct (bm_min bs js) as [cc|] eqn:E.
  - change (Datatypes.S f + k) with (Datatypes.S (f + k)).
    rewrite !(bm_loop_S _ bs js cc E). f_equal. apply IH.
    pose proof (min_total_lt bs js cc Hbs E). lia.
  - rewrite !bm_loop_None by exact E. reflexivity.
Qed.

Theorem bm_block_row_fuel bs (js : list row) k : 0 < bs ->
  bm_block_row bs js = bm_loop (pw_fuel js + k) bs js.
Proof.
  intro Hbs. unfold bm_block_row. symmetry. apply bm_loop_fuel_indep; [exact Hbs|].
  rewrite PwCopy.pw_fuel_total. lia.
Qed.

(* ---------------- shape of the stored blocks ---------------- *)

Lemma set_nth_length {X} n (x : X) l : length (set_nth n x l) = length l.
Proof. revert n; induction l as [|y l IH]; intros [|n]; simpl; try reflexivity. rewrite IH; reflexivity. Qed.

Lemma fold_gstep_length bs (p : row) vals : length (fold_left (gstep bs) p vals) = length vals.
Proof.
  revert vals; induction p as [|e p IH]; intro vals; simpl; [reflexivity|].
  rewrite IH. apply set_nth_length.
Qed.

Lemma gvals_length bs ce (r : row) : length (gvals bs ce r) = bs.
Proof. unfold gvals. rewrite fold_gstep_length. apply repeat_length. Qed.

Lemma bm_loop_shape bs fuel : forall (js : list row) c b, In (c, b) (bm_loop fuel bs js) ->
  length b = length js /\ Forall (fun v => length v = bs) b.
Proof.
  induction fuel as [|f IH]; intros js c b H; [contradiction|].
  destruct (bm_min bs js) as [cc|] eqn:E.
  - rewrite (bm_loop_S _ bs js cc E) in H. destruct H as [H|H].
    + injection H as _ <-. split; [apply map_length|].
      apply Forall_map. apply Forall_forall. intros r _. apply gvals_length.
    + apply IH in H. rewrite map_length in H. exact H.
  - rewrite bm_loop_None in H by exact E. contradiction.
Qed.

Lemma bm_loop_cols bs fuel : forall (js : list row) c b, In (c, b) (bm_loop fuel bs js) ->
  exists r e, In r js /\ In e r /\ c = fst e / bs.
Proof.
  induction fuel as [|f IH]; intros js c b H; [contradiction|].
  destruct (bm_min bs js) as [cc|] eqn:E.
  - rewrite (bm_loop_S _ bs js cc E) in H. destruct H as [H|H].
    + injection H as <- _. apply bm_min_some in E. destruct E as [_ Hex].
      apply Exists_exists in Hex. destruct Hex as (r & Hr & Hh).
      destruct r as [|e tl]; [contradiction|]. simpl in Hh.
      exists (e :: tl), e. split; [exact Hr|]. split; [left; reflexivity|]. symmetry; exact Hh.
    + apply IH in H. destruct H as (r' & e & Hr' & He & Hc).
      apply in_map_iff in Hr'. destruct Hr' as (r & <- & Hr).
      exists r, e. split; [exact Hr|]. split; [eapply dr_incl; exact He|exact Hc].
  - rewrite bm_loop_None in H by exact E. contradiction.
Qed.

Lemma groups_lengths {X} np bs (l : list X) :
  np * bs <= length l -> Forall (fun g => length g = bs) (groups np bs l).
Proof.
  revert l; induction np as [|k IH]; intros l H; simpl; constructor; simpl in H.
  - apply firstn_length_le. lia.
  - apply IH. rewrite skipn_length. lia.
Qed.

Lemma block_matrix_some_inv (A : crs) bs B : block_matrix A bs = Some B ->
  bs <> 0 /\ nrows A / bs * bs = nrows A /\ ncols A / bs * bs = ncols A /\
  B = mkBcrs (ncols A / bs) (map (bm_block_row bs) (groups (nrows A / bs) bs (rows A))).
Proof.
  unfold block_matrix. destruct (Nat.eqb_spec bs 0) as [|Hbs]; [discriminate|].
  destruct (Nat.eqb_spec (nrows A / bs * bs) (nrows A)) as [Hn|]; [|discriminate].
  destruct (Nat.eqb_spec (ncols A / bs * bs) (ncols A)) as [Hm|]; [|discriminate].
  simpl. intro H. injection H as <-. auto.
Qed.

(* B3: the block matrix is well formed *)
Theorem block_matrix_wf (A : crs) bs B :
  wf A = true -> block_matrix A bs = Some B ->
  length (brows B) = nrows A / bs /\ bncols B = ncols A / bs /\
  Forall (Forall (fun cb => fst cb < bncols B /\ length (snd cb) = bs /\
                            Forall (fun v => length v = bs) (snd cb))) (brows B).
Proof.
  intros Hwf H. apply block_matrix_some_inv in H. destruct H as (Hbs & Hn & Hm & ->). simpl.
  split; [rewrite map_length; apply PwCopy.groups_length|]. split; [reflexivity|].
  apply Forall_map.
  pose proof (PwCopy.groups_Forall _ (nrows A / bs) bs (rows A) (PwCopy.wf_rows_lt A Hwf)) as HG.
  pose proof (groups_lengths (nrows A / bs) bs (rows A)) as HL.
  rewrite Forall_forall in *. intros js Hjs. specialize (HG js Hjs).
  assert (HL0 : nrows A / bs * bs <= length (rows A)) by (rewrite Hn; apply le_n).
  specialize (HL HL0 js Hjs).
  apply Forall_forall. intros [c b] Hcb. unfold bm_block_row in Hcb. simpl.
  pose proof (bm_loop_shape _ _ _ _ _ Hcb) as [S1 S2].
  apply bm_loop_cols in Hcb. destruct Hcb as (r & e & Hr & He & ->).
  split; [|split; [lia|exact S2]].
  rewrite Forall_forall in HG. specialize (HG r Hr). rewrite Forall_forall in HG. specialize (HG e He).
  unfold PwCopy.ent_lt in HG. apply Nat.div_lt_upper_bound; [exact Hbs|]. lia.
Qed.

End BlkAny.

(* ================================================================== *)
(* Part B: values (commutative ring for rget)                           *)

Section BlkRing.
Context {S : Scalar}.
Local Notation row := (row S).
Local Notation crs := (crs S).
Local Notation tk := (@PwSpec.tk S).
Local Notation dr := (@PwSpec.dr S).
Hypothesis Srt : Sring S.
Add Ring SRingB : Srt.

(* ---------------- set_nth on a tabulated vector ---------------- *)

Lemma set_nth_map_seq (f : nat -> S) k v n : forall a,
  set_nth k v (map f (seq a n)) = map (fun l => if Nat.eqb l (a + k) then v else f l) (seq a n).
Proof.
  revert k; induction n as [|n IH]; intros k a; [destruct k; reflexivity|].
  destruct k as [|k]; simpl.
  - replace (a =? a + 0) with true by (symmetry; apply Nat.eqb_eq; lia). f_equal.
    apply map_ext_in. intros l Hl. apply in_seq in Hl.
    replace (l =? a + 0) with false by (symmetry; apply Nat.eqb_neq; lia). reflexivity.
  - replace (a =? a + Datatypes.S k) with false by (symmetry; apply Nat.eqb_neq; lia). f_equal.
    rewrite IH. apply map_ext. intro l.
    replace (Datatypes.S a + k) with (a + Datatypes.S k) by lia. reflexivity.
Qed.

Lemma repeat_map_seq (x : S) n : forall a, repeat x n = map (fun _ => x) (seq a n).
Proof. induction n as [|n IH]; intro a; simpl; [reflexivity|]. rewrite <- IH. reflexivity. Qed.

(* the vector after the consumed prefix p, as a function of the position *)
Fixpoint G (bs : nat) (p : row) (f : nat -> S) (l : nat) : S :=
  match p with
  | [] => f l
  | e :: t => G bs t (fun l' => if Nat.eqb l' (fst e mod bs) then snd e else f l') l
  end.

Lemma fold_G bs (p : row) : forall f,
  fold_left (gstep bs) p (map f (seq 0 bs)) = map (G bs p f) (seq 0 bs).
Proof.
  induction p as [|e p IH]; intro f; simpl; [reflexivity|].
  unfold gstep at 2. rewrite set_nth_map_seq. exact (IH _).
Qed.

Definition inblk (bs J : nat) (e : nat * S) : Prop := J * bs <= fst e < (J + 1) * bs.

Lemma G_spec bs J l : l < bs -> forall (p : row) f,
  NoDup (map fst p) -> Forall (inblk bs J) p ->
  (~ In (J * bs + l) (map fst p) -> G bs p f l = f l) /\
  (In (J * bs + l) (map fst p) -> G bs p f l = rget p (J * bs + l)).
Proof.
  intro Hl. induction p as [|[c v] p IH]; intros f Hnd Hb.
  - split; [reflexivity|intros []].
  - inversion Hnd as [|? ? Hnin Hnd']; subst. inversion Hb as [|? ? Hc Hb']; subst.
    unfold inblk in Hc; simpl in Hc.
    pose proof (blk_mod bs J c Hc) as Hm.
    specialize (IH (fun l' => if Nat.eqb l' (c mod bs) then v else f l') Hnd' Hb').
    destruct IH as [IH1 IH2]. simpl G. simpl map. rewrite (rget_cons Srt). simpl fst; simpl snd.
    destruct (Nat.eqb_spec c (J * bs + l)) as [E|E].
    + subst c. split; [intro H; exfalso; apply H; left; reflexivity|]. intros _.
      rewrite IH1 by exact Hnin.
      replace (l =? (J * bs + l) mod bs) with true by (symmetry; apply Nat.eqb_eq; lia).
      rewrite (rget_notin Srt) by exact Hnin. ring.
    + split.
      * intro H. rewrite IH1 by (intro H'; apply H; right; exact H').
        replace (l =? c mod bs) with false by (symmetry; apply Nat.eqb_neq; lia). reflexivity.
      * intros [H|H]; [contradiction|]. rewrite IH2 by exact H. ring.
Qed.

Lemma G_zero bs J l (p : row) : l < bs -> NoDup (map fst p) -> Forall (inblk bs J) p ->
  G bs p (fun _ => s0) l = rget p (J * bs + l).
Proof.
  intros Hl Hnd Hb. destruct (G_spec bs J l Hl p (fun _ => s0) Hnd Hb) as [H1 H2].
  destruct (in_dec Nat.eq_dec (J * bs + l) (map fst p)) as [Hin|Hnin].
  - apply H2, Hin.
  - rewrite H1 by exact Hnin. symmetry. apply (rget_notin Srt). exact Hnin.
Qed.

(* ---------------- sortedness ---------------- *)

Lemma NoDup_app_r' {X} (l1 l2 : list X) : NoDup (l1 ++ l2) -> NoDup l2.
Proof. induction l1 as [|x l1 IH]; simpl; intro H; [exact H|]. inversion H; subst. apply IH; assumption. Qed.

Lemma NoDup_app_l' {X} (l1 l2 : list X) : NoDup (l1 ++ l2) -> NoDup l1.
Proof.
  induction l1 as [|x l1 IH]; simpl; intro H; [constructor|]. inversion H as [|? ? Hn Hd]; subst.
  constructor; [|apply IH; exact Hd]. intro Hin. apply Hn. apply in_or_app. left; exact Hin.
Qed.

Definition rok (r : row) : Prop := StronglySorted lec r /\ NoDup (map fst r).

Lemma sorted_strict_rok (r : row) : sorted_strict r = true -> rok r.
Proof.
  intro H. split; [|apply Rmerge.sorted_strict_NoDup; exact H].
  apply Rmerge.sorted_strict_StronglySorted in H.
  induction H as [|e tl Hs IH Hall]; constructor; [exact IH|].
  eapply Forall_impl; [|exact Hall]. intros x Hx. unfold lec. simpl in Hx. lia.
Qed.

Lemma dr_rok bs J (r : row) : 0 < bs -> rok r -> rok (dr ((J + 1) * bs) r).
Proof.
  intros Hbs [Hs Hnd]. split.
  - apply (PwSpec.dr_SS bs J _ Hbs (fun c => ce_char bs J c Hbs)). exact Hs.
  - rewrite <- (tk_dr_app ((J + 1) * bs) r), map_app in Hnd.
    apply NoDup_app_r' in Hnd. exact Hnd.
Qed.

(* ---------------- the per-row lemma ---------------- *)

Lemma rget_dr_zero bs J (r : row) l : 0 < bs -> l < bs -> StronglySorted lec r ->
  rget (dr ((J + 1) * bs) r) (J * bs + l) = s0.
Proof.
  intros Hbs Hl Hs. apply (rget_notin Srt). intro Hin. apply in_map_iff in Hin.
  destruct Hin as (e & He & Hin).
  pose proof (PwSpec.dr_ge bs J _ Hbs (fun c => ce_char bs J c Hbs) r Hs) as Hge.
  rewrite Forall_forall in Hge. specialize (Hge e Hin). rewrite He in Hge.
  rewrite (blk_div bs J (J * bs + l)) in Hge by lia. lia.
Qed.

Lemma rget_tk_zero ce (r : row) j : ce <= j -> rget (tk ce r) j = s0.
Proof.
  intro Hj. apply (rget_notin Srt). intro Hin. apply in_map_iff in Hin.
  destruct Hin as (e & He & Hin). pose proof (tk_lt ce r) as Hlt.
  rewrite Forall_forall in Hlt. specialize (Hlt e Hin). lia.
Qed.

Lemma rget_split ce (r : row) j : rget r j = sadd (rget (tk ce r) j) (rget (dr ce r) j).
Proof. rewrite <- (rget_app Srt), tk_dr_app. reflexivity. Qed.

Theorem gvals_spec bs J (r : row) : 0 < bs -> rok r -> Forall (fun e => J <= fst e / bs) r ->
  gvals bs ((J + 1) * bs) r = map (fun l => rget r (J * bs + l)) (seq 0 bs).
Proof.
  intros Hbs [Hs Hnd] HJ. unfold gvals. rewrite (repeat_map_seq s0 bs 0), fold_G.
  apply map_ext_in. intros l Hl. apply in_seq in Hl.
  set (ce := (J + 1) * bs).
  rewrite (G_zero bs J l (tk ce r)); [| lia | |].
  - rewrite (rget_split ce r (J * bs + l)). unfold ce.
    rewrite (rget_dr_zero bs J r l Hbs ltac:(lia) Hs). ring.
  - rewrite <- (tk_dr_app ce r), map_app in Hnd. apply NoDup_app_l' in Hnd. exact Hnd.
  - pose proof (tk_lt ce r) as Hlt. rewrite Forall_forall in *. intros e He.
    specialize (Hlt e He). specialize (HJ e (tk_incl ce r e He)).
    unfold inblk. pose proof (div_blk bs (fst e) Hbs). unfold ce in Hlt. nia.
Qed.

(* the statement in terms of bm_gather_row *)
Corollary bm_gather_row_spec bs J (r : row) :
  0 < bs -> sorted_strict r = true -> Forall (fun e => J <= fst e / bs) r ->
  bm_gather_row bs ((J + 1) * bs) r (repeat s0 bs) =
  (dr ((J + 1) * bs) r, map (fun l => rget r (J * bs + l)) (seq 0 bs)).
Proof.
  intros Hbs Hs HJ. rewrite gather_row_char. f_equal.
  apply (gvals_spec bs J r Hbs (sorted_strict_rok r Hs) HJ).
Qed.

Corollary bm_gather_row_spec_filter bs J (r : row) :
  0 < bs -> sorted_strict r = true -> Forall (fun e => J <= fst e / bs) r ->
  bm_gather_row bs ((J + 1) * bs) r (repeat s0 bs) =
  (filter (fun e => Nat.ltb J (fst e / bs)) r, map (fun l => rget r (J * bs + l)) (seq 0 bs)).
Proof.
  intros Hbs Hs HJ. rewrite (bm_gather_row_spec bs J r Hbs Hs HJ). f_equal.
  apply dr_filter_gt; [exact Hbs|]. apply sorted_strict_rok, Hs.
Qed.


(* ---------------- block_has / block_dense under dr ---------------- *)

Lemma block_has_false bs J (js : list row) :
  Forall (Forall (fun e => fst e / bs <> J)) js -> block_has bs J js = false.
Proof.
  intro H. unfold block_has. induction H as [|r t Hr _ IH]; simpl; [reflexivity|].
  rewrite IH, orb_false_r. induction Hr as [|e tl He _ IHr]; simpl; [reflexivity|].
  rewrite IHr, orb_false_r. apply Nat.eqb_neq. exact He.
Qed.

Lemma block_has_true bs J (js : list row) r e :
  In r js -> In e r -> fst e / bs = J -> block_has bs J js = true.
Proof.
  intros Hr He Hq. unfold block_has. apply existsb_exists. exists r. split; [exact Hr|].
  apply existsb_exists. exists e. split; [exact He|]. apply Nat.eqb_eq. exact Hq.
Qed.

Lemma block_has_false_inv bs J (js : list row) r e :
  block_has bs J js = false -> In r js -> In e r -> fst e / bs <> J.
Proof.
  intros H Hr He Hq. rewrite (block_has_true bs J js r e Hr He Hq) in H. discriminate.
Qed.

Lemma existsb_dr bs J J' (r : row) : 0 < bs -> J < J' ->
  existsb (fun e => Nat.eqb (fst e / bs) J') (dr ((J + 1) * bs) r) =
  existsb (fun e => Nat.eqb (fst e / bs) J') r.
Proof.
  intros Hbs HJ. induction r as [|e tl IH]; [reflexivity|].
  change (dr ((J + 1) * bs) (e :: tl))
    with (if Nat.leb ((J + 1) * bs) (fst e) then e :: tl else dr ((J + 1) * bs) tl).
  rewrite (ce_char bs J (fst e) Hbs).
  destruct (Nat.leb_spec (J + 1) (fst e / bs)) as [L|L]; [reflexivity|].
  rewrite IH. simpl.
  replace (fst e / bs =? J') with false by (symmetry; apply Nat.eqb_neq; lia). reflexivity.
Qed.

Lemma block_has_dr bs J J' (js : list row) : 0 < bs -> J < J' ->
  block_has bs J' (map (dr ((J + 1) * bs)) js) = block_has bs J' js.
Proof.
  intros Hbs HJ. unfold block_has. induction js as [|r t IH]; [reflexivity|].
  simpl. rewrite IH, (existsb_dr bs J J' r Hbs HJ). reflexivity.
Qed.

Lemma block_dense_dr bs J J' (js : list row) : J < J' ->
  block_dense bs J' (map (dr ((J + 1) * bs)) js) = block_dense bs J' js.
Proof.
  intro HJ. unfold block_dense. rewrite map_map. apply map_ext. intro r.
  apply map_ext. intro l. rewrite (rget_split ((J + 1) * bs) r (J' * bs + l)).
  rewrite rget_tk_zero by nia. ring.
Qed.

Lemma block_dense_gvals bs J (js : list row) : 0 < bs ->
  Forall rok js -> Forall (Forall (fun e => J <= fst e / bs)) js ->
  map (gvals bs ((J + 1) * bs)) js = block_dense bs J js.
Proof.
  intros Hbs Hs HJ. unfold block_dense. apply map_ext_in. intros r Hr.
  rewrite Forall_forall in Hs, HJ. apply gvals_spec; [exact Hbs|apply Hs, Hr|apply HJ, Hr].
Qed.

(* ---------------- the specification from a block column on ---------------- *)

Definition bcell bs (js : list row) (J : nat) : list (nat * @blk S) :=
  if block_has bs J js then [(J, block_dense bs J js)] else [].
Definition bfrom bs J0 n (js : list row) : list (nat * @blk S) := flat_map (bcell bs js) (seq J0 n).

Lemma block_spec_row_from bs mp (js : list row) : block_spec_row bs mp js = bfrom bs 0 mp js.
Proof. reflexivity. Qed.

Lemma bfrom_app bs J0 a b (js : list row) :
  bfrom bs J0 (a + b) js = bfrom bs J0 a js ++ bfrom bs (J0 + a) b js.
Proof. unfold bfrom. rewrite seq_app, flat_map_app. reflexivity. Qed.

Lemma bfrom_S bs J0 n (js : list row) :
  bfrom bs J0 (Datatypes.S n) js = bcell bs js J0 ++ bfrom bs (Datatypes.S J0) n js.
Proof. reflexivity. Qed.

Lemma bfrom_empty bs n (js : list row) : forall J0,
  (forall J, J0 <= J < J0 + n -> block_has bs J js = false) -> bfrom bs J0 n js = [].
Proof.
  induction n as [|n IH]; intros J0 H; [reflexivity|].
  rewrite bfrom_S. unfold bcell at 1. rewrite H by lia. simpl.
  apply IH. intros J HJ. apply H. lia.
Qed.

Lemma bfrom_ext bs n (js js' : list row) : forall J0,
  (forall J, J0 <= J < J0 + n -> bcell bs js J = bcell bs js' J) ->
  bfrom bs J0 n js = bfrom bs J0 n js'.
Proof.
  induction n as [|n IH]; intros J0 H; [reflexivity|].
  rewrite !bfrom_S. rewrite H by lia. f_equal.
  apply IH. intros J HJ. apply H. lia.
Qed.

Lemma all_geq_head bs cc (js : list row) :
  0 < bs -> Forall rok js -> Forall (head_geq bs cc) js ->
  Forall (Forall (fun e => cc <= fst e / bs)) js.
Proof.
  intros Hbs Hs Hh. rewrite Forall_forall in *. intros r Hr.
  destruct (Hs r Hr) as [Hss _]. specialize (Hh r Hr). destruct r as [|e tl]; [constructor|].
  simpl in Hh. inversion Hss as [|? ? _ Hall]; subst. constructor; [exact Hh|].
  eapply Forall_impl; [|exact Hall]. intros x Hx. unfold lec in Hx.
  pose proof (PwSpec.div_mono bs (fst e) (fst x) Hbs Hx). lia.
Qed.

(* ---------------- the generalised loop theorem ---------------- *)

Lemma bm_loop_spec bs : 0 < bs -> forall fuel (js : list row) J0 n,
  PwCopy.total js < fuel -> Forall rok js ->
  Forall (Forall (fun e => J0 <= fst e / bs < J0 + n)) js ->
  bm_loop fuel bs js = bfrom bs J0 n js.
Proof.
  intro Hbs. induction fuel as [|f IH]; intros js J0 n Ht Hs Hr; [lia|].
  destruct (bm_min bs js) as [J|] eqn:Ei.
  - pose proof (min_total_lt bs js J Hbs Ei) as Hdec.
    rewrite (bm_loop_S f bs js J Ei).
    apply bm_min_some in Ei. destruct Ei as [Hmin Hex].
    pose proof (all_geq_head bs J js Hbs Hs Hmin) as HJ.
    apply Exists_exists in Hex. destruct Hex as (r0 & Hin0 & Hr0).
    destruct r0 as [|e0 tl0]; [contradiction|]. simpl in Hr0.
    assert (HJr : J0 <= J < J0 + n).
    { rewrite Forall_forall in Hr. specialize (Hr _ Hin0).
      inversion Hr as [|? ? He _]; subst. lia. }
    rewrite (block_dense_gvals bs J js Hbs Hs HJ).
    set (js2 := map (dr ((J + 1) * bs)) js) in *.
    assert (Hsplit : bfrom bs J0 n js =
                     (J, block_dense bs J js) :: bfrom bs (J + 1) (J0 + n - (J + 1)) js2).
    { replace n with ((J - J0) + (1 + (J0 + n - (J + 1)))) at 1 by lia.
      rewrite !bfrom_app.
      rewrite (bfrom_empty bs (J - J0) js J0).
      2:{ intros J' HJ'. apply block_has_false.
          eapply Forall_impl; [|exact HJ]. intros r Hr'.
          eapply Forall_impl; [|exact Hr']. intros e He. simpl in He. lia. }
      replace (J0 + (J - J0)) with J by lia.
      rewrite bfrom_S. unfold bcell at 1.
      rewrite (block_has_true bs J js (e0 :: tl0) e0 Hin0 (or_introl eq_refl) Hr0). simpl.
      f_equal. replace (Datatypes.S J) with (J + 1) by lia.
      apply bfrom_ext. intros J' HJ'. unfold bcell, js2.
      rewrite (block_has_dr bs J J' js Hbs ltac:(lia)), (block_dense_dr bs J J' js ltac:(lia)).
      reflexivity. }
    rewrite Hsplit. f_equal.
    apply IH.
    + lia.
    + unfold js2. rewrite Forall_forall in *. intros r' Hr'.
      apply in_map_iff in Hr'. destruct Hr' as (r & <- & Hin). apply dr_rok; [exact Hbs|]. apply Hs, Hin.
    + unfold js2. rewrite Forall_forall in *. intros r' Hr'.
      apply in_map_iff in Hr'. destruct Hr' as (r & <- & Hin).
      pose proof (PwSpec.dr_ge bs J _ Hbs (fun c => ce_char bs J c Hbs) r (proj1 (Hs r Hin))) as H1.
      rewrite Forall_forall in *. intros e He.
      specialize (H1 e He). pose proof (Hr r Hin) as H2. rewrite Forall_forall in H2.
      specialize (H2 e (dr_incl _ r e He)). simpl in H2. lia.
  - rewrite bm_loop_None by exact Ei. apply bm_min_none in Ei.
    symmetry. apply bfrom_empty. intros J _. apply block_has_false.
    eapply Forall_impl; [|exact Ei]. intros r ->. constructor.
Qed.

(* ---------------- B1 ---------------- *)

Theorem bm_block_row_spec bs mp (js : list row) :
  0 < bs ->
  Forall (fun r => sorted_strict r = true) js ->
  Forall (Forall (fun e => fst e / bs < mp)) js ->
  bm_block_row bs js = block_spec_row bs mp js.
Proof.
  intros Hbs Hs Hr. unfold bm_block_row. rewrite block_spec_row_from.
  apply bm_loop_spec; [exact Hbs|rewrite PwCopy.pw_fuel_total; lia| |].
  - eapply Forall_impl; [|exact Hs]. intros r. apply sorted_strict_rok.
  - eapply Forall_impl; [|exact Hr]. intros r H.
    eapply Forall_impl; [|exact H]. intros e He. simpl in He. lia.
Qed.

Theorem block_matrix_spec (A : crs) bs :
  bs <> 0 -> nrows A / bs * bs = nrows A -> ncols A / bs * bs = ncols A ->
  forallb sorted_strict (rows A) = true -> wf A = true ->
  block_matrix A bs = Some (block_spec A bs).
Proof.
  intros Hbs Hn Hm Hs Hwf. unfold block_matrix, block_spec.
  replace (Nat.eqb bs 0) with false by (symmetry; apply Nat.eqb_neq; exact Hbs).
  replace (Nat.eqb (nrows A / bs * bs) (nrows A)) with true by (symmetry; apply Nat.eqb_eq; exact Hn).
  replace (Nat.eqb (ncols A / bs * bs) (ncols A)) with true by (symmetry; apply Nat.eqb_eq; exact Hm).
  simpl negb. cbv iota. simpl orb. cbv iota. f_equal. f_equal.
  apply map_ext_in. intros js Hjs.
  set (P := fun r : row => sorted_strict r = true /\ Forall (fun e => fst e / bs < ncols A / bs) r).
  assert (HP : Forall P (rows A)).
  { pose proof (PwCopy.wf_rows_lt A Hwf) as Hlt. unfold PwCopy.rows_lt in Hlt.
    rewrite forallb_forall in Hs.
    rewrite Forall_forall in *. intros r Hr. split; [apply Hs, Hr|].
    specialize (Hlt r Hr). eapply Forall_impl; [|exact Hlt]. intros e He.
    unfold PwCopy.ent_lt in He. apply Nat.div_lt_upper_bound; [exact Hbs|]. lia. }
  pose proof (PwCopy.groups_Forall P (nrows A / bs) bs (rows A) HP) as HG.
  rewrite Forall_forall in HG. specialize (HG js Hjs).
  apply bm_block_row_spec; [lia| |].
  - eapply Forall_impl; [|exact HG]. intros r [H _]. exact H.
  - eapply Forall_impl; [|exact HG]. intros r [_ H]. exact H.
Qed.

End BlkRing.

(* ================================================================== *)
(* Part C: unblock_matrix, round trip                                   *)

Section Unblock.
Context {S : Scalar}.
Local Notation row := (row S).
Local Notation crs := (crs S).
Local Notation bcrs := (@bcrs S).

(* shape: no hypothesis needed, every block row yields exactly bs scalar rows *)
Theorem unblock_ncols bs (B : bcrs) : ncols (unblock_matrix bs B) = bncols B * bs.
Proof. reflexivity. Qed.

Lemma flat_map_const_length {X Y} (f : X -> list Y) n (l : list X) :
  (forall x, length (f x) = n) -> length (flat_map f l) = length l * n.
Proof.
  intro H. induction l as [|x l IH]; simpl; [reflexivity|]. rewrite app_length, H, IH. reflexivity.
Qed.

Theorem unblock_nrows bs (B : bcrs) : nrows (unblock_matrix bs B) = length (brows B) * bs.
Proof.
  unfold nrows, unblock_matrix. simpl. apply flat_map_const_length.
  intro br. rewrite map_length. apply seq_length.
Qed.

Lemma nth_flat_map_const {X Y} (f : X -> list Y) n dx dy : (forall x, length (f x) = n) ->
  forall (l : list X) q k, q < length l -> k < n ->
  nth (q * n + k) (flat_map f l) dy = nth k (f (nth q l dx)) dy.
Proof.
  intro H. induction l as [|x l IH]; intros q k Hq Hk; simpl in Hq; [lia|].
  destruct q as [|q]; simpl flat_map.
  - rewrite app_nth1 by (rewrite H; lia). reflexivity.
  - rewrite app_nth2 by (rewrite H; nia). rewrite H.
    replace (Datatypes.S q * n + k - n) with (q * n + k) by nia.
    apply IH; lia.
Qed.

Lemma nth_map_lt {X Y} (f : X -> Y) (l : list X) k dy dx :
  k < length l -> nth k (map f l) dy = f (nth k l dx).
Proof. intro H. rewrite (nth_indep _ dy (f dx)) by (rewrite map_length; exact H). apply map_nth. Qed.

Lemma nth_firstn' {X} (d : X) n : forall (l : list X) k, k < n -> nth k (firstn n l) d = nth k l d.
Proof.
  induction n as [|n IH]; intros l k Hk; [lia|].
  destruct l as [|x l]; [reflexivity|]. destruct k as [|k]; [reflexivity|].
  simpl. apply IH. lia.
Qed.

Lemma nth_skipn' {X} (d : X) m : forall (l : list X) k, nth k (skipn m l) d = nth (m + k) l d.
Proof.
  induction m as [|m IH]; intros l k; [reflexivity|].
  destruct l as [|x l]; [destruct k; reflexivity|]. simpl. apply IH.
Qed.

Lemma skipn_skipn' {X} a : forall b (l : list X), skipn a (skipn b l) = skipn (b + a) l.
Proof.
  intros b; induction b as [|b IH]; intro l; [reflexivity|].
  destruct l as [|x l]; [simpl; destruct a; reflexivity|]. simpl. apply IH.
Qed.

Lemma nth_groups {X} bs : forall np (l : list X) I, I < np ->
  nth I (groups np bs l) [] = firstn bs (skipn (I * bs) l).
Proof.
  induction np as [|np IH]; intros l I HI; [lia|].
  destruct I as [|I]; [reflexivity|]. simpl groups. simpl nth.
  rewrite IH by lia. rewrite skipn_skipn'. reflexivity.
Qed.

Lemma nth_group_row bs np (l : list row) I k : I < np -> k < bs ->
  nth k (nth I (groups np bs l) []) [] = nth (I * bs + k) l [].
Proof.
  intros HI Hk. rewrite nth_groups by exact HI. rewrite nth_firstn' by exact Hk.
  apply nth_skipn'.
Qed.

End Unblock.

Section UnblockRing.
Context {S : Scalar}.
Local Notation row := (row S).
Local Notation crs := (crs S).
Local Notation bcrs := (@bcrs S).
Hypothesis Srt : Sring S.
Add Ring SRingC : Srt.

Lemma rget_flat_map_zero {X} (F : X -> row) (L : list X) j :
  (forall x, In x L -> rget (F x) j = s0) -> rget (flat_map F L) j = s0.
Proof.
  induction L as [|x L IH]; intro H; [apply rget_nil|].
  simpl. rewrite (rget_app Srt), H by (left; reflexivity).
  rewrite IH by (intros y Hy; apply H; right; exact Hy). ring.
Qed.

Lemma rget_tab (f : nat -> S) b n : forall a x, a <= x < a + n ->
  rget (map (fun l => (b + l, f l)) (seq a n)) (b + x) = f x.
Proof.
  induction n as [|n IH]; intros a x Hx; [lia|].
  simpl. rewrite (rget_cons Srt). simpl fst; simpl snd.
  destruct (Nat.eqb_spec (b + a) (b + x)) as [E|E].
  - assert (a = x) by lia. subst x.
    rewrite (rget_notin Srt); [ring|]. rewrite map_map. simpl. intro Hin.
    apply in_map_iff in Hin. destruct Hin as (l & Hl & Hin). apply in_seq in Hin. lia.
  - rewrite IH by lia. ring.
Qed.

Lemma rget_tab_notin (f : nat -> S) bs J j : 0 < bs -> j / bs <> J ->
  rget (map (fun l => (J * bs + l, f l)) (seq 0 bs)) j = s0.
Proof.
  intros Hbs Hj. apply (rget_notin Srt). rewrite map_map. simpl. intro Hin.
  apply in_map_iff in Hin. destruct Hin as (l & Hl & Hin). apply in_seq in Hin.
  apply Hj. subst j. apply blk_div. lia.
Qed.

Lemma nth_block_dense bs J (js : list row) : forall k l, l < bs ->
  nth l (nth k (block_dense bs J js) []) s0 = rget (nth k js []) (J * bs + l).
Proof.
  induction js as [|r t IH]; intros k l Hl.
  - destruct k; destruct l; reflexivity.
  - destruct k as [|k]; [|apply IH; exact Hl]. simpl.
    rewrite (nth_indep _ s0 (rget r (J * bs + 0))) by (rewrite map_length, seq_length; exact Hl).
    rewrite (map_nth (fun l => rget r (J * bs + l)) (seq 0 bs) 0 l).
    rewrite seq_nth by exact Hl. reflexivity.
Qed.

(* one scalar row of the unblocked specification *)
Definition cellrow bs (js : list row) k (J : nat) : row :=
  if block_has bs J js
  then map (fun l => (J * bs + l, nth l (nth k (block_dense bs J js) []) s0)) (seq 0 bs)
  else [].

Lemma flat_map_flat_map' {X Y Z} (g : Y -> list Z) (h : X -> list Y) (L : list X) :
  flat_map g (flat_map h L) = flat_map (fun x => flat_map g (h x)) L.
Proof.
  induction L as [|x L IH]; [reflexivity|]. cbn [flat_map]. rewrite flat_map_app, IH. reflexivity.
Qed.

Lemma unblock_row_spec bs mp (js : list row) k :
  unblock_row bs k (block_spec_row bs mp js) = flat_map (cellrow bs js k) (seq 0 mp).
Proof.
  unfold unblock_row, block_spec_row. rewrite flat_map_flat_map'.
  apply flat_map_ext. intro J. unfold cellrow.
  destruct (block_has bs J js); [simpl; apply app_nil_r|reflexivity].
Qed.

Lemma rget_cellrow_other bs (js : list row) k J j : 0 < bs -> j / bs <> J ->
  rget (cellrow bs js k J) j = s0.
Proof.
  intros Hbs Hj. unfold cellrow. destruct (block_has bs J js); [|apply rget_nil].
  apply rget_tab_notin; assumption.
Qed.

Lemma rget_cellrow_same bs (js : list row) k J l : 0 < bs -> l < bs ->
  rget (cellrow bs js k J) (J * bs + l) = rget (nth k js []) (J * bs + l).
Proof.
  intros Hbs Hl. unfold cellrow. destruct (block_has bs J js) eqn:E.
  - rewrite (rget_tab _ (J * bs) bs 0 l) by lia. apply nth_block_dense. exact Hl.
  - rewrite rget_nil. symmetry. apply (rget_notin Srt). intro Hin.
    apply in_map_iff in Hin. destruct Hin as (e & He & Hin).
    destruct (nth_in_or_default k js []) as [Hr|Hr]; [|rewrite Hr in Hin; contradiction].
    apply (block_has_false_inv bs J js _ e E Hr Hin). rewrite He. apply blk_div. lia.
Qed.

Theorem unblock_row_dense bs mp (js : list row) k j : 0 < bs -> j < mp * bs ->
  rget (unblock_row bs k (block_spec_row bs mp js)) j = rget (nth k js []) j.
Proof.
  intros Hbs Hj. rewrite unblock_row_spec.
  set (J := j / bs). pose proof (div_blk bs j Hbs) as Hd. fold J in Hd.
  assert (HJ : J < mp) by nia.
  replace mp with (J + (1 + (mp - J - 1))) by lia.
  rewrite !seq_app, !flat_map_app, !(rget_app Srt). simpl flat_map. rewrite app_nil_r.
  rewrite rget_flat_map_zero.
  2:{ intros J' HJ'. apply in_seq in HJ'. apply rget_cellrow_other; [exact Hbs|fold J; lia]. }
  rewrite (rget_flat_map_zero _ (seq (0 + J + 1) (mp - J - 1))).
  2:{ intros J' HJ'. apply in_seq in HJ'. apply rget_cellrow_other; [exact Hbs|fold J; lia]. }
  replace j with (J * bs + (j - J * bs)) by lia. simpl plus.
  rewrite rget_cellrow_same by lia. ring.
Qed.

(* B2: dense round trip through the specification (divisibility only) *)
Theorem unblock_spec_dense (A : crs) bs i j :
  bs <> 0 -> nrows A / bs * bs = nrows A -> ncols A / bs * bs = ncols A ->
  i < nrows A -> j < ncols A ->
  mget (unblock_matrix bs (block_spec A bs)) i j = mget A i j.
Proof.
  intros Hbs Hn Hm Hi Hj. unfold mget.
  pose proof (div_blk bs i ltac:(lia)) as Hd.
  set (I := i / bs) in *. set (k := i - I * bs).
  assert (HI : I < nrows A / bs) by nia.
  assert (Hk : k < bs) by (unfold k; lia).
  replace i with (I * bs + k) by (unfold k; lia).
  unfold unblock_matrix, block_spec. simpl rows.
  rewrite (nth_flat_map_const (X:=list (nat * @blk S)) (Y:=row) _ bs [] []);
    [|intro br; rewrite map_length; apply seq_length
     |rewrite map_length, PwCopy.groups_length; exact HI|exact Hk].
  rewrite (nth_map_lt (X:=nat) (Y:=row) _ _ k [] 0) by (rewrite seq_length; exact Hk).
  rewrite seq_nth by exact Hk. simpl plus.
  rewrite (nth_map_lt (X:=list row) (Y:=list (nat * @blk S)) _ _ I [] []) by (rewrite PwCopy.groups_length; exact HI).
  rewrite unblock_row_dense by lia.
  rewrite nth_group_row by assumption. reflexivity.
Qed.

Theorem unblock_block_dense (A : crs) bs B i j :
  forallb sorted_strict (rows A) = true -> wf A = true ->
  block_matrix A bs = Some B -> i < nrows A -> j < ncols A ->
  mget (unblock_matrix bs B) i j = mget A i j.
Proof.
  intros Hs Hwf HB Hi Hj. pose proof (block_matrix_some_inv A bs B HB) as (Hbs & Hn & Hm & _).
  rewrite (block_matrix_spec Srt A bs Hbs Hn Hm Hs Hwf) in HB. injection HB as <-.
  apply unblock_spec_dense; assumption.
Qed.

End UnblockRing.

(* ================================================================== *)
(* closed instance                                                      *)

Theorem block_matrix_spec_Qc (A : crs QcS) bs :
  bs <> 0 -> nrows A / bs * bs = nrows A -> ncols A / bs * bs = ncols A ->
  forallb sorted_strict (rows A) = true -> wf A = true ->
  block_matrix A bs = Some (block_spec A bs).
Proof. apply (block_matrix_spec QcS_ring). Qed.

Theorem unblock_block_dense_Qc (A : crs QcS) bs B i j :
  forallb sorted_strict (rows A) = true -> wf A = true ->
  block_matrix A bs = Some B -> i < nrows A -> j < ncols A ->
  mget (unblock_matrix bs B) i j = mget A i j.
Proof. apply (unblock_block_dense QcS_ring). Qed.

Print Assumptions block_matrix_spec_Qc.
Print Assumptions unblock_block_dense_Qc.
Print Assumptions block_matrix_wf.
Print Assumptions bm_block_row_fuel.

End Blk.
Local Open Scope S_scope.

(* ------------------------------------------------------------------ *)
(* pointwise_matrix BEFORE /repo commit 0e81e11 (definitions *_old): the specification "entry
   (I,J) = largest norm in block (I,J), pattern = non-empty blocks" was violated by the scan as it
   was coded then.  The current code satisfies it: PwSpec.pointwise_matrix_spec. *)

(* value lost: A = [1 1] (1 x 2), block size 1.  The entry (0,1) ends the scan of block
   column 0, is consumed there and is missing when block column 1 is reduced. *)
Definition pw_wit1 : crs QcS := mkCrs 2 [[(0, qc 1 1); (1, qc 1 1)]]%nat.
(* pattern lost: 2 x 6, block size 2: row 0 = (0:1)(2:1), row 1 = (4:1).  Entry (1,4) is
   consumed while block column 0 is scanned; block column 2 never appears. *)
Definition pw_wit2 : crs QcS :=
  mkCrs 6 [[(0, qc 1 1); (2, qc 1 1)]; [(4, qc 1 1)]]%nat.
(* the case that matters in practice (pointwise aggregation): 1D Poisson (x) I_2 *)
Definition pw_wit3 : crs QcS :=
  mkCrs 4 [[(0, qc 2 1); (2, qc (-1) 1)]; [(1, qc 2 1); (3, qc (-1) 1)];
           [(0, qc (-1) 1); (2, qc 2 1)]; [(1, qc (-1) 1); (3, qc 2 1)]]%nat.

(* what the scan computes / what the definition prescribes, values shown as plain Q *)
Definition qrows_of (A : crs QcS) : list (list (nat * Q)) :=
  map (map (fun e : nat * Qc => (fst e, this (snd e)))) (rows A).
Definition pw_out (A : crs QcS) (bs : nat) : crs QcS :=
  match pointwise_matrix_old A bs with Some C => C | None => mkCrs 0 [] end.

Lemma pw_wit1_run :
  qrows_of (pw_out pw_wit1 1) = [[(0%nat, (1#1)%Q); (1%nat, (0#1)%Q)]] /\
  qrows_of (pointwise_spec pw_wit1 1) = [[(0%nat, (1#1)%Q); (1%nat, (1#1)%Q)]].
Proof. vm_compute. split; reflexivity. Qed.

Lemma pw_wit2_run :
  qrows_of (pw_out pw_wit2 2) = [[(0%nat, (1#1)%Q); (1%nat, (0#1)%Q)]] /\
  qrows_of (pointwise_spec pw_wit2 2) = [[(0%nat, (1#1)%Q); (1%nat, (1#1)%Q); (2%nat, (1#1)%Q)]].
Proof. vm_compute. split; reflexivity. Qed.

Lemma pw_wit3_run :
  qrows_of (pw_out pw_wit3 2) = [[(0%nat, (2#1)%Q); (1%nat, (0#1)%Q)]; [(0%nat, (1#1)%Q); (1%nat, (0#1)%Q)]] /\
  qrows_of (pointwise_spec pw_wit3 2) = [[(0%nat, (2#1)%Q); (1%nat, (1#1)%Q)]; [(0%nat, (1#1)%Q); (1%nat, (2#1)%Q)]].
Proof. vm_compute. split; reflexivity. Qed.

Lemma pw_out_some (A : crs QcS) bs :
  (if pointwise_matrix_old A bs then true else false) = true -> pointwise_matrix_old A bs = Some (pw_out A bs).
Proof. unfold pw_out. destruct (pointwise_matrix_old A bs); [reflexivity|discriminate]. Qed.

(* inputs are as benign as they can be: well-formed, rows sorted without duplicates,
   sizes divisible by the block size *)
Definition pw_input_ok (A : crs QcS) (bs : nat) : bool :=
  wf A && rows_sorted_strict A && negb (Nat.eqb bs 0) &&
  Nat.eqb (Nat.div (nrows A) bs * bs) (nrows A) && Nat.eqb (Nat.div (ncols A) bs * bs) (ncols A).

Lemma crs_eqb_false_neq (C D : crs QcS) : crs_eqb C D = false -> crs_eqb D D = true -> C <> D.
Proof. intros H1 H2 E. rewrite E in H1. congruence. Qed.

Theorem pointwise_old_refuted :
  exists (A : crs QcS) (bs : nat) (C : crs QcS),
    pw_input_ok A bs = true /\ pointwise_matrix_old A bs = Some C /\
    crs_eqb C (pointwise_spec A bs) = false /\ C <> pointwise_spec A bs.
Proof.
  exists pw_wit1, 1%nat, (pw_out pw_wit1 1).
  split; [vm_compute; reflexivity|]. split; [apply pw_out_some; vm_compute; reflexivity|].
  assert (E : crs_eqb (pw_out pw_wit1 1) (pointwise_spec pw_wit1 1) = false) by (vm_compute; reflexivity).
  split; [exact E|]. apply crs_eqb_false_neq; [exact E|vm_compute; reflexivity].
Qed.

(* the pattern is wrong as well: a non-empty block is missing from the result *)
Theorem pointwise_old_refuted_pattern :
  exists (A : crs QcS) (bs : nat) (C : crs QcS),
    pw_input_ok A bs = true /\ pointwise_matrix_old A bs = Some C /\
    map (map fst) (rows C) <> map (map fst) (rows (pointwise_spec A bs)).
Proof.
  exists pw_wit2, 2%nat, (pw_out pw_wit2 2).
  split; [vm_compute; reflexivity|]. split; [apply pw_out_some; vm_compute; reflexivity|].
  vm_compute. discriminate.
Qed.

(* ------------------------------------------------------------------ *)
(* power method (any Scalar): one sweep of the unscaled iteration computes b1 = A b0,
   ||b1||^2 accumulated as sum |s_i s_i| and the estimate sum_i |s_i b0_i|  (structural
   part of the power-method statement; the bound by the largest singular value is not proved) *)
Section PowerMethod.
Context {S : Scalar}.
Local Notation vec := (vec S).
Local Notation row := (row S).
Local Notation crs := (crs S).

Lemma pm_inner_false (b0 : vec) (i : nat) (r : row) (a dia : S) :
  fold_left (fun (sd : S * S) e =>
               (fst sd + snd e * vget b0 (fst e),
                if false && Nat.eqb (fst e) i then snd e else snd sd)) r (a, dia)
  = (fold_left (fun acc e => acc + snd e * vget b0 (fst e)) r a, dia).
Proof. revert a; induction r as [|e r IH]; intro a; simpl; [reflexivity|]. apply IH. Qed.

Lemma pm_row_false (b0 : vec) nrm rad dia (b1 : vec) i (r : row) :
  pm_row false b0 (nrm, rad, dia, b1) (i, r) =
  (nrm + sabs (dotrow r b0 * dotrow r b0), rad + sabs (dotrow r b0 * vget b0 i), dia, b1 ++ [dotrow r b0]).
Proof. unfold pm_row. cbn [fst snd]. rewrite pm_inner_false. reflexivity. Qed.

Lemma pm_fold_false (b0 : vec) (l : list row) : forall k nrm rad dia (b1 : vec),
  fold_left (pm_row false b0) (combine (seq k (length l)) l) (nrm, rad, dia, b1) =
  (fold_left (fun a s => a + sabs (s * s)) (map (fun r => dotrow r b0) l) nrm,
   fold_left (fun a (p : nat * S) => a + sabs (snd p * vget b0 (fst p)))
             (combine (seq k (length l)) (map (fun r => dotrow r b0) l)) rad,
   dia, b1 ++ map (fun r => dotrow r b0) l).
Proof.
  induction l as [|r l IH]; intros k nrm rad dia b1.
  - simpl. rewrite app_nil_r. reflexivity.
  - cbn [length seq combine fold_left map]. rewrite pm_row_false, IH. cbn [fst snd].
    rewrite <- app_assoc. reflexivity.
Qed.

Theorem pm_iter_unscaled (A : crs) (b0 : vec) :
  pm_iter false A b0 =
  (fold_left (fun a s => a + sabs (s * s)) (map (fun r => dotrow r b0) (rows A)) s0,
   fold_left (fun a (p : nat * S) => a + sabs (snd p * vget b0 (fst p)))
             (indexed (map (fun r => dotrow r b0) (rows A))) s0,
   map (fun r => dotrow r b0) (rows A)).
Proof.
  unfold pm_iter, indexed. rewrite pm_fold_false. rewrite map_length. reflexivity.
Qed.
End PowerMethod.

