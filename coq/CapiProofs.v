(* CapiProofs.v -- lemmas about Capi.v (C20-A1, A2, A3). *)
From Coq Require Import String Ascii List Bool Arith ZArith Lia.
From Amgcl Require Import Ptree PtreeProofs Capi.
Import ListNotations.
Local Open Scope Z_scope.

Section Matrix.
  Variable V : Type.
  Variable dv : V.

  Lemma zn_map_pred l i : (i < length l)%nat -> zn (map Z.pred l) i = zn l i - 1.
  Proof.
    intros H. unfold zn. rewrite (nth_indep _ 0 (Z.pred 0)) by (rewrite map_length; exact H).
    rewrite map_nth. lia.
  Qed.

  Lemma monotone_step l i : monotone l = true -> (S i < length l)%nat -> zn l i <= zn l (S i).
  Proof.
    revert i. induction l as [|a t IH]; intros i Hm Hi; [simpl in Hi; lia|].
    destruct t as [|b t']; [simpl in Hi; lia|].
    simpl in Hm. apply andb_prop in Hm. destruct Hm as [Hab Ht].
    destruct i as [|i].
    - unfold zn. simpl. apply Z.leb_le. exact Hab.
    - unfold zn in *. change (nth (S i) (a :: b :: t') 0) with (nth i (b :: t') 0).
      change (nth (S (S i)) (a :: b :: t') 0) with (nth (S i) (b :: t') 0).
      apply IH; [exact Ht | simpl in *; lia].
  Qed.

  Lemma monotone_le l i j : monotone l = true -> (i <= j)%nat -> (j < length l)%nat -> zn l i <= zn l j.
  Proof.
    intros Hm Hij Hj. induction Hij as [|j Hij IH]; [lia|].
    transitivity (zn l j); [apply IH; lia | apply monotone_step; assumption].
  Qed.

  (* every position of col[] / val[] that is dereferenced lies inside the arrays *)
  Lemma reads_in_range base n nnz ptr col (val : list V) :
    wf_arrays V base n nnz ptr col val ->
    Forall (fun j => (j < nnz)%nat) (reads base n ptr).
  Proof.
    intros (Hlen & H0 & Hn & Hm & _ & _).
    apply Forall_forall. intros j Hj. unfold reads in Hj. apply in_flat_map in Hj.
    destruct Hj as (i & Hi & Hj). apply in_seq in Hi. unfold row_positions in Hj. apply in_seq in Hj.
    assert (Hb : base <= zn ptr i).
    { rewrite <- H0. apply monotone_le; [exact Hm | lia | lia]. }
    assert (He : zn ptr (i + 1) <= Z.of_nat nnz + base).
    { rewrite <- Hn. apply monotone_le; [exact Hm | lia | lia]. }
    assert (Hbe : zn ptr i <= zn ptr (i + 1)).
    { apply monotone_le; [exact Hm | lia | lia]. }
    lia.
  Qed.

  Lemma ptr_reads_in_range base n nnz ptr col (val : list V) :
    wf_arrays V base n nnz ptr col val -> Forall (fun i => (i < length ptr)%nat) (ptr_reads n).
  Proof.
    intros (Hlen & _). apply Forall_forall. intros i Hi. unfold ptr_reads in Hi. apply in_seq in Hi. lia.
  Qed.

  (* the Fortran entry points form an end iterator one position beyond one-past-the-end *)
  Lemma formed_end_fortran n nnz ptr col (val : list V) :
    wf_arrays V 1 n nnz ptr col val -> formed_end n ptr = Z.of_nat nnz + 1.
  Proof. intros (_ & _ & Hn & _). exact Hn. Qed.

  Lemma wf_shift n nnz ptr col (val : list V) :
    wf_arrays V 1 n nnz ptr col val -> wf_arrays V 0 n nnz (map Z.pred ptr) (map Z.pred col) val.
  Proof.
    intros (Hlen & H0 & Hn & Hm & Hc & Hv). unfold wf_arrays.
    rewrite !map_length. repeat split; try assumption.
    - rewrite zn_map_pred by lia. lia.
    - rewrite zn_map_pred by lia. lia.
    - clear -Hm. induction ptr as [|a t IH]; [reflexivity|].
      destruct t as [|b t']; [reflexivity|].
      simpl in Hm. apply andb_prop in Hm. destruct Hm as [Hab Ht].
      change (map Z.pred (a :: b :: t')) with (Z.pred a :: map Z.pred (b :: t')).
      change (map Z.pred (b :: t')) with (Z.pred b :: map Z.pred t') in *.
      simpl. apply andb_true_intro. split.
      + apply Z.leb_le. apply Z.leb_le in Hab. lia.
      + exact (IH Ht).
  Qed.

  (* C20-A1: 1-based entry points = 0-based entry points on the shifted arrays *)
  Lemma build_f_is_build_c_shifted n nnz ptr col (val : list V) :
    wf_arrays V 1 n nnz ptr col val ->
    build_f V dv n ptr col val = build_c V dv n (map Z.pred ptr) (map Z.pred col) val.
  Proof.
    intros Hwf. pose proof (reads_in_range 1 n nnz ptr col val Hwf) as Hr.
    destruct Hwf as (Hlen & H0 & Hn & Hm & Hc & Hv).
    unfold build_f, build_c, build. apply map_ext_in. intros i Hi. apply in_seq in Hi.
    unfold read_row.
    assert (Hpos : row_positions 0 (map Z.pred ptr) i = row_positions 1 ptr i).
    { unfold row_positions. rewrite !zn_map_pred by lia. f_equal; f_equal; lia. }
    rewrite Hpos. apply map_ext_in. intros j Hj.
    assert (Hjn : (j < nnz)%nat).
    { rewrite Forall_forall in Hr. apply Hr. unfold reads. apply in_flat_map. exists i. split; [apply in_seq; lia | exact Hj]. }
    rewrite zn_map_pred by lia. f_equal. lia.
  Qed.
End Matrix.

(* ---------------------------------------------------------------- A2: handle life cycle *)
Lemma lookup_remove_same h s : lookup_h h (remove_h h s) = None.
Proof.
  induction s as [|[h' k] s IH]; [reflexivity|]. simpl.
  destruct (Nat.eqb h' h) eqn:E; simpl; [exact IH | rewrite E; exact IH].
Qed.

Lemma lookup_remove_other h h' s : h <> h' -> lookup_h h' (remove_h h s) = lookup_h h' s.
Proof.
  intros Hne. induction s as [|[h2 k] s IH]; [reflexivity|]. simpl.
  destruct (Nat.eqb h2 h) eqn:E; simpl.
  - apply Nat.eqb_eq in E. subst h2. destruct (Nat.eqb h h') eqn:E2; [apply Nat.eqb_eq in E2; contradiction | exact IH].
  - destruct (Nat.eqb h2 h'); [reflexivity | exact IH].
Qed.

Lemma hkind_eqb_refl k : hkind_eqb k k = true.
Proof. destruct k; reflexivity. Qed.

(* a handle can be used right after it was created, with its kind *)
Lemma create_then_use s k h s' : cstep s (Create k h) = Some s' -> cstep s' (Use k h) = Some s'.
Proof.
  simpl. destruct (lookup_h h s); [discriminate|]. intros H. injection H as <-.
  simpl. rewrite Nat.eqb_refl, hkind_eqb_refl. reflexivity.
Qed.

(* after destroy the handle is dead: use or a second destroy is undefined behaviour *)
Lemma destroy_then_use s k h s' k' : cstep s (Destroy k h) = Some s' -> cstep s' (Use k' h) = None.
Proof.
  simpl. destruct (lookup_h h s) as [k2|]; [|discriminate]. destruct (hkind_eqb k k2); [|discriminate].
  intros H. injection H as <-. simpl. rewrite lookup_remove_same. reflexivity.
Qed.
Lemma destroy_twice s k h s' k' : cstep s (Destroy k h) = Some s' -> cstep s' (Destroy k' h) = None.
Proof.
  simpl. destruct (lookup_h h s) as [k2|]; [|discriminate]. destruct (hkind_eqb k k2); [|discriminate].
  intros H. injection H as <-. simpl. rewrite lookup_remove_same. reflexivity.
Qed.
(* destroying one handle leaves every other handle as it was *)
Lemma destroy_other s k h s' h' : cstep s (Destroy k h) = Some s' -> h <> h' -> lookup_h h' s' = lookup_h h' s.
Proof.
  simpl. destruct (lookup_h h s) as [k2|]; [|discriminate]. destruct (hkind_eqb k k2); [|discriminate].
  intros H Hne. injection H as <-. apply lookup_remove_other. exact Hne.
Qed.
(* a handle with the wrong kind (e.g. a params handle passed to amgcl_solver_solve) is UB *)
Lemma use_wrong_kind s k k' h : lookup_h h s = Some k' -> hkind_eqb k k' = false -> cstep s (Use k h) = None.
Proof. intros H1 H2. simpl. rewrite H1, H2. reflexivity. Qed.

Lemma disciplined_runs s os : disciplined s os = true <-> exists s', crun s os = Some s'.
Proof.
  revert s. induction os as [|o os IH]; intros s; simpl.
  - split; [eauto | reflexivity].
  - destruct (cstep s o) as [s1|]; [apply IH|]. split; [discriminate | intros [s' H]; discriminate].
Qed.

(* live handles after a run: keys are distinct (no handle is live twice) *)
Lemma remove_h_incl h s x : In x (map fst (remove_h h s)) -> In x (map fst s).
Proof.
  unfold remove_h. intros H. apply in_map_iff in H. destruct H as (e & <- & He). apply filter_In in He.
  apply in_map. exact (proj1 He).
Qed.
Lemma lookup_none_notin h s : lookup_h h s = None -> ~ In h (map fst s).
Proof.
  induction s as [|[h' k] s IH]; simpl; [tauto|].
  destruct (Nat.eqb h' h) eqn:E; [discriminate|]. intros H [H1|H1]; [subst; rewrite Nat.eqb_refl in E; discriminate | exact (IH H H1)].
Qed.
Lemma nodup_remove h s : NoDup (map fst s) -> NoDup (map fst (remove_h h s)).
Proof.
  induction s as [|[h' k] s IH]; simpl; [constructor|]. intros H. inversion H as [|? ? Hn Hd]; subst.
  destruct (Nat.eqb h' h); simpl; [exact (IH Hd)|]. constructor; [|exact (IH Hd)].
  intros Hin. apply Hn. exact (remove_h_incl _ _ _ Hin).
Qed.
Lemma cstep_nodup s o s' : NoDup (map fst s) -> cstep s o = Some s' -> NoDup (map fst s').
Proof.
  destruct o as [k h|k h|k h]; simpl.
  - destruct (lookup_h h s) eqn:E; [discriminate|]. intros Hd H. injection H as <-. simpl. constructor; [exact (lookup_none_notin _ _ E) | exact Hd].
  - destruct (lookup_h h s) as [k'|]; [|discriminate]. destruct (hkind_eqb k k'); [|discriminate]. intros Hd H. injection H as <-. exact Hd.
  - destruct (lookup_h h s) as [k'|]; [|discriminate]. destruct (hkind_eqb k k'); [|discriminate]. intros Hd H. injection H as <-. exact (nodup_remove _ _ Hd).
Qed.
Lemma crun_nodup os : forall s s', NoDup (map fst s) -> crun s os = Some s' -> NoDup (map fst s').
Proof.
  induction os as [|o os IH]; intros s s' Hd H; simpl in H; [injection H as <-; exact Hd|].
  destruct (cstep s o) as [s1|] eqn:E; [|discriminate]. exact (IH s1 s' (cstep_nodup _ _ _ Hd E) H).
Qed.

(* ---------------------------------------------------------------- A3: params setters *)
Lemma capi_set_get name text prm : capi_get name (capi_set name text prm) = Some text.
Proof.
  unfold capi_get, capi_set. destruct (get_put_same (split_dots name) text prm) as (n & Hn & Hd).
  rewrite Hn, Hd. reflexivity.
Qed.

Lemma capi_set_get_other name name' text prm x :
  split_dots name <> split_dots name' -> capi_get name prm = Some x ->
  capi_get name (capi_set name' text prm) = Some x.
Proof.
  unfold capi_get, capi_set. intros Hne Hg.
  destruct (get_path (split_dots name) prm) as [n|] eqn:E; [|discriminate].
  destruct (get_put_other _ _ text _ _ E Hne) as (n' & Hn' & Hd). rewrite Hn', Hd. exact Hg.
Qed.

(* the last setting of a name wins; settings of other names do not disturb it *)
Lemma capi_sets_last script name text prm :
  (forall e, In e script -> split_dots (fst e) <> split_dots name) ->
  capi_get name (capi_sets script (capi_set name text prm)) = Some text.
Proof.
  revert prm. unfold capi_sets.
  assert (G : forall script p, (forall e, In e script -> split_dots (fst e) <> split_dots name) ->
              capi_get name p = Some text ->
              capi_get name (fold_left (fun p e => capi_set (fst e) (snd e) p) script p) = Some text).
  { clear script. induction script as [|e s IH]; intros p Hs Hp; simpl; [exact Hp|].
    apply IH; [intros e' He'; apply Hs; right; exact He'|].
    apply capi_set_get_other; [|exact Hp]. intros Heq. apply (Hs e (or_introl eq_refl)). symmetry. exact Heq. }
  intros prm Hs. apply G; [exact Hs | apply capi_set_get].
Qed.
