(* Extract_reuse.v -- extraction for the model group "reuse" (C15, composite objects): the amg hierarchy model
   (Amg.v, AmgExec.v, smoothers of Relax.v / Ilu.v), the Krylov models (Krylov.v) and the STATE-PASSING solver
   models of ReuseProofs2.v / ReuseProofs3.v (cg_sp, richardson_sp, bicgstab_sp, gmres_sp, fgmres_sp), in which
   the preconditioner is a stateful operator (here: Amg.apply with its scratch list).
   Directives: ExtractCommon.v (Basic, NatInt, ZBigInt, Z.ggcd -> zarith gcd). *)
From Amgcl Require Import ExtractCommon.
From Coq Require Import QArith Qcanon.
From Amgcl Require Import Scalar QcInst Vec Crs Kernels MatOps Relax DenseSolve Amg AmgExec Ilu Cheby Krylov ReuseProofs2 ReuseProofs3 ReuseProofs4.
Separate Extraction
  QcInst.QcS Scalar.is_zero Scalar.smax Scalar.smin
  Vec Crs Kernels MatOps Relax DenseSolve Amg AmgExec Ilu Cheby Krylov
  ReuseProofs2.cg_sp ReuseProofs2.richardson_sp ReuseProofs2.bicgstab_sp ReuseProofs2.amg_sp
  ReuseProofs3.gmres_sp ReuseProofs3.fgmres_sp ReuseProofs4.cheby_sp.
