(* KrylovMathSound.v -- the C05-B oracle (KrylovMathSpec.v, run on the IMPLEMENTATION's iterates by
   tools/props/C05.py) accepts the iterates of the MODEL: the four boolean checks are consequences of
   the theorems of KrylovMathCG.v.  So a failing oracle line means the implementation's iterates are
   not those of the (proved-optimal) recurrence -- never that the check asks too much. *)
From Amgcl Require Import Scalar Vec Kernels KernelsProofs Krylov KrylovRef KrylovProofs
                          KrylovMathVec KrylovMathCG KrylovMathSpec AmgOrder.
Local Open Scope S_scope.
Local Notation SS := Datatypes.S.

Ltac vext :=
  unfold vadd, vsub, vscal, vzeros; rewrite ?zipw_vmap2;
  apply nth_error_ext; let i := fresh "i" in intro i;
  repeat (rewrite ?nth_error_vmap2, ?nth_error_vmap3, ?nth_error_map);
  repeat match goal with |- context [nth_error ?v i] => destruct (nth_error v i) end;
  simpl; try reflexivity; try (f_equal; ring).

Section ListFacts.
Context {X Y : Type}.
Lemma pairs_ok_map_seq (ok : Y -> Y -> bool) (g : nat -> Y) m : forall a,
  (forall j k, a <= j -> j < k -> k < a + m -> ok (g j) (g k) = true) ->
  pairs_ok ok (map g (seq a m)) = true.
Proof.
  induction m as [|m IH]; intros a H; simpl; [reflexivity|].
  apply andb_true_intro. split.
  - apply forallb_forall. intros y Hy. apply in_map_iff in Hy as (k & <- & Hk). apply in_seq in Hk.
    apply H; lia.
  - apply IH. intros j k Hj Hjk Hk. apply H; lia.
Qed.
End ListFacts.

Section Sound.
Context {S : Scalar}.
Local Notation vec := (vec S).
Hypothesis Sft : Sfield S.
Hypothesis Seqb : seqb_spec S.
Hypothesis Sreal : forall x : S, sadj x = x.
Hypothesis Ord : ordered S.
Add Field SFieldSound : Sft.
Let Srt : Sring S := F_R Sft.
Variable n : nat.
Variables A P : vec -> vec.
Hypothesis A_len : forall v, length v = n -> length (A v) = n.
Hypothesis P_len : forall v, length v = n -> length (P v) = n.
Hypothesis A_sym : forall x y, length x = n -> length y = n -> rdot (A x) y = rdot x (A y).
Hypothesis P_sym : forall x y, length x = n -> length y = n -> rdot (P x) y = rdot x (P y).
Hypothesis A_lin : linear_on n A.
Hypothesis P_lin : linear_on n P.
Hypothesis A_psd : forall v, length v = n -> ole s0 (rdot v (A v)).
Variables f x0 xsol : vec.
Hypothesis Lf : length f = n.
Hypothesis Lx0 : length x0 = n.
Hypothesis Lxs : length xsol = n.
Hypothesis Hxs : A xsol = f.

Local Notation X k := (xk A P f x0 k).
Local Notation R k := (rk A P f x0 k).
Local Notation D k := (pk A P f x0 k).
Local Notation NB k := (nobreak A P f x0 k).
Local Notation iterates K := (map (fun k => X k) (seq 0 (SS K))).

Lemma is_zero_of (x : S) : x = s0 -> is_zero x = true.
Proof. intros ->. apply (is_zero_s0 Seqb). Qed.

Lemma LX k : length (X k) = n.
Proof. exact (len_x n A P A_len P_len f x0 Lf Lx0 k). Qed.
Lemma LD k : length (D k) = n.
Proof. exact (len_p n A P A_len P_len f x0 Lf Lx0 k). Qed.
Lemma NBle k k' : k' <= k -> NB k -> NB k'.
Proof. exact (nobreak_le n A P f x0 Lf Lx0 k k'). Qed.
Lemma resid_R k : resid A f (X k) = R k.
Proof. unfold resid. symmetry. exact (rk_residual Sft n A P A_len P_len f x0 Lf Lx0 A_lin k). Qed.

(* 1 *)
Theorem model_res_orth_ok K : NB K -> cg_res_orth_ok A P f (iterates K) = true.
Proof.
  intro NBK. unfold cg_res_orth_ok. rewrite map_map.
  apply pairs_ok_map_seq. intros j k _ Hjk Hk. rewrite !resid_R. apply is_zero_of.
  apply (cg_residuals_P_orthogonal Sft Sreal n A P A_len P_len A_sym P_sym f x0 Lf Lx0 k j); [|exact Hjk].
  apply (NBle K); [lia|exact NBK].
Qed.

(* 2 *)
Lemma diffs_map_seq (g : nat -> vec) m : forall a,
  diffs (map g (seq a (SS m))) = map (fun k => vsub (g (SS k)) (g k)) (seq a m).
Proof.
  assert (E : forall (u w : vec) tl, diffs (u :: w :: tl) = vsub w u :: diffs (w :: tl)) by reflexivity.
  induction m as [|m IH]; intro a; [reflexivity|].
  change (map g (seq a (SS (SS m)))) with (g a :: g (SS a) :: map g (seq (SS (SS a)) m)).
  rewrite E.
  change (g (SS a) :: map g (seq (SS (SS a)) m)) with (map g (seq (SS a) (SS m))).
  rewrite (IH (SS a)). reflexivity.
Qed.
Lemma step_is_direction k : vsub (X (SS k)) (X k) = vscal (alpha A P f x0 k) (D k).
Proof.
  rewrite x_S. apply (vec_ext_n n); [|apply vscal_len, LD|].
  - apply vsub_len; [apply vadd_len; [apply LX|apply vscal_len, LD]|apply LX].
  - intros i Hi.
    rewrite (nth_vsub_n n), (nth_vadd_n n) by (auto using LX, LD, vadd_len, vscal_len). ring.
Qed.
Theorem model_dir_conj_ok K : NB K -> cg_dir_conj_ok A (iterates K) = true.
Proof.
  intro NBK. unfold cg_dir_conj_ok. rewrite (diffs_map_seq (fun k => X k) K 0).
  apply pairs_ok_map_seq. intros j k _ Hjk Hk. apply is_zero_of.
  rewrite !step_is_direction, (lin_scal Srt n A A_len A_lin) by apply LD.
  rewrite (rdot_vscal_l Srt), (rdot_vscal_r Srt Sreal).
  rewrite (cg_directions_A_conjugate Sft Sreal n A P A_len P_len A_sym P_sym f x0 Lf Lx0 k j); [ring| |exact Hjk].
  apply (NBle K); [lia|exact NBK].
Qed.

(* 3 *)
Local Notation PAop := (fun v => P (A v)).
Lemma PAi_shift i v : PAi A P i (P (A v)) = P (A (PAi A P i v)).
Proof. induction i as [|i IH]; [reflexivity|]. simpl. unfold PA. rewrite IH. reflexivity. Qed.
Lemma kry_PAi k : forall v, kry PAop k v = map (fun i => PAi A P i v) (seq 0 k).
Proof.
  induction k as [|k IH]; intro v; [reflexivity|].
  simpl. f_equal. rewrite IH, <- seq_shift, map_map. apply map_ext. intro i.
  rewrite PAi_shift. reflexivity.
Qed.
Lemma Kgen_i k i : i < k -> span n (Kgen A P f x0 k) (PAi A P i (zk A P f x0 0)).
Proof. intro Hi. apply sp_gen. exists i. split; [exact Hi|reflexivity]. Qed.

Lemma galerkin_from_ok K : NB K -> forall m a, (a + m = SS K)%nat ->
  cg_galerkin_from A P f (zk A P f x0 0) a (map (fun k => X k) (seq a m)) = true.
Proof.
  intros NBK m. induction m as [|m IH]; intros a Ha; [reflexivity|].
  simpl. apply andb_true_intro. split; [|apply IH; lia].
  unfold orth_to. rewrite resid_R, kry_PAi. apply forallb_forall. intros v Hv.
  apply in_map_iff in Hv as (i & <- & Hi). apply in_seq in Hi. apply is_zero_of.
  apply (cg_residual_orth_krylov Sft Sreal n A P A_len P_len A_sym P_sym f x0 Lf Lx0 A_lin P_lin a).
  - apply (NBle K); [lia|exact NBK].
  - apply Kgen_i. lia.
Qed.
Theorem model_galerkin_ok K : NB K -> cg_galerkin_ok A P f (iterates K) = true.
Proof.
  intro NBK.
  assert (E : forall x tl, cg_galerkin_ok A P f (x :: tl) = cg_galerkin_from A P f (P (resid A f x)) 0 (x :: tl)) by reflexivity.
  change (map (fun k => X k) (seq 0 (SS K))) with (X 0 :: map (fun k => X k) (seq 1 K)). rewrite E.
  change (X 0 :: map (fun k => X k) (seq 1 K)) with (map (fun k => X k) (seq 0 (SS K))).
  rewrite resid_R. exact (galerkin_from_ok K NBK (SS K) 0 eq_refl).
Qed.

(* 4 *)
Lemma opt_from_ok K : NB K -> forall m a, (a + m = SS K)%nat ->
  cg_opt_from A P xsol (zk A P f x0 0) a (map (fun k => X k) (seq a m)) = true.
Proof.
  intros NBK m. induction m as [|m IH]; intros a Ha; [reflexivity|].
  simpl. apply andb_true_intro. split; [|apply IH; lia].
  rewrite kry_PAi. apply forallb_forall. intros v Hv.
  apply in_map_iff in Hv as (i & <- & Hi). apply in_seq in Hi.
  assert (NBa : NB a) by (apply (NBle K); [lia|exact NBK]).
  destruct (cg_minimises_A_norm_over_krylov Sft Sreal n A P A_len P_len A_sym P_sym f x0 Lf Lx0 A_lin P_lin
              Ord xsol Lxs Hxs a A_psd NBa) as (Hin & Hopt).
  pose proof (Kgen_i a i ltac:(lia)) as Hg.
  pose proof (span_len n _ (Kgen_len n A P A_len P_len f x0 Lf Lx0 a) _ Hg) as Lg.
  set (g := PAi A P i (zk A P f x0 0)) in *.
  apply andb_true_intro. split; apply Bool.negb_true_iff.
  - apply (Hopt (vadd (X a) g)); [apply vadd_len; [apply LX|exact Lg]|].
    replace (vsub (vadd (X a) g) x0) with (vadd (vsub (X a) x0) g) by vext.
    apply sp_add; assumption.
  - apply (Hopt (vsub (X a) g)); [apply vsub_len; [apply LX|exact Lg]|].
    replace (vsub (vsub (X a) g) x0) with (vsub (vsub (X a) x0) g) by vext.
    apply (span_sub Srt); assumption.
Qed.
Theorem model_opt_ok K : NB K -> cg_opt_ok A P f xsol (iterates K) = true.
Proof.
  intro NBK.
  assert (E : forall x tl, cg_opt_ok A P f xsol (x :: tl) = cg_opt_from A P xsol (P (resid A f x)) 0 (x :: tl)) by reflexivity.
  change (map (fun k => X k) (seq 0 (SS K))) with (X 0 :: map (fun k => X k) (seq 1 K)). rewrite E.
  change (X 0 :: map (fun k => X k) (seq 1 K)) with (map (fun k => X k) (seq 0 (SS K))).
  rewrite resid_R. exact (opt_from_ok K NBK (SS K) 0 eq_refl).
Qed.

(* all four checks of the oracle op o.cgmath *)
Theorem cg_oracle_accepts_model_iterates K : NB K ->
  cg_res_orth_ok A P f (iterates K) = true /\ cg_dir_conj_ok A (iterates K) = true /\
  cg_galerkin_ok A P f (iterates K) = true /\ cg_opt_ok A P f xsol (iterates K) = true.
Proof.
  intro NBK. repeat split; [apply model_res_orth_ok|apply model_dir_conj_ok|apply model_galerkin_ok|apply model_opt_ok]; exact NBK.
Qed.

End Sound.
