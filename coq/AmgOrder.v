(* AmgOrder.v -- a small ordered-ring toolkit through the record's operator< (sltb), for C02-B1.
   Hypotheses: strict total order compatible with + and with multiplication by positives. *)
From Amgcl Require Import Scalar Vec.
Local Open Scope S_scope.

Definition olt {S : Scalar} (a b : S) : Prop := sltb a b = true.
Definition ole {S : Scalar} (a b : S) : Prop := sltb b a = false.

Record ordered (S : Scalar) : Prop := mkOrdered {
  o_irrefl : forall x : S, sltb x x = false;
  o_trans  : forall x y z : S, sltb x y = true -> sltb y z = true -> sltb x z = true;
  o_total  : forall x y : S, sltb x y = false -> sltb y x = false -> x = y;
  o_add    : forall x y z : S, sltb x y = true -> sltb (x + z) (y + z) = true;
  o_mul    : forall x y z : S, sltb s0 z = true -> sltb x y = true -> sltb (x * z) (y * z) = true
}.

Section Order.
Context {S : Scalar}.
Hypothesis Srt : Sring S.
Hypothesis Ord : ordered S.
Add Ring SRingOrd : Srt.

Lemma ole_refl (x : S) : ole x x.
Proof. apply (o_irrefl S Ord). Qed.

Lemma olt_ole (x y : S) : olt x y -> ole x y.
Proof.
  unfold olt, ole. intro H. destruct (sltb y x) eqn:E; [|reflexivity].
  rewrite <- (o_irrefl S Ord x). symmetry. apply (o_trans S Ord x y x); assumption.
Qed.

Lemma ole_cases (x y : S) : ole x y -> olt x y \/ x = y.
Proof.
  unfold ole, olt. intro H. destruct (sltb x y) eqn:E; [left; reflexivity|right].
  apply (o_total S Ord); assumption.
Qed.

Lemma olt_or_ole (x y : S) : olt x y \/ ole y x.
Proof. unfold olt, ole. destruct (sltb x y); auto. Qed.

Lemma olt_trans (x y z : S) : olt x y -> olt y z -> olt x z.
Proof. apply (o_trans S Ord). Qed.

Lemma ole_olt_trans (x y z : S) : ole x y -> olt y z -> olt x z.
Proof. intros H1 H2. destruct (ole_cases x y H1) as [H| ->]; [apply (olt_trans x y z)|]; assumption. Qed.

Lemma olt_ole_trans (x y z : S) : olt x y -> ole y z -> olt x z.
Proof. intros H1 H2. destruct (ole_cases y z H2) as [H| <-]; [apply (olt_trans x y z)|]; assumption. Qed.

Lemma ole_trans (x y z : S) : ole x y -> ole y z -> ole x z.
Proof.
  intros H1 H2. destruct (ole_cases x y H1) as [H| ->]; [|exact H2].
  apply olt_ole. apply (olt_ole_trans x y z); assumption.
Qed.

Lemma olt_not_ole (x y : S) : olt x y -> ole y x -> False.
Proof. unfold olt, ole. congruence. Qed.

Lemma olt_add_r (x y z : S) : olt x y -> olt (x + z) (y + z).
Proof. apply (o_add S Ord). Qed.

Lemma ole_add_r (x y z : S) : ole x y -> ole (x + z) (y + z).
Proof. intro H. destruct (ole_cases x y H) as [L| ->]; [apply olt_ole, olt_add_r, L|apply ole_refl]. Qed.

Lemma ole_add (a b c d : S) : ole a b -> ole c d -> ole (a + c) (b + d).
Proof.
  intros H1 H2. apply (ole_trans _ (b + c)); [apply ole_add_r, H1|].
  rewrite (Radd_comm Srt b c), (Radd_comm Srt b d). apply ole_add_r, H2.
Qed.

Lemma olt_ole_add (a b c d : S) : olt a b -> ole c d -> olt (a + c) (b + d).
Proof.
  intros H1 H2. apply (olt_ole_trans _ (b + c)); [apply olt_add_r, H1|].
  rewrite (Radd_comm Srt b c), (Radd_comm Srt b d). apply ole_add_r, H2.
Qed.

(* moving terms *)
Lemma ole_sub0 (a b : S) : ole a b <-> ole (a - b) s0.
Proof.
  split; intro H.
  - replace (a - b) with (a + sopp b) by ring. replace (@s0 S) with (b + sopp b) by ring.
    apply ole_add_r, H.
  - pose proof (ole_add_r (a - b) s0 b H) as H'.
    replace (a - b + b) with a in H' by ring. replace (s0 + b) with b in H' by ring. exact H'.
Qed.

Lemma olt_sub0 (a b : S) : olt a b <-> olt (a - b) s0.
Proof.
  split; intro H.
  - replace (a - b) with (a + sopp b) by ring. replace (@s0 S) with (b + sopp b) by ring.
    apply olt_add_r, H.
  - pose proof (olt_add_r (a - b) s0 b H) as H'.
    replace (a - b + b) with a in H' by ring. replace (s0 + b) with b in H' by ring. exact H'.
Qed.

Lemma ole_0_sub (a b : S) : ole a b <-> ole s0 (b - a).
Proof.
  split; intro H.
  - replace (@s0 S) with (a + sopp a) by ring. replace (b - a) with (b + sopp a) by ring. apply ole_add_r, H.
  - pose proof (ole_add_r s0 (b - a) a H) as H'.
    replace (b - a + a) with b in H' by ring. replace (s0 + a) with a in H' by ring. exact H'.
Qed.

Lemma olt_0_sub (a b : S) : olt a b <-> olt s0 (b - a).
Proof.
  split; intro H.
  - replace (@s0 S) with (a + sopp a) by ring. replace (b - a) with (b + sopp a) by ring. apply olt_add_r, H.
  - pose proof (olt_add_r s0 (b - a) a H) as H'.
    replace (b - a + a) with b in H' by ring. replace (s0 + a) with a in H' by ring. exact H'.
Qed.

Lemma ole_opp (a : S) : ole s0 a <-> ole (sopp a) s0.
Proof. rewrite (ole_0_sub (sopp a) s0). replace (s0 - sopp a) with a by ring. tauto. Qed.

Lemma olt_opp (a : S) : olt s0 a <-> olt (sopp a) s0.
Proof. rewrite (olt_0_sub (sopp a) s0). replace (s0 - sopp a) with a by ring. tauto. Qed.

(* multiplication *)
Lemma olt_mul_pos (x y z : S) : olt s0 z -> olt x y -> olt (x * z) (y * z).
Proof. apply (o_mul S Ord). Qed.

Lemma ole_mul_pos (x y z : S) : olt s0 z -> ole x y -> ole (x * z) (y * z).
Proof. intros Hz H. destruct (ole_cases x y H) as [L| ->]; [apply olt_ole, olt_mul_pos; assumption|apply ole_refl]. Qed.

Lemma ole_mul_nonneg (x y z : S) : ole s0 z -> ole x y -> ole (x * z) (y * z).
Proof.
  intros Hz H. destruct (ole_cases s0 z Hz) as [L| <-]; [apply ole_mul_pos; assumption|].
  replace (x * s0) with (y * s0) by ring. apply ole_refl.
Qed.

Lemma mul_nonneg (a b : S) : ole s0 a -> ole s0 b -> ole s0 (a * b).
Proof. intros Ha Hb. replace (@s0 S) with (s0 * b) by ring. apply ole_mul_nonneg; assumption. Qed.

Lemma mul_pos (a b : S) : olt s0 a -> olt s0 b -> olt s0 (a * b).
Proof. intros Ha Hb. replace (@s0 S) with (s0 * b) by ring. apply olt_mul_pos; assumption. Qed.

Lemma sq_nonneg (x : S) : ole s0 (x * x).
Proof.
  destruct (olt_or_ole s0 x) as [H|H].
  - apply olt_ole, mul_pos; assumption.
  - replace (x * x) with (sopp x * sopp x) by ring.
    apply mul_nonneg; apply (proj2 (ole_opp (sopp x))); replace (sopp (sopp x)) with x by ring; exact H.
Qed.

Lemma sq_pos (x : S) : x <> s0 -> olt s0 (x * x).
Proof.
  intro Hx. destruct (ole_cases s0 (x * x) (sq_nonneg x)) as [H|H]; [exact H|].
  exfalso. destruct (olt_or_ole s0 x) as [L|L].
  - pose proof (mul_pos x x L L) as P. rewrite <- H in P. unfold olt in P.
    rewrite (o_irrefl S Ord) in P. discriminate.
  - destruct (ole_cases x s0 L) as [L'|E]; [|exact (Hx E)].
    apply (proj1 (olt_opp _)) in L' || idtac.
    assert (P0 : olt s0 (sopp x)).
    { apply (proj2 (olt_opp (sopp x))). replace (sopp (sopp x)) with x by ring. exact L'. }
    pose proof (mul_pos _ _ P0 P0) as P. replace (sopp x * sopp x) with (x * x) in P by ring.
    rewrite <- H in P. unfold olt in P. rewrite (o_irrefl S Ord) in P. discriminate.
Qed.

(* cancelling a positive factor *)
Lemma ole_cancel_pos (w t : S) : olt s0 w -> ole (w * t) s0 -> ole t s0.
Proof.
  intros Hw H. destruct (olt_or_ole s0 t) as [L|L]; [|exact L].
  exfalso. pose proof (mul_pos w t Hw L) as P. exact (olt_not_ole _ _ P H).
Qed.

Lemma olt_cancel_pos (w t : S) : olt s0 w -> olt (w * t) s0 -> olt t s0.
Proof.
  intros Hw H. destruct (olt_or_ole t s0) as [L|L]; [exact L|].
  exfalso. pose proof (mul_nonneg w t (olt_ole _ _ Hw) L) as P. exact (olt_not_ole _ _ H P).
Qed.

Lemma ole_double_cancel (a b : S) : ole (a + a) (b + b) -> ole a b.
Proof.
  intro H. destruct (olt_or_ole b a) as [L|L]; [|exact L].
  exfalso. apply (olt_not_ole (b + b) (a + a)); [|exact H]. apply olt_ole_add; [exact L|apply olt_ole, L].
Qed.

(* sums *)
Lemma sumn_nonneg (f : nat -> S) n : (forall i, i < n -> ole s0 (f i)) -> ole s0 (sumn f n).
Proof.
  induction n as [|n IH]; intro H; simpl; [apply ole_refl|].
  replace (@s0 S) with (@s0 S + s0) by ring. apply ole_add; [apply IH; intros; apply H; lia|apply H; lia].
Qed.

Lemma sumn_ole (f g : nat -> S) n : (forall i, i < n -> ole (f i) (g i)) -> ole (sumn f n) (sumn g n).
Proof.
  induction n as [|n IH]; intro H; simpl; [apply ole_refl|].
  apply ole_add; [apply IH; intros; apply H; lia|apply H; lia].
Qed.

Lemma sumn_pos (f : nat -> S) n i : i < n -> (forall j, j < n -> ole s0 (f j)) -> olt s0 (f i) ->
  olt s0 (sumn f n).
Proof.
  induction n as [|n IH]; intros Hi H Hp; [lia|]. simpl.
  destruct (Nat.eq_dec i n) as [->|Hne].
  - replace (@s0 S) with (@s0 S + s0) by ring. rewrite (Radd_comm Srt (sumn f n)).
    apply olt_ole_add; [exact Hp|apply sumn_nonneg; intros; apply H; lia].
  - replace (@s0 S) with (@s0 S + s0) by ring.
    apply olt_ole_add; [apply IH; [lia|intros; apply H; lia|exact Hp]|apply H; lia].
Qed.

End Order.
