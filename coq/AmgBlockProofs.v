(* AmgBlockProofs.v -- the oracles of AmgBlock.v decide the C03 statement (any Scalar with a
   decidable equality), and the model's own hierarchy passes them (commutative ring). *)
From Amgcl Require Import Scalar Vec Crs Kernels KernelsProofs MatOps MatOpsProofs Amg AmgExec AmgProofs AmgBlock.
Local Open Scope S_scope.

Section Decide.
Context {S : Scalar}.
Local Notation crs := (crs S).
Hypothesis Seqb : seqb_spec S.

Lemma all_entries_spec n m p :
  all_entries n m p = true <-> forall i j, i < n -> j < m -> p i j = true.
Proof.
  unfold all_entries. rewrite forallb_forall. split.
  - intros H i j Hi Hj. specialize (H i (proj2 (in_seq n 0 i) (conj (Nat.le_0_l i) Hi))).
    rewrite forallb_forall in H. apply H. apply in_seq. lia.
  - intros H i Hi. apply in_seq in Hi. apply forallb_forall. intros j Hj. apply in_seq in Hj.
    apply H; lia.
Qed.

(* the Galerkin oracle decides "An = (R (A P)) [* s]" entry by entry *)
Theorem galerkin_spec_ok_iff sc (A P R An : crs) :
  galerkin_spec_ok sc A P R An = true <->
  nrows An = nrows R /\ ncols An = ncols P /\
  forall i j, i < nrows R -> j < ncols P ->
    mget An i j = scaled_entry sc (triple_entry A P R i j).
Proof.
  unfold galerkin_spec_ok. rewrite !andb_true_iff, !Nat.eqb_eq, all_entries_spec. split.
  - intros [[H1 H2] H3]. repeat split; try assumption. intros i j Hi Hj. apply Seqb. apply H3; assumption.
  - intros (H1 & H2 & H3). repeat split; try assumption. intros i j Hi Hj. apply Seqb. apply H3; assumption.
Qed.

Theorem adjoint_spec_ok_iff (P R : crs) :
  adjoint_spec_ok P R = true <->
  nrows R = ncols P /\ ncols R = nrows P /\
  forall i j, i < nrows P -> j < ncols P -> mget R j i = sadj (mget P i j).
Proof.
  unfold adjoint_spec_ok. rewrite !andb_true_iff, !Nat.eqb_eq, all_entries_spec. split.
  - intros [[H1 H2] H3]. repeat split; try assumption. intros i j Hi Hj. apply Seqb. apply H3; assumption.
  - intros (H1 & H2 & H3). repeat split; try assumption. intros i j Hi Hj. apply Seqb. apply H3; assumption.
Qed.

(* reading a dump: what dump_ok = true says about two adjacent levels *)
Theorem dump_ok_adjacent ce dc adj sc (ds : list (@dlevel S)) :
  dump_ok ce dc adj sc ds = true ->
  forall n d next, nth_error ds n = Some d -> nth_error ds (Datatypes.S n) = Some next ->
  exists A P R, d = DMid A P R /\
    stored_ok A = true /\ stored_ok P = true /\ stored_ok R = true /\
    ncols A = nrows A /\ nrows P = nrows A /\ ncols R = nrows A /\ nrows R = ncols P /\
    ce < nrows A /\
    (adj = true -> forall i j, i < nrows P -> j < ncols P -> mget R j i = sadj (mget P i j)) /\
    match dl_A next with
    | Some An => nrows An = nrows R /\ ncols An = ncols P /\
                 forall i j, i < nrows R -> j < ncols P ->
                   mget An i j = scaled_entry sc (triple_entry A P R i j)
    | None => ncols P <= ce
    end.
Proof.
  induction ds as [|d0 tl IH]; intros H n d next Hd Hn; [destruct n; discriminate|].
  destruct tl as [|d1 tl'].
  - destruct n as [|[|n]]; discriminate.
  - cbn [dump_ok] in H.
    destruct d0 as [A P R| |]; try discriminate.
    rewrite !andb_true_iff in H.
    destruct H as [[[[[[[HA HP] HR] Hsh] Hce] Hadj] Hg] Hrest].
    destruct n as [|n].
    + injection Hd as <-. injection Hn as <-.
      exists A, P, R. split; [reflexivity|].
      unfold shape_spec_ok in Hsh. rewrite !andb_true_iff, !Nat.eqb_eq in Hsh.
      destruct Hsh as [[[S1 S2] S3] S4].
      apply negb_true_iff, Nat.leb_gt in Hce.
      repeat split; try assumption.
      * intros Ha. subst adj. cbn [negb orb] in Hadj. apply adjoint_spec_ok_iff in Hadj. apply Hadj.
      * destruct (dl_A d1) as [An|].
        -- apply galerkin_spec_ok_iff in Hg. exact Hg.
        -- apply Nat.leb_le. exact Hg.
    + apply (IH Hrest n d next Hd Hn).
Qed.

(* ... and about the last level *)
Theorem dump_ok_last ce dc adj sc (ds : list (@dlevel S)) :
  dump_ok ce dc adj sc ds = true ->
  match last ds (DSolve None) with
  | DMid _ _ _ => False
  | DLast A => nrows A <= ce -> dc = false
  | DSolve o => dc = true /\ match o with Some A => nrows A <= ce | None => True end
  end.
Proof.
  induction ds as [|d0 tl IH]; intros H; [discriminate|].
  destruct tl as [|d1 tl'].
  - cbn [dump_ok] in H. cbn [last]. destruct d0 as [A P R|A|o]; [discriminate| |].
    + rewrite !andb_true_iff, orb_true_iff in H. destruct H as [_ [H|H]].
      * intros Hle. apply negb_true_iff, Nat.leb_gt in H. lia.
      * intros _. apply negb_true_iff in H. exact H.
    + rewrite andb_true_iff in H. destruct H as [Hdc H]. split; [exact Hdc|].
      destruct o as [A|]; [|exact I]. rewrite !andb_true_iff in H. apply Nat.leb_le. apply H.
  - cbn [dump_ok] in H. destruct d0 as [A P R| |]; try discriminate.
    rewrite !andb_true_iff in H. destruct H as [_ Hrest].
    change (last (DMid A P R :: d1 :: tl') (DSolve None)) with (last (d1 :: tl') (DSolve None)).
    apply IH. exact Hrest.
Qed.

Theorem decrease_ok_iff (ds : list (@dlevel S)) :
  decrease_ok ds = true <->
  forall A P R, In (DMid A P R) ds -> ncols P < nrows A.
Proof.
  unfold decrease_ok. rewrite forallb_forall. split.
  - intros H A P R Hin. specialize (H _ Hin). cbn in H. apply Nat.ltb_lt. exact H.
  - intros H d Hin. destruct d as [A P R| |]; [|reflexivity|reflexivity]. apply Nat.ltb_lt. eapply H; exact Hin.
Qed.

End Decide.

(* ------------------------------------------------------------------ *)
(* the model's coarse operators pass the oracle (commutative ring): the oracle is the dense
   reading of the model, i.e. of theorems C03_galerkin_dense / C03_scaled_galerkin_dense *)
Section Model.
Context {S : Scalar}.
Local Notation crs := (crs S).
Hypothesis Srt : Sring S.
Hypothesis Seqb : seqb_spec S.

Theorem galerkin_spec_ok_model sc (A P R : crs) : wf A = true -> wf R = true ->
  galerkin_spec_ok sc A P R (sort_rows (coarse_op_of sc A P R)) = true.
Proof.
  intros HA HR. apply (galerkin_spec_ok_iff Seqb).
  destruct (sort_rows_shape (coarse_op_of sc A P R)) as [En Ec].
  split; [|split].
  - rewrite En. destruct sc as [s|]; [apply scaled_galerkin_shape|apply galerkin_shape].
  - rewrite Ec. destruct sc; reflexivity.
  - intros i j _ _. rewrite (sort_rows_dense Srt). destruct sc as [s|]; cbn [coarse_op_of scaled_entry].
    + apply (scaled_galerkin_dense Srt); assumption.
    + apply (galerkin_dense Srt); assumption.
Qed.

(* every adjacent pair of a chain built with the model's coarse operator passes the oracle *)
Theorem chain_galerkin_spec_ok sc (ls : list (@ldesc S)) : chain (coarse_op_of sc) ls ->
  forall n A P R next, nth_error ls n = Some (LMid A P R) -> nth_error ls (Datatypes.S n) = Some next ->
  wf A = true -> wf R = true ->
  galerkin_spec_ok sc A P R (ld_A next) = true.
Proof.
  intros Hc n A P R next H1 H2 HA HR.
  rewrite (chain_adjacent _ ls Hc n A P R next H1 H2). apply galerkin_spec_ok_model; assumption.
Qed.

(* R = transpose P passes the adjoint oracle *)
Theorem adjoint_spec_ok_transpose (P : crs) :
  (forall a b : S, sadj (a + b) = sadj a + sadj b) -> sadj (@s0 S) = s0 ->
  adjoint_spec_ok P (transpose P) = true.
Proof.
  intros Hadd H0. apply (adjoint_spec_ok_iff Seqb). split; [|split].
  - unfold nrows, transpose. simpl. rewrite map_length, seq_length. reflexivity.
  - reflexivity.
  - intros i j _ Hj. apply (transpose_dense Srt Hadd H0). exact Hj.
Qed.

End Model.
