(* ReuseProofs2.v -- property C15 for the composite object make_solver = (preconditioner object,
   solver object): the preconditioner is a STATEFUL operator whose state is threaded through the
   solve in program order.

   What is modelled
   * amgcl/make_solver.hpp:118-145: make_solver holds a preconditioner object P and a solver
     object S; operator()(rhs, x) = S(P, rhs, x) = S(P.system_matrix(), P, rhs, x) (143-145),
     operator()(A, rhs, x) = S(A, P, rhs, x) (130-135).
   * amgcl/solver/cg.hpp:152-204 (P.apply(r, s) at 181), amgcl/solver/richardson.hpp:143-176
     (P.apply(r, s) at 166), amgcl/solver/bicgstab.hpp:158-244 (P.apply(rh, r) at 180 for left
     preconditioning; preconditioner::spmv(pside, P, A, p, v, T) at 207 and
     preconditioner::spmv(pside, P, A, s, t, T) at 220), amgcl/solver/precond_side.hpp:76-93
     (left: spmv(A, F, T); P.apply(T, X)   right: P.apply(F, T); spmv(A, T, X)).
   * P.apply(in, out) of a stateful preconditioner (amg::apply, amgcl/amg.hpp:289-301, with its
     per-level work vectors): [sprecond] = state -> in -> OLD content of out -> (new out, new state).

   The state-passing solver models [cg_sp], [richardson_sp], [bicgstab_sp] have the text of
   Krylov.cg / richardson / bicgstab with every [P v] replaced by
   [let '(s, ps') := sp ps v (old content of the member vector that receives the result)],
   the state being threaded in the order of the C++ statements.

   Theorems (any Scalar record, no algebraic law; is_zero(zero) = true only where the pure
   theorems need it):
   * X_sp_simulated: if [sp] simulates the pure function [pf] on vectors of the allocated length n
     under an invariant of the state, the state-passing solve computes exactly what the pure model
     computes (result AND workspace), re-establishes the invariant and leaves a sized workspace;
   * X_object_reuse: a call on the object (workspace, preconditioner state) reached after ANY
     history of earlier calls = the same call on a fresh object;
   * amg_simulates + make_solver_amg_X_reuse: the instance P = amg (Amg.apply with its scratch);
   * X_sp_stateless: with a stateless preconditioner (PS := unit) the state-passing text IS the pure
     text: whole output equal, no hypothesis (stronger than the componentwise form under lengths).
   GMRES(M) and FGMRES(M): ReuseProofs3.v.

   Shape of the statements: a call of the object is a record [kcall] = (A, prm, rhs, x0) (both
   make_solver::operator() overloads), [call_ok n c] = A length preserving on length n, rhs and x0
   of length n; the object state is the pair (workspace, preconditioner state); [X_obj_history]
   folds the calls.  On the exception exits of BiCGStab the pure model returns the incoming
   workspace, and so does bicgstab_sp (the preconditioner state returned is the one reached). *)
From Amgcl Require Import Scalar Vec Crs Kernels KernelsProofs MatOps MatOpsProofs Krylov KrylovProofs KrylovProofs2
  Amg AmgExec AmgProofs AmgProofs2 AmgProofs3.
From Coq Require Import Lia.
Local Open Scope S_scope.
Local Notation SS := Datatypes.S.

(* ================================================================== *)
(* lengths of the sized vector primitives (no Section variables)       *)
Section Lengths.
Context {S : Scalar}.
Local Notation vec := (vec S).

Lemma sp_axpby_n n a (x : vec) b (y : vec) : length x = n -> length y = n -> length (k_axpby a x b y) = n.
Proof. intros Lx Ly. rewrite k_axpby_length; lia. Qed.
Lemma sp_axpbypcz_n n a (x : vec) b (y : vec) c (z : vec) :
  length x = n -> length y = n -> length z = n -> length (k_axpbypcz a x b y c z) = n.
Proof. intros. unfold k_axpbypcz. destruct (is_zero c); rewrite ?vmap2_length, ?vmap3_length; lia. Qed.
Lemma sp_residual_n n (f Ax : vec) : length f = n -> length Ax = n -> length (k_residual f Ax) = n.
Proof. intros Lf Lx. unfold k_residual. rewrite vmap2_length. lia. Qed.
End Lengths.

Section StatePassing.
Context {S : Scalar} {PS : Type}.
Local Notation vec := (vec S).
Local Notation cg_st := (@cg_st S).
Local Notation cg_ws := (@cg_ws S).
Local Notation ri_st := (@ri_st S).
Local Notation ri_ws := (@ri_ws S).
Local Notation bs_st := (@bs_st S).
Local Notation bs_ws := (@bs_ws S).
Local Notation kprm := (@kprm S).
Local Notation kout := (@kout S).

(* ================================================================== *)
(* PART 1: stateful preconditioners                                    *)
(* P.apply(rhs, x): state, rhs, OLD content of the output vector x |-> new x, new state *)
Definition sprecond := PS -> vec -> vec -> vec * PS.

(* on vectors of the allocated length n and states satisfying Inv, the stateful operator computes
   the pure function pf (whatever the state and the old content of the output vector) and
   re-establishes Inv *)
Definition simulates (n : nat) (Inv : PS -> Prop) (sp : sprecond) (pf : vec -> vec) : Prop :=
  (forall r, length r = n -> length (pf r) = n) /\
  forall st r x, Inv st -> length r = n -> length x = n ->
    fst (sp st r x) = pf r /\ Inv (snd (sp st r x)).

(* ================================================================== *)
(* PART 2: state-passing solvers                                       *)

(* ---------------- CG (cg.hpp:152-204) ---------------- *)
Definition cg_step_sp (A : vec -> vec) (sp : sprecond) (st : cg_st) (ps : PS) : cg_st * PS :=
  let w := c_ws st in
  let '(s, ps') := sp ps (cg_r w) (cg_s w) in                      (* P.apply(r, s) *)
  let rho2 := c_rho1 st in
  let rho1 := ip (cg_r w) s in
  let p := if Nat.eqb (c_it st) 0 then s                          (* backend::copy(s, p) *)
           else k_axpby s1 s (rho1 / rho2) (cg_p w) in
  let q := A p in
  let alpha := rho1 / ip q p in
  let x := k_axpby alpha p s1 (c_x st) in
  let r := k_axpby (- alpha) q s1 (cg_r w) in
  (mkCgSt x (mkCgWs r s p q) rho1 rho2 (norm_a r) (SS (c_it st)), ps').

Fixpoint cg_loop_sp (A : vec -> vec) (sp : sprecond) (eps : S) (fuel : nat) (st : cg_st) (ps : PS) : cg_st * PS :=
  match fuel with
  | O => (st, ps)
  | SS k => if sltb eps (sabs (c_res st))
            then let '(st', ps') := cg_step_sp A sp st ps in cg_loop_sp A sp eps k st' ps'
            else (st, ps)
  end.

Definition cg_sp (A : vec -> vec) (sp : sprecond) (prm : kprm) (f x0 : vec) (junk : cg_ws) (ps : PS)
  : kout * cg_ws * PS :=
  match k_prologue norm_a prm f with
  | Trivial nr => (k_trivial nr x0, junk, ps)
  | Go nr =>
    let '(eps, st0) := cg_init A prm nr f x0 junk in
    let '(st, ps') := cg_loop_sp A sp eps (p_maxiter prm) st0 ps in
    (KOk (mkRes (c_it st) (c_res st / nr) (c_x st) false), c_ws st, ps')
  end.

(* the constructor allocates r, s, p, q with n entries (cg.hpp:133-136) *)
Definition cg_sized (n : nat) (w : cg_ws) : Prop :=
  length (cg_r w) = n /\ length (cg_s w) = n /\ length (cg_p w) = n /\ length (cg_q w) = n.

(* ---------------- Richardson (richardson.hpp:143-176) ---------------- *)
Definition ri_step_sp (A : vec -> vec) (sp : sprecond) (damping : S) (f : vec) (st : ri_st) (ps : PS) : ri_st * PS :=
  let '(s, ps') := sp ps (ri_r (i_ws st)) (ri_s (i_ws st)) in      (* P.apply(r, s) *)
  let x := k_axpby damping s s1 (i_x st) in
  let r := k_residual f (A x) in
  (mkRiSt x (mkRiWs r s) (norm_a r) (SS (i_it st)), ps').

Fixpoint ri_loop_sp (A : vec -> vec) (sp : sprecond) (damping : S) (f : vec) (eps : S) (fuel : nat)
                    (st : ri_st) (ps : PS) : ri_st * PS :=
  match fuel with
  | O => (st, ps)
  | SS k => if sltb eps (sabs (i_res st))
            then let '(st', ps') := ri_step_sp A sp damping f st ps in ri_loop_sp A sp damping f eps k st' ps'
            else (st, ps)
  end.

Definition richardson_sp (A : vec -> vec) (sp : sprecond) (prm : kprm) (f x0 : vec) (junk : ri_ws) (ps : PS)
  : kout * ri_ws * PS :=
  match k_prologue norm_a prm f with
  | Trivial nr => (k_trivial nr x0, junk, ps)
  | Go nr =>
    let eps := smax (p_tol prm * nr) (p_abstol prm) in
    let r := k_residual f (A x0) in
    let '(st, ps') := ri_loop_sp A sp (p_damping prm) f eps (p_maxiter prm)
                                 (mkRiSt x0 (mkRiWs r (ri_s junk)) (norm_a r) 0) ps in
    (KOk (mkRes (i_it st) (i_res st / nr) (i_x st) false), i_ws st, ps')
  end.

(* richardson.hpp:128-129 *)
Definition ri_sized (n : nat) (w : ri_ws) : Prop := length (ri_r w) = n /\ length (ri_s w) = n.

(* ---------------- BiCGStab (bicgstab.hpp:158-244) ---------------- *)
(* preconditioner::spmv(pside, P, A, F, X, T) (precond_side.hpp:76-93): Xold, Told = content of the
   members X and T before the call; returns (X, T, state).
   left : spmv(A, F, T); P.apply(T, X)      right : P.apply(F, T); spmv(A, T, X) *)
Definition pspmv_sp (left : bool) (A : vec -> vec) (sp : sprecond) (ps : PS) (F Xold Told : vec) : vec * vec * PS :=
  if left then let T := A F in let '(X, ps') := sp ps T Xold in (X, T, ps')
  else let '(T, ps') := sp ps F Told in (A T, T, ps').

(* one pass of the loop body; None = precondition(...) threw; the state reached so far is returned
   in every case *)
Definition bs_step_sp (A : vec -> vec) (sp : sprecond) (left : bool) (eps : S) (st : bs_st) (ps : PS)
  : option bs_st * PS :=
  let w := b_ws st in
  let rho2 := b_rho1 st in
  let rho1 := ip (bs_r w) (bs_rh w) in
  let p_opt :=
    if b_first st then Some (bs_r w)                               (* backend::copy(r, p) *)
    else if is_zero rho2 then None                                 (* "Zero rho in BiCGStab" *)
    else let beta := (rho1 * b_alpha st) / (rho2 * b_omega st) in
         Some (k_axpbypcz s1 (bs_r w) (- beta * b_omega st) (bs_v w) beta (bs_p w)) in
  match p_opt with
  | None => (None, ps)
  | Some p =>
    let '(v, T, ps1) := pspmv_sp left A sp ps p (bs_v w) (bs_T w) in    (* spmv(pside, P, A, p, v, T) *)
    let alpha := rho1 / ip (bs_rh w) v in
    let x := if left then k_axpby alpha p s1 (b_x st) else k_axpby alpha T s1 (b_x st) in
    let s := k_axpbypcz s1 (bs_r w) (- alpha) v s0 (bs_s w) in
    let res := norm_a s in
    if sltb eps res then
      let '(t, T', ps2) := pspmv_sp left A sp ps1 s (bs_t w) T in       (* spmv(pside, P, A, s, t, T) *)
      let omega := ip t s / ip t t in
      if is_zero omega then (None, ps2)                            (* "Zero omega in BiCGStab" *)
      else
        let x' := if left then k_axpby omega s s1 x else k_axpby omega T' s1 x in
        let r := k_axpbypcz s1 s (- omega) t s0 (bs_r w) in
        (Some (mkBsSt x' (mkBsWs r p v s t (bs_rh w) T') rho1 rho2 alpha omega (norm_a r) false (SS (b_it st))), ps2)
    else
      (Some (mkBsSt x (mkBsWs (bs_r w) p v s (bs_t w) (bs_rh w) T) rho1 rho2 alpha (b_omega st) res false (SS (b_it st))), ps1)
  end.

Fixpoint bs_loop_sp (A : vec -> vec) (sp : sprecond) (left ca : bool) (eps : S) (fuel : nat) (st : bs_st) (ps : PS)
  : option bs_st * PS :=
  match fuel with
  | O => (Some st, ps)
  | SS k => if sltb eps (b_res st) || (b_first st && ca) then
              match bs_step_sp A sp left eps st ps with
              | (None, ps') => (None, ps')
              | (Some st', ps') => bs_loop_sp A sp left ca eps k st' ps'
              end
            else (Some st, ps)
  end.

(* left: backend::residual(rhs, A, x, rh); P.apply(rh, r)  -- the output member is r *)
Definition bs_init_sp (A : vec -> vec) (sp : sprecond) (prm : kprm) (nr : S) (f x0 : vec) (junk : bs_ws) (ps : PS)
  : S * bs_st * PS :=
  let '(r, ps') := if p_left prm then sp ps (k_residual f (A x0)) (bs_r junk) else (k_residual f (A x0), ps) in
  let rh := r in                                                   (* backend::copy(r, rh) *)
  let eps := smax (nr * p_tol prm) (p_abstol prm) in
  let res := norm_a r in
  (eps, mkBsSt x0 (mkBsWs r (bs_p junk) (bs_v junk) (bs_s junk) (bs_t junk) rh (bs_T junk))
               s0 s0 s0 s0 res true 0, ps').

Definition bicgstab_sp (A : vec -> vec) (sp : sprecond) (prm : kprm) (f x0 : vec) (junk : bs_ws) (ps : PS)
  : kout * bs_ws * PS :=
  match k_prologue norm_a prm f with
  | Trivial nr => (k_trivial nr x0, junk, ps)
  | Go nr =>
    let '(eps, st0, ps0) := bs_init_sp A sp prm nr f x0 junk ps in
    match bs_loop_sp A sp (p_left prm) (p_ca prm) eps (p_maxiter prm) st0 ps0 with
    | (None, ps') => (KExc, junk, ps')
    | (Some st, ps') => (KOk (mkRes (b_it st) (b_res st / nr) (b_x st) false), b_ws st, ps')
    end
  end.

(* bicgstab.hpp:135-141 *)
Definition bs_sized (n : nat) (w : bs_ws) : Prop :=
  length (bs_r w) = n /\ length (bs_p w) = n /\ length (bs_v w) = n /\ length (bs_s w) = n /\
  length (bs_t w) = n /\ length (bs_rh w) = n /\ length (bs_T w) = n.

(* ================================================================== *)
(* simulation proofs                                                   *)
Section Sim.
Variable n : nat.
Variable Inv : PS -> Prop.
Variable sp : sprecond.
Variable pf : vec -> vec.
Hypothesis Hsim : simulates n Inv sp pf.
Variable A : vec -> vec.
Hypothesis A_len : forall v, length v = n -> length (A v) = n.

Let pf_len : forall r, length r = n -> length (pf r) = n := proj1 Hsim.
Let sp_ok : forall st r x, Inv st -> length r = n -> length x = n ->
    fst (sp st r x) = pf r /\ Inv (snd (sp st r x)) := proj2 Hsim.

(* ---- CG ---- *)
Definition cg_linv (st : cg_st) : Prop := length (c_x st) = n /\ cg_sized n (c_ws st).

Lemma cg_step_linv (st : cg_st) : cg_linv st -> cg_linv (cg_step A pf st).
Proof.
  intros (Lx & Lr & Ls & Lp & Lq). unfold cg_step. cbv zeta.
  set (w := c_ws st) in *. set (s := pf (cg_r w)).
  assert (Ls' : length s = n) by (apply pf_len; exact Lr).
  set (p := if Nat.eqb (c_it st) 0 then s else k_axpby s1 s (ip (cg_r w) s / c_rho1 st) (cg_p w)).
  assert (Lp' : length p = n) by (unfold p; destruct (Nat.eqb _ _); [exact Ls' | apply sp_axpby_n; assumption]).
  assert (Lq' : length (A p) = n) by (apply A_len; exact Lp').
  unfold cg_linv, cg_sized. cbn [c_x c_ws cg_r cg_s cg_p cg_q].
  split; [apply sp_axpby_n; assumption|]. split; [apply sp_axpby_n; assumption|]. auto.
Qed.

Lemma cg_step_sp_sim (st : cg_st) ps : cg_linv st -> Inv ps ->
  fst (cg_step_sp A sp st ps) = cg_step A pf st /\ Inv (snd (cg_step_sp A sp st ps)).
Proof.
  intros (Lx & Lr & Ls & Lp & Lq) I0.
  destruct (sp_ok ps (cg_r (c_ws st)) (cg_s (c_ws st)) I0 Lr Ls) as (E & I1).
  unfold cg_step_sp. cbv zeta.
  destruct (sp ps (cg_r (c_ws st)) (cg_s (c_ws st))) as [s ps']. cbn [fst snd] in *. subst s.
  split; [reflexivity | exact I1].
Qed.

Lemma cg_loop_sp_sim eps fuel : forall (st : cg_st) ps, cg_linv st -> Inv ps ->
  fst (cg_loop_sp A sp eps fuel st ps) = cg_loop A pf eps fuel st /\
  Inv (snd (cg_loop_sp A sp eps fuel st ps)) /\ cg_linv (cg_loop A pf eps fuel st).
Proof.
  induction fuel as [|k IH]; intros st ps L0 I0; simpl; [auto|].
  destruct (sltb eps (sabs (c_res st))); [|auto].
  destruct (cg_step_sp_sim st ps L0 I0) as (E & I1).
  destruct (cg_step_sp A sp st ps) as [st' ps']. cbn [fst snd] in *. subst st'.
  apply IH; [apply cg_step_linv; exact L0 | exact I1].
Qed.

Lemma cg_sp_sim prm (f x0 : vec) ws ps : length f = n -> length x0 = n -> cg_sized n ws -> Inv ps ->
  fst (fst (cg_sp A sp prm f x0 ws ps)) = fst (cg A pf prm f x0 ws) /\
  snd (fst (cg_sp A sp prm f x0 ws ps)) = snd (cg A pf prm f x0 ws) /\
  Inv (snd (cg_sp A sp prm f x0 ws ps)) /\ cg_sized n (snd (fst (cg_sp A sp prm f x0 ws ps))).
Proof.
  intros Lf Lx Hz I0. pose proof Hz as (Zr & Zs & Zp & Zq). unfold cg_sp, cg.
  destruct (k_prologue norm_a prm f) as [nr|nr]; [cbn [fst snd]; auto|].
  unfold cg_init. cbv zeta. cbv beta iota.
  match goal with |- context [cg_loop_sp A sp ?e ?fu ?st0 ps] =>
    assert (L0 : cg_linv st0);
    [| destruct (cg_loop_sp_sim e fu st0 ps L0 I0) as (E & I1 & L1);
       destruct (cg_loop_sp A sp e fu st0 ps) as [st ps'] ] end.
  { unfold cg_linv, cg_sized. cbn [c_x c_ws cg_r cg_s cg_p cg_q].
    split; [exact Lx|]. split; [apply sp_residual_n; [exact Lf | apply A_len; exact Lx]|]. auto. }
  cbn [fst snd] in *. subst st. split; [reflexivity|]. split; [reflexivity|]. split; [exact I1|].
  apply L1.
Qed.

(* ---- Richardson ---- *)
Definition ri_linv (st : ri_st) : Prop := length (i_x st) = n /\ ri_sized n (i_ws st).

Lemma ri_step_linv d (f : vec) (st : ri_st) : length f = n -> ri_linv st -> ri_linv (ri_step A pf d f st).
Proof.
  intros Lf (Lx & Lr & Ls). unfold ri_step. cbv zeta.
  assert (Ls' : length (pf (ri_r (i_ws st))) = n) by (apply pf_len; exact Lr).
  assert (Lx' : length (k_axpby d (pf (ri_r (i_ws st))) s1 (i_x st)) = n) by (apply sp_axpby_n; assumption).
  unfold ri_linv, ri_sized. cbn [i_x i_ws ri_r ri_s].
  split; [exact Lx'|]. split; [|exact Ls']. apply sp_residual_n; [exact Lf | apply A_len; exact Lx'].
Qed.

Lemma ri_step_sp_sim d (f : vec) (st : ri_st) ps : ri_linv st -> Inv ps ->
  fst (ri_step_sp A sp d f st ps) = ri_step A pf d f st /\ Inv (snd (ri_step_sp A sp d f st ps)).
Proof.
  intros (Lx & Lr & Ls) I0.
  destruct (sp_ok ps (ri_r (i_ws st)) (ri_s (i_ws st)) I0 Lr Ls) as (E & I1).
  unfold ri_step_sp. cbv zeta.
  destruct (sp ps (ri_r (i_ws st)) (ri_s (i_ws st))) as [s ps']. cbn [fst snd] in *. subst s.
  split; [reflexivity | exact I1].
Qed.

Lemma ri_loop_sp_sim d (f : vec) eps fuel : length f = n -> forall (st : ri_st) ps, ri_linv st -> Inv ps ->
  fst (ri_loop_sp A sp d f eps fuel st ps) = ri_loop A pf d f eps fuel st /\
  Inv (snd (ri_loop_sp A sp d f eps fuel st ps)) /\ ri_linv (ri_loop A pf d f eps fuel st).
Proof.
  intro Lf. induction fuel as [|k IH]; intros st ps L0 I0; simpl; [auto|].
  destruct (sltb eps (sabs (i_res st))); [|auto].
  destruct (ri_step_sp_sim d f st ps L0 I0) as (E & I1).
  destruct (ri_step_sp A sp d f st ps) as [st' ps']. cbn [fst snd] in *. subst st'.
  apply IH; [apply ri_step_linv; assumption | exact I1].
Qed.

Lemma richardson_sp_sim prm (f x0 : vec) ws ps : length f = n -> length x0 = n -> ri_sized n ws -> Inv ps ->
  fst (fst (richardson_sp A sp prm f x0 ws ps)) = fst (richardson A pf prm f x0 ws) /\
  snd (fst (richardson_sp A sp prm f x0 ws ps)) = snd (richardson A pf prm f x0 ws) /\
  Inv (snd (richardson_sp A sp prm f x0 ws ps)) /\ ri_sized n (snd (fst (richardson_sp A sp prm f x0 ws ps))).
Proof.
  intros Lf Lx Hz I0. pose proof Hz as (Zr & Zs). unfold richardson_sp, richardson.
  destruct (k_prologue norm_a prm f) as [nr|nr]; [cbn [fst snd]; auto|].
  cbv zeta.
  match goal with |- context [ri_loop_sp A sp ?d f ?e ?fu ?st0 ps] =>
    assert (L0 : ri_linv st0);
    [| destruct (ri_loop_sp_sim d f e fu Lf st0 ps L0 I0) as (E & I1 & L1);
       destruct (ri_loop_sp A sp d f e fu st0 ps) as [st ps'] ] end.
  { unfold ri_linv, ri_sized. cbn [i_x i_ws ri_r ri_s].
    split; [exact Lx|]. split; [apply sp_residual_n; [exact Lf | apply A_len; exact Lx] | exact Zs]. }
  cbn [fst snd] in *. subst st. split; [reflexivity|]. split; [reflexivity|]. split; [exact I1|].
  apply L1.
Qed.

(* ---- BiCGStab ---- *)
Definition bs_linv (st : bs_st) : Prop := length (b_x st) = n /\ bs_sized n (b_ws st).

Lemma pspmv_sp_sim left ps (F Xo To : vec) : Inv ps -> length F = n -> length Xo = n -> length To = n ->
  fst (pspmv_sp left A sp ps F Xo To) = pspmv left A pf F /\ Inv (snd (pspmv_sp left A sp ps F Xo To)) /\
  length (fst (pspmv left A pf F)) = n /\ length (snd (pspmv left A pf F)) = n.
Proof.
  intros I0 LF LX LT. unfold pspmv_sp, pspmv. destruct left; cbv zeta.
  - assert (LA : length (A F) = n) by (apply A_len; exact LF).
    destruct (sp_ok ps (A F) Xo I0 LA LX) as (E & I1).
    destruct (sp ps (A F) Xo) as [X ps']. cbn [fst snd] in *. subst X.
    split; [reflexivity|]. split; [exact I1|]. split; [apply pf_len; exact LA | exact LA].
  - destruct (sp_ok ps F To I0 LF LT) as (E & I1).
    destruct (sp ps F To) as [T ps']. cbn [fst snd] in *. subst T.
    assert (LP : length (pf F) = n) by (apply pf_len; exact LF).
    split; [reflexivity|]. split; [exact I1|]. split; [apply A_len; exact LP | exact LP].
Qed.

Lemma bs_step_sp_sim left eps (st : bs_st) ps : bs_linv st -> Inv ps ->
  fst (bs_step_sp A sp left eps st ps) = bs_step A pf left eps st /\ Inv (snd (bs_step_sp A sp left eps st ps)) /\
  forall st', bs_step A pf left eps st = Some st' -> bs_linv st'.
Proof.
  intros (Lx & Lr & Lp & Lv & Ls & Lt & Lrh & LT) I0. unfold bs_step_sp, bs_step. cbv zeta.
  set (w := b_ws st) in *.
  set (rho1 := ip (bs_r w) (bs_rh w)).
  set (p_opt := if b_first st then Some (bs_r w) else if is_zero (b_rho1 st) then None else
       Some (k_axpbypcz s1 (bs_r w) (- (rho1 * b_alpha st / (b_rho1 st * b_omega st)) * b_omega st) (bs_v w)
                        (rho1 * b_alpha st / (b_rho1 st * b_omega st)) (bs_p w))).
  assert (Hp : forall p, p_opt = Some p -> length p = n).
  { intros p. unfold p_opt. destruct (b_first st); [intro H; inversion H; subst; exact Lr|].
    destruct (is_zero (b_rho1 st)); [discriminate|]. intro H; inversion H; subst.
    apply sp_axpbypcz_n; assumption. }
  destruct p_opt as [p|]; [|cbn [fst snd]; split; [reflexivity|]; split; [exact I0 | discriminate]].
  pose proof (Hp p eq_refl) as Lp'.
  destruct (pspmv_sp_sim left ps p (bs_v w) (bs_T w) I0 Lp' Lv LT) as (E1 & I1 & Lv' & LT').
  destruct (pspmv_sp left A sp ps p (bs_v w) (bs_T w)) as [[v T] ps1]. cbn [fst snd] in E1, I1.
  rewrite <- E1 in *. cbn [fst snd] in Lv', LT'. clear E1.
  set (alpha := rho1 / ip (bs_rh w) v).
  set (x := if left then k_axpby alpha p s1 (b_x st) else k_axpby alpha T s1 (b_x st)).
  assert (Lx' : length x = n) by (unfold x; destruct left; apply sp_axpby_n; assumption).
  set (s := k_axpbypcz s1 (bs_r w) (- alpha) v s0 (bs_s w)).
  assert (Ls' : length s = n) by (apply sp_axpbypcz_n; assumption).
  destruct (sltb eps (norm_a s)).
  - destruct (pspmv_sp_sim left ps1 s (bs_t w) T I1 Ls' Lt LT') as (E2 & I2 & Lt' & LT'').
    destruct (pspmv_sp left A sp ps1 s (bs_t w) T) as [[t T'] ps2]. cbn [fst snd] in E2, I2.
    rewrite <- E2 in *. cbn [fst snd] in Lt', LT''. clear E2.
    destruct (is_zero (ip t s / ip t t)); cbn [fst snd].
    + split; [reflexivity|]. split; [exact I2 | discriminate].
    + split; [reflexivity|]. split; [exact I2|]. intros st' H; inversion H; subst st'; clear H.
      unfold bs_linv, bs_sized. cbn [b_x b_ws bs_r bs_p bs_v bs_s bs_t bs_rh bs_T].
      split; [destruct left; apply sp_axpby_n; assumption|].
      split; [apply sp_axpbypcz_n; assumption|]. auto 10.
  - cbn [fst snd]. split; [reflexivity|]. split; [exact I1|]. intros st' H; inversion H; subst st'; clear H.
    unfold bs_linv, bs_sized. cbn [b_x b_ws bs_r bs_p bs_v bs_s bs_t bs_rh bs_T]. auto 10.
Qed.

Lemma bs_loop_sp_sim left ca eps fuel : forall (st : bs_st) ps, bs_linv st -> Inv ps ->
  fst (bs_loop_sp A sp left ca eps fuel st ps) = bs_loop A pf left ca eps fuel st /\
  Inv (snd (bs_loop_sp A sp left ca eps fuel st ps)) /\
  forall st', bs_loop A pf left ca eps fuel st = Some st' -> bs_linv st'.
Proof.
  induction fuel as [|k IH]; intros st ps L0 I0; simpl.
  - split; [reflexivity|]. split; [exact I0|]. intros st' H; inversion H; subst; exact L0.
  - destruct (sltb eps (b_res st) || (b_first st && ca)).
    + destruct (bs_step_sp_sim left eps st ps L0 I0) as (E & I1 & L1).
      destruct (bs_step_sp A sp left eps st ps) as [o ps']. cbn [fst snd] in E, I1. subst o.
      destruct (bs_step A pf left eps st) as [st1|].
      * apply IH; [apply L1; reflexivity | exact I1].
      * cbn [fst snd]. split; [reflexivity|]. split; [exact I1 | discriminate].
    + cbn [fst snd]. split; [reflexivity|]. split; [exact I0|]. intros st' H; inversion H; subst; exact L0.
Qed.

Lemma bicgstab_sp_sim prm (f x0 : vec) ws ps : length f = n -> length x0 = n -> bs_sized n ws -> Inv ps ->
  fst (fst (bicgstab_sp A sp prm f x0 ws ps)) = fst (bicgstab A pf prm f x0 ws) /\
  snd (fst (bicgstab_sp A sp prm f x0 ws ps)) = snd (bicgstab A pf prm f x0 ws) /\
  Inv (snd (bicgstab_sp A sp prm f x0 ws ps)) /\ bs_sized n (snd (fst (bicgstab_sp A sp prm f x0 ws ps))).
Proof.
  intros Lf Lx Hz I0. pose proof Hz as (Zr & Zp & Zv & Zs & Zt & Zrh & ZT). unfold bicgstab_sp, bicgstab.
  destruct (k_prologue norm_a prm f) as [nr|nr]; [cbn [fst snd]; auto|].
  unfold bs_init_sp, bs_init. cbv zeta.
  assert (Lres : length (k_residual f (A x0)) = n) by (apply sp_residual_n; [exact Lf | apply A_len; exact Lx]).
  assert (Q : fst (if p_left prm then sp ps (k_residual f (A x0)) (bs_r ws) else (k_residual f (A x0), ps))
              = (if p_left prm then pf (k_residual f (A x0)) else k_residual f (A x0)) /\
              Inv (snd (if p_left prm then sp ps (k_residual f (A x0)) (bs_r ws) else (k_residual f (A x0), ps))) /\
              length (if p_left prm then pf (k_residual f (A x0)) else k_residual f (A x0)) = n).
  { destruct (p_left prm).
    - destruct (sp_ok ps (k_residual f (A x0)) (bs_r ws) I0 Lres Zr) as (E & I1).
      split; [exact E|]. split; [exact I1 | apply pf_len; exact Lres].
    - cbn [fst snd]. auto. }
  destruct Q as (E0 & I1 & Lr0).
  destruct (if p_left prm then sp ps (k_residual f (A x0)) (bs_r ws) else (k_residual f (A x0), ps)) as [r ps0].
  cbn [fst snd] in E0, I1. subst r.
  match goal with |- context [bs_loop_sp A sp ?l ?c ?e ?fu ?st0 ps0] =>
    assert (L0 : bs_linv st0);
    [| destruct (bs_loop_sp_sim l c e fu st0 ps0 L0 I1) as (E & I2 & L1);
       destruct (bs_loop_sp A sp l c e fu st0 ps0) as [o ps'];
       cbn [fst snd] in E, I2; subst o;
       destruct (bs_loop A pf l c e fu st0) as [st|] ] end.
  { unfold bs_linv, bs_sized. cbn [b_x b_ws bs_r bs_p bs_v bs_s bs_t bs_rh bs_T]. auto 10. }
  - cbn [fst snd]. split; [reflexivity|]. split; [reflexivity|]. split; [exact I2|]. apply (L1 st eq_refl).
  - cbn [fst snd]. auto.
Qed.

End Sim.

(* ---- the simulation theorems ---- *)
Theorem cg_sp_simulated n (Inv : PS -> Prop) (sp : sprecond) (pf A : vec -> vec) prm (f x0 : vec) (ws : cg_ws) (ps : PS) :
  simulates n Inv sp pf -> (forall v, length v = n -> length (A v) = n) ->
  length f = n -> length x0 = n -> cg_sized n ws -> Inv ps ->
  fst (fst (cg_sp A sp prm f x0 ws ps)) = fst (cg A pf prm f x0 ws) /\
  snd (fst (cg_sp A sp prm f x0 ws ps)) = snd (cg A pf prm f x0 ws) /\
  Inv (snd (cg_sp A sp prm f x0 ws ps)) /\ cg_sized n (snd (fst (cg_sp A sp prm f x0 ws ps))).
Proof. intros Hs HA. exact (cg_sp_sim n Inv sp pf Hs A HA prm f x0 ws ps). Qed.

Theorem richardson_sp_simulated n (Inv : PS -> Prop) (sp : sprecond) (pf A : vec -> vec) prm (f x0 : vec) (ws : ri_ws) (ps : PS) :
  simulates n Inv sp pf -> (forall v, length v = n -> length (A v) = n) ->
  length f = n -> length x0 = n -> ri_sized n ws -> Inv ps ->
  fst (fst (richardson_sp A sp prm f x0 ws ps)) = fst (richardson A pf prm f x0 ws) /\
  snd (fst (richardson_sp A sp prm f x0 ws ps)) = snd (richardson A pf prm f x0 ws) /\
  Inv (snd (richardson_sp A sp prm f x0 ws ps)) /\ ri_sized n (snd (fst (richardson_sp A sp prm f x0 ws ps))).
Proof. intros Hs HA. exact (richardson_sp_sim n Inv sp pf Hs A HA prm f x0 ws ps). Qed.

(* on the exception exits the pure model returns the incoming workspace (Krylov.bicgstab), and so
   does the state-passing model; the preconditioner state is the one reached when precondition(...)
   threw *)
Theorem bicgstab_sp_simulated n (Inv : PS -> Prop) (sp : sprecond) (pf A : vec -> vec) prm (f x0 : vec) (ws : bs_ws) (ps : PS) :
  simulates n Inv sp pf -> (forall v, length v = n -> length (A v) = n) ->
  length f = n -> length x0 = n -> bs_sized n ws -> Inv ps ->
  fst (fst (bicgstab_sp A sp prm f x0 ws ps)) = fst (bicgstab A pf prm f x0 ws) /\
  snd (fst (bicgstab_sp A sp prm f x0 ws ps)) = snd (bicgstab A pf prm f x0 ws) /\
  Inv (snd (bicgstab_sp A sp prm f x0 ws ps)) /\ bs_sized n (snd (fst (bicgstab_sp A sp prm f x0 ws ps))).
Proof. intros Hs HA. exact (bicgstab_sp_sim n Inv sp pf Hs A HA prm f x0 ws ps). Qed.

(* ================================================================== *)
(* PART 3: the composite object (solver workspace, preconditioner state) and its call histories *)

(* one call of make_solver::operator(): (A, rhs, x) with the solver parameters in force *)
Record kcall := mkKCall { kc_A : vec -> vec; kc_prm : kprm; kc_f : vec; kc_x0 : vec }.
Definition call_ok (n : nat) (c : kcall) : Prop :=
  (forall v, length v = n -> length (kc_A c v) = n) /\ length (kc_f c) = n /\ length (kc_x0 c) = n.

Section Obj.
Variable W : Type.                                                  (* the solver's workspace record *)
Variable solve_sp : (vec -> vec) -> sprecond -> kprm -> vec -> vec -> W -> PS -> kout * W * PS.

(* operator()(A, rhs, x) on the object state o = (workspace, preconditioner state) *)
Definition obj_call (sp : sprecond) (c : kcall) (o : W * PS) : kout * (W * PS) :=
  let '(out, w', ps') := solve_sp (kc_A c) sp (kc_prm c) (kc_f c) (kc_x0 c) (fst o) (snd o) in
  (out, (w', ps')).
(* the object state after a list of calls *)
Definition obj_history (sp : sprecond) (hist : list kcall) (o : W * PS) : W * PS :=
  fold_left (fun o c => snd (obj_call sp c o)) hist o.

Variable solve : (vec -> vec) -> (vec -> vec) -> kprm -> vec -> vec -> W -> kout * W.
Variable sized : W -> Prop.                 (* the workspace has its allocated shape *)
Variable cok : kcall -> Prop.               (* the call fits the object (vector lengths, ...) *)
Variable Inv : PS -> Prop.
Variable sp : sprecond.
Variable pf : vec -> vec.
Hypothesis sim : forall c ws ps, cok c -> sized ws -> Inv ps ->
  fst (fst (solve_sp (kc_A c) sp (kc_prm c) (kc_f c) (kc_x0 c) ws ps)) = fst (solve (kc_A c) pf (kc_prm c) (kc_f c) (kc_x0 c) ws) /\
  Inv (snd (solve_sp (kc_A c) sp (kc_prm c) (kc_f c) (kc_x0 c) ws ps)) /\
  sized (snd (fst (solve_sp (kc_A c) sp (kc_prm c) (kc_f c) (kc_x0 c) ws ps))).
Hypothesis junk_indep : forall (A : vec -> vec) prm (f x0 : vec) j1 j2,
  fst (solve A pf prm f x0 j1) = fst (solve A pf prm f x0 j2).

Definition obj_ok (o : W * PS) : Prop := sized (fst o) /\ Inv (snd o).

Lemma obj_call_spec c o junk : cok c -> obj_ok o ->
  fst (obj_call sp c o) = fst (solve (kc_A c) pf (kc_prm c) (kc_f c) (kc_x0 c) junk) /\
  obj_ok (snd (obj_call sp c o)).
Proof.
  intros Hc (Hw & Hi). unfold obj_call.
  destruct (sim c (fst o) (snd o) Hc Hw Hi) as (E & I1 & Z1).
  destruct (solve_sp (kc_A c) sp (kc_prm c) (kc_f c) (kc_x0 c) (fst o) (snd o)) as [[out w'] ps'].
  cbn [fst snd] in *. split; [|split; assumption].
  rewrite E. apply junk_indep.
Qed.

Lemma obj_history_ok hist : Forall cok hist -> forall o, obj_ok o -> obj_ok (obj_history sp hist o).
Proof.
  induction 1 as [|c tl Hc _ IH]; intros o Ho; [exact Ho|].
  unfold obj_history. cbn [fold_left]. apply IH.
  destruct o as [w0 p0]. apply (obj_call_spec c (w0, p0) w0 Hc Ho).
Qed.

(* a call after any history = the pure model of that call on an arbitrary workspace *)
Lemma obj_call_pure hist c o junk : Forall cok hist -> cok c -> obj_ok o ->
  fst (obj_call sp c (obj_history sp hist o)) = fst (solve (kc_A c) pf (kc_prm c) (kc_f c) (kc_x0 c) junk).
Proof. intros Hh Hc Ho. apply obj_call_spec; [exact Hc | apply obj_history_ok; assumption]. Qed.

Lemma obj_reuse hist c o ofresh : Forall cok hist -> cok c -> obj_ok o -> obj_ok ofresh ->
  fst (obj_call sp c (obj_history sp hist o)) = fst (obj_call sp c ofresh).
Proof.
  intros Hh Hc Ho Hf. rewrite (obj_call_pure hist c o (fst ofresh) Hh Hc Ho).
  symmetry. apply obj_call_spec; assumption.
Qed.
End Obj.

(* ---- CG ---- *)
Definition cg_obj_call (sp : sprecond) (c : kcall) (o : cg_ws * PS) : kout * (cg_ws * PS) := obj_call cg_ws cg_sp sp c o.
Definition cg_obj_history (sp : sprecond) (hist : list kcall) (o : cg_ws * PS) : cg_ws * PS := obj_history cg_ws cg_sp sp hist o.

Theorem cg_object_reuse n (Inv : PS -> Prop) (sp : sprecond) (pf : vec -> vec) hist c (ws0 wsf : cg_ws) (ps0 psf : PS) :
  simulates n Inv sp pf -> Forall (call_ok n) hist -> call_ok n c ->
  cg_sized n ws0 -> Inv ps0 -> cg_sized n wsf -> Inv psf ->
  fst (cg_obj_call sp c (cg_obj_history sp hist (ws0, ps0))) = fst (cg_obj_call sp c (wsf, psf)).
Proof.
  intros Hs Hh Hc Z0 I0 Zf If.
  apply (obj_reuse cg_ws cg_sp cg (cg_sized n) (call_ok n) Inv sp pf); try assumption; try (split; assumption).
  - intros c0 ws ps (HA & Lf & Lx) Zw Ip.
    destruct (cg_sp_simulated n Inv sp pf (kc_A c0) (kc_prm c0) (kc_f c0) (kc_x0 c0) ws ps Hs HA Lf Lx Zw Ip) as (E1 & _ & E3 & E4).
    split; [exact E1 | split; [exact E3 | exact E4]].
  - intros A prm f x0 j1 j2. apply cg_junk_independent.
Qed.

(* ... and both equal the pure model of the call with the pure function pf, on any workspace *)
Theorem cg_object_call_pure n (Inv : PS -> Prop) (sp : sprecond) (pf : vec -> vec) hist c (ws0 junk : cg_ws) (ps0 : PS) :
  simulates n Inv sp pf -> Forall (call_ok n) hist -> call_ok n c -> cg_sized n ws0 -> Inv ps0 ->
  fst (cg_obj_call sp c (cg_obj_history sp hist (ws0, ps0))) = fst (cg (kc_A c) pf (kc_prm c) (kc_f c) (kc_x0 c) junk).
Proof.
  intros Hs Hh Hc Z0 I0.
  apply (obj_call_pure cg_ws cg_sp cg (cg_sized n) (call_ok n) Inv sp pf); try assumption; try (split; assumption).
  - intros c0 ws ps (HA & Lf & Lx) Zw Ip.
    destruct (cg_sp_simulated n Inv sp pf (kc_A c0) (kc_prm c0) (kc_f c0) (kc_x0 c0) ws ps Hs HA Lf Lx Zw Ip) as (E1 & _ & E3 & E4).
    split; [exact E1 | split; [exact E3 | exact E4]].
  - intros A prm f x0 j1 j2. apply cg_junk_independent.
Qed.

(* ---- Richardson ---- *)
Definition ri_obj_call (sp : sprecond) (c : kcall) (o : ri_ws * PS) : kout * (ri_ws * PS) := obj_call ri_ws richardson_sp sp c o.
Definition ri_obj_history (sp : sprecond) (hist : list kcall) (o : ri_ws * PS) : ri_ws * PS := obj_history ri_ws richardson_sp sp hist o.

Theorem richardson_object_reuse n (Inv : PS -> Prop) (sp : sprecond) (pf : vec -> vec) hist c (ws0 wsf : ri_ws) (ps0 psf : PS) :
  simulates n Inv sp pf -> Forall (call_ok n) hist -> call_ok n c ->
  ri_sized n ws0 -> Inv ps0 -> ri_sized n wsf -> Inv psf ->
  fst (ri_obj_call sp c (ri_obj_history sp hist (ws0, ps0))) = fst (ri_obj_call sp c (wsf, psf)).
Proof.
  intros Hs Hh Hc Z0 I0 Zf If.
  apply (obj_reuse ri_ws richardson_sp richardson (ri_sized n) (call_ok n) Inv sp pf); try assumption; try (split; assumption).
  - intros c0 ws ps (HA & Lf & Lx) Zw Ip.
    destruct (richardson_sp_simulated n Inv sp pf (kc_A c0) (kc_prm c0) (kc_f c0) (kc_x0 c0) ws ps Hs HA Lf Lx Zw Ip) as (E1 & _ & E3 & E4).
    split; [exact E1 | split; [exact E3 | exact E4]].
  - intros A prm f x0 j1 j2. apply richardson_junk_independent.
Qed.

Theorem richardson_object_call_pure n (Inv : PS -> Prop) (sp : sprecond) (pf : vec -> vec) hist c (ws0 junk : ri_ws) (ps0 : PS) :
  simulates n Inv sp pf -> Forall (call_ok n) hist -> call_ok n c -> ri_sized n ws0 -> Inv ps0 ->
  fst (ri_obj_call sp c (ri_obj_history sp hist (ws0, ps0))) = fst (richardson (kc_A c) pf (kc_prm c) (kc_f c) (kc_x0 c) junk).
Proof.
  intros Hs Hh Hc Z0 I0.
  apply (obj_call_pure ri_ws richardson_sp richardson (ri_sized n) (call_ok n) Inv sp pf); try assumption; try (split; assumption).
  - intros c0 ws ps (HA & Lf & Lx) Zw Ip.
    destruct (richardson_sp_simulated n Inv sp pf (kc_A c0) (kc_prm c0) (kc_f c0) (kc_x0 c0) ws ps Hs HA Lf Lx Zw Ip) as (E1 & _ & E3 & E4).
    split; [exact E1 | split; [exact E3 | exact E4]].
  - intros A prm f x0 j1 j2. apply richardson_junk_independent.
Qed.

(* ---- BiCGStab (is_zero(zero) = true as in bicgstab_junk_independent) ---- *)
Definition bs_obj_call (sp : sprecond) (c : kcall) (o : bs_ws * PS) : kout * (bs_ws * PS) := obj_call bs_ws bicgstab_sp sp c o.
Definition bs_obj_history (sp : sprecond) (hist : list kcall) (o : bs_ws * PS) : bs_ws * PS := obj_history bs_ws bicgstab_sp sp hist o.

Theorem bicgstab_object_reuse n (Inv : PS -> Prop) (sp : sprecond) (pf : vec -> vec) hist c (ws0 wsf : bs_ws) (ps0 psf : PS) :
  is_zero (@s0 S) = true ->
  simulates n Inv sp pf -> Forall (call_ok n) hist -> call_ok n c ->
  bs_sized n ws0 -> Inv ps0 -> bs_sized n wsf -> Inv psf ->
  fst (bs_obj_call sp c (bs_obj_history sp hist (ws0, ps0))) = fst (bs_obj_call sp c (wsf, psf)).
Proof.
  intros Hz Hs Hh Hc Z0 I0 Zf If.
  apply (obj_reuse bs_ws bicgstab_sp bicgstab (bs_sized n) (call_ok n) Inv sp pf); try assumption; try (split; assumption).
  - intros c0 ws ps (HA & Lf & Lx) Zw Ip.
    destruct (bicgstab_sp_simulated n Inv sp pf (kc_A c0) (kc_prm c0) (kc_f c0) (kc_x0 c0) ws ps Hs HA Lf Lx Zw Ip) as (E1 & _ & E3 & E4).
    split; [exact E1 | split; [exact E3 | exact E4]].
  - intros A prm f x0 j1 j2. apply (bicgstab_junk_independent Hz).
Qed.

Theorem bicgstab_object_call_pure n (Inv : PS -> Prop) (sp : sprecond) (pf : vec -> vec) hist c (ws0 junk : bs_ws) (ps0 : PS) :
  is_zero (@s0 S) = true ->
  simulates n Inv sp pf -> Forall (call_ok n) hist -> call_ok n c -> bs_sized n ws0 -> Inv ps0 ->
  fst (bs_obj_call sp c (bs_obj_history sp hist (ws0, ps0))) = fst (bicgstab (kc_A c) pf (kc_prm c) (kc_f c) (kc_x0 c) junk).
Proof.
  intros Hz Hs Hh Hc Z0 I0.
  apply (obj_call_pure bs_ws bicgstab_sp bicgstab (bs_sized n) (call_ok n) Inv sp pf); try assumption; try (split; assumption).
  - intros c0 ws ps (HA & Lf & Lx) Zw Ip.
    destruct (bicgstab_sp_simulated n Inv sp pf (kc_A c0) (kc_prm c0) (kc_f c0) (kc_x0 c0) ws ps Hs HA Lf Lx Zw Ip) as (E1 & _ & E3 & E4).
    split; [exact E1 | split; [exact E3 | exact E4]].
  - intros A prm f x0 j1 j2. apply (bicgstab_junk_independent Hz).
Qed.

End StatePassing.

(* ================================================================== *)
(* sanity link between the two model texts: a preconditioner WITHOUT state (PS := unit) makes the
   state-passing models equal to the pure ones -- whole output, no hypothesis at all *)
Section Stateless.
Context {S : Scalar}.
Local Notation vec := (vec S).
Variables A P : vec -> vec.
Local Notation spP := (fun (_ : unit) (r _ : vec) => (P r, tt)).

Lemma cg_loop_sp_stateless eps fuel : forall (st : @cg_st S) u,
  cg_loop_sp A spP eps fuel st u = (cg_loop A P eps fuel st, tt).
Proof.
  induction fuel as [|k IH]; intros st []; simpl; [reflexivity|].
  destruct (sltb eps (sabs (c_res st))); [|reflexivity]. apply IH.
Qed.

Theorem cg_sp_stateless prm (f x0 : vec) ws u :
  cg_sp A (fun (_ : unit) (r _ : vec) => (P r, tt)) prm f x0 ws u = (cg A P prm f x0 ws, tt).
Proof.
  unfold cg_sp, cg. destruct (k_prologue norm_a prm f) as [nr|nr]; [destruct u; reflexivity|].
  unfold cg_init. cbv zeta. cbv beta iota. rewrite cg_loop_sp_stateless. reflexivity.
Qed.

Lemma ri_loop_sp_stateless d (f : vec) eps fuel : forall (st : @ri_st S) u,
  ri_loop_sp A spP d f eps fuel st u = (ri_loop A P d f eps fuel st, tt).
Proof.
  induction fuel as [|k IH]; intros st []; simpl; [reflexivity|].
  destruct (sltb eps (sabs (i_res st))); [|reflexivity]. apply IH.
Qed.

Theorem richardson_sp_stateless prm (f x0 : vec) ws u :
  richardson_sp A (fun (_ : unit) (r _ : vec) => (P r, tt)) prm f x0 ws u = (richardson A P prm f x0 ws, tt).
Proof.
  unfold richardson_sp, richardson. destruct (k_prologue norm_a prm f) as [nr|nr]; [destruct u; reflexivity|].
  cbv zeta. rewrite ri_loop_sp_stateless. reflexivity.
Qed.

Lemma pspmv_sp_stateless left u (F Xo To : vec) : pspmv_sp left A spP u F Xo To = (pspmv left A P F, tt).
Proof. destruct left; reflexivity. Qed.

Lemma bs_step_sp_stateless left eps (st : @bs_st S) u :
  bs_step_sp A spP left eps st u = (bs_step A P left eps st, tt).
Proof.
  destruct u. unfold bs_step_sp, bs_step. cbv zeta.
  match goal with |- (match ?o with _ => _ end) = _ => destruct o as [p|] end; [|reflexivity].
  rewrite pspmv_sp_stateless. destruct (pspmv left A P p) as [v T].
  match goal with |- context [sltb eps ?r] => destruct (sltb eps r) end; [|reflexivity].
  rewrite pspmv_sp_stateless.
  match goal with |- context [pspmv left A P ?s] => destruct (pspmv left A P s) as [t T'] end.
  match goal with |- context [is_zero ?o] => destruct (is_zero o) end; reflexivity.
Qed.

Lemma bs_loop_sp_stateless left ca eps fuel : forall (st : @bs_st S) u,
  bs_loop_sp A spP left ca eps fuel st u = (bs_loop A P left ca eps fuel st, tt).
Proof.
  induction fuel as [|k IH]; intros st u; simpl; [destruct u; reflexivity|].
  destruct (sltb eps (b_res st) || (b_first st && ca)); [|destruct u; reflexivity].
  rewrite bs_step_sp_stateless. destruct (bs_step A P left eps st) as [st'|]; [apply IH | reflexivity].
Qed.

Theorem bicgstab_sp_stateless prm (f x0 : vec) ws u :
  bicgstab_sp A (fun (_ : unit) (r _ : vec) => (P r, tt)) prm f x0 ws u = (bicgstab A P prm f x0 ws, tt).
Proof.
  unfold bicgstab_sp, bicgstab. destruct (k_prologue norm_a prm f) as [nr|nr]; [destruct u; reflexivity|].
  unfold bs_init_sp, bs_init. cbv zeta.
  assert (E : (if p_left prm then (P (k_residual f (A x0)), tt) else (k_residual f (A x0), u))
            = (if p_left prm then P (k_residual f (A x0)) else k_residual f (A x0), tt))
    by (destruct u, (p_left prm); reflexivity).
  rewrite E. cbv beta iota. rewrite bs_loop_sp_stateless.
  match goal with |- context [bs_loop A P ?l ?c ?e ?fu ?st0] => destruct (bs_loop A P l c e fu st0) end; reflexivity.
Qed.
End Stateless.

(* ================================================================== *)
(* PART 4: the preconditioner object is amgcl::amg (Amg.apply with its per-level scratch)        *)
Section AmgInstance.
Context {S : Scalar}.
Local Notation vec := (vec S).
Local Notation crs := (crs S).
Local Notation level := (@level S).
Local Notation scratch := (@scratch S).
Local Notation kcall := (@kcall S).
Variables npre npost ncycle pre_cycles : nat.

(* amg::apply(rhs, x) as a stateful operator; state = the scratch records of all levels *)
Definition amg_sp (lvls : list level) : @sprecond S (list scratch) :=
  fun scr r x => apply npre npost ncycle pre_cycles lvls scr r x.

(* the amg object simulates the pure function "apply on the scratch scr0 and a zero output vector";
   by history independence any other well-formed scratch defines the same function *)
Theorem amg_simulates (lvls : list level) (scr0 : list scratch) :
  is_zero (@s0 S) = true -> hier_wf lvls -> lvls <> [] -> scratch_wf lvls scr0 ->
  simulates (top_n lvls) (scratch_wf lvls) (amg_sp lvls)
            (fun r => fst (apply npre npost ncycle pre_cycles lvls scr0 r (vzero (top_n lvls)))).
Proof.
  intros Hz Hh Hne H0.
  assert (Lz : length (@vzero S (top_n lvls)) = top_n lvls) by (unfold vzero; apply repeat_length).
  split.
  - intros r Lr.
    apply (apply_history_indep Hz npre npost ncycle pre_cycles lvls Hh Hne scr0 scr0 r _ _ H0 H0 Lr Lz Lz).
  - intros scr r x Hs Lr Lx. unfold amg_sp.
    destruct (apply_history_indep Hz npre npost ncycle pre_cycles lvls Hh Hne scr scr0 r x _ Hs H0 Lr Lx Lz)
      as (E & _ & W). split; [exact E | exact W].
Qed.

(* make_solver<amg, cg>: a call after ANY history of earlier calls (other right-hand sides, initial
   guesses, parameters, system matrices) = the same call on a fresh object
   (fresh = any sized workspace + any well-formed scratch) *)
Theorem make_solver_amg_cg_reuse (lvls : list level) (hist : list kcall) (c : kcall)
  (ws0 wsf : @cg_ws S) (scr0 scrf : list scratch) :
  is_zero (@s0 S) = true -> hier_wf lvls -> lvls <> [] ->
  Forall (call_ok (top_n lvls)) hist -> call_ok (top_n lvls) c ->
  cg_sized (top_n lvls) ws0 -> scratch_wf lvls scr0 -> cg_sized (top_n lvls) wsf -> scratch_wf lvls scrf ->
  fst (cg_obj_call (amg_sp lvls) c (cg_obj_history (amg_sp lvls) hist (ws0, scr0))) =
  fst (cg_obj_call (amg_sp lvls) c (wsf, scrf)).
Proof.
  intros Hz Hh Hne HH Hc Z0 W0 Zf Wf.
  exact (cg_object_reuse (top_n lvls) (scratch_wf lvls) (amg_sp lvls) _ hist c ws0 wsf scr0 scrf
           (amg_simulates lvls scr0 Hz Hh Hne W0) HH Hc Z0 W0 Zf Wf).
Qed.

Theorem make_solver_amg_richardson_reuse (lvls : list level) (hist : list kcall) (c : kcall)
  (ws0 wsf : @ri_ws S) (scr0 scrf : list scratch) :
  is_zero (@s0 S) = true -> hier_wf lvls -> lvls <> [] ->
  Forall (call_ok (top_n lvls)) hist -> call_ok (top_n lvls) c ->
  ri_sized (top_n lvls) ws0 -> scratch_wf lvls scr0 -> ri_sized (top_n lvls) wsf -> scratch_wf lvls scrf ->
  fst (ri_obj_call (amg_sp lvls) c (ri_obj_history (amg_sp lvls) hist (ws0, scr0))) =
  fst (ri_obj_call (amg_sp lvls) c (wsf, scrf)).
Proof.
  intros Hz Hh Hne HH Hc Z0 W0 Zf Wf.
  exact (richardson_object_reuse (top_n lvls) (scratch_wf lvls) (amg_sp lvls) _ hist c ws0 wsf scr0 scrf
           (amg_simulates lvls scr0 Hz Hh Hne W0) HH Hc Z0 W0 Zf Wf).
Qed.

Theorem make_solver_amg_bicgstab_reuse (lvls : list level) (hist : list kcall) (c : kcall)
  (ws0 wsf : @bs_ws S) (scr0 scrf : list scratch) :
  is_zero (@s0 S) = true -> hier_wf lvls -> lvls <> [] ->
  Forall (call_ok (top_n lvls)) hist -> call_ok (top_n lvls) c ->
  bs_sized (top_n lvls) ws0 -> scratch_wf lvls scr0 -> bs_sized (top_n lvls) wsf -> scratch_wf lvls scrf ->
  fst (bs_obj_call (amg_sp lvls) c (bs_obj_history (amg_sp lvls) hist (ws0, scr0))) =
  fst (bs_obj_call (amg_sp lvls) c (wsf, scrf)).
Proof.
  intros Hz Hh Hne HH Hc Z0 W0 Zf Wf.
  exact (bicgstab_object_reuse (top_n lvls) (scratch_wf lvls) (amg_sp lvls) _ hist c ws0 wsf scr0 scrf Hz
           (amg_simulates lvls scr0 Hz Hh Hne W0) HH Hc Z0 W0 Zf Wf).
Qed.

(* ... and the result is the pure CG model preconditioned with the pure function of the amg object *)
Theorem make_solver_amg_cg_is_pure (lvls : list level) (hist : list kcall) (c : kcall)
  (ws0 junk : @cg_ws S) (scr0 scrp : list scratch) :
  is_zero (@s0 S) = true -> hier_wf lvls -> lvls <> [] ->
  Forall (call_ok (top_n lvls)) hist -> call_ok (top_n lvls) c ->
  cg_sized (top_n lvls) ws0 -> scratch_wf lvls scr0 -> scratch_wf lvls scrp ->
  fst (cg_obj_call (amg_sp lvls) c (cg_obj_history (amg_sp lvls) hist (ws0, scr0))) =
  fst (cg (kc_A c) (fun r => fst (apply npre npost ncycle pre_cycles lvls scrp r (vzero (top_n lvls))))
          (kc_prm c) (kc_f c) (kc_x0 c) junk).
Proof.
  intros Hz Hh Hne HH Hc Z0 W0 Wp.
  exact (cg_object_call_pure (top_n lvls) (scratch_wf lvls) (amg_sp lvls) _ hist c ws0 junk scr0
           (amg_simulates lvls scrp Hz Hh Hne Wp) HH Hc Z0 W0).
Qed.
End AmgInstance.

(* the hierarchy built by amg_init from a matrix M, instantiated with the modelled smoothers and
   the exact coarse solve (as in AmgProofs3.built_apply_history_indep); n = nrows M *)
Theorem make_solver_built_amg_cg_reuse {S : Scalar} (zero_is_zero : is_zero (@s0 S) = true)
  ce dc ml sc ts (M : crs S) k npre npost ncycle pre_cycles :
  let lvls := std_levels k (amg_init ce dc ml (coarse_op_of sc) ts M) in
  forall (hist : list (@kcall S)) (c : @kcall S) (ws0 wsf : @cg_ws S) (scr0 scrf : list (@scratch S)),
  Forall (call_ok (nrows M)) hist -> call_ok (nrows M) c ->
  cg_sized (nrows M) ws0 -> scratch_wf lvls scr0 -> cg_sized (nrows M) wsf -> scratch_wf lvls scrf ->
  fst (cg_obj_call (amg_sp npre npost ncycle pre_cycles lvls) c
         (cg_obj_history (amg_sp npre npost ncycle pre_cycles lvls) hist (ws0, scr0))) =
  fst (cg_obj_call (amg_sp npre npost ncycle pre_cycles lvls) c (wsf, scrf)).
Proof.
  intros lvls hist c ws0 wsf scr0 scrf HH Hc Z0 W0 Zf Wf.
  destruct (amg_init_chain ce dc ml (coarse_op_of sc) ts M) as [Hch Hh].
  destruct (std_levels_wf k _ _ (coarse_op_of_shape sc) Hch) as (Hw & Hne & _).
  assert (En : top_n lvls = nrows M).
  { unfold lvls, std_levels. rewrite (top_n_inst _ _ _ _ Hh). apply sort_rows_nrows. }
  rewrite <- En in HH, Hc, Z0, Zf.
  exact (make_solver_amg_cg_reuse npre npost ncycle pre_cycles lvls hist c ws0 wsf scr0 scrf
           zero_is_zero Hw Hne HH Hc Z0 W0 Zf Wf).
Qed.
