(* EminProofs2c.v -- C04, smoothed_aggr_emin for ANY thread count (section 3b of Properties_C04.v).
   backend::product() switches from spgemm_saad (+ sort_row) to spgemm_rmerge when omp_get_max_threads() > 16.
     1. When the rows of B are strictly sorted the two algorithms build the SAME crs (pattern with its explicit
        zeros, order, values): rmerge_eq_saad_sorted, product_sorted_threads.  (rmerge needs sorted rows of B:
        it merges them; this is the guard "sorted rows" of the real code.)
     2. The filtered matrix A_F keeps the column order of A (emin_filter_rows_sorted), P_t and P_t^T are sorted, so
        interpolation(), restriction() and transfer_operators() do not depend on the thread count
        (emin_interpolation_threads, emin_restriction_threads, emin_transfer_threads).
     3. Hence the full statement (Omega as a quotient, P, R) for every nt, with the extra guard
        "16 < nt -> rows of A sorted": emin_full_statement, emin_transfer_full; zero denominators at Qc.
     4. Computed witnesses at Qc: pois5 (Omega = (4/5, 16/27)), lap3 (denominator 0). *)
From Coq Require Import Sorting.Sorted Sorting.Permutation.
From Amgcl Require Import Scalar QcInst Vec Crs Kernels KernelsProofs MatOps MatOpsProofs MatOps2 MatOps2Proofs Aggregates Tentative
     Coarsen CoarsenProofs EminProofs EminProofs2 EminProofs2b.
Import Rmerge.
Local Open Scope S_scope.

Section ProductAnyThreads.
Variable S : Scalar.
Hypothesis Srt : Sring S.
Add Ring SRingEmin2c : Srt.
Local Notation row := (row S).
Local Notation vec := (vec S).
Local Notation crs := (crs S).
Local Notation prod_row := (@MatOps2.prod_row S).

(* --- the pattern of a product row, both algorithms: the union of the patterns of the selected rows of B *)
Definition ucols (ra : row) (B : crs) (c : nat) : Prop := exists e, In e ra /\ In c (bcols B (fst e)).

Lemma ucols_nil B c : ucols [] B c <-> False.
Proof. split; [intros (e & [] & _)|tauto]. Qed.
Lemma ucols_cons e ra B c : ucols (e :: ra) B c <-> In c (bcols B (fst e)) \/ ucols ra B c.
Proof.
  split.
  - intros (x & [<-|Hx] & Hc); [left; exact Hc|right; exists x; auto].
  - intros [Hc|(x & Hx & Hc)]; [exists e; split; [left; reflexivity|exact Hc]|exists x; split; [right; exact Hx|exact Hc]].
Qed.

Lemma In_merge_cols c l1 : forall l2, In c (merge_cols l1 l2) <-> In c l1 \/ In c l2.
Proof.
  induction l1 as [|c1 t1 IH1]; intro l2.
  - rewrite merge_cols_nil_l. simpl. tauto.
  - induction l2 as [|c2 t2 IH2].
    + rewrite merge_cols_nil_r. simpl. tauto.
    + rewrite merge_cols_cons_cons. destruct (Nat.ltb c1 c2).
      * simpl. rewrite IH1. simpl. tauto.
      * destruct (Nat.eqb_spec c1 c2) as [->|Hne].
        -- simpl. rewrite IH1. simpl. tauto.
        -- simpl. rewrite IH2. simpl. tauto.
Qed.

Lemma In_merge_rows c (a1 a2 : S) (r1 r2 : row) :
  In c (map fst (merge_rows a1 r1 a2 r2)) <-> In c (map fst r1) \/ In c (map fst r2).
Proof. rewrite map_fst_merge_rows. apply In_merge_cols. Qed.

Lemma In_prod_pairs (B : crs) c n : forall (ra tm1 : row), length ra <= n ->
  (In c (map fst (prod_pairs B tm1 ra)) <-> In c (map fst tm1) \/ ucols ra B c).
Proof.
  induction n as [|n IH]; intros ra tm1 Hn;
    destruct ra as [|[c1 v1] [|[c2 v2] tl]]; try (simpl in Hn; lia).
  - rewrite prod_pairs_nil, ucols_nil. tauto.
  - rewrite prod_pairs_nil, ucols_nil. tauto.
  - rewrite prod_pairs_one, In_merge_rows, ucols_cons, ucols_nil. cbn [fst]. unfold bcols. tauto.
  - rewrite prod_pairs_two, IH by (simpl in Hn; lia).
    rewrite !In_merge_rows, !ucols_cons. cbn [fst]. unfold bcols. tauto.
Qed.

Lemma In_prod_row (ra : row) (B : crs) c : In c (map fst (prod_row ra B)) <-> ucols ra B c.
Proof.
  destruct ra as [|[c1 v1] [|[c2 v2] tl]].
  - simpl. rewrite ucols_nil. tauto.
  - change (prod_row [(c1, v1)] B) with (rscale v1 (brow B c1)).
    rewrite map_fst_rscale, ucols_cons, ucols_nil. cbn [fst]. unfold bcols. tauto.
  - destruct tl as [|e tl].
    + change (prod_row [(c1, v1); (c2, v2)] B) with (merge_rows v1 (brow B c1) v2 (brow B c2)).
      rewrite In_merge_rows, !ucols_cons, ucols_nil. cbn [fst]. unfold bcols. tauto.
    + change (prod_row ((c1, v1) :: (c2, v2) :: e :: tl) B)
        with (prod_pairs B (merge_rows v1 (brow B c1) v2 (brow B c2)) (e :: tl)).
      rewrite (In_prod_pairs B c (length (e :: tl))) by lia.
      rewrite In_merge_rows, !(ucols_cons (c1, v1)), !(ucols_cons (c2, v2)). cbn [fst]. unfold bcols. tauto.
Qed.

Lemma In_fold_row_add_iff {X} (g : X -> nat) (h : X -> S) (l : list X) : forall (acc : row) c,
  In c (map fst (fold_left (fun acc e => row_add acc (g e) (h e)) l acc)) <-> In c (map fst acc) \/ In c (map g l).
Proof.
  induction l as [|e l IH]; intros acc c; simpl; [tauto|].
  rewrite IH, In_row_add. intuition.
Qed.

Lemma In_spgemm_fold (B : crs) (ra : row) : forall (acc : row) c,
  In c (map fst (fold_left (fun acc ea =>
        fold_left (fun acc eb => row_add acc (fst eb) (snd ea * snd eb)) (nth (fst ea) (rows B) []) acc) ra acc))
  <-> In c (map fst acc) \/ ucols ra B c.
Proof.
  induction ra as [|a ra IH]; intros acc c; simpl.
  - rewrite ucols_nil. tauto.
  - rewrite IH, ucols_cons. rewrite (In_fold_row_add_iff fst (fun eb => snd a * snd eb)). unfold bcols, brow. tauto.
Qed.

Lemma In_spgemm_row_iff (ra : row) (B : crs) c : In c (map fst (spgemm_row ra B)) <-> ucols ra B c.
Proof. unfold spgemm_row. rewrite In_spgemm_fold. simpl. tauto. Qed.

(* --- a row with strictly increasing columns is determined by its pattern and its dense values *)
Lemma sorted_cols_unique (l1 : list nat) : forall l2, StronglySorted lt l1 -> StronglySorted lt l2 ->
  (forall c, In c l1 <-> In c l2) -> l1 = l2.
Proof.
  induction l1 as [|a l1 IH]; intros [|b l2] H1 H2 H.
  - reflexivity.
  - exfalso. apply (proj2 (H b)). left. reflexivity.
  - exfalso. apply (proj1 (H a)). left. reflexivity.
  - inversion H1 as [|? ? S1 F1]; inversion H2 as [|? ? S2 F2]; subst.
    rewrite Forall_forall in F1, F2.
    assert (a = b).
    { destruct (proj1 (H a) (or_introl eq_refl)) as [->|Ha]; [reflexivity|].
      destruct (proj2 (H b) (or_introl eq_refl)) as [->|Hb]; [reflexivity|].
      specialize (F1 _ Hb). specialize (F2 _ Ha). lia. }
    subst b. f_equal. apply IH; try assumption. intro c. split; intro Hc.
    + destruct (proj1 (H c) (or_intror Hc)) as [->|Hc']; [specialize (F1 _ Hc); lia|exact Hc'].
    + destruct (proj2 (H c) (or_intror Hc)) as [->|Hc']; [specialize (F2 _ Hc); lia|exact Hc'].
Qed.

Lemma row_ext_cols (r1 : row) : forall r2 : row, map fst r1 = map fst r2 -> NoDup (map fst r1) ->
  (forall c, rget r1 c = rget r2 c) -> r1 = r2.
Proof.
  induction r1 as [|[c1 v1] r1 IH]; intros [|[c2 v2] r2] Hc Hnd H; try discriminate; [reflexivity|].
  simpl in Hc. injection Hc as -> Hc. simpl in Hnd. inversion Hnd as [|? ? Hn1 Hnd1]; subst.
  assert (Hn2 : ~ In c2 (map fst r2)) by (rewrite <- Hc; exact Hn1).
  pose proof (H c2) as Hv. rewrite !(rget_cons Srt) in Hv. cbn [fst snd] in Hv. rewrite Nat.eqb_refl in Hv.
  rewrite (rget_notin Srt r1 c2 Hn1), (rget_notin Srt r2 c2 Hn2) in Hv.
  assert (v1 = v2) by (transitivity (v1 + s0); [ring|rewrite Hv; ring]). subst v2. f_equal.
  apply IH; [exact Hc|exact Hnd1|]. intro c. pose proof (H c) as Hcc. rewrite !(rget_cons Srt) in Hcc. cbn [fst snd] in Hcc.
  destruct (Nat.eqb_spec c2 c) as [E|Hne].
  - rewrite <- E. rewrite (rget_notin Srt r1 c2 Hn1), (rget_notin Srt r2 c2 Hn2). reflexivity.
  - transitivity (s0 + rget r1 c); [ring|]. rewrite Hcc. ring.
Qed.

Lemma row_ext (r1 r2 : row) : sorted_strict r1 = true -> sorted_strict r2 = true ->
  (forall c, In c (map fst r1) <-> In c (map fst r2)) -> (forall c, rget r1 c = rget r2 c) -> r1 = r2.
Proof.
  intros H1 H2 Hc Hv. apply row_ext_cols; [|apply sorted_strict_NoDup; exact H1|exact Hv].
  apply sorted_cols_unique; [| |exact Hc]; apply scols_StronglySorted; rewrite <- sorted_strict_scols; assumption.
Qed.

(* --- spgemm_rmerge and the sorted spgemm_saad build the SAME matrix when the rows of B are sorted *)
Theorem rmerge_row_eq_saad (ra : row) (B : crs) : forallb sorted_strict (rows B) = true ->
  prod_row ra B = sort_row (spgemm_row ra B).
Proof.
  intro HB. apply row_ext.
  - apply prod_row_sorted_strict. exact HB.
  - apply (out_row_sorted (spgemm_row ra B)). apply spgemm_row_nodup.
  - intro c. rewrite In_prod_row, In_sort_row, In_spgemm_row_iff. tauto.
  - intro c. rewrite (rget_prod_row Srt), (rget_sort_row Srt), (rget_spgemm_row Srt). reflexivity.
Qed.

Theorem rmerge_eq_saad_sorted (A B : crs) : forallb sorted_strict (rows B) = true ->
  spgemm_rmerge A B = spgemm_saad A B true.
Proof.
  intro HB. unfold spgemm_rmerge, spgemm_saad. f_equal. apply map_ext. intro ra. apply rmerge_row_eq_saad. exact HB.
Qed.

(* backend::product(A, B, sort = true): the thread count does not matter when the rows of B are sorted *)
Theorem product_sorted_threads (nt nt' : nat) (A B : crs) : forallb sorted_strict (rows B) = true ->
  product nt A B true = product nt' A B true.
Proof.
  intro HB. unfold product. destruct (Nat.ltb 16 nt), (Nat.ltb 16 nt'); rewrite ?(rmerge_eq_saad_sorted A B HB); reflexivity.
Qed.

End ProductAnyThreads.

(* ---------------------------------------------------------------- smoothed_aggr_emin for any thread count *)
Section EminAnyThreads.
Variable S : Scalar.
Hypothesis Sft : Sfield S.
Let Srt : Sring S := F_R Sft.
Local Notation row := (row S).
Local Notation vec := (vec S).
Local Notation crs := (crs S).

Lemma emin_frow_cols_sub i (D : S) (r : row) : forall (fl : list bool) x,
  In x (map fst (emin_frow S i D (combine r fl))) -> In x (map fst r).
Proof.
  induction r as [|[c v] r IH]; intros [|b fl] x H; simpl in H; try contradiction.
  unfold emin_frow in H. simpl in H. rewrite map_app, in_app_iff in H. destruct H as [H|H].
  - left. destruct (Nat.eqb_spec c i) as [->|Hne]; [destruct H as [<-|[]]; reflexivity|].
    destruct b; [destruct H as [<-|[]]; reflexivity|destruct H].
  - right. exact (IH fl x H).
Qed.

Lemma emin_frow_sorted i (D : S) (r : row) : forall (fl : list bool),
  StronglySorted lt (map fst r) -> StronglySorted lt (map fst (emin_frow S i D (combine r fl))).
Proof.
  induction r as [|[c v] r IH]; intros [|b fl] H; try (simpl; constructor).
  simpl in H. inversion H as [|? ? Hs Hf]; subst.
  assert (Ht : StronglySorted lt (map fst (emin_frow S i D (combine r fl)))) by (apply IH; exact Hs).
  assert (Hlt : Forall (lt c) (map fst (emin_frow S i D (combine r fl)))).
  { apply Forall_forall. intros x Hx. rewrite Forall_forall in Hf. apply Hf. exact (emin_frow_cols_sub i D r fl x Hx). }
  unfold emin_frow. simpl. rewrite map_app. fold (emin_frow S i D (combine r fl)).
  destruct (Nat.eqb_spec c i) as [->|Hne]; [simpl; constructor; assumption|].
  destruct b; simpl; [constructor; assumption|exact Ht].
Qed.

Lemma emin_filter_rows_sorted (A : crs) (st : flags) :
  forallb sorted_strict (rows A) = true -> forallb sorted_strict (rows (fst (emin_filter A st))) = true.
Proof.
  intro HA. apply forallb_forall. intros r Hr. unfold emin_filter in Hr. cbn [fst rows] in Hr.
  rewrite map_map in Hr. apply in_map_iff in Hr as ([i ra] & <- & Hin). cbn [fst snd].
  apply in_combine_r in Hin. rewrite forallb_forall in HA. specialize (HA ra Hin).
  rewrite sorted_strict_scols. apply StronglySorted_scols.
  apply (emin_frow_sorted i (sa_dia i (zip_row ra (nth i st []))) ra (nth i st [])).
  apply scols_StronglySorted. rewrite <- sorted_strict_scols. exact HA.
Qed.

Theorem emin_interpolation_threads nt nt' (Af : crs) (dia : vec) (Pt : crs) :
  forallb sorted_strict (rows Pt) = true ->
  emin_interpolation nt Af dia Pt = emin_interpolation nt' Af dia Pt.
Proof. intro H. unfold emin_interpolation. rewrite (product_sorted_threads S Srt nt nt' Af Pt H). reflexivity. Qed.

Theorem emin_restriction_threads nt nt' (Af : crs) (dia : vec) (Pt : crs) (w : vec) :
  forallb sorted_strict (rows Af) = true ->
  emin_restriction nt Af dia Pt w = emin_restriction nt' Af dia Pt w.
Proof. intro H. unfold emin_restriction. rewrite (product_sorted_threads S Srt nt nt' _ Af H). reflexivity. Qed.

(* transfer_operators(): with sorted rows of A the result does not depend on the thread count
   (<= 16 threads: spgemm_saad + sort, > 16 threads: spgemm_rmerge) *)
Theorem emin_transfer_threads nt nt' (eps2 : S) bs (A : crs) junk :
  forallb sorted_strict (rows A) = true ->
  emin_transfer nt eps2 bs A junk = emin_transfer nt' eps2 bs A junk.
Proof.
  intro HA. unfold emin_transfer. destruct (pointwise_aggregates eps2 bs 0 A junk) as [| |count id st]; try reflexivity.
  cbv zeta. rewrite (emin_interpolation_threads nt nt') by apply tentative_rows_sorted.
  rewrite (emin_restriction_threads nt nt') by (apply emin_filter_rows_sorted; exact HA). reflexivity.
Qed.

(* ---------------------------------------------------------------- the full statement of section 3b, any thread count *)
Hypothesis Hadj : forall x : S, sadj x = x.

Theorem emin_full_statement nt (A : crs) (st : flags) (Pt : crs) :
  (16 < nt -> forallb sorted_strict (rows A) = true) ->
  wf A = true -> ncols A = nrows A -> emin_regular A st = true ->
  nrows Pt = nrows A -> forallb sorted_strict (rows Pt) = true ->
  let fd := emin_filter A st in
  let po := emin_interpolation nt (fst fd) (snd fd) Pt in
  let P := fst po in
  let R := emin_restriction nt (fst fd) (snd fd) Pt (snd po) in
  length (snd po) = ncols Pt /\
  (forall j, j < ncols Pt ->
     vget (snd po) j = emin_num S A st Pt j / emin_den S A st Pt j /\
     (emin_den S A st Pt j = s0 -> vget (snd po) j = sinv s0 * emin_num S A st Pt j)) /\
  (forall i j, i < nrows A -> j < ncols Pt ->
     mget P i j = emin_P_spec A st Pt i j /\ mget R j i = emin_R_spec A st Pt j i).
Proof.
  intros Hs HwfA Hsq Hreg HnP HsP fd po P R.
  assert (G : forall nt0, nt0 <= 16 ->
    let po := emin_interpolation nt0 (fst fd) (snd fd) Pt in
    length (snd po) = ncols Pt /\
    (forall j, j < ncols Pt ->
       vget (snd po) j = emin_num S A st Pt j / emin_den S A st Pt j /\
       (emin_den S A st Pt j = s0 -> vget (snd po) j = sinv s0 * emin_num S A st Pt j)) /\
    (forall i j, i < nrows A -> j < ncols Pt ->
       mget (fst po) i j = emin_P_spec A st Pt i j /\
       mget (emin_restriction nt0 (fst fd) (snd fd) Pt (snd po)) j i = emin_R_spec A st Pt j i)).
  { intros nt0 Hnt po0. split; [|split].
    - exact (emin_omega_length S nt0 A st Pt).
    - intros j Hj. split.
      + exact (emin_omega_formula S Sft nt0 A st Pt Hnt HwfA Hsq Hreg HnP HsP j Hj).
      + exact (emin_omega_zero_den S Sft nt0 A st Pt Hnt HwfA Hsq Hreg HnP HsP j Hj).
    - intros i j Hi Hj. exact (emin_formulas_hold S Sft Hadj nt0 A st Pt Hnt HwfA Hsq Hreg HnP HsP i j Hi Hj). }
  destruct (le_lt_dec nt 16) as [Hnt|Hnt]; [exact (G nt Hnt)|].
  unfold R, P, po.
  rewrite (emin_restriction_threads nt 1) by (apply emin_filter_rows_sorted; exact (Hs Hnt)).
  rewrite (emin_interpolation_threads nt 1) by exact HsP.
  exact (G 1 ltac:(lia)).
Qed.

(* the layers in the shape quoted by Properties_C04.v *)
Theorem emin_omega_quotient nt (A : crs) (st : flags) (Pt : crs) :
  (16 < nt -> forallb sorted_strict (rows A) = true) ->
  wf A = true -> ncols A = nrows A -> emin_regular A st = true ->
  nrows Pt = nrows A -> forallb sorted_strict (rows Pt) = true ->
  let fd := emin_filter A st in
  let omega := snd (emin_interpolation nt (fst fd) (snd fd) Pt) in
  length omega = ncols Pt /\
  forall j, j < ncols Pt ->
    vget omega j = emin_num S A st Pt j / emin_den S A st Pt j /\
    (emin_den S A st Pt j = s0 -> vget omega j = sinv s0 * emin_num S A st Pt j).
Proof.
  intros Hs HwfA Hsq Hreg HnP HsP fd omega.
  exact (conj (proj1 (emin_full_statement nt A st Pt Hs HwfA Hsq Hreg HnP HsP))
              (proj1 (proj2 (emin_full_statement nt A st Pt Hs HwfA Hsq Hreg HnP HsP)))).
Qed.

Theorem emin_R_given_any_omega nt (A : crs) (st : flags) (Pt : crs) :
  nt <= 16 -> wf A = true -> ncols A = nrows A -> emin_regular A st = true ->
  nrows Pt = nrows A -> forallb sorted_strict (rows Pt) = true ->
  let fd := emin_filter A st in
  forall (w : vec) j i, j < ncols Pt -> i < nrows A ->
    mget (emin_restriction nt (fst fd) (snd fd) Pt w) j i
    = mget Pt i j - vget w j * emin_RA A st Pt j i * sinv (sa_D A st i).
Proof.
  intros Hnt HwfA Hsq Hreg HnP HsP fd w j i Hj Hi.
  exact (emin_R_given_omega S Sft nt A st Pt Hnt HwfA Hsq Hreg HnP HsP Hadj w j i Hj Hi).
Qed.

(* transfer_operators() of the policy *)
Theorem emin_transfer_full nt (eps2 : S) bs (A : crs) junk P R :
  emin_transfer nt eps2 bs A junk = TrOk P R ->
  exists count id st,
    pointwise_aggregates eps2 bs 0 A junk = AggOk count id st /\
    ((16 < nt -> forallb sorted_strict (rows A) = true) ->
     wf A = true -> ncols A = nrows A -> emin_regular A st = true -> length id = nrows A ->
     let Pt := tentative_prolongation count id in
     forall i j, i < nrows A -> j < count ->
       mget P i j = emin_P_spec A st Pt i j /\ mget R j i = emin_R_spec A st Pt j i).
Proof.
  unfold emin_transfer. destruct (pointwise_aggregates eps2 bs 0 A junk) as [| |count id st] eqn:E; try discriminate.
  intro H. exists count, id, st. split; [reflexivity|].
  intros Hs HwfA Hsq Hreg HL i j Hi Hj. set (Pt := tentative_prolongation (S:=S) count id) in *.
  pose proof (proj2 (proj2 (emin_full_statement nt A st Pt Hs HwfA Hsq Hreg
           ltac:(unfold Pt; rewrite tentative_nrows; exact HL) ltac:(apply tentative_rows_sorted))) i j Hi
           ltac:(unfold Pt, tentative_prolongation; cbn [ncols]; exact Hj)) as G.
  injection H as HP HR. rewrite <- HP, <- HR. exact G.
Qed.

End EminAnyThreads.

(* ---------------------------------------------------------------- closed at the exact rationals *)
Theorem emin_zero_den_Qc_threads nt (A : crs QcS) (st : flags) (Pt : crs QcS) :
  (16 < nt -> forallb sorted_strict (rows A) = true) ->
  wf A = true -> ncols A = nrows A -> emin_regular A st = true ->
  nrows Pt = nrows A -> forallb sorted_strict (rows Pt) = true ->
  forall j, j < ncols Pt -> emin_den QcS A st Pt j = s0 ->
  let fd := emin_filter A st in
  let po := emin_interpolation nt (fst fd) (snd fd) Pt in
  let R := emin_restriction nt (fst fd) (snd fd) Pt (snd po) in
  (forall i, i < nrows A -> emin_ADAP A st Pt i j = s0) /\
  emin_num QcS A st Pt j = s0 /\ vget (snd po) j = s0 /\
  forall i, i < nrows A -> mget (fst po) i j = mget Pt i j /\ mget R j i = mget Pt i j.
Proof.
  intros Hs HwfA Hsq Hreg HnP HsP j Hj H0 fd po R.
  split; [exact (proj1 (emin_den_zero_iff_Qc A st Pt j) H0)|].
  destruct (le_lt_dec nt 16) as [Hnt|Hnt].
  - exact (emin_zero_den_Qc nt A st Pt Hnt HwfA Hsq Hreg HnP HsP j Hj H0).
  - unfold R, po.
    rewrite (emin_restriction_threads QcS QcS_field nt 1) by (apply emin_filter_rows_sorted; exact (Hs Hnt)).
    rewrite (emin_interpolation_threads QcS QcS_field nt 1) by exact HsP.
    exact (emin_zero_den_Qc 1 A st Pt ltac:(lia) HwfA Hsq Hreg HnP HsP j Hj H0).
Qed.

(* 1-D Poisson on 5 points: two aggregates {0,1} and {2,3,4}; the code accumulates
   omega[] = (3, 4), denum[] = (15/4, 27/4), hence Omega = (4/5, 16/27); all guards hold, P <> P_t,
   the formulas hold, and the > 16 threads build (spgemm_rmerge) returns the same P and R *)
Definition pois5 : crs QcS :=
  mkCrs 5 [[(0, qc 2 1); (1, qc (-1) 1)];
           [(0, qc (-1) 1); (1, qc 2 1); (2, qc (-1) 1)];
           [(1, qc (-1) 1); (2, qc 2 1); (3, qc (-1) 1)];
           [(2, qc (-1) 1); (3, qc 2 1); (4, qc (-1) 1)];
           [(3, qc (-1) 1); (4, qc 2 1)]]%nat.

Definition vec_eqb (a b : vec QcS) : bool := Nat.eqb (length a) (length b) && forallb2 seqb a b.

Definition emin_pois5_check : bool :=
  match plain_aggregates (qc 1 16) pois5 (repeat (qc 0 1) 5) with
  | AggOk count id st =>
      let Pt := tentative_prolongation (S:=QcS) count id in
      let fd := emin_filter pois5 st in
      let po := emin_interpolation 1 (fst fd) (snd fd) Pt in
      let R := emin_restriction 1 (fst fd) (snd fd) Pt (snd po) in
      let po17 := emin_interpolation 17 (fst fd) (snd fd) Pt in
      wf pois5 && Nat.eqb (ncols pois5) (nrows pois5) && emin_regular pois5 st && forallb sorted_strict (rows pois5)
      && Nat.eqb count 2
      && vec_eqb (map (emin_num QcS pois5 st Pt) [0; 1]%nat) [qc 3 1; qc 4 1]
      && vec_eqb (map (emin_den QcS pois5 st Pt) [0; 1]%nat) [qc 15 4; qc 27 4]
      && vec_eqb (snd po) [qc 4 5; qc 16 27]
      && emin_formula_ok pois5 st Pt (fst po) R
      && negb (crs_eqb (fst po) Pt)
      && crs_eqb (fst po17) (fst po) && vec_eqb (snd po17) (snd po)
      && crs_eqb (emin_restriction 17 (fst fd) (snd fd) Pt (snd po17)) R
  | _ => false
  end.
Lemma emin_pois5_check_true : emin_pois5_check = true.
Proof. vm_compute. reflexivity. Qed.

(* zero denominator: 1-D Neumann Laplacian on 3 points, one aggregate: A_F P_t = 0, omega[0] = denum[0] = 0,
   the exact build returns Omega_0 = inverse(0) * 0 = 0 and P = P_t *)
Definition emin_lap3_zero_den_check : bool :=
  match plain_aggregates (qc 1 16) lap3 (repeat (qc 0 1) 3) with
  | AggOk count id st =>
      let Pt := tentative_prolongation (S:=QcS) count id in
      let fd := emin_filter lap3 st in
      let po := emin_interpolation 1 (fst fd) (snd fd) Pt in
      wf lap3 && emin_regular lap3 st && Nat.eqb count 1
      && is_zero (emin_den QcS lap3 st Pt 0) && is_zero (emin_num QcS lap3 st Pt 0)
      && vec_eqb (snd po) [qc 0 1] && crs_eqb (fst po) Pt
  | _ => false
  end.
Lemma emin_lap3_zero_den_check_true : emin_lap3_zero_den_check = true.
Proof. vm_compute. reflexivity. Qed.
