(* LowLevel2GProofs.v -- C10-A2, second layer: the array-level spgemm_saad (LowLevel2G.v) on
   well-formed operands stays inside every array, reads no unwritten cell (C.ptr after
   set_size, C.col / C.val after set_nonzeros are unwritten) and leaves exactly the flat arrays
   of MatOps.spgemm_saad.  No algebraic law is used (any Scalar record). *)
From Coq Require Import ZArith Lia.
From Amgcl Require Import Scalar Vec Crs Kernels MatOps MatOpsProofs LowLevel LowLevelProofs LowLevelT LowLevelTProofs
                          LowLevel2 LowLevel2Proofs LowLevel2G.
Local Open Scope nat_scope.

(* ------------------------------------------------------------------ generic *)
Lemma mfor_list {X St} (d : X) (h : X -> St -> mres St) body : forall (L : list X) lo st,
  (forall k s, k < length L -> body (lo + k) s = h (nth k L d) s) ->
  mfor lo (length L) body st = mfoldl h L st.
Proof.
  induction L as [|x L IH]; intros lo st Hb; [reflexivity|].
  cbn [length mfoldl]. rewrite mfor_step.
  pose proof (Hb 0 st ltac:(simpl; lia)) as H0. rewrite Nat.add_0_r in H0. rewrite H0. cbn [nth].
  destruct (h x st) as [s'| | |]; cbn [mbind]; try reflexivity.
  apply IH. intros k s Hk. replace (Datatypes.S lo + k) with (lo + Datatypes.S k) by lia.
  rewrite Hb by (simpl; lia). reflexivity.
Qed.

Lemma mfoldl_ext {X St} (g h : X -> St -> mres St) (L : list X) st :
  (forall x s, In x L -> g x s = h x s) -> mfoldl g L st = mfoldl h L st.
Proof.
  revert st; induction L as [|x L IH]; intros st H; [reflexivity|]. cbn [mfoldl].
  rewrite H by (left; reflexivity). destruct (h x st); cbn [mbind]; try reflexivity.
  apply IH. intros y s Hy. apply H. right. exact Hy.
Qed.

Lemma mwr_filled {X} (l : list X) i v : i < length l -> mwr (filled l) i v = Done (filled (upd l i v)).
Proof.
  revert i; induction l as [|a l IH]; intros i H; simpl in *; [lia|].
  destruct i as [|k]; [reflexivity|]. rewrite IH by lia. reflexivity.
Qed.

Lemma filled_mid {X} (p l1 : list X) x l2 (rest : marr X) :
  filled (p ++ l1 ++ x :: l2) ++ rest = filled (p ++ l1) ++ Some x :: (filled l2 ++ rest).
Proof. rewrite !filled_app. cbn [filled map]. rewrite <- !app_assoc. reflexivity. Qed.

(* ------------------------------------------------------------------ std::partial_sum *)
Lemma ll_psum_loop : forall (rest pre : list nat) acc,
  mfor (length pre) (length rest)
       (fun i (st : nat * marr nat) =>
          x <-- mrd (snd st) i ;;
          a' <-- mwr (snd st) i (fst st + x) ;; Done (fst st + x, a'))
       (acc, filled (pre ++ rest))
  = Done (fold_left Nat.add rest acc, filled (pre ++ psum_from acc rest)).
Proof.
  induction rest as [|x rest IH]; intros pre acc; [reflexivity|].
  cbn [length]. rewrite mfor_step. cbn [fst snd].
  rewrite filled_app. cbn [filled map]. fold (filled pre) (filled rest).
  rewrite (mrd_app_len (filled pre) x (filled rest) (length pre) (filled_length pre)). cbn [mbind].
  rewrite (mwr_app_len (filled pre) (Some x) (filled rest) (acc + x) (length pre) (filled_length pre)). cbn [mbind].
  replace (filled pre ++ Some (acc + x) :: filled rest) with (filled ((pre ++ [acc + x]) ++ rest))
    by (rewrite !filled_app, <- app_assoc; reflexivity).
  replace (Datatypes.S (length pre)) with (length (pre ++ [acc + x]))
    by (rewrite app_length; simpl; lia).
  rewrite IH. cbn [fold_left psum_from]. rewrite <- app_assoc. reflexivity.
Qed.

Theorem ll_psum_ok (l : list nat) : ll_psum (length l) (filled l) = Done (filled (psum l)).
Proof.
  destruct l as [|a l]; [reflexivity|]. cbn [length ll_psum].
  change (filled (a :: l)) with (@nil (option nat) ++ Some a :: filled l).
  rewrite (mrd_app_len [] a (filled l) 0 eq_refl). cbn [mbind].
  rewrite (mwr_app_len [] (Some a) (filled l) a 0 eq_refl). cbn [mbind app].
  pose proof (ll_psum_loop l [a] a) as H. cbn [length app] in H.
  change (Some a :: filled l) with (filled (a :: l)). rewrite H. cbn [mbind snd].
  unfold psum. cbn [psum_from Nat.add]. reflexivity.
Qed.

Section Proofs.
Context {S : Scalar}.
Local Notation row := (list (nat * S)).
Local Notation crs := (crs S).

(* ------------------------------------------------------------------ loops over a row of flat_of A *)
Lemma flat_reads (done : list row) (r : row) (todo : list row) m k d :
  k < length r ->
  let F := flat_of (mkCrs m (done ++ r :: todo)) in
  ird (fcol F) (length (concat done) + k) = Done (fst (nth k r d)) /\
  ird (fval F) (length (concat done) + k) = Done (snd (nth k r d)).
Proof.
  intros Hk F. unfold F, flat_of. cbn [fcol fval rows].
  rewrite concat_app. cbn [concat]. rewrite !map_app.
  destruct (nth_split r d Hk) as (r1 & r2 & Hr & Hl).
  rewrite Hr at 1 3. rewrite !map_app. cbn [map]. rewrite <- !app_assoc.
  split.
  - rewrite app_assoc. cbn [app].
    replace (length (concat done) + k) with (length (map fst (concat done) ++ map fst r1))
      by (rewrite app_length, !map_length; lia).
    apply ird_app.
  - rewrite app_assoc. cbn [app].
    replace (length (concat done) + k) with (length (map snd (concat done) ++ map snd r1))
      by (rewrite app_length, !map_length; lia).
    apply ird_app.
Qed.

Lemma row_loop_flat {St} (A : crs) i (h : nat * S -> St -> mres St) (body : nat -> St -> mres St) st :
  i < nrows A ->
  (forall j s c v, ird (fcol (flat_of A)) j = Done c -> ird (fval (flat_of A)) j = Done v -> body j s = h (c, v) s) ->
  row_loop (fptr (flat_of A)) i body st = mfoldl h (nth i (rows A) []) st.
Proof.
  intros Hi Hb. destruct A as [m rs]. unfold nrows in Hi. cbn [rows] in *.
  destruct (nth_split rs [] Hi) as (done & todo & Hrs & Hl).
  set (r := nth i rs []) in *. clearbody r. subst rs i.
  unfold row_loop.
  assert (Hlen : length (fptr (flat_of (mkCrs m (done ++ r :: todo)))) = Datatypes.S (length (done ++ r :: todo)))
    by apply flat_ptr_length.
  rewrite app_length in Hlen. cbn [length] in Hlen.
  rewrite (ird_ok _ (length done) 0) by lia. cbn [mbind].
  rewrite (ird_ok _ (length done + 1) 0) by lia. cbn [mbind].
  assert (E1 : nth (length done) (fptr (flat_of (mkCrs m (done ++ r :: todo)))) 0 = length (concat done)).
  { unfold flat_of. cbn [fptr rows]. apply (@flat_ptr_nth (nat * S) done (r :: todo)). }
  assert (E2 : nth (length done + 1) (fptr (flat_of (mkCrs m (done ++ r :: todo)))) 0 = length (concat done) + length r).
  { unfold flat_of. cbn [fptr rows].
    replace (done ++ r :: todo) with ((done ++ [r]) ++ todo) by (rewrite <- app_assoc; reflexivity).
    replace (length done + 1) with (length (done ++ [r])) by (rewrite app_length; reflexivity).
    etransitivity; [apply (@flat_ptr_nth (nat * S) (done ++ [r]) todo)|].
    rewrite concat_app, app_length. cbn [concat]. rewrite app_nil_r. reflexivity. }
  rewrite E1, E2.
  replace (length (concat done) + length r - length (concat done)) with (length r) by lia.
  apply (mfor_list (0, s0)). intros k s Hk.
  destruct (flat_reads done r todo m k (0, s0) Hk) as [Hc Hv].
  rewrite (Hb _ s _ _ Hc Hv). rewrite <- surjective_pairing. reflexivity.
Qed.

(* ------------------------------------------------------------------ row_add facts *)
Lemma row_add_notin (r : row) c v : ~ In c (map fst r) -> row_add r c v = r ++ [(c, v)].
Proof.
  induction r as [|[c' v'] r IH]; simpl; intro H; [reflexivity|].
  destruct (Nat.eqb_spec c' c) as [->|Hne]; [exfalso; apply H; left; reflexivity|].
  rewrite IH; [reflexivity|]. intro Hin. apply H. right. exact Hin.
Qed.
Lemma row_add_in_fst (r : row) c v : In c (map fst r) -> map fst (row_add r c v) = map fst r.
Proof.
  induction r as [|[c' v'] r IH]; simpl; intro H; [contradiction|].
  destruct (Nat.eqb_spec c' c) as [->|Hne]; [reflexivity|]. simpl. f_equal. apply IH.
  destruct H as [H|H]; [contradiction|exact H].
Qed.
Lemma row_add_length_le (r : row) c v : length r <= length (row_add r c v).
Proof.
  induction r as [|[c' v'] r IH]; simpl; [lia|]. destruct (Nat.eqb c' c); simpl; lia.
Qed.
Lemma row_add_at (r1 r2 : row) c v0 v : ~ In c (map fst r1) ->
  row_add (r1 ++ (c, v0) :: r2) c v = r1 ++ (c, (v0 + v)%S) :: r2.
Proof.
  induction r1 as [|[c' v'] r1 IH]; simpl; intro H.
  - rewrite Nat.eqb_refl. reflexivity.
  - destruct (Nat.eqb_spec c' c) as [->|Hne]; [exfalso; apply H; left; reflexivity|].
    rewrite IH; [reflexivity|]. intro Hin. apply H. right. exact Hin.
Qed.

Lemma in_fst_nth (r : row) c : In c (map fst r) -> exists j, j < length r /\ fst (nth j r (0, s0)) = c.
Proof.
  intro Hin. apply In_nth with (d := 0) in Hin as (j & Hj & Hnth). rewrite map_length in Hj.
  exists j. split; [exact Hj|]. rewrite <- Hnth. change 0 with (fst (0, @s0 S)). rewrite map_nth. reflexivity.
Qed.

(* the entries (column, product) a row of A generates, in the order of the two loops *)
Definition prods (ea : nat * S) (B : crs) : row :=
  map (fun eb => (fst eb, (snd ea * snd eb)%S)) (nth (fst ea) (rows B) []).
Definition radd (acc : row) (e : nat * S) : row := row_add acc (fst e) (snd e).
Lemma spgemm_fold_prods (B : crs) : forall (ra acc : row),
  fold_left (fun acc ea => fold_left (fun acc eb => row_add acc (fst eb) (snd ea * snd eb)%S)
                                     (nth (fst ea) (rows B) []) acc) ra acc
  = fold_left radd (flat_map (fun ea => prods ea B) ra) acc.
Proof.
  induction ra as [|ea ra IH]; intro acc; [reflexivity|].
  cbn [fold_left flat_map]. rewrite fold_left_app, IH. f_equal.
  unfold prods. generalize (nth (fst ea) (rows B) []) as rb. intro rb. revert acc.
  induction rb as [|eb rb IHb]; intro acc; [reflexivity|]. cbn [fold_left map]. rewrite IHb. reflexivity.
Qed.
Lemma spgemm_row_prods (ra : row) (B : crs) :
  spgemm_row ra B = fold_left radd (flat_map (fun ea => prods ea B) ra) [].
Proof. apply spgemm_fold_prods. Qed.
Lemma fold_radd_length_le (l acc : row) : length acc <= length (fold_left radd l acc).
Proof.
  revert acc; induction l as [|e l IH]; intro acc; simpl; [lia|].
  etransitivity; [apply (row_add_length_le acc (fst e) (snd e))|apply IH].
Qed.

Lemma mfoldl_map {X Y St} (f : X -> Y) (g : Y -> St -> mres St) (l : list X) st :
  mfoldl g (map f l) st = mfoldl (fun x => g (f x)) l st.
Proof. revert st; induction l as [|x l IH]; intro st; [reflexivity|]. cbn [map mfoldl]. destruct (g (f x) st); cbn [mbind]; auto. Qed.
Lemma mfoldl_app {X St} (g : X -> St -> mres St) (l1 l2 : list X) st :
  mfoldl g (l1 ++ l2) st = mbind (mfoldl g l1 st) (mfoldl g l2).
Proof. revert st; induction l1 as [|x l IH]; intro st; [reflexivity|]. cbn [app mfoldl]. destruct (g x st); cbn [mbind]; auto. Qed.
Lemma mfoldl_flat_map {X Y St} (F : X -> list Y) (g : Y -> St -> mres St) (l : list X) st :
  mfoldl g (flat_map F l) st = mfoldl (fun x st => mfoldl g (F x) st) l st.
Proof.
  revert st; induction l as [|x l IH]; intro st; [reflexivity|]. cbn [flat_map mfoldl].
  rewrite mfoldl_app. destruct (mfoldl g (F x) st); cbn [mbind]; auto.
Qed.

(* ------------------------------------------------------------------ pass 1: counting *)
Definition cnt_step (ia : nat) (e : nat * S) (st : marr Z * nat) : mres (marr Z * nat) :=
  mk <-- mrd (fst st) (fst e) ;;
  if Z.eqb mk (Z.of_nat ia) then Done st
  else marker' <-- mwr (fst st) (fst e) (Z.of_nat ia) ;; Done (marker', Datatypes.S (snd st)).

Section TwoMatrices.
Variables A B : crs.
Hypothesis HA : wf A = true.
Hypothesis HB : wf B = true.
Hypothesis HAB : ncols A <= nrows B.
Let mB := ncols B.

Lemma A_entry_lt i ea : In ea (nth i (rows A) []) -> fst ea < nrows B.
Proof.
  intro Hin. pose proof (row_wf_nth (ncols A) (rows A) i HA) as Hr.
  apply row_wf_iff in Hr. rewrite Forall_forall in Hr. specialize (Hr ea Hin). lia.
Qed.
Lemma prods_lt ea e : In e (prods ea B) -> fst e < mB.
Proof.
  unfold prods. intro Hin. apply in_map_iff in Hin as (eb & <- & Hin). cbn [fst].
  pose proof (row_wf_nth (ncols B) (rows B) (fst ea) HB) as Hr.
  apply row_wf_iff in Hr. rewrite Forall_forall in Hr. exact (Hr eb Hin).
Qed.
Definition entries (ia : nat) : row := flat_map (fun ea => prods ea B) (nth ia (rows A) []).
Lemma entries_lt ia e : In e (entries ia) -> fst e < mB.
Proof. unfold entries. intro H. apply in_flat_map in H as (ea & _ & H). exact (prods_lt ea e H). Qed.
Lemma crow_entries ia : spgemm_row (nth ia (rows A) []) B = fold_left radd (entries ia) [].
Proof. apply spgemm_row_prods. Qed.

Lemma cnt_row_list ia marker : ia < nrows A ->
  cnt_row (flat_of A) (flat_of B) ia marker = mfoldl (cnt_step ia) (entries ia) (marker, 0).
Proof.
  intro Hia. unfold cnt_row, entries. rewrite mfoldl_flat_map.
  rewrite (row_loop_flat A ia (fun ea st => mfoldl (cnt_step ia) (prods ea B) st)); [reflexivity|exact Hia|].
  intros j s c v Hc Hv. rewrite Hc. cbn [mbind].
  unfold prods. cbn [fst snd]. rewrite mfoldl_map.
  (* the row of B: valid only for c < nrows B; outside both sides are compared on wf A through mfoldl_ext later *)
  destruct (Nat.lt_ge_cases c (nrows B)) as [Hlt|Hge].
  - rewrite (row_loop_flat B c (fun eb st => cnt_step ia (fst eb, (v * snd eb)%S) st)); [reflexivity|exact Hlt|].
    intros j' s' c' v' Hc' Hv'. unfold cnt_inner, cnt_step. rewrite Hc'. reflexivity.
  - (* cannot happen: c is a column of A *)
    exfalso. unfold ird in Hc. destruct (nth_error (fcol (flat_of A)) j) as [c0|] eqn:E; [|discriminate].
    injection Hc as ->. apply nth_error_In in E. unfold flat_of in E. cbn [fcol] in E.
    apply in_map_iff in E as ([c' v'] & Hf & Hin). cbn [fst] in Hf. subst c'.
    apply in_concat in Hin as (r & Hr & Hin).
    unfold wf in HA. rewrite forallb_forall in HA. specialize (HA r Hr).
    apply row_wf_iff in HA. rewrite Forall_forall in HA. specialize (HA _ Hin). cbn [fst] in HA. lia.
Qed.

Definition P1 (ia : nat) (mk : list Z) (r : row) : Prop :=
  length mk = mB /\
  forall c, c < mB -> (nth c mk (-1)%Z = Z.of_nat ia <-> In c (map fst r)) /\ (nth c mk (-1) <= Z.of_nat ia)%Z.

Lemma cnt_fold ia : forall (E : row) mk r,
  (forall e, In e E -> fst e < mB) -> P1 ia mk r ->
  exists mk', mfoldl (cnt_step ia) E (filled mk, length r) = Done (filled mk', length (fold_left radd E r)) /\
              P1 ia mk' (fold_left radd E r).
Proof.
  induction E as [|e E IH]; intros mk r HE HP.
  - exists mk. split; [reflexivity|exact HP].
  - assert (He : fst e < mB) by (apply HE; left; reflexivity).
    destruct HP as [Hl Hc]. destruct (Hc _ He) as [Hiff Hle].
    cbn [mfoldl fold_left]. unfold cnt_step at 1. cbn [fst snd].
    rewrite (mrd_filled mk (fst e) (-1)%Z) by lia. cbn [mbind].
    destruct (Z.eqb_spec (nth (fst e) mk (-1)%Z) (Z.of_nat ia)) as [Heq|Hne].
    + (* column already counted in this row *)
      assert (Hin : In (fst e) (map fst r)) by (apply Hiff; exact Heq).
      assert (Hf : map fst (radd r e) = map fst r) by (apply row_add_in_fst; exact Hin).
      assert (Hlen : length (radd r e) = length r) by (rewrite <- (map_length fst), Hf, map_length; reflexivity).
      rewrite <- Hlen. apply IH; [intros x Hx; apply HE; right; exact Hx|].
      split; [exact Hl|]. intros c Hcm. rewrite Hf. apply Hc. exact Hcm.
    + assert (Hnin : ~ In (fst e) (map fst r)) by (intro H; apply Hne, Hiff, H).
      rewrite mwr_filled by lia. cbn [mbind].
      assert (Hr : radd r e = r ++ [e]).
      { unfold radd. rewrite row_add_notin by exact Hnin. rewrite <- surjective_pairing. reflexivity. }
      replace (Datatypes.S (length r)) with (length (radd r e)) by (rewrite Hr, app_length; simpl; lia).
      apply IH; [intros x Hx; apply HE; right; exact Hx|].
      split; [rewrite upd_length; exact Hl|]. intros c Hcm.
      rewrite upd_nth by lia. rewrite Hr, map_app, in_app_iff. cbn [map In].
      destruct (Nat.eqb_spec c (fst e)) as [->|Hce].
      * split; [|lia]. split; [intros _; right; left; reflexivity|reflexivity].
      * destruct (Hc _ Hcm) as [Hiff' Hle']. split; [|exact Hle'].
        rewrite Hiff'. split; [intro H; left; exact H|intros [H|[H|[]]]; [exact H|congruence]].
Qed.

Lemma cnt_row_ok ia mk : ia < nrows A ->
  length mk = mB -> (forall c, c < mB -> (nth c mk (-1) < Z.of_nat ia)%Z) ->
  exists mk', cnt_row (flat_of A) (flat_of B) ia (filled mk)
              = Done (filled mk', length (spgemm_row (nth ia (rows A) []) B)) /\
              length mk' = mB /\ (forall c, c < mB -> (nth c mk' (-1) < Z.of_nat (Datatypes.S ia))%Z).
Proof.
  intros Hia Hl Hlt. rewrite cnt_row_list by exact Hia. rewrite crow_entries.
  destruct (cnt_fold ia (entries ia) mk [] (entries_lt ia)) as (mk' & Hrun & Hl' & Hc').
  { split; [exact Hl|]. intros c Hc. specialize (Hlt c Hc). split; [|lia].
    split; [lia|intros []]. }
  exists mk'. split; [exact Hrun|]. split; [exact Hl'|].
  intros c Hc. destruct (Hc' c Hc) as [_ Hle]. lia.
Qed.

Definition clens : list nat := map (fun ra => length (spgemm_row ra B)) (rows A).

Lemma pass1_loop : forall k ia mk,
  ia + k = nrows A -> length mk = mB -> (forall c, c < mB -> (nth c mk (-1) < Z.of_nat ia)%Z) ->
  exists mk',
    mfor ia k (fun ia st => r <-- cnt_row (flat_of A) (flat_of B) ia (fst st) ;;
                            ptr' <-- mwr (snd st) (ia + 1) (snd r) ;; Done (fst r, ptr'))
         (filled mk, filled (0 :: firstn ia clens) ++ fresh k)
    = Done (filled mk', filled (0 :: clens)).
Proof.
  induction k as [|k IH]; intros ia mk Hk Hl Hlt.
  - exists mk. rewrite mfor_zero. unfold fresh. cbn [repeat]. rewrite app_nil_r.
    rewrite firstn_all2; [reflexivity|]. unfold clens. rewrite map_length. unfold nrows in Hk. lia.
  - rewrite mfor_step. cbn [fst snd].
    destruct (cnt_row_ok ia mk ltac:(lia) Hl Hlt) as (mk1 & Hrun & Hl1 & Hlt1).
    rewrite Hrun. cbn [mbind fst snd].
    unfold fresh at 1. cbn [repeat]. fold (@fresh nat k).
    assert (Hfl : length (firstn ia clens) = ia).
    { rewrite firstn_length. unfold clens. rewrite map_length. unfold nrows in Hk. lia. }
    rewrite (mwr_app_len (filled (0 :: firstn ia clens)) None (fresh k) _ (ia + 1))
      by (rewrite filled_length; cbn [length]; lia).
    cbn [mbind].
    replace (filled (0 :: firstn ia clens) ++ Some (length (spgemm_row (nth ia (rows A) []) B)) :: fresh k)
      with (filled (0 :: firstn (Datatypes.S ia) clens) ++ fresh k).
    + apply IH; [lia|exact Hl1|exact Hlt1].
    + rewrite (firstn_S_nth clens ia 0) by (unfold clens; rewrite map_length; unfold nrows in Hk; lia).
      change (0 :: firstn ia clens ++ [nth ia clens 0]) with ((0 :: firstn ia clens) ++ [nth ia clens 0]).
      rewrite filled_app, <- app_assoc. cbn [filled map app]. f_equal. f_equal. f_equal.
      f_equal. unfold clens.
      transitivity (nth ia (map (fun ra => length (spgemm_row ra B)) (rows A)) ((fun ra => length (spgemm_row ra B)) [])).
      * apply nth_indep. rewrite map_length. unfold nrows in Hk. lia.
      * exact (map_nth (fun ra => length (spgemm_row ra B)) (rows A) [] ia).
Qed.

Lemma repeat_nth_lt (z : Z) n c : c < n -> nth c (repeat z n) (-1)%Z = z.
Proof. revert c; induction n as [|n IH]; intros c H; [lia|]. destruct c; simpl; [reflexivity|apply IH; lia]. Qed.

Lemma pass1_ok ptr0 : ptr0 = filled [0] ++ fresh (nrows A) ->
  exists mk', pass1 (flat_of A) (flat_of B) (filled (repeat (-1)%Z mB), ptr0) = Done (filled mk', filled (0 :: clens)).
Proof.
  intros ->. unfold pass1. cbn [fn flat_of].
  destruct (pass1_loop (nrows A) 0 (repeat (-1)%Z mB) eq_refl (repeat_length _ _)) as (mk' & H).
  - intros c Hc. rewrite repeat_nth_lt by exact Hc. lia.
  - exists mk'. exact H.
Qed.

(* ------------------------------------------------------------------ pass 2: filling *)
Definition fill_step (row_beg : nat) (e : nat * S) (st : @fstate S) : mres (@fstate S) :=
  let '(marker, (col, val), row_end) := st in
  mk <-- mrd marker (fst e) ;;
  if (mk <? Z.of_nat row_beg)%Z then
    marker' <-- mwr marker (fst e) (Z.of_nat row_end) ;;
    col' <-- mwr col row_end (fst e) ;;
    val' <-- mwr val row_end (snd e) ;;
    Done (marker', (col', val'), Datatypes.S row_end)
  else
    old <-- mrdz val mk ;;
    val' <-- mwrz val mk (old + snd e)%S ;;
    Done (marker, (col, val'), row_end).

Lemma fill_row_list ia row_beg (st0 : @fstate S) : ia < nrows A ->
  row_loop (fptr (flat_of A)) ia (fun ja st =>
      ca <-- ird (fcol (flat_of A)) ja ;;
      va <-- ird (fval (flat_of A)) ja ;;
      row_loop (fptr (flat_of B)) ca (fill_inner (flat_of B) row_beg va) st) st0
  = mfoldl (fill_step row_beg) (entries ia) st0.
Proof.
  intro Hia. unfold entries. rewrite mfoldl_flat_map.
  rewrite (row_loop_flat A ia (fun ea st => mfoldl (fill_step row_beg) (prods ea B) st)); [reflexivity|exact Hia|].
  intros j s c v Hc Hv. rewrite Hc, Hv. cbn [mbind].
  unfold prods. cbn [fst snd]. rewrite mfoldl_map.
  destruct (Nat.lt_ge_cases c (nrows B)) as [Hlt|Hge].
  - rewrite (row_loop_flat B c (fun eb st => fill_step row_beg (fst eb, (v * snd eb)%S) st)); [reflexivity|exact Hlt|].
    intros j' s' c' v' Hc' Hv'. destruct s' as [[marker [col val]] row_end].
    unfold fill_inner, fill_step. rewrite Hc', Hv'. reflexivity.
  - exfalso. unfold ird in Hc. destruct (nth_error (fcol (flat_of A)) j) as [c0|] eqn:E; [|discriminate].
    injection Hc as ->. apply nth_error_In in E. unfold flat_of in E. cbn [fcol] in E.
    apply in_map_iff in E as ([c' v'] & Hf & Hin). cbn [fst] in Hf. subst c'.
    apply in_concat in Hin as (r & Hr & Hin).
    unfold wf in HA. rewrite forallb_forall in HA. specialize (HA r Hr).
    apply row_wf_iff in HA. rewrite Forall_forall in HA. specialize (HA _ Hin). cbn [fst] in HA. lia.
Qed.

Section Row2.
Variables (pc : list nat) (pv : list S) (row_beg k : nat).
Hypothesis Hpc : length pc = row_beg.
Hypothesis Hpv : length pv = row_beg.

Definition carr (r : row) : marr nat := filled (pc ++ map fst r) ++ fresh (k - length r).
Definition varr (r : row) : marr S := filled (pv ++ map snd r) ++ fresh (k - length r).

Definition P2 (mk : list Z) (r : row) : Prop :=
  length mk = mB /\
  (forall j, j < length r -> nth (fst (nth j r (0, s0))) mk (-1)%Z = Z.of_nat (row_beg + j)) /\
  (forall c, c < mB -> (Z.of_nat row_beg <= nth c mk (-1))%Z -> In c (map fst r)) /\
  (forall e, In e r -> fst e < mB) /\
  (forall c, c < mB -> (nth c mk (-1) < Z.of_nat (row_beg + length r))%Z).

Lemma fill_fold : forall (E : row) mk r,
  (forall e, In e E -> fst e < mB) -> P2 mk r -> length (fold_left radd E r) <= k ->
  exists mk',
    mfoldl (fill_step row_beg) E (filled mk, (carr r, varr r), row_beg + length r)
    = Done (filled mk', (carr (fold_left radd E r), varr (fold_left radd E r)), row_beg + length (fold_left radd E r)) /\
    P2 mk' (fold_left radd E r).
Proof.
  induction E as [|e E IH]; intros mk r HE HP Hk.
  - exists mk. split; [reflexivity|exact HP].
  - assert (He : fst e < mB) by (apply HE; left; reflexivity).
    assert (HE' : forall x, In x E -> fst x < mB) by (intros x Hx; apply HE; right; exact Hx).
    destruct HP as (Hl & Ha & Hb & Hc & Hd).
    cbn [mfoldl fold_left] in *. unfold fill_step at 1.
    rewrite (mrd_filled mk (fst e) (-1)%Z) by lia. cbn [mbind].
    destruct (Z.ltb_spec (nth (fst e) mk (-1)%Z) (Z.of_nat row_beg)) as [Hlt|Hge].
    + (* a new column of this row *)
      assert (Hnin : ~ In (fst e) (map fst r)).
      { intro Hin. apply in_fst_nth in Hin as (j & Hj & Hnth).
        specialize (Ha j Hj). rewrite Hnth in Ha. lia. }
      assert (Hr : radd r e = r ++ [e]).
      { unfold radd. rewrite row_add_notin by exact Hnin. rewrite <- surjective_pairing. reflexivity. }
      assert (Hroom : length r < k).
      { pose proof (fold_radd_length_le E (radd r e)) as Hm.
        assert (Hl1 : length (radd r e) = Datatypes.S (length r)) by (rewrite Hr, app_length; simpl; lia). lia. }
      rewrite mwr_filled by lia. cbn [mbind].
      unfold carr at 1, varr at 1.
      replace (k - length r) with (Datatypes.S (k - Datatypes.S (length r))) by lia.
      unfold fresh at 1 2. cbn [repeat]. fold (@fresh nat (k - Datatypes.S (length r))) (@fresh S (k - Datatypes.S (length r))).
      rewrite (mwr_app_len (filled (pc ++ map fst r)) None _ (fst e) (row_beg + length r))
        by (rewrite filled_length, app_length, map_length; lia). cbn [mbind].
      rewrite (mwr_app_len (filled (pv ++ map snd r)) None _ (snd e) (row_beg + length r))
        by (rewrite filled_length, app_length, map_length; lia). cbn [mbind].
      assert (Ec : filled (pc ++ map fst r) ++ Some (fst e) :: fresh (k - Datatypes.S (length r)) = carr (radd r e)).
      { unfold carr. rewrite Hr, map_app, app_length. cbn [map length]. rewrite Nat.add_1_r.
        rewrite app_assoc, (filled_app (pc ++ map fst r)), <- app_assoc. reflexivity. }
      assert (Ev : filled (pv ++ map snd r) ++ Some (snd e) :: fresh (k - Datatypes.S (length r)) = varr (radd r e)).
      { unfold varr. rewrite Hr, map_app, app_length. cbn [map length]. rewrite Nat.add_1_r.
        rewrite app_assoc, (filled_app (pv ++ map snd r)), <- app_assoc. reflexivity. }
      rewrite Ec, Ev.
      replace (Datatypes.S (row_beg + length r)) with (row_beg + length (radd r e)) by (rewrite Hr, app_length; simpl; lia).
      apply IH; [exact HE'| |exact Hk].
      rewrite Hr. split; [rewrite upd_length; exact Hl|]. split; [|split; [|split]].
      * intros j Hj. rewrite app_length in Hj. cbn [length] in Hj.
        destruct (Nat.eq_dec j (length r)) as [->|Hne].
        -- rewrite app_nth2, Nat.sub_diag by lia. cbn [nth]. rewrite upd_nth by lia. rewrite Nat.eqb_refl. reflexivity.
        -- rewrite app_nth1 by lia. rewrite upd_nth by lia.
           destruct (Nat.eqb_spec (fst (nth j r (0, s0))) (fst e)) as [Heq|_]; [|apply Ha; lia].
           exfalso. apply Hnin. rewrite <- Heq. apply in_map. apply nth_In. lia.
      * intros c Hcm Hge. rewrite map_app, in_app_iff. cbn [map In].
        rewrite upd_nth in Hge by lia. destruct (Nat.eqb_spec c (fst e)) as [->|Hce]; [right; left; reflexivity|].
        left. apply Hb; assumption.
      * intros x Hx. apply in_app_iff in Hx as [Hx|[<-|[]]]; [apply Hc; exact Hx|exact He].
      * intros c Hcm. rewrite app_length. cbn [length]. rewrite upd_nth by lia.
        destruct (Nat.eqb c (fst e)); [lia|]. specialize (Hd c Hcm). lia.
    + (* the column is already in the row: C.val[marker[cb]] += va * vb *)
      assert (Hin : In (fst e) (map fst r)) by (apply Hb; assumption).
      apply in_fst_nth in Hin as (j & Hj & Hnth).
      pose proof (Ha j Hj) as Hmj. rewrite Hnth in Hmj.
      destruct (nth_split r (0, s0) Hj) as (r1 & r2 & Hr & Hl1).
      set (e0 := nth j r (0, s0)) in *.
      assert (Hn1 : ~ In (fst e) (map fst r1)).
      { intro Hin1. apply in_fst_nth in Hin1 as (j' & Hj' & Hnth').
        assert (Hj'r : j' < length r) by (rewrite Hr, app_length; lia).
        pose proof (Ha j' Hj'r) as Hm'. rewrite Hr, app_nth1 in Hm' by lia. rewrite Hnth' in Hm'. lia. }
      assert (Hradd : radd r e = r1 ++ (fst e, (snd e0 + snd e)%S) :: r2).
      { unfold radd. rewrite Hr. rewrite <- Hnth at 1. rewrite (surjective_pairing e0) at 1.
        rewrite Hnth. apply row_add_at. exact Hn1. }
      rewrite Hmj. unfold mrdz, mwrz.
      destruct (Z.ltb_spec (Z.of_nat (row_beg + j)) 0) as [Hneg|_]; [lia|]. rewrite Nat2Z.id.
      assert (Ev0 : varr r = (filled (pv ++ map snd r1)) ++ Some (snd e0) :: (filled (map snd r2) ++ fresh (k - length r))).
      { unfold varr. rewrite Hr at 1. rewrite map_app. cbn [map]. apply filled_mid. }
      rewrite Ev0.
      rewrite (mrd_app_len _ (snd e0) _ (row_beg + j)) by (rewrite filled_length, app_length, map_length; lia). cbn [mbind].
      rewrite (mwr_app_len _ (Some (snd e0)) _ _ (row_beg + j)) by (rewrite filled_length, app_length, map_length; lia). cbn [mbind].
      assert (Hlen : length (radd r e) = length r).
      { rewrite Hradd, Hr, !app_length. reflexivity. }
      assert (Ev1 : filled (pv ++ map snd r1) ++ Some (snd e0 + snd e)%S :: filled (map snd r2) ++ fresh (k - length r) = varr (radd r e)).
      { symmetry. unfold varr. rewrite Hlen, Hradd, map_app. cbn [map snd]. apply filled_mid. }
      rewrite Ev1.
      assert (Ec1 : carr r = carr (radd r e)).
      { unfold carr. rewrite Hlen, Hradd. rewrite Hr at 1. rewrite !map_app. cbn [map fst]. rewrite Hnth. reflexivity. }
      rewrite Ec1. rewrite <- Hlen.
      apply IH; [exact HE'| |exact Hk].
      assert (Hfst : map fst (radd r e) = map fst r).
      { rewrite Hradd. transitivity (map fst (r1 ++ e0 :: r2)); [|rewrite <- Hr; reflexivity].
        rewrite !map_app. cbn [map fst]. rewrite Hnth. reflexivity. }
      split; [exact Hl|]. split; [|split; [|split]].
      * intros j0 Hj0. rewrite Hlen in Hj0.
        replace (fst (nth j0 (radd r e) (0, s0))) with (fst (nth j0 r (0, s0))); [apply Ha; exact Hj0|].
        rewrite <- !(map_nth fst). rewrite Hfst. reflexivity.
      * intros c Hcm Hge0. rewrite Hfst. apply Hb; assumption.
      * intros x Hx. assert (Hx' : In (fst x) (map fst (radd r e))) by (apply in_map; exact Hx).
        rewrite Hfst in Hx'. apply in_map_iff in Hx' as (y & Hy & Hyin). rewrite <- Hy. apply Hc. exact Hyin.
      * intros c Hcm. rewrite Hlen. apply Hd. exact Hcm.
Qed.
End Row2.

Section Pass2.
Variable sort : bool.
Definition Crows : list row := map (fun ra => out_row sort (spgemm_row ra B)) (rows A).
Definition rb (ia : nat) : nat := length (concat (firstn ia Crows)).
Definition cptr : marr nat := filled (0 :: psum (map (@length (nat * S)) Crows)).
Definition cnnz : nat := length (concat Crows).

Lemma out_row_length (r : row) : length (out_row sort r) = length r.
Proof. destruct sort; [apply sort_row_length|reflexivity]. Qed.
Lemma Crows_length : length Crows = nrows A.
Proof. unfold Crows. rewrite map_length. reflexivity. Qed.
Lemma Crows_nth ia : nth ia Crows [] = out_row sort (spgemm_row (nth ia (rows A) []) B).
Proof.
  destruct (Nat.lt_ge_cases ia (nrows A)) as [H|H].
  - unfold Crows. rewrite (nth_indep _ [] ((fun ra => out_row sort (spgemm_row ra B)) [])) by (rewrite map_length; exact H).
    exact (map_nth (fun ra => out_row sort (spgemm_row ra B)) (rows A) [] ia).
  - rewrite !nth_overflow; [destruct sort; reflexivity|exact H|rewrite Crows_length; exact H].
Qed.
Lemma Crows_S ia : ia < nrows A ->
  concat (firstn (Datatypes.S ia) Crows) = concat (firstn ia Crows) ++ out_row sort (spgemm_row (nth ia (rows A) []) B).
Proof.
  intro H. rewrite (firstn_S_nth Crows ia []) by (rewrite Crows_length; exact H).
  rewrite concat_app. cbn [concat]. rewrite app_nil_r, Crows_nth. reflexivity.
Qed.
Lemma rb_S ia : ia < nrows A -> rb (Datatypes.S ia) = rb ia + length (spgemm_row (nth ia (rows A) []) B).
Proof. intro H. unfold rb. rewrite Crows_S by exact H. rewrite app_length, out_row_length. reflexivity. Qed.
Lemma rb_le ia : ia <= nrows A -> rb ia <= cnnz.
Proof.
  intro H. unfold rb, cnnz. rewrite <- (firstn_skipn ia Crows) at 2. rewrite concat_app, app_length. lia.
Qed.
Lemma cptr_rd ia : ia <= nrows A -> mrd cptr ia = Done (rb ia).
Proof.
  intro H. unfold cptr. rewrite (mrd_filled _ ia 0) by (rewrite (@flat_ptr_length (nat * S)), Crows_length; lia).
  f_equal. rewrite <- (firstn_skipn ia Crows) at 1.
  replace ia with (length (firstn ia Crows)) at 1 by (rewrite firstn_length, Crows_length; lia).
  apply (@flat_ptr_nth (nat * S)).
Qed.

Definition cstate (ia : nat) : @cvarr S :=
  (filled (map fst (concat (firstn ia Crows))) ++ fresh (cnnz - rb ia),
   filled (map snd (concat (firstn ia Crows))) ++ fresh (cnnz - rb ia)).

Lemma fill_row_ok ia mk : ia < nrows A ->
  length mk = mB -> (forall c, c < mB -> (nth c mk (-1) < Z.of_nat (rb ia))%Z) ->
  exists mk', fill_row (flat_of A) (flat_of B) sort cptr ia (filled mk, cstate ia) = Done (filled mk', cstate (Datatypes.S ia)) /\
              length mk' = mB /\ (forall c, c < mB -> (nth c mk' (-1) < Z.of_nat (rb (Datatypes.S ia)))%Z).
Proof.
  intros Hia Hl Hlt. unfold fill_row. rewrite cptr_rd by lia. cbn [mbind fst snd].
  rewrite fill_row_list by exact Hia.
  set (pc := map fst (concat (firstn ia Crows))). set (pv := map snd (concat (firstn ia Crows))).
  set (k := cnnz - rb ia).
  assert (Hpc : length pc = rb ia) by (unfold pc, rb; apply map_length).
  assert (Hpv : length pv = rb ia) by (unfold pv, rb; apply map_length).
  set (r := spgemm_row (nth ia (rows A) []) B).
  assert (Hrk : length r <= k).
  { pose proof (rb_S ia Hia) as H1. pose proof (rb_le (Datatypes.S ia) ltac:(lia)) as H2. fold r in H1. unfold k. lia. }
  destruct (fill_fold pc pv (rb ia) k Hpc Hpv (entries ia) mk [] (entries_lt ia)) as (mk' & Hrun & HP').
  { split; [exact Hl|]. split; [intros j Hj; simpl in Hj; lia|]. split; [|split].
    - intros c Hc Hge. specialize (Hlt c Hc). lia.
    - intros e [].
    - intros c Hc. cbn [length]. rewrite Nat.add_0_r. apply Hlt. exact Hc. }
  { rewrite <- crow_entries. exact Hrk. }
  rewrite <- crow_entries in Hrun, HP'. fold r in Hrun, HP'.
  assert (E0 : cstate ia = (carr pc k [], varr pv k [])).
  { unfold cstate, carr, varr. cbn [map length]. rewrite !app_nil_r, Nat.sub_0_r. reflexivity. }
  rewrite E0. cbn [length] in Hrun. rewrite Nat.add_0_r in Hrun.
  match goal with |- exists _, mbind ?X _ = _ /\ _ =>
    assert (HX : X = Done (filled mk', (carr pc k r, varr pv k r), rb ia + length r)) by exact Hrun end.
  rewrite HX. cbn [mbind].
  destruct HP' as (Hl' & _ & _ & _ & Hd').
  assert (Eout : forall r', length r' = length r ->
            (carr pc k r', varr pv k r') = arrs (filled pc) (fresh (k - length r)) (filled pv) (fresh (k - length r)) r').
  { intros r' Hr'. unfold carr, varr, arrs. rewrite Hr', !filled_app, <- !app_assoc. reflexivity. }
  assert (Efin : forall r', length r' = length r -> r' = out_row sort r ->
            (carr pc k r', varr pv k r') = cstate (Datatypes.S ia)).
  { intros r' Hr' ->. unfold carr, varr, cstate. rewrite (Crows_S ia Hia). fold r. rewrite !map_app.
    fold pc pv. rewrite Hr'. rewrite rb_S by exact Hia. fold r. unfold k.
    replace (cnnz - rb ia - length r) with (cnnz - (rb ia + length r)) by lia. reflexivity. }
  exists mk'. split; [|split; [exact Hl'|]].
  - assert (Hs : sort = true \/ sort = false) by (destruct sort; auto).
    destruct Hs as [Hs|Hs]; rewrite Hs.
    + replace (rb ia + length r - rb ia) with (length r) by lia.
      rewrite (Eout r eq_refl).
      rewrite (ll_sort_row_ok (filled pc) (fresh (k - length r)) (filled pv) (fresh (k - length r)) (rb ia) (length r));
        [|rewrite filled_length; exact Hpc|rewrite filled_length; exact Hpv|reflexivity].
      cbn [mbind]. rewrite <- (Eout (sort_row r) (sort_row_length r)).
      rewrite (Efin (sort_row r) (sort_row_length r)); [reflexivity|]. unfold out_row. rewrite Hs. reflexivity.
    + rewrite (Efin r eq_refl); [reflexivity|]. unfold out_row. rewrite Hs. reflexivity.
  - intros c Hc. rewrite rb_S by exact Hia. fold r. apply Hd'. exact Hc.
Qed.

Lemma pass2_loop : forall k ia mk,
  ia + k = nrows A -> length mk = mB -> (forall c, c < mB -> (nth c mk (-1) < Z.of_nat (rb ia))%Z) ->
  exists mk', mfor ia k (fill_row (flat_of A) (flat_of B) sort cptr) (filled mk, cstate ia)
              = Done (filled mk', cstate (nrows A)).
Proof.
  induction k as [|k IH]; intros ia mk Hk Hl Hlt.
  - exists mk. rewrite mfor_zero. replace ia with (nrows A) by lia. reflexivity.
  - rewrite mfor_step.
    destruct (fill_row_ok ia mk ltac:(lia) Hl Hlt) as (mk1 & Hrun & Hl1 & Hlt1).
    rewrite Hrun. cbn [mbind]. apply IH; [lia|exact Hl1|exact Hlt1].
Qed.
End Pass2.

Theorem ll_spgemm_ok_aux (sort : bool) :
  ll_spgemm (flat_of A) (flat_of B) sort = Done (minit (flat_of (spgemm_saad A B sort))).
Proof.
  unfold ll_spgemm. change (fn (flat_of A)) with (nrows A). change (fm (flat_of B)) with (ncols B).
  rewrite Nat.add_1_r. unfold fresh at 1. cbn [repeat mwr mbind]. fold (@fresh nat (nrows A)).
  destruct (pass1_ok (Some 0 :: fresh (nrows A)) eq_refl) as (mk1 & H1). fold mB.
  match goal with |- mbind ?X _ = _ => assert (HX : X = Done (filled mk1, filled (0 :: clens))) by exact H1 end.
  rewrite HX. cbn [mbind snd].
  assert (Hcl : clens = map (@length (nat * S)) (Crows sort)).
  { unfold clens, Crows. rewrite map_map. apply map_ext. intro ra. rewrite out_row_length. reflexivity. }
  replace (Datatypes.S (nrows A)) with (length (0 :: clens)) by (cbn [length]; unfold clens; rewrite map_length; reflexivity).
  rewrite ll_psum_ok. cbn [mbind].
  assert (Hps : filled (psum (0 :: clens)) = cptr sort).
  { unfold cptr, psum. cbn [psum_from Nat.add]. rewrite Hcl. reflexivity. }
  rewrite Hps. rewrite (cptr_rd sort (nrows A) (le_n _)). cbn [mbind].
  assert (Hnn : rb sort (nrows A) = cnnz sort).
  { unfold rb, cnnz. rewrite firstn_all2 by (rewrite Crows_length; lia). reflexivity. }
  rewrite Hnn.
  destruct (pass2_loop sort (nrows A) 0 (repeat (-1)%Z mB) eq_refl (repeat_length _ _)) as (mk2 & H2).
  { intros c Hc. rewrite repeat_nth_lt by exact Hc. lia. }
  assert (Ec0 : cstate sort 0 = (fresh (cnnz sort), fresh (cnnz sort))).
  { unfold cstate, rb. cbn [firstn concat map filled length app]. rewrite Nat.sub_0_r. reflexivity. }
  rewrite Ec0 in H2.
  match goal with |- mbind ?X _ = _ => assert (HX2 : X = Done (filled mk2, cstate sort (nrows A))) by exact H2 end.
  rewrite HX2. cbn [mbind fst snd].
  unfold cstate. rewrite Hnn, Nat.sub_diag. unfold fresh. cbn [repeat]. rewrite !app_nil_r.
  rewrite firstn_all2 by (rewrite Crows_length; lia).
  unfold minit, flat_of. cbn [fn fm fptr fcol fval].
  assert (Er : rows (spgemm_saad A B sort) = Crows sort) by reflexivity.
  assert (En : nrows (spgemm_saad A B sort) = nrows A) by apply spgemm_saad_shape.
  rewrite Er, En. reflexivity.
Qed.

End TwoMatrices.

(* the theorem: for well-formed operands with matching inner dimension *)
Theorem ll_spgemm_ok (A B : crs) (sort : bool) :
  wf A = true -> wf B = true -> ncols A <= nrows B ->
  ll_spgemm (flat_of A) (flat_of B) sort = Done (minit (flat_of (spgemm_saad A B sort))).
Proof. intros HA HB HAB. exact (ll_spgemm_ok_aux A B HA HB HAB sort). Qed.


(* the same for well-formed flat operands *)
Corollary ll_spgemm_flat (FA FB : fcrs S) (sort : bool) :
  fwf FA -> fwf FB -> fm FA <= fn FB ->
  exists FC, ll_spgemm FA FB sort = Done (minit FC) /\ fwf FC /\
             unflat FC = spgemm_saad (unflat FA) (unflat FB) sort.
Proof.
  intros WA WB Hd.
  destruct (unflat_wf FA WA) as (HwA & HnA & HmA). destruct (unflat_wf FB WB) as (HwB & HnB & HmB).
  exists (flat_of (spgemm_saad (unflat FA) (unflat FB) sort)). split; [|split].
  - rewrite <- (flat_unflat FA WA) at 1. rewrite <- (flat_unflat FB WB) at 1.
    apply ll_spgemm_ok; [exact HwA|exact HwB|]. rewrite HmA, HnB. exact Hd.
  - apply flat_of_fwf. apply spgemm_saad_wf. exact HwB.
  - apply unflat_flat.
Qed.

End Proofs.

Theorem ll_spgemm_safe {S : Scalar} (A B : crs S) (sort : bool) :
  wf A = true -> wf B = true -> ncols A <= nrows B ->
  let r := ll_spgemm (flat_of A) (flat_of B) sort in
  r <> OutOfBounds /\ r <> UninitRead /\ r <> OutOfFuel.
Proof. intros HA HB HAB. cbv zeta. eapply done_safe. exact (ll_spgemm_ok A B sort HA HB HAB). Qed.
