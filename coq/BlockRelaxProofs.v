(* BlockRelaxProofs.v -- the simple smoothers of Relax.v (damped Jacobi, SPAI-0, serial Gauss-Seidel)
   over a NON-COMMUTATIVE ring of values (ncring_theory: block values, NcRingBlock.BlockS_ncring).
   The statements are those of RelaxProofs.v with the operand order of the C++ kept:
     Jacobi   x_i' = x_i + (w * a_ii^-1) * (f_i - (A x)_i)          inverse diagonal block on the LEFT
     SPAI-0   x_i' = x_i + (nrm_i^-1 * a_ii) * (f_i - (A x)_i)
     GS       a_ii * x_i' = f_i - sum_{j<i} a_ij * x_j' - sum_{j>i} a_ij * x_j      (forward)
   Where RelaxProofs.v divides ([field], a_ii <> 0), the hypotheses here are the one-sided inverse laws
   that are actually used:  a_ii * sinv a_ii = 1 (RIGHT inverse) for the sweep equations,
   sinv a_ii * a_ii = 1 (LEFT inverse) for the fixed point -- for blocks both hold whenever
   math::inverse succeeds (NcRingBlockInv.v gives the right inverse from detail::inverse). *)
From Amgcl Require Import Scalar Vec Crs Kernels KernelsProofs MatOps Relax RelaxProofs NcRing NcKernels.
From Coq Require Import ZifyBool.
Local Open Scope S_scope.

Section BlockRelaxProofs.
Context {S : Scalar}.
Local Notation vec := (vec S).
Local Notation row := (row S).
Local Notation crs := (crs S).
Hypothesis Hnc : ncring_theory S.
Hypothesis Seqb : seqb_spec S.
Local Instance ncrp : NcRingInst S := ncring_inst Hnc.

(* ------------------------------------------------------------------ *)
(* the diagonal                                                        *)
Lemma nc_rget_nofilter (r : row) i :
  length (filter (fun e : nat * S => Nat.eqb (fst e) i) r) = 0 -> rget r i = s0.
Proof.
  induction r as [|e r IH]; simpl; intro H; [reflexivity|].
  rewrite (nc_rget_cons Hnc). destruct (Nat.eqb (fst e) i); simpl in H; [discriminate|].
  rewrite IH by exact H. ncr.
Qed.

Lemma nc_first_col_unique (r : row) i :
  length (filter (fun e : nat * S => Nat.eqb (fst e) i) r) = 1 ->
  first_col r i = Some (rget r i).
Proof.
  induction r as [|[c v] r IH]; simpl; intro H; [discriminate|].
  rewrite (nc_rget_cons Hnc). simpl. destruct (Nat.eqb c i); simpl in H.
  - injection H as H. rewrite nc_rget_nofilter by exact H. f_equal. ncr.
  - rewrite IH by exact H. f_equal. ncr.
Qed.

Lemma nc_jacobi_setup_get (A : crs) (junk : vec) i :
  i < nrows A -> diag_unique A i -> mget A i i <> s0 ->
  vget (jacobi_setup A junk) i = sinv (mget A i i).
Proof.
  intros Hi Hu Hnz. unfold jacobi_setup, diagonal.
  rewrite map_indexed_get by exact Hi. cbn [fst snd].
  rewrite nc_first_col_unique by exact Hu. unfold diag_val. fold (mget A i i).
  destruct (is_zero (mget A i i)) eqn:E; [|reflexivity].
  apply (nc_is_zero_true Seqb) in E. contradiction.
Qed.

(* ------------------------------------------------------------------ *)
(* damped Jacobi                                                       *)
Lemma nc_jacobi_sweep_gen (w : S) (dia : vec) (A : crs) (rhs x tmp : vec) i :
  wf A = true -> length dia = nrows A ->
  length rhs = nrows A -> length x = nrows A -> length tmp = nrows A -> i < nrows A ->
  vget (fst (jacobi_sweep w dia A rhs x tmp)) i =
  w * vget dia i * (vget rhs i - Ax A x i) + vget x i.
Proof.
  intros Hwf Hd Hr Hx Ht Hi. unfold jacobi_sweep. cbn [fst].
  rewrite (nc_vmul_spec Hnc Seqb) by (rewrite ?residual_length; congruence).
  rewrite (nc_residual_spec Hnc) by assumption. ncr.
Qed.

Theorem nc_jacobi_sweep_spec (w : S) (A : crs) (junk rhs x tmp : vec) i :
  wf A = true ->
  length rhs = nrows A -> length x = nrows A -> length tmp = nrows A -> i < nrows A ->
  diag_unique A i -> mget A i i <> s0 ->
  vget (fst (jacobi_sweep w (jacobi_setup A junk) A rhs x tmp)) i =
  vget x i + w * sinv (mget A i i) * (vget rhs i - Ax A x i).
Proof.
  intros Hwf Hr Hx Ht Hi Hu Hnz.
  rewrite nc_jacobi_sweep_gen by (try apply jacobi_setup_length; assumption).
  rewrite nc_jacobi_setup_get by assumption. ncr.
Qed.

(* ------------------------------------------------------------------ *)
(* SPAI-0                                                              *)
Lemma nc_spai0_sweep_gen (M : vec) (A : crs) (rhs x tmp : vec) i :
  wf A = true -> length M = nrows A ->
  length rhs = nrows A -> length x = nrows A -> length tmp = nrows A -> i < nrows A ->
  vget (fst (spai0_sweep M A rhs x tmp)) i =
  vget M i * (vget rhs i - Ax A x i) + vget x i.
Proof.
  intros Hwf Hd Hr Hx Ht Hi. unfold spai0_sweep. cbn [fst].
  rewrite (nc_vmul_spec Hnc Seqb) by (rewrite ?residual_length; congruence).
  rewrite (nc_residual_spec Hnc) by assumption. ncr.
Qed.

Theorem nc_spai0_sweep_spec (A : crs) (rhs x tmp : vec) i :
  wf A = true ->
  length rhs = nrows A -> length x = nrows A -> length tmp = nrows A -> i < nrows A ->
  vget (fst (spai0_sweep (spai0_setup A) A rhs x tmp)) i =
  vget x i + sinv (row_norm2 (nth i (rows A) [])) * mget_adj A i i * (vget rhs i - Ax A x i).
Proof.
  intros Hwf Hr Hx Ht Hi.
  rewrite nc_spai0_sweep_gen by (try apply spai0_setup_length; assumption).
  rewrite spai0_setup_get by assumption. ncr.
Qed.

(* math::adjoint additive with adjoint(0) = 0 (blocks: transpose; complex: conjugate): the accumulated numerator
   is the adjoint of the dense diagonal entry (repair of finding C06-spai0-no-conj) *)
Lemma nc_rget_adj_sadj (r : row) j :
  (forall a b : S, sadj (a + b) = sadj a + sadj b) -> sadj (@s0 S) = s0 ->
  rget_adj r j = sadj (rget r j).
Proof.
  intros Hadd H0. rewrite rget_adj_map. induction r as [|e r IH].
  - simpl. unfold rget. simpl. symmetry. exact H0.
  - cbn [map]. rewrite !(nc_rget_cons Hnc), Hadd, IH. cbn [fst snd].
    destruct (Nat.eqb (fst e) j); [reflexivity|]. rewrite H0. reflexivity.
Qed.

Lemma nc_spai0_setup_get_sadj (A : crs) i :
  (forall a b : S, sadj (a + b) = sadj a + sadj b) -> sadj (@s0 S) = s0 -> i < nrows A ->
  vget (spai0_setup A) i = sinv (row_norm2 (nth i (rows A) [])) * sadj (mget A i i).
Proof.
  intros Hadd H0 Hi. rewrite (spai0_setup_get A i Hi). unfold mget_adj, mget.
  rewrite (nc_rget_adj_sadj _ i Hadd H0). reflexivity.
Qed.

Theorem nc_spai0_sweep_spec_sadj (A : crs) (rhs x tmp : vec) i :
  (forall a b : S, sadj (a + b) = sadj a + sadj b) -> sadj (@s0 S) = s0 ->
  wf A = true ->
  length rhs = nrows A -> length x = nrows A -> length tmp = nrows A -> i < nrows A ->
  vget (fst (spai0_sweep (spai0_setup A) A rhs x tmp)) i =
  vget x i + sinv (row_norm2 (nth i (rows A) [])) * sadj (mget A i i) * (vget rhs i - Ax A x i).
Proof.
  intros Hadd H0 Hwf Hr Hx Ht Hi. rewrite (nc_spai0_sweep_spec A rhs x tmp i Hwf Hr Hx Ht Hi).
  unfold mget_adj, mget. rewrite (nc_rget_adj_sadj _ i Hadd H0). reflexivity.
Qed.

(* ------------------------------------------------------------------ *)
(* fixed points of Jacobi and SPAI-0 (no hypothesis on the diagonal)   *)
Theorem nc_jacobi_sweep_fixed (w : S) (A : crs) (junk rhs x tmp : vec) :
  wf A = true ->
  length rhs = nrows A -> length x = nrows A -> length tmp = nrows A ->
  (forall i, i < nrows A -> Ax A x i = vget rhs i) ->
  forall i, i < nrows A ->
  vget (fst (jacobi_sweep w (jacobi_setup A junk) A rhs x tmp)) i = vget x i.
Proof.
  intros Hwf Hr Hx Ht Hfix i Hi.
  rewrite nc_jacobi_sweep_gen by (try apply jacobi_setup_length; assumption).
  rewrite Hfix by exact Hi. ncr.
Qed.

Theorem nc_spai0_sweep_fixed (A : crs) (rhs x tmp : vec) :
  wf A = true ->
  length rhs = nrows A -> length x = nrows A -> length tmp = nrows A ->
  (forall i, i < nrows A -> Ax A x i = vget rhs i) ->
  forall i, i < nrows A ->
  vget (fst (spai0_sweep (spai0_setup A) A rhs x tmp)) i = vget x i.
Proof.
  intros Hwf Hr Hx Ht Hfix i Hi.
  rewrite nc_spai0_sweep_gen by (try apply spai0_setup_length; assumption).
  rewrite Hfix by exact Hi. ncr.
Qed.

(* ------------------------------------------------------------------ *)
(* one Gauss-Seidel row                                                *)
Local Notation gs_step i x :=
  (fun (dx : S * S) (e : nat * S) =>
     if Nat.eqb (fst e) i then (snd e, snd dx)
     else (fst dx, snd dx - snd e * vget x (fst e))).

Lemma nc_gs_fold_snd i (x : vec) (r : row) (D X : S) :
  snd (fold_left (gs_step i x) r (D, X)) = X - (dotrow r x - rget r i * vget x i).
Proof.
  revert D X; induction r as [|[c v] r IH]; intros D X.
  - unfold dotrow, rget; simpl. ncr.
  - cbn [fold_left fst snd]. rewrite (nc_dotrow_cons Hnc), (nc_rget_cons Hnc). cbn [fst snd].
    destruct (Nat.eqb_spec c i) as [->|Hne]; rewrite IH; ncr.
Qed.

Lemma nc_gs_fold_fst1 i (x : vec) (r : row) (D X : S) :
  length (filter (fun e : nat * S => Nat.eqb (fst e) i) r) = 1 ->
  fst (fold_left (gs_step i x) r (D, X)) = rget r i.
Proof.
  revert D X; induction r as [|[c v] r IH]; intros D X H; [discriminate|].
  cbn [fold_left fst snd]. simpl in H. rewrite (nc_rget_cons Hnc). cbn [fst snd].
  destruct (Nat.eqb c i); simpl in H.
  - injection H as H. rewrite gs_fold_fst0 by exact H.
    rewrite nc_rget_nofilter by exact H. ncr.
  - rewrite IH by exact H. ncr.
Qed.

Lemma nc_gs_row_eq i (r : row) (rhs x : vec) :
  length (filter (fun e : nat * S => Nat.eqb (fst e) i) r) = 1 ->
  gs_row i r rhs x =
  set_nth x i (sinv (rget r i) * (vget rhs i - (dotrow r x - rget r i * vget x i))).
Proof.
  intros H. unfold gs_row.
  pose proof (nc_gs_fold_snd i x r s1 (vget rhs i)) as H2.
  pose proof (nc_gs_fold_fst1 i x r s1 (vget rhs i) H) as H1.
  destruct (fold_left _ r (s1, vget rhs i)) as [D X]. cbn [fst snd] in *.
  subst D X. reflexivity.
Qed.

(* gs_val A rhs y i = sinv a_ii * (rhs_i - ((A y)_i - a_ii * y_i)) : inverse on the LEFT (RelaxProofs.gs_val) *)
Lemma nc_gs_row_A (A : crs) (rhs x : vec) i :
  wf A = true -> i < nrows A -> diag_unique A i ->
  gs_row i (nth i (rows A) []) rhs x = set_nth x i (gs_val A rhs x i).
Proof.
  intros Hwf Hi Hu. rewrite nc_gs_row_eq by exact Hu.
  rewrite (nc_dotrow_spec Hnc _ x (ncols A)) by (apply row_wf_nth; assumption).
  reflexivity.
Qed.

Lemma nc_gs_order_spec (A : crs) (rhs x : vec) l1 i l2 :
  wf A = true -> length x = nrows A -> i < nrows A -> diag_unique A i ->
  NoDup (l1 ++ i :: l2) ->
  let x' := gs_run A rhs (l1 ++ i :: l2) x in
  let y := gs_run A rhs l1 x in
  vget x' i = gs_val A rhs y i
  /\ (forall j, In j l1 -> vget y j = vget x' j)
  /\ (forall j, ~ In j l1 -> vget y j = vget x j).
Proof.
  intros Hwf Hx Hi Hu Hnd x' y.
  assert (Hx' : x' = gs_run A rhs l2 (set_nth y i (gs_val A rhs y i))).
  { unfold x'. rewrite gs_run_app. fold y. unfold gs_run at 1. cbn [fold_left].
    rewrite nc_gs_row_A by assumption. reflexivity. }
  apply NoDup_remove in Hnd as [Hnd Hnin].
  assert (Hi2 : ~ In i l2) by (intro; apply Hnin; apply in_or_app; right; assumption).
  split; [|split].
  - rewrite Hx'. rewrite gs_run_notin by exact Hi2.
    apply set_nth_get_same. unfold y. rewrite gs_run_length. lia.
  - intros j Hj. rewrite Hx'.
    assert (Hj2 : ~ In j l2).
    { intro Hj2. clear - Hnd Hj Hj2. induction l1 as [|a l1 IH]; [contradiction|].
      simpl in Hnd. inversion Hnd as [|? ? Ha Hnd']; subst.
      destruct Hj as [->|Hj].
      - apply Ha. apply in_or_app; right; exact Hj2.
      - apply IH; assumption. }
    rewrite gs_run_notin by exact Hj2.
    rewrite set_nth_get_other; [reflexivity|].
    intros ->. apply Hnin. apply in_or_app; left; exact Hj.
  - intros j Hj. unfold y. apply gs_run_notin; exact Hj.
Qed.

(* the sweep equation; needs the RIGHT inverse law  a_ii * sinv a_ii = 1 *)
Lemma nc_gs_sum_core (A : crs) (rhs x x' y : vec) i (p q : nat -> bool) :
  ncols A = nrows A -> i < nrows A -> mget A i i * sinv (mget A i i) = s1 ->
  vget x' i = gs_val A rhs y i ->
  (forall j, j < nrows A -> j <> i ->
     (p j = true /\ q j = false /\ vget y j = vget x' j) \/
     (p j = false /\ q j = true /\ vget y j = vget x j)) ->
  p i = false -> q i = false ->
  mget A i i * vget x' i =
  vget rhs i
  - sumn (fun j => if p j then mget A i j * vget x' j else s0) (nrows A)
  - sumn (fun j => if q j then mget A i j * vget x j else s0) (nrows A).
Proof.
  intros Hsq Hi Hinv Hv Hpq Hpi Hqi. rewrite Hv. unfold gs_val, Ax. rewrite Hsq.
  rewrite (sumn_ext (fun j => mget A i j * vget y j)
     (fun j => ((if p j then mget A i j * vget x' j else s0)
                + (if Nat.eqb j i then mget A i i * vget y i else s0))
               + (if q j then mget A i j * vget x j else s0))).
  - rewrite !(ncsumn_add Hnc), (ncsumn_delta Hnc).
    replace (i <? nrows A)%nat with true by (symmetry; apply Nat.ltb_lt; exact Hi).
    set (P := sumn (fun j => if p j then mget A i j * vget x' j else s0) (nrows A)).
    set (Q := sumn (fun j => if q j then mget A i j * vget x j else s0) (nrows A)).
    set (a := mget A i i) in *. set (ai := sinv a) in *.
    transitivity ((a * ai) * (vget rhs i - (P + a * vget y i + Q - a * vget y i))); [ncr|].
    rewrite Hinv. ncr.
  - intros j Hj. destruct (Nat.eqb_spec j i) as [->|Hne].
    + rewrite Hpi, Hqi. ncr.
    + destruct (Hpq j Hj Hne) as [(-> & -> & ->)|(-> & -> & ->)]; ncr.
Qed.

Theorem nc_gs_forward_spec (A : crs) (rhs x : vec) :
  wf A = true -> ncols A = nrows A -> length rhs = nrows A -> length x = nrows A ->
  (forall k, k < nrows A -> diag_unique A k) ->
  forall i, i < nrows A -> mget A i i * sinv (mget A i i) = s1 ->
  let x' := gs_sweep A rhs x true in
  mget A i i * vget x' i =
  vget rhs i
  - sumn (fun j => if Nat.ltb j i then mget A i j * vget x' j else s0) (nrows A)
  - sumn (fun j => if Nat.ltb i j then mget A i j * vget x j else s0) (nrows A).
Proof.
  intros Hwf Hsq Hr Hx Hu i Hi Hinv x'.
  assert (Hnd : NoDup (seq 0 i ++ i :: seq (i + 1) (nrows A - i - 1))).
  { rewrite <- seq_split by exact Hi. apply seq_NoDup. }
  destruct (nc_gs_order_spec A rhs x _ i _ Hwf Hx Hi (Hu i Hi) Hnd) as (H1 & H2 & H3).
  rewrite <- seq_split in H1, H2 by exact Hi.
  change (gs_run A rhs (seq 0 (nrows A)) x) with x' in H1, H2.
  apply (nc_gs_sum_core A rhs x x' (gs_run A rhs (seq 0 i) x) i
           (fun j => Nat.ltb j i) (fun j => Nat.ltb i j)); try assumption.
  - intros j Hj Hne. destruct (Nat.ltb_spec j i) as [Hlt|Hge].
    + left. split; [reflexivity|]. split; [apply Nat.ltb_ge; lia|].
      apply H2. apply in_seq. lia.
    + right. split; [reflexivity|]. split; [apply Nat.ltb_lt; lia|].
      apply H3. rewrite in_seq. lia.
  - apply Nat.ltb_irrefl.
  - apply Nat.ltb_irrefl.
Qed.

Theorem nc_gs_backward_spec (A : crs) (rhs x : vec) :
  wf A = true -> ncols A = nrows A -> length rhs = nrows A -> length x = nrows A ->
  (forall k, k < nrows A -> diag_unique A k) ->
  forall i, i < nrows A -> mget A i i * sinv (mget A i i) = s1 ->
  let x'' := gs_sweep A rhs x false in
  mget A i i * vget x'' i =
  vget rhs i
  - sumn (fun j => if Nat.ltb i j then mget A i j * vget x'' j else s0) (nrows A)
  - sumn (fun j => if Nat.ltb j i then mget A i j * vget x j else s0) (nrows A).
Proof.
  intros Hwf Hsq Hr Hx Hu i Hi Hinv x''.
  assert (Hnd : NoDup (rev (seq (i + 1) (nrows A - i - 1)) ++ i :: rev (seq 0 i))).
  { rewrite <- rev_seq_split by exact Hi. apply NoDup_rev, seq_NoDup. }
  destruct (nc_gs_order_spec A rhs x _ i _ Hwf Hx Hi (Hu i Hi) Hnd) as (H1 & H2 & H3).
  rewrite <- rev_seq_split in H1, H2 by exact Hi.
  change (gs_run A rhs (rev (seq 0 (nrows A))) x) with x'' in H1, H2.
  apply (nc_gs_sum_core A rhs x x'' (gs_run A rhs (rev (seq (i + 1) (nrows A - i - 1))) x) i
           (fun j => Nat.ltb i j) (fun j => Nat.ltb j i)); try assumption.
  - intros j Hj Hne. destruct (Nat.ltb_spec i j) as [Hlt|Hge].
    + left. split; [reflexivity|]. split; [apply Nat.ltb_ge; lia|].
      apply H2. apply in_rev. rewrite rev_involutive. apply in_seq. lia.
    + right. split; [reflexivity|]. split; [apply Nat.ltb_lt; lia|].
      apply H3. rewrite <- in_rev. rewrite in_seq. lia.
  - apply Nat.ltb_irrefl.
  - apply Nat.ltb_irrefl.
Qed.

(* fixed point; needs the LEFT inverse law  sinv a_ii * a_ii = 1 *)
Lemma nc_gs_run_fixed (A : crs) (rhs x : vec) l :
  wf A = true -> length x = nrows A ->
  (forall i, i < nrows A -> Ax A x i = vget rhs i) ->
  (forall k, k < nrows A -> diag_unique A k) ->
  (forall k, k < nrows A -> sinv (mget A k k) * mget A k k = s1) ->
  (forall i, In i l -> i < nrows A) ->
  gs_run A rhs l x = x.
Proof.
  intros Hwf Hx Hfix Hu Hinv. unfold gs_run.
  induction l as [|i l IH]; intro Hl; simpl; [reflexivity|].
  assert (Hi : i < nrows A) by (apply Hl; left; reflexivity).
  rewrite nc_gs_row_A by auto.
  replace (gs_val A rhs x i) with (vget x i).
  - rewrite set_nth_same by lia. apply IH. intros; apply Hl; right; assumption.
  - unfold gs_val. rewrite Hfix by exact Hi.
    transitivity ((sinv (mget A i i) * mget A i i) * vget x i); [rewrite (Hinv i Hi); ncr|ncr].
Qed.

Theorem nc_gs_fixed_point (A : crs) (rhs x : vec) (b : bool) :
  wf A = true -> length x = nrows A ->
  (forall i, i < nrows A -> Ax A x i = vget rhs i) ->
  (forall k, k < nrows A -> diag_unique A k) ->
  (forall k, k < nrows A -> sinv (mget A k k) * mget A k k = s1) ->
  gs_sweep A rhs x b = x.
Proof.
  intros Hwf Hx Hfix Hu Hinv. rewrite gs_sweep_run.
  apply nc_gs_run_fixed; try assumption.
  intros i Hin. destruct b.
  - apply in_seq in Hin. lia.
  - apply in_rev in Hin. apply in_seq in Hin. lia.
Qed.

End BlockRelaxProofs.
