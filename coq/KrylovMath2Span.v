(* KrylovMath2Span.v -- the span of v_0..v_{j-1} (inductive closure, KrylovMathVec.span) is the set of the
   combinations comb n v y j: the GMRES minimiser theorem quantified over coefficient vectors y is a statement
   about EVERY element of x + (P) span(v_0..v_{j-1}). *)
From Amgcl Require Import Scalar Vec Kernels KernelsProofs Krylov KrylovRef KrylovProofs
                          KrylovMathVec KrylovMathGmres KrylovMathLsq KrylovMathMinres KrylovMath2Gmres AmgOrder.
From Coq Require Import QArith_base.
Local Close Scope Q_scope.
Local Open Scope S_scope.
Local Notation SS := Datatypes.S.

Section SpanComb.
Context {S : Scalar}.
Local Notation vec := (vec S).
Hypothesis Srt : Sring S.
Add Ring SRingSC : Srt.
Variable n : nat.
Variable v : nat -> vec.
Variable j : nat.
Hypothesis Lv : forall l, l < j -> length (v l) = n.

Definition Vgen (u : vec) : Prop := exists c, c < j /\ u = v c.

Lemma comb_zero m : m <= j -> comb n v (fun _ => s0) m = zeron n.
Proof.
  induction m as [|m IH]; intro H; [reflexivity|]. unfold comb in *. simpl. rewrite IH by lia.
  apply (vec_ext_n n); [apply vadd_len; [apply zeron_len|apply vscal_len, Lv; lia]|apply zeron_len|].
  intros i Hi. rewrite (nth_vadd_n n), (nth_vscal_n n) by (auto using zeron_len, vscal_len, Lv).
  unfold zeron. rewrite nth_repeat. ring.
Qed.
Lemma comb_ext (y y' : nat -> S) m : (forall l, l < m -> y l = y' l) -> comb n v y m = comb n v y' m.
Proof. intro H. apply vsum_ext. intros k Hk. rewrite (H k Hk). reflexivity. Qed.
Lemma comb_delta c m : c < m -> m <= j -> comb n v (fun l => if Nat.eqb l c then s1 else s0) m = v c.
Proof.
  induction m as [|m IH]; intros Hc Hm; [lia|]. unfold comb in *. simpl.
  destruct (Nat.eq_dec c m) as [->|N].
  - rewrite Nat.eqb_refl.
    rewrite (vsum_ext n _ (fun l => vscal s0 (v l)) m).
    2:{ intros k Hk. destruct (Nat.eqb k m) eqn:E; [apply Nat.eqb_eq in E; lia|reflexivity]. }
    fold (comb n v (fun _ => s0) m). rewrite comb_zero by lia.
    apply (vec_ext_n n); [apply vadd_len; [apply zeron_len|apply vscal_len, Lv; lia]|apply Lv; lia|].
    intros i Hi. rewrite (nth_vadd_n n), (nth_vscal_n n) by (auto using zeron_len, vscal_len, Lv).
    unfold zeron. rewrite nth_repeat. ring.
  - rewrite IH by lia. destruct (Nat.eqb m c) eqn:E; [apply Nat.eqb_eq in E; lia|].
    apply (vec_ext_n n); [apply vadd_len; [apply Lv; lia|apply vscal_len, Lv; lia]|apply Lv; lia|].
    assert (L1 : length (v c) = n) by (apply Lv; lia). assert (L2 : length (v m) = n) by (apply Lv; lia).
    intros i Hi. rewrite (nth_vadd_n n), (nth_vscal_n n) by (auto using vscal_len). ring.
Qed.

Theorem span_is_comb z : span n Vgen z -> exists y, z = comb n v y j.
Proof.
  assert (Lc : forall y, length (comb n v y j) = n) by (intro y; apply comb_len; exact Lv).
  intro H. induction H as [|u (c & Hc & ->)|u w _ (y1 & ->) _ (y2 & ->)|a u _ (y & ->)].
  - exists (fun _ => s0). symmetry. apply comb_zero. lia.
  - exists (fun l => if Nat.eqb l c then s1 else s0). symmetry. apply comb_delta; lia.
  - exists (fun l => y1 l + s1 * y2 l). rewrite <- (comb_axpy Srt n v y1 y2 s1 j Lv). f_equal.
    apply (vec_ext_n n); [apply Lc|apply vscal_len, Lc|]. intros i Hi. rewrite (nth_vscal_n n) by auto. ring.
  - exists (fun l => s0 + a * y l). rewrite <- (comb_axpy Srt n v (fun _ => s0) y a j Lv), comb_zero by lia.
    symmetry. apply (zeron_vadd_l Srt). apply vscal_len, Lc.
Qed.
Theorem comb_in_span y m : m <= j -> span n Vgen (comb n v y m).
Proof.
  induction m as [|m IH]; intro H; [apply sp_zero|]. unfold comb in *. simpl.
  apply sp_add; [apply IH; lia|]. apply sp_scal, sp_gen. exists m. split; [lia|reflexivity].
Qed.
Theorem span_iff_comb z : span n Vgen z <-> exists y, z = comb n v y j.
Proof.
  split; [apply span_is_comb|]. intros (y & ->). apply comb_in_span. apply le_n.
Qed.
End SpanComb.

(* the minimiser theorem of KrylovMath2Gmres.v over the span *)
Section CycleSpan.
Context {S : Scalar}.
Local Notation vec := (vec S).
Local Notation gm_ws := (@gm_ws S).
Local Notation kprm := (@kprm S).
Hypothesis Sft : Sfield S.
Hypothesis Seqb : seqb_spec S.
Hypothesis Sreal : forall x : S, sadj x = x.
Hypothesis HofQ0 : sofQ (0 # 1)%Q = @s0 S.
Hypothesis HofQ1 : sofQ (1 # 1)%Q = @s1 S.
Hypothesis Ord : ordered S.
Variable n : nat.
Variables A P : vec -> vec.
Hypothesis A_len : forall v, length v = n -> length (A v) = n.
Hypothesis P_len : forall v, length v = n -> length (P v) = n.
Hypothesis A_lin : linear_on n A.
Hypothesis P_lin : linear_on n P.
Variable prm : kprm.
Local Notation left := (p_left prm).
Variables (f x : vec) (w : gm_ws) (eps norm_r : S) (it : nat).
Hypothesis Lf : length f = n.
Hypothesis Lx : length x = n.
Hypothesis Hr : g_r w = pres A P left f x.
Hypothesis Nx : norm_r * norm_r = rdot (g_r w) (g_r w).
Hypothesis Nn : norm_r <> s0.
Local Notation w1 := (gm_w1 norm_r w).
Local Notation jj := (n_j (gm_run A P prm eps norm_r w it)).
Local Notation Wk := (W A P left w1).
Hypothesis Hh : forall i, i < jj -> arn_h (Wk i) i (Kv A P left w1 i) <> s0.
Hypothesis Hx : forall i, i < jj ->
  arn_h (Wk i) i (Kv A P left w1 i) * arn_h (Wk i) i (Kv A P left w1 i) =
  rdot (arn_w (Wk i) i (Kv A P left w1 i)) (arn_w (Wk i) i (Kv A P left w1 i)).
Hypothesis Hu : forall i, i < jj -> unit_rot (g_cs (Wk (SS i)) i) (g_sn (Wk (SS i)) i).
Hypothesis Hd : forall i, i < jj ->
  let dx := tail_H3 (Wb A P left w1 i) i (Kv A P left w1 i) i i in
  let dy := tail_H3 (Wb A P left w1 i) i (Kv A P left w1 i) (SS i) i in
  is_zero dy = false -> sltb (sabs dx) (sabs dy) = false -> dx <> s0.

(* the Krylov space of the cycle: span of the Arnoldi vectors v_0 .. v_{j-1} *)
Definition cycle_space : vec -> Prop := span n (Vgen (V A P left w1 jj) jj).

Theorem gm_cycle_minimises_over_span :
  let x' := fst (gm_cycle A P prm eps norm_r x w it) in
  (exists z, cycle_space z /\ x' = vadd x (Pr P left z)) /\
  forall z, cycle_space z ->
    ole (rdot (pres A P left f x') (pres A P left f x'))
        (rdot (pres A P left f (vadd x (Pr P left z))) (pres A P left f (vadd x (Pr P left z)))).
Proof.
  pose proof (gm_cycle_returns_minimiser Sft Seqb Sreal HofQ0 HofQ1 Ord n A P A_len P_len A_lin P_lin prm f x w eps norm_r it
                Lf Lx Hr Nx Nn Hh Hx Hu Hd) as T.
  cbv zeta in T. destruct T as (Ej & _ & Ex & _ & Min). rewrite Ej in *. cbv zeta.
  assert (Lv : forall l, l < jj -> length (V A P left w1 jj l) = n).
  { intros l Hl. apply (Vk_len Sft Seqb Sreal n A P A_len P_len prm f x w eps norm_r it Lf Lx Hr Nx Nn Hh Hx). lia. }
  split.
  - eexists. split; [|exact Ex]. apply (comb_in_span n _ jj). apply le_n.
  - intros z Hz. destruct (span_is_comb (F_R Sft) n _ jj Lv z Hz) as (y & ->). apply Min.
Qed.
End CycleSpan.
