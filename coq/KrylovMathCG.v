(* KrylovMathCG.v -- what the CG iterates ARE (C05-B1): orthogonality of the residuals,
   conjugacy of the directions, Galerkin condition, A-norm optimality over the Krylov space.
   All statements are about the textbook recurrence KrylovRef.cg_ref_loop (proved equal to the
   workspace model of cg.hpp in KrylovProofs.cg_model_is_ref) and are transported to the model
   Krylov.cg at the end.
   Hypotheses (Section): field laws, real scalar type (adjoint = identity), A and P length
   preserving and symmetric w.r.t. the inner product, A linear; P linear only for the Krylov-space
   characterisation; order laws only for the final inequality.  Vectors are lists; the only
   list-level facts are those of KrylovMathVec.v. *)
From Amgcl Require Import Scalar Vec Kernels KernelsProofs Krylov KrylovRef KrylovProofs KrylovMathVec AmgOrder.
Local Open Scope S_scope.
Local Notation SS := Datatypes.S.

(* vector identities that hold componentwise by ring, whatever the lengths *)
Ltac vext :=
  unfold vadd, vsub, vscal, vzeros; rewrite ?zipw_vmap2;
  apply nth_error_ext; let i := fresh "i" in intro i;
  repeat (rewrite ?nth_error_vmap2, ?nth_error_vmap3, ?nth_error_map);
  repeat match goal with |- context [nth_error ?v i] => destruct (nth_error v i) end;
  simpl; try reflexivity; try (f_equal; ring).

(* ------------------------------------------------------------------ *)
(* The CG sequence: the states the textbook loop KrylovRef.cg_ref_loop runs through,
   without the stopping test. *)
Section CGSeq.
Context {S : Scalar}.
Local Notation vec := (vec S).
Variables A P : vec -> vec.

Record cgs := mkCgs { s_x : vec; s_r : vec; s_p : vec; s_rz : S }.
Definition cgs_step (s : cgs) : cgs :=
  let q := A (s_p s) in
  let alpha := s_rz s / rdot q (s_p s) in
  let x' := vadd (s_x s) (vscal alpha (s_p s)) in
  let r' := vsub (s_r s) (vscal alpha q) in
  let z' := P r' in
  let rz' := rdot r' z' in
  mkCgs x' r' (vadd z' (vscal (rz' / s_rz s) (s_p s))) rz'.
Definition cgs_init (f x0 : vec) : cgs :=
  let r0 := vsub f (A x0) in let z0 := P r0 in mkCgs x0 r0 z0 (rdot r0 z0).
Fixpoint cgs_at (f x0 : vec) (k : nat) : cgs :=
  match k with O => cgs_init f x0 | SS k' => cgs_step (cgs_at f x0 k') end.
Fixpoint cgs_iter (j : nat) (s : cgs) : cgs :=
  match j with O => s | SS j' => cgs_iter j' (cgs_step s) end.

Lemma cgs_iter_S j s : cgs_iter (SS j) s = cgs_step (cgs_iter j s).
Proof. revert s; induction j as [|j IH]; intro s; [reflexivity|]. simpl in *. rewrite IH. reflexivity. Qed.
Lemma cgs_at_iter f x0 k : cgs_at f x0 k = cgs_iter k (cgs_init f x0).
Proof. induction k as [|k IH]; [reflexivity|]. rewrite cgs_iter_S, <- IH. reflexivity. Qed.

(* the reference loop stops at one of the states of the sequence *)
Lemma cg_ref_loop_seq eps fuel : forall k s,
  exists j, j <= fuel /\
    cg_ref_loop A P eps fuel k (s_x s) (s_r s) (s_p s) (s_rz s) =
    ((k + j)%nat, s_x (cgs_iter j s), s_r (cgs_iter j s)).
Proof.
  induction fuel as [|fl IH]; intros k s; simpl.
  - exists 0. split; [lia|]. rewrite Nat.add_0_r. reflexivity.
  - destruct (sltb eps (sabs (rnorm (s_r s)))).
    + destruct (IH (SS k) (cgs_step s)) as (j & Hj & E). exists (SS j). split; [lia|].
      simpl in E. rewrite E. simpl. rewrite Nat.add_succ_r. reflexivity.
    + exists 0. split; [lia|]. rewrite Nat.add_0_r. reflexivity.
Qed.

(* what cg_ref returns: either the trivial exit (zero right-hand side) or the k-th state *)
Theorem cg_ref_returns_seq maxiter tol abstol ns f x0 k res x :
  cg_ref A P maxiter tol abstol ns f x0 = Some (k, res, x) ->
  (sltb (rnorm f) rtiny = true /\ ns = false /\ k = 0 /\ x = vzeros x0) \/
  (k <= maxiter /\ x = s_x (cgs_at f x0 k) /\
   exists nf, res = rnorm (s_r (cgs_at f x0 k)) / nf).
Proof.
  unfold cg_ref, with_rhs.
  assert (G : forall nf, (let eps := smax (tol * nf) abstol in
      let r0 := vsub f (A x0) in let z0 := P r0 in
      let '(k, x, r) := cg_ref_loop A P eps maxiter 0 x0 r0 z0 (rdot r0 z0) in
      Some (k, rnorm r / nf, x)) = Some (k, res, x) ->
      k <= maxiter /\ x = s_x (cgs_at f x0 k) /\ exists nf, res = rnorm (s_r (cgs_at f x0 k)) / nf).
  { intros nf. cbv zeta.
    destruct (cg_ref_loop_seq (smax (tol * nf) abstol) maxiter 0 (cgs_init f x0)) as (j & Hj & E).
    simpl in E. rewrite E. intro H. injection H as <- <- <-. rewrite cgs_at_iter.
    split; [exact Hj|]. split; [reflexivity|]. exists nf. reflexivity. }
  destruct (sltb (rnorm f) rtiny) eqn:E.
  - destruct ns.
    + intro H. right. exact (G _ H).
    + intro H. injection H as <- <- <-. left. repeat split; reflexivity.
  - intro H. right. exact (G _ H).
Qed.

End CGSeq.

(* ------------------------------------------------------------------ *)
Section CGMath.
Context {S : Scalar}.
Local Notation vec := (vec S).
Hypothesis Sft : Sfield S.
Hypothesis Sreal : forall x : S, sadj x = x.
Add Field SFieldKM : Sft.
Let Srt : Sring S := F_R Sft.

Variable n : nat.
Variables A P : vec -> vec.
Hypothesis A_len : forall v, length v = n -> length (A v) = n.
Hypothesis P_len : forall v, length v = n -> length (P v) = n.
(* A and P are symmetric with respect to the inner product *)
Hypothesis A_sym : forall x y, length x = n -> length y = n -> rdot (A x) y = rdot x (A y).
Hypothesis P_sym : forall x y, length x = n -> length y = n -> rdot (P x) y = rdot x (P y).
Variables f x0 : vec.
Hypothesis Lf : length f = n.
Hypothesis Lx0 : length x0 = n.

Definition xk k := s_x (cgs_at A P f x0 k).
Definition rk k := s_r (cgs_at A P f x0 k).
Definition pk k := s_p (cgs_at A P f x0 k).
Definition rzk k := s_rz (cgs_at A P f x0 k).
Definition zk k := P (rk k).
Definition qk k := A (pk k).
Definition alpha k := rzk k / rdot (qk k) (pk k).
Definition beta k := rzk (SS k) / rzk k.

Lemma r_S k : rk (SS k) = vsub (rk k) (vscal (alpha k) (qk k)).
Proof. reflexivity. Qed.
Lemma p_S k : pk (SS k) = vadd (zk (SS k)) (vscal (beta k) (pk k)).
Proof. reflexivity. Qed.
Lemma x_S k : xk (SS k) = vadd (xk k) (vscal (alpha k) (pk k)).
Proof. reflexivity. Qed.
Lemma rz_def k : rzk k = rdot (rk k) (zk k).
Proof. destruct k; reflexivity. Qed.
Lemma p_0 : pk 0 = zk 0.
Proof. reflexivity. Qed.
Lemma r_0 : rk 0 = vsub f (A x0).
Proof. reflexivity. Qed.
Lemma x_0 : xk 0 = x0.
Proof. reflexivity. Qed.

Lemma len_k k : length (xk k) = n /\ length (rk k) = n /\ length (pk k) = n.
Proof.
  induction k as [|k (Lx & Lr & Lp)].
  - unfold xk, rk, pk; simpl. repeat split; auto using vsub_len, vadd_len, vscal_len.
  - rewrite x_S, r_S, p_S. unfold zk, qk. rewrite r_S. unfold qk.
    assert (length (vsub (rk k) (vscal (alpha k) (A (pk k)))) = n) by auto using vsub_len, vscal_len.
    repeat split; auto using vsub_len, vadd_len, vscal_len.
Qed.
Lemma len_x k : length (xk k) = n. Proof. apply len_k. Qed.
Lemma len_r k : length (rk k) = n. Proof. apply len_k. Qed.
Lemma len_p k : length (pk k) = n. Proof. apply len_k. Qed.
Lemma len_z k : length (zk k) = n. Proof. apply P_len, len_r. Qed.
Lemma len_q k : length (qk k) = n. Proof. apply A_len, len_p. Qed.
Hint Resolve len_x len_r len_p len_z len_q vsub_len vadd_len vscal_len vzeros_len : klen.
Ltac len := auto with klen.
Ltac vnth := repeat (rewrite ?(nth_vadd_n n), ?(nth_vsub_n n), ?(nth_vscal_n n) by len).
Ltac leq := match goal with |- length ?a = length ?b =>
              let La := fresh in let Lb := fresh in
              assert (La : length a = n) by len; assert (Lb : length b = n) by len; congruence end.

(* no breakdown before step k: the two denominators of steps 0..k-1 are non-zero *)
Definition nobreak k := forall j, j < k -> rzk j <> s0 /\ rdot (qk j) (pk j) <> s0.

Lemma nobreak_le k k' : k' <= k -> nobreak k -> nobreak k'.
Proof. intros L H j Hj. apply H. lia. Qed.

Definition CGI k :=
  (forall j, j < k -> rdot (rk k) (pk j) = s0) /\
  (forall j, j < k -> rdot (rk k) (zk j) = s0) /\
  (forall j, j < k -> rdot (pk k) (qk j) = s0) /\
  rdot (rk k) (pk k) = rzk k.

(* the residual step, tested against any vector *)
Lemma r_S_dot k v : length v = n ->
  rdot (rk (SS k)) v = rdot (rk k) v - alpha k * rdot (qk k) v.
Proof.
  intro L. rewrite r_S, (rdot_vsub_l Srt), (rdot_vscal_l Srt) by leq. reflexivity.
Qed.
Lemma r_S_dot_r k v : length v = n ->
  rdot v (rk (SS k)) = rdot v (rk k) - alpha k * rdot v (qk k).
Proof.
  intro L. rewrite !(rdot_sym Srt Sreal v). apply r_S_dot, L.
Qed.
Lemma p_S_dot_r k v : length v = n ->
  rdot v (pk (SS k)) = rdot v (zk (SS k)) + beta k * rdot v (pk k).
Proof.
  intro L. rewrite p_S, (rdot_vadd_r Srt Sreal), (rdot_vscal_r Srt Sreal) by leq. reflexivity.
Qed.
Lemma p_S_dot k v : length v = n ->
  rdot (pk (SS k)) v = rdot (zk (SS k)) v + beta k * rdot (pk k) v.
Proof.
  intro L. rewrite !(rdot_sym Srt Sreal _ v). apply p_S_dot_r, L.
Qed.

Lemma mul_eq0 (a b : S) : a <> s0 -> a * b = s0 -> b = s0.
Proof.
  intros Ha H. replace b with (sinv a * (a * b)) by (field; exact Ha). rewrite H. ring.
Qed.
Lemma div_neq0 (a b : S) : a <> s0 -> b <> s0 -> a / b <> s0.
Proof.
  intros Ha Hb H. apply Ha. replace a with (a / b * b) by (field; exact Hb). rewrite H. ring.
Qed.

Lemma CGI_0 : CGI 0.
Proof.
  split; [|split; [|split]]; try (intros j Hj; lia). rewrite p_0. symmetry. apply rz_def.
Qed.

Lemma CGI_S k : nobreak (SS k) -> CGI k -> CGI (SS k).
Proof.
  intros NB (I1 & I2 & I3 & I4).
  destruct (NB k (Nat.lt_succ_diag_r k)) as (Nrz & Nqp).
  (* 1: r_{k+1} is orthogonal to p_0..p_k *)
  assert (J1 : forall j, j < SS k -> rdot (rk (SS k)) (pk j) = s0).
  { intros j Hj. rewrite r_S_dot by len.
    destruct (Nat.eq_dec j k) as [->|Ne].
    - rewrite I4. unfold alpha. field. exact Nqp.
    - assert (Hjk : j < k) by lia. rewrite (I1 j Hjk).
      unfold qk at 1. rewrite A_sym by len. fold (qk j). rewrite (I3 j Hjk). ring. }
  (* 2: r_{k+1} is orthogonal to z_0..z_k *)
  assert (J2 : forall j, j < SS k -> rdot (rk (SS k)) (zk j) = s0).
  { intros [|j] Hj.
    - rewrite <- p_0. apply J1. lia.
    - pose proof (p_S_dot_r j (rk (SS k)) (len_r _)) as E.
      rewrite (J1 (SS j) Hj), (J1 j) in E by lia.
      replace (rdot (rk (SS k)) (zk (SS j)))
        with ((rdot (rk (SS k)) (zk (SS j)) + beta j * s0) - beta j * s0) by ring.
      rewrite <- E. ring. }
  (* z_{k+1} against the residuals *)
  assert (Z : forall i, i < SS k -> rdot (zk (SS k)) (rk i) = s0).
  { intros i Hi. unfold zk at 1. rewrite P_sym by len. fold (zk i). exact (J2 i Hi). }
  assert (Zk : rdot (zk (SS k)) (rk (SS k)) = rzk (SS k)).
  { rewrite (rdot_sym Srt Sreal). symmetry. apply rz_def. }
  (* 3: p_{k+1} is A-conjugate to p_0..p_k *)
  assert (J3 : forall j, j < SS k -> rdot (pk (SS k)) (qk j) = s0).
  { intros j Hj. rewrite p_S_dot by len.
    pose proof (r_S_dot_r j (zk (SS k)) (len_z _)) as E.
    destruct (NB j Hj) as (Nrzj & Nqpj).
    assert (Na : alpha j <> s0) by (apply div_neq0; assumption).
    destruct (Nat.eq_dec j k) as [->|Ne].
    - rewrite Zk, (Z k) in E by lia.
      apply (mul_eq0 (alpha k) _ Na).
      transitivity (- (s0 - alpha k * rdot (zk (SS k)) (qk k)) + alpha k * beta k * rdot (pk k) (qk k)); [ring|].
      rewrite <- E. unfold alpha, beta. rewrite (rdot_sym Srt Sreal (pk k) (qk k)). field. split; assumption.
    - assert (Hjk : j < k) by lia.
      rewrite (Z j), (Z (SS j)) in E by lia.
      assert (E2 : rdot (zk (SS k)) (qk j) = s0).
      { apply (mul_eq0 (alpha j) _ Na).
        transitivity (s0 - (s0 - alpha j * rdot (zk (SS k)) (qk j))); [ring|]. rewrite <- E. ring. }
      rewrite E2, (I3 j Hjk). ring. }
  (* 4 *)
  assert (J4 : rdot (rk (SS k)) (pk (SS k)) = rzk (SS k)).
  { rewrite p_S_dot_r by len. rewrite (J1 k) by lia. rewrite <- rz_def. ring. }
  exact (conj J1 (conj J2 (conj J3 J4))).
Qed.

Lemma CGI_all k : nobreak k -> CGI k.
Proof.
  induction k as [|k IH]; intro NB; [exact CGI_0|].
  apply CGI_S; [exact NB|]. apply IH. apply (nobreak_le (SS k)); [lia|exact NB].
Qed.

(* ---------------- orthogonality / conjugacy, in full ---------------- *)
Theorem cg_residuals_P_orthogonal k j : nobreak k -> j < k -> rdot (rk k) (P (rk j)) = s0.
Proof. intros NB Hj. destruct (CGI_all k NB) as (_ & I2 & _). exact (I2 j Hj). Qed.

Theorem cg_directions_A_conjugate k j : nobreak k -> j < k -> rdot (pk k) (A (pk j)) = s0.
Proof. intros NB Hj. destruct (CGI_all k NB) as (_ & _ & I3 & _). exact (I3 j Hj). Qed.

Theorem cg_residual_orth_directions k j : nobreak k -> j < k -> rdot (rk k) (pk j) = s0.
Proof. intros NB Hj. destruct (CGI_all k NB) as (I1 & _). exact (I1 j Hj). Qed.

Theorem cg_rz_is_r_dot_p k : nobreak k -> rdot (rk k) (pk k) = rdot (rk k) (P (rk k)).
Proof. intros NB. destruct (CGI_all k NB) as (_ & _ & _ & I4). rewrite I4. apply rz_def. Qed.

(* the successive versions (the `partial' statements of DESIGN 5/C05-B1) *)
Corollary cg_successive_residuals_orthogonal k : nobreak (SS k) -> rdot (rk (SS k)) (P (rk k)) = s0.
Proof. intro NB. apply cg_residuals_P_orthogonal; [exact NB|lia]. Qed.
Corollary cg_successive_directions_conjugate k : nobreak (SS k) -> rdot (pk (SS k)) (A (pk k)) = s0.
Proof. intro NB. apply cg_directions_A_conjugate; [exact NB|lia]. Qed.

(* ---------------- the carried residual is the residual; iterates live in x0 + span ---------------- *)
Hypothesis A_lin : linear_on n A.

Lemma rk_residual k : rk k = vsub f (A (xk k)).
Proof.
  induction k as [|k IH]; [reflexivity|].
  rewrite r_S, x_S, IH, (lin_add Srt n A A_lin), (lin_scal Srt n A A_len A_lin) by len.
  unfold qk. vext.
Qed.

(* generators: the search directions p_0 .. p_{k-1} *)
Definition Pgen k (v : vec) : Prop := exists j, j < k /\ v = pk j.
Lemma Pgen_len k v : Pgen k v -> length v = n.
Proof. intros (j & _ & ->). len. Qed.
Lemma Pgen_mono k k' v : k <= k' -> Pgen k v -> Pgen k' v.
Proof. intros L (j & Hj & E). exists j. split; [lia|exact E]. Qed.

Theorem cg_iterate_in_span k : span n (Pgen k) (vsub (xk k) x0).
Proof.
  induction k as [|k IH].
  - rewrite x_0. replace (vsub x0 x0) with (vzeros x0) by vext.
    rewrite (vzeros_zeron n x0 Lx0). apply sp_zero.
  - rewrite x_S.
    replace (vsub (vadd (xk k) (vscal (alpha k) (pk k))) x0)
      with (vadd (vsub (xk k) x0) (vscal (alpha k) (pk k))) by vext.
    apply sp_add.
    + apply (span_mono n (Pgen k)); [|exact IH]. intros v Hv. apply (Pgen_mono k); [lia|exact Hv].
    + apply sp_scal, sp_gen. exists k. split; [lia|reflexivity].
Qed.

(* Galerkin condition: r_k is orthogonal to the span of the directions used so far *)
Theorem cg_galerkin k : nobreak k -> forall v, span n (Pgen k) v -> rdot (rk k) v = s0.
Proof.
  intros NB. apply (span_orth_r Srt Sreal n); [apply Pgen_len|].
  intros v (j & Hj & ->). apply cg_residual_orth_directions; assumption.
Qed.

(* ---------------- the span of the directions IS the Krylov space K_k(PA, P r_0) ---------------- *)
Hypothesis P_lin : linear_on n P.
Definition PA (v : vec) : vec := P (A v).
Fixpoint PAi (i : nat) (v : vec) : vec := match i with O => v | SS i' => PA (PAi i' v) end.
(* generators: z0, (PA) z0, ..., (PA)^(k-1) z0 with z0 = P r0 = P (f - A x0) *)
Definition Kgen k (v : vec) : Prop := exists i, i < k /\ v = PAi i (zk 0).

Lemma PA_len v : length v = n -> length (PA v) = n.
Proof. intro L. unfold PA. auto. Qed.
Lemma PA_lin : linear_on n PA.
Proof.
  intros a x y Lx Ly. unfold PA. rewrite (A_lin a x y Lx Ly). apply P_lin; auto.
Qed.
Lemma PAi_len i v : length v = n -> length (PAi i v) = n.
Proof. intro L. induction i as [|i IH]; simpl; [exact L|apply PA_len, IH]. Qed.
Lemma Kgen_len k v : Kgen k v -> length v = n.
Proof. intros (i & _ & ->). apply PAi_len. len. Qed.
Lemma Kgen_mono k k' v : k <= k' -> Kgen k v -> Kgen k' v.
Proof. intros L (j & Hj & E). exists j. split; [lia|exact E]. Qed.

Lemma K_shift k v : span n (Kgen k) v -> span n (Kgen (SS k)) (PA v).
Proof.
  apply (span_map Srt n PA (Kgen k) (Kgen (SS k)) PA_len PA_lin (Kgen_len k)).
  intros u (i & Hi & ->). apply sp_gen. exists (SS i). split; [lia|reflexivity].
Qed.

Lemma z_S k : zk (SS k) = vsub (zk k) (vscal (alpha k) (PA (pk k))).
Proof.
  unfold zk at 1. rewrite r_S, (lin_sub Srt n P P_lin), (lin_scal Srt n P P_len P_lin) by len. reflexivity.
Qed.

Lemma zp_in_K j : span n (Kgen (SS j)) (zk j) /\ span n (Kgen (SS j)) (pk j).
Proof.
  induction j as [|j (IHz & IHp)].
  - split; apply sp_gen; exists 0; (split; [lia|reflexivity]).
  - assert (Hz : span n (Kgen (SS (SS j))) (zk (SS j))).
    { rewrite z_S. apply (span_sub Srt).
      - apply (span_mono n (Kgen (SS j))); [|exact IHz]. intros v. apply Kgen_mono. lia.
      - apply sp_scal, K_shift, IHp. }
    split; [exact Hz|]. rewrite p_S. apply sp_add; [exact Hz|]. apply sp_scal.
    apply (span_mono n (Kgen (SS j))); [|exact IHp]. intros v. apply Kgen_mono. lia.
Qed.

Theorem cg_directions_in_krylov k v : span n (Pgen k) v -> span n (Kgen k) v.
Proof.
  apply span_incl. intros u (j & Hj & ->).
  apply (span_mono n (Kgen (SS j))); [intros w; apply Kgen_mono; lia|apply zp_in_K].
Qed.

(* the converse needs the step lengths alpha_j to be non-zero *)
Lemma z_in_P j : span n (Pgen (SS j)) (zk j).
Proof.
  destruct j as [|j].
  - apply sp_gen. exists 0. split; [lia|apply p_0].
  - replace (zk (SS j)) with (vsub (pk (SS j)) (vscal (beta j) (pk j))).
    + apply (span_sub Srt); [|apply sp_scal]; apply sp_gen; [exists (SS j)|exists j]; (split; [lia|reflexivity]).
    + rewrite p_S. apply (vec_ext_n n); [len|len|]. intros i Hi. vnth. ring.
Qed.

Lemma PA_p_in_P j : alpha j <> s0 -> span n (Pgen (SS (SS j))) (PA (pk j)).
Proof.
  intro Na.
  replace (PA (pk j)) with (vscal (sinv (alpha j)) (vsub (zk j) (zk (SS j)))).
  - apply sp_scal, (span_sub Srt); [|apply z_in_P].
    apply (span_mono n (Pgen (SS j))); [intros w; apply Pgen_mono; lia|apply z_in_P].
  - rewrite z_S. pose proof (len_z j) as Lz. pose proof (PA_len (pk j) (len_p j)) as Lq.
    apply (vec_ext_n n); [len|exact Lq|]. intros i Hi. vnth. field. exact Na.
Qed.

Lemma P_shift k v : nobreak k -> span n (Pgen k) v -> span n (Pgen (SS k)) (PA v).
Proof.
  intro NB.
  apply (span_map Srt n PA (Pgen k) (Pgen (SS k)) PA_len PA_lin (Pgen_len k)).
  intros u (j & Hj & ->). destruct (NB j Hj) as (N1 & N2).
  apply (span_mono n (Pgen (SS (SS j)))); [intros w; apply Pgen_mono; lia|].
  apply PA_p_in_P, div_neq0; assumption.
Qed.

Lemma PAi_in_P i : nobreak i -> span n (Pgen (SS i)) (PAi i (zk 0)).
Proof.
  induction i as [|i IH]; intro NB.
  - apply z_in_P.
  - simpl. apply P_shift; [exact NB|]. apply IH. apply (nobreak_le (SS i)); [lia|exact NB].
Qed.

Theorem cg_krylov_in_directions k v : nobreak k -> span n (Kgen k) v -> span n (Pgen k) v.
Proof.
  intro NB. apply span_incl. intros u (i & Hi & ->).
  apply (span_mono n (Pgen (SS i))); [intros w; apply Pgen_mono; lia|].
  apply PAi_in_P. apply (nobreak_le k); [lia|exact NB].
Qed.

Theorem cg_iterate_in_krylov k : span n (Kgen k) (vsub (xk k) x0).
Proof. apply cg_directions_in_krylov, cg_iterate_in_span. Qed.

(* Galerkin condition on the Krylov space *)
Theorem cg_residual_orth_krylov k : nobreak k -> forall v, span n (Kgen k) v -> rdot (rk k) v = s0.
Proof. intros NB v Hv. apply cg_galerkin; [exact NB|]. apply cg_krylov_in_directions; assumption. Qed.


Hypothesis Ord : ordered S.

(* ---------------- no breakdown while the residual is non-zero (A, P positive definite) ---------------- *)
Section NoBreak.
Hypothesis A_pd : forall v, length v = n -> v <> zeron n -> olt s0 (rdot v (A v)).
Hypothesis P_pd : forall v, length v = n -> v <> zeron n -> olt s0 (rdot v (P v)).

Lemma olt_neq0 (a : S) : olt s0 a -> a <> s0.
Proof. intros H E. rewrite E in H. unfold olt in H. rewrite (o_irrefl S Ord) in H. discriminate. Qed.

Theorem cg_nobreak_while_residual_nonzero k : (forall j, j < k -> rk j <> zeron n) -> nobreak k.
Proof.
  induction k as [|k IH]; intros NZ j Hj; [lia|].
  assert (NB : nobreak k) by (apply IH; intros i Hi; apply NZ; lia).
  destruct (Nat.eq_dec j k) as [->|Ne]; [|apply NB; lia].
  assert (Nrz : rzk k <> s0).
  { rewrite rz_def. apply olt_neq0, P_pd; [len|apply NZ; lia]. }
  split; [exact Nrz|].
  rewrite (rdot_sym Srt Sreal). apply olt_neq0, A_pd; [len|].
  intro Ep. destruct (CGI_all k NB) as (_ & _ & _ & I4).
  rewrite Ep, (rdot_sym Srt Sreal), (rdot_zeron_l Srt) in I4. apply Nrz. symmetry. exact I4.
Qed.
End NoBreak.

(* ---------------- the error: A-orthogonality = optimality in algebraic form ---------------- *)
Variable xs : vec.
Hypothesis Lxs : length xs = n.
Hypothesis Hxs : A xs = f.
Definition ek k := vsub xs (xk k).
Lemma len_e k : length (ek k) = n.
Proof. unfold ek. len. Qed.
Lemma A_ek k : A (ek k) = rk k.
Proof. unfold ek. rewrite (lin_sub Srt n A A_lin), Hxs, rk_residual by len. reflexivity. Qed.

Theorem cg_error_A_orthogonal k : nobreak k ->
  forall v, span n (Pgen k) v -> rdot (ek k) (A v) = s0.
Proof.
  intros NB v Hv. pose proof (span_len n (Pgen k) (Pgen_len k) v Hv) as Lv.
  rewrite <- A_sym, A_ek by (auto using len_e). apply cg_galerkin; assumption.
Qed.

(* expansion of the energy of a perturbed error *)
Lemma energy_expand k v : nobreak k -> span n (Pgen k) v ->
  rdot (vadd (ek k) v) (A (vadd (ek k) v)) = rdot (ek k) (A (ek k)) + rdot v (A v).
Proof.
  intros NB Hv. pose proof (span_len n (Pgen k) (Pgen_len k) v Hv) as Lv.
  pose proof (len_e k) as Le.
  rewrite (lin_add Srt n A A_lin) by assumption.
  rewrite (rdot_vadd_l Srt), !(rdot_vadd_r Srt Sreal) by (rewrite ?A_len; congruence).
  rewrite (cg_error_A_orthogonal k NB v Hv).
  rewrite A_ek, (rdot_sym Srt Sreal v (rk k)), (cg_galerkin k NB v Hv). ring.
Qed.

(* ---------------- ordered field: A-norm optimality ---------------- *)

Section Optimal.
(* A positive semi-definite *)
Hypothesis A_psd : forall v, length v = n -> ole s0 (rdot v (A v)).

(* the error of x_k is A-norm minimal among all e_k + v, v in the span of the directions *)
Theorem cg_A_norm_optimal k : nobreak k -> forall v, span n (Pgen k) v ->
  ole (rdot (ek k) (A (ek k))) (rdot (vadd (ek k) v) (A (vadd (ek k) v))).
Proof.
  intros NB v Hv. rewrite (energy_expand k v NB Hv).
  pose proof (span_len n (Pgen k) (Pgen_len k) v Hv) as Lv.
  replace (rdot (ek k) (A (ek k))) with (rdot (ek k) (A (ek k)) + s0) at 1 by ring.
  apply (ole_add Srt Ord); [apply (ole_refl Ord)|apply A_psd, Lv].
Qed.

(* the same in terms of iterates: x_k has the smallest A-norm error in the affine space x0 + span *)
Definition err (y : vec) : S := rdot (vsub xs y) (A (vsub xs y)).
Theorem cg_iterate_optimal k : nobreak k ->
  forall y, length y = n -> span n (Pgen k) (vsub y x0) -> ole (err (xk k)) (err y).
Proof.
  intros NB y Ly Hy. unfold err. fold (ek k).
  assert (Hv : span n (Pgen k) (vsub (xk k) y)).
  { replace (vsub (xk k) y) with (vsub (vsub (xk k) x0) (vsub y x0)).
    - apply (span_sub Srt); [apply cg_iterate_in_span|exact Hy].
    - apply (vec_ext_n n); [len|len|]. intros i Hi. vnth. ring. }
  replace (vsub xs y) with (vadd (ek k) (vsub (xk k) y)).
  - apply cg_A_norm_optimal; assumption.
  - unfold ek. apply (vec_ext_n n); [len|len|]. intros i Hi. vnth. ring.
Qed.
End Optimal.


(* THE optimality theorem: x_k minimises the A-norm of the error over x0 + K_k(PA, P r0) *)
Theorem cg_minimises_A_norm_over_krylov k :
  (forall v, length v = n -> ole s0 (rdot v (A v))) -> nobreak k ->
  span n (Kgen k) (vsub (xk k) x0) /\
  forall y, length y = n -> span n (Kgen k) (vsub y x0) -> ole (err (xk k)) (err y).
Proof.
  intros A_psd NB. split; [apply cg_iterate_in_krylov|].
  intros y Ly Hy. apply cg_iterate_optimal; auto. apply cg_krylov_in_directions; assumption.
Qed.

End CGMath.

(* ------------------------------------------------------------------ *)
(* Transport to the workspace model of amgcl/solver/cg.hpp (Krylov.cg): the x it returns after
   k_it iterations IS the k_it-th state of the sequence above. *)
Section CGModel.
Context {S : Scalar}.
Local Notation vec := (vec S).
Hypothesis Srt : Sring S.
Hypothesis Seqb : seqb_spec S.
Variable n : nat.
Variables A P : vec -> vec.
Hypothesis A_len : forall v, length v = n -> length (A v) = n.
Hypothesis P_len : forall v, length v = n -> length (P v) = n.
Hypothesis A_lin : linear_on n A.

Theorem cg_model_returns_seq (prm : kprm) (f x0 : vec) junk nr r w :
  length f = n -> length x0 = n ->
  k_prologue norm_a prm f = Go nr ->
  cg A P prm f x0 junk = (KOk r, w) ->
  k_it r <= p_maxiter prm /\ k_x r = xk A P f x0 (k_it r).
Proof.
  intros Lf Lx Hp Hc.
  pose proof (cg_model_is_ref Srt Seqb n A P A_len P_len A_lin prm f x0 junk Lf Lx) as E.
  rewrite Hc in E. simpl in E.
  destruct (cg_ref A P (p_maxiter prm) (p_tol prm) (p_abstol prm) (p_ns prm) f x0) as [[[k res] x]|] eqn:R;
    simpl in E; [|discriminate].
  injection E as ->. simpl.
  destruct (cg_ref_returns_seq A P _ _ _ _ f x0 k res x R) as [(T1 & T2 & _)|(Hk & Hx & _)].
  - exfalso. unfold k_prologue in Hp. rewrite (norm_a_rnorm Srt), eps1_rtiny, T1, T2 in Hp. discriminate.
  - split; [exact Hk|exact Hx].
Qed.
End CGModel.

(* ------------------------------------------------------------------ *)
(* The headline statement on the model of cg.hpp: what Krylov.cg returns after k_it iterations
   has the smallest A-norm error in x0 + K_{k_it}(PA, P r0). *)
Section CGModelOptimal.
Context {S : Scalar}.
Local Notation vec := (vec S).
Hypothesis Sft : Sfield S.
Hypothesis Seqb : seqb_spec S.
Hypothesis Sreal : forall x : S, sadj x = x.
Hypothesis Ord : ordered S.
Variable n : nat.
Variables A P : vec -> vec.
Hypothesis A_len : forall v, length v = n -> length (A v) = n.
Hypothesis P_len : forall v, length v = n -> length (P v) = n.
Hypothesis A_sym : forall x y, length x = n -> length y = n -> rdot (A x) y = rdot x (A y).
Hypothesis P_sym : forall x y, length x = n -> length y = n -> rdot (P x) y = rdot x (P y).
Hypothesis A_lin : linear_on n A.
Hypothesis P_lin : linear_on n P.
Hypothesis A_psd : forall v, length v = n -> ole s0 (rdot v (A v)).

Theorem cg_model_minimises_A_norm (prm : kprm) (f x0 xs : vec) junk nr r w :
  length f = n -> length x0 = n -> length xs = n -> A xs = f ->
  k_prologue norm_a prm f = Go nr ->
  cg A P prm f x0 junk = (KOk r, w) ->
  nobreak A P f x0 (k_it r) ->
  span n (Kgen A P f x0 (k_it r)) (vsub (k_x r) x0) /\
  forall y, length y = n -> span n (Kgen A P f x0 (k_it r)) (vsub y x0) ->
    ole (err A xs (k_x r)) (err A xs y).
Proof.
  intros Lf Lx Lxs Hxs Hp Hc NB.
  destruct (cg_model_returns_seq (F_R Sft) Seqb n A P A_len P_len A_lin prm f x0 junk nr r w Lf Lx Hp Hc) as (_ & E).
  rewrite E.
  exact (cg_minimises_A_norm_over_krylov Sft Sreal n A P A_len P_len A_sym P_sym f x0 Lf Lx A_lin P_lin
           Ord xs Lxs Hxs (k_it r) A_psd NB).
Qed.

(* ... and its residual is orthogonal to that Krylov space (Galerkin) *)
Theorem cg_model_galerkin (prm : kprm) (f x0 : vec) junk nr r w :
  length f = n -> length x0 = n ->
  k_prologue norm_a prm f = Go nr ->
  cg A P prm f x0 junk = (KOk r, w) ->
  nobreak A P f x0 (k_it r) ->
  forall v, span n (Kgen A P f x0 (k_it r)) v -> rdot (vsub f (A (k_x r))) v = s0.
Proof.
  intros Lf Lx Hp Hc NB v Hv.
  destruct (cg_model_returns_seq (F_R Sft) Seqb n A P A_len P_len A_lin prm f x0 junk nr r w Lf Lx Hp Hc) as (_ & E).
  rewrite E, <- (rk_residual Sft n A P A_len P_len f x0 Lf Lx A_lin).
  exact (cg_residual_orth_krylov Sft Sreal n A P A_len P_len A_sym P_sym f x0 Lf Lx A_lin P_lin (k_it r) NB v Hv).
Qed.
End CGModelOptimal.
