(* InverseExact.v -- detail::inverse (Inverse.v) is exact for EVERY n:
   A * inverse(A) = I whenever the function returns (every chosen pivot non-zero).
   Induction over the elimination steps with an explicit invariant
   P A0 = L U (partial pivoting through the index vector p, inverted pivots stored on the
   diagonal), then the two triangular solves per column.   (C16 / A3) *)
From Coq Require Import Permutation.
From Amgcl Require Import Scalar Vec KernelsProofs DirectUtil Inverse DirectProofs StaticMatProofs InverseProofs CroutProofs.
Local Open Scope S_scope.
Local Open Scope nat_scope.

Section InvExact.
Context {S : Scalar}.
Local Notation vec := (vec S).
Hypothesis Sft : Sfield S.
Hypothesis Seqb : seqb_spec S.
Hypothesis sinv_0 : sinv (@s0 S) = s0.
Let SrtI : Sring S := F_R Sft.
Add Ring SRingInvX : SrtI.

Variable n : nat.

(* ---------- row-major cells ---------- *)
Definition mg (A : vec) (r j : nat) : S := vget A (r * n + j).

Lemma idx_inj r j r' j' : j < n -> j' < n -> r * n + j = r' * n + j' -> r = r' /\ j = j'.
Proof.
  intros Hj Hj' E. split.
  - rewrite <- (idx_div n r j Hj), <- (idx_div n r' j' Hj'). rewrite E. reflexivity.
  - rewrite <- (idx_mod n r j Hj), <- (idx_mod n r' j' Hj'). rewrite E. reflexivity.
Qed.

Lemma mg_lset (A : vec) r j v r' j' : r < n -> j < n -> j' < n -> length A = n * n ->
  mg (lset A (r * n + j) v) r' j' = if Nat.eqb r r' && Nat.eqb j j' then v else mg A r' j'.
Proof.
  intros Hr Hj Hj' HL. unfold mg. rewrite vget_lset.
  destruct (Nat.eqb_spec (r * n + j) (r' * n + j')) as [E|E].
  - destruct (idx_inj r j r' j' Hj Hj' E) as [-> ->]. rewrite !Nat.eqb_refl. simpl.
    destruct (Nat.ltb_spec (r' * n + j') (length A)); [reflexivity|]. rewrite HL in *. nia.
  - destruct (Nat.eqb_spec r r') as [->|]; [|reflexivity].
    destruct (Nat.eqb_spec j j') as [->|]; [congruence|reflexivity].
Qed.

(* ---------- elimination of one row ---------- *)
Definition upd_cell (A : vec) (col prow : nat) (d : S) (row j : nat) : S :=
  if Nat.ltb j col then mg A row j
  else if Nat.eqb j col then (mg A row col * d)%S
  else (mg A row j - mg A row col * d * mg A prow j)%S.

Lemma elim_row_spec col prow d row (A : vec) :
  row < n -> prow < n -> row <> prow -> col < n -> length A = n * n ->
  length (elim_row n col prow d row A) = n * n /\
  forall r' j', j' < n ->
    mg (elim_row n col prow d row A) r' j' =
    if Nat.eqb r' row then upd_cell A col prow d row j' else mg A r' j'.
Proof.
  intros Hrow Hprow Hne Hcol HL. unfold elim_row.
  set (A1 := lset A (row * n + col) (vget A (row * n + col) * d)%S).
  assert (HL1 : length A1 = n * n) by (unfold A1; rewrite lset_length; assumption).
  pose (P := fun j (A' : vec) => length A' = n * n /\
     forall r' j', j' < n -> mg A' r' j' =
       if Nat.eqb r' row then (if Nat.ltb j' j then upd_cell A col prow d row j' else mg A row j')
       else mg A r' j').
  assert (H : P (col + 1 + (n - (col + 1))) (for_loop (col + 1) (n - (col + 1)) (fun j A =>
      lset A (row * n + j) (vget A (row * n + j) - vget A (row * n + col) * vget A (prow * n + j))%S) A1)).
  { apply (for_loop_inv P).
    - split; [assumption|]. intros r' j' Hj'. unfold A1. rewrite mg_lset by assumption.
      rewrite (Nat.eqb_sym r' row). destruct (Nat.eqb_spec row r') as [<-|]; simpl; [|reflexivity].
      unfold upd_cell. destruct (Nat.eqb_spec col j') as [<-|Hn].
      + destruct (Nat.ltb_spec col (col + 1)); [|lia]. destruct (Nat.ltb_spec col col); [lia|].
        rewrite Nat.eqb_refl. reflexivity.
      + destruct (Nat.ltb_spec j' (col + 1)); [|reflexivity].
        destruct (Nat.ltb_spec j' col); [reflexivity|lia].
    - intros j A' Hj (HL' & Hv). split; [rewrite lset_length; assumption|].
      intros r' j' Hj'. rewrite mg_lset by (try assumption; lia).
      rewrite (Nat.eqb_sym r' row). destruct (Nat.eqb_spec row r') as [<-|Hnr]; simpl.
      + destruct (Nat.eqb_spec j j') as [<-|Hnj].
        * destruct (Nat.ltb_spec j (Datatypes.S j)); [|lia].
          change (vget A' (row * n + j)) with (mg A' row j). change (vget A' (row * n + col)) with (mg A' row col).
          change (vget A' (prow * n + j)) with (mg A' prow j).
          rewrite !Hv by lia. rewrite Nat.eqb_refl.
          destruct (Nat.eqb_spec prow row); [congruence|].
          destruct (Nat.ltb_spec j j); [lia|]. destruct (Nat.ltb_spec col j); [|lia].
          unfold upd_cell. destruct (Nat.ltb_spec col col); [lia|]. rewrite Nat.eqb_refl.
          destruct (Nat.ltb_spec j col); [lia|]. destruct (Nat.eqb_spec j col); [lia|]. reflexivity.
        * rewrite Hv by assumption. rewrite Nat.eqb_refl.
          destruct (Nat.ltb_spec j' j), (Nat.ltb_spec j' (Datatypes.S j)); try lia; reflexivity.
      + rewrite Hv by assumption. destruct (Nat.eqb_spec r' row); [congruence|reflexivity]. }
  replace (col + 1 + (n - (col + 1))) with n in H by lia.
  destruct H as [HLf Hv]. split; [assumption|]. intros r' j' Hj'. rewrite Hv by assumption.
  destruct (Nat.eqb r' row); [|reflexivity]. destruct (Nat.ltb_spec j' n); [reflexivity|lia].
Qed.

(* ---------- index vectors ---------- *)
Definition PermOK (p : list nat) : Prop := length p = n /\ NoDup p /\ forall x, In x p -> x < n.

Lemma PermOK_inj p i m : PermOK p -> i < n -> m < n -> nth i p 0 = nth m p 0 -> i = m.
Proof. intros (HL & Hnd & _) Hi Hm E. apply (proj1 (NoDup_nth p 0) Hnd); [lia|lia|exact E]. Qed.
Lemma PermOK_lt p i : PermOK p -> i < n -> nth i p 0 < n.
Proof. intros (HL & _ & Hr) Hi. apply Hr. apply nth_In. lia. Qed.
Lemma PermOK_surj p r : PermOK p -> r < n -> exists i, i < n /\ nth i p 0 = r.
Proof.
  intros (HL & Hnd & Hr) Hrn.
  assert (Hp : Permutation p (seq 0 n)).
  { apply NoDup_Permutation_bis; [assumption|rewrite seq_length; lia|].
    intros x Hx. apply in_seq. specialize (Hr x Hx). lia. }
  assert (Hin : In r p) by (eapply Permutation_in; [apply Permutation_sym; eassumption|apply in_seq; lia]).
  destruct (In_nth p r 0 Hin) as (i & Hi & E). exists i. split; [lia|exact E].
Qed.
Lemma PermOK_seq : PermOK (seq 0 n).
Proof. split; [apply seq_length|]. split; [apply seq_NoDup|]. intros x Hx. apply in_seq in Hx. lia. Qed.

Lemma swap_nth p i j k : i < length p -> j < length p ->
  nth k (swap_idx p i j) 0 = if Nat.eqb k j then nth i p 0 else if Nat.eqb k i then nth j p 0 else nth k p 0.
Proof.
  intros Hi Hj. unfold swap_idx. rewrite !lset_nth, !lset_length.
  destruct (Nat.eqb_spec j k) as [->|]; [rewrite Nat.eqb_refl|].
  - destruct (Nat.ltb_spec k (length p)); [reflexivity|lia].
  - destruct (Nat.eqb_spec k j); [lia|]. destruct (Nat.eqb_spec i k) as [->|].
    + rewrite Nat.eqb_refl. destruct (Nat.ltb_spec k (length p)); [reflexivity|lia].
    + destruct (Nat.eqb_spec k i); [lia|reflexivity].
Qed.

Lemma In_lset {X} (l : list X) k v x : In x (lset l k v) -> x = v \/ In x l.
Proof.
  revert k. induction l as [|a l IH]; intros [|k] H; simpl in *; try tauto.
  - destruct H as [->|H]; [left; reflexivity|right; right; assumption].
  - destruct H as [->|H]; [right; left; reflexivity|]. destruct (IH k H); [left|right; right]; assumption.
Qed.

Lemma PermOK_swap p i j : PermOK p -> i < n -> j < n -> PermOK (swap_idx p i j).
Proof.
  intros HP Hi Hj. pose proof HP as (HL & Hnd & Hr).
  split; [unfold swap_idx; rewrite !lset_length; assumption|]. split.
  - apply (NoDup_nth _ 0). unfold swap_idx at 1 2. rewrite !lset_length, HL. intros a b Ha Hb.
    rewrite !swap_nth by lia. intro E.
    destruct (Nat.eqb_spec a j), (Nat.eqb_spec a i), (Nat.eqb_spec b j), (Nat.eqb_spec b i); subst; try lia;
      try (apply (PermOK_inj p _ _ HP) in E; lia).
  - intros x Hx. unfold swap_idx in Hx. apply In_lset in Hx. destruct Hx as [->|Hx].
    + apply Hr, nth_In. lia.
    + apply In_lset in Hx. destruct Hx as [->|Hx]; [apply Hr, nth_In; lia|apply Hr; assumption].
Qed.

Lemma find_pivot_range (A : vec) p col : col < n -> col <= find_pivot n A p col < n.
Proof.
  intro Hc. unfold find_pivot.
  pose (P := fun i (pm : nat * S) => col <= fst pm < Nat.max (col + 1) i).
  match goal with |- _ <= fst ?X < _ => assert (H : P (col + (n - col)) X) end.
  { apply (for_loop_inv P).
    - unfold P. simpl. lia.
    - intros i pm Hi HP. unfold P in *. destruct (sltb (snd pm) _); simpl; lia. }
  unfold P in H. lia.
Qed.

(* ---------- the elimination loop over the remaining positions ---------- *)
Lemma elim_loop_spec col p d (A : vec) : PermOK p -> col < n -> length A = n * n ->
  length (for_loop (col + 1) (n - (col + 1)) (fun i A => elim_row n col (nth col p 0) d (nth i p 0) A) A) = n * n /\
  forall i j, i < n -> j < n ->
    mg (for_loop (col + 1) (n - (col + 1)) (fun i A => elim_row n col (nth col p 0) d (nth i p 0) A) A) (nth i p 0) j
    = if Nat.ltb col i then upd_cell A col (nth col p 0) d (nth i p 0) j else mg A (nth i p 0) j.
Proof.
  intros HP Hc HL. set (prow := nth col p 0).
  assert (Hprow : prow < n) by (apply PermOK_lt; assumption).
  pose (Q := fun m (A' : vec) => length A' = n * n /\
     forall i j, i < n -> j < n -> mg A' (nth i p 0) j =
       if Nat.ltb col i && Nat.ltb i m then upd_cell A col prow d (nth i p 0) j else mg A (nth i p 0) j).
  match goal with |- length ?X = _ /\ _ => assert (H : Q (col + 1 + (n - (col + 1))) X) end.
  { apply (for_loop_inv Q).
    - split; [assumption|]. intros i j Hi Hj.
      destruct (Nat.ltb_spec col i), (Nat.ltb_spec i (col + 1)); simpl; try reflexivity. lia.
    - intros m A' Hm (HL' & Hv).
      assert (Hrow : nth m p 0 < n) by (apply PermOK_lt; [assumption|lia]).
      assert (Hne : nth m p 0 <> prow).
      { intro E. apply (PermOK_inj p m col HP) in E; lia. }
      destruct (elim_row_spec col prow d (nth m p 0) A' Hrow Hprow Hne Hc HL') as [HL2 Hv2].
      split; [assumption|]. intros i j Hi Hj. rewrite Hv2 by assumption.
      destruct (Nat.eqb_spec (nth i p 0) (nth m p 0)) as [E|E].
      + apply (PermOK_inj p i m HP) in E; try lia. subst i.
        destruct (Nat.ltb_spec col m); [|lia]. destruct (Nat.ltb_spec m (Datatypes.S m)); [|lia]. simpl.
        unfold upd_cell.
        assert (E1 : forall j', j' < n -> mg A' (nth m p 0) j' = mg A (nth m p 0) j').
        { intros j' Hj'. rewrite Hv by (try assumption; lia).
          destruct (Nat.ltb_spec m m); [lia|]. rewrite Bool.andb_false_r. reflexivity. }
        assert (E2 : forall j', j' < n -> mg A' prow j' = mg A prow j').
        { intros j' Hj'. unfold prow. rewrite Hv by (try assumption; lia).
          destruct (Nat.ltb_spec col col); [lia|]. reflexivity. }
        rewrite !E1, !E2 by assumption. reflexivity.
      + rewrite Hv by assumption. assert (i <> m) by (intro; subst; apply E; reflexivity).
        destruct (Nat.ltb_spec col i), (Nat.ltb_spec i m), (Nat.ltb_spec i (Datatypes.S m)); simpl; try reflexivity; lia. }
  replace (col + 1 + (n - (col + 1))) with n in H by lia.
  destruct H as [HLf Hv]. split; [assumption|]. intros i j Hi Hj. rewrite Hv by assumption.
  destruct (Nat.ltb_spec i n); [|lia]. rewrite Bool.andb_true_r. reflexivity.
Qed.

(* ---------- one column of the factorisation, on the permuted view ---------- *)
Definition view (A : vec) (p : list nat) (i j : nat) : S := mg A (nth i p 0) j.

Lemma lu_col_spec col (A : vec) p A' p' : PermOK p -> col < n -> length A = n * n ->
  lu_col n col (A, p) = Some (A', p') ->
  exists m, col <= m < n /\ p' = swap_idx p col m /\ PermOK p' /\ length A' = n * n /\
    view A p' col col <> s0 /\
    forall i j, i < n -> j < n -> view A' p' i j =
      if Nat.eqb i col && Nat.eqb j col then sinv (view A p' col col)
      else if Nat.ltb col i then
             (if Nat.ltb j col then view A p' i j
              else if Nat.eqb j col then (view A p' i col * sinv (view A p' col col))%S
              else (view A p' i j - view A p' i col * sinv (view A p' col col) * view A p' col j)%S)
           else view A p' i j.
Proof.
  intros HP Hc HL H. unfold lu_col in H.
  pose proof (find_pivot_range A p col Hc) as Hm. set (m := find_pivot n A p col) in *.
  set (q := swap_idx p col m) in *.
  assert (HQ : PermOK q) by (apply PermOK_swap; [assumption|lia|lia]).
  set (prow := nth col q 0) in *.
  assert (Hprow : prow < n) by (apply PermOK_lt; assumption).
  destruct (is_zero (sinv (vget A (prow * n + col)))) eqn:Ez; [discriminate|].
  injection H as <- <-.
  destruct (elim_loop_spec col q (sinv (vget A (prow * n + col))) A HQ Hc HL) as [HL2 Hv2].
  fold prow in HL2, Hv2.
  set (Al := for_loop (col + 1) (n - (col + 1))
               (fun i A0 => elim_row n col prow (sinv (vget A (prow * n + col))) (nth i q 0) A0) A) in *.
  exists m. split; [lia|]. split; [reflexivity|]. split; [assumption|]. split; [rewrite lset_length; assumption|].
  change (vget A (prow * n + col)) with (view A q col col) in *.
  split; [apply (inv_nz Seqb sinv_0); assumption|].
  intros i j Hi Hj. unfold view at 1. rewrite mg_lset by assumption.
  destruct (Nat.eqb_spec prow (nth i q 0)) as [E|E].
  - apply (PermOK_inj q col i HQ) in E; try assumption. subst i. rewrite Nat.eqb_refl. simpl.
    rewrite (Nat.eqb_sym col j). destruct (Nat.eqb_spec j col) as [->|]; [reflexivity|].
    rewrite Hv2 by assumption. destruct (Nat.ltb_spec col col); [lia|]. reflexivity.
  - assert (i <> col) by (intro; subst; apply E; reflexivity).
    destruct (Nat.eqb_spec i col); [lia|]. simpl.
    rewrite Hv2 by assumption. destruct (Nat.ltb col i); [|reflexivity].
    unfold upd_cell, view. fold prow. reflexivity.
Qed.

(* ---------- the invariant  P A0 = L U  (function level) ---------- *)
Definition Lc (c : nat) (W : nat -> nat -> S) (i t : nat) : S :=
  if Nat.ltb t i && Nat.ltb t c then W i t else s0.
Definition Uc (c : nat) (W : nat -> nat -> S) (t j : nat) : S :=
  if Nat.ltb t c then (if Nat.ltb t j then W t j else if Nat.eqb t j then sinv (W t t) else s0) else s0.
Definition Rc (c : nat) (W : nat -> nat -> S) (i j : nat) : S :=
  if Nat.ltb i c then s0 else if Nat.leb c j then W i j else s0.
Definition FI (c : nat) (B W : nat -> nat -> S) : Prop :=
  forall i j, i < n -> j < n ->
    B i j = (sumn (fun t => Lc c W i t * Uc c W t j) n + Uc c W i j + Rc c W i j)%S.

Definition sig (c m i : nat) : nat := if Nat.eqb i m then c else if Nat.eqb i c then m else i.

Lemma FI_swap c m (B W : nat -> nat -> S) : c <= m -> m < n -> FI c B W ->
  FI c (fun i j => B (sig c m i) j) (fun i j => W (sig c m i) j).
Proof.
  intros Hcm Hm H i j Hi Hj.
  assert (Hs : sig c m i < n) by (unfold sig; destruct (Nat.eqb i m), (Nat.eqb i c); lia).
  rewrite (H (sig c m i) j Hs Hj).
  assert (Hlow : forall t, t < c -> sig c m t = t).
  { intros t Ht. unfold sig. destruct (Nat.eqb_spec t m); [lia|]. destruct (Nat.eqb_spec t c); [lia|reflexivity]. }
  assert (Hhigh : c <= i -> c <= sig c m i) by (intro; unfold sig; destruct (Nat.eqb i m), (Nat.eqb i c); lia).
  assert (EU : forall t j', Uc c (fun a b => W (sig c m a) b) t j' = Uc c W t j').
  { intros t j'. unfold Uc. destruct (Nat.ltb_spec t c); [|reflexivity]. rewrite Hlow by assumption. reflexivity. }
  f_equal; [f_equal|].
  - apply sumn_ext. intros t Ht. rewrite EU. f_equal. unfold Lc.
    destruct (Nat.ltb_spec t c); [|rewrite !Bool.andb_false_r; reflexivity].
    destruct (Nat.lt_ge_cases i c) as [Hic|Hic].
    + rewrite Hlow by assumption. reflexivity.
    + specialize (Hhigh Hic). destruct (Nat.ltb_spec t (sig c m i)), (Nat.ltb_spec t i); try lia. reflexivity.
  - destruct (Nat.lt_ge_cases i c) as [Hic|Hic].
    + rewrite Hlow by assumption. symmetry. apply EU.
    + specialize (Hhigh Hic). unfold Uc. destruct (Nat.ltb_spec (sig c m i) c), (Nat.ltb_spec i c); try lia. reflexivity.
  - unfold Rc. destruct (Nat.lt_ge_cases i c) as [Hic|Hic].
    + rewrite Hlow by assumption. reflexivity.
    + specialize (Hhigh Hic). destruct (Nat.ltb_spec (sig c m i) c), (Nat.ltb_spec i c); try lia. reflexivity.
Qed.

Lemma FI_step c (B W W' : nat -> nat -> S) : c < n -> W c c <> s0 ->
  (forall i j, i < n -> j < n -> W' i j =
      if Nat.eqb i c && Nat.eqb j c then sinv (W c c)
      else if Nat.ltb c i then
             (if Nat.ltb j c then W i j
              else if Nat.eqb j c then (W i c * sinv (W c c))%S
              else (W i j - W i c * sinv (W c c) * W c j)%S)
           else W i j) ->
  FI c B W -> FI (Datatypes.S c) B W'.
Proof.
  intros Hc Hpiv Hrel H i j Hi Hj. rewrite (H i j Hi Hj).
  set (d := sinv (W c c)) in *.
  assert (Hd : (d * W c c = s1)%S) by (apply (Finv_l Sft); assumption).
  assert (Hdd : sinv d = W c c) by (apply (sinv_invol Sft); assumption).
  (* the sum gains the term t = c *)
  assert (Esum : sumn (fun t => (Lc (Datatypes.S c) W' i t * Uc (Datatypes.S c) W' t j)%S) n
               = (sumn (fun t => (Lc c W i t * Uc c W t j)%S) n
                  + Lc (Datatypes.S c) W' i c * Uc (Datatypes.S c) W' c j)%S).
  { transitivity (sumn (fun t => (Lc c W i t * Uc c W t j
                     + (if Nat.eqb c t then Lc (Datatypes.S c) W' i c * Uc (Datatypes.S c) W' c j else s0))%S) n).
    - apply sumn_ext. intros t Ht. destruct (Nat.eqb_spec c t) as [<-|Hne].
      + unfold Lc at 2. destruct (Nat.ltb_spec c c); [lia|]. rewrite Bool.andb_false_r. ring.
      + destruct (Nat.lt_ge_cases t c) as [Htc|Htc].
        * assert (EL : Lc (Datatypes.S c) W' i t = Lc c W i t).
          { unfold Lc. destruct (Nat.ltb_spec t (Datatypes.S c)); [|lia]. destruct (Nat.ltb_spec t c); [|lia].
            destruct (Nat.ltb_spec t i); simpl; [|reflexivity]. rewrite Hrel by lia.
            destruct (Nat.eqb_spec t c); [lia|]. rewrite Bool.andb_false_r.
            destruct (Nat.ltb_spec c i); [|reflexivity]. destruct (Nat.ltb_spec t c); [reflexivity|lia]. }
          assert (EU : Uc (Datatypes.S c) W' t j = Uc c W t j).
          { unfold Uc. destruct (Nat.ltb_spec t (Datatypes.S c)); [|lia]. destruct (Nat.ltb_spec t c); [|lia].
            rewrite !Hrel by lia. destruct (Nat.eqb_spec t c); [lia|]. simpl.
            destruct (Nat.ltb_spec c t); [lia|]. reflexivity. }
          rewrite EL, EU. ring.
        * unfold Lc. destruct (Nat.ltb_spec t (Datatypes.S c)); [lia|]. destruct (Nat.ltb_spec t c); [lia|].
          rewrite !Bool.andb_false_r. ring.
    - rewrite (sumn_add SrtI), (sumn_delta SrtI). destruct (Nat.ltb_spec c n); [reflexivity|lia]. }
  rewrite Esum. set (sm := sumn (fun t => (Lc c W i t * Uc c W t j)%S) n).
  (* what remains is a pointwise identity *)
  destruct (Nat.lt_trichotomy i c) as [Hic|[Hic|Hic]]; destruct (Nat.lt_trichotomy j c) as [Hjc|[Hjc|Hjc]];
    try subst i; try subst j;
    unfold Lc, Uc, Rc; rewrite ?Hrel by lia; fold d;
    repeat (match goal with
            | |- context [Nat.ltb ?a ?b] => destruct (Nat.ltb_spec a b); try lia
            | |- context [Nat.leb ?a ?b] => destruct (Nat.leb_spec a b); try lia
            | |- context [Nat.eqb ?a ?b] => destruct (Nat.eqb_spec a b); try lia
            end; cbn [andb]); rewrite ?Hrel by lia; fold d; rewrite ?Hdd;
    repeat (match goal with
            | |- context [Nat.ltb ?a ?b] => destruct (Nat.ltb_spec a b); try lia
            | |- context [Nat.leb ?a ?b] => destruct (Nat.leb_spec a b); try lia
            | |- context [Nat.eqb ?a ?b] => destruct (Nat.eqb_spec a b); try lia
            end; cbn [andb]); try ring; ring [Hd].
Qed.

Lemma FI_ext c (B W B' W' : nat -> nat -> S) :
  (forall i j, B' i j = B i j) -> (forall i j, W' i j = W i j) -> FI c B W -> FI c B' W'.
Proof.
  intros HB HW H i j Hi Hj. rewrite HB, (H i j Hi Hj).
  assert (EL : forall a t, Lc c W' a t = Lc c W a t) by (intros; unfold Lc; rewrite HW; reflexivity).
  assert (EU : forall t b, Uc c W' t b = Uc c W t b) by (intros; unfold Uc; rewrite !HW; reflexivity).
  assert (ER : forall a b, Rc c W' a b = Rc c W a b) by (intros; unfold Rc; rewrite HW; reflexivity).
  rewrite EU, ER. f_equal. f_equal. apply sumn_ext. intros t Ht. rewrite EL, EU. reflexivity.
Qed.

Lemma view_swap (X : vec) p c m i j : PermOK p -> c < n -> m < n ->
  view X (swap_idx p c m) i j = view X p (sig c m i) j.
Proof.
  intros (HL & _) Hc Hm. unfold view. rewrite swap_nth by lia. unfold sig.
  destruct (Nat.eqb i m); [reflexivity|]. destruct (Nat.eqb i c); reflexivity.
Qed.

(* ---------- the factorisation phase ---------- *)
Variable A0 : vec.
Hypothesis HA0 : length A0 = n * n.

Definition FInv (c : nat) (Ap : vec * list nat) : Prop :=
  PermOK (snd Ap) /\ length (fst Ap) = n * n /\
  (forall t, t < c -> view (fst Ap) (snd Ap) t t <> s0) /\
  FI c (view A0 (snd Ap)) (view (fst Ap) (snd Ap)).

Lemma FInv_step c (A : vec) p A' p' : c < n -> FInv c (A, p) -> lu_col n c (A, p) = Some (A', p') ->
  FInv (Datatypes.S c) (A', p').
Proof.
  intros Hc (HP & HL & Hdiag & HFI) Hcol. cbn [fst snd] in *.
  destruct (lu_col_spec c A p A' p' HP Hc HL Hcol) as (m & Hm & Ep & HP' & HL' & Hpiv & Hrel).
  assert (HFI' : FI c (view A0 p') (view A p')).
  { eapply FI_ext; [| |apply (FI_swap c m _ _ (proj1 Hm) (proj2 Hm) HFI)].
    - intros i j. rewrite Ep. apply view_swap; [assumption|lia|lia].
    - intros i j. rewrite Ep. apply view_swap; [assumption|lia|lia]. }
  split; [assumption|]. split; [assumption|]. split.
  - intros t Ht. cbn [fst snd]. rewrite Hrel by lia.
    destruct (Nat.eqb_spec t c) as [->|Hne].
    + simpl. apply (sinv_nonzero Sft). assumption.
    + simpl. destruct (Nat.ltb_spec c t); [lia|].
      rewrite Ep, view_swap by (try assumption; lia). unfold sig.
      destruct (Nat.eqb_spec t m); [lia|]. destruct (Nat.eqb_spec t c); [lia|]. apply Hdiag. lia.
  - cbn [fst snd]. apply (FI_step c _ (view A p') (view A' p') Hc Hpiv Hrel HFI').
Qed.

Lemma sumn_zero_fun (F : nat -> S) k : (forall t, t < k -> F t = s0) -> sumn F k = s0.
Proof.
  intro H. transitivity (sumn (fun _ : nat => @s0 S) k); [apply sumn_ext; assumption|apply (sumn_zero SrtI)].
Qed.

Theorem lu_factor_spec (A : vec) p : lu_factor n A0 = Some (A, p) -> FInv n (A, p).
Proof.
  intro H. unfold lu_factor in H.
  pose (P := fun c (o : option (vec * list nat)) => match o with None => True | Some Ap => FInv c Ap end).
  assert (HP : P (0 + n) (for_loop 0 n (fun col o => match o with None => None | Some Ap => lu_col n col Ap end)
                                   (Some (A0, seq 0 n)))).
  { apply (for_loop_inv P).
    - simpl. split; [apply PermOK_seq|]. split; [assumption|]. split; [intros; lia|].
      intros i j Hi Hj. cbn [fst snd]. rewrite sumn_zero_fun.
      + unfold Uc, Rc. simpl. ring.
      + intros t Ht. unfold Lc. rewrite Bool.andb_false_r. ring.
    - intros c o Hc Ho. destruct o as [[A1 p1]|]; [|exact I]. simpl in Ho.
      destruct (lu_col n c (A1, p1)) as [[A2 p2]|] eqn:Ec; [|exact I].
      simpl. eapply FInv_step; [lia|exact Ho|exact Ec]. }
  rewrite H in HP. exact HP.
Qed.

(* ---------- the two triangular solves of one column ---------- *)
Section Solve.
Variable A : vec.
Variable p : list nat.
Hypothesis HPp : PermOK p.
Hypothesis HLA : length A = n * n.
Local Notation W := (view A p).

Lemma low_phase k (t : vec) : k < n -> length t = n * n ->
  length (for_loop 0 n (low_body n A p k) t) = n * n /\
  (forall i j, j < n -> j <> k -> mg (for_loop 0 n (low_body n A p k) t) i j = mg t i j) /\
  forall i, i < n ->
    mg (for_loop 0 n (low_body n A p k) t) i k =
    ((if Nat.eqb (nth i p 0) k then s1 else s0)
     - sumn (fun j => W i j * mg (for_loop 0 n (low_body n A p k) t) j k) i)%S.
Proof.
  intros Hk HL.
  pose (P := fun i (t' : vec) => length t' = n * n /\
     (forall i' j, j < n -> j <> k -> mg t' i' j = mg t i' j) /\
     forall i', i' < i -> mg t' i' k =
       ((if Nat.eqb (nth i' p 0) k then s1 else s0) - sumn (fun j => W i' j * mg t' j k) i')%S).
  assert (H : P (0 + n) (for_loop 0 n (low_body n A p k) t)).
  { apply (for_loop_inv P).
    - split; [assumption|]. split; [reflexivity|]. intros; lia.
    - intros i t' Hi (HL' & Hfr & Hrow). unfold low_body. cbv zeta.
      rewrite (sub_loop Sft (fun j => (vget A (nth i p 0 * n + j) * vget t' (j * n + k))%S)).
      split; [rewrite lset_length; assumption|]. split.
      + intros i' j Hj Hne. rewrite mg_lset by (try assumption; lia).
        destruct (Nat.eqb_spec k j); [lia|]. rewrite Bool.andb_false_r. apply Hfr; assumption.
      + assert (Hsame : forall i', i' <= i -> sumn (fun j => (W i' j * mg (lset t' (i * n + k)
              ((if Nat.eqb (nth i p 0) k then s1 else s0)
               - sumn (fun u => (vget A (nth i p 0 * n + (0 + u)) * vget t' ((0 + u) * n + k))%S) i)%S) j k)%S) i'
            = sumn (fun j => (W i' j * mg t' j k)%S) i').
        { intros i' Hi'. apply sumn_ext. intros j Hj. rewrite mg_lset by (try assumption; lia).
          destruct (Nat.eqb_spec i j); [lia|]. reflexivity. }
        intros i' Hi'. rewrite Hsame by lia. rewrite mg_lset by (try assumption; lia). rewrite Nat.eqb_refl.
        destruct (Nat.eqb_spec i i') as [<-|Hne]; cbn [andb].
        * reflexivity.
        * apply Hrow. lia. }
  destruct H as (H1 & H2 & H3). split; [assumption|]. split; assumption.
Qed.

Lemma up_inner k i (s : list S) : k < n -> i < n -> length s = n * n ->
  let body := fun j (t : list S) => lset t (i * n + k)
                 (vget t (i * n + k) - vget A (nth i p 0 * n + j) * vget t (j * n + k))%S in
  length (for_loop (i + 1) (n - (i + 1)) body s) = n * n /\
  (forall r' j', j' < n -> (r' <> i \/ j' <> k) -> mg (for_loop (i + 1) (n - (i + 1)) body s) r' j' = mg s r' j') /\
  mg (for_loop (i + 1) (n - (i + 1)) body s) i k =
    (mg s i k - sumn (fun u => W i (i + 1 + u) * mg s (i + 1 + u) k) (n - (i + 1)))%S.
Proof.
  intros Hk Hi HL body.
  pose (R := fun j (s' : list S) => length s' = n * n /\
     (forall r' j', j' < n -> (r' <> i \/ j' <> k) -> mg s' r' j' = mg s r' j') /\
     mg s' i k = (mg s i k - sumn (fun u => W i (i + 1 + u) * mg s (i + 1 + u) k) (j - (i + 1)))%S).
  assert (H : R (i + 1 + (n - (i + 1))) (for_loop (i + 1) (n - (i + 1)) body s)).
  { apply (for_loop_inv R).
    - split; [assumption|]. split; [reflexivity|]. rewrite Nat.sub_diag. simpl. ring.
    - intros j s' Hj (HL' & Hfr & Hcell). unfold body.
      split; [rewrite lset_length; assumption|]. split.
      + intros r' j' Hj' Hne. rewrite mg_lset by (try assumption; lia).
        destruct (Nat.eqb_spec i r'), (Nat.eqb_spec k j'); cbn [andb]; try (apply Hfr; assumption). lia.
      + rewrite mg_lset by (try assumption; lia). rewrite !Nat.eqb_refl. cbn [andb].
        change (vget s' (i * n + k)) with (mg s' i k). change (vget s' (j * n + k)) with (mg s' j k).
        rewrite Hcell. rewrite (Hfr j k Hk) by lia.
        replace (Datatypes.S j - (i + 1)) with (Datatypes.S (j - (i + 1))) by lia. simpl sumn.
        replace (i + 1 + (j - (i + 1))) with j by lia. unfold view, mg. ring. }
  replace (i + 1 + (n - (i + 1))) with n in H by lia. exact H.
Qed.

Lemma up_phase k (t1 : vec) : k < n -> length t1 = n * n ->
  length (for_down 0 n (up_body n A p k) t1) = n * n /\
  (forall i j, j < n -> j <> k -> mg (for_down 0 n (up_body n A p k) t1) i j = mg t1 i j) /\
  forall i, i < n ->
    mg (for_down 0 n (up_body n A p k) t1) i k =
    ((mg t1 i k - sumn (fun j => if Nat.leb (Datatypes.S i) j
                                 then W i j * mg (for_down 0 n (up_body n A p k) t1) j k else s0) n)
     * W i i)%S.
Proof.
  intros Hk HL.
  pose (Q := fun i (t' : vec) => length t' = n * n /\
     (forall i' j, j < n -> j <> k -> mg t' i' j = mg t1 i' j) /\
     (forall i', i' < i -> mg t' i' k = mg t1 i' k) /\
     forall i', i <= i' -> i' < n -> mg t' i' k =
       ((mg t1 i' k - sumn (fun j => if Nat.leb (Datatypes.S i') j then W i' j * mg t' j k else s0) n) * W i' i')%S).
  assert (H : Q 0 (for_down 0 n (up_body n A p k) t1)).
  { apply (for_down_inv Q).
    - split; [assumption|]. split; [reflexivity|]. split; [reflexivity|]. intros; lia.
    - intros i t' Hi (HL' & Hfr & Hlow & Hhigh). unfold up_body. cbv zeta.
      pose proof (up_inner k i t' Hk ltac:(lia) HL') as Hin. cbv zeta in Hin.
      set (s' := for_loop (i + 1) (n - (i + 1)) (fun j t => lset t (i * n + k)
                   (vget t (i * n + k) - vget A (nth i p 0 * n + j) * vget t (j * n + k))%S) t') in *.
      destruct Hin as (HLs & Hfrs & Hcell).
      assert (Hcell' : mg s' i k = (mg t1 i k - sumn (fun j => if Nat.leb (Datatypes.S i) j then W i j * mg t' j k else s0) n)%S).
      { rewrite Hcell. rewrite (Hlow i) by lia. f_equal.
        replace n with ((i + 1) + (n - (i + 1))) at 2 by lia.
        replace (Datatypes.S i) with (i + 1) by lia.
        rewrite (sumn_shift Sft (fun j => (W i j * mg t' j k)%S)). reflexivity. }
      split; [rewrite lset_length; assumption|]. split; [|split].
      + intros i' j Hj Hne. rewrite mg_lset by (try assumption; lia).
        destruct (Nat.eqb_spec k j); [lia|]. rewrite Bool.andb_false_r. rewrite Hfrs by (try assumption; lia).
        apply Hfr; assumption.
      + intros i' Hi'. rewrite mg_lset by (try assumption; lia).
        destruct (Nat.eqb_spec i i'); [lia|]. cbn [andb]. rewrite Hfrs by (try assumption; lia). apply Hlow. lia.
      + assert (Hsame : forall i', i <= i' -> sumn (fun j => if Nat.leb (Datatypes.S i') j
                     then (W i' j * mg (lset s' (i * n + k) (vget s' (i * n + k) * vget A (nth i p 0 * n + i))%S) j k)%S else s0) n
                   = sumn (fun j => if Nat.leb (Datatypes.S i') j then (W i' j * mg t' j k)%S else s0) n).
        { intros i' Hi'. apply sumn_ext. intros j Hj. destruct (Nat.leb_spec (Datatypes.S i') j); [|reflexivity].
          rewrite mg_lset by (try assumption; lia). destruct (Nat.eqb_spec i j); [lia|]. cbn [andb].
          rewrite Hfrs by (try assumption; lia). reflexivity. }
        intros i' H1 H2. rewrite Hsame by assumption. rewrite mg_lset by (try assumption; lia).
        rewrite Nat.eqb_refl. destruct (Nat.eqb_spec i i') as [<-|Hne]; cbn [andb].
        * change (vget s' (i * n + k)) with (mg s' i k). rewrite Hcell'. reflexivity.
        * rewrite Hfrs by (try assumption; lia). apply Hhigh; lia. }
  destruct H as (H1 & H2 & _ & H4). split; [assumption|]. split; [assumption|].
  intros i Hi. apply H4; lia.
Qed.

Definition ColOK (k : nat) (T : vec) : Prop :=
  exists z : nat -> S,
    (forall i, i < n -> z i = ((if Nat.eqb (nth i p 0) k then s1 else s0) - sumn (fun j => W i j * z j) i)%S) /\
    (forall i, i < n -> mg T i k =
       ((z i - sumn (fun j => if Nat.leb (Datatypes.S i) j then W i j * mg T j k else s0) n) * W i i)%S).

Lemma ColOK_frame k (T T' : vec) : (forall i, mg T' i k = mg T i k) -> ColOK k T -> ColOK k T'.
Proof.
  intros E (z & Hz & HT). exists z. split; [assumption|]. intros i Hi. rewrite E, (HT i Hi).
  f_equal. f_equal. apply sumn_ext. intros j Hj. rewrite E. reflexivity.
Qed.

Lemma solve_col_spec k (t : vec) : k < n -> length t = n * n ->
  length (solve_col n A p k t) = n * n /\
  (forall i j, j < n -> j <> k -> mg (solve_col n A p k t) i j = mg t i j) /\
  ColOK k (solve_col n A p k t).
Proof.
  intros Hk HL. rewrite solve_col_unfold.
  destruct (low_phase k t Hk HL) as (HL1 & Hf1 & Hz).
  set (t1 := for_loop 0 n (low_body n A p k) t) in *.
  destruct (up_phase k t1 Hk HL1) as (HL2 & Hf2 & HT).
  split; [assumption|]. split.
  - intros i j Hj Hne. rewrite Hf2 by assumption. apply Hf1; assumption.
  - exists (fun i => mg t1 i k). split; assumption.
Qed.

Lemma solve_all_spec (t : vec) : length t = n * n ->
  length (for_loop 0 n (fun k t => solve_col n A p k t) t) = n * n /\
  forall k, k < n -> ColOK k (for_loop 0 n (fun k t => solve_col n A p k t) t).
Proof.
  intro HL.
  pose (P := fun k (T : vec) => length T = n * n /\ forall k', k' < k -> ColOK k' T).
  assert (H : P (0 + n) (for_loop 0 n (fun k t => solve_col n A p k t) t)).
  { apply (for_loop_inv P).
    - split; [assumption|]. intros; lia.
    - intros k T Hk (HLT & Hcols). destruct (solve_col_spec k T ltac:(lia) HLT) as (HL' & Hfr & Hc).
      split; [assumption|]. intros k' Hk'. destruct (Nat.eq_dec k' k) as [->|Hne]; [assumption|].
      apply (ColOK_frame k' T); [|apply Hcols; lia]. intro i. apply Hfr; lia. }
  exact H.
Qed.

(* (L U) X = P e_k, column by column *)
Lemma column_solves (B : nat -> nat -> S) k (T : vec) : k < n ->
  (forall t, t < n -> W t t <> s0) -> FI n B W -> ColOK k T ->
  forall i, i < n -> sumn (fun j => B i j * mg T j k)%S n = if Nat.eqb (nth i p 0) k then s1 else s0.
Proof.
  intros Hk Hdiag HFI (z & Hz & HT) i Hi.
  assert (HU : forall t, t < n -> sumn (fun j => (Uc n W t j * mg T j k)%S) n = z t).
  { intros t Ht.
    transitivity (sumn (fun j => if Nat.eqb t j then (sinv (W t t) * mg T t k)%S else s0) n
                  + sumn (fun j => if Nat.leb (Datatypes.S t) j then (W t j * mg T j k)%S else s0) n)%S.
    - rewrite <- (sumn_add SrtI). apply sumn_ext. intros j Hj. unfold Uc.
      destruct (Nat.ltb_spec t n); [|lia].
      destruct (Nat.ltb_spec t j), (Nat.eqb_spec t j), (Nat.leb_spec (Datatypes.S t) j); subst; try lia; ring.
    - rewrite (sumn_delta SrtI). destruct (Nat.ltb_spec t n); [|lia].
      rewrite (HT t Ht) at 1.
      set (St := sumn (fun j => if Nat.leb (Datatypes.S t) j then (W t j * mg T j k)%S else s0) n).
      assert (Hd : (sinv (W t t) * W t t = s1)%S) by (apply (Finv_l Sft); apply Hdiag; assumption).
      transitivity ((sinv (W t t) * W t t) * (z t - St) + St)%S; [ring|]. rewrite Hd. ring. }
  transitivity (sumn (fun j => (sumn (fun t => Lc n W i t * Uc n W t j) n * mg T j k + Uc n W i j * mg T j k)%S) n).
  { apply sumn_ext. intros j Hj. rewrite (HFI i j Hi Hj). unfold Rc. destruct (Nat.ltb_spec i n); [|lia]. ring. }
  rewrite (sumn_add SrtI), (HU i Hi).
  transitivity (sumn (fun t => (Lc n W i t * z t)%S) n + z i)%S.
  { f_equal.
    transitivity (sumn (fun j => sumn (fun t => (Lc n W i t * (Uc n W t j * mg T j k))%S) n) n).
    - apply sumn_ext. intros j Hj. rewrite <- (sumn_scal_r SrtI). apply sumn_ext. intros t Ht. ring.
    - rewrite (sumn_swap SrtI). apply sumn_ext. intros t Ht. rewrite (sumn_scal SrtI), (HU t Ht). reflexivity. }
  transitivity (sumn (fun t => (W i t * z t)%S) i + z i)%S.
  { f_equal. rewrite <- (sumn_trunc Sft (fun t => (W i t * z t)%S) i n) by lia.
    apply sumn_ext. intros t Ht. unfold Lc. destruct (Nat.ltb_spec t n); [|lia].
    rewrite Bool.andb_true_r. destruct (Nat.ltb t i); ring. }
  rewrite (Hz i Hi). ring.
Qed.

End Solve.

(* ---------- the theorem ---------- *)
Theorem inverse_exact (t Bm : vec) : length t = n * n -> inverse n A0 t = Some Bm ->
  forall r k, r < n -> k < n -> mat_mul_get n A0 Bm r k = if Nat.eqb r k then s1 else s0.
Proof.
  intros Ht H r k Hr Hk. unfold inverse in H.
  destruct (lu_factor n A0) as [[A p]|] eqn:EF; [|discriminate]. injection H as <-.
  destruct (lu_factor_spec A p EF) as (HP & HL & Hdiag & HFI). cbn [fst snd] in *.
  destruct (solve_all_spec A p HL t Ht) as [_ Hcols].
  destruct (PermOK_surj p r HP Hr) as (i & Hi & Epi).
  pose proof (column_solves A p HL (view A0 p) k _ Hk Hdiag HFI (Hcols k Hk) i Hi) as Hsol.
  rewrite Epi in Hsol. rewrite <- Hsol. unfold mat_mul_get. apply sumn_ext. intros j Hj.
  unfold mat_get, view, mg. rewrite Epi. reflexivity.
Qed.

End InvExact.
