(* DirectUtil.v -- array-style list helpers shared by the C16 models
   (Direct.v, Inverse.v, CuthillMcKee.v, StaticMat.v, Qr.v): in-place update of one
   cell, tabulation, counted loops.  Polymorphic, no scalar laws. *)
From Coq Require Import List Arith Lia.
Import ListNotations.

(* a[i] = v   (out-of-range writes are dropped: excluded by the guards of the theorems) *)
Fixpoint lset {X : Type} (l : list X) (i : nat) (v : X) : list X :=
  match l, i with
  | [], _ => []
  | _ :: tl, O => v :: tl
  | a :: tl, S k => a :: lset tl k v
  end.

(* [f 0; f 1; ...; f (n-1)] *)
Definition tabulate {X : Type} (n : nat) (f : nat -> X) : list X := map f (seq 0 n).

(* for (i = lo; i < lo + cnt; ++i) st = body i st *)
Definition for_loop {St : Type} (lo cnt : nat) (body : nat -> St -> St) (st : St) : St :=
  fold_left (fun s i => body i s) (seq lo cnt) st.

(* for (i = hi; i --> lo; ) : i = lo+cnt-1 down to lo *)
Definition for_down {St : Type} (lo cnt : nat) (body : nat -> St -> St) (st : St) : St :=
  fold_left (fun s i => body i s) (rev (seq lo cnt)) st.

Lemma lset_length {X} (l : list X) i v : length (lset l i v) = length l.
Proof. revert i; induction l as [|a l IH]; intros [|i]; simpl; auto. Qed.

Lemma lset_nth_eq {X} (l : list X) i v d : i < length l -> nth i (lset l i v) d = v.
Proof.
  revert i; induction l as [|a l IH]; intros [|i] H; simpl in *; try lia; auto.
  apply IH; lia.
Qed.

Lemma lset_nth_neq {X} (l : list X) i j v d : i <> j -> nth j (lset l i v) d = nth j l d.
Proof.
  revert i j; induction l as [|a l IH]; intros [|i] [|j] H; simpl; auto; try lia.
Qed.

Lemma lset_nth {X} (l : list X) i j v d :
  nth j (lset l i v) d = if Nat.eqb i j then (if Nat.ltb i (length l) then v else d) else nth j l d.
Proof.
  destruct (Nat.eqb_spec i j) as [->|Hne].
  - destruct (Nat.ltb_spec j (length l)).
    + apply lset_nth_eq; assumption.
    + apply nth_overflow. rewrite lset_length. assumption.
  - apply lset_nth_neq; assumption.
Qed.

Lemma lset_oob {X} (l : list X) i v : length l <= i -> lset l i v = l.
Proof.
  revert i; induction l as [|a l IH]; intros [|i] H; simpl in *; auto; try lia.
  f_equal. apply IH. lia.
Qed.

Lemma tabulate_length {X} n (f : nat -> X) : length (tabulate n f) = n.
Proof. unfold tabulate. rewrite map_length, seq_length. reflexivity. Qed.

Lemma tabulate_nth {X} n (f : nat -> X) i d : i < n -> nth i (tabulate n f) d = f i.
Proof.
  intro H. unfold tabulate.
  rewrite (nth_indep _ d (f 0)) by (rewrite map_length, seq_length; assumption).
  rewrite map_nth. rewrite seq_nth by assumption. reflexivity.
Qed.

Lemma tabulate_ext {X} n (f g : nat -> X) : (forall i, i < n -> f i = g i) -> tabulate n f = tabulate n g.
Proof.
  intro H. unfold tabulate. apply map_ext_in. intros i Hi. apply in_seq in Hi. apply H. lia.
Qed.

(* two lists of the same length with the same cells are equal *)
Lemma list_ext {X} (l l' : list X) d :
  length l = length l' -> (forall i, i < length l -> nth i l d = nth i l' d) -> l = l'.
Proof.
  revert l'; induction l as [|a l IH]; intros [|b l'] HL H; simpl in *; try congruence.
  f_equal.
  - apply (H 0). lia.
  - apply IH; [congruence|]. intros i Hi. apply (H (S i)). lia.
Qed.

Lemma for_loop_S {St} lo cnt (body : nat -> St -> St) st :
  for_loop lo (S cnt) body st = body (lo + cnt) (for_loop lo cnt body st).
Proof.
  unfold for_loop. rewrite seq_S, fold_left_app. reflexivity.
Qed.

Lemma for_loop_0 {St} lo (body : nat -> St -> St) st : for_loop lo 0 body st = st.
Proof. reflexivity. Qed.

Lemma for_loop_first {St} lo cnt (body : nat -> St -> St) st :
  for_loop lo (S cnt) body st = for_loop (S lo) cnt body (body lo st).
Proof. reflexivity. Qed.

(* loop invariants *)
Lemma for_loop_inv {St} (P : nat -> St -> Prop) lo cnt (body : nat -> St -> St) st :
  P lo st -> (forall i s, lo <= i < lo + cnt -> P i s -> P (S i) (body i s)) ->
  P (lo + cnt) (for_loop lo cnt body st).
Proof.
  intros H0 Hs. induction cnt as [|cnt IH].
  - rewrite Nat.add_0_r. exact H0.
  - rewrite for_loop_S. replace (lo + S cnt) with (S (lo + cnt)) by lia.
    apply Hs; [lia|]. apply IH. intros i s Hi. apply Hs. lia.
Qed.

Lemma for_down_S {St} lo cnt (body : nat -> St -> St) st :
  for_down lo (S cnt) body st = for_down lo cnt body (body (lo + cnt) st).
Proof.
  unfold for_down. rewrite seq_S, rev_app_distr. reflexivity.
Qed.

(* invariant for a downward loop: P k holds when cells k.. are done *)
Lemma for_down_inv {St} (P : nat -> St -> Prop) lo cnt (body : nat -> St -> St) st :
  P (lo + cnt) st -> (forall i s, lo <= i < lo + cnt -> P (S i) s -> P i (body i s)) ->
  P lo (for_down lo cnt body st).
Proof.
  revert st. induction cnt as [|cnt IH]; intros st H0 Hs.
  - rewrite Nat.add_0_r in H0. exact H0.
  - rewrite for_down_S. apply IH.
    + apply Hs; [lia|]. replace (S (lo + cnt)) with (lo + S cnt) by lia. exact H0.
    + intros i s Hi. apply Hs. lia.
Qed.

(* relational invariant between two runs of a counted loop *)
Lemma for_loop_rel {A B} (R : nat -> A -> B -> Prop) lo cnt (f : nat -> A -> A) (g : nat -> B -> B) a b :
  R lo a b -> (forall i a b, lo <= i < lo + cnt -> R i a b -> R (S i) (f i a) (g i b)) ->
  R (lo + cnt) (for_loop lo cnt f a) (for_loop lo cnt g b).
Proof.
  intros H0 Hs. induction cnt as [|cnt IH].
  - rewrite Nat.add_0_r. exact H0.
  - rewrite !for_loop_S. replace (lo + S cnt) with (S (lo + cnt)) by lia.
    apply Hs; [lia|]. apply IH. intros i x y Hi. apply Hs. lia.
Qed.

Lemma for_loop_ext {St} lo cnt (f g : nat -> St -> St) st :
  (forall i s, lo <= i < lo + cnt -> f i s = g i s) -> for_loop lo cnt f st = for_loop lo cnt g st.
Proof.
  intro H. induction cnt as [|cnt IH]; [reflexivity|].
  rewrite !for_loop_S. rewrite IH by (intros; apply H; lia). apply H. lia.
Qed.

Lemma for_down_rel {A B} (R : nat -> A -> B -> Prop) lo cnt (f : nat -> A -> A) (g : nat -> B -> B) a b :
  R (lo + cnt) a b -> (forall i a b, lo <= i < lo + cnt -> R (S i) a b -> R i (f i a) (g i b)) ->
  R lo (for_down lo cnt f a) (for_down lo cnt g b).
Proof.
  revert a b. induction cnt as [|cnt IH]; intros a b H0 Hs.
  - rewrite Nat.add_0_r in H0. exact H0.
  - rewrite !for_down_S. apply IH.
    + apply Hs; [lia|]. replace (S (lo + cnt)) with (lo + S cnt) by lia. exact H0.
    + intros i x y Hi. apply Hs. lia.
Qed.
