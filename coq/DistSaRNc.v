(* DistSaRNc.v -- C12: R = transpose(P) of the distributed smoothed aggregation on the ASSEMBLED operators at
   NON-COMMUTATIVE value types (static_matrix blocks): DistSaR.v with the filtered matrix identified by
   DistSaNc.nc_dist_sa_filtered_split instead of the commutative DistSaProofs.dist_sa_filtered_split.  The transpose
   applies math::adjoint to every stored block (MatOps.transpose); the statement compares assemble (dist_transpose P) with
   the serial transpose of assemble P, so no law about the adjoint is needed. *)
From Coq Require Import Permutation ZifyBool.
From Amgcl Require Import Scalar Vec Crs Kernels MatOps Dist DistProofs DistProofsT Pmis PmisProofs PmisPartition PmisOracle
  DistSa DistSaPtent DistSaProofs NcRing BlockMatOpsProofs DistBlockT DistSaNc DistSaR.
Local Open Scope nat_scope.

Section NcSaR.
Context {S : Scalar}.
Hypothesis Hnc : ncring_theory S.

Theorem nc_dist_sa_smooth_restriction (junk eps2 omega : S) (A Pt : crs S) (parts cparts : list nat) :
  psum parts = nrows A -> ncols A = nrows A -> wf A = true -> length parts = length cparts ->
  let P := dist_sa_smooth junk eps2 omega (split A parts parts) (split Pt parts cparts) in
  let R := dist_transpose P parts in
  ncols (assemble R) = nrows A /\ nrows (assemble P) = nrows A /\ ncols (assemble P) = psum cparts /\
  (forall j, j < psum cparts -> Permutation (nth j (rows (assemble R)) []) (nth j (rows (transpose (assemble P))) [])) /\
  (forall i j, j < psum cparts -> mget (assemble R) j i = mget (transpose (assemble P)) j i).
Proof.
  intros Hrows Hsq Hwf Hlen.
  unfold dist_sa_smooth.
  rewrite (nc_dist_sa_filtered_split Hnc A parts Hrows Hsq Hwf junk eps2 omega).
  set (Af := sa_glob_filtered omega A (strong_entry junk A eps2)).
  set (P := dist_product (split Af parts parts) (split Pt parts cparts)).
  set (R := dist_transpose P parts).
  destruct (dist_transpose_of_product_perm Af Pt parts parts cparts eq_refl Hlen) as [G1 [G2 [G3 G4]]].
  { unfold Af. rewrite nrows_sa_glob_filtered. exact Hrows. }
  fold P in G1, G2, G3, G4. fold R in G1, G4.
  unfold Af in G1, G2. rewrite nrows_sa_glob_filtered in G1, G2.
  split; [exact G1|]. split; [exact G2|]. split; [exact G3|]. split; [exact G4|].
  intros i j Hj. unfold mget. apply (nc_rget_perm Hnc). apply G4. exact Hj.
Qed.

Theorem nc_dist_sa_restriction_is_transpose (junk eps2 omega : S) (A : crs S) (parts : list nat) :
  psum parts = nrows A -> ncols A = nrows A -> wf A = true ->
  (forall i, i < psum parts -> In i (grow (conn junk A eps2) i)) ->
  exists w Pt P R, pmis parts (conn junk A eps2) = Some w /\ dist_sa_transfer junk eps2 omega A parts = Some (Pt, P, R) /\
    ncols (assemble R) = nrows A /\ nrows (assemble P) = nrows A /\ ncols (assemble P) = psum (w_na w) /\
    (forall j, j < psum (w_na w) -> Permutation (nth j (rows (assemble R)) []) (nth j (rows (transpose (assemble P))) [])) /\
    (forall i j, j < psum (w_na w) -> mget (assemble R) j i = mget (transpose (assemble P)) j i).
Proof.
  intros Hrows Hsq Hwf Hdiag.
  destruct (pmis_partition parts (conn junk A eps2) Hdiag) as [w [Hw [Hvalid _]]].
  destruct (pmis_columns_partition parts (conn junk A eps2) Hdiag) as [cols [nas [Hc [_ [Hnas _]]]]].
  unfold pmis_columns in Hc. rewrite Hw in Hc. injection Hc as _ Hn. subst nas.
  pose proof (dist_ptent_is_split S parts w Hnas Hvalid) as HPt.
  exists w, (dist_ptent parts w),
         (dist_sa_smooth junk eps2 omega (split A parts parts) (dist_ptent parts w)),
         (dist_transpose (dist_sa_smooth junk eps2 omega (split A parts parts) (dist_ptent parts w)) parts).
  split; [exact Hw|]. split; [unfold dist_sa_transfer; rewrite Hw; reflexivity|].
  rewrite HPt.
  apply (nc_dist_sa_smooth_restriction junk eps2 omega A _ parts (w_na w) Hrows Hsq Hwf).
  symmetry; exact Hnas.
Qed.

(* entry by entry: R_ji = adjoint(P_ij) for an additive adjoint (blocks: conjugate transpose) *)
Hypothesis sadj_add : forall a b : S, sadj (a + b)%S = (sadj a + sadj b)%S.
Hypothesis sadj_0 : sadj (@s0 S) = s0.

Theorem nc_dist_sa_restriction_adjoint_entries (junk eps2 omega : S) (A Pt : crs S) (parts cparts : list nat) :
  psum parts = nrows A -> ncols A = nrows A -> wf A = true -> length parts = length cparts ->
  let P := dist_sa_smooth junk eps2 omega (split A parts parts) (split Pt parts cparts) in
  let R := dist_transpose P parts in
  forall i j, j < psum cparts -> mget (assemble R) j i = sadj (mget (assemble P) i j).
Proof.
  intros Hrows Hsq Hwf Hlen P R i j Hj.
  destruct (nc_dist_sa_smooth_restriction junk eps2 omega A Pt parts cparts Hrows Hsq Hwf Hlen) as [_ [_ [G3 [_ G5]]]].
  fold P in G3, G5. fold R in G5. rewrite (G5 i j Hj).
  apply (BlockMatOpsProofs.nc_transpose_dense Hnc sadj_add sadj_0). rewrite G3. exact Hj.
Qed.
End NcSaR.
