(* EminProofs2b.v -- C04, smoothed_aggr_emin in layers (section 3b of Properties_C04.v):
     1. Omega: the vector the code returns in [omega] is, column by column, the quotient
          Omega_j = num_j / den_j,   num_j = <(A_F P_t)_j, (A_F D^-1 A_F P_t)_j>,  den_j = <(A_F D^-1 A_F P_t)_j, (same)_j>
        of the two column inner products it accumulates in omega[] and denum[]; there is NO guard on the
        denominator: the code evaluates math::inverse(denum[j]) * omega[j] whatever denum[j] is
        (den_j = 0  =>  Omega_j = inverse(0) * num_j);
     2. P given Omega:  P(i,j) = P_t(i,j) - D_i^-1 (A_F P_t)(i,j) w_j   with w = the returned vector;
     3. R given Omega:  R(j,i) = P_t(i,j) - w_j (P_t^T A_F)(j,i) D_i^-1 for EVERY vector w handed to restriction().
   At the exact rationals (inverse(0) = 0, an ordered field): den_j = 0 iff column j of A_F D^-1 A_F P_t vanishes; then
   num_j = 0, Omega_j = 0, and column j of P (row j of R) is the unsmoothed column of P_t (row of P_t^T). *)
From Coq Require Import QArith Qcanon.
From Amgcl Require Import Scalar QcInst Vec Crs Kernels KernelsProofs MatOps MatOpsProofs MatOps2 Aggregates Tentative
     Coarsen CoarsenProofs EminProofs EminProofs2.
Local Close Scope Qc_scope.
Local Close Scope Q_scope.
Local Open Scope nat_scope.
Local Open Scope S_scope.

Section EminLayers.
Variable S : Scalar.
Hypothesis Sft : Sfield S.
Let Srt : Sring S := F_R Sft.
Add Ring SRingEmin2b : Srt.
Local Notation row := (row S).
Local Notation vec := (vec S).
Local Notation crs := (crs S).

(* the two accumulated column inner products *)
Definition emin_num (A : crs) (st : flags) (Pt : crs) (j : nat) : S :=
  sumn (fun i => emin_AP A st Pt i j * emin_ADAP A st Pt i j) (nrows A).
Definition emin_den (A : crs) (st : flags) (Pt : crs) (j : nat) : S :=
  sumn (fun i => emin_ADAP A st Pt i j * emin_ADAP A st Pt i j) (nrows A).

Lemma emin_omega_spec_quot (A : crs) st (Pt : crs) j :
  emin_omega_spec A st Pt j = emin_num A st Pt j / emin_den A st Pt j.
Proof. unfold emin_omega_spec. fold (emin_num A st Pt j) (emin_den A st Pt j). rewrite (Fdiv_def Sft). ring. Qed.

Variables (nt : nat) (A : crs) (st : flags) (Pt : crs).
Hypothesis Hnt : nt <= 16.
Hypothesis HwfA : wf A = true.
Hypothesis Hsq : ncols A = nrows A.
Hypothesis Hreg : emin_regular A st = true.
Hypothesis HnP : nrows Pt = nrows A.
Hypothesis HsP : forallb sorted_strict (rows Pt) = true.

Let Af := fst (emin_filter A st).
Let dia := snd (emin_filter A st).
Let po := emin_interpolation nt Af dia Pt.

Lemma emin_omega_is : snd po = emin_omega Af dia (product nt Af Pt true) (nrows Pt) (ncols Pt).
Proof. reflexivity. Qed.

(* 1. Omega *)
Theorem emin_omega_length : length (snd po) = ncols Pt.
Proof.
  unfold po, emin_interpolation. cbv zeta. cbn [snd]. unfold emin_omega.
  rewrite (fold_pair (fun ia om => fold_left (fun om e => vadd_at om (fst e) (snd e))
             (join_prod (nth ia (rows (product nt Af Pt true)) []) (emin_adap_row Af dia (product nt Af Pt true) ia)) om)
           (fun ia d => fold_left (fun d e => vadd_at d (fst e) (snd e * snd e)) (emin_adap_row Af dia (product nt Af Pt true) ia) d)).
  cbn [fst snd].
  rewrite (fold_sq_rows S (fun ia => emin_adap_row Af dia (product nt Af Pt true) ia)).
  rewrite map2_length; rewrite !(fold_rows_vadd_length S); unfold vzero; rewrite ?repeat_length; reflexivity.
Qed.

Theorem emin_omega_formula j : j < ncols Pt ->
  vget (snd po) j = emin_num A st Pt j / emin_den A st Pt j.
Proof.
  intro Hj. rewrite <- emin_omega_spec_quot.
  exact (omega_dense S Sft nt A st Pt Hnt HwfA Hsq Hreg HnP HsP j Hj).
Qed.

(* no guard on the denominator: inverse(0) * numerator *)
Theorem emin_omega_zero_den j : j < ncols Pt -> emin_den A st Pt j = s0 ->
  vget (snd po) j = sinv s0 * emin_num A st Pt j.
Proof.
  intros Hj H0. transitivity (emin_omega_spec A st Pt j);
    [exact (omega_dense S Sft nt A st Pt Hnt HwfA Hsq Hreg HnP HsP j Hj)|].
  unfold emin_omega_spec. fold (emin_num A st Pt j) (emin_den A st Pt j). rewrite H0. reflexivity.
Qed.

(* 2. P given Omega *)
Theorem emin_P_given_omega i j : i < nrows A -> j < ncols Pt ->
  mget (fst po) i j = mget Pt i j - sinv (sa_D A st i) * emin_AP A st Pt i j * vget (snd po) j.
Proof.
  intros Hi Hj.
  transitivity (emin_P_spec A st Pt i j); [exact (emin_P_formula S Sft nt A st Pt Hnt HwfA Hsq Hreg HnP HsP i j Hi Hj)|].
  replace (vget (snd po) j) with (emin_omega_spec A st Pt j)
    by (symmetry; exact (omega_dense S Sft nt A st Pt Hnt HwfA Hsq Hreg HnP HsP j Hj)).
  unfold emin_P_spec. ring.
Qed.

(* 3. R given Omega: for EVERY vector w handed to restriction() *)
Hypothesis Hadj : forall x : S, sadj x = x.
Let Rt := sort_rows (transpose Pt).
Let RA := product nt Rt Af true.

Theorem emin_R_given_omega (w : vec) j i : j < ncols Pt -> i < nrows A ->
  mget (emin_restriction nt Af dia Pt w) j i
  = mget Pt i j - vget w j * emin_RA A st Pt j i * sinv (sa_D A st i).
Proof.
  intros Hj Hi.
  pose proof (RA_shape S nt A st Pt Hnt Hsq HnP) as HRs. fold Af Rt RA in HRs.
  pose proof (RA_dense S Sft Hadj nt A st Pt Hnt HwfA Hsq Hreg HnP HsP j i Hj) as HRd. fold Af Rt RA in HRd.
  pose proof (dia_dense S Sft nt A st Pt Hnt HwfA Hsq Hreg HnP HsP i Hi) as Hdd. fold dia in Hdd.
  pose proof (Rt_dense S Sft Hadj Pt j i Hj) as HRt. fold Rt in HRt.
  unfold emin_restriction. cbv zeta. fold Rt. fold RA.
  unfold mget at 1. cbn [rows].
  rewrite (nth_indep _ [] ((fun ir : nat * row => emin_upd_row (fun ca v => (- vget w (fst ir)) * sinv (vget dia ca) * v) (snd ir)
                              (nth (fst ir) (rows Rt) [])) (0%nat, [])))
    by (rewrite map_length, indexed_length; fold (nrows RA); rewrite (proj1 HRs); exact Hj).
  rewrite (map_nth (fun ir : nat * row => emin_upd_row (fun ca v => (- vget w (fst ir)) * sinv (vget dia ca) * v) (snd ir)
                              (nth (fst ir) (rows Rt) []))).
  rewrite nth_indexed by (fold (nrows RA); rewrite (proj1 HRs); exact Hj). cbn [fst snd].
  rewrite (rget_emin_upd_row S Srt)
    by (try apply (Rt_row_sorted S Pt HsP); unfold RA; apply (prod_row_sorted S nt Hnt)).
  rewrite <- HRd, <- Hdd, <- HRt.
  destruct (existsb (Nat.eqb i) (map fst (nth j (rows RA) []))) eqn:E.
  - fold (mget RA j i). fold (mget Rt j i). ring.
  - assert (Hn : ~ In i (map fst (nth j (rows RA) []))).
    { intro Hin. assert (existsb (Nat.eqb i) (map fst (nth j (rows RA) [])) = true)
        by (apply existsb_exists; exists i; split; [exact Hin|apply Nat.eqb_refl]). congruence. }
    assert (Hp : ~ In i (map fst (nth j (rows Rt) []))).
    { intro Hin. apply Hn. unfold RA. apply (prod_pattern S nt Hnt Rt Af j i i); [exact Hin|].
      exact (Af_diag_in S nt A st Pt Hnt HwfA Hsq Hreg HnP HsP i Hi). }
    unfold mget. rewrite (rget_notin Srt _ i Hn), (rget_notin Srt _ i Hp). ring.
Qed.

(* the three layers together *)
Theorem emin_layers :
  length (snd po) = ncols Pt /\
  (forall j, j < ncols Pt ->
     vget (snd po) j = emin_num A st Pt j / emin_den A st Pt j /\
     (emin_den A st Pt j = s0 -> vget (snd po) j = sinv s0 * emin_num A st Pt j)) /\
  (forall i j, i < nrows A -> j < ncols Pt ->
     mget (fst po) i j = mget Pt i j - sinv (sa_D A st i) * emin_AP A st Pt i j * vget (snd po) j) /\
  (forall (w : vec) j i, j < ncols Pt -> i < nrows A ->
     mget (emin_restriction nt Af dia Pt w) j i = mget Pt i j - vget w j * emin_RA A st Pt j i * sinv (sa_D A st i)).
Proof.
  split; [exact emin_omega_length|]. split; [|split].
  - intros j Hj. split; [exact (emin_omega_formula j Hj)|exact (emin_omega_zero_den j Hj)].
  - exact emin_P_given_omega.
  - exact emin_R_given_omega.
Qed.

End EminLayers.

(* ---------------------------------------------------------------- the exact rationals: what a zero denominator means *)
Local Open Scope Qc_scope.
Lemma Qc_sq_nonneg (x : Qc) : 0 <= x * x.
Proof.
  unfold Qcle. cbn [this Qcmult Q2Qc]. change (this 0) with 0%Q.
  rewrite (Qred_correct (this x * this x)). generalize (this x). intro q.
  destruct (Qlt_le_dec q 0) as [Hq|Hq].
  - setoid_replace (q * q)%Q with ((- q) * (- q))%Q by ring.
    apply Qmult_le_0_compat; apply (Qopp_le_compat q 0), Qlt_le_weak, Hq.
  - apply Qmult_le_0_compat; exact Hq.
Qed.

Lemma Qc_sumsq_nonneg (f : nat -> T QcS) n : 0 <= (sumn (fun i => smul (f i) (f i)) n : Qc).
Proof.
  induction n as [|n IH]; [apply Qcle_refl|]. cbn [sumn].
  change (0 <= (sumn (fun i => smul (f i) (f i)) n : Qc) + (f n : Qc) * (f n : Qc)).
  replace 0 with (0 + 0) by ring. apply Qcplus_le_compat; [exact IH|apply Qc_sq_nonneg].
Qed.

Lemma Qc_sq_zero (x : Qc) : x * x = 0 -> x = 0.
Proof. intro H. destruct (Qcmult_integral _ _ H); assumption. Qed.

Lemma Qc_sumsq_zero (f : nat -> T QcS) n : (sumn (fun i => smul (f i) (f i)) n : Qc) = 0 -> forall i, (i < n)%nat -> (f i : Qc) = 0.
Proof.
  induction n as [|n IH]; intros H i Hi; [lia|]. cbn [sumn] in H.
  change ((sumn (fun i => smul (f i) (f i)) n : Qc) + (f n : Qc) * (f n : Qc) = 0) in H.
  pose proof (Qc_sumsq_nonneg f n) as H1. pose proof (Qc_sq_nonneg (f n)) as H2.
  assert (Hs : (sumn (fun i => smul (f i) (f i)) n : Qc) = 0).
  { apply Qcle_antisym; [|exact H1]. rewrite <- H. rewrite <- (Qcplus_0_r (sumn (S:=QcS) _ n : Qc)) at 1.
    apply Qcplus_le_compat; [apply Qcle_refl|exact H2]. }
  assert (Hn : (f n : Qc) * (f n : Qc) = 0) by (rewrite Hs, Qcplus_0_l in H; exact H).
  destruct (Nat.eq_dec i n) as [->|Hne]; [apply Qc_sq_zero; exact Hn|]. apply IH; [exact Hs|lia].
Qed.
Local Close Scope Qc_scope.

Lemma sumn_all_zero_Qc (f : nat -> T QcS) n : (forall i, i < n -> f i = s0) -> sumn f n = s0.
Proof.
  induction n as [|n IH]; intro H; [reflexivity|]. cbn [sumn]. rewrite IH by (intros i Hi; apply H; lia).
  rewrite (H n) by lia. apply (Radd_0_l QcS_ring).
Qed.

Section ZeroDenQc.
Variables (nt : nat) (A : crs QcS) (st : flags) (Pt : crs QcS).
Hypothesis Hnt : nt <= 16.
Hypothesis HwfA : wf A = true.
Hypothesis Hsq : ncols A = nrows A.
Hypothesis Hreg : emin_regular A st = true.
Hypothesis HnP : nrows Pt = nrows A.
Hypothesis HsP : forallb sorted_strict (rows Pt) = true.
Add Ring QcRingEmin2b : QcS_ring.

(* den_j = 0 iff column j of A_F D^-1 A_F P_t is zero (ordered field) *)
Lemma emin_den_zero_iff_Qc j :
  emin_den QcS A st Pt j = s0 <-> (forall i, i < nrows A -> emin_ADAP A st Pt i j = s0).
Proof.
  split.
  - intros H i Hi. exact (Qc_sumsq_zero (fun i => emin_ADAP A st Pt i j) (nrows A) H i Hi).
  - intro H. unfold emin_den. apply sumn_all_zero_Qc. intros i Hi. rewrite (H i Hi). ring.
Qed.

Theorem emin_zero_den_Qc j : j < ncols Pt -> emin_den QcS A st Pt j = s0 ->
  let fd := emin_filter A st in
  let po := emin_interpolation nt (fst fd) (snd fd) Pt in
  let R := emin_restriction nt (fst fd) (snd fd) Pt (snd po) in
  emin_num QcS A st Pt j = s0 /\ vget (snd po) j = s0 /\
  forall i, i < nrows A -> mget (fst po) i j = mget Pt i j /\ mget R j i = mget Pt i j.
Proof.
  intros Hj H0 fd po R.
  assert (Hnum : emin_num QcS A st Pt j = s0).
  { unfold emin_num. apply sumn_all_zero_Qc. intros i Hi. rewrite (proj1 (emin_den_zero_iff_Qc j) H0 i Hi). ring. }
  assert (Hom : vget (snd po) j = s0).
  { unfold po, fd. rewrite (emin_omega_zero_den QcS QcS_field nt A st Pt Hnt HwfA Hsq Hreg HnP HsP j Hj H0).
    rewrite Hnum. ring. }
  split; [exact Hnum|]. split; [exact Hom|]. intros i Hi. split.
  - unfold po, fd. rewrite (emin_P_given_omega QcS QcS_field nt A st Pt Hnt HwfA Hsq Hreg HnP HsP i j Hi Hj).
    fold fd. fold po. rewrite Hom. ring.
  - unfold R, fd. rewrite (emin_R_given_omega QcS QcS_field nt A st Pt Hnt HwfA Hsq Hreg HnP HsP (fun x => eq_refl) (snd po) j i Hj Hi).
    rewrite Hom. ring.
Qed.
End ZeroDenQc.
