(* AmgCycleSymCheb.v -- C02, part A3: the Chebyshev smoother (amgcl/relaxation/chebyshev.hpp, model Cheby.v) is a
   CONSISTENT and SELF-ADJOINT stationary iteration for every symmetric matrix, with or without diagonal scaling:
       sweep (f, x) = x + N (f - A x),      <N f, g> = <f, N g>,       N f = sweep (f, 0) = q_k (M A) M f.
   No hypothesis on the coefficients is needed (commutative RING, trivial conjugation): the coefficients alpha_k, beta_k
   of the three-term recurrence are scalars that do not depend on the vectors, M is a diagonal matrix (the inverted
   diagonal when scale, the identity otherwise), and the proof is a double induction over the recurrence
       p_k = alpha_k M (f - A x_k) + beta_k p_{k-1},   x_{k+1} = x_k + p_k,   x_0 = 0:
   (1) X_k (A M g) = M A (X_k g)  (a polynomial in M A times M "commutes" with A M / M A), then
   (2) <X_k f, g> = <f, X_k g>.
   Consequently a hierarchy built by amg_init from a symmetric matrix and smoothed by chebyshev on every level gives a
   symmetric preconditioner for npre = npost, every ncycle and pre_cycles: no smoother hypothesis is left. *)
From Amgcl Require Import Scalar Vec Crs Kernels KernelsProofs MatOps MatOpsProofs Relax DenseSolve
  Amg AmgExec AmgProofs AmgProofs2 AmgProofs3 AmgProofs4 AmgProofs6 Cheby ChebyProofs AmgBlockCycle AmgBlockCycleProofs.
Local Open Scope S_scope.
Local Notation SS := Datatypes.S.

Section ChebSym.
Context {S : Scalar}.
Local Notation vec := (vec S).
Local Notation crs := (crs S).
Local Notation sweep := (@sweep S).
Hypothesis Srt : Sring S.
Hypothesis Seqb : seqb_spec S.
Add Ring SRingCS : Srt.

Lemma sumn_sub_cs (f g : nat -> S) m : sumn (fun i => f i - g i) m = sumn f m - sumn g m.
Proof. induction m as [|m IH]; simpl; [ring|]. rewrite IH. ring. Qed.

(* vectors given by their entries *)
Definition mkv (n : nat) (f : nat -> S) : vec := map f (seq 0 n).
Lemma mkv_len n f : length (mkv n f) = n.
Proof. unfold mkv. rewrite map_length, seq_length. reflexivity. Qed.
Lemma mkv_get n f i : i < n -> vget (mkv n f) i = f i.
Proof.
  intro H. unfold vget, mkv.
  rewrite (nth_indep _ s0 (f 0)) by (rewrite map_length, seq_length; exact H).
  rewrite map_nth, seq_nth by exact H. reflexivity.
Qed.

Variables (c d : S) (M : option vec) (A : crs).
Local Notation n := (nrows A).
Hypothesis Hwf : wf A = true.
Hypothesis HM : forall m, M = Some m -> length m = n.

(* the coefficient sequence of solve(): it does not depend on the vectors *)
Fixpoint alph (k : nat) : S :=
  match k with O => s0 | SS k' => fst (cheby_coef c_two c_quarter c d k' (alph k')) end.
Definition al (k : nat) : S := fst (cheby_coef c_two c_quarter c d k (alph k)).
Definition be (k : nat) : S := snd (cheby_coef c_two c_quarter c d k (alph k)).
Lemma be_0 : be 0 = s0.
Proof. reflexivity. Qed.

Definition mu (i : nat) : S := ch_prec M i s1.
Lemma prec_mu i v : ch_prec M i v = mu i * v.
Proof. unfold mu, ch_prec. destruct M; ring. Qed.

(* the recurrence started at x = 0: (x_k, p_{k-1}) *)
Fixpoint XP (k : nat) (f : vec) : vec * vec :=
  match k with
  | O => (mkv n (fun _ => s0), mkv n (fun _ => s0))
  | SS k' =>
      let x := fst (XP k' f) in let p := snd (XP k' f) in
      let p' := mkv n (fun i => al k' * (mu i * (vget f i - Ax A x i)) + be k' * vget p i) in
      (mkv n (fun i => vget p' i + vget x i), p')
  end.
Definition X k f := fst (XP k f).
Definition P k f := snd (XP k f).

Lemma X_len k f : length (X k f) = n.
Proof. unfold X. destruct k; cbn [XP fst]; apply mkv_len. Qed.
Lemma P_len k f : length (P k f) = n.
Proof. unfold P. destruct k; cbn [XP snd]; apply mkv_len. Qed.
Lemma X_0 f i : i < n -> vget (X 0 f) i = s0.
Proof. intro Hi. unfold X. cbn [XP fst]. rewrite mkv_get by exact Hi. reflexivity. Qed.
Lemma P_0 f i : i < n -> vget (P 0 f) i = s0.
Proof. intro Hi. unfold P. cbn [XP snd]. rewrite mkv_get by exact Hi. reflexivity. Qed.
Lemma P_S k f i : i < n ->
  vget (P (SS k) f) i = al k * (mu i * (vget f i - Ax A (X k f) i)) + be k * vget (P k f) i.
Proof. intro Hi. unfold P, X. cbn [XP snd]. rewrite mkv_get by exact Hi. reflexivity. Qed.
Lemma X_S k f i : i < n -> vget (X (SS k) f) i = vget (P (SS k) f) i + vget (X k f) i.
Proof. intro Hi. unfold P, X. cbn [XP fst snd]. rewrite mkv_get by exact Hi. reflexivity. Qed.

(* A 0 = 0 *)
Lemma Ax_zero_vec (z : vec) i : length z = n -> (forall j, j < n -> vget z j = s0) -> Ax A z i = s0.
Proof.
  intros Lz Hz. rewrite (ch_Ax_linear Srt A s0 s0 z z z n i Lz Lz Lz); [ring|].
  intros j Hj. rewrite (Hz j Hj). ring.
Qed.

(* ---------- the model's solve() started at a zero vector computes X degree f ---------- *)
Lemma fold_is_XP (f x0 : vec) : length f = n -> length x0 = n -> (forall i, i < n -> vget x0 i = s0) ->
  forall k (p r : vec), length p = n -> length r = n ->
  exists x' p' r' : vec,
    fold_left (cheby_step c_two c_quarter c d M A f) (seq 0 k) (x0, p, r, s0) = (x', p', r', alph k) /\
    length x' = n /\ length p' = n /\ length r' = n /\
    (forall i, i < n -> vget x' i = vget (X k f) i) /\
    (1 <= k -> forall i, i < n -> vget p' i = vget (P k f) i).
Proof.
  intros Lf Lx0 Hx0. induction k as [|k IH]; intros p r Lp Lr.
  - exists x0, p, r. cbn [seq fold_left alph]. repeat split; auto.
    + intros i Hi. rewrite X_0 by exact Hi. apply Hx0, Hi.
    + intros H. lia.
  - rewrite seq_S, fold_left_app. cbn [Nat.add fold_left].
    destruct (IH p r Lp Lr) as (x1 & p1 & r1 & E1 & Lx1 & Lp1 & Lr1 & Gx1 & Gp1). rewrite E1.
    destruct (ch_step_spec Srt Seqb c_two c_quarter c d M A f x1 p1 r1 (alph k) k Hwf Lf Lx1 Lp1 Lr1 HM)
      as (x' & p' & r' & E & Lx' & Lp' & Lr' & Gp' & Gx').
    exists x', p', r'. split; [exact E|]. split; [exact Lx'|]. split; [exact Lp'|]. split; [exact Lr'|].
    assert (Pp : forall i, i < n -> vget p' i = vget (P (SS k) f) i).
    { intros i Hi. rewrite (Gp' i Hi), (P_S k f i Hi), prec_mu.
      rewrite (ch_Ax_ext Srt A x1 (X k f) n i Lx1 (X_len k f) Gx1).
      fold (al k). fold (be k).
      destruct k as [|k].
      - rewrite be_0. ring.
      - rewrite (Gp1 ltac:(lia) i Hi). reflexivity. }
    split.
    + intros i Hi. rewrite (Gx' i Hi), (X_S k f i Hi), (Pp i Hi), (Gx1 i Hi). reflexivity.
    + intros _. exact Pp.
Qed.

Lemma sweep_zero_is_X degree (f x0 p r : vec) : length f = n -> length x0 = n -> length p = n -> length r = n ->
  (forall i, i < n -> vget x0 i = s0) ->
  length (cheby_sweep (c, d, M) degree A f x0 p r) = n /\
  forall i, i < n -> vget (cheby_sweep (c, d, M) degree A f x0 p r) i = vget (X degree f) i.
Proof.
  intros Lf Lx0 Lp Lr Hx0. rewrite ch_sweep_solve. unfold cheby_solve.
  destruct (fold_is_XP f x0 Lf Lx0 Hx0 degree p r Lp Lr) as (x' & p' & r' & E & Lx' & _ & _ & Gx & _).
  rewrite E. cbn [fst]. split; assumption.
Qed.

(* ---------- (1) commutation with A M / M A ---------- *)
Definition Mv (g : vec) : vec := mkv n (fun i => mu i * vget g i).
Definition AM (g : vec) : vec := mkv n (fun i => Ax A (Mv g) i).
Definition MA (g : vec) : vec := mkv n (fun i => mu i * Ax A g i).

Lemma XP_comm k : forall g, length g = n ->
  (forall i, i < n -> vget (X k (AM g)) i = vget (MA (X k g)) i) /\
  (forall i, i < n -> vget (P k (AM g)) i = vget (MA (P k g)) i).
Proof.
  induction k as [|k IH]; intros g Lg.
  - split; intros i Hi; unfold MA; rewrite mkv_get by exact Hi.
    + rewrite X_0 by exact Hi. rewrite (Ax_zero_vec (X 0 g) i (X_len 0 g)) by (intros; apply X_0; assumption). ring.
    + rewrite P_0 by exact Hi. rewrite (Ax_zero_vec (P 0 g) i (P_len 0 g)) by (intros; apply P_0; assumption). ring.
  - destruct (IH g Lg) as [IHx IHp].
    assert (Pp : forall i, i < n -> vget (P (SS k) (AM g)) i = vget (MA (P (SS k) g)) i).
    { intros i Hi. rewrite (P_S k (AM g) i Hi). unfold MA at 1. rewrite mkv_get by exact Hi.
      rewrite (ch_Ax_ext Srt A (X k (AM g)) (MA (X k g)) n i (X_len _ _) (mkv_len _ _) IHx).
      rewrite (IHp i Hi). unfold MA at 2. rewrite mkv_get by exact Hi.
      unfold AM at 1. rewrite mkv_get by exact Hi.
      (* A (P_{k+1} g) = al (A M g - A M A X_k g) + be A P_k g *)
      set (W := mkv n (fun j => mu j * (vget g j - Ax A (X k g) j))).
      assert (EW : Ax A W i = Ax A (Mv g) i - Ax A (MA (X k g)) i).
      { rewrite (ch_Ax_linear Srt A s1 (- s1) W (Mv g) (MA (X k g)) n i (mkv_len _ _) (mkv_len _ _) (mkv_len _ _)); [ring|].
        intros j Hj. unfold W, Mv, MA. rewrite !mkv_get by exact Hj. ring. }
      assert (EP : Ax A (P (SS k) g) i = al k * Ax A W i + be k * Ax A (P k g) i).
      { apply (ch_Ax_linear Srt A (al k) (be k) (P (SS k) g) W (P k g) n i (P_len _ _) (mkv_len _ _) (P_len _ _)).
        intros j Hj. rewrite (P_S k g j Hj). unfold W. rewrite mkv_get by exact Hj. reflexivity. }
      rewrite EP, EW. ring. }
    split; [|exact Pp].
    intros i Hi. rewrite (X_S k (AM g) i Hi), (Pp i Hi), (IHx i Hi). unfold MA. rewrite !mkv_get by exact Hi.
    rewrite (ch_Ax_linear Srt A s1 s1 (X (SS k) g) (P (SS k) g) (X k g) n i (X_len _ _) (P_len _ _) (X_len _ _)); [ring|].
    intros j Hj. rewrite (X_S k g j Hj). ring.
Qed.

(* ---------- (2) symmetry ---------- *)
Hypothesis SA : sym_mat n A.

Lemma ip_lin_r m a (x : vec) b (w z y : vec) :
  (forall i, i < m -> vget z i = a * vget x i + b * vget w i) ->
  ip m y z = a * ip m y x + b * ip m y w.
Proof. intro H. rewrite !(ip_sym Srt m y). apply (ip_lin_l Srt). exact H. Qed.

Lemma ip_zero_vec_l (z g : vec) : (forall i, i < n -> vget z i = s0) -> ip n z g = s0.
Proof.
  intro H. unfold ip. rewrite <- (sumn_zero Srt n). apply sumn_ext. intros i Hi. rewrite (H i Hi). ring.
Qed.

(* <W_f, g> = <f, M g> - <f, X_k (A M g)>  given the symmetry of X_k *)
Lemma XP_sym k : forall f g, length f = n -> length g = n ->
  ip n (X k f) g = ip n f (X k g) /\ ip n (P k f) g = ip n f (P k g).
Proof.
  induction k as [|k IH]; intros f g Lf Lg.
  - split.
    + rewrite (ip_zero_vec_l (X 0 f) g) by (intros; apply X_0; assumption).
      rewrite (ip_sym Srt), (ip_zero_vec_l (X 0 g) f) by (intros; apply X_0; assumption). reflexivity.
    + rewrite (ip_zero_vec_l (P 0 f) g) by (intros; apply P_0; assumption).
      rewrite (ip_sym Srt), (ip_zero_vec_l (P 0 g) f) by (intros; apply P_0; assumption). reflexivity.
  - destruct (IH f g Lf Lg) as [IHx IHp].
    destruct SA as [HcA HsA].
    set (Wf := mkv n (fun j => mu j * (vget f j - Ax A (X k f) j))).
    set (Wg := mkv n (fun j => mu j * (vget g j - Ax A (X k g) j))).
    (* <W_f, g> = <f, M g> - <A X_k f, M g> *)
    assert (E1 : ip n Wf g = ip n f (Mv g) - qA n A (X k f) (Mv g)).
    { unfold ip, qA. rewrite <- (sumn_sub_cs _ _ n). apply sumn_ext. intros i Hi.
      unfold Wf, Mv. rewrite !mkv_get by exact Hi. ring. }
    (* <f, W_g> = <f, M g> - <f, M A X_k g> *)
    assert (E2 : ip n f Wg = ip n f (Mv g) - ip n f (MA (X k g))).
    { unfold ip. rewrite <- (sumn_sub_cs _ _ n). apply sumn_ext. intros i Hi.
      unfold Wg, Mv, MA. rewrite !mkv_get by exact Hi. ring. }
    (* <A X_k f, M g> = <A M g, X_k f> = <X_k f, A M g> = <f, X_k (A M g)> = <f, M A X_k g> *)
    assert (E3 : qA n A (X k f) (Mv g) = ip n f (MA (X k g))).
    { rewrite (qA_adj Srt A A n n (X k f) (Mv g) HcA HcA HsA).
      rewrite <- (ip_Ax n A (Mv g) (AM g) (X k f)) by (intros i Hi; unfold AM; rewrite mkv_get by exact Hi; reflexivity).
      rewrite (ip_sym Srt).
      rewrite (proj1 (IH f (AM g) Lf (mkv_len _ _))).
      rewrite !(ip_sym Srt n f). apply ip_ext_l. apply (proj1 (XP_comm k g Lg)). }
    assert (Pp : ip n (P (SS k) f) g = ip n f (P (SS k) g)).
    { rewrite (ip_lin_l Srt n (al k) Wf (be k) (P k f) (P (SS k) f) g).
      2:{ intros i Hi. rewrite (P_S k f i Hi). unfold Wf. rewrite mkv_get by exact Hi. reflexivity. }
      rewrite (ip_lin_r n (al k) Wg (be k) (P k g) (P (SS k) g) f).
      2:{ intros i Hi. rewrite (P_S k g i Hi). unfold Wg. rewrite mkv_get by exact Hi. reflexivity. }
      rewrite E1, E2, E3, IHp. reflexivity. }
    split; [|exact Pp].
    rewrite (ip_lin_l Srt n s1 (P (SS k) f) s1 (X k f) (X (SS k) f) g)
      by (intros i Hi; rewrite (X_S k f i Hi); ring).
    rewrite (ip_lin_r n s1 (P (SS k) g) s1 (X k g) (X (SS k) g) f)
      by (intros i Hi; rewrite (X_S k g i Hi); ring).
    rewrite Pp, IHx. reflexivity.
Qed.

End ChebSym.

(* ================================================================== *)
(* the sweeps of the chebyshev object built by the constructor model: consistent and self-adjoint *)
Section ChebSweeps.
Context {S : Scalar}.
Local Notation vec := (vec S).
Local Notation crs := (crs S).
Local Notation sweep := (@sweep S).
Hypothesis Srt : Sring S.
Hypothesis Seqb : seqb_spec S.
Add Ring SRingCS2 : Srt.

Variables (degree : nat) (lower higher : S) (scale : bool) (A : crs).
Hypothesis WA : wf A = true.
Local Notation n := (nrows A).

Lemma cheby_setup_M_len hi0 (junk m : vec) :
  snd (cheby_setup scale A hi0 lower higher junk) = Some m -> length m = n.
Proof.
  unfold cheby_setup. destruct (cheby_cd c_half hi0 lower higher) as [c d]. cbn [snd].
  destruct scale; [|discriminate]. intro H; injection H as <-. apply diagonal_length.
Qed.

(* every sweep of the pair is  (f, x, t) |-> (cheby_sweep (c, d, M) degree A f x 0 0, t) *)
Lemma cheby_sweeps_form : exists c d M, (forall m, M = Some m -> length m = n) /\
  fst (cheby_sweeps degree lower higher scale A) =
    (fun rhs x (t : vec) => (cheby_sweep (c, d, M) degree A rhs x (vzero n) (vzero n), t)) /\
  snd (cheby_sweeps degree lower higher scale A) = fst (cheby_sweeps degree lower higher scale A).
Proof.
  unfold cheby_sweeps. cbn [fst snd].
  pose proof (cheby_setup_M_len (gershgorin scale A) (vzero n)) as HM.
  destruct (cheby_setup scale A (gershgorin scale A) lower higher (vzero n)) as [[c d] M]. cbn [snd] in HM.
  exists c, d, M. split; [exact HM|]. split; reflexivity.
Qed.

Theorem cheby_sweep_cons : sweep_cons n A (fst (cheby_sweeps degree lower higher scale A)).
Proof.
  destruct cheby_sweeps_form as (c & d & M & HM & E & _). rewrite E.
  intros f x t Lf Lx Lt. unfold opM. cbn [fst].
  assert (Lz : length (@vzero S n) = n) by apply repeat_length.
  set (r := residual f A x (vzero n)).
  assert (Lr : length r = n) by (apply residual_length; assumption).
  set (b2 := mkv n (fun i => Ax A x i)).
  assert (Lb2 : length b2 = n) by apply mkv_len.
  apply (vlin_intro Srt s1 s1 x _ _ n).
  - exact Lx.
  - apply (proj1 (sweep_zero_is_X Srt Seqb c d M A WA HM degree r (vzero n) (vzero n) (vzero n) Lr Lz Lz Lz
                    (fun i _ => vget_vzero n i))).
  - apply cheby_sweep_length; try assumption.
  - intros i Hi.
    rewrite (cheby_sweep_linear Srt Seqb c d M degree A s1 s1 f x (vzero n) (vzero n)
               r (vzero n) (vzero n) (vzero n) b2 x (vzero n) (vzero n)); try assumption.
    + rewrite (cheby_sweep_fixed_point Srt Seqb c d M degree A b2 x (vzero n) (vzero n)); try assumption.
      * ring.
      * intros j Hj. unfold b2. rewrite mkv_get by exact Hj. reflexivity.
    + intros j Hj. unfold r, b2. rewrite (residual_spec Srt) by assumption. rewrite mkv_get by exact Hj. ring.
    + intros j Hj. rewrite vget_vzero. ring.
Qed.

Theorem cheby_sweep_adj : sym_mat n A ->
  sweep_adj n (fst (cheby_sweeps degree lower higher scale A)) (snd (cheby_sweeps degree lower higher scale A)).
Proof.
  intro SA. destruct cheby_sweeps_form as (c & d & M & HM & E & E2). rewrite E2, E.
  intros f g Lf Lg. unfold opM. cbn [fst].
  assert (Lz : length (@vzero S n) = n) by apply repeat_length.
  rewrite (ip_ext_l n _ (X c d M A degree f) g).
  2:{ apply (proj2 (sweep_zero_is_X Srt Seqb c d M A WA HM degree f (vzero n) (vzero n) (vzero n) Lf Lz Lz Lz
                      (fun i _ => vget_vzero n i))). }
  rewrite (ip_sym Srt n f).
  rewrite (ip_ext_l n _ (X c d M A degree g) f).
  2:{ apply (proj2 (sweep_zero_is_X Srt Seqb c d M A WA HM degree g (vzero n) (vzero n) (vzero n) Lg Lz Lz Lz
                      (fun i _ => vget_vzero n i))). }
  rewrite (ip_sym Srt n _ f).
  apply (proj1 (XP_sym Srt c d M A SA degree f g Lf Lg)).
Qed.

Theorem cheby_sweeps_sym : sym_mat n A ->
  sweep_cons n A (fst (cheby_sweeps degree lower higher scale A)) /\
  sweep_cons n A (snd (cheby_sweeps degree lower higher scale A)) /\
  sweep_adj n (fst (cheby_sweeps degree lower higher scale A)) (snd (cheby_sweeps degree lower higher scale A)).
Proof.
  intro SA. split; [exact cheby_sweep_cons|]. split; [|exact (cheby_sweep_adj SA)].
  destruct cheby_sweeps_form as (_ & _ & _ & _ & _ & E2). rewrite E2. exact cheby_sweep_cons.
Qed.
End ChebSweeps.
