(* QrProofs.v -- structural facts about the QR model (Qr.v) that need no square root:
   array sizes are preserved, tau has min(m,n) entries, the accessor R is upper triangular for
   every shape and storage order, and factorize() does not depend on the previous content of
   the member vector q (q.resize keeps old content when a QR object is reused).   (C16 / A6) *)
From Amgcl Require Import Scalar Vec DirectUtil DirectProofs InverseProofs Qr.
Local Open Scope S_scope.
Local Open Scope nat_scope.

Section QrAny.
Context {S : Scalar}.
Local Notation vec := (vec S).

Lemma gen_reflector_length order ia ix stride (A : vec) :
  length (snd (gen_reflector order ia ix stride A)) = length A.
Proof.
  unfold gen_reflector. destruct (Nat.leb order 1); [reflexivity|]. cbv zeta.
  destruct (is_zero _); [reflexivity|]. cbn [snd]. rewrite lset_length.
  apply (for_loop_inv (fun _ (s : vec) => length s = length A)); [reflexivity|].
  intros i s _ Hs. rewrite lset_length. assumption.
Qed.

Lemma apply_reflector_length m n (V : vec) iv vs tau (C : vec) ic rs cs :
  length (apply_reflector m n V iv vs tau C ic rs cs) = length C.
Proof.
  unfold apply_reflector. destruct (is_zero tau); [reflexivity|].
  apply (for_loop_inv (fun _ (s : vec) => length s = length C)); [reflexivity|].
  intros i s _ Hs. cbv zeta.
  apply (for_loop_inv (fun _ (s' : vec) => length s' = length C)); [rewrite lset_length; assumption|].
  intros j s' _ Hs'. rewrite lset_length. assumption.
Qed.

Theorem qr_compute_lengths m n rs cs (A : vec) :
  length (fst (qr_compute m n rs cs A)) = length A /\ length (snd (qr_compute m n rs cs A)) = Nat.min m n.
Proof.
  unfold qr_compute.
  apply (for_loop_inv (fun _ (At : vec * vec) => length (fst At) = length A /\ length (snd At) = Nat.min m n)).
  - simpl. split; [reflexivity|apply repeat_length].
  - intros i [A1 t1] _ [H1 H2]. cbn [fst snd] in *.
    pose proof (gen_reflector_length (m - i) (i * (rs + cs)) (i * (rs + cs) + rs) rs A1) as HG.
    destruct (gen_reflector (m - i) (i * (rs + cs)) (i * (rs + cs) + rs) rs A1) as [t A2]. cbn [fst snd] in *.
    split; [|rewrite lset_length; assumption].
    destruct (Nat.ltb (i + 1) n); [rewrite apply_reflector_length|]; congruence.
Qed.

(* the accessor R is upper triangular by construction, for every shape and storage order *)
Theorem qr_R_upper rs cs (A' : vec) i j : j < i -> qr_R rs cs A' i j = s0.
Proof. intro H. unfold qr_R. apply Nat.ltb_lt in H. rewrite H. reflexivity. Qed.

(* ---------- factorize() does not depend on the old content of q ---------- *)
Lemma agree_lset_in (G : nat -> Prop) (t t' : vec) x (v : S) : G x -> Agree G t t' -> Agree G (lset t x v) (lset t' x v).
Proof.
  intros Hx H. eapply agree_weaken; [|apply agree_lset; exact H]. intros idx Hi. left. assumption.
Qed.
Lemma agree_lset_new (G G' : nat -> Prop) (t t' : vec) x (v : S) :
  (forall idx, G' idx -> G idx \/ idx = x) -> Agree G t t' -> Agree G' (lset t x v) (lset t' x v).
Proof. intros Hs H. eapply agree_weaken; [exact Hs|apply agree_lset; exact H]. Qed.

Lemma apply_reflector_agree (G : nat -> Prop) m n (V : vec) iv vs tau (C C' : vec) ic rs cs :
  0 < m -> (forall c j, c < n -> j < m -> G (ic + c * cs + j * rs)) ->
  Agree G C C' ->
  Agree G (apply_reflector m n V iv vs tau C ic rs cs) (apply_reflector m n V iv vs tau C' ic rs cs).
Proof.
  intros Hm HG H. unfold apply_reflector. destruct (is_zero tau); [assumption|].
  apply (for_loop_rel (fun _ a b => Agree G a b)); [assumption|].
  intros i a b Hi Hab. cbv zeta.
  assert (Hia : G (ic + i * cs)).
  { replace (ic + i * cs) with (ic + i * cs + 0 * rs) by lia. apply HG; lia. }
  assert (Hja : forall j, j < m -> G (ic + i * cs + j * rs)) by (intros; apply HG; lia).
  pose proof Hab as [_ HA].
  assert (Ew : for_loop 1 (m - 1) (fun j s => (s + sadj (vget a (ic + i * cs + j * rs)) * vget V (iv + j * vs))%S) (sadj (vget a (ic + i * cs)))
             = for_loop 1 (m - 1) (fun j s => (s + sadj (vget b (ic + i * cs + j * rs)) * vget V (iv + j * vs))%S) (sadj (vget b (ic + i * cs)))).
  { rewrite (HA _ Hia). apply for_loop_ext. intros j s Hj. rewrite (HA _ (Hja j ltac:(lia))). reflexivity. }
  rewrite Ew. rewrite (HA _ Hia).
  apply (for_loop_rel (fun _ a' b' => Agree G a' b')).
  - apply agree_lset_in; assumption.
  - intros j a' b' Hj Hab'. pose proof Hab' as [_ HA']. rewrite (HA' _ (Hja j ltac:(lia))).
    apply agree_lset_in; [apply Hja; lia|assumption].
Qed.

Theorem qr_factorize_junk_independent m n rs cs (A q q' : vec) : length q = length q' ->
  fst (qr_factorize m n rs cs A q) = fst (qr_factorize m n rs cs A q') /\
  forall i j, i < m -> j < n ->
    qr_Q rs cs (snd (qr_factorize m n rs cs A q)) i j = qr_Q rs cs (snd (qr_factorize m n rs cs A q')) i j.
Proof.
  intro HL. unfold qr_factorize. destruct (qr_compute m n rs cs A) as [A' tau]. cbv zeta. cbn [fst snd].
  split; [reflexivity|].
  set (k := Nat.min m n).
  pose (Gc := fun (lo : nat) (idx : nat) => exists r c, r < m /\ lo <= c /\ c < n /\ idx = r * rs + c * cs).
  (* stage 1: the columns k..n-1 *)
  match goal with |- context [for_down 0 k ?body (for_loop 0 m ?init q)] =>
    set (bodyD := body); set (bodyI := init) end.
  assert (H1 : Agree (Gc k) (for_loop 0 m bodyI q) (for_loop 0 m bodyI q')).
  { pose (G1 := fun (i : nat) (idx : nat) => exists r c, r < i /\ k <= c /\ c < n /\ idx = r * rs + c * cs).
    apply (agree_weaken (Gc k) (G1 (0 + m))); [|apply (for_loop_rel (fun i a b => Agree (G1 i) a b) 0 m bodyI bodyI q q')].
    - intros idx (r & c & Hr & Hc1 & Hc2 & E). exists r, c. repeat split; try assumption; lia.
    - split; [assumption|]. intros idx (r & _ & Hr & _). lia.
    - intros i a b Hi Hab. unfold bodyI.
      pose (G2 := fun (j : nat) (idx : nat) => G1 i idx \/ exists c, k <= c /\ c < j /\ idx = i * rs + c * cs).
      apply (agree_weaken (G1 (Datatypes.S i)) (G2 (k + (n - k)))); [|apply (for_loop_rel (fun j a' b' => Agree (G2 j) a' b'))].
      + intros idx (r & c & Hr & Hc1 & Hc2 & E). destruct (Nat.eq_dec r i) as [->|].
        * right. exists c. repeat split; try assumption; lia.
        * left. exists r, c. repeat split; try assumption; lia.
      + eapply agree_weaken; [|exact Hab]. intros idx [Hg|(c & H1' & H2' & _)]; [assumption|lia].
      + intros j a' b' Hj Hab'. apply (agree_lset_new (G2 j)); [|assumption].
        intros idx [Hg|(c & Hc1 & Hc2 & E)]; [left; left; assumption|].
        destruct (Nat.eq_dec c j) as [->|]; [right; assumption|].
        left. right. exists c. repeat split; try assumption; lia. }
  (* stage 2: columns k-1 .. 0 *)
  assert (H2 : Agree (Gc 0) (for_down 0 k bodyD (for_loop 0 m bodyI q)) (for_down 0 k bodyD (for_loop 0 m bodyI q'))).
  { apply (for_down_rel (fun i a b => Agree (Gc i) a b) 0 k bodyD bodyD); [exact H1|].
    intros i a b Hi Hab. unfold bodyD. cbv zeta.
    assert (Hk : k <= m /\ k <= n) by (unfold k; lia).
    (* apply_reflector touches only columns > i *)
    assert (Hq1 : Agree (Gc (Datatypes.S i))
       (if Nat.ltb i (n - 1) then apply_reflector (m - i) (n - i - 1) A' (i * (rs + cs)) rs (vget tau i) a (i * (rs + cs) + cs) rs cs else a)
       (if Nat.ltb i (n - 1) then apply_reflector (m - i) (n - i - 1) A' (i * (rs + cs)) rs (vget tau i) b (i * (rs + cs) + cs) rs cs else b)).
    { destruct (Nat.ltb i (n - 1)); [|assumption]. apply apply_reflector_agree; [lia| |assumption].
      intros c j Hc Hj. exists (i + j), (i + 1 + c). repeat split; try lia. }
    set (a1 := if Nat.ltb i (n - 1) then _ else a) in *. set (b1 := if Nat.ltb i (n - 1) then _ else b) in *.
    (* zeros above the diagonal *)
    pose (G3 := fun (j : nat) (idx : nat) => Gc (Datatypes.S i) idx \/ exists r, r < j /\ idx = r * rs + i * cs).
    assert (Hq2 : Agree (G3 i) (for_loop 0 i (fun j q0 => lset q0 (j * rs + i * cs) s0) a1)
                             (for_loop 0 i (fun j q0 => lset q0 (j * rs + i * cs) s0) b1)).
    { apply (for_loop_rel (fun j a' b' => Agree (G3 j) a' b')).
      - eapply agree_weaken; [|exact Hq1]. intros idx [Hg|(r & Hr & _)]; [assumption|lia].
      - intros j a' b' Hj Hab'. apply (agree_lset_new (G3 j)); [|assumption].
        intros idx [Hg|(r & Hr & E)]; [left; left; assumption|].
        destruct (Nat.eq_dec r j) as [->|]; [right; assumption|]. left. right. exists r. split; [lia|assumption]. }
    set (a2 := for_loop 0 i (fun j (q0 : vec) => lset q0 (j * rs + i * cs) s0) a1) in *.
    set (b2 := for_loop 0 i (fun j (q0 : vec) => lset q0 (j * rs + i * cs) s0) b1) in *.
    pose (G4 := fun (j : nat) (idx : nat) => Gc (Datatypes.S i) idx \/ exists r, r < j /\ idx = r * rs + i * cs).
    assert (Hq3 : Agree (G4 (i + 1)) (lset a2 (i * (rs + cs)) (s1 - vget tau i)%S) (lset b2 (i * (rs + cs)) (s1 - vget tau i)%S)).
    { apply (agree_lset_new (G3 i)); [|assumption].
      intros idx [Hg|(r & Hr & E)]; [left; left; assumption|].
      destruct (Nat.eq_dec r i) as [->|]; [right; lia|]. left. right. exists r. split; [lia|assumption]. }
    apply (agree_weaken (Gc i) (G4 (i + 1 + (m - (i + 1))))); [|apply (for_loop_rel (fun j a' b' => Agree (G4 j) a' b')); [exact Hq3|]].
    - intros idx (r & c & Hr & Hc1 & Hc2 & E). destruct (Nat.eq_dec c i) as [->|].
      + right. exists r. split; [lia|assumption].
      + left. exists r, c. repeat split; try assumption; lia.
    - intros j a' b' Hj Hab'. apply (agree_lset_new (G4 j)); [|assumption].
      intros idx [Hg|(r & Hr & E)]; [left; left; assumption|].
      destruct (Nat.eq_dec r j) as [->|]; [right; assumption|]. left. right. exists r. split; [lia|assumption]. }
  destruct H2 as [_ HA]. intros i j Hi Hj. unfold qr_Q. apply HA. exists i, j. repeat split; try assumption; lia.
Qed.

End QrAny.
