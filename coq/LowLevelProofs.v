(* LowLevelProofs.v -- C10-A2: on well-formed flat CRS input the bounds-checked spmv /
   residual (LowLevel.v) never leave an array and compute the list-of-rows model
   (Kernels.v), for every Scalar record (no algebraic law is used). *)
From Coq Require Import Lia.
From Amgcl Require Import Scalar Vec Crs Kernels LowLevel.
Local Open Scope S_scope.

(* ------------------------------------------------------------------ checked accesses *)
Lemma rd_ok {X} (l : list X) i d : i < length l -> rd l i = Ok (nth i l d).
Proof.
  intro H. unfold rd. rewrite (nth_error_nth' l d H). reflexivity.
Qed.
Lemma rd_oob {X} (l : list X) i : length l <= i -> rd l i = ErrOOB.
Proof. intro H. unfold rd. apply nth_error_None in H. rewrite H. reflexivity. Qed.
Lemma rd_app {X} (a : list X) b t : rd (a ++ b :: t) (length a) = Ok b.
Proof. unfold rd. rewrite nth_error_app2, Nat.sub_diag by lia. reflexivity. Qed.
Lemma wr_app {X} (a : list X) b t v : wr (a ++ b :: t) (length a) v = Ok (a ++ v :: t).
Proof. induction a as [|h a IH]; simpl; [reflexivity|]. rewrite IH. reflexivity. Qed.
Lemma wr_oob {X} (l : list X) i v : length l <= i -> wr l i v = ErrOOB.
Proof.
  revert i; induction l as [|a l IH]; intros i H; simpl in *; [reflexivity|].
  destruct i as [|k]; [lia|]. rewrite IH by lia. reflexivity.
Qed.
Lemma skipn_cons_nth {X} (l : list X) p d : p < length l -> skipn p l = nth p l d :: skipn (Datatypes.S p) l.
Proof.
  revert p; induction l as [|a l IH]; intros p H; simpl in *; [lia|].
  destruct p as [|p]; [reflexivity|]. exact (IH p ltac:(lia)).
Qed.

Lemma for_res_step {St} lo cnt (body : nat -> St -> res St) st :
  for_res lo (Datatypes.S cnt) body st = bind (body lo st) (for_res (Datatypes.S lo) cnt body).
Proof.
  unfold for_res. simpl. destruct (body lo st) as [st'|]; [reflexivity|].
  simpl. induction (seq (Datatypes.S lo) cnt) as [|a l IH]; simpl; [reflexivity|exact IH].
Qed.
Lemma for_res_zero {St} lo (body : nat -> St -> res St) st : for_res lo 0 body st = Ok st.
Proof. reflexivity. Qed.
Lemma for_res_ext {St} lo cnt (b1 b2 : nat -> St -> res St) st :
  (forall i s, lo <= i < lo + cnt -> b1 i s = b2 i s) -> for_res lo cnt b1 st = for_res lo cnt b2 st.
Proof.
  revert lo st; induction cnt as [|k IH]; intros lo st H; [reflexivity|].
  rewrite !for_res_step. rewrite (H lo st) by lia.
  destruct (b2 lo st) as [st'|]; simpl; [|reflexivity]. apply IH. intros i s Hi. apply H. lia.
Qed.

Section Proofs.
Context {S : Scalar}.
Local Notation vec := (vec S).
Local Notation fcrs := (fcrs S).

(* ------------------------------------------------------------------ the row loop *)
Lemma dot_slice (col : list nat) (val x : vec) : forall k p a,
  (p + k <= length col)%nat -> length val = length col -> (forall c, In c col -> c < length x) ->
  for_res p k (fun j sum =>
      c <- rd col j ;; v <- rd val j ;; xc <- rd x c ;; Ok (sum + v * xc)) a =
  Ok (fold_left (fun acc e => acc + snd e * vget x (fst e))
                (combine (firstn k (skipn p col)) (firstn k (skipn p val))) a).
Proof.
  induction k as [|k IH]; intros p a Hp Hl Hc; [reflexivity|].
  rewrite for_res_step.
  rewrite (rd_ok col p 0%nat) by lia. cbn [bind].
  rewrite (rd_ok val p s0) by lia. cbn [bind].
  assert (Hin : nth p col 0%nat < length x) by (apply Hc; apply nth_In; lia).
  rewrite (rd_ok x _ s0 Hin). cbn [bind].
  rewrite IH by (try assumption; lia).
  rewrite (skipn_cons_nth col p 0%nat) by lia. rewrite (skipn_cons_nth val p s0) by lia.
  cbn [firstn combine fold_left fst snd]. unfold vget. reflexivity.
Qed.

Lemma fptr_mono (F : fcrs) : fwf F -> forall j i, i <= j -> j <= fn F ->
  nth i (fptr F) 0%nat <= nth j (fptr F) 0%nat.
Proof.
  intros (_ & _ & Hm & _) j. induction j as [|j IH]; intros i Hij Hj.
  - replace i with 0%nat by lia. lia.
  - destruct (Nat.eq_dec i (Datatypes.S j)) as [->|Hne]; [lia|].
    specialize (IH i ltac:(lia) ltac:(lia)). specialize (Hm j ltac:(lia)). lia.
Qed.

Lemma ll_dot_ok (F : fcrs) (x : vec) i : fwf F -> length x = fm F -> i < fn F ->
  ll_dot F x i = Ok (dotrow (frow F i) x).
Proof.
  intros W Hx Hi. pose proof W as (Hlen & H0 & Hm & Hn & Hv & Hc).
  unfold ll_dot. rewrite (rd_ok (fptr F) i 0%nat) by lia. cbn [bind].
  rewrite Nat.add_1_r. rewrite (rd_ok (fptr F) (Datatypes.S i) 0%nat) by lia. cbn [bind].
  set (p := nth i (fptr F) 0%nat). set (e := nth (Datatypes.S i) (fptr F) 0%nat).
  assert (Hpe : p <= e) by (apply Hm; exact Hi).
  assert (He : e <= length (fcol F)).
  { rewrite <- Hn. apply (fptr_mono F W); lia. }
  rewrite dot_slice.
  - reflexivity.
  - lia.
  - exact Hv.
  - intros c Hin. rewrite Hx. apply Hc. exact Hin.
Qed.

(* ------------------------------------------------------------------ the outer loop:
   a body that rewrites cell i from its old content is upd2 over the whole vector *)
Lemma loop_upd2 (body : nat -> vec -> res vec) (g : S -> S -> S) : forall (s yr yd : vec) k,
  length yd = k -> length yr = length s ->
  (forall t b (yd' y' : vec), t < length s -> length yd' = (k + t)%nat ->
     body (k + t)%nat (yd' ++ b :: y') = Ok (yd' ++ g (nth t s s0) b :: y')) ->
  for_res k (length s) body (yd ++ yr) = Ok (yd ++ upd2 g s yr).
Proof.
  induction s as [|a s IH]; intros yr yd k Hd Hr Hb.
  - destruct yr; [reflexivity|discriminate].
  - destruct yr as [|b yr]; [discriminate|]. simpl in Hr.
    cbn [length]. rewrite for_res_step.
    pose proof (Hb 0 b yd yr ltac:(simpl; lia) ltac:(lia)) as H0.
    rewrite Nat.add_0_r in H0. rewrite H0. cbn [bind nth upd2].
    replace (yd ++ g a b :: yr) with ((yd ++ [g a b]) ++ yr) by (rewrite <- app_assoc; reflexivity).
    rewrite (IH yr (yd ++ [g a b]) (Datatypes.S k)).
    + rewrite <- app_assoc. reflexivity.
    + rewrite app_length. simpl. lia.
    + lia.
    + intros t b' yd' y' Ht Hl.
      replace (Datatypes.S k + t)%nat with (k + Datatypes.S t)%nat by lia.
      rewrite (Hb (Datatypes.S t) b' yd' y') by (simpl; lia). reflexivity.
Qed.

Lemma loop_upd3 (body : nat -> vec -> res vec) (g : S -> S -> S -> S) : forall (s f yr yd : vec) k,
  length yd = k -> length yr = length s -> length f = length s ->
  (forall t b (yd' y' : vec), t < length s -> length yd' = (k + t)%nat ->
     body (k + t)%nat (yd' ++ b :: y') = Ok (yd' ++ g (nth t s s0) (nth t f s0) b :: y')) ->
  for_res k (length s) body (yd ++ yr) = Ok (yd ++ upd3 g s f yr).
Proof.
  induction s as [|a s IH]; intros f yr yd k Hd Hr Hf Hb.
  - destruct yr; [reflexivity|discriminate].
  - destruct yr as [|b yr]; [discriminate|]. destruct f as [|c f]; [discriminate|]. simpl in Hr, Hf.
    cbn [length]. rewrite for_res_step.
    pose proof (Hb 0 b yd yr ltac:(simpl; lia) ltac:(lia)) as H0.
    rewrite Nat.add_0_r in H0. rewrite H0. cbn [bind nth upd3].
    replace (yd ++ g a c b :: yr) with ((yd ++ [g a c b]) ++ yr) by (rewrite <- app_assoc; reflexivity).
    rewrite (IH f yr (yd ++ [g a c b]) (Datatypes.S k)).
    + rewrite <- app_assoc. reflexivity.
    + rewrite app_length. simpl. lia.
    + lia.
    + lia.
    + intros t b' yd' y' Ht Hl.
      replace (Datatypes.S k + t)%nat with (k + Datatypes.S t)%nat by lia.
      rewrite (Hb (Datatypes.S t) b' yd' y') by (simpl; lia). reflexivity.
Qed.

Lemma dots_length (F : fcrs) (x : vec) :
  length (map (fun r => dotrow r x) (rows (unflat F))) = fn F.
Proof. unfold unflat. cbn [rows]. rewrite !map_length, seq_length. reflexivity. Qed.
Lemma dots_nth (F : fcrs) (x : vec) t : t < fn F ->
  nth t (map (fun r => dotrow r x) (rows (unflat F))) s0 = dotrow (frow F t) x.
Proof.
  intro Ht. unfold unflat. cbn [rows]. rewrite map_map.
  rewrite (nth_indep _ s0 ((fun i => dotrow (frow F i) x) 0%nat)) by (rewrite map_length, seq_length; exact Ht).
  rewrite (map_nth (fun i => dotrow (frow F i) x)). rewrite seq_nth by exact Ht. reflexivity.
Qed.

(* ------------------------------------------------------------------ spmv *)
Theorem ll_spmv_ok alpha (F : fcrs) (x : vec) beta (y : vec) :
  fwf F -> length x = fm F -> length y = fn F ->
  ll_spmv alpha F x beta y = Ok (spmv alpha (unflat F) x beta y).
Proof.
  intros W Hx Hy. unfold ll_spmv, spmv.
  set (s := map (fun r => dotrow r x) (rows (unflat F))).
  assert (Hs : length s = fn F) by apply dots_length.
  destruct (is_zero beta).
  - rewrite <- Hs. apply (loop_upd2 _ (fun sm _ => alpha * sm) s y [] 0); [reflexivity|lia|].
    intros t b yd' y' Ht Hl. change (0 + t)%nat with t in *.
    rewrite ll_dot_ok by (try assumption; lia). cbn [bind].
    unfold s. rewrite dots_nth by lia. rewrite <- Hl. apply wr_app.
  - rewrite <- Hs. apply (loop_upd2 _ (fun sm yi => alpha * sm + beta * yi) s y [] 0); [reflexivity|lia|].
    intros t b yd' y' Ht Hl. change (0 + t)%nat with t in *.
    rewrite ll_dot_ok by (try assumption; lia). cbn [bind].
    unfold s. rewrite dots_nth by lia. rewrite <- Hl. rewrite rd_app. cbn [bind]. apply wr_app.
Qed.

Corollary ll_spmv_no_oob alpha (F : fcrs) (x : vec) beta (y : vec) :
  fwf F -> length x = fm F -> length y = fn F -> ll_spmv alpha F x beta y <> ErrOOB.
Proof. intros W Hx Hy. rewrite ll_spmv_ok by assumption. discriminate. Qed.

(* ------------------------------------------------------------------ residual *)
Theorem ll_residual_ok (f : vec) (F : fcrs) (x r : vec) :
  fwf F -> length x = fm F -> length f = fn F -> length r = fn F ->
  ll_residual f F x r = Ok (residual f (unflat F) x r).
Proof.
  intros W Hx Hf Hr. unfold ll_residual, residual.
  set (s := map (fun r => dotrow r x) (rows (unflat F))).
  assert (Hs : length s = fn F) by apply dots_length.
  rewrite <- Hs. apply (loop_upd3 _ (fun sm fi _ => fi - sm) s f r [] 0); [reflexivity|lia|lia|].
  intros t b yd' y' Ht Hl. change (0 + t)%nat with t in *.
  rewrite ll_dot_ok by (try assumption; lia). cbn [bind].
  rewrite (rd_ok f t s0) by lia. cbn [bind].
  unfold s. rewrite dots_nth by lia. rewrite <- Hl. apply wr_app.
Qed.

Corollary ll_residual_no_oob (f : vec) (F : fcrs) (x r : vec) :
  fwf F -> length x = fm F -> length f = fn F -> length r = fn F -> ll_residual f F x r <> ErrOOB.
Proof. intros. rewrite ll_residual_ok by assumption. discriminate. Qed.

(* the list-of-rows view of well-formed arrays is well-formed in the sense of Crs.v
   (column indices in range), so the C07 formulas apply to it *)
Lemma firstn_in {X} k (l : list X) a : In a (firstn k l) -> In a l.
Proof. revert l; induction k as [|k IH]; intros [|b l] H; simpl in *; try contradiction. destruct H; auto. Qed.
Lemma skipn_in {X} k (l : list X) a : In a (skipn k l) -> In a l.
Proof. revert l; induction k as [|k IH]; intros [|b l] H; simpl in *; try contradiction; auto. Qed.

Theorem unflat_wf (F : fcrs) : fwf F -> wf (unflat F) = true /\ nrows (unflat F) = fn F /\ ncols (unflat F) = fm F.
Proof.
  intros (_ & _ & _ & _ & _ & Hc). split; [|split].
  - unfold wf, unflat. cbn [rows ncols]. apply forallb_forall. intros r Hr.
    apply in_map_iff in Hr. destruct Hr as (i & <- & _).
    unfold row_wf. apply forallb_forall. intros [c v] He. cbn [fst].
    apply Nat.ltb_lt. apply Hc. unfold frow in He. apply in_combine_l in He.
    unfold slice in He. apply firstn_in in He. apply skipn_in in He. exact He.
  - unfold nrows, unflat. cbn [rows]. rewrite map_length, seq_length. reflexivity.
  - reflexivity.
Qed.

End Proofs.

(* ------------------------------------------------------------------ the checks bite *)
From Amgcl Require Import QcInst.
(* a column index outside x, a short y, a ptr array that runs past col: all ErrOOB *)
Example ll_spmv_bad_col :
  ll_spmv (qc 1 1) (mkF 1 1 [0; 1] [3] [qc 2 1])%nat [qc 1 1] (qc 0 1) [qc 0 1] = ErrOOB.
Proof. vm_compute. reflexivity. Qed.
Example ll_spmv_short_y :
  ll_spmv (qc 1 1) (mkF 2 1 [0; 1; 2] [0; 0] [qc 2 1; qc 3 1])%nat [qc 1 1] (qc 0 1) [qc 0 1] = ErrOOB.
Proof. vm_compute. reflexivity. Qed.
Example ll_spmv_bad_ptr :
  ll_spmv (qc 1 1) (mkF 1 1 [0; 2] [0] [qc 2 1])%nat [qc 1 1] (qc 0 1) [qc 0 1] = ErrOOB.
Proof. vm_compute. reflexivity. Qed.
(* degenerate valid inputs: 0x0, 1x1, an empty row *)
Example ll_spmv_empty : ll_spmv (qc 1 1) (mkF 0 0 [0] [] [])%nat [] (qc 0 1) [] = Ok [].
Proof. vm_compute. reflexivity. Qed.
Example ll_spmv_1x1 :
  ll_spmv (qc 1 1) (mkF 1 1 [0; 1] [0] [qc 2 1])%nat [qc 3 1] (qc 0 1) [qc 7 1] = Ok [qc 6 1].
Proof. vm_compute. reflexivity. Qed.
