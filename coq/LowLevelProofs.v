(* LowLevelProofs.v -- C10-A2: on well-formed flat CRS input the bounds-checked spmv /
   residual (LowLevel.v) never leave an array and compute the list-of-rows model
   (Kernels.v), for every Scalar record (no algebraic law is used). *)
From Coq Require Import Lia.
From Amgcl Require Import Scalar Vec Crs Kernels LowLevel.
Local Open Scope S_scope.

(* ------------------------------------------------------------------ checked accesses *)
Lemma rd_ok {X} (l : list X) i d : i < length l -> rd l i = Ok (nth i l d).
Proof.
  intro H. unfold rd. rewrite (nth_error_nth' l d H). reflexivity.
Qed.
Lemma rd_oob {X} (l : list X) i : length l <= i -> rd l i = ErrOOB.
Proof. intro H. unfold rd. apply nth_error_None in H. rewrite H. reflexivity. Qed.
Lemma rd_app {X} (a : list X) b t : rd (a ++ b :: t) (length a) = Ok b.
Proof. unfold rd. rewrite nth_error_app2, Nat.sub_diag by lia. reflexivity. Qed.
Lemma wr_app {X} (a : list X) b t v : wr (a ++ b :: t) (length a) v = Ok (a ++ v :: t).
Proof. induction a as [|h a IH]; simpl; [reflexivity|]. rewrite IH. reflexivity. Qed.
Lemma wr_oob {X} (l : list X) i v : length l <= i -> wr l i v = ErrOOB.
Proof.
  revert i; induction l as [|a l IH]; intros i H; simpl in *; [reflexivity|].
  destruct i as [|k]; [lia|]. rewrite IH by lia. reflexivity.
Qed.
Lemma skipn_cons_nth {X} (l : list X) p d : p < length l -> skipn p l = nth p l d :: skipn (Datatypes.S p) l.
Proof.
  revert p; induction l as [|a l IH]; intros p H; simpl in *; [lia|].
  destruct p as [|p]; [reflexivity|]. exact (IH p ltac:(lia)).
Qed.

Lemma for_res_step {St} lo cnt (body : nat -> St -> res St) st :
  for_res lo (Datatypes.S cnt) body st = bind (body lo st) (for_res (Datatypes.S lo) cnt body).
Proof.
  unfold for_res. simpl. destruct (body lo st) as [st'|]; [reflexivity|].
  simpl. induction (seq (Datatypes.S lo) cnt) as [|a l IH]; simpl; [reflexivity|exact IH].
Qed.
Lemma for_res_zero {St} lo (body : nat -> St -> res St) st : for_res lo 0 body st = Ok st.
Proof. reflexivity. Qed.
Lemma for_res_ext {St} lo cnt (b1 b2 : nat -> St -> res St) st :
  (forall i s, lo <= i < lo + cnt -> b1 i s = b2 i s) -> for_res lo cnt b1 st = for_res lo cnt b2 st.
Proof.
  revert lo st; induction cnt as [|k IH]; intros lo st H; [reflexivity|].
  rewrite !for_res_step. rewrite (H lo st) by lia.
  destruct (b2 lo st) as [st'|]; simpl; [|reflexivity]. apply IH. intros i s Hi. apply H. lia.
Qed.

Section Proofs.
Context {S : Scalar}.
Local Notation vec := (vec S).
Local Notation fcrs := (fcrs S).

(* ------------------------------------------------------------------ the row loop *)
Lemma dot_slice (col : list nat) (val x : vec) : forall k p a,
  (p + k <= length col)%nat -> length val = length col -> (forall c, In c col -> c < length x) ->
  for_res p k (fun j sum =>
      c <- rd col j ;; v <- rd val j ;; xc <- rd x c ;; Ok (sum + v * xc)) a =
  Ok (fold_left (fun acc e => acc + snd e * vget x (fst e))
                (combine (firstn k (skipn p col)) (firstn k (skipn p val))) a).
Proof.
  induction k as [|k IH]; intros p a Hp Hl Hc; [reflexivity|].
  rewrite for_res_step.
  rewrite (rd_ok col p 0%nat) by lia. cbn [bind].
  rewrite (rd_ok val p s0) by lia. cbn [bind].
  assert (Hin : nth p col 0%nat < length x) by (apply Hc; apply nth_In; lia).
  rewrite (rd_ok x _ s0 Hin). cbn [bind].
  rewrite IH by (try assumption; lia).
  rewrite (skipn_cons_nth col p 0%nat) by lia. rewrite (skipn_cons_nth val p s0) by lia.
  cbn [firstn combine fold_left fst snd]. unfold vget. reflexivity.
Qed.

Lemma fptr_mono (F : fcrs) : fwf F -> forall j i, i <= j -> j <= fn F ->
  nth i (fptr F) 0%nat <= nth j (fptr F) 0%nat.
Proof.
  intros (_ & _ & Hm & _) j. induction j as [|j IH]; intros i Hij Hj.
  - replace i with 0%nat by lia. lia.
  - destruct (Nat.eq_dec i (Datatypes.S j)) as [->|Hne]; [lia|].
    specialize (IH i ltac:(lia) ltac:(lia)). specialize (Hm j ltac:(lia)). lia.
Qed.

Lemma ll_dot_ok (F : fcrs) (x : vec) i : fwf F -> length x = fm F -> i < fn F ->
  ll_dot F x i = Ok (dotrow (frow F i) x).
Proof.
  intros W Hx Hi. pose proof W as (Hlen & H0 & Hm & Hn & Hv & Hc).
  unfold ll_dot. rewrite (rd_ok (fptr F) i 0%nat) by lia. cbn [bind].
  rewrite Nat.add_1_r. rewrite (rd_ok (fptr F) (Datatypes.S i) 0%nat) by lia. cbn [bind].
  set (p := nth i (fptr F) 0%nat). set (e := nth (Datatypes.S i) (fptr F) 0%nat).
  assert (Hpe : p <= e) by (apply Hm; exact Hi).
  assert (He : e <= length (fcol F)).
  { rewrite <- Hn. apply (fptr_mono F W); lia. }
  rewrite dot_slice.
  - reflexivity.
  - lia.
  - exact Hv.
  - intros c Hin. rewrite Hx. apply Hc. exact Hin.
Qed.

(* ------------------------------------------------------------------ the outer loop:
   a body that rewrites cell i from its old content is upd2 over the whole vector *)
Lemma loop_upd2 (body : nat -> vec -> res vec) (g : S -> S -> S) : forall (s yr yd : vec) k,
  length yd = k -> length yr = length s ->
  (forall t b (yd' y' : vec), t < length s -> length yd' = (k + t)%nat ->
     body (k + t)%nat (yd' ++ b :: y') = Ok (yd' ++ g (nth t s s0) b :: y')) ->
  for_res k (length s) body (yd ++ yr) = Ok (yd ++ upd2 g s yr).
Proof.
  induction s as [|a s IH]; intros yr yd k Hd Hr Hb.
  - destruct yr; [reflexivity|discriminate].
  - destruct yr as [|b yr]; [discriminate|]. simpl in Hr.
    cbn [length]. rewrite for_res_step.
    pose proof (Hb 0 b yd yr ltac:(simpl; lia) ltac:(lia)) as H0.
    rewrite Nat.add_0_r in H0. rewrite H0. cbn [bind nth upd2].
    replace (yd ++ g a b :: yr) with ((yd ++ [g a b]) ++ yr) by (rewrite <- app_assoc; reflexivity).
    rewrite (IH yr (yd ++ [g a b]) (Datatypes.S k)).
    + rewrite <- app_assoc. reflexivity.
    + rewrite app_length. simpl. lia.
    + lia.
    + intros t b' yd' y' Ht Hl.
      replace (Datatypes.S k + t)%nat with (k + Datatypes.S t)%nat by lia.
      rewrite (Hb (Datatypes.S t) b' yd' y') by (simpl; lia). reflexivity.
Qed.

Lemma loop_upd3 (body : nat -> vec -> res vec) (g : S -> S -> S -> S) : forall (s f yr yd : vec) k,
  length yd = k -> length yr = length s -> length f = length s ->
  (forall t b (yd' y' : vec), t < length s -> length yd' = (k + t)%nat ->
     body (k + t)%nat (yd' ++ b :: y') = Ok (yd' ++ g (nth t s s0) (nth t f s0) b :: y')) ->
  for_res k (length s) body (yd ++ yr) = Ok (yd ++ upd3 g s f yr).
Proof.
  induction s as [|a s IH]; intros f yr yd k Hd Hr Hf Hb.
  - destruct yr; [reflexivity|discriminate].
  - destruct yr as [|b yr]; [discriminate|]. destruct f as [|c f]; [discriminate|]. simpl in Hr, Hf.
    cbn [length]. rewrite for_res_step.
    pose proof (Hb 0 b yd yr ltac:(simpl; lia) ltac:(lia)) as H0.
    rewrite Nat.add_0_r in H0. rewrite H0. cbn [bind nth upd3].
    replace (yd ++ g a c b :: yr) with ((yd ++ [g a c b]) ++ yr) by (rewrite <- app_assoc; reflexivity).
    rewrite (IH f yr (yd ++ [g a c b]) (Datatypes.S k)).
    + rewrite <- app_assoc. reflexivity.
    + rewrite app_length. simpl. lia.
    + lia.
    + lia.
    + intros t b' yd' y' Ht Hl.
      replace (Datatypes.S k + t)%nat with (k + Datatypes.S t)%nat by lia.
      rewrite (Hb (Datatypes.S t) b' yd' y') by (simpl; lia). reflexivity.
Qed.

Lemma dots_length (F : fcrs) (x : vec) :
  length (map (fun r => dotrow r x) (rows (unflat F))) = fn F.
Proof. unfold unflat. cbn [rows]. rewrite !map_length, seq_length. reflexivity. Qed.
Lemma dots_nth (F : fcrs) (x : vec) t : t < fn F ->
  nth t (map (fun r => dotrow r x) (rows (unflat F))) s0 = dotrow (frow F t) x.
Proof.
  intro Ht. unfold unflat. cbn [rows]. rewrite map_map.
  rewrite (nth_indep _ s0 ((fun i => dotrow (frow F i) x) 0%nat)) by (rewrite map_length, seq_length; exact Ht).
  rewrite (map_nth (fun i => dotrow (frow F i) x)). rewrite seq_nth by exact Ht. reflexivity.
Qed.

(* ------------------------------------------------------------------ spmv *)
Theorem ll_spmv_ok alpha (F : fcrs) (x : vec) beta (y : vec) :
  fwf F -> length x = fm F -> length y = fn F ->
  ll_spmv alpha F x beta y = Ok (spmv alpha (unflat F) x beta y).
Proof.
  intros W Hx Hy. unfold ll_spmv, spmv.
  set (s := map (fun r => dotrow r x) (rows (unflat F))).
  assert (Hs : length s = fn F) by apply dots_length.
  destruct (is_zero beta).
  - rewrite <- Hs. apply (loop_upd2 _ (fun sm _ => alpha * sm) s y [] 0); [reflexivity|lia|].
    intros t b yd' y' Ht Hl. change (0 + t)%nat with t in *.
    rewrite ll_dot_ok by (try assumption; lia). cbn [bind].
    unfold s. rewrite dots_nth by lia. rewrite <- Hl. apply wr_app.
  - rewrite <- Hs. apply (loop_upd2 _ (fun sm yi => alpha * sm + beta * yi) s y [] 0); [reflexivity|lia|].
    intros t b yd' y' Ht Hl. change (0 + t)%nat with t in *.
    rewrite ll_dot_ok by (try assumption; lia). cbn [bind].
    unfold s. rewrite dots_nth by lia. rewrite <- Hl. rewrite rd_app. cbn [bind]. apply wr_app.
Qed.

Corollary ll_spmv_no_oob alpha (F : fcrs) (x : vec) beta (y : vec) :
  fwf F -> length x = fm F -> length y = fn F -> ll_spmv alpha F x beta y <> ErrOOB.
Proof. intros W Hx Hy. rewrite ll_spmv_ok by assumption. discriminate. Qed.

(* ------------------------------------------------------------------ residual *)
Theorem ll_residual_ok (f : vec) (F : fcrs) (x r : vec) :
  fwf F -> length x = fm F -> length f = fn F -> length r = fn F ->
  ll_residual f F x r = Ok (residual f (unflat F) x r).
Proof.
  intros W Hx Hf Hr. unfold ll_residual, residual.
  set (s := map (fun r => dotrow r x) (rows (unflat F))).
  assert (Hs : length s = fn F) by apply dots_length.
  rewrite <- Hs. apply (loop_upd3 _ (fun sm fi _ => fi - sm) s f r [] 0); [reflexivity|lia|lia|].
  intros t b yd' y' Ht Hl. change (0 + t)%nat with t in *.
  rewrite ll_dot_ok by (try assumption; lia). cbn [bind].
  rewrite (rd_ok f t s0) by lia. cbn [bind].
  unfold s. rewrite dots_nth by lia. rewrite <- Hl. apply wr_app.
Qed.

Corollary ll_residual_no_oob (f : vec) (F : fcrs) (x r : vec) :
  fwf F -> length x = fm F -> length f = fn F -> length r = fn F -> ll_residual f F x r <> ErrOOB.
Proof. intros. rewrite ll_residual_ok by assumption. discriminate. Qed.

(* the list-of-rows view of well-formed arrays is well-formed in the sense of Crs.v
   (column indices in range), so the C07 formulas apply to it *)
Lemma firstn_in {X} k (l : list X) a : In a (firstn k l) -> In a l.
Proof. revert l; induction k as [|k IH]; intros [|b l] H; simpl in *; try contradiction. destruct H; auto. Qed.
Lemma skipn_in {X} k (l : list X) a : In a (skipn k l) -> In a l.
Proof. revert l; induction k as [|k IH]; intros [|b l] H; simpl in *; try contradiction; auto. Qed.

Theorem unflat_wf (F : fcrs) : fwf F -> wf (unflat F) = true /\ nrows (unflat F) = fn F /\ ncols (unflat F) = fm F.
Proof.
  intros (_ & _ & _ & _ & _ & Hc). split; [|split].
  - unfold wf, unflat. cbn [rows ncols]. apply forallb_forall. intros r Hr.
    apply in_map_iff in Hr. destruct Hr as (i & <- & _).
    unfold row_wf. apply forallb_forall. intros [c v] He. cbn [fst].
    apply Nat.ltb_lt. apply Hc. unfold frow in He. apply in_combine_l in He.
    unfold slice in He. apply firstn_in in He. apply skipn_in in He. exact He.
  - unfold nrows, unflat. cbn [rows]. rewrite map_length, seq_length. reflexivity.
  - reflexivity.
Qed.

End Proofs.

(* ------------------------------------------------------------------ CRS construction:
   new T[..] arrays (junk) filled row by row -- every cell is written before anyone reads it *)
Lemma firstn_S_nth {X} (l : list X) j d : j < length l -> firstn (Datatypes.S j) l = firstn j l ++ [nth j l d].
Proof.
  revert j; induction l as [|a l IH]; intros j H; simpl in *; [lia|].
  destruct j as [|j]; [reflexivity|]. cbn [firstn nth app]. rewrite <- (IH j) by lia. reflexivity.
Qed.
Lemma wr_app_len {X} (a : list X) b t v j : length a = j -> wr (a ++ b :: t) j v = Ok (a ++ v :: t).
Proof. intros <-. apply wr_app. Qed.
Lemma wr_fill {X} (src junk : list X) j d :
  j < length src -> length junk = length src ->
  wr (firstn j src ++ skipn j junk) j (nth j src d) = Ok (firstn (Datatypes.S j) src ++ skipn (Datatypes.S j) junk).
Proof.
  intros Hj Hl. rewrite (skipn_cons_nth junk j d) by lia.
  rewrite wr_app_len by (rewrite firstn_length; lia).
  rewrite (firstn_S_nth src j d Hj), <- app_assoc. reflexivity.
Qed.
Lemma nth_mono (l : list nat) n : (forall i, i < n -> nth i l 0%nat <= nth (Datatypes.S i) l 0%nat) ->
  forall j i, i <= j -> j <= n -> nth i l 0%nat <= nth j l 0%nat.
Proof.
  intros Hm j. induction j as [|j IH]; intros i Hij Hj.
  - replace i with 0%nat by lia. lia.
  - destruct (Nat.eq_dec i (Datatypes.S j)) as [->|Hne]; [lia|].
    specialize (IH i ltac:(lia) ltac:(lia)). specialize (Hm j ltac:(lia)). lia.
Qed.

Section Copy.
Context {S : Scalar}.
Local Notation vec := (vec S).

Lemma copy_range (cr jc : list nat) (vr jv : vec) : forall k b,
  (b + k <= length cr)%nat -> length vr = length cr -> length jc = length cr -> length jv = length cr ->
  for_res b k (fun j cv =>
      c <- rd cr j ;; col <- wr (fst cv) j c ;; v <- rd vr j ;; val <- wr (snd cv) j v ;; Ok (col, val))
    (firstn b cr ++ skipn b jc, firstn b vr ++ skipn b jv) =
  Ok (firstn (b + k) cr ++ skipn (b + k) jc, firstn (b + k) vr ++ skipn (b + k) jv).
Proof.
  induction k as [|k IH]; intros b Hb Hv Hc Hjv.
  - rewrite Nat.add_0_r. reflexivity.
  - rewrite for_res_step. cbn [fst snd].
    rewrite (rd_ok cr b 0%nat) by lia. cbn [bind].
    rewrite (wr_fill cr jc b 0%nat) by lia. cbn [bind].
    rewrite (rd_ok vr b s0) by lia. cbn [bind].
    rewrite (wr_fill vr jv b s0) by lia. cbn [bind].
    rewrite IH by (try assumption; lia).
    replace (Datatypes.S b + k)%nat with (b + Datatypes.S k)%nat by lia. reflexivity.
Qed.

Lemma copy_rows (n : nat) (pr cr : list nat) (vr : vec) (jp jc : list nat) (jv : vec) :
  copy_wf n pr cr vr jp jc jv -> forall k i, (i + k <= n)%nat ->
  for_res i k (fun i st =>
    e <- rd pr (i + 1) ;;
    ptr <- wr (fst st) (i + 1) e ;;
    b <- rd pr i ;;
    cv <- for_res b (e - b) (fun j cv =>
            c <- rd cr j ;; col <- wr (fst cv) j c ;; v <- rd vr j ;; val <- wr (snd cv) j v ;; Ok (col, val)) (snd st) ;;
    Ok (ptr, cv))
    (firstn (Datatypes.S i) pr ++ skipn (Datatypes.S i) jp,
     (firstn (nth i pr 0%nat) cr ++ skipn (nth i pr 0%nat) jc,
      firstn (nth i pr 0%nat) vr ++ skipn (nth i pr 0%nat) jv)) =
  Ok (firstn (Datatypes.S (i + k)) pr ++ skipn (Datatypes.S (i + k)) jp,
      (firstn (nth (i + k) pr 0%nat) cr ++ skipn (nth (i + k) pr 0%nat) jc,
       firstn (nth (i + k) pr 0%nat) vr ++ skipn (nth (i + k) pr 0%nat) jv)).
Proof.
  intros (Hlp & H0 & Hm & Hn & Hv & Hjp & Hjc & Hjv).
  induction k as [|k IH]; intros i Hi.
  - rewrite Nat.add_0_r. reflexivity.
  - rewrite for_res_step. cbn [fst snd].
    rewrite Nat.add_1_r.
    rewrite (rd_ok pr (Datatypes.S i) 0%nat) by lia. cbn [bind].
    rewrite (wr_fill pr jp (Datatypes.S i) 0%nat) by lia. cbn [bind].
    rewrite (rd_ok pr i 0%nat) by lia. cbn [bind].
    assert (Hle : nth i pr 0%nat <= nth (Datatypes.S i) pr 0%nat) by (apply Hm; lia).
    assert (Hend : nth (Datatypes.S i) pr 0%nat <= length cr).
    { rewrite <- Hn. apply (nth_mono pr n Hm); lia. }
    rewrite copy_range by (try assumption; lia). cbn [bind].
    replace (nth i pr 0%nat + (nth (Datatypes.S i) pr 0%nat - nth i pr 0%nat))%nat
      with (nth (Datatypes.S i) pr 0%nat) by lia.
    rewrite IH by lia.
    replace (Datatypes.S i + k)%nat with (i + Datatypes.S k)%nat by lia. reflexivity.
Qed.

Theorem ll_crs_copy_ok (n : nat) (pr cr : list nat) (vr : vec) (jp jc : list nat) (jv : vec) :
  copy_wf n pr cr vr jp jc jv -> ll_crs_copy n pr cr vr jp jc jv = Ok (pr, (cr, vr)).
Proof.
  intro W. pose proof W as (Hlp & H0 & Hm & Hn & Hv & Hjp & Hjc & Hjv).
  destruct pr as [|p0 pr']; [simpl in Hlp; lia|]. destruct jp as [|j0 jp']; [simpl in Hjp; lia|].
  cbn [nth] in H0. subst p0. simpl in Hlp, Hjp.
  pose proof (copy_rows n (0%nat :: pr') cr vr (j0 :: jp') jc jv W n 0 ltac:(lia)) as H.
  change (nth 0 (0%nat :: pr') 0%nat) with 0%nat in H.
  cbn [firstn skipn app plus] in H.
  unfold ll_crs_copy. cbn [rd nth_error bind wr].
  refine (eq_trans H _). rewrite Hn.
  rewrite !firstn_all2 by lia. rewrite !skipn_all2 by lia. rewrite !app_nil_r. reflexivity.
Qed.

(* the constructed matrix does not depend on what the fresh arrays contained *)
Corollary ll_crs_copy_junk_independent n (pr cr : list nat) (vr : vec) (jp jc jp' jc' : list nat) (jv jv' : vec) :
  copy_wf n pr cr vr jp jc jv -> copy_wf n pr cr vr jp' jc' jv' ->
  ll_crs_copy n pr cr vr jp jc jv = ll_crs_copy n pr cr vr jp' jc' jv'.
Proof. intros W W'. rewrite !ll_crs_copy_ok by assumption. reflexivity. Qed.

Corollary ll_crs_copy_no_oob n (pr cr : list nat) (vr : vec) (jp jc : list nat) (jv : vec) :
  copy_wf n pr cr vr jp jc jv -> ll_crs_copy n pr cr vr jp jc jv <> ErrOOB.
Proof. intro W. rewrite ll_crs_copy_ok by assumption. discriminate. Qed.

End Copy.

(* ------------------------------------------------------------------ the checks bite *)
From Amgcl Require Import QcInst.
(* a column index outside x, a short y, a ptr array that runs past col: all ErrOOB *)
Example ll_spmv_bad_col :
  ll_spmv (qc 1 1) (mkF 1 1 [0; 1] [3] [qc 2 1])%nat [qc 1 1] (qc 0 1) [qc 0 1] = ErrOOB.
Proof. vm_compute. reflexivity. Qed.
Example ll_spmv_short_y :
  ll_spmv (qc 1 1) (mkF 2 1 [0; 1; 2] [0; 0] [qc 2 1; qc 3 1])%nat [qc 1 1] (qc 0 1) [qc 0 1] = ErrOOB.
Proof. vm_compute. reflexivity. Qed.
Example ll_spmv_bad_ptr :
  ll_spmv (qc 1 1) (mkF 1 1 [0; 2] [0] [qc 2 1])%nat [qc 1 1] (qc 0 1) [qc 0 1] = ErrOOB.
Proof. vm_compute. reflexivity. Qed.
(* degenerate valid inputs: 0x0, 1x1, an empty row *)
Example ll_spmv_empty : ll_spmv (qc 1 1) (mkF 0 0 [0] [] [])%nat [] (qc 0 1) [] = Ok [].
Proof. vm_compute. reflexivity. Qed.
Example ll_spmv_1x1 :
  ll_spmv (qc 1 1) (mkF 1 1 [0; 1] [0] [qc 2 1])%nat [qc 3 1] (qc 0 1) [qc 7 1] = Ok [qc 6 1].
Proof. vm_compute. reflexivity. Qed.
