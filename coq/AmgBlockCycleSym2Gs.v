(* AmgBlockCycleSym2Gs.v -- C02 for block value types, Gauss-Seidel: over a NON-COMMUTATIVE ring with an involutive
   anti-automorphism, for a hermitian matrix (A_ji = sadj A_ij) whose rows carry a diagonal entry D_i (the LAST stored one,
   as gauss_seidel.hpp reads it) that is the dense diagonal and has a two-sided inverse, every single-row relaxation
        x_i := inverse(D_i) * (f_i - sum_{c <> i} a_ic x_c)          (inverse on the LEFT, as in the code)
   is a consistent, self-dual iteration with respect to the hermitian form ipH; a sweep is the composition of the row
   relaxations in some order, hence consistent, and its dual is the sweep in the REVERSE order: the backward sweep is the
   adjoint of the forward sweep.  Port of AmgProofs8.v; the only facts about D_i used are D_i^H = D_i (from the hermitian
   matrix), inverse(D_i) D_i = 1 (consistency) and inverse(D_i)^H = inverse(D_i) (AmgBlockCycleSym.herm_inverse, needs both
   one-sided inverses). *)
From Amgcl Require Import Scalar Vec Crs Kernels KernelsProofs MatOps MatOpsProofs Relax DenseSolve
  Amg AmgExec AmgProofs AmgProofs2 AmgProofs3 AmgProofs4 AmgProofs6 AmgProofs7 NcRing NcKernels AmgBlockNc AmgBlockCycle
  AmgBlockCycleProofs AmgBlockCycleSym AmgBlockCycleSym2.
Local Open Scope S_scope.

Section GsNc.
Context {S : Scalar}.
Local Notation vec := (vec S).
Local Notation crs := (crs S).
Local Notation sweep := (@sweep S).
Hypothesis Hnc : ncring_theory S.
Hypothesis Seqb : seqb_spec S.
Local Instance ncsy3 : NcRingInst S := ncring_inst Hnc.
Hypothesis adj_add : forall a b : S, sadj (a + b) = sadj a + sadj b.
Hypothesis adj_mul : forall a b : S, sadj (a * b) = sadj b * sadj a.
Hypothesis adj_inv : forall a : S, sadj (sadj a) = a.

(* the last stored diagonal entry of every row is the dense diagonal and is invertible on both sides *)
Definition gs_diag_okH (A : crs) : Prop :=
  forall i, i < nrows A ->
    mget A i i = gsD i (nth i (rows A) []) s1 /\
    gsD i (nth i (rows A) []) s1 * sinv (gsD i (nth i (rows A) []) s1) = s1 /\
    sinv (gsD i (nth i (rows A) []) s1) * gsD i (nth i (rows A) []) s1 = s1.

Lemma gsH_fold i (r : row S) (x : vec) : forall D0 X0,
  fold_left (fun (dx : S * S) e =>
        if Nat.eqb (fst e) i then (snd e, snd dx) else (fst dx, snd dx - snd e * vget x (fst e)))
        r (D0, X0) = (gsD i r D0, X0 - gsoff i r x).
Proof.
  induction r as [|e r IH]; intros D0 X0; simpl.
  - f_equal. ncr.
  - destruct (Nat.eqb (fst e) i); cbn [fst snd]; rewrite IH; unfold gsD; simpl; f_equal; ncr.
Qed.

Lemma gsH_row_eq i (r : row S) (rhs x : vec) :
  gs_row i r rhs x = set_nth x i (sinv (gsD i r s1) * (vget rhs i - gsoff i r x)).
Proof. unfold gs_row. rewrite gsH_fold. reflexivity. Qed.

Lemma dotrow_gsoffH i (r : row S) (x : vec) : dotrow r x = gsoff i r x + rget r i * vget x i.
Proof.
  induction r as [|e r IH].
  - unfold dotrow, rget. simpl. ncr.
  - rewrite (nc_dotrow_cons Hnc), (nc_rget_cons Hnc), IH. simpl.
    destruct (Nat.eqb_spec (fst e) i) as [->|]; ncr.
Qed.

Lemma vget_set_nthH (x : vec) i v j : i < length x ->
  vget (set_nth x i v) j = if Nat.eqb j i then v else vget x j.
Proof.
  unfold vget. revert i j; induction x as [|c x IH]; intros [|i] [|j] Hi; simpl in *; try lia; auto.
  apply IH. lia.
Qed.

Section Level.
Variable n : nat.
Variable A : crs.
Hypothesis WA : wf A = true.
Hypothesis NA : nrows A = n.
Hypothesis HA : herm_mat n A.
Hypothesis DA : gs_diag_okH A.

Local Notation res := (res n A).
Local Notation z := (z n).
Local Notation it_len := (it_len n).
Local Notation it_cons := (it_cons n A).
Local Notation it_dualH := (it_dualH n A).
Local Notation vaddg := (AmgBlockCycleSym.vadd_get Hnc).

Definition rhoH (i : nat) : iteration := fun f x => gs_row i (nth i (rows A) []) f x.
Definition dinvH (i : nat) : S := sinv (gsD i (nth i (rows A) []) s1).

Lemma rhoH_len i : it_len (rhoH i).
Proof. intros f x Lf Lx. unfold rhoH. rewrite gs_row_length. exact Lx. Qed.

Lemma dinvH_herm i : i < n -> sadj (dinvH i) = dinvH i.
Proof.
  intro Hi. destruct (DA i ltac:(lia)) as (Hd & Hr & Hl). destruct HA as [_ HsA].
  unfold dinvH. apply (herm_inverse Hnc adj_mul adj_inv); [|exact Hr|exact Hl].
  rewrite <- Hd. symmetry. apply HsA; exact Hi.
Qed.

(* rho_i (f, x) = x + e_i * dinv_i * (f - A x)_i *)
Lemma rhoH_get i f x j : i < n -> length f = n -> length x = n -> j < n ->
  vget (rhoH i f x) j = vget x j + (if Nat.eqb j i then dinvH i * (vget f i - Ax A x i) else s0).
Proof.
  intros Hi Lf Lx Hj. unfold rhoH. rewrite gsH_row_eq, vget_set_nthH by lia.
  destruct (Nat.eqb_spec j i) as [->|]; [|ncr].
  destruct (DA i ltac:(lia)) as (Hd & Hr & Hl). fold (dinvH i).
  assert (E : Ax A x i = gsoff i (nth i (rows A) []) x + gsD i (nth i (rows A) []) s1 * vget x i).
  { rewrite <- (nc_dotrows_get Hnc A x i WA ltac:(lia)).
    unfold vget at 1. rewrite (nth_indep _ s0 (dotrow [] x)) by (rewrite map_length; unfold nrows in NA; lia).
    rewrite (map_nth (fun r => dotrow r x)). rewrite (dotrow_gsoffH i). rewrite <- Hd. reflexivity. }
  rewrite E. unfold dinvH in *.
  set (D := gsD i (nth i (rows A) []) s1) in *.
  transitivity (sinv D * (vget f i - gsoff i (nth i (rows A) []) x) - (sinv D * D) * vget x i + s1 * vget x i);
    [rewrite Hl; ncr|ncr].
Qed.

Lemma rhoH_cons i : i < n -> it_cons (rhoH i).
Proof.
  intros Hi f x Lf Lx.
  assert (Lr : length (res f x) = n) by (apply (resH_length n A NA HA); exact Lf).
  assert (Lrho : length (rhoH i (res f x) z) = n) by (apply rhoH_len; [exact Lr|apply Lz]).
  apply vec_ext.
  - rewrite (rhoH_len i f x Lf Lx). symmetry. apply vlin_length; assumption.
  - rewrite (rhoH_len i f x Lf Lx). intros j Hj.
    change (vlin s1 x s1 (rhoH i (res f x) z)) with (vadd x (rhoH i (res f x) z)).
    rewrite vaddg by congruence.
    rewrite !rhoH_get by (auto using Lz).
    rewrite (resH_get Hnc n A WA NA HA f x i Lf Hi). unfold AmgProofs7.z. rewrite (nc_Ax_zero Hnc), nc_vget_vzero.
    destruct (Nat.eqb j i); ncr.
Qed.

(* <rho_i (f, x), g> = <x, g> + (dinv_i (f - A x)_i)^H g_i *)
Lemma ipH_rhoH i f x g : i < n -> length f = n -> length x = n ->
  ipH n (rhoH i f x) g = ipH n x g + sadj (dinvH i * (vget f i - Ax A x i)) * vget g i.
Proof.
  intros Hi Lf Lx. unfold ipH.
  rewrite (sumn_ext _ (fun j => sadj (vget x j) * vget g j +
             (if Nat.eqb j i then sadj (dinvH i * (vget f i - Ax A x i)) * vget g i else s0))).
  - rewrite (ncsumn_add Hnc), (ncsumn_delta Hnc).
    replace (i <? n)%nat with true by (symmetry; apply Nat.ltb_lt; exact Hi). reflexivity.
  - intros j Hj. rewrite rhoH_get by assumption.
    destruct (Nat.eqb_spec j i) as [->|]; rewrite adj_add; [ncr|].
    rewrite (adj_0 Hnc adj_add). ncr.
Qed.

Lemma rhoH_dual i : i < n -> it_dualH (rhoH i) (rhoH i).
Proof.
  intros Hi f x g Lf Lx Lg.
  rewrite (ipH_rhoH i f x g Hi Lf Lx).
  (* rho_i (g, 0) = e_i * dinv_i * g_i *)
  set (c := dinvH i * vget g i).
  assert (Lw : length (rhoH i g z) = n) by (apply rhoH_len; auto using Lz).
  assert (Ew : forall j, j < n -> vget (rhoH i g z) j = if Nat.eqb j i then c else s0).
  { intros j Hj. rewrite rhoH_get by (auto using Lz). unfold AmgProofs7.z.
    rewrite (nc_Ax_zero Hnc), nc_vget_vzero. unfold c. destruct (Nat.eqb j i); ncr. }
  assert (E1 : ipH n f (rhoH i g z) = sadj (vget f i) * c).
  { unfold ipH. rewrite (sumn_ext _ (fun j => if Nat.eqb j i then sadj (vget f i) * c else s0)).
    - rewrite (ncsumn_delta Hnc).
      replace (i <? n)%nat with true by (symmetry; apply Nat.ltb_lt; exact Hi). reflexivity.
    - intros j Hj. rewrite (Ew j Hj). destruct (Nat.eqb_spec j i) as [->|]; ncr. }
  assert (E2 : ipH n x (res g (rhoH i g z)) = ipH n x g - sadj (Ax A x i) * c).
  { rewrite (ipH_res_r Hnc n A WA NA HA x g (rhoH i g z) Lg).
    rewrite <- (qLR Hnc adj_add adj_mul n A HA x (rhoH i g z)). f_equal.
    unfold qL. rewrite (sumn_ext _ (fun j => if Nat.eqb j i then sadj (Ax A x i) * c else s0)).
    - rewrite (ncsumn_delta Hnc).
      replace (i <? n)%nat with true by (symmetry; apply Nat.ltb_lt; exact Hi). reflexivity.
    - intros j Hj. rewrite (Ew j Hj). destruct (Nat.eqb_spec j i) as [->|]; ncr. }
  rewrite E1, E2. unfold c.
  rewrite adj_mul, (adj_sub Hnc adj_add), (dinvH_herm i Hi). ncr.
Qed.

(* a sweep = the row relaxations in the given order *)
Definition sweepH_it (order : list nat) : iteration :=
  fun f x => fold_left (fun x i => rhoH i f x) order x.

Lemma sweepH_it_cons_eq i order : forall f x,
  sweepH_it (i :: order) f x = comp (sweepH_it order) (rhoH i) f x.
Proof. reflexivity. Qed.

Lemma sweepH_it_snoc order i : forall f x,
  sweepH_it (order ++ [i]) f x = comp (rhoH i) (sweepH_it order) f x.
Proof. intros f x. unfold sweepH_it, comp. rewrite fold_left_app. reflexivity. Qed.

Lemma sweepH_it_len order : it_len (sweepH_it order).
Proof.
  induction order as [|i order IH]; intros f x Lf Lx; [exact Lx|].
  rewrite sweepH_it_cons_eq. apply (comp_len n); auto using rhoH_len.
Qed.

Lemma sweepH_it_cons order : Forall (fun i => i < n) order -> it_cons (sweepH_it order).
Proof.
  induction 1 as [|i order Hi HF IH].
  - apply (id_consH Hnc n A).
  - intros f x Lf Lx. rewrite sweepH_it_cons_eq.
    apply (comp_consH Hnc n A WA NA HA (sweepH_it order) (rhoH i)); auto using sweepH_it_len, rhoH_len, rhoH_cons.
Qed.

Lemma sweepH_it_dual order : Forall (fun i => i < n) order ->
  it_dualH (sweepH_it order) (sweepH_it (rev order)).
Proof.
  induction 1 as [|i order Hi HF IH].
  - apply (id_dualH Hnc n A WA NA HA).
  - intros f x g Lf Lx Lg. simpl rev.
    rewrite sweepH_it_cons_eq, !sweepH_it_snoc.
    apply (comp_dualH Hnc n A WA NA HA (rhoH i) (sweepH_it order) (rhoH i) (sweepH_it (rev order)));
      auto using sweepH_it_len, rhoH_len, rhoH_cons, rhoH_dual.
Qed.

Lemma gs_sweepH_it (f x : vec) fwd :
  gs_sweep A f x fwd = sweepH_it (if fwd then seq 0 n else rev (seq 0 n)) f x.
Proof. unfold gs_sweep, sweepH_it, rhoH. rewrite NA. reflexivity. Qed.

Lemma gsH_order_lt (fwd : bool) : Forall (fun i => i < n) (if fwd then seq 0 n else rev (seq 0 n)).
Proof.
  destruct fwd; apply Forall_forall; intros i Hi; [|apply in_rev in Hi]; apply in_seq in Hi; lia.
Qed.

Definition gs_swH (fwd : bool) : sweep := fun rhs x t => (gs_sweep A rhs x fwd, t).

Theorem gs_sweep_consH fwd : sweep_consH n A (gs_swH fwd).
Proof.
  intros f x t Lf Lx Lt. unfold gs_swH, opM. cbn [fst]. rewrite !gs_sweepH_it.
  apply (sweepH_it_cons _ (gsH_order_lt fwd) f x Lf Lx).
Qed.

Theorem gs_sweep_adjH fwd : sweep_adjH n (gs_swH fwd) (gs_swH (negb fwd)).
Proof.
  intros f g Lf Lg. unfold gs_swH, opM. cbn [fst]. rewrite !gs_sweepH_it.
  assert (E : (if negb fwd then seq 0 n else rev (seq 0 n)) = rev (if fwd then seq 0 n else rev (seq 0 n)))
    by (destruct fwd; simpl; [reflexivity|symmetry; apply rev_involutive]).
  rewrite E.
  pose proof (sweepH_it_dual _ (gsH_order_lt fwd) f (vzero n) g Lf (vzero_length n) Lg) as H.
  rewrite H.
  pose proof (ipH_zero_l Hnc adj_add n (res g (sweepH_it (rev (if fwd then seq 0 n else rev (seq 0 n))) g z))) as Z.
  unfold AmgProofs7.z in *. rewrite Z. ncr.
Qed.

End Level.

(* forward sweep as pre-, backward sweep as post-smoother: both consistent, mutually adjoint *)
Theorem gs_herm_ok (A : crs) : wf A = true -> herm_mat (nrows A) A -> gs_diag_okH A ->
  sweep_consH (nrows A) A (fst (mk_relax_std RGS A)) /\
  sweep_consH (nrows A) A (snd (mk_relax_std RGS A)) /\
  sweep_adjH (nrows A) (fst (mk_relax_std RGS A)) (snd (mk_relax_std RGS A)).
Proof.
  intros WA SA DA. cbn [mk_relax_std fst snd]. split; [|split].
  - apply (gs_sweep_consH (nrows A) A WA eq_refl SA DA true).
  - apply (gs_sweep_consH (nrows A) A WA eq_refl SA DA false).
  - apply (gs_sweep_adjH (nrows A) A WA eq_refl SA DA true).
Qed.

End GsNc.
