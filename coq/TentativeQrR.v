(* TentativeQrR.v -- C04, near-null-space variant of tentative_prolongation:
   (a) the hypotheses of TentativeQrProofs.v are satisfiable: closed instances at the real numbers of the
       standard library (instance RS of QrMathR.v; the axioms of Reals are listed by Print Assumptions);
   (b) a concrete instance over the exact rationals (QcS, pseudo-root) whose column norms are perfect
       squares: the conclusions are evaluated by vm_compute. *)
From Coq Require Import Reals.
From Amgcl Require Import Scalar QcInst Vec Crs Aggregates Tentative CoarsenProofs Qr QrMathR TentativeQr TentativeQrProofs.
Local Open Scope nat_scope.

Theorem tentative_qr_reproduces_R (bs cols naggr : nat) (id : list Z) (B : mat (S:=RS)) (q0 : vec RS) k c :
  0 < cols -> c < cols -> k < length id -> (0 <= zget id k)%Z ->
  let i := Nat.div (Z.to_nat (zget id k)) bs in
  i < Nat.div naggr bs ->
  cols <= length (members bs id i) ->
  let PB := tentative_prolongation_qr bs cols naggr id B q0 in
  ns_apply RS cols (snd PB) (nth k (rows (fst PB)) []) c = mentry B k c.
Proof. exact (tentative_qr_reproduces RS RS_field RS_eqb RS_adj RS_abs RS_sqrt RS_real bs cols naggr id B q0 k c). Qed.

Theorem tentative_qr_orthonormal_R (bs cols naggr : nat) (id : list Z) (B : mat (S:=RS)) (q0 : vec RS) :
  (forall i, i < Nat.div naggr bs -> cols <= length (members bs id i)) ->
  let P := fst (tentative_prolongation_qr bs cols naggr id B q0) in
  forall j1 j2, j1 < ncols P -> j2 < ncols P ->
    sumn (fun k => (mget P k j1 * mget P k j2)%S) (nrows P) = if Nat.eqb j1 j2 then 1%R else 0%R.
Proof. exact (tentative_qr_orthonormal RS RS_field RS_eqb RS_adj RS_abs RS_sqrt RS_real bs cols naggr id B q0). Qed.

(* ---- concrete instance over Qc.  Two aggregates of three rows, one removed row, two near-null-space
   vectors.  Aggregate 0 (rows 0,2,5) carries A0 = Q0 R0 with Q0 = I - (2/3) 1 1', R0 = [[3,3],[0,3],[0,0]];
   aggregate 1 (rows 1,4,6) carries 2*A0 with its rows rotated: every norm met is 3 or 6. *)
Definition ns_ex_id : list Z := [0; 1; 0; -2; 1; 0; 1]%Z.
Definition ns_ex_B : mat (S:=QcS) :=
  [[qc 1 1; qc (-1) 1]; [qc (-4) 1; qc (-2) 1]; [qc (-2) 1; qc (-1) 1]; [qc 7 1; qc 5 2];
   [qc (-4) 1; qc (-8) 1]; [qc (-2) 1; qc (-4) 1]; [qc 2 1; qc (-2) 1]].
Definition ns_ex_check : bool :=
  let PB := tentative_prolongation_qr 1 2 2 ns_ex_id ns_ex_B [] in
  forallb (fun i => Nat.leb 2 (length (members 1 ns_ex_id i))) (seq 0 2)
  && ns_reproduces_ok 2 ns_ex_id ns_ex_B (fst PB) (snd PB)
  && ns_orthonormal_ok (fst PB)
  && Nat.eqb (ncols (fst PB)) 4 && Nat.eqb (nrows (fst PB)) 7
  && Nat.eqb (length (nth 3 (rows (fst PB)) [])) 0.
Lemma ns_ex_check_true : ns_ex_check = true.
Proof. vm_compute. reflexivity. Qed.
