(* QrObjProofs.v -- the QR object (QrObj.v): results of solve / factorize do not depend on what
   earlier calls left in the members tau, f, q, r; a solve with computed = true returns the
   solution for the matrix whose factorisation is stored in the object.            (C16 / A6) *)
From Amgcl Require Import Scalar Vec DirectUtil DirectProofs InverseProofs Qr QrProofs QrObj.
Local Open Scope S_scope.
Local Open Scope nat_scope.

Section QrObjAny.
Context {S : Scalar}.
Local Notation vec := (vec S).

Lemma vresize_length n (v : vec) : length (vresize n v) = n.
Proof.
  unfold vresize. rewrite app_length, firstn_length, repeat_length. lia.
Qed.

(* std::copy(b, b + rows, f.begin()) into a vector of exactly [rows] cells *)
Lemma copy_in_eq rows (b f0 : vec) :
  length f0 = rows -> rows <= length b ->
  for_loop 0 rows (fun i f => lset f i (vget b i)) f0 = firstn rows b.
Proof.
  intros HL Hb.
  assert (H : length (for_loop 0 rows (fun i f => lset f i (vget b i)) f0) = rows /\
              forall j, j < 0 + rows -> nth j (for_loop 0 rows (fun i f => lset f i (vget b i)) f0) s0 = nth j b s0).
  { apply (for_loop_inv (fun i (f : vec) => length f = rows /\ forall j, j < i -> nth j f s0 = nth j b s0)).
    - split; [assumption|]. intros j Hj. lia.
    - intros i f Hi [H1 H2]. split; [rewrite lset_length; assumption|].
      intros j Hj. rewrite lset_nth. destruct (Nat.eqb_spec i j) as [->|Hne].
      + replace (Nat.ltb j (length f)) with true by (symmetry; apply Nat.ltb_lt; lia). reflexivity.
      + apply H2. lia. }
  destruct H as [H1 H2].
  apply (list_ext _ _ s0).
  - rewrite H1, firstn_length. lia.
  - intros i Hi. rewrite H1 in Hi. rewrite H2 by lia.
    rewrite <- (firstn_skipn rows b) at 1. rewrite app_nth1 by (rewrite firstn_length; lia). reflexivity.
Qed.

(* tau.resize(k) followed by the assignment of all k cells: the old content is irrelevant *)
Lemma qr_compute_ws_eq m n rs cs (A t0 : vec) :
  length t0 = Nat.min m n -> qr_compute_ws m n rs cs A t0 = qr_compute m n rs cs A.
Proof.
  intro HL. unfold qr_compute_ws, qr_compute.
  set (k := Nat.min m n) in *.
  match goal with |- for_loop 0 k ?body ?a = for_loop 0 k ?body ?b =>
    set (bd := body);
    assert (H : (fun (i : nat) (x y : vec * vec) =>
                   fst x = fst y /\ length (snd x) = k /\ length (snd y) = k /\
                   forall j, j < i -> nth j (snd x) s0 = nth j (snd y) s0)
                (0 + k) (for_loop 0 k bd a) (for_loop 0 k bd b)) end.
  { apply (for_loop_rel (fun (i : nat) (x y : vec * vec) =>
                   fst x = fst y /\ length (snd x) = k /\ length (snd y) = k /\
                   forall j, j < i -> nth j (snd x) s0 = nth j (snd y) s0)).
    - cbn [fst snd]. repeat split; try assumption; [apply repeat_length|]. intros j Hj; lia.
    - intros i [A1 t1] [A2 t2] Hi (E & L1 & L2 & HN). cbn [fst snd] in *. subst A2. unfold bd. cbn [fst snd].
      destruct (gen_reflector (m - i) (i * (rs + cs)) (i * (rs + cs) + rs) rs A1) as [t A3]. cbn [fst snd].
      repeat split; try (rewrite lset_length; assumption).
      intros j Hj. rewrite !lset_nth. rewrite L1, L2.
      destruct (Nat.eqb_spec i j) as [->|Hne]; [reflexivity|]. apply HN. lia. }
  cbv beta in H. destruct H as (E & L1 & L2 & HN).
  destruct (for_loop 0 k bd (A, t0)) as [A1 t1]. destruct (for_loop 0 k bd (A, repeat s0 k)) as [A2 t2].
  cbn [fst snd] in *. subst A2. f_equal.
  apply (list_ext _ _ s0); [congruence|]. intros i Hi. apply HN. lia.
Qed.

(* obj_compute with a non-empty shape: the array and (r, tau) are those of Qr.qr_compute; f, q and
   the stored shape stay *)
Lemma obj_compute_eq m n rs cs (A : vec) (o : qr_obj) : 0 < Nat.min m n ->
  obj_compute m n rs cs A o =
  (fst (qr_compute m n rs cs A),
   mkQrObj (fst (qr_compute m n rs cs A)) (snd (qr_compute m n rs cs A)) (o_f o) (o_q o) (o_m o) (o_n o) (o_rs o) (o_cs o)).
Proof.
  intro Hk. unfold obj_compute.
  destruct (Nat.eqb_spec (Nat.min m n) 0) as [E|_]; [lia|].
  rewrite qr_compute_ws_eq by apply vresize_length.
  destruct (qr_compute m n rs cs A) as [A' tau]. reflexivity.
Qed.

Lemma obj_compute_empty m n rs cs (A : vec) (o : qr_obj) : Nat.min m n = 0 -> obj_compute m n rs cs A o = (A, o).
Proof. intro E. unfold obj_compute. rewrite E. reflexivity. Qed.

(* Qr.qr_solve in terms of the two application phases *)
Lemma qr_solve_apply rows cols rs cs (A b : vec) :
  qr_solve rows cols rs cs A b =
  if Nat.leb cols rows then
    fst (qr_apply_tall rows cols rs cs (fst (qr_compute rows cols rs cs A)) (snd (qr_compute rows cols rs cs A)) (firstn rows b))
  else
    let A1 := map sadj (firstn (cols * rows) A) ++ skipn (cols * rows) A in
    fst (qr_apply_wide rows cols rs cs (fst (qr_compute cols rows cs rs A1)) (snd (qr_compute cols rows cs rs A1)) (firstn rows b)).
Proof.
  unfold qr_solve. destruct (Nat.leb cols rows).
  - destruct (qr_compute rows cols rs cs A) as [A' tau]. reflexivity.
  - cbv zeta. destruct (qr_compute cols rows cs rs _) as [A' tau]. reflexivity.
Qed.

(* with an empty shape neither phase reads r or tau *)
Lemma qr_apply_tall_empty rows rs cs (r tau r' tau' f : vec) :
  fst (qr_apply_tall rows 0 rs cs r tau f) = fst (qr_apply_tall rows 0 rs cs r' tau' f).
Proof. reflexivity. Qed.
Lemma qr_apply_wide_empty cols rs cs (r tau r' tau' f : vec) :
  fst (qr_apply_wide 0 cols rs cs r tau f) = fst (qr_apply_wide 0 cols rs cs r' tau' f).
Proof. reflexivity. Qed.

(* ---------- solve(..., computed = false) on ANY object = Qr.qr_solve ---------- *)
Theorem obj_solve_eq_qr_solve rows cols rs cs (A b : vec) (o : qr_obj) :
  rows <= length b ->
  fst (fst (obj_solve rows cols rs cs A b false o)) = qr_solve rows cols rs cs A b.
Proof.
  intro Hb. unfold obj_solve. rewrite qr_solve_apply.
  rewrite (copy_in_eq rows b (vresize rows (o_f o)) (vresize_length _ _) Hb).
  destruct (Nat.leb_spec cols rows) as [Hc|Hc].
  - destruct (Nat.eq_dec (Nat.min rows cols) 0) as [E|E].
    + rewrite obj_compute_empty by assumption. assert (cols = 0) by lia. subst cols.
      destruct (qr_apply_tall rows 0 rs cs (o_r o) (o_tau o) (firstn rows b)) as [x f1] eqn:Q. cbn [fst].
      change x with (fst (x, f1)). rewrite <- Q. apply qr_apply_tall_empty.
    + rewrite obj_compute_eq by lia. cbn [o_r o_tau].
      destruct (qr_apply_tall rows cols rs cs _ _ (firstn rows b)) as [x f1]. reflexivity.
  - cbv zeta.
    destruct (Nat.eq_dec (Nat.min cols rows) 0) as [E|E].
    + rewrite obj_compute_empty by assumption. assert (rows = 0) by lia. subst rows.
      destruct (qr_apply_wide 0 cols rs cs (o_r o) (o_tau o) (firstn 0 b)) as [x f1] eqn:Q. cbn [fst].
      change x with (fst (x, f1)). rewrite <- Q. apply qr_apply_wide_empty.
    + rewrite obj_compute_eq by lia. cbn [o_r o_tau].
      destruct (qr_apply_wide rows cols rs cs _ _ (firstn rows b)) as [x f1]. reflexivity.
Qed.

(* the result of solve does not depend on the previous content of the object *)
Theorem obj_solve_junk_independent rows cols rs cs (A b : vec) (o o' : qr_obj) :
  rows <= length b ->
  fst (fst (obj_solve rows cols rs cs A b false o)) = fst (fst (obj_solve rows cols rs cs A b false o')).
Proof. intro Hb. rewrite !obj_solve_eq_qr_solve by assumption. reflexivity. Qed.

(* the array handed back to the caller (overwritten with R and the reflectors) does not either *)
Theorem obj_solve_array_junk_independent rows cols rs cs (A b : vec) (o o' : qr_obj) :
  snd (fst (obj_solve rows cols rs cs A b false o)) = snd (fst (obj_solve rows cols rs cs A b false o')).
Proof.
  unfold obj_solve. destruct (Nat.leb cols rows).
  - destruct (Nat.eq_dec (Nat.min rows cols) 0) as [E|E].
    + rewrite !obj_compute_empty by assumption.
      destruct (qr_apply_tall _ _ _ _ _ _ _) as [x f1]. destruct (qr_apply_tall _ _ _ _ _ _ _) as [x' f1']. reflexivity.
    + rewrite !obj_compute_eq by lia.
      destruct (qr_apply_tall _ _ _ _ _ _ _) as [x f1]. destruct (qr_apply_tall _ _ _ _ _ _ _) as [x' f1']. reflexivity.
  - destruct (Nat.eq_dec (Nat.min cols rows) 0) as [E|E].
    + rewrite !obj_compute_empty by assumption.
      destruct (qr_apply_wide _ _ _ _ _ _ _) as [x f1]. destruct (qr_apply_wide _ _ _ _ _ _ _) as [x' f1']. reflexivity.
    + rewrite !obj_compute_eq by lia.
      destruct (qr_apply_wide _ _ _ _ _ _ _) as [x f1]. destruct (qr_apply_wide _ _ _ _ _ _ _) as [x' f1']. reflexivity.
Qed.

(* ---------- what a call leaves in (r, tau) ---------- *)
(* [holds_factorisation o rows cols rs cs A]: r and tau of o are what solve(rows, cols, ..., A, ..)
   computes before it applies the factorisation *)
Definition holds_factorisation (o : qr_obj) (rows cols rs cs : nat) (A : vec) : Prop :=
  if Nat.leb cols rows then
    o_r o = fst (qr_compute rows cols rs cs A) /\ o_tau o = snd (qr_compute rows cols rs cs A)
  else
    let A1 := map sadj (firstn (cols * rows) A) ++ skipn (cols * rows) A in
    o_r o = fst (qr_compute cols rows cs rs A1) /\ o_tau o = snd (qr_compute cols rows cs rs A1).

Lemma obj_solve_holds rows cols rs cs (A b : vec) (o : qr_obj) : 0 < Nat.min rows cols ->
  holds_factorisation (snd (obj_solve rows cols rs cs A b false o)) rows cols rs cs A.
Proof.
  intro Hk. unfold obj_solve, holds_factorisation. destruct (Nat.leb cols rows).
  - rewrite obj_compute_eq by lia. cbn [o_r o_tau].
    destruct (qr_apply_tall _ _ _ _ _ _ _) as [x f1]. cbn [snd o_r o_tau]. split; reflexivity.
  - cbv zeta. rewrite obj_compute_eq by lia. cbn [o_r o_tau].
    destruct (qr_apply_wide _ _ _ _ _ _ _) as [x f1]. cbn [snd o_r o_tau]. split; reflexivity.
Qed.

Lemma obj_solve_computed_keeps rows cols rs cs rows' cols' rs' cs' (A A2 b : vec) (o : qr_obj) :
  holds_factorisation o rows cols rs cs A ->
  holds_factorisation (snd (obj_solve rows' cols' rs' cs' A2 b true o)) rows cols rs cs A.
Proof.
  intro H. unfold obj_solve. destruct (Nat.leb cols' rows').
  - destruct (qr_apply_tall _ _ _ _ _ _ _) as [x f1]. cbn [snd]. exact H.
  - destruct (qr_apply_wide _ _ _ _ _ _ _) as [x f1]. cbn [snd]. exact H.
Qed.

Lemma obj_compute_holds rows cols rs cs (A : vec) (o : qr_obj) : 0 < cols <= rows ->
  holds_factorisation (snd (obj_compute rows cols rs cs A o)) rows cols rs cs A.
Proof.
  intro Hk. unfold holds_factorisation. replace (Nat.leb cols rows) with true by (symmetry; apply Nat.leb_le; lia).
  rewrite obj_compute_eq by lia. cbn [snd o_r o_tau]. split; reflexivity.
Qed.

(* the caller's own preparation of a wide system: adjoint in place, compute on the transposed view *)
Lemma obj_compute_holds_wide rows cols rs cs (A : vec) (o : qr_obj) : 0 < rows < cols ->
  holds_factorisation
    (snd (obj_compute cols rows cs rs (map sadj (firstn (cols * rows) A) ++ skipn (cols * rows) A) o)) rows cols rs cs A.
Proof.
  intro Hk. unfold holds_factorisation. replace (Nat.leb cols rows) with false by (symmetry; apply Nat.leb_gt; lia).
  cbv zeta. rewrite obj_compute_eq by lia. cbn [snd o_r o_tau]. split; reflexivity.
Qed.

Lemma obj_factorize_holds rows cols rs cs (A : vec) (o : qr_obj) : 0 < cols <= rows ->
  holds_factorisation (snd (obj_factorize rows cols rs cs A o)) rows cols rs cs A.
Proof.
  intro Hk. unfold obj_factorize. pose proof (obj_compute_holds rows cols rs cs A o Hk) as H.
  destruct (obj_compute rows cols rs cs A o) as [A' o1]. cbn [snd] in *.
  unfold holds_factorisation in *. destruct (Nat.leb cols rows); cbn [o_r o_tau]; exact H.
Qed.

(* ---------- solve(..., computed = true) returns the solution for the stored factorisation,
   whatever the members f and q hold and whatever array is passed ---------- *)
Theorem obj_solve_computed rows cols rs cs (A A2 b : vec) (o : qr_obj) :
  rows <= length b -> holds_factorisation o rows cols rs cs A ->
  fst (fst (obj_solve rows cols rs cs A2 b true o)) = qr_solve rows cols rs cs A b.
Proof.
  intros Hb H. unfold obj_solve. rewrite qr_solve_apply. unfold holds_factorisation in H.
  rewrite (copy_in_eq rows b (vresize rows (o_f o)) (vresize_length _ _) Hb).
  destruct (Nat.leb cols rows).
  - destruct H as [-> ->]. destruct (qr_apply_tall _ _ _ _ _ _ _) as [x f1]. reflexivity.
  - cbv zeta in *. destruct H as [-> ->]. destruct (qr_apply_wide _ _ _ _ _ _ _) as [x f1]. reflexivity.
Qed.

(* a second right-hand side on the factorisation left by a first solve *)
Theorem obj_solve_again rows cols rs cs (A A2 b1 b2 : vec) (o : qr_obj) :
  0 < Nat.min rows cols -> rows <= length b2 ->
  fst (fst (obj_solve rows cols rs cs A2 b2 true (snd (obj_solve rows cols rs cs A b1 false o)))) =
  qr_solve rows cols rs cs A b2.
Proof.
  intros Hk Hb. apply obj_solve_computed; [assumption|]. apply obj_solve_holds. assumption.
Qed.

(* ---------- factorize() on any object ---------- *)
Lemma qr_factorize_form_q m n rs cs (A qj : vec) :
  qr_factorize m n rs cs A qj =
  (fst (qr_compute m n rs cs A), snd (qr_compute m n rs cs A),
   qr_form_q m n rs cs (fst (qr_compute m n rs cs A)) (snd (qr_compute m n rs cs A)) qj).
Proof. unfold qr_factorize, qr_form_q. destruct (qr_compute m n rs cs A) as [A' tau]. reflexivity. Qed.

Theorem obj_factorize_eq m n rs cs (A : vec) (o : qr_obj) : 0 < Nat.min m n ->
  obj_factorize m n rs cs A o =
  (fst (fst (qr_factorize m n rs cs A (vresize (m * n) (o_q o)))),
   mkQrObj (fst (fst (qr_factorize m n rs cs A (vresize (m * n) (o_q o)))))
           (snd (fst (qr_factorize m n rs cs A (vresize (m * n) (o_q o)))))
           (o_f o)
           (snd (qr_factorize m n rs cs A (vresize (m * n) (o_q o)))) m n rs cs).
Proof.
  intro Hk. unfold obj_factorize. rewrite obj_compute_eq by assumption. cbn [o_r o_tau o_f o_q].
  rewrite qr_factorize_form_q. reflexivity.
Qed.

Theorem obj_factorize_junk_independent m n rs cs (A : vec) (o o' : qr_obj) : 0 < Nat.min m n ->
  fst (obj_factorize m n rs cs A o) = fst (obj_factorize m n rs cs A o') /\
  (forall i j, obj_R (snd (obj_factorize m n rs cs A o)) i j = obj_R (snd (obj_factorize m n rs cs A o')) i j) /\
  (forall i j, i < m -> j < n ->
     obj_Q (snd (obj_factorize m n rs cs A o)) i j = obj_Q (snd (obj_factorize m n rs cs A o')) i j).
Proof.
  intro Hk. rewrite !obj_factorize_eq by assumption. cbn [fst snd]. unfold obj_R, obj_Q. cbn [o_r o_q o_rs o_cs].
  destruct (qr_factorize_junk_independent m n rs cs A (vresize (m * n) (o_q o)) (vresize (m * n) (o_q o'))) as [E HQ].
  { rewrite !vresize_length. reflexivity. }
  assert (E1 : fst (fst (qr_factorize m n rs cs A (vresize (m * n) (o_q o)))) =
               fst (fst (qr_factorize m n rs cs A (vresize (m * n) (o_q o'))))) by (rewrite E; reflexivity).
  repeat split.
  - exact E1.
  - intros i j. rewrite E1. reflexivity.
  - exact HQ.
Qed.

End QrObjAny.
