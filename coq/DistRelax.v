(* DistRelax.v -- C12: the smoothers under MPI, as amgcl::runtime::mpi::relaxation::wrapper<Backend>
   (amgcl/mpi/relaxation/runtime.hpp) builds and applies them, rank by rank.  Definitions only; proofs: DistRelaxProofs*.v.

   runtime.hpp (constructor, lines 66-103)                          here
   ------------------------------------------------------------    ---------------------------------------------------
   spai0         mpi::relaxation::spai0(A)   (spai0.hpp:55-90)      rank_spai0: num = adjoint of local entries with col == i
                                                                       (num += math::adjoint(v): repair of finding C06-spai0-no-conj),
                   den over the local AND the remote part             den = sum |v|^2 over local then remote entries
   chebyshev     relaxation::chebyshev(A)    A = the DISTRIBUTED    dist_cheby_setup: hi0 = the rank's element of
                   matrix: spectral_radius<scale>(A, power_iters)     Dist.dist_gershgorin (local + remote row sums,
                   = distributed_matrix.hpp:1142 (Allreduce MAX),     MPI_MAX over the ranks), M = diagonal(A_loc, inv)
                   diagonal(A, true) = diagonal( *A.local(), true )
   damped_jacobi relaxation::damped_jacobi( *A.local() )              dist_jacobi_setup: diagonal(A_loc, invert)
   ilu0/k/p/t    relaxation::ilu*( *A.local() )                      dist_ilu*_setup: the serial factorisation (Ilu.v)
   spai1         relaxation::spai1( *A.local() )                      of the local diagonal block
   gauss_seidel  relaxation::gauss_seidel( *A.local() )               nothing to set up (serial sweep, one thread)

   apply_pre / apply_post (lines 137-199): every smoother except gauss_seidel is handed the DISTRIBUTED matrix, so
   backend::residual(rhs, A, x, tmp) is distributed_matrix::residual (ghost exchange + remote part, Dist.dist_residual)
   and the rest of the serial sweep acts on the rank's slices with the rank's own object:
       spai0          x += M .* tmp                                  damped_jacobi  x += damping * dia .* tmp
       ilu*           ilu->solve(tmp); x += damping * tmp             spai1          x += M_loc tmp
       chebyshev      `degree` steps, EVERY step with a distributed residual; the coefficients from the rank's (c, d)
   gauss_seidel is handed *A.local_backend(): forward / backward serial sweep over the local block only, the remote
   part does not enter (known finding F-C12-mpi-gauss-seidel-local-only).
   apply (lines 202-230): rank-local except chebyshev (clear(x), then the distributed sweep). *)
From Amgcl Require Import Scalar Vec Crs Kernels MatOps Relax Cheby Ilu Spai1 Dist.
Local Open Scope S_scope.

Section DistRelax.
Context {S : Scalar}.
Local Notation vec := (vec S).
Local Notation row := (row S).
Local Notation crs := (crs S).
Local Notation rank_mat := (rank_mat S).
Local Notation dmat := (dmat S).

Definition nranks (D : dmat) : nat := length (dm_cparts D).
Definition rk (D : dmat) (r : nat) : rank_mat := nth r (dm_ranks D) dflt_rank.

(* ---------------------------------------------------------------- the two shapes of a wrapper call *)
(* apply_pre / apply_post of a smoother that gets the distributed matrix: tmp = f - A x (distributed), then the rank-local
   update [upd r tmp_r x_r] *)
Definition dist_sweep (upd : nat -> vec -> vec -> vec) (D : dmat) (fs xs tmps : list vec) : list vec :=
  let ress := dist_residual fs D xs tmps in
  map (fun r => upd r (nth r ress []) (nth r xs [])) (seq 0 (nranks D)).
(* apply of a smoother whose apply does not touch the matrix *)
Definition dist_apply (app : nat -> vec -> vec -> vec) (D : dmat) (fs xs : list vec) : list vec :=
  map (fun r => app r (nth r fs []) (nth r xs [])) (seq 0 (nranks D)).

(* ---------------------------------------------------------------- spai0 (mpi/relaxation/spai0.hpp) *)
(* one row, i = LOCAL row number, rl / rr = the row of A_loc (local column numbers) / of A_rem *)
Definition rank_spai0_row (i : nat) (rl rr : row) : S :=
  let '(num, den) := fold_left (fun (nd : S * S) e =>
        let nv := sabs (snd e) in
        (if Nat.eqb (fst e) i then fst nd + sadj (snd e) else fst nd, snd nd + nv * nv)) rl (s0, s0) in
  let den' := fold_left (fun dn e => let nv := sabs (snd e) in dn + nv * nv) rr den in
  sinv den' * num.
Definition rank_spai0 (M : rank_mat) : vec :=
  map (fun ir => rank_spai0_row (fst ir) (fst (snd ir)) (snd (snd ir)))
      (indexed (combine (rows (rm_loc M)) (rows (rm_rem M)))).
Definition dist_spai0_setup (D : dmat) : list vec := map (fun r => rank_spai0 (rk D r)) (seq 0 (nranks D)).
Definition dist_spai0_sweep (Ms : list vec) : dmat -> list vec -> list vec -> list vec -> list vec :=
  dist_sweep (fun r t x => vmul s1 (nth r Ms []) t s1 x).
Definition dist_spai0_apply (Ms : list vec) : dmat -> list vec -> list vec -> list vec :=
  dist_apply (fun r f x => vmul s1 (nth r Ms []) f s0 x).

(* ---------------------------------------------------------------- damped_jacobi (built from *A.local()) *)
Definition dist_jacobi_setup (D : dmat) (junks : list vec) : list vec :=
  map (fun r => jacobi_setup (rm_loc (rk D r)) (nth r junks [])) (seq 0 (nranks D)).
Definition dist_jacobi_sweep (damping : S) (dias : list vec) : dmat -> list vec -> list vec -> list vec -> list vec :=
  dist_sweep (fun r t x => vmul damping (nth r dias []) t s1 x).
Definition dist_jacobi_apply (dias : list vec) : dmat -> list vec -> list vec -> list vec :=
  dist_apply (fun r f x => vmul s1 (nth r dias []) f s0 x).

(* ---------------------------------------------------------------- chebyshev (built from the distributed matrix) *)
(* power_iters = 0: the distributed Gershgorin estimate, the same value on every rank after MPI_MAX *)
Definition dist_cheby_rho (scale : bool) (D : dmat) : list S := dist_gershgorin scale D.
(* his: the spectral radius estimate every rank holds (power_iters > 0: input) *)
Definition dist_cheby_setup (scale : bool) (D : dmat) (his : list S) (lower higher : S) (junks : list vec)
  : list (S * S * option vec) :=
  map (fun r => cheby_setup scale (rm_loc (rk D r)) (nth r his s0) lower higher (nth r junks [])) (seq 0 (nranks D)).

(* Cheby.cheby_step after its residual: r1 = the residual the step starts with *)
Definition cheby_rest (two quarter c d : S) (M : option vec) (r1 x p : vec) (alpha : S) (k : nat)
  : vec * vec * vec * S :=
  let r2 := match M with Some m => vmul s1 m r1 s0 r1 | None => r1 end in
  let '(alpha', beta) := cheby_coef two quarter c d k alpha in
  let p' := axpby alpha' r2 beta p in
  let x' := axpby s1 p' s1 x in
  (x', p', r2, alpha').

Definition cst := (vec * vec * vec * S)%type.
Definition st_x (s : cst) : vec := fst (fst (fst s)).
Definition st_p (s : cst) : vec := snd (fst (fst s)).
Definition st_r (s : cst) : vec := snd (fst s).
Definition st_a (s : cst) : S := snd s.
Definition dflt_st : cst := ([], [], [], s0).
Definition dflt_cdm : S * S * option vec := (s0, s0, None).

(* one iteration k of solve() on every rank: distributed residual, then the rank's own coefficients *)
Definition dist_cheby_step (cdMs : list (S * S * option vec)) (D : dmat) (fs : list vec) (sts : list cst) (k : nat)
  : list cst :=
  let r1s := dist_residual fs D (map st_x sts) (map st_r sts) in
  map (fun q => let '(c, d, M) := nth q cdMs dflt_cdm in
                let s := nth q sts dflt_st in
                cheby_rest c_two c_quarter c d M (nth q r1s []) (st_x s) (st_p s) (st_a s) k)
      (seq 0 (nranks D)).
Definition dist_cheby_solve (cdMs : list (S * S * option vec)) (degree : nat) (D : dmat) (fs xs ps rs : list vec)
  : list cst :=
  fold_left (dist_cheby_step cdMs D fs) (seq 0 degree)
            (map (fun q => (nth q xs [], nth q ps [], nth q rs [], s0)) (seq 0 (nranks D))).
Definition dist_cheby_sweep (cdMs : list (S * S * option vec)) (degree : nat) (D : dmat) (fs xs ps rs : list vec)
  : list vec := map st_x (dist_cheby_solve cdMs degree D fs xs ps rs).
Definition dist_cheby_apply (cdMs : list (S * S * option vec)) (degree : nat) (D : dmat) (fs xs ps rs : list vec)
  : list vec := dist_cheby_sweep cdMs degree D fs (map (@vclear S) xs) ps rs.

(* ---------------------------------------------------------------- the ILU family (built from *A.local()) *)
Definition dflt_lud : crs * crs * vec := (mkCrs 0 [], mkCrs 0 [], []).
Definition dist_ilu0_setup (D : dmat) (junks : list vec) : list (res (crs * crs * vec)) :=
  map (fun r => ilu0 (rm_loc (rk D r)) (nth r junks [])) (seq 0 (nranks D)).
Definition dist_iluk_setup (k : nat) (D : dmat) (junks : list vec) : list (crs * crs * vec) :=
  map (fun r => iluk k (rm_loc (rk D r)) (nth r junks [])) (seq 0 (nranks D)).
Definition dist_ilup_setup (k : nat) (D : dmat) (junks : list vec) : list (res (crs * crs * vec)) :=
  map (fun r => ilup k (rm_loc (rk D r)) (nth r junks [])) (seq 0 (nranks D)).
Definition dist_ilut_setup (p : QArith_base.Q) (tau : S) (D : dmat) (junks : list vec) : list (crs * crs * vec * bool) :=
  map (fun r => ilut p tau (rm_loc (rk D r)) (nth r junks [])) (seq 0 (nranks D)).
(* tmp = f - A x (distributed); ilu->solve(tmp) with the LOCAL factors; x = damping * tmp + x *)
Definition dist_ilu_sweep (damping : S) (LUDs : list (crs * crs * vec)) : dmat -> list vec -> list vec -> list vec -> list vec :=
  dist_sweep (fun r t x => let '(L, U, Dg) := nth r LUDs dflt_lud in axpby damping (ilu_solve L U Dg t) s1 x).
Definition dist_ilu_apply (LUDs : list (crs * crs * vec)) : dmat -> list vec -> list vec -> list vec :=
  dist_apply (fun r f x => let '(L, U, Dg) := nth r LUDs dflt_lud in ilu_apply L U Dg f x).

(* ---------------------------------------------------------------- spai1 (built from *A.local()) *)
Definition dist_spai1_setup (solve : crs -> vec -> option vec) (D : dmat) : list (option crs) :=
  map (fun r => spai1_setup solve (rm_loc (rk D r))) (seq 0 (nranks D)).
Definition dist_spai1_sweep (Ms : list crs) : dmat -> list vec -> list vec -> list vec -> list vec :=
  dist_sweep (fun r t x => spmv s1 (nth r Ms (mkCrs 0 [])) t s1 x).
Definition dist_spai1_apply (Ms : list crs) : dmat -> list vec -> list vec -> list vec :=
  dist_apply (fun r f x => spai1_apply (nth r Ms (mkCrs 0 [])) f x).

(* ---------------------------------------------------------------- gauss_seidel: the local block only, in every call *)
Definition dist_gs_sweep (D : dmat) (fs xs : list vec) (forward : bool) : list vec :=
  map (fun r => gs_sweep (rm_loc (rk D r)) (nth r fs []) (nth r xs []) forward) (seq 0 (nranks D)).
Definition dist_gs_apply (D : dmat) (fs xs : list vec) : list vec :=
  map (fun r => gs_apply (rm_loc (rk D r)) (nth r fs []) (nth r xs [])) (seq 0 (nranks D)).

(* ---------------------------------------------------------------- the serial counterparts (specification side) *)
(* sweep of a serial smoother whose update after the residual is [upd] *)
Definition serial_sweep (upd : vec -> vec -> vec) (A : crs) (f x tmp : vec) : vec := upd (residual f A x tmp) x.

End DistRelax.
