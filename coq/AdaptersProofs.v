(* AdaptersProofs.v -- proofs about the adapter views (C17) *)
From Coq Require Import Permutation Sorted ZifyBool.
From Amgcl Require Import Scalar Vec Crs Kernels KernelsProofs MatOps Adapters.
Local Open Scope S_scope.

(* ================================================================ index types *)
Lemma wrap_u_id w z : (0 <= z < 2 ^ w)%Z -> wrap_u w z = z.
Proof. intro H. unfold wrap_u. apply Z.mod_small. exact H. Qed.

Lemma wrap_s_id w z : (0 < w)%Z -> (- 2 ^ (w - 1) <= z < 2 ^ (w - 1))%Z -> wrap_s w z = z.
Proof.
  intros Hw H. unfold wrap_s.
  assert (E : (2 ^ w = 2 * 2 ^ (w - 1))%Z).
  { replace w with (Z.succ (w - 1)) at 1 by lia. rewrite Z.pow_succ_r by lia. reflexivity. }
  rewrite Z.mod_small by lia. lia.
Qed.

Lemma store_id it z : (0 < it_bits it)%Z -> (0 <= z < 2 ^ (it_bits it - 1))%Z -> store it z = z.
Proof.
  intros Hw H. unfold store. destruct (it_signed it).
  - apply wrap_s_id; [exact Hw|]. assert (0 < 2 ^ (it_bits it - 1))%Z by (apply Z.pow_pos_nonneg; lia). lia.
  - apply wrap_u_id.
    assert (E : (2 ^ it_bits it = 2 * 2 ^ (it_bits it - 1))%Z).
    { replace (it_bits it) with (Z.succ (it_bits it - 1)) at 1 by lia. rewrite Z.pow_succ_r by lia. reflexivity. }
    lia.
Qed.

(* in-range indices survive the conversion user type -> CRS member type unchanged *)
Theorem idx_conv_id src dst n :
  (0 < it_bits src)%Z -> (0 < it_bits dst)%Z ->
  (Z.of_nat n < 2 ^ (it_bits src - 1))%Z -> (Z.of_nat n < 2 ^ (it_bits dst - 1))%Z ->
  idx_conv src dst n = n.
Proof.
  intros H1 H2 H3 H4. unfold idx_conv.
  rewrite (store_id src) by lia. rewrite (store_id dst) by lia. apply Nat2Z.id.
Qed.

(* out-of-range values are NOT preserved: e.g. 2^31 stored in an int *)
Example store_wraps : store it_int (2 ^ 31)%Z = (- 2 ^ 31)%Z.
Proof. vm_compute. reflexivity. Qed.

(* ================================================================ views, any S *)
Section AnyScalar.
Context {S : Scalar}.
Local Notation vec := (vec S).
Local Notation row := (row S).
Local Notation crs := (crs S).

Lemma map_nth_seq {X} (l : list X) d : map (fun i => nth i l d) (seq 0 (length l)) = l.
Proof.
  induction l as [|a l IH]; [reflexivity|]. simpl. f_equal.
  rewrite <- seq_shift, map_map. exact IH.
Qed.

Theorem to_crs_crs_view (M : crs) : to_crs (crs_view M) = M.
Proof. destruct M as [m rs]. unfold to_crs, crs_view, nrows; simpl. f_equal. apply map_nth_seq. Qed.

Theorem crs_view_dims (M : crs) :
  a_rows (crs_view M) = nrows M /\ a_cols (crs_view M) = ncols M /\ a_nnz (crs_view M) = nnz M.
Proof. repeat split. Qed.

Theorem to_gcrs_gcrs_view {X} (G : gcrs X) : to_gcrs (gcrs_view G) = G.
Proof. destruct G as [m rs]. unfold to_gcrs, gcrs_view; simpl. f_equal. apply map_nth_seq. Qed.

(* the generic copy preserves what the adapter exposes *)
Theorem to_crs_spec (a : adapter S) :
  nrows (to_crs a) = a_rows a /\ ncols (to_crs a) = a_cols a /\
  forall i, i < a_rows a -> nth i (rows (to_crs a)) [] = a_row a i.
Proof.
  unfold to_crs, nrows; simpl. rewrite map_length, seq_length. repeat split.
  intros i Hi. rewrite (nth_indep _ [] (a_row a 0)) by (rewrite map_length, seq_length; exact Hi).
  rewrite (map_nth (a_row a)). rewrite seq_nth by exact Hi. reflexivity.
Qed.

(* --- flat arrays <-> row lists --- *)
Lemma ptr_from_hd p (rs : list row) : nth 0 (ptr_from p rs) 0 = p.
Proof. destruct rs; reflexivity. Qed.

Lemma ptr_from_length p (rs : list row) : length (ptr_from p rs) = Datatypes.S (length rs).
Proof. revert p; induction rs as [|r rs IH]; intro p; simpl; [reflexivity|]. rewrite IH. reflexivity. Qed.

Lemma nnz_acc (rs : list row) a :
  fold_left (fun acc r => acc + length r)%nat rs a = (a + total_len rs)%nat.
Proof.
  revert a; induction rs as [|r rs IH]; intro a; simpl; [lia|]. rewrite IH. lia.
Qed.

Lemma ptr_from_last p (rs : list row) : nth (length rs) (ptr_from p rs) 0 = (p + total_len rs)%nat.
Proof.
  revert p; induction rs as [|r rs IH]; intro p; simpl; [lia|]. rewrite IH. lia.
Qed.

Lemma flat_nnz (M : crs) : nth (nrows M) (flat_ptr M) 0 = nnz M.
Proof. unfold flat_ptr, nrows, nnz. rewrite ptr_from_last, nnz_acc. reflexivity. Qed.

Lemma combine_fst_snd {X Y} (l : list (X * Y)) : combine (map fst l) (map snd l) = l.
Proof. induction l as [|[a b] l IH]; simpl; [reflexivity|]. rewrite IH. reflexivity. Qed.

Lemma slice_app_mid {X} (pre mid post : list X) :
  slice (pre ++ mid ++ post) (length pre) (length pre + length mid) = mid.
Proof.
  unfold slice. replace (length pre + length mid - length pre)%nat with (length mid) by lia.
  rewrite skipn_app, skipn_all, Nat.sub_diag. simpl.
  rewrite firstn_app, firstn_all, Nat.sub_diag. simpl. apply app_nil_r.
Qed.

Lemma slice_mid' {X} (pre mid post : list X) b e :
  b = length pre -> e = (length pre + length mid)%nat -> slice (pre ++ mid ++ post) b e = mid.
Proof. intros -> ->. apply slice_app_mid. Qed.

Lemma arr_row_flat (rs : list row) : forall p (pc : list nat) (pv : vec) i,
  length pc = p -> length pv = p -> i < length rs ->
  arr_row (fun x => x) (ptr_from p rs) (pc ++ map fst (concat rs)) (pv ++ map snd (concat rs)) i
  = nth i rs [].
Proof.
  induction rs as [|r rs IH]; intros p pc pv i Hc Hv Hi; simpl in Hi; [lia|].
  destruct i as [|i].
  - unfold arr_row. cbn [ptr_from nth]. rewrite ptr_from_hd. rewrite map_id.
    cbn [concat]. rewrite !map_app.
    rewrite (slice_mid' pc (map fst r) (map fst (concat rs))) by (rewrite ?map_length; lia).
    rewrite (slice_mid' pv (map snd r) (map snd (concat rs))) by (rewrite ?map_length; lia).
    apply combine_fst_snd.
  - unfold arr_row in *. cbn [ptr_from nth concat].
    specialize (IH (p + length r)%nat (pc ++ map fst r) (pv ++ map snd r) i).
    rewrite !map_app, !app_assoc. rewrite <- !app_assoc in IH. rewrite <- !app_assoc.
    apply IH; rewrite ?app_length, ?map_length; lia.
Qed.

Lemma Forall_firstn' {X} (P : X -> Prop) n l : Forall P l -> Forall P (firstn n l).
Proof.
  intro H. revert n; induction H as [|a l Ha _ IH]; intros [|n]; simpl; constructor; auto.
Qed.
Lemma Forall_skipn' {X} (P : X -> Prop) n l : Forall P l -> Forall P (skipn n l).
Proof.
  intro H. revert n; induction H as [|a l Ha Hl IH]; intros [|n]; simpl; auto.
Qed.
Lemma Forall_slice {X} (P : X -> Prop) l b e : Forall P l -> Forall P (slice l b e).
Proof. intro H. unfold slice. apply Forall_firstn', Forall_skipn'. exact H. Qed.

Lemma map_id_Forall (cv : nat -> nat) l : Forall (fun c => cv c = c) l -> map cv l = l.
Proof. induction 1 as [|a l Ha _ IH]; simpl; [reflexivity|]. rewrite Ha, IH. reflexivity. Qed.

Lemma arr_row_cv (cv : nat -> nat) ptr col (val : vec) i :
  Forall (fun c => cv c = c) ptr -> Forall (fun c => cv c = c) col ->
  Datatypes.S i < length ptr ->
  arr_row cv ptr col val i = arr_row (fun x => x) ptr col val i.
Proof.
  intros Hp Hc Hi. unfold arr_row. rewrite Forall_forall in Hp.
  rewrite (Hp (nth i ptr 0%nat)) by (apply nth_In; lia).
  rewrite (Hp (nth (Datatypes.S i) ptr 0%nat)) by (apply nth_In; lia).
  rewrite map_id. f_equal. apply map_id_Forall. apply Forall_slice. exact Hc.
Qed.

(* in-range predicate for a matrix whose arrays are stored in the index type [it] *)
Definition fits (it : itype) (M : crs) : Prop :=
  (0 < it_bits it <= 64)%Z /\
  (Z.of_nat (nnz M) < 2 ^ (it_bits it - 1))%Z /\
  Forall (fun c => (Z.of_nat c < 2 ^ (it_bits it - 1))%Z) (flat_col M).

Lemma pow_le_63 w : (0 < w <= 64)%Z -> (2 ^ (w - 1) <= 2 ^ 63)%Z.
Proof. intro H. apply Z.pow_le_mono_r; lia. Qed.

Lemma cv_id it n : (0 < it_bits it <= 64)%Z -> (Z.of_nat n < 2 ^ (it_bits it - 1))%Z ->
  idx_conv it it_ptrdiff_t n = n.
Proof.
  intros Hw Hn. apply idx_conv_id; simpl; try lia.
  pose proof (pow_le_63 _ Hw). simpl in *. lia.
Qed.

Lemma ptr_from_bound p (rs : list row) : Forall (fun q => (q <= p + total_len rs)%nat) (ptr_from p rs).
Proof.
  revert p; induction rs as [|r rs IH]; intro p; simpl.
  - constructor; [lia|constructor].
  - constructor; [lia|]. specialize (IH (p + length r)%nat).
    eapply Forall_impl; [|exact IH]. simpl. intros; lia.
Qed.

(* C17-A1 for tuple ranges: rows, cols, nonzeros and the entries of the copy agree
   with the source matrix, for every index type in which the matrix fits *)
Theorem tuple_view (it : itype) (M : crs) :
  ncols M = nrows M -> fits it M ->
  let a := tuple_adapter it (nrows M) (flat_ptr M) (flat_col M) (flat_val M) in
  a_rows a = nrows M /\ a_cols a = ncols M /\ a_nnz a = nnz M /\ to_crs a = M.
Proof.
  intros Hsq (Hw & Hnz & Hcols). cbv zeta.
  assert (Hptr : Forall (fun c => idx_conv it it_ptrdiff_t c = c) (flat_ptr M)).
  { unfold flat_ptr. pose proof (ptr_from_bound 0 (rows M)) as HB.
    eapply Forall_impl; [|exact HB]. simpl. intros q Hq. apply cv_id; [exact Hw|].
    unfold nnz in Hnz. rewrite nnz_acc in Hnz. lia. }
  assert (Hcol : Forall (fun c => idx_conv it it_ptrdiff_t c = c) (flat_col M)).
  { eapply Forall_impl; [|exact Hcols]. simpl. intros c Hc. apply cv_id; assumption. }
  unfold tuple_adapter. cbn [a_rows a_cols a_nnz]. repeat split.
  - symmetry; exact Hsq.
  - rewrite flat_nnz. apply cv_id; assumption.
  - destruct M as [m rs]. unfold to_crs. cbn [a_rows a_cols a_row]. simpl in Hsq. f_equal; [congruence|].
    unfold nrows; simpl rows.
    transitivity (map (fun i => nth i rs []) (seq 0 (length rs))); [|apply map_nth_seq]. apply map_ext_in. intros i Hi. apply in_seq in Hi.
    rewrite arr_row_cv; try assumption.
    + unfold flat_ptr, flat_col, flat_val; simpl rows.
      apply (arr_row_flat rs 0 [] [] i); simpl; lia.
    + unfold flat_ptr; simpl rows. rewrite ptr_from_length. lia.
Qed.

(* zero-copy: same view with an independent column count *)
Theorem zero_copy_view (it : itype) (M : crs) :
  fits it M ->
  let a := zero_copy_adapter it (nrows M) (ncols M) (flat_ptr M) (flat_col M) (flat_val M) in
  a_rows a = nrows M /\ a_cols a = ncols M /\ a_nnz a = nnz M /\ to_crs a = M.
Proof.
  intros (Hw & Hnz & Hcols). cbv zeta.
  assert (Hptr : Forall (fun c => idx_conv it it_ptrdiff_t c = c) (flat_ptr M)).
  { unfold flat_ptr. pose proof (ptr_from_bound 0 (rows M)) as HB.
    eapply Forall_impl; [|exact HB]. simpl. intros q Hq. apply cv_id; [exact Hw|].
    unfold nnz in Hnz. rewrite nnz_acc in Hnz. lia. }
  assert (Hcol : Forall (fun c => idx_conv it it_ptrdiff_t c = c) (flat_col M)).
  { eapply Forall_impl; [|exact Hcols]. simpl. intros c Hc. apply cv_id; assumption. }
  unfold zero_copy_adapter. cbn [a_rows a_cols a_nnz]. repeat split.
  - destruct (Nat.eqb_spec (nrows M) 0) as [E|E].
    + unfold nnz, nrows in *. destruct (rows M); simpl in *; [reflexivity|discriminate].
    + rewrite flat_nnz. apply cv_id; assumption.
  - destruct M as [m rs]. unfold to_crs. cbn [a_rows a_cols a_row]. f_equal.
    unfold nrows; simpl rows.
    transitivity (map (fun i => nth i rs []) (seq 0 (length rs))); [|apply map_nth_seq]. apply map_ext_in. intros i Hi. apply in_seq in Hi.
    rewrite arr_row_cv; try assumption.
    + unfold flat_ptr, flat_col, flat_val; simpl rows.
      apply (arr_row_flat rs 0 [] [] i); simpl; lia.
    + unfold flat_ptr; simpl rows. rewrite ptr_from_length. lia.
Qed.

(* row-builder callback: the copy lists exactly what the functor produced *)
Theorem builder_view (n est : nat) (f : nat -> row) :
  let a := builder_adapter n est f in
  a_rows a = n /\ a_cols a = n /\ to_crs a = mkCrs n (map f (seq 0 n)).
Proof. repeat split. Qed.

End AnyScalar.
