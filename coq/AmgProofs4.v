(* AmgProofs4.v -- property C02-A2: the cycle is jointly linear in (rhs, x); apply is linear in
   rhs (commutative ring).  Instance of the lock-step lemma cycle_rel with three runs. *)
From Amgcl Require Import Scalar Vec Crs Kernels KernelsProofs MatOps MatOpsProofs Relax DenseSolve
  Amg AmgExec AmgProofs AmgProofs2 AmgProofs3.
Local Open Scope S_scope.

Inductive run3 := r1 | r2 | r3.

Section A2.
Context {S : Scalar}.
Local Notation vec := (vec S).
Local Notation crs := (crs S).
Local Notation level := (@level S).
Local Notation scratch := (@scratch S).
Local Notation sweep := (@sweep S).
Local Notation ldesc := (@ldesc S).
Hypothesis Srt : Sring S.
Hypothesis Seqb : seqb_spec S.
Add Ring SRingA2 : Srt.

(* pointwise a*x + b*y *)
Definition vlin (a : S) (x : vec) (b : S) (y : vec) : vec :=
  map (fun p => a * fst p + b * snd p) (combine x y).

Lemma vlin_length a (x : vec) b (y : vec) n : length x = n -> length y = n -> length (vlin a x b y) = n.
Proof. intros Hx Hy. unfold vlin. rewrite map_length, combine_length, Hx, Hy. apply Nat.min_id. Qed.

Lemma vlin_get a (x : vec) b (y : vec) i : length x = length y ->
  vget (vlin a x b y) i = a * vget x i + b * vget y i.
Proof.
  unfold vget, vlin. revert y i; induction x as [|c x IH]; intros [|d y] i H; simpl in *; try congruence.
  - destruct i; ring.
  - destruct i as [|i]; [reflexivity|]. apply IH. congruence.
Qed.

Lemma vec_ext (v w : vec) : length v = length w ->
  (forall i, i < length v -> vget v i = vget w i) -> v = w.
Proof. intros HL H. apply (nth_ext v w s0 s0 HL). exact H. Qed.

(* to show v3 = a v1 + b v2 it is enough to compare entries *)
Lemma vlin_intro a b (v1 v2 v3 : vec) n : length v1 = n -> length v2 = n -> length v3 = n ->
  (forall i, i < n -> vget v3 i = a * vget v1 i + b * vget v2 i) -> v3 = vlin a v1 b v2.
Proof.
  intros L1 L2 L3 H. apply vec_ext.
  - rewrite (vlin_length a v1 b v2 n L1 L2). exact L3.
  - intros i Hi. rewrite vlin_get by congruence. apply H. congruence.
Qed.

Lemma Ax_lin (A : crs) a (x : vec) b (y : vec) i : length x = length y ->
  Ax A (vlin a x b y) i = a * Ax A x i + b * Ax A y i.
Proof.
  intro HL. unfold Ax.
  rewrite (sumn_ext _ (fun j => a * (mget A i j * vget x j) + b * (mget A i j * vget y j))).
  - rewrite (sumn_add Srt), !(sumn_scal Srt). reflexivity.
  - intros j _. rewrite vlin_get by exact HL. ring.
Qed.

Lemma vclear_get (u : vec) i : vget (vclear u) i = s0.
Proof. apply vclear_spec. Qed.

(* --- predicates --- *)
Definition sweep_lin (n : nat) (sw : sweep) : Prop :=
  forall a b f g x y t1 t2 t3,
    length f = n -> length g = n -> length x = n -> length y = n ->
    length t1 = n -> length t2 = n -> length t3 = n ->
    fst (sw (vlin a f b g) (vlin a x b y) t3) = vlin a (fst (sw f x t1)) b (fst (sw g y t2)).

(* linear in rhs and independent of the incoming x *)
Definition solve_lin (n : nat) (sv : vec -> vec -> vec) : Prop :=
  forall a b f g x y z,
    length f = n -> length g = n -> length x = n -> length y = n -> length z = n ->
    sv (vlin a f b g) z = vlin a (sv f x) b (sv g y).

Fixpoint hier_lin (lvls : list level) : Prop :=
  match lvls with
  | [] => True
  | l :: rest =>
    let n := nrows (lA l) in
    sweep_ok n (lpre l) /\ sweep_ok n (lpost l) /\ sweep_lin n (lpre l) /\ sweep_lin n (lpost l) /\
    match rest with
    | [] => forall sv, lsolve l = Some sv -> solve_ok n sv /\ solve_lin n sv
    | nxt :: _ => wf (lA l) = true /\ wf (lR l) = true /\ wf (lP l) = true /\
                  nrows (lR l) = nrows (lA nxt) /\ nrows (lP l) = n
    end /\ hier_lin rest
  end.

Lemma hier_lin_wf lvls : hier_lin lvls -> hier_wf lvls.
Proof.
  induction lvls as [|l rest IH]; intro H; [exact I|].
  cbn [hier_lin] in H. destruct H as (H1 & H2 & _ & _ & Hm & Hr).
  cbn [hier_wf]. split; [exact H1|]. split; [exact H2|]. split; [|apply IH, Hr].
  destruct rest as [|nxt rest']; [intros sv E; apply (Hm sv E)|apply Hm].
Qed.

Section WithCoeffs.
Variables a b : S.

Definition Rel3 (n : nat) (v : run3 -> vec) : Prop :=
  Len run3 n v /\ v r3 = vlin a (v r1) b (v r2).

Lemma Rel3_ext n (v w : run3 -> vec) : (forall i, v i = w i) -> Rel3 n v -> Rel3 n w.
Proof.
  intros E [H1 H2]. split.
  - intro i. rewrite <- E. apply H1.
  - rewrite <- !E. exact H2.
Qed.

Lemma sweep_lin_rel n sw : sweep_ok n sw -> sweep_lin n sw -> sweep_rel run3 Rel3 n sw.
Proof.
  intros Hok Hlin rhs x t [Lr Er] [Lx Ex] Lt. split; [split|].
  - intro i. apply Hok; [apply Lr|apply Lx|apply Lt].
  - rewrite Er, Ex. apply Hlin; auto.
  - intro i. apply Hok; [apply Lr|apply Lx|apply Lt].
Qed.

Lemma clear_rel3 n : clear_rel run3 Rel3 n.
Proof.
  intros u Lu. split.
  - intro i. rewrite vclear_length. apply Lu.
  - apply (vlin_intro a b _ _ _ n); rewrite ?vclear_length; auto.
    intros i _. rewrite !vclear_get. ring.
Qed.

Lemma hier_lin_rel lvls : hier_lin lvls -> hier_rel run3 Rel3 lvls.
Proof.
  induction lvls as [|l rest IH]; intro H; [exact I|].
  cbn [hier_lin] in H. destruct H as (Hpre & Hpost & Lpre & Lpost & Hmid & Hrest).
  cbn [hier_rel]. split; [intros v Hv; apply Hv|]. split; [apply clear_rel3|].
  split; [apply sweep_lin_rel; assumption|]. split; [apply sweep_lin_rel; assumption|].
  split; [|apply IH, Hrest].
  set (n := nrows (lA l)) in *.
  destruct rest as [|nxt rest'].
  - intros sv Esv rhs x [Lr Er] [Lx Ex]. destruct (Hmid sv Esv) as [Hok Hlin]. split.
    + intro i. apply Hok; [apply Lr|apply Lx].
    + rewrite Er. apply Hlin; auto.
  - destruct Hmid as (WA & WR & WP & NR & NP). set (n' := nrows (lA nxt)) in *.
    split; [|split].
    + (* residual *)
      intros rhs x t [Lr Er] [Lx Ex] Lt.
      assert (LL : forall i, length (residual (rhs i) (lA l) (x i) (t i)) = n)
        by (intro i; apply residual_length; [apply Lr|apply Lt]).
      split; [exact LL|].
      apply (vlin_intro a b _ _ _ n); auto.
      intros i Hi. rewrite !(residual_spec Srt) by (auto; try apply Lr; try apply Lt).
      rewrite Er, Ex, vlin_get, Ax_lin by (rewrite ?Lr, ?Lx; reflexivity). ring.
    + (* restriction *)
      intros t y [Lt Et] Ly.
      assert (LL : forall i, length (spmv s1 (lR l) (t i) s0 (y i)) = n')
        by (intro i; rewrite spmv_length_any; apply Ly).
      split; [exact LL|].
      apply (vlin_intro a b _ _ _ n'); auto.
      intros i Hi. rewrite !(spmv_spec Srt Seqb) by (auto; rewrite ?Ly; congruence).
      rewrite Et, Ax_lin by (rewrite !Lt; reflexivity). ring.
    + (* prolongation *)
      intros u x [Lu Eu] [Lx Ex].
      assert (LL : forall i, length (spmv s1 (lP l) (u i) s1 (x i)) = n)
        by (intro i; rewrite spmv_length_any; apply Lx).
      split; [exact LL|].
      apply (vlin_intro a b _ _ _ n); auto.
      intros i Hi. rewrite !(spmv_spec Srt Seqb) by (auto; rewrite ?Lx; congruence).
      rewrite Eu, Ex, vlin_get, Ax_lin by (rewrite ?Lu, ?Lx; reflexivity). ring.
Qed.

Lemma copy_rel3 n : copy_rel run3 Rel3 n.
Proof.
  intros rhs x [Lr Er] Lx.
  assert (E : forall i, vcopy (rhs i) (x i) = rhs i)
    by (intro i; apply vcopy_spec; rewrite Lr, Lx; reflexivity).
  apply (Rel3_ext n rhs); [intro i; symmetry; apply E|]. split; assumption.
Qed.

End WithCoeffs.

Section WithParams.
Variables npre npost ncycle : nat.
Local Notation cycle := (cycle npre npost ncycle).
Local Notation apply := (apply npre npost ncycle).

Definition pick3 {X} (x1 x2 x3 : X) (i : run3) : X := match i with r1 => x1 | r2 => x2 | r3 => x3 end.

(* the cycle is jointly linear in (rhs, x), whatever the three scratch states are *)
Theorem cycle_linear lvls : hier_lin lvls -> forall a b scr1 scr2 scr3 f g x y,
  scratch_wf lvls scr1 -> scratch_wf lvls scr2 -> scratch_wf lvls scr3 ->
  length f = top_n lvls -> length g = top_n lvls -> length x = top_n lvls -> length y = top_n lvls ->
  fst (cycle lvls scr3 (vlin a f b g) (vlin a x b y)) =
  vlin a (fst (cycle lvls scr1 f x)) b (fst (cycle lvls scr2 g y)).
Proof.
  intros Hh a b scr1 scr2 scr3 f g x y H1 H2 H3 Lf Lg Lx Ly.
  destruct (cycle_rel run3 (Rel3 a b) (Rel3_ext a b) npre npost ncycle lvls (hier_lin_rel a b lvls Hh)
              (pick3 scr1 scr2 scr3) (pick3 f g (vlin a f b g)) (pick3 x y (vlin a x b y)))
    as [[HL HE] HS].
  - intros [| |]; assumption.
  - split; [|reflexivity]. intros [| |]; simpl; auto. apply vlin_length; assumption.
  - split; [|reflexivity]. intros [| |]; simpl; auto. apply vlin_length; assumption.
  - exact HE.
Qed.

(* apply is linear in rhs; neither the scratch states nor the incoming x vectors matter *)
Theorem apply_linear pre_cycles lvls : hier_lin lvls -> lvls <> [] ->
  forall a b scr1 scr2 scr3 f g x1 x2 x3,
  scratch_wf lvls scr1 -> scratch_wf lvls scr2 -> scratch_wf lvls scr3 ->
  length f = top_n lvls -> length g = top_n lvls ->
  length x1 = top_n lvls -> length x2 = top_n lvls -> length x3 = top_n lvls ->
  fst (apply pre_cycles lvls scr3 (vlin a f b g) x3) =
  vlin a (fst (apply pre_cycles lvls scr1 f x1)) b (fst (apply pre_cycles lvls scr2 g x2)).
Proof.
  intros Hh Hne a b scr1 scr2 scr3 f g x1 x2 x3 H1 H2 H3 Lf Lg L1 L2 L3.
  destruct (apply_rel run3 (Rel3 a b) (Rel3_ext a b) npre npost ncycle pre_cycles lvls
              (hier_lin_rel a b lvls Hh) Hne (copy_rel3 a b _)
              (pick3 scr1 scr2 scr3) (pick3 f g (vlin a f b g)) (pick3 x1 x2 x3))
    as [[HL HE] HS].
  - intros [| |]; assumption.
  - split; [|reflexivity]. intros [| |]; simpl; auto. apply vlin_length; assumption.
  - intros [| |]; assumption.
  - exact HE.
Qed.

End WithParams.

(* ------------------------------------------------------------------ *)
(* smoothers: Jacobi and SPAI-0 sweeps are jointly linear in (rhs, x) *)
Lemma diag_sweep_lin (w : S) (d : vec) (A : crs) : wf A = true -> length d = nrows A ->
  sweep_lin (nrows A) (fun rhs x t => let t' := residual rhs A x t in (vmul w d t' s1 x, t')).
Proof.
  intros WA Ld a b f g x y t1 t2 t3 Lf Lg Lx Ly L1 L2 L3. cbn [fst].
  set (n := nrows A) in *.
  assert (Lfg : length (vlin a f b g) = n) by (apply vlin_length; assumption).
  assert (Lxy : length (vlin a x b y) = n) by (apply vlin_length; assumption).
  assert (LR : forall r u t, length r = n -> length t = n -> length (residual r A u t) = n)
    by (intros; apply residual_length; assumption).
  apply (vlin_intro a b _ _ _ n).
  - rewrite vmul_length; rewrite ?LR; congruence.
  - rewrite vmul_length; rewrite ?LR; congruence.
  - rewrite vmul_length; rewrite ?LR; congruence.
  - intros i Hi.
    rewrite !(vmul_spec Srt Seqb) by (rewrite ?LR; congruence).
    rewrite !(residual_spec Srt) by (auto; congruence).
    rewrite !vlin_get, Ax_lin by congruence. ring.
Qed.

Lemma jacobi_sweep_lin w (A : crs) (junk : vec) : wf A = true ->
  sweep_lin (nrows A) (fun rhs x t => jacobi_sweep w (jacobi_setup A junk) A rhs x t).
Proof. intro WA. apply (diag_sweep_lin w (jacobi_setup A junk) A WA). apply diagonal_length. Qed.

Lemma spai0_sweep_lin (A : crs) : wf A = true ->
  sweep_lin (nrows A) (fun rhs x t => spai0_sweep (spai0_setup A) A rhs x t).
Proof.
  intro WA. apply (diag_sweep_lin s1 (spai0_setup A) A WA).
  unfold spai0_setup. rewrite map_length. apply indexed_len.
Qed.

(* --- Gauss-Seidel: the serial sweep is jointly linear in (rhs, x) --- *)
Definition gsD (i : nat) (r : row S) (D0 : S) : S :=
  fold_left (fun D e => if Nat.eqb (fst e) i then snd e else D) r D0.
Definition gsoff (i : nat) (r : row S) (x : vec) : S :=
  fold_right (fun e acc => (if Nat.eqb (fst e) i then s0 else snd e * vget x (fst e)) + acc) s0 r.

Lemma gs_fold i (r : row S) (x : vec) : forall D0 X0,
  fold_left (fun (dx : S * S) e =>
        if Nat.eqb (fst e) i then (snd e, snd dx) else (fst dx, snd dx - snd e * vget x (fst e)))
        r (D0, X0) = (gsD i r D0, X0 - gsoff i r x).
Proof.
  induction r as [|e r IH]; intros D0 X0; simpl.
  - f_equal. ring.
  - destruct (Nat.eqb (fst e) i); cbn [fst snd]; rewrite IH; unfold gsD; simpl; f_equal; ring.
Qed.

Lemma gs_row_eq i (r : row S) (rhs x : vec) :
  gs_row i r rhs x = set_nth x i (sinv (gsD i r s1) * (vget rhs i - gsoff i r x)).
Proof. unfold gs_row. rewrite gs_fold. reflexivity. Qed.

Lemma gsoff_lin i (r : row S) a (x : vec) b (y : vec) : length x = length y ->
  gsoff i r (vlin a x b y) = a * gsoff i r x + b * gsoff i r y.
Proof.
  intro HL. induction r as [|e r IH]; simpl; [ring|].
  rewrite IH. destruct (Nat.eqb (fst e) i); [ring|]. rewrite vlin_get by exact HL. ring.
Qed.

Lemma set_nth_vlin a (x : vec) b (y : vec) i (u v : S) : length x = length y ->
  set_nth (vlin a x b y) i (a * u + b * v) = vlin a (set_nth x i u) b (set_nth y i v).
Proof.
  unfold vlin. revert y i; induction x as [|c x IH]; intros [|d y] i H; simpl in *; try congruence.
  destruct i as [|i].
  - reflexivity.
  - cbn [set_nth combine map]. f_equal. apply IH. congruence.
Qed.

Lemma gs_row_lin i (r : row S) a b (f g x y : vec) : length f = length g -> length x = length y ->
  gs_row i r (vlin a f b g) (vlin a x b y) = vlin a (gs_row i r f x) b (gs_row i r g y).
Proof.
  intros Hfg Hxy. rewrite !gs_row_eq, <- set_nth_vlin by exact Hxy. f_equal.
  rewrite gsoff_lin, vlin_get by assumption. ring.
Qed.

Lemma gs_sweep_lin_eq (A : crs) fwd a b (f g : vec) : length f = length g -> forall x y : vec,
  length x = length y ->
  gs_sweep A (vlin a f b g) (vlin a x b y) fwd = vlin a (gs_sweep A f x fwd) b (gs_sweep A g y fwd).
Proof.
  intros Hfg. unfold gs_sweep.
  generalize (if fwd then seq 0 (nrows A) else rev (seq 0 (nrows A))). intro order.
  induction order as [|i order IH]; intros x y Hxy; simpl; [reflexivity|].
  rewrite gs_row_lin by assumption. apply IH. rewrite !gs_row_length. exact Hxy.
Qed.

Lemma gs_sweep_lin (A : crs) fwd n : sweep_lin n (fun rhs x t => (gs_sweep A rhs x fwd, t)).
Proof.
  intros a b f g x y t1 t2 t3 Lf Lg Lx Ly _ _ _. cbn [fst]. apply gs_sweep_lin_eq; congruence.
Qed.

Theorem mk_relax_std_lin (k : @relax_kind S) (A : crs) : wf A = true ->
  sweep_lin (nrows A) (fst (mk_relax_std k A)) /\ sweep_lin (nrows A) (snd (mk_relax_std k A)).
Proof.
  intro WA. destruct k as [w| |]; cbn [mk_relax_std fst snd].
  - split; apply jacobi_sweep_lin; exact WA.
  - split; apply spai0_sweep_lin; exact WA.
  - split; apply gs_sweep_lin.
Qed.

(* --- hierarchies produced by build + instantiate --- *)
Section Inst.
Variable mk_relax : crs -> sweep * sweep.
Variable mk_solve : crs -> vec -> vec -> vec.
Hypothesis relax_ok : forall A, sweep_ok (nrows A) (fst (mk_relax A)) /\ sweep_ok (nrows A) (snd (mk_relax A)).
Hypothesis relax_lin : forall A, wf A = true ->
  sweep_lin (nrows A) (fst (mk_relax A)) /\ sweep_lin (nrows A) (snd (mk_relax A)).
Hypothesis solve_ok_all : forall A, solve_ok (nrows A) (mk_solve A).
Local Notation inst := (instantiate mk_relax mk_solve).

(* descriptor lists whose matrices are well-formed and whose P has the rows of A *)
Fixpoint descs_wf (ls : list ldesc) : Prop :=
  match ls with
  | [] => True
  | LMid A P R :: tl => wf A = true /\ wf P = true /\ wf R = true /\ nrows P = nrows A /\ descs_wf tl
  | LLast A :: tl => wf A = true /\ descs_wf tl
  | LSolve A :: tl => wf A = true /\ descs_wf tl
  end.

Lemma descs_wf_A l tl : descs_wf (l :: tl) -> wf (ld_A l) = true /\ descs_wf tl.
Proof. destruct l; simpl; tauto. Qed.

Lemma id_sweep_lin n : sweep_lin n (fun (_ x t : vec) => (x, t)).
Proof. intros a b f g x y t1 t2 t3 _ _ _ _ _ _ _. reflexivity. Qed.

Lemma inst_sweeps_lin (l : ldesc) : wf (ld_A l) = true ->
  sweep_lin (nrows (ld_A l)) (lpre (inst l)) /\ sweep_lin (nrows (ld_A l)) (lpost (inst l)).
Proof.
  destruct l as [A P R|A|A]; cbn [instantiate lpre lpost ld_A]; try apply relax_lin.
  intros _. split; apply id_sweep_lin.
Qed.

Theorem chain_hier_lin cop (ls : list ldesc) : coarse_shape cop -> chain cop ls -> descs_wf ls ->
  (forall A, In (LSolve A) ls -> solve_lin (nrows A) (mk_solve A)) ->
  hier_lin (map inst ls).
Proof.
  intro Hshape. induction ls as [|l tl IH]; intros Hc Hw Hsl; [destruct Hc|].
  destruct (descs_wf_A l tl Hw) as [WA Wtl].
  cbn [map hier_lin]. rewrite (inst_lA mk_relax mk_solve).
  split; [apply (inst_sweeps_ok mk_relax mk_solve relax_ok)|].
  split; [apply (inst_sweeps_ok mk_relax mk_solve relax_ok)|].
  split; [apply inst_sweeps_lin, WA|]. split; [apply inst_sweeps_lin, WA|].
  destruct tl as [|next tl'].
  - cbn [map]. split; [|exact I].
    intros sv Esv. destruct l as [A P R|A|A]; cbn in Esv; try discriminate.
    inversion Esv; subst. split; [apply solve_ok_all|apply Hsl; left; reflexivity].
  - destruct l as [A P R| |]; simpl in Hc; try contradiction. destruct Hc as [Hn Hc].
    cbn [map]. split; [|apply IH; try assumption; intros A0 HA0; apply Hsl; right; exact HA0].
    simpl in Hw. destruct Hw as (W1 & W2 & W3 & W4 & _).
    cbn [instantiate lA lR lP]. repeat split; try assumption.
    rewrite (inst_lA mk_relax mk_solve), Hn, sort_rows_nrows, Hshape. reflexivity.
Qed.

(* transfer-operator lists that fit a fine matrix with n rows *)
Fixpoint ts_wf (n : nat) (ts : list (option (crs * crs))) : Prop :=
  match ts with
  | Some (P, R) :: ts' => wf P = true /\ wf R = true /\ nrows P = n /\ ts_wf (nrows R) ts'
  | _ => True
  end.

Definition cop_wf (cop : crs -> crs -> crs -> crs) : Prop :=
  forall A P R, wf P = true -> wf (cop A P R) = true.

Lemma galerkin_cop_wf : cop_wf (@galerkin S).
Proof. intros A P R WP. unfold galerkin. apply spgemm_saad_wf, spgemm_saad_wf, WP. Qed.

Lemma scaled_galerkin_cop_wf s : cop_wf (@scaled_galerkin S s).
Proof. intros A P R WP. unfold scaled_galerkin. apply mscale_wf, galerkin_cop_wf, WP. Qed.

Theorem build_descs_wf ce dc ml cop : coarse_shape cop -> cop_wf cop ->
  forall ts A nlev, wf A = true -> ts_wf (nrows A) ts -> descs_wf (build ce dc ml cop ts A nlev).
Proof.
  intros Hshape Hcw ts. induction ts as [|t ts' IH]; intros A nlev WA Hts; rewrite build_unfold.
  - destruct (Nat.leb (nrows A) ce); [destruct dc; simpl; auto|].
    destruct (Nat.leb ml (Datatypes.S nlev)); simpl; auto.
  - destruct (Nat.leb (nrows A) ce); [destruct dc; simpl; auto|].
    destruct (Nat.leb ml (Datatypes.S nlev)); [simpl; auto|].
    destruct t as [[P R]|]; [|simpl; auto].
    simpl in Hts. destruct Hts as (WP & WR & NP & Hts').
    cbn [descs_wf]. split; [exact WA|]. split; [apply sort_rows_wf, WP|].
    split; [apply sort_rows_wf, WR|]. split; [rewrite sort_rows_nrows; exact NP|].
    apply IH.
    + apply sort_rows_wf, Hcw, sort_rows_wf, WP.
    + rewrite sort_rows_nrows, Hshape, sort_rows_nrows. exact Hts'.
Qed.

End Inst.

End A2.
