(* IluRefute.v -- closed counterexamples (vm_compute at the exact rationals) for
   statements that the faithful models of iluk.hpp / ilut.hpp do NOT satisfy, and the
   corollary of Ilu0Exact for ILUP.  Replayed on the implementation by tools/props/C06.py
   (known findings C06-iluk-readmit, C06-ilut-diag-budget). *)
From Coq Require Import QArith_base.
From Amgcl Require Import Scalar QcInst Vec Crs Kernels KernelsProofs MatOps Relax Ilu Ilu0Exact.
Local Open Scope S_scope.
Local Close Scope Q_scope.

Definition qz (n : Z) : T QcS := qc n 1.

(* DESIGN section 8 item 6: ILU(1); position (3,4) is dropped when column 1 is eliminated
   (level 2) and created again when column 2 is eliminated (level 1) *)
Definition iluk_witness : crs QcS :=
  mkCrs 5 [[(0, qz 4); (4, qz 1)]; [(0, qz 1); (1, qz 4)]; [(2, qz 4); (4, qz 1)];
           [(1, qz 1); (2, qz 1); (3, qz 4)]; [(4, qz 4)]]%nat.

(* admitted pattern of the result = pattern of the emitted factors (+ diagonal) *)
Definition admitted {S : Scalar} (L U : crs S) (i j : nat) : bool :=
  has_col j (nth i (rows L) []) || Nat.eqb i j || has_col j (nth i (rows U) []).
Definition rows_sorted {S : Scalar} (A : crs S) : bool := forallb sorted_strict (rows A).
Definition no_zero_pivot {S : Scalar} (D : vec S) : bool := forallb (fun d => negb (is_zero d)) D.

(* "for every admitted position (LU)_ij = a_ij, provided no zero pivot" is FALSE for iluk *)
Lemma iluk_exact_on_pattern_refuted :
  exists (k : nat) (A : crs QcS) (junk : vec QcS) (L U : crs QcS) (D : vec QcS) (i j : nat),
    wf A = true /\ ncols A = nrows A /\ rows_sorted A = true /\ has_diag A = true /\
    iluk k A junk = (L, U, D) /\ no_zero_pivot D = true /\
    i < nrows A /\ admitted L U i j = true /\
    lu_entry L U D i j <> mget A i j.
Proof.
  exists 1%nat, iluk_witness, [].
  set (r := iluk 1 iluk_witness []).
  exists (fst (fst r)), (snd (fst r)), (snd r), 3%nat, 4%nat.
  split; [vm_compute; reflexivity|].
  split; [reflexivity|].
  split; [vm_compute; reflexivity|].
  split; [vm_compute; reflexivity|].
  split; [destruct r as [[a b] c]; reflexivity|].
  split; [vm_compute; reflexivity|].
  split; [unfold iluk_witness, nrows; simpl; lia|].
  split; [vm_compute; reflexivity|].
  intro H. apply (proj2 (QcS_eqb _ _)) in H. vm_compute in H. discriminate H.
Qed.

(* the value: (LU)_{3,4} = -1/16 while a_{3,4} = 0 *)
Lemma iluk_witness_value :
  let '(L, U, D) := iluk 1 iluk_witness [] in
  seqb (lu_entry L U D 3 4) (qc (-1) 16) = true /\ seqb (mget iluk_witness 3 4) (qz 0) = true.
Proof. vm_compute. split; reflexivity. Qed.

(* ILUT(p = 1, tau = 0) on a 2x2 (tridiagonal) matrix: the own upper entry of row 0 fits the
   budget int(lenU*p) = 1 but the diagonal takes that place: U row 0 is empty, LU <> A *)
Definition ilut_witness : crs QcS :=
  mkCrs 2 [[(0, qz 2); (1, qz 1)]; [(0, qc 5 3); (1, qc 19 6)]]%nat.
Lemma ilut_p1_not_exact_on_tridiagonal :
  let r := ilut (1 # 1)%Q (qz 0) ilut_witness [] in
  let L := fst (fst (fst r)) in let U := snd (fst (fst r)) in let D := snd (fst r) in
  snd r = false /\ no_zero_pivot D = true /\ nth 0 (rows U) [] = [] /\
  lu_entry L U D 0 1 <> mget ilut_witness 0 1.
Proof.
  cbv zeta. split; [vm_compute; reflexivity|]. split; [vm_compute; reflexivity|].
  split; [vm_compute; reflexivity|].
  intro H. apply (proj2 (QcS_eqb _ _)) in H. vm_compute in H. discriminate H.
Qed.
(* with the default fill factor p = 2 the same matrix is factored exactly *)
Lemma ilut_p2_exact_on_witness :
  let '(L, U, D, tie) := ilut (2 # 1)%Q (qz 0) ilut_witness [] in
  forallb (fun ij => seqb (lu_entry L U D (fst ij) (snd ij)) (mget ilut_witness (fst ij) (snd ij)))
          [(0,0); (0,1); (1,0); (1,1)]%nat = true.
Proof. vm_compute. reflexivity. Qed.


(* non-vacuity check for the sweep theorems: 3x3 tridiagonal A, x* = (1,2,3), f = A x*:
   hypotheses hold, x* is a fixed point of GS / Jacobi / ILU(0) / Chebyshev sweeps, and a sweep
   from another vector does move (so "sweep f x = x" is not trivially true) *)
Definition veqb {S : Scalar} (x y : vec S) : bool :=
  Nat.eqb (length x) (length y) && forallb (fun ab => seqb (fst ab) (snd ab)) (combine x y).
Definition c06_sweeps_check : bool :=
  let A : crs QcS := mkCrs 3 [[(0, qz 4); (1, qz (-1))]; [(0, qz (-1)); (1, qz 4); (2, qz (-1))];
                              [(1, qz (-1)); (2, qz 4)]]%nat in
  let xs := [qz 1; qz 2; qz 3] in let f := [qz 2; qz 4; qz 10] in let z := [qz 0; qz 0; qz 0] in
  wf A && has_diag A && rows_sorted A &&
  veqb (spmv (qz 1) A xs (qz 0) z) f &&
  veqb (gs_sweep A f xs true) xs && veqb (gs_sweep A f xs false) xs &&
  veqb (fst (jacobi_sweep (qc 1 2) (jacobi_setup A []) A f xs z)) xs &&
  veqb (fst (spai0_sweep (spai0_setup A) A f xs z)) xs &&
  negb (veqb (gs_sweep A f z true) z) &&
  match ilu0 A [] with
  | Ok (L, U, D) => veqb (fst (ilu_sweep (qc 3 4) L U D A f xs z)) xs
                    && veqb (ilu_apply L U D f z) xs      (* tridiagonal: exact solve *)
  | Err _ => false
  end.
Lemma c06_sweeps_check_ok : c06_sweeps_check = true.
Proof. vm_compute. reflexivity. Qed.

(* ILUP = ILU(0) applied to P = ilup_matrix k A (pattern of A^(k+1), values of A): exactness
   on the pattern of P is the instance of ilu0_exact_on_pattern. *)
Section Ilup.
Context {S : Scalar}.
Hypothesis Sft : Sfield S.
Hypothesis Seqb : seqb_spec S.
Lemma ilup_exact_on_pattern (k : nat) (A : crs S) (junk : vec S) L U D :
  let P := ilup_matrix k A in
  wf P = true -> ncols P = nrows P ->
  (forall i, i < nrows P -> sorted_strict (nth i (rows P) []) = true) ->
  has_diag P = true ->
  ilup k A junk = Ok (L, U, D) ->
  forall i j, i < nrows P -> has_col j (nth i (rows P) []) = true ->
    lu_entry L U D i j = mget P i j.
Proof. intros P. unfold ilup. apply (ilu0_exact_on_pattern Sft Seqb). Qed.
End Ilup.
(* FULL STATEMENT (unproved): for A with strictly sorted rows and a full diagonal,
     forall i j, mget (ilup_matrix k A) i j = mget A i j   and
     has_col j (row i of ilup_matrix k A) = true <-> (A^(k+1))_ij is structurally non-zero
   (symbolic product lemma).  Tested: the ilup oracle of tools/props/C06.py checks the
   implementation's factors against A on the independently computed pattern of A^(k+1). *)

(* FULL STATEMENT (unproved): ILU(k) is exact on every admitted position that was never dropped
   before its creation:
     iluk k A junk = (L, U, D) -> no_zero_pivot D = true -> rows sorted, full diagonal ->
     admitted L U i j = true -> (i,j) not dropped-then-re-admitted during the elimination of row i ->
     lu_entry L U D i j = mget A i j.
   Tested: tools/props/C06.py classifies every failing ILU(k) position with a symbolic replay of the
   level bookkeeping; a failure on a position that was NOT re-admitted after a drop is a violation. *)
