(* Capi.v -- model of the C interface lib/amgcl.cpp (C20).  No proofs here (CapiProofs.v).

   * matrix entry points: the matrix the library reads from the caller's CRS arrays through
     adapter/crs_tuple.hpp (row i = the entries ptr[i] .. ptr[i+1]-1), for the 0-based entry
     points and for the Fortran ones (transform iterators subtracting 1 from ptr and col,
     lib/amgcl.cpp:92-93, 158-159, 279-280), together with the trace of array positions
     that are dereferenced and the end iterators that are only formed;
   * handles: create/destroy life cycle as a state machine;
   * params setters: amgcl_params_seti/setf/sets = ptree::put on the dotted path
     (lib/amgcl.cpp:33-47), read_json = the parsed tree. *)
From Coq Require Import String Ascii List Bool Arith ZArith Lia.
From Amgcl Require Import Ptree.
Import ListNotations.
Local Open Scope Z_scope.

Section Matrix.
  Variable V : Type.
  Variable dv : V.

  (* ints of the caller's arrays are Z; positions are nat *)
  Definition zn (l : list Z) (i : nat) : Z := nth i l 0.

  (* row i as read through the crs_tuple adapter with index base `base` (0 or 1):
     m_col/m_val start at (ptr[i] - base), stop at (ptr[i+1] - base); every entry read is
     (col[j] - base, val[j]) *)
  Definition row_positions (base : Z) (ptr : list Z) (i : nat) : list nat :=
    let b := Z.to_nat (zn ptr i - base) in
    let e := Z.to_nat (zn ptr (i + 1) - base) in
    seq b (e - b).
  Definition read_row (base : Z) (ptr col : list Z) (val : list V) (i : nat) : list (Z * V) :=
    map (fun j => (zn col j - base, nth j val dv)) (row_positions base ptr i).
  Definition build (base : Z) (n : nat) (ptr col : list Z) (val : list V) : list (list (Z * V)) :=
    map (read_row base ptr col val) (seq 0 n).

  (* amgcl_*_create (0-based) and amgcl_*_create_f (1-based) *)
  Definition build_c := build 0.
  Definition build_f := build 1.

  (* positions of col[] / val[] that are dereferenced while the matrix is read *)
  Definition reads (base : Z) (n : nat) (ptr : list Z) : list nat :=
    flat_map (row_positions base ptr) (seq 0 n).
  (* positions of ptr[] that are dereferenced: 0 .. n *)
  Definition ptr_reads (n : nat) : list nat := seq 0 (n + 1).
  (* the end iterator formed by make_iterator_range(col, col + ptr[n]) (never dereferenced):
     its offset is the RAW ptr[n], also in the Fortran variants *)
  Definition formed_end (n : nat) (ptr : list Z) : Z := zn ptr n.

  (* well-formed CRS arrays in base `base` with nnz entries *)
  Fixpoint monotone (l : list Z) : bool :=
    match l with
    | a :: ((b :: _) as t) => (a <=? b) && monotone t
    | _ => true
    end.
  Definition wf_arrays (base : Z) (n nnz : nat) (ptr col : list Z) (val : list V) : Prop :=
    length ptr = (n + 1)%nat /\ zn ptr 0 = base /\ zn ptr n = Z.of_nat nnz + base /\
    monotone ptr = true /\ length col = nnz /\ length val = nnz.
End Matrix.

(* ---- handle life cycle ------------------------------------------------------------- *)
Inductive hkind := HParams | HPrecond | HSolver.
Definition hkind_eqb (a b : hkind) : bool :=
  match a, b with HParams, HParams | HPrecond, HPrecond | HSolver, HSolver => true | _, _ => false end.

Inductive cop :=
| Create (k : hkind) (h : nat)          (* amgcl_<k>_create returned handle h *)
| Use (k : hkind) (h : nat)             (* set*/apply/solve/report on h, or h passed as the params of a create *)
| Destroy (k : hkind) (h : nat).        (* amgcl_<k>_destroy(h) *)

Definition live := list (nat * hkind).
Fixpoint lookup_h (h : nat) (s : live) : option hkind :=
  match s with [] => None | (h', k) :: s' => if Nat.eqb h' h then Some k else lookup_h h s' end.
Definition remove_h (h : nat) (s : live) : live := filter (fun e => negb (Nat.eqb (fst e) h)) s.

(* None = undefined behaviour in the C++ (dangling / wrongly typed void*, double delete) *)
Definition cstep (s : live) (o : cop) : option live :=
  match o with
  | Create k h => match lookup_h h s with None => Some ((h, k) :: s) | Some _ => None end
  | Use k h => match lookup_h h s with Some k' => if hkind_eqb k k' then Some s else None | None => None end
  | Destroy k h => match lookup_h h s with Some k' => if hkind_eqb k k' then Some (remove_h h s) else None | None => None end
  end.
Fixpoint crun (s : live) (os : list cop) : option live :=
  match os with [] => Some s | o :: os' => match cstep s o with Some s' => crun s' os' | None => None end end.

(* a client that respects the protocol: handles are used and destroyed only while live and
   with the kind they were created with *)
Fixpoint disciplined (s : live) (os : list cop) : bool :=
  match os with
  | [] => true
  | o :: os' => match cstep s o with Some s' => disciplined s' os' | None => false end
  end.

(* ---- params setters ------------------------------------------------------------------ *)
Local Open Scope string_scope.
(* "a.b.c" -> [a;b;c] (boost::property_tree::path with '.' separator); "" -> [] *)
Fixpoint split_dots_aux (s : string) (cur : string) : list string :=
  match s with
  | EmptyString => [cur]
  | String c s' => if Ascii.eqb c "."%char then cur :: split_dots_aux s' "" else split_dots_aux s' (cur ++ String c "")
  end.
Definition split_dots (s : string) : list string :=
  match s with EmptyString => [] | _ => split_dots_aux s "" end.

(* amgcl_params_seti / setf / sets: the value arrives as its text *)
Definition capi_set (name : string) (text : string) (prm : ptree) : ptree :=
  put_path (split_dots name) text prm.
Definition capi_sets (script : list (string * string)) (prm : ptree) : ptree :=
  fold_left (fun p e => capi_set (fst e) (snd e) p) script prm.
(* what a component reads back: p.get(path) *)
Definition capi_get (name : string) (prm : ptree) : option string :=
  match get_path (split_dots name) prm with Some n => Some (pdata n) | None => None end.
