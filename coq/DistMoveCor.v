(* DistMoveCor.v -- the consumer theorems of C11 transferred to a distributed_matrix object AFTER any number of
   move_to_backend(bprm, keep_src = true) calls (DistMove.v): the kept source IS the source
   (DistMoveProofs.kept_source_of_constructed), so every theorem about [split A rparts cparts] applies to what
   local()/remote() return afterwards; and mul/residual on the backend view equal the serial kernels after ANY
   history of move_to_backend calls. *)
From Coq Require Import Lia Permutation.
From Amgcl Require Import Scalar QcInst Vec Crs Kernels KernelsProofs MatOps MatOpsProofs Cheby Dist DistProofs DistProofsB
  DistProofsT DistProofsP DistProofsG DistMove DistMoveProofs.
Local Open Scope nat_scope.

Definition all_keep (ks : list bool) : bool := forallb (fun k => k) ks.

Section AnyS.
Context {S : Scalar}.

Theorem transpose_after_keep (A : crs S) (rparts cparts : list nat) (ks : list bool) :
  all_keep ks = true ->
  length rparts = length cparts -> psum rparts = nrows A -> psum cparts = ncols A ->
  exists D, source (moves ks (construct (split A rparts cparts))) = Some D /\
    let T := assemble (dist_transpose D rparts) in
    ncols T = nrows A /\
    forall j, j < ncols A -> Permutation (nth j (rows T) []) (nth j (rows (transpose A)) []).
Proof.
  intros Hk H1 H2 H3. exists (split A rparts cparts). split.
  - apply kept_source_of_constructed. exact Hk.
  - exact (dist_transpose_assembled_perm A rparts cparts H1 H2 H3).
Qed.

Theorem scale_sort_after_keep (A : crs S) (rparts cparts : list nat) (ks : list bool) (s : S) :
  all_keep ks = true ->
  exists D, source (moves ks (construct (split A rparts cparts))) = Some D /\
    dist_scale D s = split (mscale A s) rparts cparts.
Proof.
  intro Hk. exists (split A rparts cparts). split.
  - apply kept_source_of_constructed. exact Hk.
  - apply dist_scale_split.
Qed.

(* copy to another backend, then any history on the copy that starts with a move_to_backend: products and residuals
   through the copy are those of the source *)
Theorem copy_after_keep (D : dmat S) (ks : list bool) :
  all_keep ks = true -> length (dm_ranks D) = length (dm_cparts D) ->
  exists O', copy_obj (moves ks (construct D)) = Some O' /\
    forall k' ks' alpha xs beta ys,
      obj_spmv alpha (moves (k' :: ks') O') xs beta ys = map Some (dist_spmv alpha D xs beta ys).
Proof.
  intros Hk HL. exists (construct D). split.
  - apply copy_of_kept_is_construct. exact Hk.
  - intros. apply history_spmv_is_source_spmv. exact HL.
Qed.
End AnyS.

Section Ring.
Variable S : Scalar.
Hypothesis Srt : Sring S.
Hypothesis Seqb : seqb_spec S.

(* mul / residual after ANY history k :: ks of move_to_backend calls (keep_src true or false, in any order) *)
Theorem spmv_after_history (A : crs S) (rparts cparts : list nat) k ks alpha (x : vec S) beta (y : vec S) :
  length rparts = length cparts -> psum rparts = nrows A -> psum cparts = ncols A ->
  wf A = true -> length y = nrows A ->
  exists ys', obj_spmv alpha (moves (k :: ks) (construct (split A rparts cparts))) (chunks cparts x) beta (chunks rparts y)
              = map Some ys' /\
              concat ys' = spmv alpha A x beta y.
Proof.
  intros H1 H2 H3 H4 H5. eexists. split.
  - apply history_spmv_is_source_spmv. apply split_ranks_length.
  - exact (dist_spmv_assembled Srt Seqb A rparts cparts H1 H2 H3 H4 alpha x beta y H5).
Qed.

Theorem residual_after_history (A : crs S) (rparts cparts : list nat) k ks (f x res : vec S) :
  length rparts = length cparts -> psum rparts = nrows A -> psum cparts = ncols A ->
  wf A = true -> length f = nrows A -> length res = nrows A ->
  exists rs', obj_residual (chunks rparts f) (moves (k :: ks) (construct (split A rparts cparts))) (chunks cparts x) (chunks rparts res)
              = map Some rs' /\
              concat rs' = residual f A x res.
Proof.
  intros H1 H2 H3 H4 H5 H6. eexists. split.
  - apply history_residual_is_source_residual. apply split_ranks_length.
  - exact (dist_residual_assembled Srt Seqb A rparts cparts H1 H2 H3 H4 f x res H5 H6).
Qed.

(* product of two objects whose sources were kept *)
Theorem product_after_keep (A B : crs S) (rpA cpA cpB : list nat) (ksA ksB : list bool) :
  all_keep ksA = true -> all_keep ksB = true ->
  length rpA = length cpA -> length cpA = length cpB -> psum rpA = nrows A -> psum cpA = nrows B ->
  exists DA DB, source (moves ksA (construct (split A rpA cpA))) = Some DA /\
                source (moves ksB (construct (split B cpA cpB))) = Some DB /\
    let C := assemble (dist_product DA DB) in
    ncols C = psum cpB /\
    length (rows C) = length (rows (spgemm_saad A B false)) /\
    forall i j, mget C i j = mget (spgemm_saad A B false) i j.
Proof.
  intros HkA HkB H1 H2 H3 H4. exists (split A rpA cpA), (split B cpA cpB).
  split; [apply kept_source_of_constructed; exact HkA|].
  split; [apply kept_source_of_constructed; exact HkB|].
  split; [|split].
  - exact (proj1 (dist_product_assembled Srt A B rpA cpA cpB H1 H2 H3 H4)).
  - exact (dist_product_rows Srt A B rpA cpA cpB H1 H2 H3 H4).
  - exact (dist_product_dense Srt A B rpA cpA cpB H1 H2 H3 H4).
Qed.
End Ring.

Theorem gershgorin_after_keep (S : Scalar) :
  (forall a : S, sltb a a = false) ->
  (forall a b c : S, sltb a b = true -> sltb b c = true -> sltb a c = true) ->
  (forall a b : S, sltb a b = false -> sltb b a = false -> a = b) ->
  Sring S ->
  forall (scale : bool) (lenss : list (list nat)) (A : crs S) (parts : list nat) (ks : list bool),
  all_keep ks = true ->
  psum parts = nrows A ->
  (forall r, r < length parts -> psize parts r <= psum (nth r lenss [])) ->
  exists D, source (moves ks (construct (split A parts parts))) = Some D /\
    dist_gershgorin_thr scale lenss D = repeat (gershgorin scale A) (length parts).
Proof.
  intros Hi Ht Htot Srt scale lenss A parts ks Hk Hp Hl. exists (split A parts parts). split.
  - apply kept_source_of_constructed. exact Hk.
  - exact (@dist_gershgorin_thr_split S Hi Ht Htot Srt scale lenss A parts Hp Hl).
Qed.
