(* Extract_direct.v -- extraction of the C16 models (direct and dense kernels) to OCaml.
   Same directives as Extract_kernels.v (trusted base, DESIGN.md section 6). *)
From Coq Require Import Extraction ExtrOcamlBasic ExtrOcamlNatInt ExtrOcamlZBigInt.
From Coq Require Import QArith Qcanon.
From Amgcl Require Import Scalar QcInst Vec Crs Kernels DirectUtil CuthillMcKee Direct Inverse StaticMat Qr QrObj DirectSpec.
Extraction Blacklist List String Int Nat.
Set Extraction Optimize.
Separate Extraction
  QcInst.QcS Scalar.is_zero Scalar.smax Scalar.smin
  Vec Crs Kernels DirectUtil CuthillMcKee Direct Inverse StaticMat Qr QrObj DirectSpec.
